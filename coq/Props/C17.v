(* Property C17 - wallet-facing indexes match the main chain: histories, tx heights, height index.
   Statements only; proofs in Proofs/Paging.v, Proofs/Restart.v. *)
From Virel Require Import Lib.Config Lib.U64 Lib.AMap Model.Ledger Model.Node Model.Paging
  Proofs.NodeBasics Proofs.Paging Proofs.Restart.
Open Scope N_scope.

(* "every history page": for every history length n below 2^63 the pages served by get_tx_list partition the ids 1..n:
   page 0 ends at n, the last page starts at 1, consecutive pages are adjacent, no page exceeds 25 entries, and a page
   number beyond the last serves the last page *)
Theorem C17_pages_partition : forall n, n < two63 ->
  let mp := if 0 <? n then (n - 1) / page_size else 0 in
  snd (fst (page_range n 0)) = n /\
  fst (fst (page_range n mp)) = 1 /\
  (forall p, p < mp -> fst (fst (page_range n p)) = snd (fst (page_range n (p + 1))) + 1) /\
  (forall p, p <= mp -> snd (fst (page_range n p)) + 1 - fst (fst (page_range n p)) <= page_size) /\
  (forall p, mp < p -> page_range n p = page_range n mp).
Proof. exact pages_partition. Qed.
Print Assumptions C17_pages_partition.

(* the block served for a hash is the block that was accepted under that hash *)
Theorem C17_accepted_block_served : forall cfg genesis_addr team_key n b now n' amb,
  deliver cfg genesis_addr team_key n b now = (n', Accepted, amb) -> get_block n' (b_hash b) = Some b.
Proof. exact accepted_is_stored. Qed.
Print Assumptions C17_accepted_block_served.

Theorem C17_rejected_unchanged : forall cfg genesis_addr team_key n b now n' c amb,
  deliver cfg genesis_addr team_key n b now = (n', Rejected c, amb) -> n' = n.
Proof. exact deliver_rejected_unchanged. Qed.
Print Assumptions C17_rejected_unchanged.

(* NOT PROVED (stated): after any history the numbered incoming/outgoing histories list exactly the main-chain events,
   tx heights are those of the containing main-chain block, and the height index links genesis to the tip.  These are
   decided on the implementation's dumps against an independent replay of the chain content (Check/C17.v). *)
