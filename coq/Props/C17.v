(* Property C17 - wallet-facing indexes match the main chain: histories, tx heights, height index.
   Statements only; proofs in Proofs/Paging.v, Proofs/Restart.v, Proofs/ChainInv.v, Proofs/ChainRun.v,
   Proofs/ChainExamples.v. *)
From Virel Require Import Lib.Config Lib.U64 Lib.AMap Model.Ledger Model.Node Model.Paging Spec.Chain
  Proofs.NodeBasics Proofs.ForkChoice Proofs.Paging Proofs.Restart Proofs.ChainInv Proofs.ChainRun Proofs.ChainHeights
  Proofs.ChainExamples Gen.Params.
Open Scope N_scope.

(* "every history page": for every history length n below 2^63 the pages served by get_tx_list partition the ids 1..n:
   page 0 ends at n, the last page starts at 1, consecutive pages are adjacent, no page exceeds 25 entries, and a page
   number beyond the last serves the last page *)
Theorem C17_pages_partition : forall n, n < two63 ->
  let mp := if 0 <? n then (n - 1) / page_size else 0 in
  snd (fst (page_range n 0)) = n /\
  fst (fst (page_range n mp)) = 1 /\
  (forall p, p < mp -> fst (fst (page_range n p)) = snd (fst (page_range n (p + 1))) + 1) /\
  (forall p, p <= mp -> snd (fst (page_range n p)) + 1 - fst (fst (page_range n p)) <= page_size) /\
  (forall p, mp < p -> page_range n p = page_range n mp).
Proof. exact pages_partition. Qed.
Print Assumptions C17_pages_partition.

(* the block served for a hash is the block that was accepted under that hash *)
Theorem C17_accepted_block_served : forall cfg genesis_addr team_key n b now n' amb,
  deliver cfg genesis_addr team_key n b now = (n', Accepted, amb) -> get_block n' (b_hash b) = Some b.
Proof. exact accepted_is_stored. Qed.
Print Assumptions C17_accepted_block_served.

Theorem C17_rejected_unchanged : forall cfg genesis_addr team_key n b now n' c amb,
  deliver cfg genesis_addr team_key n b now = (n', Rejected c, amb) -> n' = n.
Proof. exact deliver_rejected_unchanged. Qed.
Print Assumptions C17_rejected_unchanged.

(* "the height index links genesis to the tip, nothing above the tip": after EVERY sequence of fewer than 2^64 - 1
   deliveries (any blocks, any order, any clock readings) the index has entries exactly for the heights 0..top_h: it maps
   top_h to the tip and 0 to genesis, every height up to top_h to a stored block of that height whose parent is the entry
   one below, and has no entry above top_h (top_h is the height of the tip block: C10_top_height_is_tip_height). *)
Theorem C17_height_index_is_main_chain : forall cfg genesis_addr team_key g n0 ops,
  node0 cfg genesis_addr g = Ok n0 -> b_height g = 0 -> b_cd g = b_diff g ->
  N.of_nat (length ops) < two64 - 1 ->
  let n := run cfg genesis_addr team_key n0 ops in
  get_topo n (top_h n) = Some (top n) /\
  get_topo n 0 = Some (b_hash g) /\
  (forall ht, top_h n < ht -> get_topo n ht = None) /\
  (forall ht, ht <= top_h n ->
     exists y yb, get_topo n ht = Some y /\ get_block n y = Some yb /\ b_height yb = ht /\
                  (0 < ht -> get_topo n (ht - 1) = Some (prev_hash yb))).
Proof. exact height_index_is_main_chain. Qed.
Print Assumptions C17_height_index_is_main_chain.

(* hence: following prev_hash from the tip for top_h steps meets exactly index[top_h], ..., index[1], index[0]
   (walk, heights_down: Spec/Chain.v) *)
Theorem C17_walk_from_tip_is_index : forall cfg genesis_addr team_key g n0 ops,
  node0 cfg genesis_addr g = Ok n0 -> b_height g = 0 -> b_cd g = b_diff g ->
  N.of_nat (length ops) < two64 - 1 ->
  let n := run cfg genesis_addr team_key n0 ops in
  map (get_topo n) (heights_down (N.to_nat (top_h n))) = map Some (walk (blocks n) (N.to_nat (top_h n)) (top n)).
Proof. exact walk_from_top_is_index. Qed.
Print Assumptions C17_walk_from_tip_is_index.

(* non-vacuity: a concrete history satisfying the premises, with a reorganisation to a heavier but shorter chain *)
Theorem C17_index_premises_satisfiable :
  exists n0, node0 cfg_verifnet 7 w_genesis = Ok n0 /\ b_height w_genesis = 0 /\ b_cd w_genesis = b_diff w_genesis /\
    N.of_nat (length sr_ops) < two64 - 1 /\
    w_outcomes n0 sr_ops = [Accepted; Accepted; Accepted; Accepted; Accepted] /\
    (let n := run cfg_verifnet 7 0 n0 (firstn 4 sr_ops) in
     topo n = [(0, 1); (1, 2); (2, 3); (3, 8)] /\ top n = 8 /\ top_h n = 3) /\
    (let n := run cfg_verifnet 7 0 n0 sr_ops in
     topo n = [(0, 1); (1, 4); (2, 6)] /\ top n = 6 /\ top_h n = 2 /\ walk (blocks n) 2 (top n) = [6; 4; 1] /\
     tips n = [(8, mktip 8 3 11)]).
Proof. exact shorter_heavier_reorg_example. Qed.
Print Assumptions C17_index_premises_satisfiable.

(* NOT PROVED (stated): after any history the numbered incoming/outgoing histories list exactly the main-chain events and
   tx heights are those of the containing main-chain block (the height index part IS proved above).  These are
   decided on the implementation's dumps against an independent replay of the chain content (Check/C17.v). *)
