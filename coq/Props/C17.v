(* Property C17 - wallet-facing indexes match the main chain: histories, tx heights, height index.
   Statements only; proofs in Proofs/Paging.v, Proofs/Restart.v, Proofs/ChainInv.v, Proofs/ChainRun.v,
   Proofs/ChainExamples.v; the incoming / outgoing histories and the transaction heights in Proofs/History1.v (numbered
   histories; the ledger operations as steps on them), History2.v (ledgers: extension and reorganisation), History3.v
   (every delivery sequence), History4.v (the event lists = those of Check/C17.v), HistoryExamples.v (concrete histories);
   the decision logic of the RPC handlers get_block_by_height / get_block_by_hash / get_transaction (Model/Rpc.v) on every
   reachable node state in Proofs/RpcHandlers.v. *)
From Virel Require Import Lib.Config Lib.U64 Lib.AMap Model.Emission Model.Ledger Model.Node Model.Rpc Model.Paging Spec.Chain
  Proofs.Emission Proofs.Conservation Proofs.Pointwise Proofs.Refine2
  Proofs.NodeBasics Proofs.ForkChoice Proofs.Paging Proofs.Restart Proofs.ChainInv Proofs.ChainRun Proofs.ChainHeights
  Proofs.ChainExamples Proofs.Undo2 Proofs.Undo4 Proofs.Replay2 Proofs.Replay3 Proofs.Replay4 Proofs.Replay5 Proofs.Replay6
  Proofs.History1 Proofs.History2 Proofs.History3 Proofs.History4 Proofs.HistoryExamples Proofs.RpcHandlers
  Check.Hist Check.C01 Check.C17 Gen.Params.
From Virel Require Model.Des Model.Codec Spec.TxAbs Proofs.CodecBridge Proofs.CodecBridgeNode.
Open Scope N_scope.

(* "every history page": for every history length n below 2^63 the pages served by get_tx_list partition the ids 1..n:
   page 0 ends at n, the last page starts at 1, consecutive pages are adjacent, no page exceeds 25 entries, and a page
   number beyond the last serves the last page *)
Theorem C17_pages_partition : forall n, n < two63 ->
  let mp := if 0 <? n then (n - 1) / page_size else 0 in
  snd (fst (page_range n 0)) = n /\
  fst (fst (page_range n mp)) = 1 /\
  (forall p, p < mp -> fst (fst (page_range n p)) = snd (fst (page_range n (p + 1))) + 1) /\
  (forall p, p <= mp -> snd (fst (page_range n p)) + 1 - fst (fst (page_range n p)) <= page_size) /\
  (forall p, mp < p -> page_range n p = page_range n mp).
Proof. exact pages_partition. Qed.
Print Assumptions C17_pages_partition.

(* the block served for a hash is the block that was accepted under that hash *)
Theorem C17_accepted_block_served : forall cfg genesis_addr team_key n b now n' amb,
  deliver cfg genesis_addr team_key n b now = (n', Accepted, amb) -> get_block n' (b_hash b) = Some b.
Proof. exact accepted_is_stored. Qed.
Print Assumptions C17_accepted_block_served.

Theorem C17_rejected_unchanged : forall cfg genesis_addr team_key n b now n' c amb,
  deliver cfg genesis_addr team_key n b now = (n', Rejected c, amb) -> n' = n.
Proof. exact deliver_rejected_unchanged. Qed.
Print Assumptions C17_rejected_unchanged.

(* "the height index links genesis to the tip, nothing above the tip": after EVERY sequence of fewer than 2^64 - 1
   deliveries (any blocks, any order, any clock readings) the index has entries exactly for the heights 0..top_h: it maps
   top_h to the tip and 0 to genesis, every height up to top_h to a stored block of that height whose parent is the entry
   one below, and has no entry above top_h (top_h is the height of the tip block: C10_top_height_is_tip_height). *)
Theorem C17_height_index_is_main_chain : forall cfg genesis_addr team_key g n0 ops,
  node0 cfg genesis_addr g = Ok n0 -> b_height g = 0 -> b_cd g = b_diff g ->
  N.of_nat (length ops) < two64 - 1 ->
  let n := run cfg genesis_addr team_key n0 ops in
  get_topo n (top_h n) = Some (top n) /\
  get_topo n 0 = Some (b_hash g) /\
  (forall ht, top_h n < ht -> get_topo n ht = None) /\
  (forall ht, ht <= top_h n ->
     exists y yb, get_topo n ht = Some y /\ get_block n y = Some yb /\ b_height yb = ht /\
                  (0 < ht -> get_topo n (ht - 1) = Some (prev_hash yb))).
Proof. exact height_index_is_main_chain. Qed.
Print Assumptions C17_height_index_is_main_chain.

(* hence: following prev_hash from the tip for top_h steps meets exactly index[top_h], ..., index[1], index[0]
   (walk, heights_down: Spec/Chain.v) *)
Theorem C17_walk_from_tip_is_index : forall cfg genesis_addr team_key g n0 ops,
  node0 cfg genesis_addr g = Ok n0 -> b_height g = 0 -> b_cd g = b_diff g ->
  N.of_nat (length ops) < two64 - 1 ->
  let n := run cfg genesis_addr team_key n0 ops in
  map (get_topo n) (heights_down (N.to_nat (top_h n))) = map Some (walk (blocks n) (N.to_nat (top_h n)) (top n)).
Proof. exact walk_from_top_is_index. Qed.
Print Assumptions C17_walk_from_tip_is_index.

(* non-vacuity: a concrete history satisfying the premises, with a reorganisation to a heavier but shorter chain *)
Theorem C17_index_premises_satisfiable :
  exists n0, node0 cfg_verifnet 7 w_genesis = Ok n0 /\ b_height w_genesis = 0 /\ b_cd w_genesis = b_diff w_genesis /\
    N.of_nat (length sr_ops) < two64 - 1 /\
    w_outcomes n0 sr_ops = [Accepted; Accepted; Accepted; Accepted; Accepted] /\
    (let n := run cfg_verifnet 7 0 n0 (firstn 4 sr_ops) in
     topo n = [(0, 1); (1, 2); (2, 3); (3, 8)] /\ top n = 8 /\ top_h n = 3) /\
    (let n := run cfg_verifnet 7 0 n0 sr_ops in
     topo n = [(0, 1); (1, 4); (2, 6)] /\ top n = 6 /\ top_h n = 2 /\ walk (blocks n) 2 (top n) = [6; 4; 1] /\
     tips n = [(8, mktip 8 3 11)]).
Proof. exact shorter_heavier_reorg_example. Qed.
Print Assumptions C17_index_premises_satisfiable.

(* ================================================================================================================ *)
(* THE HISTORIES AND THE TRANSACTION HEIGHTS, as theorems about the node: whatever route a node took to its current main
   chain (extensions, any number of reorganisations, refused or crashing deliveries, blocks of other branches stored,
   the same transaction on several branches), its three wallet-facing indexes are those of the main chain.

   n0 = the node after the genesis block; n = the node after any sequence of deliveries.  [mchain n] = the stored blocks
   filed in the height index under 1 .. top_h, lowest first (C03_main_chain_is_height_index), [main_lbs g n] = the
   genesis block followed by them (as the ledger sees them).  The events are read off the chain CONTENT, as Check/C17.v
   does for a dump of the implementation (Proofs/History1.v):
     tx_credits t     the outputs of a transaction (recipient, tx id): transfer outputs, the burn address for a
                      registration, the pool address for a stake, the signer for an unstake;
     cb_credits b     the coinbase outputs (recipient by output type, block hash), total = reward + fees as the code sums
                      them;
     block_credits b  = the credits of its transactions in order, then the coinbase;   main_credits = all blocks in order;
     block_signs b    = (address of the signer, tx id) of its transactions in order;    main_signs likewise;
     evs_for a E      = the ids of the events of E that concern address a, in order.
   PREMISES: those of C03_ledger_is_replay (constants; genesis; fewer than 2^64 - 1 deliveries; [typed]: uint64-typed
   amounts and version byte of the payload kind for every transaction of a stored block - derived from the byte-level
   decoder in the *_decoded variants below, whose premise is "abstraction of a decoder output"; [paths]: along every chain of
   stored blocks from genesis the block hashes and transaction ids are pairwise distinct and the counters cannot wrap).
   Nothing is assumed about transaction ids ACROSS branches: a transaction may sit in a main-chain block and in stored
   blocks of other branches, at other heights (C17_same_tx_two_branches_example).

   Incoming histories.  For every address a: the incoming counter of its account record is the number of crediting
   events of a on the main chain, and for every k from 1 to the counter the entry (a, k) of the incoming index is the id
   of the k-th such event in chain order.  Entries ABOVE the counter may exist (left by disconnected blocks:
   C17_index_reorg_example) - the node serves the entries 1 .. counter only; a later block overwrites them. *)
Theorem C17_incoming_history_is_main_chain : forall cfg genesis_addr team_key g n0 ops,
  cfg_ok_emission cfg = true -> cfg_ok_feepos cfg = true ->
  node0 cfg genesis_addr g = Ok n0 -> b_height g = 0 -> b_cd g = b_diff g ->
  N.of_nat (length ops) < two64 - 1 ->
  let n := run cfg genesis_addr team_key n0 ops in
  Forall (tx_c cfg) (b_txs g) ->
  (forall h b, get_block n h = Some b -> Forall (fun t => wf_tx cfg t /\ ver_ok t = true) (b_txs b)) ->
  (forall bs, up (b_hash g) (blocks n) (b_hash g) bs ->
     NoDup (bkeys g ++ flat_map bkeys bs) /\ c0 g + bnouts bs < two64 /\ c0 g + bntx bs < two64) ->
  forall a,
    let evs := evs_for a (main_credits cfg genesis_addr g n) in
    inc (acct_at (ldg n) a) = N.of_nat (length evs) /\
    forall k, 1 <= k <= inc (acct_at (ldg n) a) -> pget (intx (ldg n)) (a, k) = Some (nth (N.to_nat (k - 1)) evs 0).
Proof. exact incoming_history_is_main_chain. Qed.
Print Assumptions C17_incoming_history_is_main_chain.

(* Outgoing histories.  For every address a: the nonce of its account record is the number of main-chain transactions
   signed by a, and the entry (a, k) of the outgoing index, 1 <= k <= nonce, is the id of the k-th of them. *)
Theorem C17_outgoing_history_is_main_chain : forall cfg genesis_addr team_key g n0 ops,
  cfg_ok_emission cfg = true -> cfg_ok_feepos cfg = true ->
  node0 cfg genesis_addr g = Ok n0 -> b_height g = 0 -> b_cd g = b_diff g ->
  N.of_nat (length ops) < two64 - 1 ->
  let n := run cfg genesis_addr team_key n0 ops in
  Forall (tx_c cfg) (b_txs g) ->
  (forall h b, get_block n h = Some b -> Forall (fun t => wf_tx cfg t /\ ver_ok t = true) (b_txs b)) ->
  (forall bs, up (b_hash g) (blocks n) (b_hash g) bs ->
     NoDup (bkeys g ++ flat_map bkeys bs) /\ c0 g + bnouts bs < two64 /\ c0 g + bntx bs < two64) ->
  forall a,
    let evs := evs_for a (main_signs g n) in
    nonce (acct_at (ldg n) a) = N.of_nat (length evs) /\
    forall k, 1 <= k <= nonce (acct_at (ldg n) a) -> pget (outtx (ldg n)) (a, k) = Some (nth (N.to_nat (k - 1)) evs 0).
Proof. exact outgoing_history_is_main_chain. Qed.
Print Assumptions C17_outgoing_history_is_main_chain.

(* Transaction heights.  [on_main g n B]: B is the genesis block or a block of mchain n.  Every transaction of a
   main-chain block has the height of that block in the table; every id that belongs to no main-chain block has no
   entry or the height 0 (RemoveTxFromState resets it).  The table keeps ONE height per id: when the same transaction
   sits in a disconnected block and in a block of the new main chain, the removal (which runs first) sets 0 and the
   application then sets the height of the new block. *)
Theorem C17_tx_heights : forall cfg genesis_addr team_key g n0 ops,
  cfg_ok_emission cfg = true -> cfg_ok_feepos cfg = true ->
  node0 cfg genesis_addr g = Ok n0 -> b_height g = 0 -> b_cd g = b_diff g ->
  N.of_nat (length ops) < two64 - 1 ->
  let n := run cfg genesis_addr team_key n0 ops in
  Forall (tx_c cfg) (b_txs g) ->
  (forall h b, get_block n h = Some b -> Forall (fun t => wf_tx cfg t /\ ver_ok t = true) (b_txs b)) ->
  (forall bs, up (b_hash g) (blocks n) (b_hash g) bs ->
     NoDup (bkeys g ++ flat_map bkeys bs) /\ c0 g + bnouts bs < two64 /\ c0 g + bntx bs < two64) ->
  (forall B t, on_main g n B -> In t (b_txs B) -> nget (txh (ldg n)) (tx_id t) = Some (b_height B)) /\
  (forall id, (forall B t, on_main g n B -> In t (b_txs B) -> tx_id t <> id) ->
     nget (txh (ldg n)) id = None \/ nget (txh (ldg n)) id = Some 0).
Proof. exact tx_heights_are_main_chain. Qed.
Print Assumptions C17_tx_heights.

(* the histories in the form in which Check/C17.v compares a dump ([served idx a count] = the entries 1 .. count):
   what the node serves for an address = the events of the main chain for that address, in chain order *)
Theorem C17_histories_as_served : forall cfg genesis_addr team_key g n0 ops,
  cfg_ok_emission cfg = true -> cfg_ok_feepos cfg = true ->
  node0 cfg genesis_addr g = Ok n0 -> b_height g = 0 -> b_cd g = b_diff g ->
  N.of_nat (length ops) < two64 - 1 ->
  let n := run cfg genesis_addr team_key n0 ops in
  Forall (tx_c cfg) (b_txs g) ->
  (forall h b, get_block n h = Some b -> Forall (fun t => wf_tx cfg t /\ ver_ok t = true) (b_txs b)) ->
  (forall bs, up (b_hash g) (blocks n) (b_hash g) bs ->
     NoDup (bkeys g ++ flat_map bkeys bs) /\ c0 g + bnouts bs < two64 /\ c0 g + bntx bs < two64) ->
  forall a,
    map (fun i => pget (intx (ldg n)) (a, N.of_nat i)) (seq 1 (N.to_nat (inc (acct_at (ldg n) a)))) =
      map Some (evs_for a (main_credits cfg genesis_addr g n)) /\
    map (fun i => pget (outtx (ldg n)) (a, N.of_nat i)) (seq 1 (N.to_nat (nonce (acct_at (ldg n) a)))) =
      map Some (evs_for a (main_signs g n)).
Proof. exact histories_as_served. Qed.
Print Assumptions C17_histories_as_served.

(* the event lists of these theorems are the lists Check/C17.v replays from the chain of a dump (block_credits,
   block_signs of Check/C17.v over genesis :: main chain, totals as plain numbers): every block of the main chain was
   accepted by ApplyBlockToState, whose checks 391 / 393 say that the fee total and reward + fees did not wrap.
   [h] is any history record of the harness with the same genesis address (it only supplies that address). *)
Theorem C17_main_events_as_checked : forall cfg, cfg_ok_emission cfg = true ->
  forall genesis_addr team_key g n0 ops h,
  cfg_ok_feepos cfg = true ->
  node0 cfg genesis_addr g = Ok n0 -> b_height g = 0 -> b_cd g = b_diff g ->
  N.of_nat (length ops) < two64 - 1 ->
  let n := run cfg genesis_addr team_key n0 ops in
  Forall (tx_c cfg) (b_txs g) ->
  (forall h b, get_block n h = Some b -> Forall (fun t => wf_tx cfg t /\ ver_ok t = true) (b_txs b)) ->
  (forall bs, up (b_hash g) (blocks n) (b_hash g) bs ->
     NoDup (bkeys g ++ flat_map bkeys bs) /\ c0 g + bnouts bs < two64 /\ c0 g + bntx bs < two64) ->
  h_genesis_addr h = genesis_addr ->
  main_credits cfg genesis_addr g n = flat_map (Check.C17.block_credits cfg h) (g :: mchain n) /\
  main_signs g n = flat_map Check.C17.block_signs (g :: mchain n).
Proof. exact main_events_as_checked. Qed.
Print Assumptions C17_main_events_as_checked.

(* ---- THE SAME THEOREMS WITH THE TYPING PREMISE DISCHARGED FROM THE CODEC (Proofs/CodecBridge*.v), exactly as
   C03_ledger_is_replay_decoded: [typed] is replaced by "every transaction x of a stored block other than genesis is the
   abstraction (TxAbs.abs_tx, under any numbering: the seven functions quantified first) of a value Transaction.Deserialize
   returned on some byte string in one of its two modes"; cfg_ok_burn = REGISTER_BURN < 2^64. ---- *)
Theorem C17_incoming_history_decoded :
  forall (txid_of key_id addr_id name_id : list N -> N) (sig_by : Model.Codec.tx -> N) (sig_msg : Model.Codec.tx -> bool)
         (signer_invalid : list N -> bool) cfg genesis_addr team_key g n0 ops,
  cfg_ok_emission cfg = true -> cfg_ok_feepos cfg = true -> CodecBridge.cfg_ok_burn cfg = true ->
  node0 cfg genesis_addr g = Ok n0 -> b_height g = 0 -> b_cd g = b_diff g ->
  N.of_nat (length ops) < two64 - 1 ->
  let n := run cfg genesis_addr team_key n0 ops in
  Forall (tx_c cfg) (b_txs g) ->
  (forall h b, get_block n h = Some b -> h <> b_hash g ->
     Forall (fun x => exists hv bs t,
               Model.Des.result_of (Model.Des.run (Model.Codec.dec_tx cfg hv) bs) = Model.Des.ROk t /\
               x = TxAbs.abs_tx txid_of key_id addr_id name_id sig_by sig_msg signer_invalid t) (b_txs b)) ->
  (forall bs, up (b_hash g) (blocks n) (b_hash g) bs ->
     NoDup (bkeys g ++ flat_map bkeys bs) /\ c0 g + bnouts bs < two64 /\ c0 g + bntx bs < two64) ->
  forall a,
    let evs := evs_for a (main_credits cfg genesis_addr g n) in
    inc (acct_at (ldg n) a) = N.of_nat (length evs) /\
    forall k, 1 <= k <= inc (acct_at (ldg n) a) -> pget (intx (ldg n)) (a, k) = Some (nth (N.to_nat (k - 1)) evs 0).
Proof. exact CodecBridgeNode.incoming_history_decoded. Qed.
Print Assumptions C17_incoming_history_decoded.

Theorem C17_outgoing_history_decoded :
  forall (txid_of key_id addr_id name_id : list N -> N) (sig_by : Model.Codec.tx -> N) (sig_msg : Model.Codec.tx -> bool)
         (signer_invalid : list N -> bool) cfg genesis_addr team_key g n0 ops,
  cfg_ok_emission cfg = true -> cfg_ok_feepos cfg = true -> CodecBridge.cfg_ok_burn cfg = true ->
  node0 cfg genesis_addr g = Ok n0 -> b_height g = 0 -> b_cd g = b_diff g ->
  N.of_nat (length ops) < two64 - 1 ->
  let n := run cfg genesis_addr team_key n0 ops in
  Forall (tx_c cfg) (b_txs g) ->
  (forall h b, get_block n h = Some b -> h <> b_hash g ->
     Forall (fun x => exists hv bs t,
               Model.Des.result_of (Model.Des.run (Model.Codec.dec_tx cfg hv) bs) = Model.Des.ROk t /\
               x = TxAbs.abs_tx txid_of key_id addr_id name_id sig_by sig_msg signer_invalid t) (b_txs b)) ->
  (forall bs, up (b_hash g) (blocks n) (b_hash g) bs ->
     NoDup (bkeys g ++ flat_map bkeys bs) /\ c0 g + bnouts bs < two64 /\ c0 g + bntx bs < two64) ->
  forall a,
    let evs := evs_for a (main_signs g n) in
    nonce (acct_at (ldg n) a) = N.of_nat (length evs) /\
    forall k, 1 <= k <= nonce (acct_at (ldg n) a) -> pget (outtx (ldg n)) (a, k) = Some (nth (N.to_nat (k - 1)) evs 0).
Proof. exact CodecBridgeNode.outgoing_history_decoded. Qed.
Print Assumptions C17_outgoing_history_decoded.

Theorem C17_tx_heights_decoded :
  forall (txid_of key_id addr_id name_id : list N -> N) (sig_by : Model.Codec.tx -> N) (sig_msg : Model.Codec.tx -> bool)
         (signer_invalid : list N -> bool) cfg genesis_addr team_key g n0 ops,
  cfg_ok_emission cfg = true -> cfg_ok_feepos cfg = true -> CodecBridge.cfg_ok_burn cfg = true ->
  node0 cfg genesis_addr g = Ok n0 -> b_height g = 0 -> b_cd g = b_diff g ->
  N.of_nat (length ops) < two64 - 1 ->
  let n := run cfg genesis_addr team_key n0 ops in
  Forall (tx_c cfg) (b_txs g) ->
  (forall h b, get_block n h = Some b -> h <> b_hash g ->
     Forall (fun x => exists hv bs t,
               Model.Des.result_of (Model.Des.run (Model.Codec.dec_tx cfg hv) bs) = Model.Des.ROk t /\
               x = TxAbs.abs_tx txid_of key_id addr_id name_id sig_by sig_msg signer_invalid t) (b_txs b)) ->
  (forall bs, up (b_hash g) (blocks n) (b_hash g) bs ->
     NoDup (bkeys g ++ flat_map bkeys bs) /\ c0 g + bnouts bs < two64 /\ c0 g + bntx bs < two64) ->
  (forall B t, on_main g n B -> In t (b_txs B) -> nget (txh (ldg n)) (tx_id t) = Some (b_height B)) /\
  (forall id, (forall B t, on_main g n B -> In t (b_txs B) -> tx_id t <> id) ->
     nget (txh (ldg n)) id = None \/ nget (txh (ldg n)) id = Some 0).
Proof. exact CodecBridgeNode.tx_heights_decoded. Qed.
Print Assumptions C17_tx_heights_decoded.

Theorem C17_histories_as_served_decoded :
  forall (txid_of key_id addr_id name_id : list N -> N) (sig_by : Model.Codec.tx -> N) (sig_msg : Model.Codec.tx -> bool)
         (signer_invalid : list N -> bool) cfg genesis_addr team_key g n0 ops,
  cfg_ok_emission cfg = true -> cfg_ok_feepos cfg = true -> CodecBridge.cfg_ok_burn cfg = true ->
  node0 cfg genesis_addr g = Ok n0 -> b_height g = 0 -> b_cd g = b_diff g ->
  N.of_nat (length ops) < two64 - 1 ->
  let n := run cfg genesis_addr team_key n0 ops in
  Forall (tx_c cfg) (b_txs g) ->
  (forall h b, get_block n h = Some b -> h <> b_hash g ->
     Forall (fun x => exists hv bs t,
               Model.Des.result_of (Model.Des.run (Model.Codec.dec_tx cfg hv) bs) = Model.Des.ROk t /\
               x = TxAbs.abs_tx txid_of key_id addr_id name_id sig_by sig_msg signer_invalid t) (b_txs b)) ->
  (forall bs, up (b_hash g) (blocks n) (b_hash g) bs ->
     NoDup (bkeys g ++ flat_map bkeys bs) /\ c0 g + bnouts bs < two64 /\ c0 g + bntx bs < two64) ->
  forall a,
    map (fun i => pget (intx (ldg n)) (a, N.of_nat i)) (seq 1 (N.to_nat (inc (acct_at (ldg n) a)))) =
      map Some (evs_for a (main_credits cfg genesis_addr g n)) /\
    map (fun i => pget (outtx (ldg n)) (a, N.of_nat i)) (seq 1 (N.to_nat (nonce (acct_at (ldg n) a)))) =
      map Some (evs_for a (main_signs g n)).
Proof. exact CodecBridgeNode.histories_as_served_decoded. Qed.
Print Assumptions C17_histories_as_served_decoded.

Theorem C17_main_events_as_checked_decoded :
  forall (txid_of key_id addr_id name_id : list N -> N) (sig_by : Model.Codec.tx -> N) (sig_msg : Model.Codec.tx -> bool)
         (signer_invalid : list N -> bool) cfg genesis_addr team_key g n0 ops,
  cfg_ok_emission cfg = true -> cfg_ok_feepos cfg = true -> CodecBridge.cfg_ok_burn cfg = true ->
  node0 cfg genesis_addr g = Ok n0 -> b_height g = 0 -> b_cd g = b_diff g ->
  N.of_nat (length ops) < two64 - 1 ->
  let n := run cfg genesis_addr team_key n0 ops in
  Forall (tx_c cfg) (b_txs g) ->
  (forall h b, get_block n h = Some b -> h <> b_hash g ->
     Forall (fun x => exists hv bs t,
               Model.Des.result_of (Model.Des.run (Model.Codec.dec_tx cfg hv) bs) = Model.Des.ROk t /\
               x = TxAbs.abs_tx txid_of key_id addr_id name_id sig_by sig_msg signer_invalid t) (b_txs b)) ->
  (forall bs, up (b_hash g) (blocks n) (b_hash g) bs ->
     NoDup (bkeys g ++ flat_map bkeys bs) /\ c0 g + bnouts bs < two64 /\ c0 g + bntx bs < two64) ->
  forall h, h_genesis_addr h = genesis_addr ->
  main_credits cfg genesis_addr g n = flat_map (Check.C17.block_credits cfg h) (g :: mchain n) /\
  main_signs g n = flat_map Check.C17.block_signs (g :: mchain n).
Proof. exact CodecBridgeNode.main_events_as_checked_decoded. Qed.
Print Assumptions C17_main_events_as_checked_decoded.

(* the same three facts with the per-transaction conditions as one premise on the store (store_pre of Proofs/Replay4.v:
   no use of stateless validation); tinv / hinv of Proofs/History1.v are the two shapes spelled out above *)
Theorem C17_indexes_are_main_chain_general : forall cfg genesis_addr team_key g n0 ops,
  cfg_ok_emission cfg = true ->
  node0 cfg genesis_addr g = Ok n0 -> b_height g = 0 -> b_cd g = b_diff g ->
  N.of_nat (length ops) < two64 - 1 ->
  let n := run cfg genesis_addr team_key n0 ops in
  store_pre cfg g (blocks n) ->
  tinv (cI (ldg n)) (intx (ldg n)) (chain_credits cfg genesis_addr (main_lbs g n)) /\
  tinv (cN (ldg n)) (outtx (ldg n)) (chain_signs (main_lbs g n)) /\
  hinv (txh (ldg n)) (chain_txhs (main_lbs g n)).
Proof. exact indexes_are_main_chain. Qed.
Print Assumptions C17_indexes_are_main_chain_general.

(* the ledger-level step of a reorganisation: disconnect the blocks O above the prefix P, connect the blocks N; the
   replay invariant of C03 together with the index invariant TI (Proofs/History2.v) is kept *)
Theorem C17_reorganisation_keeps_indexes : forall cfg genesis_addr, cfg_ok_emission cfg = true ->
  forall l0 gk c0 E0 S0 H0 P O N L L2 L3,
  base_ok cfg l0 gk c0 -> base_t l0 gk E0 S0 H0 -> chain_ok cfg gk c0 (P ++ O) -> chain_ok cfg gk c0 (P ++ N) ->
  QInv cfg genesis_addr l0 E0 S0 H0 (P ++ O) L ->
  remove_chain cfg genesis_addr L (rev O) = Ok L2 ->
  apply_chain cfg genesis_addr L2 N = Ok L3 ->
  QInv cfg genesis_addr l0 E0 S0 H0 (P ++ N) L3.
Proof. exact QInv_reorg. Qed.
Print Assumptions C17_reorganisation_keeps_indexes.

(* the removal functions never write the incoming and outgoing indexes, and reset the height of each transaction *)
Theorem C17_disconnect_leaves_indexes : forall cfg genesis_addr l b top l',
  remove_block cfg genesis_addr l b top = Ok l' ->
  intx l' = intx l /\ outtx l' = outtx l /\
  forall id, nget (txh l') id = if in_dec N.eq_dec id (block_ids b) then Some 0 else nget (txh l) id.
Proof. exact remove_block_tabs. Qed.
Print Assumptions C17_disconnect_leaves_indexes.

(* ---- non-vacuity ---- *)
Theorem C17_cfg_ok_mainnet : cfg_ok_emission cfg_mainnet = true /\ cfg_ok_feepos cfg_mainnet = true.
Proof. split; vm_compute; reflexivity. Qed.
Print Assumptions C17_cfg_ok_mainnet.
Theorem C17_cfg_ok_testnet : cfg_ok_emission cfg_testnet = true /\ cfg_ok_feepos cfg_testnet = true.
Proof. split; vm_compute; reflexivity. Qed.
Print Assumptions C17_cfg_ok_testnet.
Theorem C17_cfg_ok_unittest : cfg_ok_emission cfg_unittest = true /\ cfg_ok_feepos cfg_unittest = true.
Proof. split; vm_compute; reflexivity. Qed.
Print Assumptions C17_cfg_ok_unittest.
Theorem C17_cfg_ok_verifnet : cfg_ok_emission cfg_verifnet = true /\ cfg_ok_feepos cfg_verifnet = true.
Proof. split; vm_compute; reflexivity. Qed.
Print Assumptions C17_cfg_ok_verifnet.

(* the reorganising history of C17_index_premises_satisfiable (G-A1-A2-A3 to G-B-D) satisfies every premise
   (C03_replay_premises_satisfiable); its indexes: address 7 (recipient of every coinbase) has 8 entries before and 6
   served entries after the reorganisation; the entries 7 and 8 written by A3 (hash 8) and the entry (0, 1) stay in the
   table above the counters *)
Theorem C17_index_reorg_example :
  let n := run cfg_verifnet 7 0 ex_n0 sr_ops in
  map b_hash (mchain n) = [4; 6] /\
  main_credits cfg_verifnet 7 w_genesis n = [(7, 1); (7, 1); (7, 4); (7, 4); (7, 6); (7, 6)] /\
  intx (ldg n) = [(7, 1, 1); (7, 2, 1); (7, 3, 4); (7, 4, 4); (7, 5, 6); (7, 6, 6); (7, 7, 8); (7, 8, 8); (0, 1, 8)] /\
  inc (acct_at (ldg n) 7) = 6 /\ inc (acct_at (ldg n) 0) = 0 /\
  (let m := run cfg_verifnet 7 0 ex_n0 (firstn 3 sr_ops) in
   map b_hash (mchain m) = [2; 3; 8] /\ inc (acct_at (ldg m) 7) = 8 /\ inc (acct_at (ldg m) 0) = 1 /\
   intx (ldg m) = [(7, 1, 1); (7, 2, 1); (7, 3, 2); (7, 4, 2); (7, 5, 3); (7, 6, 3); (7, 7, 8); (7, 8, 8); (0, 1, 8)]).
Proof. exact index_reorg_example. Qed.
Print Assumptions C17_index_reorg_example.

(* a history with transactions: A1 (height 1) holds T1 (id 100) and T2 (id 101) signed by key 3 (address 7); the block D
   (height 2) of the other branch holds the SAME transaction T1.  Every premise holds for it: *)
Theorem C17_index_premises_with_transactions :
  node0 cfg_verifnet 7 w_genesis = Ok ex_n0 /\
  let n := run cfg_verifnet 7 0 ex_n0 tx_ops in
  cfg_ok_emission cfg_verifnet = true /\ cfg_ok_feepos cfg_verifnet = true /\
  b_height w_genesis = 0 /\ b_cd w_genesis = b_diff w_genesis /\ N.of_nat (length tx_ops) < two64 - 1 /\
  Forall (tx_c cfg_verifnet) (b_txs w_genesis) /\
  (forall h b, get_block n h = Some b -> Forall (fun t => wf_tx cfg_verifnet t /\ ver_ok t = true) (b_txs b)) /\
  (forall bs, up (b_hash w_genesis) (blocks n) (b_hash w_genesis) bs ->
     NoDup (bkeys w_genesis ++ flat_map bkeys bs) /\ c0 w_genesis + bnouts bs < two64 /\ c0 w_genesis + bntx bs < two64).
Proof. exact index_premises_with_transactions. Qed.
Print Assumptions C17_index_premises_with_transactions.

(* and its indexes, by evaluation: after the reorganisation to G-B-D the one height kept for id 100 is 2, id 101 has
   height 0, the nonce of address 7 is 1 (its outgoing entry 2 is stale), the incoming entries (11, 1) and (9, 2)
   written by T2 are stale (counters 0 and 1) *)
Theorem C17_same_tx_two_branches_example :
  w_outcomes ex_n0 tx_ops = [Accepted; Accepted; Accepted] /\
  (let m := run cfg_verifnet 7 0 ex_n0 (firstn 2 tx_ops) in
   map b_hash (mchain m) = [2] /\
   txh (ldg m) = [(100, 1); (101, 1)] /\ outtx (ldg m) = [(7, 1, 100); (7, 2, 101)] /\ nonce (acct_at (ldg m) 7) = 2 /\
   inc (acct_at (ldg m) 9) = 2 /\ inc (acct_at (ldg m) 11) = 1) /\
  (let n := run cfg_verifnet 7 0 ex_n0 tx_ops in
   map b_hash (mchain n) = [4; 6] /\
   txh (ldg n) = [(100, 2); (101, 0)] /\
   outtx (ldg n) = [(7, 1, 100); (7, 2, 101)] /\ nonce (acct_at (ldg n) 7) = 1 /\
   intx (ldg n) = [(7, 1, 1); (7, 2, 1); (9, 1, 100); (11, 1, 101); (9, 2, 101); (7, 3, 4); (7, 4, 4); (7, 5, 6); (7, 6, 6)] /\
   inc (acct_at (ldg n) 7) = 6 /\ inc (acct_at (ldg n) 9) = 1 /\ inc (acct_at (ldg n) 11) = 0 /\
   main_credits cfg_verifnet 7 w_genesis n = [(7, 1); (7, 1); (7, 4); (7, 4); (9, 100); (7, 6); (7, 6)] /\
   main_signs w_genesis n = [(7, 100)] /\
   chain_txhs (main_lbs w_genesis n) = [(100, 2)]).
Proof. exact same_tx_two_branches_example. Qed.
Print Assumptions C17_same_tx_two_branches_example.

(* ================================================================================================================ *)
(* THE RPC HANDLERS (Model/Rpc.v: the decision logic of get_block_by_height, get_block_by_hash, get_transaction as
   cmd/virel-node/noderpc.go reads the Block, Topo and Tx indexes) on EVERY reachable node state.
   Main chain = g :: mchain n (genesis, then the stored blocks filed under the heights 1 .. top_h n, lowest first);
   on_main g n b = b is one of these blocks; the walk along prev_hash from the tip meets the same blocks.

   get_block_by_height: the block served for a height h is the h-th block of the main chain, exactly for h <= top_h n
   (it is a stored block of height h, the (top_h - h)-th of the walk from the tip); above the tip: "block not found". *)
Theorem C17_rpc_block_by_height : forall cfg genesis_addr team_key g n0 ops,
  node0 cfg genesis_addr g = Ok n0 -> b_height g = 0 -> b_cd g = b_diff g ->
  N.of_nat (length ops) < two64 - 1 ->
  let n := run cfg genesis_addr team_key n0 ops in
  (forall h b, rpc_block_by_height n h = Some b <->
               h <= top_h n /\ nth_error (g :: mchain n) (N.to_nat h) = Some b) /\
  (forall h b, rpc_block_by_height n h = Some b ->
               on_main g n b /\ b_height b = h /\ get_block n (b_hash b) = Some b /\
               nth_error (walk (blocks n) (N.to_nat (top_h n)) (top n)) (N.to_nat (top_h n - h)) = Some (b_hash b)) /\
  (forall h, h <= top_h n -> exists b, rpc_block_by_height n h = Some b) /\
  (forall h, top_h n < h -> rpc_block_by_height n h = None).
Proof. exact rpc_block_by_height_main. Qed.
Print Assumptions C17_rpc_block_by_height.

(* get_block_by_hash: a block is served under a hash iff it is stored under it and on the main chain (then the hash is
   the block's own, and the height handler serves the same block at its height).  A stored block of another branch is
   never served: "block is orphan" when its height is at most the tip's, "Block not found" when it is ABOVE the tip (no
   index entry at its height: GetTopo's error is returned). *)
Theorem C17_rpc_block_by_hash : forall cfg genesis_addr team_key g n0 ops,
  node0 cfg genesis_addr g = Ok n0 -> b_height g = 0 -> b_cd g = b_diff g ->
  N.of_nat (length ops) < two64 - 1 ->
  let n := run cfg genesis_addr team_key n0 ops in
  (forall x b, rpc_block_by_hash n x = RpcBlockFound b <-> get_block n x = Some b /\ on_main g n b) /\
  (forall x b, rpc_block_by_hash n x = RpcBlockFound b ->
               b_hash b = x /\ b_height b <= top_h n /\ rpc_block_by_height n (b_height b) = Some b) /\
  (forall x b, get_block n x = Some b -> ~ on_main g n b ->
               rpc_block_by_hash n x = if b_height b <=? top_h n then RpcBlockOrphan else RpcBlockNotFound) /\
  (forall x, get_block n x = None -> rpc_block_by_hash n x = RpcBlockNotFound).
Proof. exact rpc_block_by_hash_main. Qed.
Print Assumptions C17_rpc_block_by_hash.

(* get_transaction, the coinbase fallback (taken when the Tx index has no entry for the id): the answer
   (height, coinbase) is given for a hash iff a block is stored under it and is on the main chain, with that block's
   height and coinbase = true.  A stored block that is not on the main chain gets an error: "coinbase transaction is
   orphan" at a height up to the tip's, "transaction not found" ABOVE the tip (no index entry: the error of GetTopo is
   returned); a stored block above the tip is never on the main chain. *)
Theorem C17_rpc_coinbase : forall cfg genesis_addr team_key g n0 ops,
  node0 cfg genesis_addr g = Ok n0 -> b_height g = 0 -> b_cd g = b_diff g ->
  N.of_nat (length ops) < two64 - 1 ->
  let n := run cfg genesis_addr team_key n0 ops in
  (forall x, nget (txh (ldg n)) x = None -> rpc_get_transaction n x = rpc_coinbase n x) /\
  (forall x h cb, rpc_coinbase n x = RpcTxFound h cb <->
                  exists b, get_block n x = Some b /\ on_main g n b /\ h = b_height b /\ cb = true) /\
  (forall x b, get_block n x = Some b -> ~ on_main g n b ->
               rpc_coinbase n x = if b_height b <=? top_h n then RpcTxOrphan else RpcTxNotFound) /\
  (forall x b, get_block n x = Some b -> top_h n < b_height b -> ~ on_main g n b /\ rpc_coinbase n x = RpcTxNotFound) /\
  (forall x, get_block n x = None -> rpc_coinbase n x = RpcTxNotFound).
Proof. exact rpc_coinbase_main. Qed.
Print Assumptions C17_rpc_coinbase.

(* the handler that LOSES the error of GetTopo (rpc_coinbase_lost_error: `if topoHash, err := GetTopo(..); err == nil &&
   topoHash != txid { orphan }`) does not have this property: on the reorganising history of
   C17_index_premises_satisfiable (G-A1-A2-A3, then B and D: main chain G-B-D, tip height 2) the old tip A3 (hash 8) is a
   stored block of height 3 with no index entry at height 3, not on the main chain - that handler answers it as a coinbase
   at height 3; the handler as it is answers "transaction not found". *)
Theorem C17_rpc_coinbase_lost_error_refuted :
  node0 cfg_verifnet 7 w_genesis = Ok ex_n0 /\ b_height w_genesis = 0 /\ b_cd w_genesis = b_diff w_genesis /\
  N.of_nat (length sr_ops) < two64 - 1 /\
  let n := run cfg_verifnet 7 0 ex_n0 sr_ops in
  exists b, get_block n 8 = Some b /\ b_height b = 3 /\ top_h n = 2 /\ get_topo n 3 = None /\
            ~ on_main w_genesis n b /\
            nget (txh (ldg n)) 8 = None /\
            rpc_coinbase_lost_error n 8 = RpcTxFound 3 true /\
            rpc_coinbase n 8 = RpcTxNotFound /\ rpc_get_transaction n 8 = RpcTxNotFound.
Proof. exact rpc_coinbase_lost_error_refuted. Qed.
Print Assumptions C17_rpc_coinbase_lost_error_refuted.

(* get_transaction for an id of the Tx index (premises of C17_tx_heights): a transaction of a main-chain block is
   answered with that block's height, not as a coinbase; an id with an entry that belongs to no main-chain block is
   answered with height 0; in general the answer carries the height kept in the table. *)
Theorem C17_rpc_get_transaction_height : forall cfg genesis_addr team_key,
  cfg_ok_emission cfg = true -> cfg_ok_feepos cfg = true ->
  forall g n0 ops,
  node0 cfg genesis_addr g = Ok n0 -> b_height g = 0 -> b_cd g = b_diff g ->
  N.of_nat (length ops) < two64 - 1 ->
  let n := run cfg genesis_addr team_key n0 ops in
  Forall (tx_c cfg) (b_txs g) ->
  (forall h b, get_block n h = Some b -> Forall (fun t => wf_tx cfg t /\ ver_ok t = true) (b_txs b)) ->
  (forall bs, up (b_hash g) (blocks n) (b_hash g) bs ->
     NoDup (bkeys g ++ flat_map bkeys bs) /\ c0 g + bnouts bs < two64 /\ c0 g + bntx bs < two64) ->
  (forall B t, on_main g n B -> In t (b_txs B) -> rpc_get_transaction n (tx_id t) = RpcTxFound (b_height B) false) /\
  (forall id, nget (txh (ldg n)) id <> None ->
     (forall B t, on_main g n B -> In t (b_txs B) -> tx_id t <> id) ->
     rpc_get_transaction n id = RpcTxFound 0 false) /\
  (forall id h, nget (txh (ldg n)) id = Some h -> rpc_get_transaction n id = RpcTxFound h false).
Proof. exact rpc_get_transaction_height. Qed.
Print Assumptions C17_rpc_get_transaction_height.

(* non-vacuity: the three handlers on the reorganising history (main chain G-B-D = hashes 1, 4, 6; A1 = 2 and A2 = 3
   stored at heights up to the tip's, A3 = 8 stored ABOVE the tip, 77 never stored) *)
Theorem C17_rpc_handlers_reorg_example :
  let n := run cfg_verifnet 7 0 ex_n0 sr_ops in
  map b_hash (w_genesis :: mchain n) = [1; 4; 6] /\ top_h n = 2 /\
  map (fun h => option_map b_hash (rpc_block_by_height n h)) [0; 1; 2; 3; 4] = [Some 1; Some 4; Some 6; None; None] /\
  (exists b4 b6, rpc_block_by_hash n 4 = RpcBlockFound b4 /\ b_hash b4 = 4 /\ b_height b4 = 1 /\
                 rpc_block_by_hash n 6 = RpcBlockFound b6 /\ b_hash b6 = 6 /\ b_height b6 = 2) /\
  rpc_block_by_hash n 2 = RpcBlockOrphan /\ rpc_block_by_hash n 3 = RpcBlockOrphan /\
  rpc_block_by_hash n 8 = RpcBlockNotFound /\ rpc_block_by_hash n 77 = RpcBlockNotFound /\
  map (rpc_get_transaction n) [1; 4; 6; 2; 3; 8; 77] =
    [RpcTxFound 0 true; RpcTxFound 1 true; RpcTxFound 2 true; RpcTxOrphan; RpcTxOrphan; RpcTxNotFound; RpcTxNotFound].
Proof. exact rpc_handlers_reorg_example. Qed.
Print Assumptions C17_rpc_handlers_reorg_example.

(* and on the history with transactions of C17_same_tx_two_branches_example (which satisfies every premise:
   C17_index_premises_with_transactions): T1 = 100 (in A1 and in D) is answered with the height of D, T2 = 101 (in A1
   only) with 0, D's hash 6 as a coinbase at height 2, A1's hash 2 "orphan", 55 "not found" *)
Theorem C17_rpc_handlers_tx_example :
  let n := run cfg_verifnet 7 0 ex_n0 tx_ops in
  map b_hash (w_genesis :: mchain n) = [1; 4; 6] /\
  map (rpc_get_transaction n) [100; 101; 6; 2; 55] =
    [RpcTxFound 2 false; RpcTxFound 0 false; RpcTxFound 2 true; RpcTxOrphan; RpcTxNotFound].
Proof. exact rpc_handlers_tx_example. Qed.
Print Assumptions C17_rpc_handlers_tx_example.

(* REMAINING GAPS:
   - the premise [paths] is stated on the store, not derived, exactly as for C03_ledger_is_replay (transaction ids and
     block hashes are symbolic numbers in the model); the premise [typed] is derived from the byte-level decoder model in
     the *_decoded theorems (what stays a modelling step is the abstraction from the decoded block to the symbolic block
     of the node model: Spec/TxAbs.v);
   - the theorems speak about the model's ledger record; that the implementation's RPC handlers read these tables
     (GetIncomingTx / GetOutgoingTx / GetTxHeight) and page them as C17_pages_partition says is checked on the
     implementation's dumps (Check/C17.v, Check/C17p.v), not proved;
   - Model/Rpc.v transcribes the decision logic of three handlers by hand; that the server's answers follow it is checked
     on the real RPC server (family c17rpc, Check/C17r.v), not proved.  The model's transaction-height table has entries
     for the transactions some main chain applied; the implementation's Tx index also holds mempool transactions and
     the transactions of never-connected stored blocks with the height 0 (the model has no entry for them: the
     model's get_transaction then takes the coinbase fallback where the implementation answers "height 0");
   - entries above the counters are unconstrained on purpose: they exist (C17_index_reorg_example) and are never
     served; a database dump that lists ALL entries of the index would show them. *)
