(* Property C13 - encodings round-trip.  Only theorem statements, closed by [exact]. *)
From Virel Require Import Lib.Config Lib.U64 Model.Des Model.Codec Model.CodecBlock Proofs.Des Proofs.DesVal Proofs.Codec Proofs.CodecBlock Proofs.CodecWf Proofs.CodecBlockWf Gen.Params
  Spec.TxAbs Proofs.CodecBridge Proofs.CodecFull.
From Virel Require Model.Ledger Proofs.Conservation Proofs.Refine2 Proofs.Mempool.
Open Scope N_scope.

(* the side condition (sizes of keys, signatures, addresses; highest transaction version) holds at every configuration *)
Theorem C13_cfg_ok_mainnet : cfg_ok_codec cfg_mainnet = true. Proof. vm_compute. reflexivity. Qed.
Theorem C13_cfg_ok_testnet : cfg_ok_codec cfg_testnet = true. Proof. vm_compute. reflexivity. Qed.
Theorem C13_cfg_ok_unittest : cfg_ok_codec cfg_unittest = true. Proof. vm_compute. reflexivity. Qed.

(* Go's AppendUvarint / Uvarint: every uint64 decodes to itself, consuming exactly its encoding *)
Theorem C13_uvarint_roundtrip : forall v rest, v < two64 ->
  uvarint (put_uvarint v ++ rest) = (v, Z.of_N (blen (put_uvarint v))).
Proof. exact uvarint_put. Qed.
Print Assumptions C13_uvarint_roundtrip.

Theorem C13_read_uvarint_roundtrip : forall v, v < two64 ->
  result_of (run (x <- read_uvarint ;; ret_err x) (put_uvarint v)) = ROk v.
Proof. exact uvarint_roundtrip. Qed.
Print Assumptions C13_read_uvarint_roundtrip.

Theorem C13_byte_slice_roundtrip : forall b, blen b < two64 ->
  result_of (run (x <- read_byte_slice ;; ret_err x) (add_byte_slice b)) = ROk b.
Proof. exact byte_slice_roundtrip. Qed.
Print Assumptions C13_byte_slice_roundtrip.

Theorem C13_output_roundtrip : forall cfg o, wf_output cfg o = true -> result_of (run (dec_output cfg) (enc_output o)) = ROk o.
Proof. exact output_roundtrip. Qed.
Print Assumptions C13_output_roundtrip.

(* all five transaction kinds, with the version byte (has_version = true) and without (version-0 transfers) *)
Theorem C13_tx_roundtrip : forall cfg, cfg_ok_codec cfg = true ->
  forall has_version t, wf_tx cfg has_version t = true ->
  result_of (run (dec_tx cfg has_version) (enc_tx t)) = ROk t.
Proof. exact tx_roundtrip. Qed.
Print Assumptions C13_tx_roundtrip.

Theorem C13_tx_enc_injective : forall cfg, cfg_ok_codec cfg = true ->
  forall has_version t1 t2, wf_tx cfg has_version t1 = true -> wf_tx cfg has_version t2 = true ->
  enc_tx t1 = enc_tx t2 -> t1 = t2.
Proof. exact tx_enc_injective. Qed.
Print Assumptions C13_tx_enc_injective.

Theorem C13_state_roundtrip : forall x, wf_state x = true -> result_of (run dec_state (enc_state x)) = ROk x.
Proof. exact state_roundtrip. Qed.
Print Assumptions C13_state_roundtrip.

Theorem C13_state_enc_injective : forall x1 x2, wf_state x1 = true -> wf_state x2 = true ->
  enc_state x1 = enc_state x2 -> x1 = x2.
Proof. exact state_enc_injective. Qed.
Print Assumptions C13_state_enc_injective.

Theorem C13_delegate_roundtrip : forall cfg, cfg_ok_codec cfg = true ->
  forall g, wf_delegate cfg g = true -> result_of (run (dec_delegate cfg) (enc_delegate g)) = ROk g.
Proof. exact delegate_roundtrip. Qed.
Print Assumptions C13_delegate_roundtrip.

Theorem C13_delegate_enc_injective : forall cfg, cfg_ok_codec cfg = true ->
  forall g1 g2, wf_delegate cfg g1 = true -> wf_delegate cfg g2 = true -> enc_delegate g1 = enc_delegate g2 -> g1 = g2.
Proof. exact delegate_enc_injective. Qed.
Print Assumptions C13_delegate_enc_injective.

(* ---- blocks, commitments, mining blobs, packets *)
Theorem C13_cfg_ok_block_mainnet : cfg_ok_block cfg_mainnet = true. Proof. vm_compute. reflexivity. Qed.
Theorem C13_cfg_ok_block_testnet : cfg_ok_block cfg_testnet = true. Proof. vm_compute. reflexivity. Qed.
Theorem C13_cfg_ok_block_unittest : cfg_ok_block cfg_unittest = true. Proof. vm_compute. reflexivity. Qed.

(* the variable-length little-endian form of Difficulty / CumulativeDiff *)
Theorem C13_u128_trimmed_roundtrip : forall x, x < two128 -> u128_of_slice (u128_trimmed x) = x.
Proof. exact u128_roundtrip. Qed.
Print Assumptions C13_u128_trimmed_roundtrip.

Theorem C13_commitment_roundtrip : forall cfg, cfg_ok_block cfg = true ->
  forall c, wf_commitment cfg c = true -> result_of (run (dec_commitment cfg) (enc_commitment c)) = ROk c.
Proof. exact commitment_roundtrip. Qed.
Print Assumptions C13_commitment_roundtrip.

(* both header versions: version 0 without, version >= 1 with the proof-of-stake fields *)
Theorem C13_header_roundtrip : forall cfg, cfg_ok_block cfg = true ->
  forall h, wf_header cfg h = true -> result_of (run (dec_header cfg) (enc_header h)) = ROk h.
Proof. exact header_roundtrip. Qed.
Print Assumptions C13_header_roundtrip.

Theorem C13_block_roundtrip : forall cfg, cfg_ok_block cfg = true ->
  forall b, wf_block cfg b = true -> result_of (run (dec_block cfg) (enc_block b)) = ROk b.
Proof. exact block_roundtrip. Qed.
Print Assumptions C13_block_roundtrip.

(* the error branch of the encoder: zero difficulty encodes to nil (hence the admission clause of the property) *)
Theorem C13_block_zero_diff_encodes_nil : forall b, bl_diff b = 0 -> enc_block b = [].
Proof. exact block_zero_diff_encodes_nil. Qed.
Print Assumptions C13_block_zero_diff_encodes_nil.

Theorem C13_block_enc_injective : forall cfg, cfg_ok_block cfg = true ->
  forall b1 b2, wf_block cfg b1 = true -> wf_block cfg b2 = true -> enc_block b1 = enc_block b2 -> b1 = b2.
Proof. exact block_enc_injective. Qed.
Print Assumptions C13_block_enc_injective.

Theorem C13_header_enc_injective : forall cfg, cfg_ok_block cfg = true ->
  forall h1 h2, wf_header cfg h1 = true -> wf_header cfg h2 = true -> enc_header h1 = enc_header h2 -> h1 = h2.
Proof. exact header_enc_injective. Qed.
Print Assumptions C13_header_enc_injective.

Theorem C13_commitment_enc_injective : forall cfg, cfg_ok_block cfg = true ->
  forall c1 c2, wf_commitment cfg c1 = true -> wf_commitment cfg c2 = true -> enc_commitment c1 = enc_commitment c2 -> c1 = c2.
Proof. exact commitment_enc_injective. Qed.
Print Assumptions C13_commitment_enc_injective.

(* wire form (SerializeFullBlock) -> DeserializeFull returns the block and its transactions *)
Theorem C13_full_block_roundtrip : forall cfg, cfg_ok_block cfg = true ->
  forall b txs, wf_full_block cfg b txs = true ->
  result_of (run (dec_full_block cfg) (enc_full_block b txs)) = ROk (mkblock (bl_header b) (bl_diff b) (bl_cumdiff b) [], txs).
Proof. exact full_block_roundtrip. Qed.
Print Assumptions C13_full_block_roundtrip.

(* ... and the receiver, which recomputes every transaction id from the decoded transaction, rebuilds exactly the
   sender's stored block (same id list, hence same stored encoding and same block hash), for any hash function *)
Theorem C13_full_block_wire : forall cfg, cfg_ok_block cfg = true ->
  forall (txid : list N -> list N) b txs,
  wf_full_block cfg b txs = true -> bl_txs b = map (fun t => txid (enc_tx t)) txs ->
  exists b' txs', result_of (run (dec_full_block cfg) (enc_full_block b txs)) = ROk (b', txs')
    /\ mkblock (bl_header b') (bl_diff b') (bl_cumdiff b') (map (fun t => txid (enc_tx t)) txs') = b.
Proof. exact full_block_wire. Qed.
Print Assumptions C13_full_block_wire.

Theorem C13_mining_blob_roundtrip : forall cfg, cfg_ok_block cfg = true ->
  forall m, wf_blob cfg m = true -> result_of (run (dec_blob cfg) (enc_blob m)) = ROk m.
Proof. exact blob_roundtrip. Qed.
Print Assumptions C13_mining_blob_roundtrip.

Theorem C13_packet_stats_roundtrip : forall p, wf_pstats p = true -> result_of (run dec_pstats (enc_pstats p)) = ROk p.
Proof. exact pstats_roundtrip. Qed.
Print Assumptions C13_packet_stats_roundtrip.

Theorem C13_packet_block_request_roundtrip : forall p, wf_pblockreq p = true ->
  result_of (run dec_pblockreq (enc_pblockreq p)) = ROk p.
Proof. exact pblockreq_roundtrip. Qed.
Print Assumptions C13_packet_block_request_roundtrip.

Theorem C13_packet_stake_signature_roundtrip : forall cfg p, wf_pstakesig cfg p = true ->
  result_of (run (dec_pstakesig cfg) (enc_pstakesig p)) = ROk p.
Proof. exact pstakesig_roundtrip. Qed.
Print Assumptions C13_packet_stake_signature_roundtrip.

Theorem C13_handshake_roundtrip : forall h, wf_handshake h = true -> result_of (run dec_handshake (enc_handshake h)) = ROk h.
Proof. exact handshake_roundtrip. Qed.
Print Assumptions C13_handshake_roundtrip.

(* ---- accepted byte strings: re-encoding the decoded value decodes to that same value (and, the encoder being a
   function, to the same encoding and hash).  [bytes bs] = every element of bs is below 256. *)
Theorem C13_uvarint_reencode : forall bs v,
  result_of (run (x <- read_uvarint ;; ret_err x) bs) = ROk v ->
  result_of (run (x <- read_uvarint ;; ret_err x) (put_uvarint v)) = ROk v.
Proof. exact uvarint_reencode. Qed.
Print Assumptions C13_uvarint_reencode.

(* Uvarint is lenient: a non-canonical encoding is accepted and re-encodes to the canonical one *)
Theorem C13_uvarint_lenient_witness : uvarint [128; 0] = (0, 2%Z) /\ put_uvarint 0 = [0].
Proof. split; vm_compute; reflexivity. Qed.

Theorem C13_output_reencode : forall cfg, cfg_ok_codec cfg = true -> forall bs o, blen bs < two64 ->
  result_of (run (dec_output cfg) bs) = ROk o -> result_of (run (dec_output cfg) (enc_output o)) = ROk o.
Proof. exact output_reencode. Qed.
Print Assumptions C13_output_reencode.

Theorem C13_tx_dec_wf : forall cfg, cfg_ok_codec cfg = true -> forall has_version bs t, blen bs < two64 ->
  result_of (run (dec_tx cfg has_version) bs) = ROk t -> wf_tx cfg has_version t = true.
Proof. exact tx_dec_wf. Qed.
Print Assumptions C13_tx_dec_wf.

Theorem C13_tx_reencode : forall cfg, cfg_ok_codec cfg = true -> forall has_version bs t, blen bs < two64 ->
  result_of (run (dec_tx cfg has_version) bs) = ROk t -> result_of (run (dec_tx cfg has_version) (enc_tx t)) = ROk t.
Proof. exact tx_reencode. Qed.
Print Assumptions C13_tx_reencode.

Theorem C13_state_reencode : forall bs x,
  result_of (run dec_state bs) = ROk x -> result_of (run dec_state (enc_state x)) = ROk x.
Proof. exact state_reencode. Qed.
Print Assumptions C13_state_reencode.

Theorem C13_delegate_reencode : forall cfg, cfg_ok_codec cfg = true -> forall bs g, blen bs < two64 ->
  result_of (run (dec_delegate cfg) bs) = ROk g -> result_of (run (dec_delegate cfg) (enc_delegate g)) = ROk g.
Proof. exact delegate_reencode. Qed.
Print Assumptions C13_delegate_reencode.

Theorem C13_commitment_reencode : forall cfg, cfg_ok_block cfg = true -> forall bs c, bytes bs -> blen bs < two64 ->
  result_of (run (dec_commitment cfg) bs) = ROk c -> result_of (run (dec_commitment cfg) (enc_commitment c)) = ROk c.
Proof. exact commitment_reencode. Qed.
Print Assumptions C13_commitment_reencode.

Theorem C13_header_reencode : forall cfg, cfg_ok_block cfg = true -> forall bs h, bytes bs -> blen bs < two64 ->
  result_of (run (dec_header cfg) bs) = ROk h -> result_of (run (dec_header cfg) (enc_header h)) = ROk h.
Proof. exact header_reencode. Qed.
Print Assumptions C13_header_reencode.

(* blocks: accepted and admitted by stateless validation (non-zero difficulty) *)
Theorem C13_block_reencode : forall cfg, cfg_ok_block cfg = true -> forall bs b, bytes bs -> blen bs < two64 ->
  result_of (run (dec_block cfg) bs) = ROk b -> bl_diff b <> 0 ->
  result_of (run (dec_block cfg) (enc_block b)) = ROk b.
Proof. exact block_reencode. Qed.
Print Assumptions C13_block_reencode.

Theorem C13_mining_blob_reencode : forall cfg, cfg_ok_block cfg = true -> forall bs m, bytes bs -> blen bs < two64 ->
  result_of (run (dec_blob cfg) bs) = ROk m -> result_of (run (dec_blob cfg) (enc_blob m)) = ROk m.
Proof. exact blob_reencode. Qed.
Print Assumptions C13_mining_blob_reencode.

Theorem C13_packet_stats_reencode : forall bs p, bytes bs ->
  result_of (run dec_pstats bs) = ROk p -> result_of (run dec_pstats (enc_pstats p)) = ROk p.
Proof. exact pstats_reencode. Qed.
Print Assumptions C13_packet_stats_reencode.

Theorem C13_packet_block_request_reencode : forall bs p, bytes bs ->
  result_of (run dec_pblockreq bs) = ROk p -> result_of (run dec_pblockreq (enc_pblockreq p)) = ROk p.
Proof. exact pblockreq_reencode. Qed.
Print Assumptions C13_packet_block_request_reencode.

Theorem C13_packet_stake_signature_reencode : forall cfg, cfg_ok_block cfg = true -> forall bs p, bytes bs ->
  result_of (run (dec_pstakesig cfg) bs) = ROk p -> result_of (run (dec_pstakesig cfg) (enc_pstakesig p)) = ROk p.
Proof. exact pstakesig_reencode. Qed.
Print Assumptions C13_packet_stake_signature_reencode.

Theorem C13_handshake_reencode : forall bs h, bytes bs ->
  result_of (run dec_handshake bs) = ROk h -> result_of (run dec_handshake (enc_handshake h)) = ROk h.
Proof. exact handshake_reencode. Qed.
Print Assumptions C13_handshake_reencode.

(* ---- the wire block (Block.DeserializeFull / SerializeFullBlock, the P2P block packet).
   Every accepted byte string decodes to a well-formed wire block; the decoded block carries an empty id list (the ids are
   hashes recomputed by the receiver, outside the model) *)
Theorem C13_full_block_dec_wf : forall cfg, cfg_ok_block cfg = true -> forall bs b txs, bytes bs -> blen bs < two64 ->
  result_of (run (dec_full_block cfg) bs) = ROk (b, txs) -> wf_full_block cfg b txs = true /\ bl_txs b = [].
Proof. exact full_block_dec_wf. Qed.
Print Assumptions C13_full_block_dec_wf.

(* ... hence re-encoding what was decoded decodes to exactly that (block, transactions) pair.  No admission clause:
   SerializeFullBlock, unlike Block.Serialize, does not refuse a zero difficulty (witness below) *)
Theorem C13_full_block_reencode : forall cfg, cfg_ok_block cfg = true -> forall bs b txs, bytes bs -> blen bs < two64 ->
  result_of (run (dec_full_block cfg) bs) = ROk (b, txs) ->
  result_of (run (dec_full_block cfg) (enc_full_block b txs)) = ROk (b, txs).
Proof. exact full_block_reencode. Qed.
Print Assumptions C13_full_block_reencode.

(* ... also after the receiver has filled in the id list (any list: the wire form does not carry it) *)
Theorem C13_full_block_reencode_ids : forall cfg, cfg_ok_block cfg = true -> forall bs b txs ids, bytes bs -> blen bs < two64 ->
  result_of (run (dec_full_block cfg) bs) = ROk (b, txs) ->
  result_of (run (dec_full_block cfg) (enc_full_block (mkblock (bl_header b) (bl_diff b) (bl_cumdiff b) ids) txs)) = ROk (b, txs).
Proof. exact full_block_reencode_ids. Qed.
Print Assumptions C13_full_block_reencode_ids.

(* ... and each of its transactions re-encodes under the block's version-byte regime, to fewer than 2^64 bytes *)
Theorem C13_full_block_txs_reencode : forall cfg, cfg_ok_block cfg = true -> forall bs b txs, bytes bs -> blen bs < two64 ->
  result_of (run (dec_full_block cfg) bs) = ROk (b, txs) ->
  Forall (fun t => result_of (run (dec_tx cfg (hf_v2 cfg <=? hd_height (bl_header b))) (enc_tx t)) = ROk t
                   /\ blen (enc_tx t) < two64) txs.
Proof. exact full_block_txs_reencode. Qed.
Print Assumptions C13_full_block_txs_reencode.

(* the length fact behind the transaction length prefixes: a decoded transaction re-encodes to at most 5 bytes more than
   the slice it came from (for every list of numbers, both modes; addresses longer than 10 bytes) ... *)
Theorem C13_tx_reencode_len : forall cfg, cfg_ok_codec cfg = true -> forall has_version sl t,
  result_of (run (dec_tx cfg has_version) sl) = ROk t -> blen (enc_tx t) <= blen sl + 5.
Proof. exact tx_reencode_len. Qed.
Print Assumptions C13_tx_reencode_len.

(* ... because AppendUvarint is the shortest encoding Uvarint accepts ... *)
Theorem C13_uvarint_minimal : forall buf v n, uvarint buf = (v, n) -> (0 < n)%Z -> blen (put_uvarint v) <= Z.to_N n.
Proof. exact uvarint_min. Qed.
Print Assumptions C13_uvarint_minimal.

(* ... and it can be longer: Des.ReadUvarint takes Uvarint's "buffer too small" (n = 0) for the value 0 with nothing
   consumed, so a dangling continuation byte 0x80 after the signature of a version-4 transaction is read as five zero
   fields: 98 bytes are accepted, the transaction re-encodes to 102 bytes (main-net constants; reproduced on the Go code) *)
Theorem C13_tx_truncated_varint_witness :
  result_of (run (dec_tx cfg_mainnet true) trunc_tx_bytes) = ROk trunc_tx /\
  blen trunc_tx_bytes = 98 /\ blen (enc_tx trunc_tx) = 102 /\
  result_of (run (dec_tx cfg_mainnet true) (enc_tx trunc_tx)) = ROk trunc_tx /\
  result_of (run (x <- read_uvarint ;; ret_err x) [128]) = ROk 0.
Proof. exact tx_truncated_varint_witness. Qed.
Print Assumptions C13_tx_truncated_varint_witness.

(* the same inside a wire block: accepted bytes 4 shorter than the re-encoding of their value *)
Theorem C13_full_block_truncated_varint_witness :
  result_of (run (dec_full_block cfg_mainnet) (trunc_block_bytes [1])) = ROk (mkblock trunc_header 1 1 [], [trunc_tx]) /\
  blen (enc_full_block (mkblock trunc_header 1 1 []) [trunc_tx]) = blen (trunc_block_bytes [1]) + 4.
Proof. exact full_block_truncated_varint_witness. Qed.
Print Assumptions C13_full_block_truncated_varint_witness.

(* a zero difficulty passes DeserializeFull and SerializeFullBlock; only the stored form answers nil for it *)
Theorem C13_full_block_zero_diff_witness :
  result_of (run (dec_full_block cfg_mainnet) (trunc_block_bytes [])) = ROk (mkblock trunc_header 0 1 [], [trunc_tx]) /\
  result_of (run (dec_full_block cfg_mainnet) (enc_full_block (mkblock trunc_header 0 1 []) [trunc_tx]))
    = ROk (mkblock trunc_header 0 1 [], [trunc_tx]) /\
  enc_block (mkblock trunc_header 0 1 []) = [].
Proof. exact full_block_zero_diff_witness. Qed.
Print Assumptions C13_full_block_zero_diff_witness.

(* the bare readers *)
Theorem C13_byte_slice_reencode : forall bs b, blen bs < two64 ->
  result_of (run (x <- read_byte_slice ;; ret_err x) bs) = ROk b ->
  result_of (run (x <- read_byte_slice ;; ret_err x) (add_byte_slice b)) = ROk b.
Proof. exact byte_slice_reencode. Qed.
Print Assumptions C13_byte_slice_reencode.

Theorem C13_u128_reencode : forall bs v, bytes bs ->
  result_of (run (x <- read_u128 ;; ret_err x) bs) = ROk v ->
  result_of (run (x <- read_u128 ;; ret_err x) (add_byte_slice (u128_trimmed v))) = ROk v.
Proof. exact u128_reencode. Qed.
Print Assumptions C13_u128_reencode.

(* ---- from the codec to the ledger model: whatever the wire decoders return is typed.
   [abs_tx] (Spec/TxAbs.v) maps a decoded transaction to the symbolic transaction of the ledger model under ANY numbering
   of transaction ids, keys, addresses, names and any reading of the signature (the seven functions quantified below);
   version byte, payload kind, amounts, delegate ids, nonce and fee are copied.  For EVERY list of numbers bs (no bound on
   its length or on its elements), both modes of Transaction.Deserialize and every configuration: the abstraction of a
   returned transaction has the version byte of its payload kind ([ver_ok] of Proofs/Refine2.v: 0 with a transfer, or
   AssociatedTransactionVersion of the payload) and uint64-typed amounts ([wf_tx] of Proofs/Conservation.v; its third
   conjunct is the constant REGISTER_BURN < 2^64 = cfg_ok_burn).  The bound on the amounts is Des.ReadUvarint's:
   binary.Uvarint reports overflow instead of returning more than 64 bits (uvarint_lt of Proofs/DesSafe.v).
   These are the "codec facts" that C03_ledger_is_replay / the C17 history theorems take as a premise on the block
   store; C03_ledger_is_replay_decoded and the C17 *_decoded theorems replace that premise by "is an abstraction of a
   decoder output". *)
Theorem C13_cfg_ok_burn_mainnet : cfg_ok_burn cfg_mainnet = true. Proof. vm_compute. reflexivity. Qed.
Theorem C13_cfg_ok_burn_testnet : cfg_ok_burn cfg_testnet = true. Proof. vm_compute. reflexivity. Qed.
Theorem C13_cfg_ok_burn_unittest : cfg_ok_burn cfg_unittest = true. Proof. vm_compute. reflexivity. Qed.
Theorem C13_cfg_ok_burn_verifnet : cfg_ok_burn cfg_verifnet = true. Proof. vm_compute. reflexivity. Qed.

Theorem C13_decoded_tx_is_typed :
  forall (txid_of key_id addr_id name_id : list N -> N) (sig_by : tx -> N) (sig_msg : tx -> bool)
         (signer_invalid : list N -> bool) cfg has_version bs t,
  cfg_ok_burn cfg = true ->
  result_of (run (dec_tx cfg has_version) bs) = ROk t ->
  Refine2.ver_ok (abs_tx txid_of key_id addr_id name_id sig_by sig_msg signer_invalid t) = true /\
  Conservation.wf_tx cfg (abs_tx txid_of key_id addr_id name_id sig_by sig_msg signer_invalid t).
Proof. exact decoded_tx_is_typed. Qed.
Print Assumptions C13_decoded_tx_is_typed.

(* which version: with the version byte, the one of the payload kind ([tx_typed] of Proofs/Mempool.v) and within 1..5
   whatever MAX_TX_VERSION is; without it, version 0 and a transfer *)
Theorem C13_decoded_tx_version :
  forall (txid_of key_id addr_id name_id : list N -> N) (sig_by : tx -> N) (sig_msg : tx -> bool)
         (signer_invalid : list N -> bool) cfg has_version bs t,
  result_of (run (dec_tx cfg has_version) bs) = ROk t ->
  let x := abs_tx txid_of key_id addr_id name_id sig_by sig_msg signer_invalid t in
  if has_version then Mempool.tx_typed x /\ 1 <= Ledger.tx_version x <= 5
  else Ledger.tx_version x = 0 /\ exists outs, Ledger.tx_data x = Ledger.TTransfer outs.
Proof. exact decoded_tx_version. Qed.
Print Assumptions C13_decoded_tx_version.

(* the decoder-level fact behind both: [tx_struct] of Proofs/CodecBridge.v = version byte as above, every integer field
   (amounts, payment ids, delegate ids, unlock heights, nonce, fee) below 2^64 *)
Theorem C13_decoded_tx_struct : forall cfg has_version bs t,
  result_of (run (dec_tx cfg has_version) bs) = ROk t -> tx_struct has_version t.
Proof. exact dec_tx_struct. Qed.
Print Assumptions C13_decoded_tx_struct.

(* Block.DeserializeFull (the path packetBlock -> DeserializeFull): every transaction of a returned block *)
Theorem C13_decoded_block_txs_typed :
  forall (txid_of key_id addr_id name_id : list N -> N) (sig_by : tx -> N) (sig_msg : tx -> bool)
         (signer_invalid : list N -> bool) cfg bs b txs,
  cfg_ok_burn cfg = true ->
  result_of (run (dec_full_block cfg) bs) = ROk (b, txs) ->
  Forall (fun t => Refine2.ver_ok (abs_tx txid_of key_id addr_id name_id sig_by sig_msg signer_invalid t) = true /\
                   Conservation.wf_tx cfg (abs_tx txid_of key_id addr_id name_id sig_by sig_msg signer_invalid t)) txs.
Proof. exact decoded_block_txs_typed. Qed.
Print Assumptions C13_decoded_block_txs_typed.

(* ... and the version regime follows the block's height exactly as check 202 of Transaction.Prevalidate expects it:
   version 0 transfers below HARDFORK_V2_HEIGHT, the version of the payload kind (1..5) from that height on *)
Theorem C13_decoded_block_txs_regime :
  forall (txid_of key_id addr_id name_id : list N -> N) (sig_by : tx -> N) (sig_msg : tx -> bool)
         (signer_invalid : list N -> bool) cfg bs b txs,
  result_of (run (dec_full_block cfg) bs) = ROk (b, txs) ->
  Forall (fun t => let x := abs_tx txid_of key_id addr_id name_id sig_by sig_msg signer_invalid t in
                   if hd_height (bl_header b) <? hf_v2 cfg
                   then Ledger.tx_version x = 0 /\ exists outs, Ledger.tx_data x = Ledger.TTransfer outs
                   else Mempool.tx_typed x /\ 1 <= Ledger.tx_version x <= 5) txs.
Proof. exact decoded_block_txs_regime. Qed.
Print Assumptions C13_decoded_block_txs_regime.

(* the stored form read by Blockchain.GetTx ([dec_stored_tx] of Proofs/CodecBridge.v: a transcription that is not
   compared with the implementation by a harness), whichever of its attempts succeeded *)
Theorem C13_stored_tx_is_typed :
  forall (txid_of key_id addr_id name_id : list N -> N) (sig_by : tx -> N) (sig_msg : tx -> bool)
         (signer_invalid : list N -> bool) cfg topheight bs t included_in,
  cfg_ok_burn cfg = true ->
  result_of (run (dec_stored_tx cfg topheight) bs) = ROk (t, included_in) ->
  Refine2.ver_ok (abs_tx txid_of key_id addr_id name_id sig_by sig_msg signer_invalid t) = true /\
  Conservation.wf_tx cfg (abs_tx txid_of key_id addr_id name_id sig_by sig_msg signer_invalid t).
Proof. exact stored_tx_is_typed. Qed.
Print Assumptions C13_stored_tx_is_typed.

(* non-vacuity (main-net constants): the decoder returns transactions in both modes; the payload kind always follows the
   version byte (the bytes of a transfer behind version byte 4 are read as a Stake; bytes after the fee are not looked
   at); an overlong uvarint (tenth byte 2 = bit 64) is refused, not truncated to 64 bits *)
Theorem C13_decoded_tx_examples :
  result_of (run (dec_tx cfg_mainnet true) (ex_tx_bytes true)) = ROk (ex_tx 1) /\
  result_of (run (dec_tx cfg_mainnet false) (ex_tx_bytes false)) = ROk (ex_tx 0) /\
  result_of (run (dec_tx cfg_mainnet true) (4 :: ex_tx_bytes false)) = ROk (mktx 4 (zeros 32) (zeros 64) (Stake 1 0 0) 0 0) /\
  result_of (run (dec_tx cfg_mainnet true)
              ([1] ++ zeros 32 ++ zeros 64 ++ [1] ++ zeros 22 ++ [0; 5] ++ [1] ++ [128; 128; 128; 128; 128; 128; 128; 128; 128; 2])) = RErr.
Proof. exact decoded_tx_examples. Qed.
Print Assumptions C13_decoded_tx_examples.
