(* Property C01 - no inflation: coins are conserved in every committed ledger state.
   Statements only; proofs are in Proofs/Conservation.v and Proofs/NodeBasics.v. *)
From Virel Require Import Lib.Config Lib.U64 Lib.AMap Model.Emission Model.Ledger Model.Node
  Proofs.Emission Proofs.Conservation Proofs.NodeBasics Gen.Params.
Open Scope N_scope.

(* side condition on the constants, discharged at every generated configuration *)
Theorem C01_cfg_ok_mainnet : cfg_ok_emission cfg_mainnet = true. Proof. vm_compute. reflexivity. Qed.
Theorem C01_cfg_ok_testnet : cfg_ok_emission cfg_testnet = true. Proof. vm_compute. reflexivity. Qed.
Theorem C01_cfg_ok_unittest : cfg_ok_emission cfg_unittest = true. Proof. vm_compute. reflexivity. Qed.
Theorem C01_cfg_ok_verifnet : cfg_ok_emission cfg_verifnet = true. Proof. vm_compute. reflexivity. Qed.

(* A transaction of any of the five kinds that passes the amount checks of stateless validation
   ([tx_total] defined: no overflow of amounts + fee) and is applied to ANY ledger whose balances sum to less than
   2^64 removes exactly its fee from the sum of all balances (burn and pool accounts included). *)
Theorem C01_apply_tx_conserves : forall cfg l t h bh top_h l' tot,
  total_bal l < two64 -> wf_tx cfg t -> tx_total cfg t = Some tot ->
  apply_tx cfg l t h bh top_h = Ok l' -> total_bal l' + tx_fee t = total_bal l.
Proof. exact apply_tx_total. Qed.
Print Assumptions C01_apply_tx_conserves.

(* Applying a block (any version, stake status, transaction list) to a ledger adds exactly the block reward of its
   height: fees are moved, not created; the coinbase split neither creates nor loses a unit. *)
Theorem C01_apply_block_adds_reward : forall cfg genesis_addr, cfg_ok_emission cfg = true ->
  forall l b top_h l',
  total_bal l + reward cfg (lb_height b) <= max_supply cfg ->
  Forall (tx_ok cfg) (lb_txs b) ->
  apply_block cfg genesis_addr l b top_h = Ok l' ->
  total_bal l' = total_bal l + reward cfg (lb_height b).
Proof. exact apply_block_total. Qed.
Print Assumptions C01_apply_block_adds_reward.

(* Along a chain of any length the sum of all balances is the scheduled emission for the tip height and never
   exceeds the maximum supply; consequently (C07) no balance can wrap. *)
Theorem C01_chain_supply : forall cfg genesis_addr, cfg_ok_emission cfg = true ->
  forall bs l (h : nat) l',
  total_bal l = sum_rewards cfg h -> heights_from h bs ->
  Forall (fun b => Forall (tx_ok cfg) (lb_txs b)) bs ->
  apply_chain cfg genesis_addr l bs = Ok l' ->
  total_bal l' = sum_rewards cfg (h + length bs) /\ total_bal l' <= max_supply cfg.
Proof. exact apply_chain_supply. Qed.
Print Assumptions C01_chain_supply.

(* a rejected (or crashing) delivery returns exactly the node it was given *)
Theorem C01_reject_unchanged : forall cfg genesis_addr team_key n b now n' c amb,
  deliver cfg genesis_addr team_key n b now = (n', Rejected c, amb) -> n' = n.
Proof. exact deliver_rejected_unchanged. Qed.
Print Assumptions C01_reject_unchanged.
