(* Property C01 - no inflation: coins are conserved in every committed ledger state.
   Statements only; proofs are in Proofs/Conservation.v and Proofs/NodeBasics.v. *)
From Virel Require Import Lib.Config Lib.U64 Lib.AMap Model.Emission Model.Ledger Model.Node
  Proofs.Emission Proofs.Conservation Proofs.NodeBasics Proofs.Staking Proofs.StakedSum Gen.Params.
Open Scope N_scope.

(* side condition on the constants, discharged at every generated configuration *)
Theorem C01_cfg_ok_mainnet : cfg_ok_emission cfg_mainnet = true. Proof. vm_compute. reflexivity. Qed.
Theorem C01_cfg_ok_testnet : cfg_ok_emission cfg_testnet = true. Proof. vm_compute. reflexivity. Qed.
Theorem C01_cfg_ok_unittest : cfg_ok_emission cfg_unittest = true. Proof. vm_compute. reflexivity. Qed.
Theorem C01_cfg_ok_verifnet : cfg_ok_emission cfg_verifnet = true. Proof. vm_compute. reflexivity. Qed.

(* A transaction of any of the five kinds that passes the amount checks of stateless validation
   ([tx_total] defined: no overflow of amounts + fee) and is applied to ANY ledger whose balances sum to less than
   2^64 removes exactly its fee from the sum of all balances (burn and pool accounts included). *)
Theorem C01_apply_tx_conserves : forall cfg l t h bh top_h l' tot,
  total_bal l < two64 -> wf_tx cfg t -> tx_total cfg t = Some tot ->
  apply_tx cfg l t h bh top_h = Ok l' -> total_bal l' + tx_fee t = total_bal l.
Proof. exact apply_tx_total. Qed.
Print Assumptions C01_apply_tx_conserves.

(* Applying a block (any version, stake status, transaction list) to a ledger adds exactly the block reward of its
   height: fees are moved, not created; the coinbase split neither creates nor loses a unit. *)
Theorem C01_apply_block_adds_reward : forall cfg genesis_addr, cfg_ok_emission cfg = true ->
  forall l b top_h l',
  total_bal l + reward cfg (lb_height b) <= max_supply cfg ->
  Forall (tx_ok cfg) (lb_txs b) ->
  apply_block cfg genesis_addr l b top_h = Ok l' ->
  total_bal l' = total_bal l + reward cfg (lb_height b).
Proof. exact apply_block_total. Qed.
Print Assumptions C01_apply_block_adds_reward.

(* Along a chain of any length the sum of all balances is the scheduled emission for the tip height and never
   exceeds the maximum supply; consequently (C07) no balance can wrap. *)
Theorem C01_chain_supply : forall cfg genesis_addr, cfg_ok_emission cfg = true ->
  forall bs l (h : nat) l',
  total_bal l = sum_rewards cfg h -> heights_from h bs ->
  Forall (fun b => Forall (tx_ok cfg) (lb_txs b)) bs ->
  apply_chain cfg genesis_addr l bs = Ok l' ->
  total_bal l' = sum_rewards cfg (h + length bs) /\ total_bal l' <= max_supply cfg.
Proof. exact apply_chain_supply. Qed.
Print Assumptions C01_chain_supply.

(* a rejected (or crashing) delivery returns exactly the node it was given *)
Theorem C01_reject_unchanged : forall cfg genesis_addr team_key n b now n' c amb,
  deliver cfg genesis_addr team_key n b now = (n', Rejected c, amb) -> n' = n.
Proof. exact deliver_rejected_unchanged. Qed.
Print Assumptions C01_reject_unchanged.

(* ---- second sentence of the property: the network-wide staked total equals the sum over all pools of their
   members' funds ----
   [SInv l] = the delegate table is ordered by database key, every record is filed under its own id,
   [staked l] = [sum_tot (dlgs l)] (the exact, unbounded sum over all pools of all member funds) and [staked l] < 2^64. *)
Theorem C01_staked_sum_initial : SInv ledger0.
Proof. exact SInv0. Qed.
Print Assumptions C01_staked_sum_initial.

(* ApplyTxToState of a transaction of ANY of the five kinds (uint64-typed amounts) on ANY ledger with the invariant *)
Theorem C01_staked_sum_apply_tx : forall cfg l t h bh top_h l',
  SInv l -> wf_tx cfg t -> apply_tx cfg l t h bh top_h = Ok l' -> SInv l'.
Proof. exact apply_tx_SInv. Qed.
Print Assumptions C01_staked_sum_apply_tx.

(* a staker reward raises the pool total and the network-wide total by exactly the reward *)
Theorem C01_staked_sum_reward : forall l bh o l',
  SInv l -> o_amt o < two64 -> apply_pos_reward l bh o = Ok l' -> SInv l' /\ staked l' = staked l + o_amt o.
Proof. exact apply_pos_reward_SInv. Qed.
Print Assumptions C01_staked_sum_reward.

(* ApplyBlockToState (transactions, coinbase split, staker reward) *)
Theorem C01_staked_sum_apply_block : forall cfg genesis_addr, cfg_ok_emission cfg = true ->
  forall l b top_h l',
  total_bal l + reward cfg (lb_height b) <= max_supply cfg ->
  Forall (tx_ok cfg) (lb_txs b) -> SInv l ->
  apply_block cfg genesis_addr l b top_h = Ok l' -> SInv l'.
Proof. exact apply_block_SInv. Qed.
Print Assumptions C01_staked_sum_apply_block.

(* every ledger reached along a chain of any length *)
Theorem C01_staked_sum_chain : forall cfg genesis_addr, cfg_ok_emission cfg = true ->
  forall bs l (h : nat) l',
  total_bal l = sum_rewards cfg h -> heights_from h bs ->
  Forall (fun b => Forall (tx_ok cfg) (lb_txs b)) bs -> SInv l ->
  apply_chain cfg genesis_addr l bs = Ok l' -> SInv l'.
Proof. exact apply_chain_SInv. Qed.
Print Assumptions C01_staked_sum_chain.

(* RemoveTxFromState (the disconnect half of a reorganisation), any kind *)
Theorem C01_staked_sum_remove_tx : forall cfg l t bh top_h l',
  SInv l -> wf_tx cfg t -> remove_tx cfg l t bh top_h = Ok l' -> SInv l'.
Proof. exact remove_tx_SInv. Qed.
Print Assumptions C01_staked_sum_remove_tx.

(* undoing a staker reward restores the pool record saved under the block hash: PARTIAL - the invariant is kept when
   that record is the pool as it was before the reward (what ApplyPosReward stores; that the store still holds it at
   disconnect time is an invariant over the delegate-history table that is not proved here, it is covered by the
   per-state check of the correspondence run) *)
Theorem C01_staked_sum_remove_reward_partial : forall l bh o l',
  SInv l -> o_amt o < two64 ->
  (forall d old, get_dlg l (o_extra o) = Some d -> nget (dhist l) bh = Some old -> tot old + o_amt o = tot d) ->
  remove_pos_reward l bh o = Ok l' -> SInv l' /\ staked l' + o_amt o = staked l.
Proof. exact remove_pos_reward_SInv. Qed.
Print Assumptions C01_staked_sum_remove_reward_partial.
