(* Property C01 - no inflation: coins are conserved in every committed ledger state. *)
From Virel Require Import Lib.Config Lib.U64 Lib.AMap Model.Ledger Model.Node Proofs.NodeBasics.
Open Scope N_scope.

(* a rejected (or crashing) delivery returns exactly the node it was given *)
Theorem C01_reject_unchanged : forall cfg genesis_addr team_key n b now n' c amb,
  deliver cfg genesis_addr team_key n b now = (n', Rejected c, amb) -> n' = n.
Proof. exact deliver_rejected_unchanged. Qed.
Print Assumptions C01_reject_unchanged.
