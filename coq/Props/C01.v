(* Property C01 - no inflation: coins are conserved in every committed ledger state.
   Statements only; proofs are in Proofs/Conservation.v, Proofs/StakedSum.v and Proofs/NodeBasics.v (one operation, one
   block, one chain) and in Proofs/KeyInv.v, Proofs/NodeConservation.v (EVERY ledger state a node can reach, whatever
   extensions and reorganisations led to it: the C01_reachable theorems at the end of this file). *)
From Virel Require Import Lib.Config Lib.U64 Lib.AMap Model.Emission Model.Ledger Model.Node Spec.Chain
  Proofs.Emission Proofs.Conservation Proofs.Pointwise Proofs.NodeBasics Proofs.ForkChoice Proofs.ChainInv
  Proofs.Staking Proofs.StakedSum Proofs.Refine2 Proofs.Undo Proofs.Replay2 Proofs.Replay3 Proofs.Replay4 Proofs.Replay5
  Proofs.ChainExamples Proofs.Replay6 Proofs.Mempool2
  Proofs.KeyInv Proofs.NodeConservation Proofs.NodeConservationEx Gen.Params.
From Virel Require Model.Des Model.Codec Spec.TxAbs Proofs.CodecBridge Proofs.CodecBridgeNode.
Open Scope N_scope.

(* side condition on the constants, discharged at every generated configuration *)
Theorem C01_cfg_ok_mainnet : cfg_ok_emission cfg_mainnet = true. Proof. vm_compute. reflexivity. Qed.
Theorem C01_cfg_ok_testnet : cfg_ok_emission cfg_testnet = true. Proof. vm_compute. reflexivity. Qed.
Theorem C01_cfg_ok_unittest : cfg_ok_emission cfg_unittest = true. Proof. vm_compute. reflexivity. Qed.
Theorem C01_cfg_ok_verifnet : cfg_ok_emission cfg_verifnet = true. Proof. vm_compute. reflexivity. Qed.

(* A transaction of any of the five kinds that passes the amount checks of stateless validation
   ([tx_total] defined: no overflow of amounts + fee) and is applied to ANY ledger whose balances sum to less than
   2^64 removes exactly its fee from the sum of all balances (burn and pool accounts included). *)
Theorem C01_apply_tx_conserves : forall cfg l t h bh top_h l' tot,
  total_bal l < two64 -> wf_tx cfg t -> tx_total cfg t = Some tot ->
  apply_tx cfg l t h bh top_h = Ok l' -> total_bal l' + tx_fee t = total_bal l.
Proof. exact apply_tx_total. Qed.
Print Assumptions C01_apply_tx_conserves.

(* Applying a block (any version, stake status, transaction list) to a ledger adds exactly the block reward of its
   height: fees are moved, not created; the coinbase split neither creates nor loses a unit. *)
Theorem C01_apply_block_adds_reward : forall cfg genesis_addr, cfg_ok_emission cfg = true ->
  forall l b top_h l',
  total_bal l + reward cfg (lb_height b) <= max_supply cfg ->
  Forall (tx_ok cfg) (lb_txs b) ->
  apply_block cfg genesis_addr l b top_h = Ok l' ->
  total_bal l' = total_bal l + reward cfg (lb_height b).
Proof. exact apply_block_total. Qed.
Print Assumptions C01_apply_block_adds_reward.

(* Along a chain of any length the sum of all balances is the scheduled emission for the tip height and never
   exceeds the maximum supply; consequently (C07) no balance can wrap. *)
Theorem C01_chain_supply : forall cfg genesis_addr, cfg_ok_emission cfg = true ->
  forall bs l (h : nat) l',
  total_bal l = sum_rewards cfg h -> heights_from h bs ->
  Forall (fun b => Forall (tx_ok cfg) (lb_txs b)) bs ->
  apply_chain cfg genesis_addr l bs = Ok l' ->
  total_bal l' = sum_rewards cfg (h + length bs) /\ total_bal l' <= max_supply cfg.
Proof. exact apply_chain_supply. Qed.
Print Assumptions C01_chain_supply.

(* a rejected (or crashing) delivery returns exactly the node it was given *)
Theorem C01_reject_unchanged : forall cfg genesis_addr team_key n b now n' c amb,
  deliver cfg genesis_addr team_key n b now = (n', Rejected c, amb) -> n' = n.
Proof. exact deliver_rejected_unchanged. Qed.
Print Assumptions C01_reject_unchanged.

(* ---- second sentence of the property: the network-wide staked total equals the sum over all pools of their
   members' funds ----
   [SInv l] = the delegate table is ordered by database key, every record is filed under its own id,
   [staked l] = [sum_tot (dlgs l)] (the exact, unbounded sum over all pools of all member funds) and [staked l] < 2^64. *)
Theorem C01_staked_sum_initial : SInv ledger0.
Proof. exact SInv0. Qed.
Print Assumptions C01_staked_sum_initial.

(* ApplyTxToState of a transaction of ANY of the five kinds (uint64-typed amounts) on ANY ledger with the invariant *)
Theorem C01_staked_sum_apply_tx : forall cfg l t h bh top_h l',
  SInv l -> wf_tx cfg t -> apply_tx cfg l t h bh top_h = Ok l' -> SInv l'.
Proof. exact apply_tx_SInv. Qed.
Print Assumptions C01_staked_sum_apply_tx.

(* a staker reward raises the pool total and the network-wide total by exactly the reward *)
Theorem C01_staked_sum_reward : forall l bh o l',
  SInv l -> o_amt o < two64 -> apply_pos_reward l bh o = Ok l' -> SInv l' /\ staked l' = staked l + o_amt o.
Proof. exact apply_pos_reward_SInv. Qed.
Print Assumptions C01_staked_sum_reward.

(* ApplyBlockToState (transactions, coinbase split, staker reward) *)
Theorem C01_staked_sum_apply_block : forall cfg genesis_addr, cfg_ok_emission cfg = true ->
  forall l b top_h l',
  total_bal l + reward cfg (lb_height b) <= max_supply cfg ->
  Forall (tx_ok cfg) (lb_txs b) -> SInv l ->
  apply_block cfg genesis_addr l b top_h = Ok l' -> SInv l'.
Proof. exact apply_block_SInv. Qed.
Print Assumptions C01_staked_sum_apply_block.

(* every ledger reached along a chain of any length *)
Theorem C01_staked_sum_chain : forall cfg genesis_addr, cfg_ok_emission cfg = true ->
  forall bs l (h : nat) l',
  total_bal l = sum_rewards cfg h -> heights_from h bs ->
  Forall (fun b => Forall (tx_ok cfg) (lb_txs b)) bs -> SInv l ->
  apply_chain cfg genesis_addr l bs = Ok l' -> SInv l'.
Proof. exact apply_chain_SInv. Qed.
Print Assumptions C01_staked_sum_chain.

(* RemoveTxFromState (the disconnect half of a reorganisation), any kind *)
Theorem C01_staked_sum_remove_tx : forall cfg l t bh top_h l',
  SInv l -> wf_tx cfg t -> remove_tx cfg l t bh top_h = Ok l' -> SInv l'.
Proof. exact remove_tx_SInv. Qed.
Print Assumptions C01_staked_sum_remove_tx.

(* undoing a staker reward restores the pool record saved under the block hash: as a statement about ONE operation on
   an arbitrary ledger this is conditional - the invariant is kept when that record is the pool as it was before the
   reward (what ApplyPosReward stores).  That the delegate history still holds exactly that record whenever a node
   disconnects the block is part of the node-level replay invariant (Proofs/Replay2.v: RInv, the history entries of the
   replay are present in the node's ledger); the UNCONDITIONAL statement for every reachable ledger, reorganisations
   included, is C01_reachable_staked_sum below. *)
Theorem C01_staked_sum_remove_reward_partial : forall l bh o l',
  SInv l -> o_amt o < two64 ->
  (forall d old, get_dlg l (o_extra o) = Some d -> nget (dhist l) bh = Some old -> tot old + o_amt o = tot d) ->
  remove_pos_reward l bh o = Ok l' -> SInv l' /\ staked l' + o_amt o = staked l.
Proof. exact remove_pos_reward_SInv. Qed.
Print Assumptions C01_staked_sum_remove_reward_partial.

(* ================================================================================================================ *)
(* THE PROPERTY FOR EVERY HISTORY.  n0 = the node after the genesis block, n = the node after ANY sequence of deliveries
   (any blocks, any order, any clock readings: extensions of the main chain, any number of reorganisations - blocks
   disconnected by RemoveBlockFromState, others connected -, refused and crashing deliveries).  Premises: exactly those
   of C03_ledger_is_replay (Props/C03.v, explained there): conditions on the constants, fewer than 2^64 - 1 deliveries,
   [typed] (uint64-typed amounts and version byte of the payload kind: codec facts, discharged from the decoder model in
   the _decoded variant below) and [paths] (block hashes and transaction ids pairwise distinct along every chain of
   stored blocks, counters cannot wrap).  Nothing is assumed about the ledger.

   How it is proved (Proofs/NodeConservation.v): the node's ledger agrees with the replay of its main chain from genesis
   (C03) - accounts as functions, delegate table and staked total exactly; the replay satisfies everything below
   (C01_chain_supply, C01_staked_sum_chain); the account index of a reachable ledger and of the replay hold at most one
   record per address (Proofs/KeyInv.v: kept by every ledger operation, applications and undos alike, with no premise),
   and two such indexes that agree address by address - an absent record counting as an all-zero one: the undo of the
   blocks of an abandoned branch leaves emptied records behind - have the same sum of balances (sumf_agree).

   (a) The sum of ALL account balances (burn address and pool addresses included) equals the scheduled emission for the
       tip height: sum_rewards cfg H = reward(0) + reward(1) + ... + reward(H) with H = stats.TopHeight - the reward of the
       genesis block (height 0) is part of the sum because addGenesis applies the genesis block like any other
       (node0 = apply_block_node on the empty ledger); top_h is the height of the tip block (C10_top_height_is_tip_height).
       It never exceeds the maximum supply. *)
Theorem C01_reachable_supply_conserved : forall cfg genesis_addr team_key g n0 ops,
  cfg_ok_emission cfg = true -> cfg_ok_feepos cfg = true ->
  node0 cfg genesis_addr g = Ok n0 -> b_height g = 0 -> b_cd g = b_diff g ->
  N.of_nat (length ops) < two64 - 1 ->
  Forall (tx_c cfg) (b_txs g) ->
  (forall h b, get_block (run cfg genesis_addr team_key n0 ops) h = Some b ->
     Forall (fun t => wf_tx cfg t /\ ver_ok t = true) (b_txs b)) ->
  (forall bs, up (b_hash g) (blocks (run cfg genesis_addr team_key n0 ops)) (b_hash g) bs ->
     NoDup (bkeys g ++ flat_map bkeys bs) /\ c0 g + bnouts bs < two64 /\ c0 g + bntx bs < two64) ->
  total_bal (ldg (run cfg genesis_addr team_key n0 ops))
    = sum_rewards cfg (N.to_nat (top_h (run cfg genesis_addr team_key n0 ops))) /\
  total_bal (ldg (run cfg genesis_addr team_key n0 ops)) <= max_supply cfg.
Proof. exact reachable_supply. Qed.
Print Assumptions C01_reachable_supply_conserved.

(* (b) The network-wide staked total equals the exact (unbounded) sum over all pools of their members' funds, the
       delegate table is in database-key order and every record is filed under its own id. *)
Theorem C01_reachable_staked_sum : forall cfg genesis_addr team_key g n0 ops,
  cfg_ok_emission cfg = true -> cfg_ok_feepos cfg = true ->
  node0 cfg genesis_addr g = Ok n0 -> b_height g = 0 -> b_cd g = b_diff g ->
  N.of_nat (length ops) < two64 - 1 ->
  Forall (tx_c cfg) (b_txs g) ->
  (forall h b, get_block (run cfg genesis_addr team_key n0 ops) h = Some b ->
     Forall (fun t => wf_tx cfg t /\ ver_ok t = true) (b_txs b)) ->
  (forall bs, up (b_hash g) (blocks (run cfg genesis_addr team_key n0 ops)) (b_hash g) bs ->
     NoDup (bkeys g ++ flat_map bkeys bs) /\ c0 g + bnouts bs < two64 /\ c0 g + bntx bs < two64) ->
  SInv (ldg (run cfg genesis_addr team_key n0 ops)).
Proof. exact reachable_staked_sum. Qed.
Print Assumptions C01_reachable_staked_sum.

(* (c) Nothing wraps: the sum of all balances, hence every balance, the staked total and every fund of every pool are
       below 2^64 (they are mathematical naturals in the model: the uint64 fields of the implementation hold them). *)
Theorem C01_reachable_no_wrap : forall cfg genesis_addr team_key g n0 ops,
  cfg_ok_emission cfg = true -> cfg_ok_feepos cfg = true ->
  node0 cfg genesis_addr g = Ok n0 -> b_height g = 0 -> b_cd g = b_diff g ->
  N.of_nat (length ops) < two64 - 1 ->
  Forall (tx_c cfg) (b_txs g) ->
  (forall h b, get_block (run cfg genesis_addr team_key n0 ops) h = Some b ->
     Forall (fun t => wf_tx cfg t /\ ver_ok t = true) (b_txs b)) ->
  (forall bs, up (b_hash g) (blocks (run cfg genesis_addr team_key n0 ops)) (b_hash g) bs ->
     NoDup (bkeys g ++ flat_map bkeys bs) /\ c0 g + bnouts bs < two64 /\ c0 g + bntx bs < two64) ->
  total_bal (ldg (run cfg genesis_addr team_key n0 ops)) < two64 /\
  (forall a s, get_state (ldg (run cfg genesis_addr team_key n0 ops)) a = Some s -> bal s < two64) /\
  staked (ldg (run cfg genesis_addr team_key n0 ops)) < two64 /\
  (forall id d f, get_dlg (ldg (run cfg genesis_addr team_key n0 ops)) id = Some d -> In f (d_funds d) -> f_amt f < two64).
Proof. exact reachable_no_wrap. Qed.
Print Assumptions C01_reachable_no_wrap.

(* All of it at once, with the by-products: at most one account record per address, at most one pool record per id, no
   fund of amount 0, no owner with two funds in one pool.  [typed] discharged from the byte-level decoder model as in
   C03_ledger_is_replay_decoded: every transaction of a stored block other than genesis is the abstraction of a value
   Transaction.Deserialize returned. *)
Theorem C01_reachable_conserved_decoded :
  forall (txid_of key_id addr_id name_id : list N -> N) (sig_by : Model.Codec.tx -> N) (sig_msg : Model.Codec.tx -> bool)
         (signer_invalid : list N -> bool) cfg genesis_addr team_key g n0 ops,
  cfg_ok_emission cfg = true -> cfg_ok_feepos cfg = true -> CodecBridge.cfg_ok_burn cfg = true ->
  node0 cfg genesis_addr g = Ok n0 -> b_height g = 0 -> b_cd g = b_diff g ->
  N.of_nat (length ops) < two64 - 1 ->
  Forall (tx_c cfg) (b_txs g) ->
  (forall h b, get_block (run cfg genesis_addr team_key n0 ops) h = Some b -> h <> b_hash g ->
     Forall (fun x => exists hv bs t,
               Model.Des.result_of (Model.Des.run (Model.Codec.dec_tx cfg hv) bs) = Model.Des.ROk t /\
               x = TxAbs.abs_tx txid_of key_id addr_id name_id sig_by sig_msg signer_invalid t) (b_txs b)) ->
  (forall bs, up (b_hash g) (blocks (run cfg genesis_addr team_key n0 ops)) (b_hash g) bs ->
     NoDup (bkeys g ++ flat_map bkeys bs) /\ c0 g + bnouts bs < two64 /\ c0 g + bntx bs < two64) ->
  let l := ldg (run cfg genesis_addr team_key n0 ops) in
  total_bal l = sum_rewards cfg (N.to_nat (top_h (run cfg genesis_addr team_key n0 ops))) /\
  total_bal l <= max_supply cfg /\
  SInv l /\
  (forall a s, get_state l a = Some s -> bal s < two64) /\ staked l < two64 /\
  NoDup (map fst (accts l)) /\ NoDup (map fst (dlgs l)) /\
  (forall id d f, get_dlg l id = Some d -> In f (d_funds d) -> 0 < f_amt f) /\
  (forall id d, get_dlg l id = Some d -> NoDup (map f_owner (d_funds d))).
Proof. exact reachable_conserved_decoded. Qed.
Print Assumptions C01_reachable_conserved_decoded.

(* the same with the premises as ONE condition on the final block store (no use of stateless validation):
   store_pre = every transaction of a stored block is well formed (tx_c) and [paths] *)
Theorem C01_reachable_conserved_general : forall cfg genesis_addr team_key g n0 ops,
  cfg_ok_emission cfg = true ->
  node0 cfg genesis_addr g = Ok n0 -> b_height g = 0 -> b_cd g = b_diff g ->
  N.of_nat (length ops) < two64 - 1 ->
  store_pre cfg g (blocks (run cfg genesis_addr team_key n0 ops)) ->
  let l := ldg (run cfg genesis_addr team_key n0 ops) in
  total_bal l = sum_rewards cfg (N.to_nat (top_h (run cfg genesis_addr team_key n0 ops))) /\
  total_bal l <= max_supply cfg /\
  SInv l /\
  (forall a s, get_state l a = Some s -> bal s < two64) /\ staked l < two64 /\
  NoDup (map fst (accts l)) /\ NoDup (map fst (dlgs l)) /\
  (forall id d f, get_dlg l id = Some d -> In f (d_funds d) -> 0 < f_amt f) /\
  (forall id d, get_dlg l id = Some d -> NoDup (map f_owner (d_funds d))).
Proof. exact reachable_conserved_general. Qed.
Print Assumptions C01_reachable_conserved_general.

(* with NO premise on the blocks at all: in every reachable ledger the account index holds at most one record per
   address, the delegate table is in database-key order and holds at most one record per pool id *)
Theorem C01_reachable_keys_distinct : forall cfg genesis_addr team_key g n0 ops,
  node0 cfg genesis_addr g = Ok n0 ->
  let l := ldg (run cfg genesis_addr team_key n0 ops) in
  NoDup (map fst (accts l)) /\ dsorted (dlgs l) /\ NoDup (map fst (dlgs l)).
Proof. exact reachable_KInv. Qed.
Print Assumptions C01_reachable_keys_distinct.

(* the lemma that carries the sum across the agreement *)
Theorem C01_same_accounts_same_sum : forall l1 l2,
  NoDup (map fst (accts l1)) -> NoDup (map fst (accts l2)) ->
  (forall a, acct_at l1 a = acct_at l2 a) -> total_bal l1 = total_bal l2.
Proof. exact total_bal_agree. Qed.
Print Assumptions C01_same_accounts_same_sum.

(* non-vacuity: every premise holds for the history of Proofs/ChainExamples.v that reorganises from G-A1-A2-A3 to the
   heavier chain G-B-D (three blocks disconnected, two connected): its final ledger holds the emission for the heights
   0, 1, 2 *)
Theorem C01_reachable_example :
  let n := run cfg_verifnet 7 0 ex_n0 sr_ops in
  top_h n = 2 /\ map b_hash (mchain n) = [4; 6] /\
  total_bal (ldg n) = sum_rewards cfg_verifnet 2 /\ total_bal (ldg n) <= max_supply cfg_verifnet /\ SInv (ldg n).
Proof. exact reachable_example_supply. Qed.
Print Assumptions C01_reachable_example.
