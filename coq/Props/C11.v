(* Property C11 - a node connected to a peer with a heavier valid chain catches up to it.
   Statements only; proofs in Proofs/Sync.v.  The theorems are about the synchronisation logic at message
   granularity (Model/Sync.v: scheduler, serving side, orphan queue, ordered post-processing over the node model).
   Goroutine interleavings, TCP, timers, race- and deadlock-freedom are explored by live runs (Check/C11.v), not proved. *)
From Coq Require Import Permutation.
From Virel Require Import Lib.Config Lib.U64 Lib.AMap Model.Ledger Model.Node Model.Sync
  Proofs.NodeBasics Proofs.ForkChoice Proofs.Sync Gen.Params.
Open Scope N_scope.

(* ---- safety: whatever a peer sends ---- *)
(* In EVERY execution of the synchronisation machine - any statistics announced, any blocks received (valid, invalid,
   duplicated, out of order, unsolicited), any timing of scheduler, post-processor and queue expiry - the node's state
   is the result of a sequence of single deliveries from where it started.  Every invariant proved for [run] therefore
   holds at every moment of a synchronisation. *)
Theorem C11_sync_safety : forall cfg genesis_addr team_key es s,
  exists ops, sy_node (steps cfg genesis_addr team_key s es) = run cfg genesis_addr team_key (sy_node s) ops.
Proof. exact sync_safety. Qed.
Print Assumptions C11_sync_safety.

(* in particular the fork-choice invariant (C04): the tip is a stored block of maximal cumulative difficulty *)
Theorem C11_sync_tip_always_maximal : forall cfg genesis_addr team_key g n0 es,
  node0 cfg genesis_addr g = Ok n0 -> b_cd g = b_diff g ->
  let n := sy_node (steps cfg genesis_addr team_key (sync0 n0) es) in
  (exists t, get_block n (top n) = Some t /\ b_cd t = top_cd n) /\
  (forall h b, get_block n h = Some b -> b_cd b <= top_cd n).
Proof. exact sync_tip_always_maximal. Qed.
Print Assumptions C11_sync_tip_always_maximal.

(* a relayed block that fails prevalidation changes nothing at all (it never reaches the post-processor) *)
Theorem C11_invalid_block_dropped : forall cfg team_key s b now,
  prevalidate_block cfg team_key b now <> Ok tt -> recv_block cfg team_key s b now = s.
Proof. exact recv_block_invalid. Qed.
Print Assumptions C11_invalid_block_dropped.

(* a block the post-processor refuses (invalid against the chain, duplicate, orphan) or on which the node code
   panics leaves the node exactly as it was *)
Theorem C11_refused_block_leaves_node : forall cfg genesis_addr team_key s b now n1 out amb,
  deliver cfg genesis_addr team_key (sy_node s) b now = (n1, out, amb) -> out <> Accepted ->
  sy_node (post_block cfg genesis_addr team_key s b now) = sy_node s.
Proof. exact post_block_refused. Qed.
Print Assumptions C11_refused_block_leaves_node.

(* ---- the serving side ---- *)
(* a by-height request (h, count) within the protocol's bounds, sent to a node whose height index is complete up to
   its tip and empty above it, is answered with exactly the main-chain blocks of heights h .. min (h + count, tip),
   each at its place *)
Theorem C11_serve_correct : forall cfg n h c,
  height_index n -> c <= parallel_blocks cfg -> h + c < two64 ->
  let bs := serve cfg n (ReqHeight h c) in
  (forall i b, nth_error bs i = Some b -> block_at n (h + N.of_nat i) = Some b /\ b_height b = h + N.of_nat i) /\
  (forall i, N.of_nat i <= c -> h + N.of_nat i <= top_h n -> exists b, nth_error bs i = Some b) /\
  (N.of_nat (length bs) <= c + 1) /\
  (forall i, top_h n < h + N.of_nat i -> nth_error bs i = None).
Proof. exact serve_correct. Qed.
Print Assumptions C11_serve_correct.

(* the node that has received a chain of valid extension blocks serves exactly that chain above the old tip
   (the height-index premise of the catch-up theorem is met by every node built by linear extension) *)
Theorem C11_extended_node_serves_extension : forall cfg genesis_addr bs n,
  ext_chain cfg genesis_addr n bs -> (forall h, top_h n < h -> get_topo n h = None) ->
  forall i, block_at (apply_ext cfg genesis_addr n bs) (top_h n + 1 + N.of_nat i) = nth_error bs i.
Proof. exact extended_node_serves_extension. Qed.
Print Assumptions C11_extended_node_serves_extension.

(* ---- ordered post-processing ---- *)
(* a buffered batch whose blocks have pairwise distinct heights - in particular consecutive extension blocks - leaves
   the same state (node, download queue, everything) whatever the permutation in which it arrived *)
Theorem C11_batch_order_irrelevant : forall cfg genesis_addr team_key s buf buf',
  Permutation buf buf' -> NoDup (map hgt buf) ->
  flush cfg genesis_addr team_key (set_buf s buf) = flush cfg genesis_addr team_key (set_buf s buf').
Proof. exact batch_order_irrelevant. Qed.
Print Assumptions C11_batch_order_irrelevant.

(* ---- liveness on a linear extension ---- *)
(* Peer chain = our chain + the valid extension [bs]; the peer announced its statistics; the only faults are
   duplication and reordering of the answers within each request round.  Then after at most one round per missing
   block (the measure "peer height - our height" strictly decreases; a round brings up to PARALLEL_BLOCKS_DOWNLOAD+1
   blocks) the node is exactly what it would be had it received the extension block by block; its tip is the last
   block of the extension; further rounds change nothing. *)
Theorem C11_sync_linear : forall cfg genesis_addr team_key peer n0 bs,
  ext_chain cfg genesis_addr n0 bs ->
  (forall i, block_at peer (top_h n0 + 1 + N.of_nat i) = nth_error bs i) ->
  top_h n0 + N.of_nat (length bs) + 1 < two64 ->
  (forall done todo, bs = done ++ todo -> todo <> [] ->
     top_cd (apply_ext cfg genesis_addr n0 done) < top_cd (apply_ext cfg genesis_addr n0 bs)) ->
  forall m s s',
  sy_node s = n0 -> sy_height s = top_h n0 + N.of_nat (length bs) -> sy_diff s = top_cd (apply_ext cfg genesis_addr n0 bs) ->
  sy_last s <= top_h n0 -> sy_queue s = [] -> sy_buf s = [] ->
  lin_rounds cfg genesis_addr team_key peer m s s' -> (length bs <= m)%nat ->
  sy_node s' = apply_ext cfg genesis_addr n0 bs /\ sy_queue s' = [] /\ sy_buf s' = [] /\
  (forall d, bs <> [] -> top (sy_node s') = b_hash (last bs d)) /\
  top_h (sy_node s') = top_h n0 + N.of_nat (length bs).
Proof. exact sync_linear. Qed.
Print Assumptions C11_sync_linear.

(* the peer being the very node that received the extension before us: we end EQUAL to it - tip, height, cumulative
   difficulty, indexes and ledger *)
Theorem C11_sync_linear_same_as_peer : forall cfg genesis_addr team_key n0 bs m s s',
  ext_chain cfg genesis_addr n0 bs -> (forall h, top_h n0 < h -> get_topo n0 h = None) ->
  top_h n0 + N.of_nat (length bs) + 1 < two64 ->
  (forall done todo, bs = done ++ todo -> todo <> [] ->
     top_cd (apply_ext cfg genesis_addr n0 done) < top_cd (apply_ext cfg genesis_addr n0 bs)) ->
  let peer := apply_ext cfg genesis_addr n0 bs in
  sy_node s = n0 -> sy_height s = top_h peer -> sy_diff s = top_cd peer ->
  sy_last s <= top_h n0 -> sy_queue s = [] -> sy_buf s = [] ->
  lin_rounds cfg genesis_addr team_key peer m s s' -> (length bs <= m)%nat ->
  sy_node s' = peer.
Proof. exact sync_linear_same_as_peer. Qed.
Print Assumptions C11_sync_linear_same_as_peer.

(* the premises of the two theorems above are decidable on concrete chains; Check/C11.v evaluates this boolean on the
   real blocks of every linear live scenario (non-vacuity on the implementation's own data) *)
Theorem C11_linear_premises_decidable : forall cfg genesis_addr n0 bs,
  linear_chain_b cfg genesis_addr n0 bs = true ->
  ext_chain cfg genesis_addr n0 bs /\
  (forall done todo, bs = done ++ todo -> todo <> [] ->
     top_cd (apply_ext cfg genesis_addr n0 done) < top_cd (apply_ext cfg genesis_addr n0 bs)).
Proof. exact linear_premises_sound. Qed.
Print Assumptions C11_linear_premises_decidable.

(* ---- across a fork: partial ---- *)
(* In every execution, once the peer's tip block has been accepted into the store the node's tip is at least as heavy,
   and if every other stored block is strictly lighter the node's tip is the peer's tip.
   The FULL statement (Proofs/Sync.v, [sync_fork_full] : Prop - the request rounds do bring every block of the peer's
   branch across a fork: orphan -> parent queued -> re-request after the wait counter expires) is stated and NOT proved;
   catching up across forks of depth 1-5 is covered by live runs only. *)
Theorem C11_sync_fork_partial : forall cfg genesis_addr team_key s es p pb,
  FInv (sy_node s) ->
  let n := sy_node (steps cfg genesis_addr team_key s es) in
  get_block n p = Some pb ->
  b_cd pb <= top_cd n /\
  ((forall h b, get_block n h = Some b -> h <> p -> b_cd b < b_cd pb) -> top n = p).
Proof. exact sync_fork_partial. Qed.
Print Assumptions C11_sync_fork_partial.
