(* Property C11 - a node connected to a peer with a heavier valid chain catches up to it.
   Statements only; proofs in Proofs/Sync.v and Proofs/Sync2*.v.  The theorems are about the synchronisation logic at message
   granularity (Model/Sync.v: scheduler, serving side, orphan queue, ordered post-processing over the node model).
   Goroutine interleavings, TCP, timers, race- and deadlock-freedom are explored by live runs (Check/C11.v), not proved. *)
From Coq Require Import Permutation.
From Virel Require Import Lib.Config Lib.U64 Lib.AMap Model.Ledger Model.Node Model.Sync Spec.Chain
  Proofs.NodeBasics Proofs.ForkChoice Proofs.Sync Proofs.Sync2 Proofs.Sync2Refine Proofs.Sync2Main Proofs.Sync2Reach
  Proofs.Sync2Stuck Proofs.Sync2Example Proofs.ChainInv Proofs.ChainHeights Gen.Params.
Open Scope N_scope.

(* ---- safety: whatever a peer sends ---- *)
(* In EVERY execution of the synchronisation machine - any statistics announced, any blocks received (valid, invalid,
   duplicated, out of order, unsolicited), any timing of scheduler, post-processor and queue expiry - the node's state
   is the result of a sequence of single deliveries from where it started.  Every invariant proved for [run] therefore
   holds at every moment of a synchronisation. *)
Theorem C11_sync_safety : forall cfg genesis_addr team_key es s,
  exists ops, sy_node (steps cfg genesis_addr team_key s es) = run cfg genesis_addr team_key (sy_node s) ops.
Proof. exact sync_safety. Qed.
Print Assumptions C11_sync_safety.

(* in particular the fork-choice invariant (C04): the tip is a stored block of maximal cumulative difficulty *)
Theorem C11_sync_tip_always_maximal : forall cfg genesis_addr team_key g n0 es,
  node0 cfg genesis_addr g = Ok n0 -> b_cd g = b_diff g ->
  let n := sy_node (steps cfg genesis_addr team_key (sync0 n0) es) in
  (exists t, get_block n (top n) = Some t /\ b_cd t = top_cd n) /\
  (forall h b, get_block n h = Some b -> b_cd b <= top_cd n).
Proof. exact sync_tip_always_maximal. Qed.
Print Assumptions C11_sync_tip_always_maximal.

(* a relayed block that fails prevalidation changes nothing at all (it never reaches the post-processor) *)
Theorem C11_invalid_block_dropped : forall cfg team_key s b now,
  prevalidate_block cfg team_key b now <> Ok tt -> recv_block cfg team_key s b now = s.
Proof. exact recv_block_invalid. Qed.
Print Assumptions C11_invalid_block_dropped.

(* a block the post-processor refuses (invalid against the chain, duplicate, orphan) or on which the node code
   panics leaves the node exactly as it was *)
Theorem C11_refused_block_leaves_node : forall cfg genesis_addr team_key s b now n1 out amb,
  deliver cfg genesis_addr team_key (sy_node s) b now = (n1, out, amb) -> out <> Accepted ->
  sy_node (post_block cfg genesis_addr team_key s b now) = sy_node s.
Proof. exact post_block_refused. Qed.
Print Assumptions C11_refused_block_leaves_node.

(* ---- the serving side ---- *)
(* a by-height request (h, count) within the protocol's bounds, sent to a node whose height index is complete up to
   its tip and empty above it, is answered with exactly the main-chain blocks of heights h .. min (h + count, tip),
   each at its place *)
Theorem C11_serve_correct : forall cfg n h c,
  height_index n -> c <= parallel_blocks cfg -> h + c < two64 ->
  let bs := serve cfg n (ReqHeight h c) in
  (forall i b, nth_error bs i = Some b -> block_at n (h + N.of_nat i) = Some b /\ b_height b = h + N.of_nat i) /\
  (forall i, N.of_nat i <= c -> h + N.of_nat i <= top_h n -> exists b, nth_error bs i = Some b) /\
  (N.of_nat (length bs) <= c + 1) /\
  (forall i, top_h n < h + N.of_nat i -> nth_error bs i = None).
Proof. exact serve_correct. Qed.
Print Assumptions C11_serve_correct.

(* the node that has received a chain of valid extension blocks serves exactly that chain above the old tip
   (the height-index premise of the catch-up theorem is met by every node built by linear extension) *)
Theorem C11_extended_node_serves_extension : forall cfg genesis_addr bs n,
  ext_chain cfg genesis_addr n bs -> (forall h, top_h n < h -> get_topo n h = None) ->
  forall i, block_at (apply_ext cfg genesis_addr n bs) (top_h n + 1 + N.of_nat i) = nth_error bs i.
Proof. exact extended_node_serves_extension. Qed.
Print Assumptions C11_extended_node_serves_extension.

(* ---- ordered post-processing ---- *)
(* a buffered batch whose blocks have pairwise distinct heights - in particular consecutive extension blocks - leaves
   the same state (node, download queue, everything) whatever the permutation in which it arrived *)
Theorem C11_batch_order_irrelevant : forall cfg genesis_addr team_key s buf buf',
  Permutation buf buf' -> NoDup (map hgt buf) ->
  flush cfg genesis_addr team_key (set_buf s buf) = flush cfg genesis_addr team_key (set_buf s buf').
Proof. exact batch_order_irrelevant. Qed.
Print Assumptions C11_batch_order_irrelevant.

(* ---- liveness on a linear extension ---- *)
(* Peer chain = our chain + the valid extension [bs]; the peer announced its statistics; the only faults are
   duplication and reordering of the answers within each request round.  Then after at most one round per missing
   block (the measure "peer height - our height" strictly decreases; a round brings up to PARALLEL_BLOCKS_DOWNLOAD+1
   blocks) the node is exactly what it would be had it received the extension block by block; its tip is the last
   block of the extension; further rounds change nothing. *)
Theorem C11_sync_linear : forall cfg genesis_addr team_key peer n0 bs,
  ext_chain cfg genesis_addr n0 bs ->
  (forall i, block_at peer (top_h n0 + 1 + N.of_nat i) = nth_error bs i) ->
  top_h n0 + N.of_nat (length bs) + 1 < two64 ->
  (forall done todo, bs = done ++ todo -> todo <> [] ->
     top_cd (apply_ext cfg genesis_addr n0 done) < top_cd (apply_ext cfg genesis_addr n0 bs)) ->
  forall m s s',
  sy_node s = n0 -> sy_height s = top_h n0 + N.of_nat (length bs) -> sy_diff s = top_cd (apply_ext cfg genesis_addr n0 bs) ->
  sy_last s <= top_h n0 -> sy_queue s = [] -> sy_buf s = [] ->
  lin_rounds cfg genesis_addr team_key peer m s s' -> (length bs <= m)%nat ->
  sy_node s' = apply_ext cfg genesis_addr n0 bs /\ sy_queue s' = [] /\ sy_buf s' = [] /\
  (forall d, bs <> [] -> top (sy_node s') = b_hash (last bs d)) /\
  top_h (sy_node s') = top_h n0 + N.of_nat (length bs).
Proof. exact sync_linear. Qed.
Print Assumptions C11_sync_linear.

(* the peer being the very node that received the extension before us: we end EQUAL to it - tip, height, cumulative
   difficulty, indexes and ledger *)
Theorem C11_sync_linear_same_as_peer : forall cfg genesis_addr team_key n0 bs m s s',
  ext_chain cfg genesis_addr n0 bs -> (forall h, top_h n0 < h -> get_topo n0 h = None) ->
  top_h n0 + N.of_nat (length bs) + 1 < two64 ->
  (forall done todo, bs = done ++ todo -> todo <> [] ->
     top_cd (apply_ext cfg genesis_addr n0 done) < top_cd (apply_ext cfg genesis_addr n0 bs)) ->
  let peer := apply_ext cfg genesis_addr n0 bs in
  sy_node s = n0 -> sy_height s = top_h peer -> sy_diff s = top_cd peer ->
  sy_last s <= top_h n0 -> sy_queue s = [] -> sy_buf s = [] ->
  lin_rounds cfg genesis_addr team_key peer m s s' -> (length bs <= m)%nat ->
  sy_node s' = peer.
Proof. exact sync_linear_same_as_peer. Qed.
Print Assumptions C11_sync_linear_same_as_peer.

(* the premises of the two theorems above are decidable on concrete chains; Check/C11.v evaluates this boolean on the
   real blocks of every linear live scenario (non-vacuity on the implementation's own data) *)
Theorem C11_linear_premises_decidable : forall cfg genesis_addr n0 bs,
  linear_chain_b cfg genesis_addr n0 bs = true ->
  ext_chain cfg genesis_addr n0 bs /\
  (forall done todo, bs = done ++ todo -> todo <> [] ->
     top_cd (apply_ext cfg genesis_addr n0 done) < top_cd (apply_ext cfg genesis_addr n0 bs)).
Proof. exact linear_premises_sound. Qed.
Print Assumptions C11_linear_premises_decidable.

(* ---- across a fork ---- *)
(* In every execution, once the peer's tip block has been accepted into the store the node's tip is at least as heavy,
   and if every other stored block is strictly lighter the node's tip is the peer's tip. *)
Theorem C11_sync_fork_partial : forall cfg genesis_addr team_key s es p pb,
  FInv (sy_node s) ->
  let n := sy_node (steps cfg genesis_addr team_key s es) in
  get_block n p = Some pb ->
  b_cd pb <= top_cd n /\
  ((forall h b, get_block n h = Some b -> h <> p -> b_cd b < b_cd pb) -> top n = p).
Proof. exact sync_fork_partial. Qed.
Print Assumptions C11_sync_fork_partial.

(* The FULL statement as it was written down first (Proofs/Sync.v, [sync_fork_full] : Prop - whenever the node shares
   an ancestor with a peer holding a valid heavier chain, the request rounds bring the peer's tip, WHATEVER target the
   node has heard of before) is FALSE: a node whose target was pinned by an announcement nobody delivers never asks an
   honest peer with a heavier chain of the same height for anything (livelock 2 below). *)
Theorem C11_sync_fork_full_refuted : ~ sync_fork_full cfg_verifnet 7 0.
Proof. exact sync_fork_full_refuted. Qed.
Print Assumptions C11_sync_fork_full_refuted.

(* LIVELOCK 2 (one false or outdated STATS packet from a peer that stays connected and never delivers; the variant in
   which that peer has left is repaired in the implementation, KNOWN_FINDINGS C11-stale-target-peer-gone).  Node: genesis + 5 blocks (tip 3005, cumulative difficulty 15);
   honest peer: a fork from genesis of the same height 5, heavier (tip 4005, cumulative difficulty 17) - adopted within 5
   rounds from the fresh state ([k_control2]).  After a STATS packet (height 100, cumulative difficulty 1000) from a peer
   that delivers nothing, in EVERY round of the schedule "peer's STATS arrived - one Synchronize iteration - every request
   answered - buffer drained": the tip stays 3005, no block is stored, the target stays (100, 1000). *)
Theorem C11_stuck_stale_target : forall j,
  let s := srounds cfg_verifnet 7 0 k_P2 k_now j k_stale in
  top (sy_node s) = 3005 /\ length (blocks (sy_node s)) = 6%nat /\ sy_height s = 100 /\ sy_diff s = 1000.
Proof. exact stuck_stale_target. Qed.
Print Assumptions C11_stuck_stale_target.

(* LIVELOCK 1 (two nodes, every request answered, nobody lies; REPAIRED - KNOWN_FINDINGS C11-long-light-fork, history
   in the header of Proofs/Sync2Stuck.v): the by-height request restarted at OUR main-chain height whenever the requested
   blocks had not moved it, so a peer branch that becomes heavier than our chain only more than
   PARALLEL_BLOCKS_DOWNLOAD + 1 blocks above our height was never fetched beyond that window.  The pair of chains that
   showed it - ours: genesis + 14 blocks with equal timestamps (tip 1014, cumulative difficulty 145); peer: genesis + 75
   blocks 15 s apart (tip 2075, cumulative difficulty 155, still 135 at height 65) - is now a regression example: the node
   catches up ([sim] within the 600 rounds Check/C11.v allows). *)
Theorem C11_fork_example_long_light_fork :
  (top (k_feed k_ours), top_h (k_feed k_ours), top_cd (k_feed k_ours)) = (1014, 14, 145) /\
  (top (k_feed k_theirs), top_h (k_feed k_theirs), top_cd (k_feed k_theirs)) = (2075, 75, 155) /\
  map b_cd (firstn 1 (skipn 64 k_theirs)) = [135] /\
  exists bound, forall k, (bound <= k)%nat ->
    let s' := srounds cfg_verifnet 7 0 (k_feed k_theirs) k_now k (sync0 (k_feed k_ours)) in
    sy_node s' = apply_ext cfg_verifnet 7 (k_feed k_ours) k_theirs /\
    (forall b, In b (k_genesis :: k_theirs) -> get_block (sy_node s') (b_hash b) = Some b) /\
    top (sy_node s') = top (k_feed k_theirs).
Proof. exact example_long_light_fork. Qed.
Print Assumptions C11_fork_example_long_light_fork.

Theorem C11_fork_example_long_light_fork_sim :
  top (sy_node (fst (sim cfg_verifnet 7 0 600 (k_feed k_theirs) (sync0 (k_feed k_ours)) [] k_now))) = 2075.
Proof. exact example_long_light_fork_sim. Qed.
Print Assumptions C11_fork_example_long_light_fork_sim.

(* ---- across a fork: what IS true ---- *)
(* The mechanism as a machine over heights (Proofs/Sync2.v): frontier L = lowest height of the peer's chain that is not
   stored, the queue as the list of the heights of its entries, one round = one Synchronize iteration with all answers
   processed lowest first; [th L] = our own height, [hd L] = the highest height at which we hold a block, when the
   frontier is L.  If the block just below the frontier is held (L <= hd L + 1), the frontier passes the peer's height
   after finitely many rounds.
   Termination measure (lexicographic): blocks of the peer's chain not yet stored; then, while no queue entry is at or
   above the frontier, (frontier - base of the next by-height window) and the iterations until the by-height part fires
   again (<= 42) - a window below the frontier is answered with duplicates only and the next one starts above it;
   otherwise (lowest entry at or above the frontier - L) + number of entries below the frontier. *)
Theorem C11_sync_machine_catches_up : forall hp pbd (th hd : N -> N), 1 <= pbd -> forall L0, 1 <= L0 ->
  (forall L, L0 <= L -> L <= hp + 1 -> L <= hd L + 1) ->
  forall a, AInv hp L0 a -> exists k, AInv hp L0 (a_iter hp pbd th hd k a) /\ hp < aL (a_iter hp pbd th hd k a).
Proof. exact a_catches_up. Qed.
Print Assumptions C11_sync_machine_catches_up.

(* Catching up across a fork.  Peer: any state with the chain structure (every reachable state, C10/C17); our node: any
   state with the fork-choice invariant (every reachable state, C04).  The peer's main chain is [shared ++ theirs]: we
   store [shared] (at least genesis) and nothing of [theirs].
   Premises about the peer's branch (all executable on concrete chains):
     - our node accepts the blocks of [theirs] one after another, lowest first (AddBlock succeeds, including the
       reorganisation): the branch is valid FROM OUR NODE'S POINT OF VIEW;
     - until the last block of [theirs] is in, our tip is lighter than the peer's announcement;
     - HELD: while it accepts the branch our node holds a block at the height just below the lowest block of [theirs] it
       does not store yet (its own height or the height of one of its alternative tips is at least that): true of every
       reachable node, see the next theorem;
   about the synchronisation state: empty download queue and buffer, and the best announcement heard so far is at most
   the peer's (false in livelock 2); the counters n / forkWait / SyncLastRequestHeight are arbitrary.
   Schedule (fairness): rounds keep being scheduled; in every round the peer's STATS have arrived, Synchronize runs one
   iteration, the peer answers every request of it, the answers arrive - in the order sent ([srounds]) or in any order
   ([prounds]) - and the post-processor drains its buffer.
   Then there is a number of rounds after which, for every clock reading at which the peer's blocks (other than genesis)
   pass prevalidation: the node is exactly the node that received [theirs] block by block, its store holds every block of
   the peer's main chain, its tip is the peer's tip, further rounds change nothing; and [sim] ends with the peer's tip. *)
Theorem C11_sync_fork_catches_up : forall cfg genesis_addr team_key gh peer n0 shared theirs,
  chain_structure gh peer -> FInv n0 ->
  main_chain peer = shared ++ theirs -> shared <> [] -> theirs <> [] ->
  (forall b, In b (shared ++ theirs) -> b_hash b <> 0) ->
  (forall b, In b shared -> get_block n0 (b_hash b) = Some b) ->
  (forall b, In b theirs -> get_block n0 (b_hash b) = None) ->
  acc_chain cfg genesis_addr n0 theirs ->
  (forall j, (j < length theirs)%nat -> top_cd (apply_ext cfg genesis_addr n0 (firstn j theirs)) < top_cd peer) ->
  top_h peer + parallel_blocks cfg + 2 < two64 -> 1 <= parallel_blocks cfg ->
  (forall j, (j <= length theirs)%nat ->
     N.of_nat (length shared + j) <= held_height (apply_ext cfg genesis_addr n0 (firstn j theirs)) + 1) ->
  forall s, sy_node s = n0 -> sy_queue s = [] -> sy_buf s = [] ->
  (sy_diff s < top_cd peer \/ (sy_diff s = top_cd peer /\ sy_height s = top_h peer)) ->
  exists bound, forall now, (forall b, In b (tl (shared ++ theirs)) -> prevalidate_block cfg team_key b now = Ok tt) ->
    (forall k, (bound <= k)%nat ->
       let s' := srounds cfg genesis_addr team_key peer now k s in
       sy_node s' = apply_ext cfg genesis_addr n0 theirs /\
       (forall b, In b (main_chain peer) -> get_block (sy_node s') (b_hash b) = Some b) /\
       top (sy_node s') = top peer /\ sy_buf s' = [] /\
       srounds cfg genesis_addr team_key peer now (S k) s = s') /\
    (forall m s', (bound <= m)%nat -> prounds cfg genesis_addr team_key peer now m s s' ->
       sy_node s' = apply_ext cfg genesis_addr n0 theirs /\
       (forall b, In b (main_chain peer) -> get_block (sy_node s') (b_hash b) = Some b) /\
       top (sy_node s') = top peer /\ sy_buf s' = []) /\
    (forall fuel, (bound <= fuel)%nat ->
       top (sy_node (fst (sim cfg genesis_addr team_key fuel peer s [] now))) = top peer).
Proof. exact sync_fork_catches_up. Qed.
Print Assumptions C11_sync_fork_catches_up.

(* Every reachable node satisfies the chain invariants and holds a block at every height up to [held_height]: no stored
   block is higher than the node's own height and the heights of its alternative tips ([MInv]). *)
Theorem C11_reachable_holds_heights : forall cfg genesis_addr team_key g n0 ops,
  node0 cfg genesis_addr g = Ok n0 -> b_height g = 0 -> b_cd g = b_diff g -> N.of_nat (length ops) < two64 - 1 ->
  let n := run cfg genesis_addr team_key n0 ops in
  (CInv (b_hash g) n /\ FInv n /\ HInv n) /\ (forall h b, get_block n h = Some b -> b_height b <= held_height n).
Proof. exact reachable_MInv. Qed.
Print Assumptions C11_reachable_holds_heights.

(* For such a node the premise HELD is a theorem: NO premise about the request window is left (before the repair of
   livelock 1 this theorem needed "the peer's block at height our height + PARALLEL_BLOCKS_DOWNLOAD + 1, if there is
   one, is heavier than our tip"). *)
Theorem C11_sync_fork_catches_up_chains : forall cfg genesis_addr team_key gh peer n0 shared theirs,
  chain_structure gh peer -> CInv gh n0 /\ FInv n0 /\ HInv n0 ->
  (forall h b, get_block n0 h = Some b -> b_height b <= held_height n0) ->
  N.of_nat (length (blocks n0) + length theirs) <= two64 ->
  main_chain peer = shared ++ theirs -> shared <> [] -> theirs <> [] ->
  (forall b, In b (shared ++ theirs) -> b_hash b <> 0) ->
  (forall b, In b shared -> get_block n0 (b_hash b) = Some b) ->
  (forall b, In b theirs -> get_block n0 (b_hash b) = None) ->
  acc_chain cfg genesis_addr n0 theirs ->
  (forall j, (j < length theirs)%nat -> top_cd (apply_ext cfg genesis_addr n0 (firstn j theirs)) < top_cd peer) ->
  top_h peer + parallel_blocks cfg + 2 < two64 -> 1 <= parallel_blocks cfg ->
  forall s, sy_node s = n0 -> sy_queue s = [] -> sy_buf s = [] ->
  (sy_diff s < top_cd peer \/ (sy_diff s = top_cd peer /\ sy_height s = top_h peer)) ->
  exists bound, forall now, (forall b, In b (tl (shared ++ theirs)) -> prevalidate_block cfg team_key b now = Ok tt) ->
    (forall k, (bound <= k)%nat ->
       let s' := srounds cfg genesis_addr team_key peer now k s in
       sy_node s' = apply_ext cfg genesis_addr n0 theirs /\
       (forall b, In b (main_chain peer) -> get_block (sy_node s') (b_hash b) = Some b) /\
       top (sy_node s') = top peer /\ sy_buf s' = [] /\
       srounds cfg genesis_addr team_key peer now (S k) s = s') /\
    (forall m s', (bound <= m)%nat -> prounds cfg genesis_addr team_key peer now m s s' ->
       sy_node s' = apply_ext cfg genesis_addr n0 theirs /\
       (forall b, In b (main_chain peer) -> get_block (sy_node s') (b_hash b) = Some b) /\
       top (sy_node s') = top peer /\ sy_buf s' = []) /\
    (forall fuel, (bound <= fuel)%nat ->
       top (sy_node (fst (sim cfg genesis_addr team_key fuel peer s [] now))) = top peer).
Proof. exact sync_fork_catches_up_chains. Qed.
Print Assumptions C11_sync_fork_catches_up_chains.

(* the schedule of the theorems above in terms of the events of the synchronisation machine: one round is the event
   sequence  STATS(peer's tip) - Synchronize iteration - one BLOCK packet per block the peer answers with - post-processor
   steps until the buffer is empty *)
Theorem C11_sync_round_events : forall cfg genesis_addr team_key peer now s,
  let s0 := recv_stats s (top_h peer) (top_cd peer) in
  let arr := map (fun b => (b, now)) (flat_map (serve cfg peer) (snd (tick cfg s0))) in
  sround cfg genesis_addr team_key peer now s =
  steps cfg genesis_addr team_key s
    (EvStats (top_h peer) (top_cd peer) :: EvTick :: map (fun bn => EvBlock (fst bn) (snd bn)) arr ++
     repeat EvPost (length (sy_buf (recv_all cfg team_key (fst (tick cfg s0)) arr)))).
Proof. exact sround_events. Qed.
Print Assumptions C11_sync_round_events.

(* the executable form of the acceptance premise *)
Theorem C11_acc_chain_decidable : forall cfg genesis_addr bs n,
  acc_chain_b cfg genesis_addr n bs = true -> acc_chain cfg genesis_addr n bs.
Proof. exact acc_chain_b_sound. Qed.
Print Assumptions C11_acc_chain_decidable.

(* non-vacuity: two forks of the verification network on which every premise holds by evaluation.
   (1) peer higher: our 10 blocks (cumulative difficulty 53) against the peer's 40 (85), fork at genesis, the peer's
   branch overtakes at height 25; (2) peer heavier but not higher: our 100 blocks against the peer's 70, fork at genesis,
   deeper than the 50 blocks the "heavier but not higher" request covers. *)
Theorem C11_fork_example_higher_peer :
  (top_h (k_feed e_ours1), top_cd (k_feed e_ours1), top_h (k_feed e_theirs1), top_cd (k_feed e_theirs1)) = (10, 53, 40, 85) /\
  exists bound, forall k, (bound <= k)%nat ->
    let s' := srounds cfg_verifnet 7 0 (k_feed e_theirs1) k_now k (sync0 (k_feed e_ours1)) in
    sy_node s' = apply_ext cfg_verifnet 7 (k_feed e_ours1) e_theirs1 /\
    (forall b, In b (k_genesis :: e_theirs1) -> get_block (sy_node s') (b_hash b) = Some b) /\
    top (sy_node s') = top (k_feed e_theirs1).
Proof. exact example_higher_peer. Qed.
Print Assumptions C11_fork_example_higher_peer.

Theorem C11_fork_example_deep_fork :
  (top_h (k_feed e_ours2), top_h (k_feed e_theirs2)) = (100, 70) /\ top_cd (k_feed e_ours2) < top_cd (k_feed e_theirs2) /\
  exists bound, forall k, (bound <= k)%nat ->
    let s' := srounds cfg_verifnet 7 0 (k_feed e_theirs2) k_now k (sync0 (k_feed e_ours2)) in
    sy_node s' = apply_ext cfg_verifnet 7 (k_feed e_ours2) e_theirs2 /\
    (forall b, In b (k_genesis :: e_theirs2) -> get_block (sy_node s') (b_hash b) = Some b) /\
    top (sy_node s') = top (k_feed e_theirs2).
Proof. exact example_deep_fork. Qed.
Print Assumptions C11_fork_example_deep_fork.

(* (3) the control of the repaired livelock 1: our node holds only the first 13 of its 14 blocks (cumulative difficulty
   112); the peer's block of height 13 + 51 = 64 has cumulative difficulty 133 > 112; the node catches up with the peer's
   75 blocks (it did before the repair as well). *)
Theorem C11_fork_example_long_fork_control :
  (top_h (k_feed e_ours3), top_cd (k_feed e_ours3)) = (13, 112) /\
  map b_cd (firstn 1 (skipn 63 k_theirs)) = [133] /\
  exists bound, forall k, (bound <= k)%nat ->
    let s' := srounds cfg_verifnet 7 0 (k_feed k_theirs) k_now k (sync0 (k_feed e_ours3)) in
    sy_node s' = apply_ext cfg_verifnet 7 (k_feed e_ours3) k_theirs /\
    (forall b, In b (k_genesis :: k_theirs) -> get_block (sy_node s') (b_hash b) = Some b) /\
    top (sy_node s') = top (k_feed k_theirs).
Proof. exact example_long_fork_control. Qed.
Print Assumptions C11_fork_example_long_fork_control.
