(* Property C15 - a miner's job is its own.  Only theorem statements, closed by [exact].

   Every statement is about the model of Model/Stratum.v and quantifies over ALL event lists: an event list is an
   interleaving, at the granularity of the code's critical sections, of logins, new templates, per-connection job
   notifications, submissions and disconnections of any number of miners.  pow_ok (does a blob meet the proof of
   work?) is universally quantified: the theorems hold for every such function. *)
From Coq Require Import NArith List.
From Virel Require Import Lib.Config Lib.AMap Model.Stratum Proofs.Stratum Gen.Params.
Import ListNotations.
Open Scope N_scope.

(* the side condition (a job history of at least one job) holds at every generated configuration *)
Theorem C15_cfg_ok_mainnet : cfg_ok_stratum cfg_mainnet = true. Proof. vm_compute. reflexivity. Qed.
Theorem C15_cfg_ok_testnet : cfg_ok_stratum cfg_testnet = true. Proof. vm_compute. reflexivity. Qed.
Theorem C15_cfg_ok_unittest : cfg_ok_stratum cfg_unittest = true. Proof. vm_compute. reflexivity. Qed.

(* every job held by a connection points to a block whose recipient is the connection's login address, and the blob
   that was sent with the job names, for this chain, a block paying that address *)
Theorem C15_job_pays_owner : forall cfg pow_ok evs s os cid c j,
  run cfg pow_ok init_server evs = (s, os) -> nget (s_conns s) cid = Some c -> In j (c_jobs c) ->
  (exists b, nget (s_heap s) (j_ptr j) = Some b /\ b_rcp b = c_addr c) /\ pays cfg (j_sent j) (c_addr c) = true.
Proof. exact job_pays_owner_run. Qed.
Print Assumptions C15_job_pays_owner.

(* every job the server sends - login answer or notification - describes a block paying the login address *)
Theorem C15_sent_job_pays_login : forall cfg pow_ok, cfg_ok_stratum cfg = true ->
  forall evs s g e s' jid sent,
  run_view cfg pow_ok init_server [] evs = (s, g) -> step cfg pow_ok s e = (s', OJob jid sent) ->
  match e with
  | ELogin cid addr _ => pays cfg sent addr = true
  | ENotify cid _ _ _ => exists v, nget g cid = Some v /\ pays cfg sent (mv_addr v) = true
  | _ => False
  end.
Proof. exact sent_job_pays_login. Qed.
Print Assumptions C15_sent_job_pays_login.

(* at any later time the blob recomputed from the job's block is the blob that was sent with the job *)
Theorem C15_job_is_stable : forall cfg pow_ok evs s os cid c j,
  run cfg pow_ok init_server evs = (s, os) -> nget (s_conns s) cid = Some c -> In j (c_jobs c) ->
  exists b, nget (s_heap s) (j_ptr j) = Some b /\ blob_of cfg b = Some (j_sent j).
Proof. exact job_is_stable_run. Qed.
Print Assumptions C15_job_is_stable.

(* a well-formed submission for a job the connection holds is judged against exactly the blob the miner hashed (the
   sent blob with the miner's nonce and extra nonce): block paying the login address iff that blob meets the proof
   of work; the server's state does not change *)
Theorem C15_submit_judged_against_sent_blob : forall cfg pow_ok evs s os cid c jid j len n x,
  run cfg pow_ok init_server evs = (s, os) -> nget (s_conns s) cid = Some c -> find_job (c_jobs c) jid = Some j -> 4 <= len ->
  step cfg pow_ok s (ESubmit cid jid (NBytes len n) x MNone) =
    (s, if pow_ok (miner_blob (j_sent j) n x) then OFound (c_addr c) (miner_blob (j_sent j) n x) else ORejectedLowDiff).
Proof. exact submit_judged_against_sent_blob_run. Qed.
Print Assumptions C15_submit_judged_against_sent_blob.

(* what the server holds for a connection is what the miner was told: the login address, and exactly the last
   STRATUM_JOBS_HISTORY jobs (ids and blobs) sent to it; the miner's side (run_view) is a function of the events and
   the answers only *)
Theorem C15_held_jobs_are_advertised : forall cfg pow_ok, cfg_ok_stratum cfg = true ->
  forall evs s g cid,
  run_view cfg pow_ok init_server [] evs = (s, g) ->
  (forall c, nget (s_conns s) cid = Some c -> exists v, nget g cid = Some v /\
     c_addr c = mv_addr v /\ map jobkey (c_jobs c) = lastn (hist cfg) (mv_jobs v)) /\
  (forall v, nget g cid = Some v -> exists c, nget (s_conns s) cid = Some c /\
     c_addr c = mv_addr v /\ map jobkey (c_jobs c) = lastn (hist cfg) (mv_jobs v)).
Proof. exact held_jobs_are_advertised. Qed.
Print Assumptions C15_held_jobs_are_advertised.

(* THE PROPERTY in the miner's own terms: after any interleaving, for a job within the advertised history, a nonce
   is judged against the very blob that was sent with that job id - accepted (block paying the miner's login
   address) when it solves that blob, "low difficulty" only when it does not, never "unknown job" *)
Theorem C15_advertised_job_is_its_own : forall cfg pow_ok, cfg_ok_stratum cfg = true ->
  forall evs s g cid v jid sent len n x,
  run_view cfg pow_ok init_server [] evs = (s, g) ->
  nget g cid = Some v -> advertised cfg v jid = Some sent -> 4 <= len ->
  step cfg pow_ok s (ESubmit cid jid (NBytes len n) x MNone) =
    (s, if pow_ok (miner_blob sent n x) then OFound (mv_addr v) (miner_blob sent n x) else ORejectedLowDiff).
Proof. exact advertised_job_is_its_own. Qed.
Print Assumptions C15_advertised_job_is_its_own.

(* whatever is submitted (any nonce, extra nonce, merge-mining blob): a block that is produced pays the login address
   of the submitting connection, and is judged, for this chain, on the hashing id of the sent blob *)
Theorem C15_found_block_pays_owner : forall cfg pow_ok evs s os cid jid nonce x mb s' r judged,
  run cfg pow_ok init_server evs = (s, os) -> step cfg pow_ok s (ESubmit cid jid nonce x mb) = (s', OFound r judged) ->
  exists c j, nget (s_conns s) cid = Some c /\ find_job (c_jobs c) jid = Some j /\ r = c_addr c /\
    own_entry cfg judged = own_entry cfg (j_sent j) /\ pays cfg judged (c_addr c) = true /\ s' = s.
Proof. exact found_block_pays_owner_run. Qed.
Print Assumptions C15_found_block_pays_owner.

(* logins, templates, notifications, submissions and disconnections of the other miners leave a connection, its jobs
   and the blocks they point to exactly as they were *)
Theorem C15_others_do_not_interfere : forall cfg pow_ok evs s os e s' o cid,
  run cfg pow_ok init_server evs = (s, os) -> step cfg pow_ok s e = (s', o) -> event_cid e <> Some cid ->
  nget (s_conns s') cid = nget (s_conns s) cid /\
  (forall p b, nget (s_heap s) p = Some b -> nget (s_heap s') p = Some b).
Proof. exact others_do_not_interfere_run. Qed.
Print Assumptions C15_others_do_not_interfere.

(* a submission - any nonce text, extra nonce, merge-mining blob, job id - never takes a panicking branch *)
Theorem C15_submit_never_panics : forall cfg pow_ok evs s os cid jid nonce x mb s' o,
  run cfg pow_ok init_server evs = (s, os) -> step cfg pow_ok s (ESubmit cid jid nonce x mb) = (s', o) -> o <> OPanic.
Proof. exact submit_never_panics_run. Qed.
Print Assumptions C15_submit_never_panics.
