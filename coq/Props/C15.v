(* Property C15 - a miner's job is its own.  Only theorem statements, closed by [exact].

   Every statement is about the model of Model/Stratum.v and quantifies over ALL event lists: an event list is an
   interleaving, at the granularity of the code's critical sections, of logins, new templates (= calls of SendJob, each
   with its own block and its own minimum difficulty), per-connection job notifications (the critical section one call
   of SendJob runs for one connection, at any later time), submissions and disconnections of any number of miners.
   pow (the proof-of-work value of a blob under a seed) is universally quantified: the theorems hold for every such
   function; which seed and which difficulty the server uses is part of the model.
   [tpl_ok]: the template's difficulty is at least 1, fits 64 bits and is the minimum difficulty passed to SendJob
   (what GetBlockTemplate produces outside the masterchain). *)
From Coq Require Import NArith List.
From Virel Require Import Lib.Config Lib.AMap Lib.U64 Model.Stratum Proofs.Stratum Model.StratumMM Proofs.StratumMM Gen.Params.
Import ListNotations.
Open Scope N_scope.

(* the side condition (a job history of at least one job) holds at every generated configuration *)
Theorem C15_cfg_ok_mainnet : cfg_ok_stratum cfg_mainnet = true. Proof. vm_compute. reflexivity. Qed.
Theorem C15_cfg_ok_testnet : cfg_ok_stratum cfg_testnet = true. Proof. vm_compute. reflexivity. Qed.
Theorem C15_cfg_ok_unittest : cfg_ok_stratum cfg_unittest = true. Proof. vm_compute. reflexivity. Qed.
Theorem C15_cfg_ok_verifnet : cfg_ok_stratum cfg_verifnet = true. Proof. vm_compute. reflexivity. Qed.

(* every job held by a connection points to a block whose recipient is the connection's login address, and the blob
   that was sent with the job names, for this chain, a block paying that address *)
Theorem C15_job_pays_owner : forall cfg pow evs s os cid c j,
  run cfg pow init_server evs = (s, os) -> nget (s_conns s) cid = Some c -> In j (c_jobs c) ->
  (exists b, nget (s_heap s) (j_ptr j) = Some b /\ b_rcp b = c_addr c) /\ pays cfg (j_sent j) (c_addr c) = true.
Proof. exact job_pays_owner_run. Qed.
Print Assumptions C15_job_pays_owner.

(* every job the server sends - login answer or notification - describes a block paying the login address *)
Theorem C15_sent_job_pays_login : forall cfg pow, cfg_ok_stratum cfg = true ->
  forall evs s g e s' jid sent t,
  run_view cfg pow init_server [] evs = (s, g) -> step cfg pow s e = (s', OJob jid sent t) ->
  match e with
  | ELogin cid addr _ => pays cfg sent addr = true
  | ENotify cid _ _ _ => exists v, nget g cid = Some v /\ pays cfg sent (mv_addr v) = true
  | _ => False
  end.
Proof. exact sent_job_pays_login. Qed.
Print Assumptions C15_sent_job_pays_login.

(* at any later time the blob recomputed from the job's block is the blob that was sent with the job *)
Theorem C15_job_is_stable : forall cfg pow evs s os cid c j,
  run cfg pow init_server evs = (s, os) -> nget (s_conns s) cid = Some c -> In j (c_jobs c) ->
  exists b, nget (s_heap s) (j_ptr j) = Some b /\ blob_of cfg b = Some (j_sent j).
Proof. exact job_is_stable_run. Qed.
Print Assumptions C15_job_is_stable.

(* a well-formed submission for a job the connection holds is judged against exactly the blob the miner hashed (the
   sent blob with the miner's nonce and extra nonce), with the proof-of-work value of that blob under that blob's own
   seed, against the difficulty of the job's own block ([judge]: block paying the login address iff the value meets
   that difficulty, else "low difficulty"); the server's state does not change *)
Theorem C15_submit_judged_against_sent_blob : forall cfg pow evs s os cid c jid j len n x,
  run cfg pow init_server evs = (s, os) -> nget (s_conns s) cid = Some c -> find_job (c_jobs c) jid = Some j -> 4 <= len ->
  exists b, nget (s_heap s) (j_ptr j) = Some b /\
  step cfg pow s (ESubmit cid jid (NBytes len n) x MNone) =
    submit_result s cid (judge cfg pow (b_diff b) (c_addr c) (miner_blob (j_sent j) n x)).
Proof. exact submit_judged_against_sent_blob_run. Qed.
Print Assumptions C15_submit_judged_against_sent_blob.

(* what the server holds for a connection is what the miner was told: the login address, and exactly the last
   STRATUM_JOBS_HISTORY jobs (ids and blobs) sent to it; the miner's side (run_view) is a function of the events and
   the answers only *)
Theorem C15_held_jobs_are_advertised : forall cfg pow, cfg_ok_stratum cfg = true ->
  forall evs s g cid,
  run_view cfg pow init_server [] evs = (s, g) ->
  (forall c, nget (s_conns s) cid = Some c -> exists v, nget g cid = Some v /\
     c_addr c = mv_addr v /\ map jobkey (c_jobs c) = lastn (hist cfg) (mv_jobs v)) /\
  (forall v, nget g cid = Some v -> exists c, nget (s_conns s) cid = Some c /\
     c_addr c = mv_addr v /\ map jobkey (c_jobs c) = lastn (hist cfg) (mv_jobs v)).
Proof. exact held_jobs_are_advertised. Qed.
Print Assumptions C15_held_jobs_are_advertised.

(* the miner's own terms: after any interleaving, for a job within the advertised history, a nonce is judged against
   the very blob that was sent with that job id, under that blob's own seed - never "unknown job" *)
Theorem C15_advertised_job_is_its_own : forall cfg pow, cfg_ok_stratum cfg = true ->
  forall evs s g cid v jid a len n x,
  run_view cfg pow init_server [] evs = (s, g) ->
  nget g cid = Some v -> advertised cfg v jid = Some a -> 4 <= len ->
  exists d, step cfg pow s (ESubmit cid jid (NBytes len n) x MNone) =
    submit_result s cid (judge cfg pow d (mv_addr v) (miner_blob (a_sent a) n x)).
Proof. exact advertised_job_is_its_own. Qed.
Print Assumptions C15_advertised_job_is_its_own.

(* THE TARGET OF A JOB IS ITS OWN, for every interleaving of broadcasts and connection activity: take any history, then
   the k-th call SendJob(bl, md) with a template of content tpl, then ANY further events (later calls of SendJob with
   other blocks and difficulties, logins, notifications, submissions, disconnections), then the critical section of
   call k for connection cid: the target it sends is the target of md - not of whatever LastMinDiff holds by then -
   and the blob it sends names the content tpl of that same call *)
Theorem C15_broadcast_target_is_its_own : forall cfg pow evs1 s1 os1 tpl ts extra ch d md s1' evs2 s2 os2 cid x jid s3 sent t,
  run cfg pow init_server evs1 = (s1, os1) ->
  step cfg pow s1 (ETemplate tpl ts extra ch d md) = (s1', ONone) ->
  run cfg pow s1' evs2 = (s2, os2) ->
  step cfg pow s2 (ENotify cid (N.of_nat (length (s_tpls s1)) + 1) x jid) = (s3, OJob jid sent t) ->
  job_target md = Some t /\ exists c, nget (s_conns s2) cid = Some c /\ own_entry cfg sent = Some (Own tpl (c_addr c)).
Proof. exact broadcast_target_is_its_own. Qed.
Print Assumptions C15_broadcast_target_is_its_own.

(* a login answer carries the target of the minimum difficulty stored together with the template it copies *)
Theorem C15_login_target_is_last_calls : forall cfg pow s cid addr jid s' sent t,
  step cfg pow s (ELogin cid addr jid) = (s', OJob jid sent t) ->
  exists p d b, s_last s = Some (p, d) /\ job_target d = Some t /\
    nget (s_heap s) p = Some b /\ own_entry cfg sent = Some (Own (b_tpl b) addr).
Proof. exact login_target_is_last_calls. Qed.
Print Assumptions C15_login_target_is_last_calls.

(* worked example (non-vacuity): call 1 of SendJob with difficulty 9, a login, call 2 with difficulty 4 while call 1's
   critical section for the connection is still queued, then the two critical sections, call 2's first: the targets
   sent are those of 9 (login), 4 (call 2) and 9 (call 1, although LastMinDiff is 4 by then) *)
Theorem C15_overlapping_broadcasts_example :
  sent_targets (snd (run cfg_verifnet (fun _ _ => 0) init_server
    [ETemplate 1 1000 1 [] 9 9; ELogin 1 1 1; ETemplate 2 2000 2 [] 4 4; ENotify 1 2 3 2; ENotify 1 1 4 3]))
  = [max_u64 / 9; max_u64 / 4; max_u64 / 9].
Proof. vm_compute. reflexivity. Qed.

(* the target recorded (sent) with a job a connection holds is the target of the difficulty of the job's own block -
   the block a submission for that job is judged against *)
Theorem C15_job_target_is_of_own_block : forall cfg pow evs s os cid c j,
  Forall tpl_ok evs -> run cfg pow init_server evs = (s, os) -> nget (s_conns s) cid = Some c -> In j (c_jobs c) ->
  exists b, nget (s_heap s) (j_ptr j) = Some b /\ 1 <= b_diff b /\ b_diff b < two64 /\ j_target j = max_u64 / b_diff b.
Proof. exact job_target_is_of_own_block_run. Qed.
Print Assumptions C15_job_target_is_of_own_block.

(* A VALID SHARE IS NEVER REJECTED: whatever is submitted for a job the connection holds - any nonce, extra nonce and
   merge-mining blob the server completes to a block jb whose mining blob is [judged], in whatever seed period the
   timestamp of that blob lies -, when the proof-of-work value of the judged blob under THE JUDGED BLOB'S OWN SEED
   meets the target that was sent with the job (in the code's own reading of a target, mergestratum.go), the block is
   found: handed to the chain, paying the login address *)
Theorem C15_share_meeting_target_is_found : forall cfg pow evs s os cid c jid j len n x mb b jb judged,
  Forall tpl_ok evs -> run cfg pow init_server evs = (s, os) ->
  nget (s_conns s) cid = Some c -> find_job (c_jobs c) jid = Some j -> 4 <= len ->
  nget (s_heap s) (j_ptr j) = Some b -> complete cfg b n x mb = CBlock jb -> blob_of cfg jb = Some judged ->
  meets_target (pow (blob_seed cfg judged) judged) (j_target j) = true ->
  step cfg pow s (ESubmit cid jid (NBytes len n) x mb) = (s, OFound (c_addr c) judged).
Proof. exact share_meeting_target_found_run. Qed.
Print Assumptions C15_share_meeting_target_is_found.

(* THE PROPERTY in the miner's own terms: after any interleaving, for a job within the advertised history, a nonce
   whose value - for the blob that was sent with that job id, completed with the miner's nonce and extra nonce, under
   that blob's seed - meets the target that was sent with that job id yields a block paying the miner's login address *)
Theorem C15_advertised_share_is_found : forall cfg pow, cfg_ok_stratum cfg = true ->
  forall evs s g cid v jid a len n x,
  Forall tpl_ok evs -> run_view cfg pow init_server [] evs = (s, g) ->
  nget g cid = Some v -> advertised cfg v jid = Some a -> 4 <= len ->
  meets_target (pow (blob_seed cfg (miner_blob (a_sent a) n x)) (miner_blob (a_sent a) n x)) (a_target a) = true ->
  step cfg pow s (ESubmit cid jid (NBytes len n) x MNone) = (s, OFound (mv_addr v) (miner_blob (a_sent a) n x)).
Proof. exact advertised_share_found. Qed.
Print Assumptions C15_advertised_share_is_found.

(* SUBMITTED BLOBS ARE RECONSTRUCTED EXACTLY: a merge-mining submission that names, for this chain, the job's own hashing
   id is either refused as a whole (chain list not strictly ascending, duplicates: connection dropped) or judged as
   exactly the blob that was submitted, with the miner's nonce and extra nonce, under that blob's own seed (whatever seed
   period its timestamp lies in), against the difficulty of the job's own block *)
Theorem C15_merge_blob_judged_as_submitted : forall cfg pow evs s os cid c jid j len n x m,
  run cfg pow init_server evs = (s, os) -> nget (s_conns s) cid = Some c -> find_job (c_jobs c) jid = Some j -> 4 <= len ->
  own_entry cfg m = own_entry cfg (j_sent j) ->
  exists b, nget (s_heap s) (j_ptr j) = Some b /\
  (step cfg pow s (ESubmit cid jid (NBytes len n) x (MBlob m)) = (kick s cid, OBlobRefused) \/
   step cfg pow s (ESubmit cid jid (NBytes len n) x (MBlob m)) =
     submit_result s cid (judge cfg pow (b_diff b) (c_addr c) (miner_blob m n x))).
Proof. exact merge_blob_judged_as_submitted_run. Qed.
Print Assumptions C15_merge_blob_judged_as_submitted.

(* whatever is submitted (any nonce, extra nonce, merge-mining blob): a block that is produced pays the login address
   of the submitting connection, and is judged, for this chain, on the hashing id of the sent blob *)
Theorem C15_found_block_pays_owner : forall cfg pow evs s os cid jid nonce x mb s' r judged,
  run cfg pow init_server evs = (s, os) -> step cfg pow s (ESubmit cid jid nonce x mb) = (s', OFound r judged) ->
  exists c j, nget (s_conns s) cid = Some c /\ find_job (c_jobs c) jid = Some j /\ r = c_addr c /\
    own_entry cfg judged = own_entry cfg (j_sent j) /\ pays cfg judged (c_addr c) = true /\ s' = s.
Proof. exact found_block_pays_owner_run. Qed.
Print Assumptions C15_found_block_pays_owner.

(* logins, templates, notifications, submissions and disconnections of the other miners leave a connection, its jobs
   and the blocks they point to exactly as they were *)
Theorem C15_others_do_not_interfere : forall cfg pow evs s os e s' o cid,
  run cfg pow init_server evs = (s, os) -> step cfg pow s e = (s', o) -> event_cid e <> Some cid ->
  nget (s_conns s') cid = nget (s_conns s) cid /\
  (forall p b, nget (s_heap s) p = Some b -> nget (s_heap s') p = Some b).
Proof. exact others_do_not_interfere_run. Qed.
Print Assumptions C15_others_do_not_interfere.

(* a submission - any nonce text, extra nonce, merge-mining blob, job id - never takes a panicking branch *)
Theorem C15_submit_never_panics : forall cfg pow evs s os cid jid nonce x mb s' o,
  Forall tpl_ok evs -> run cfg pow init_server evs = (s, os) -> step cfg pow s (ESubmit cid jid nonce x mb) = (s', o) -> o <> OPanic.
Proof. exact submit_never_panics_run. Qed.
Print Assumptions C15_submit_never_panics.

(* ---- the masterchain (Model/StratumMM.v): the verdict on a share when the node merge-mines other chains ----
   own = difficulty of the job's own block, mindiff = the difficulty the job's target was computed from (recorded with the
   job), now = the difficulties the connected merge-mined chains advertise at the time of the submit (any list: chains may
   have raised or lowered their difficulty, left or joined since the job went out), pow = the share's value. *)

(* a share that solves its job at the job's target is never rejected for failing proof of work *)
Theorem C15_masterchain_solving_share_never_low_diff : forall own mindiff now pow,
  mm_meets pow mindiff = true -> mm_judge own mindiff now pow <> VLowDiff /\ mm_answered_ok (mm_judge own mindiff now pow) = true.
Proof. exact (fun own mindiff now pow H => conj (solving_share_never_low_diff own mindiff now pow H) (solving_share_answered_ok own mindiff now pow H)). Qed.
Print Assumptions C15_masterchain_solving_share_never_low_diff.

(* and nothing easier than the job's target passes *)
Theorem C15_masterchain_low_share_rejected : forall own mindiff now pow,
  mm_meets pow own = false -> existsb (mm_meets pow) now = false -> mm_meets pow mindiff = false ->
  mm_judge own mindiff now pow = VLowDiff.
Proof. exact low_share_rejected. Qed.
Print Assumptions C15_masterchain_low_share_rejected.

(* THE CODE AS FOUND violated the property on the masterchain (finding C15-masterchain-stale-merge-difficulty, repaired):
   job issued when the merge-mined chain asked for difficulty 1, the chain now asks for 2; the share meets the job's
   target and was answered "does not match minimum difficulty requirements"; the repaired code answers OK *)
Theorem C15_masterchain_old_code_refuted :
  mm_meets (2 ^ 127 + 1) 1 = true /\ mm_judge_old 100000 [2] (2 ^ 127 + 1) = VLowDiff /\
  mm_judge 100000 1 [2] (2 ^ 127 + 1) = VShareOnly.
Proof. exact old_code_rejects_solving_share. Qed.
Print Assumptions C15_masterchain_old_code_refuted.

(* the repair changes the verdict only for shares that are good for no chain any more *)
Theorem C15_masterchain_repair_conservative : forall own mindiff now pow,
  (mm_meets pow mindiff = true -> mm_meets pow own = true \/ existsb (mm_meets pow) now = true) ->
  mm_judge own mindiff now pow = mm_judge_old own now pow.
Proof. exact repair_conservative. Qed.
Print Assumptions C15_masterchain_repair_conservative.
