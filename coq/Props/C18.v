(* Property C18 - address text form.  Only theorem statements, closed by [exact]. *)
From Virel Require Import Lib.Config Lib.U64 Lib.Digits Model.Crc32 Model.Address Spec.AddressText Proofs.Address Gen.Params.
Open Scope N_scope.

(* the side condition holds at every generated configuration (non-vacuity of everything below) *)
Theorem C18_cfg_ok_mainnet : cfg_ok_addr cfg_mainnet = true. Proof. vm_compute. reflexivity. Qed.
Theorem C18_cfg_ok_testnet : cfg_ok_addr cfg_testnet = true. Proof. vm_compute. reflexivity. Qed.
Theorem C18_cfg_ok_unittest : cfg_ok_addr cfg_unittest = true. Proof. vm_compute. reflexivity. Qed.

(* SIZE = 22 in every generated configuration: "every 22-byte address" below *)
Theorem C18_size_22 : SZ cfg_mainnet = 22%nat /\ SZ cfg_testnet = 22%nat /\ SZ cfg_unittest = 22%nat.
Proof. vm_compute. auto. Qed.

(* the bitwise CRC-32 of the model is CRC-32/IEEE: the standard check value *)
Theorem C18_crc32_check_value : crc32 [49; 50; 51; 52; 53; 54; 55; 56; 57] = 3421780262.   (* "123456789" -> 0xCBF43926 *)
Proof. vm_compute. reflexivity. Qed.
Print Assumptions C18_crc32_check_value.

(* positional numerals (Lib/Digits.v), every base >= 2: the digit string of a number evaluates to the number,
   and a digit string without leading zero is the digit string of its value *)
Theorem C18_numeral_roundtrip : forall b, 2 <= b -> forall n, of_digits b (to_digits b n) = n.
Proof. exact of_to_digits. Qed.
Print Assumptions C18_numeral_roundtrip.

Theorem C18_numeral_unique : forall b, 2 <= b -> forall ds, canonical b ds -> to_digits b (of_digits b ds) = ds.
Proof. exact to_of_digits. Qed.
Print Assumptions C18_numeral_unique.

(* every account address (any of the first SIZE-8 bytes non-zero) with every 64-bit payment id *)
Theorem C18_addr_roundtrip : forall cfg, cfg_ok_addr cfg = true ->
  forall a pid, length a = SZ cfg -> Forall (fun x => x < 256) a -> is_delegate cfg a = false -> pid < two64 ->
  parse_addr cfg (format_addr cfg a pid) = POk a pid.
Proof. exact addr_roundtrip. Qed.
Print Assumptions C18_addr_roundtrip.

Theorem C18_delegate_roundtrip : forall cfg, cfg_ok_addr cfg = true ->
  forall id, id < two64 ->
  parse_addr cfg (format_addr cfg (delegate_addr cfg id) 0) = POk (delegate_addr cfg id) 0.
Proof. exact delegate_roundtrip. Qed.
Print Assumptions C18_delegate_roundtrip.

Theorem C18_burn_roundtrip : forall cfg pid,
  parse_addr cfg (format_addr cfg (zero_addr cfg) pid) = POk (zero_addr cfg) 0.
Proof. exact burn_roundtrip. Qed.
Print Assumptions C18_burn_roundtrip.

(* all three forms at once: every SIZE-byte address; the payment id is part of the text of account addresses only *)
Theorem C18_text_roundtrip : forall cfg, cfg_ok_addr cfg = true ->
  forall a pid, length a = SZ cfg -> Forall (fun x => x < 256) a -> pid < two64 ->
  is_delegate cfg a = false \/ pid = 0 ->
  parse_addr cfg (format_addr cfg a pid) = POk a pid.
Proof. exact text_roundtrip. Qed.
Print Assumptions C18_text_roundtrip.

(* no two different (address, payment id) share a text *)
Theorem C18_format_injective : forall cfg, cfg_ok_addr cfg = true ->
  forall a pid a' pid',
  length a = SZ cfg -> Forall (fun x => x < 256) a -> pid < two64 -> is_delegate cfg a = false \/ pid = 0 ->
  length a' = SZ cfg -> Forall (fun x => x < 256) a' -> pid' < two64 -> is_delegate cfg a' = false \/ pid' = 0 ->
  format_addr cfg a pid = format_addr cfg a' pid' -> a = a' /\ pid = pid'.
Proof. exact format_injective. Qed.
Print Assumptions C18_format_injective.

(* FromString never panics, whatever the byte string (and whatever the configuration) *)
Theorem C18_parse_total : forall cfg t, parse_addr cfg t <> PPanic.
Proof. exact parse_total. Qed.
Print Assumptions C18_parse_total.

(* exact characterisation of the accepted texts (Spec/AddressText.v): in particular a text of the account form
   is accepted only if its decoded bytes carry a matching 16-bit checksum, so an edited account text that is
   accepted as something else is a checksum collision; delegate texts carry no checksum (known finding R16) *)
Theorem C18_parse_accepts_iff : forall cfg, cfg_ok_addr cfg = true ->
  forall t a pid, parse_addr cfg t = POk a pid <-> denotes cfg t a pid.
Proof. exact parse_accepts_iff. Qed.
Print Assumptions C18_parse_accepts_iff.

(* Error detection.  The full statement (a counting statement over all addresses, Spec/AddressText.v) is not proved:
   the fraction is measured by the harness on every run and checked against 2^-12 (summary case of Check/C18.v). *)
Definition C18_edit_detection_full : Prop := forall cfg, cfg_ok_addr cfg = true -> edit_detection_full cfg.

(* proved part: behind the wallet prefix, acceptance requires a matching 16-bit checksum of the decoded bytes *)
Theorem C18_edit_detection_partial : forall cfg, cfg_ok_addr cfg = true ->
  forall t a pid, hd_error t = hd_error (wallet_prefix cfg) -> parse_addr cfg t = POk a pid ->
  exists sg ds, t = wallet_prefix cfg ++ sg ++ ds /\ (sg = [] \/ sg = [43] \/ sg = [45]) /\ Forall b36_char ds /\
    payload_of cfg (repeat 0 (lead_count 48 (sg ++ ds)) ++ to_digits 256 (numeral 36 ds)) a pid.
Proof. exact edit_detection_partial. Qed.
Print Assumptions C18_edit_detection_partial.

(* the repair of R7 changes the text only when the checksum starts with a zero byte (texts that could not be read back) *)
Theorem C18_format_without_zero_checksum : forall cfg a pid, is_delegate cfg a = false -> fst (checksum (a ++ compact_le pid)) <> 0 ->
  format_addr cfg a pid = wallet_prefix cfg ++ num_text 36 (of_digits 256 (addr_bytes a pid)).
Proof. exact format_without_zero_checksum. Qed.
Print Assumptions C18_format_without_zero_checksum.

(* the witnesses of R7 on the model of the repaired code (they also stay in the harness corpus) *)
Theorem C18_R7_witnesses_read_back :
  parse_addr cfg_mainnet (format_addr cfg_mainnet [116; 229; 58; 185; 12; 85; 76; 193; 241; 215; 54; 172; 222; 103; 175; 245; 80; 7; 253; 75; 59; 236] 0) = POk [116; 229; 58; 185; 12; 85; 76; 193; 241; 215; 54; 172; 222; 103; 175; 245; 80; 7; 253; 75; 59; 236] 0 /\
  parse_addr cfg_mainnet (format_addr cfg_mainnet [116; 21; 242; 8; 87; 145; 150; 254; 171; 153; 185; 221; 66; 244; 221; 235; 53; 34; 37; 62; 44; 168] 111) = POk [116; 21; 242; 8; 87; 145; 150; 254; 171; 153; 185; 221; 66; 244; 221; 235; 53; 34; 37; 62; 44; 168] 111 /\
  format_addr cfg_mainnet [116; 21; 242; 8; 87; 145; 150; 254; 171; 153; 185; 221; 66; 244; 221; 235; 53; 34; 37; 62; 44; 168] 111 <> format_addr cfg_mainnet [21; 242; 8; 87; 145; 150; 254; 171; 153; 185; 221; 66; 244; 221; 235; 53; 34; 37; 62; 44; 168; 111] 0.
Proof. split; [vm_compute; reflexivity|]. split; [vm_compute; reflexivity|]. vm_compute. discriminate. Qed.
Print Assumptions C18_R7_witnesses_read_back.

(* R16 on the model: delegate texts carry no checksum, a digit edit is another valid delegate address (open known finding) *)
Theorem C18_delegate_edit_undetected_R16 :
  let t  := delegate_prefix cfg_mainnet ++ [55; 48; 52; 50] in      (* delegate7042 *)
  let t' := delegate_prefix cfg_mainnet ++ [55; 48; 52; 51] in      (* delegate7043 *)
  parse_addr cfg_mainnet t = POk (delegate_addr cfg_mainnet 7042) 0 /\
  parse_addr cfg_mainnet t' = POk (delegate_addr cfg_mainnet 7043) 0 /\
  delegate_addr cfg_mainnet 7042 <> delegate_addr cfg_mainnet 7043.
Proof. cbv zeta. split; [vm_compute; reflexivity|]. split; [vm_compute; reflexivity|]. vm_compute. discriminate. Qed.
Print Assumptions C18_delegate_edit_undetected_R16.
