(* Property C14 - peer traffic under the connection key.  Only theorem statements.
   Part 1 (byte level) has no hypotheses about cryptography.  In part 2 every assumption on X25519 (dh), BLAKE3 (kdf)
   and AES-GCM (the term algebra of Model/Frame.v) is a premise of the theorem that uses it:
     eqb_correct e            : e decides equality (of keys / of peer ids)
     dh_commutes pub dh       : dh a (pub b) = dh b (pub a)
     kdf_injective kdf        : kdf n1 s1 = kdf n2 s2 -> n1 = n2 /\ s1 = s2
     dh_pair_injective pub dh : equal shared secrets come from the same unordered pair of public keys
   They are hypotheses, not axioms, and are not verified of the real primitives. *)
From Coq Require Import NArith List.
From Virel Require Import Lib.U64 Model.Frame Proofs.Frame Proofs.FrameConc.
Import ListNotations.
Open Scope N_scope.

(* ------------------------------------------------------------------ part 1: codecs over bytes, all lengths *)

Theorem C14_le_roundtrip : forall (w : nat) (v : N), le_decode (le_encode w v) = v mod 256 ^ N.of_nat w.
Proof. exact le_decode_encode. Qed.
Print Assumptions C14_le_roundtrip.

Theorem C14_le_unique : forall bs, bytes_ok bs -> le_encode (length bs) (le_decode bs) = bs.
Proof. exact le_encode_decode. Qed.
Print Assumptions C14_le_unique.

(* the length prefix: every length up to the limit round-trips, every larger 32-bit length is refused *)
Theorem C14_header_roundtrip : forall len, len <= FRAME_LIMIT -> hdr_decode (hdr_encode len) = HLen len.
Proof. exact hdr_roundtrip. Qed.
Print Assumptions C14_header_roundtrip.

Theorem C14_header_rejects_out_of_range : forall len, FRAME_LIMIT < len -> len < 4294967296 ->
  hdr_decode (hdr_encode len) = HTooBig len.
Proof. exact hdr_rejects. Qed.
Print Assumptions C14_header_rejects_out_of_range.

Theorem C14_header_decode_sound : forall bs n, length bs = 4%nat -> bytes_ok bs -> hdr_decode bs = HLen n ->
  n <= FRAME_LIMIT /\ hdr_encode n = bs.
Proof. exact hdr_decode_sound. Qed.
Print Assumptions C14_header_decode_sound.

(* the sender converts the length with uint32(): lengths of 4 GiB and more alias *)
Theorem C14_header_truncates_to_uint32 : forall len, hdr_encode (len mod 4294967296) = hdr_encode len.
Proof. exact hdr_encode_wraps. Qed.
Print Assumptions C14_header_truncates_to_uint32.

(* the framing layer over plain bytes, bodies of every length 0 .. limit *)
Theorem C14_framing_roundtrip : forall bodies, Forall (fun b => blen b <= FRAME_LIMIT) bodies ->
  forall fuel, (length bodies < fuel)%nat -> bparse fuel (concat (map bframe bodies)) = (bodies, BEof).
Proof. exact bparse_roundtrip. Qed.
Print Assumptions C14_framing_roundtrip.

Theorem C14_framing_rejects_oversize : forall f body rest, FRAME_LIMIT < blen body -> blen body < 4294967296 ->
  bparse (S f) (bframe body ++ rest) = ([], BTooBig (blen body)).
Proof. exact bparse_oversize. Qed.
Print Assumptions C14_framing_rejects_oversize.

Theorem C14_framing_unambiguous : forall fuel s l, bytes_ok s -> bparse fuel s = (l, BEof) -> s = concat (map bframe l).
Proof. exact bparse_sound. Qed.
Print Assumptions C14_framing_unambiguous.

(* plaintext = type || data *)
Theorem C14_payload_roundtrip : forall wt d, wt < 65536 -> payload_decode (payload_encode wt d) = Some (wt, d).
Proof. exact payload_roundtrip. Qed.
Print Assumptions C14_payload_roundtrip.

Theorem C14_payload_too_short : forall m, blen m < 2 -> payload_decode m = None.
Proof. exact payload_short. Qed.
Print Assumptions C14_payload_too_short.

(* handshake message *)
Theorem C14_handshake_codec_roundtrip : forall h rest, hello_ok h -> hs_decode (hs_encode h ++ rest) = HsParsed h.
Proof. exact hs_roundtrip. Qed.
Print Assumptions C14_handshake_codec_roundtrip.

Theorem C14_handshake_rejects_oversize : forall s, (4 <= length s)%nat -> HANDSHAKE_LIMIT < le_decode (firstn 4 s) ->
  hs_decode s = HsTooBig.
Proof. exact hs_rejects_oversize. Qed.
Print Assumptions C14_handshake_rejects_oversize.

(* ------------------------------------------------------------------ part 2: the symbolic protocol *)

(* the assumptions can be met (by the free term instance the cases are evaluated with) *)
Theorem C14_hypotheses_satisfiable :
  eqb_correct free_key_eqb /\ eqb_correct free_pk_eqb /\ dh_commutes free_pub free_dh /\
  kdf_injective free_kdf /\ dh_pair_injective free_pub free_dh.
Proof. exact free_instance_ideal. Qed.
Print Assumptions C14_hypotheses_satisfiable.

Theorem C14_aead_opens_only_what_was_sealed : forall (key : Type) (key_eqb : key -> key -> bool),
  eqb_correct key_eqb ->
  forall k n c m, aead_open key_eqb k n c = Some m <-> c = Sealed k n m.
Proof. exact (@aead_open_iff). Qed.
Print Assumptions C14_aead_opens_only_what_was_sealed.

(* both ends of a connection inside one network hold the same key *)
Theorem C14_key_agreement : forall (key sk pk sh : Type) (pub : sk -> pk) (dh : sk -> pk -> sh) (kdf : N -> sh -> key)
    (pk_eqb : pk -> pk -> bool) (pk_valid : pk -> bool),
  eqb_correct pk_eqb -> dh_commutes pub dh ->
  forall (A B : node) vA pA vB pB kA kB, nd_net A = nd_net B ->
  hs_accept pub dh kdf pk_eqb pk_valid A (hello_of pub B vB pB) = HsKey kA ->
  hs_accept pub dh kdf pk_eqb pk_valid B (hello_of pub A vA pA) = HsKey kB -> kA = kB.
Proof. exact (@key_agreement). Qed.
Print Assumptions C14_key_agreement.

(* delivery_exact: packet types 0 .. 65533, data of every length with |data| + 30 <= 4 MiB, any number of packets *)
Theorem C14_delivery_exact : forall (key : Type) (key_eqb : key -> key -> bool), eqb_correct key_eqb ->
  forall k pkts nonces, Forall pkt_ok pkts -> length nonces = length pkts ->
  recv key_eqb k (send k pkts nonces) = (map to_wire pkts, REof) /\
  deliver (fst (recv key_eqb k (send k pkts nonces))) = pkts.
Proof. exact (@delivery_exact). Qed.
Print Assumptions C14_delivery_exact.

Theorem C14_delivery_exact_end_to_end : forall (key : Type) (key_eqb : key -> key -> bool), eqb_correct key_eqb ->
  forall (sk pk sh : Type) (pub : sk -> pk) (dh : sk -> pk -> sh) (kdf : N -> sh -> key)
    (pk_eqb : pk -> pk -> bool) (pk_valid : pk -> bool),
  eqb_correct pk_eqb -> dh_commutes pub dh ->
  forall (A B : node) vA pA vB pB pkts nonces, nd_net A = nd_net B ->
  (exists kA, hs_accept pub dh kdf pk_eqb pk_valid A (hello_of pub B vB pB) = HsKey kA) ->
  (exists kB, hs_accept pub dh kdf pk_eqb pk_valid B (hello_of pub A vA pA) = HsKey kB) ->
  Forall pkt_ok pkts -> length nonces = length pkts ->
  exists s, endpoint_send pub dh kdf pk_eqb pk_valid A (hello_of pub B vB pB) pkts nonces = Some s /\
            endpoint_recv pub dh kdf key_eqb pk_eqb pk_valid B (hello_of pub A vA pA) s = (pkts, CsClosed 0).
Proof. exact (@e2e_delivery). Qed.
Print Assumptions C14_delivery_exact_end_to_end.

(* authenticity: the receiver accepts a packet only out of an intact box sealed under exactly its key, carrying the
   sealing nonce, at a frame boundary, behind four clear bytes that give exactly its length *)
Theorem C14_authenticity : forall (key : Type) (key_eqb : key -> key -> bool), eqb_correct key_eqb ->
  forall k s wt d r, recv_step key_eqb k s = SPkt wt d r ->
  exists hdr mid n m,
    read_raw (drop_empty s) 4 = Got hdr mid /\ drop_empty mid = Box n (Sealed k n m) :: r /\
    le_decode hdr = box_len m /\ box_len m <= FRAME_LIMIT /\ payload_decode m = Some (wt, d).
Proof. exact (@recv_step_accept_inv). Qed.
Print Assumptions C14_authenticity.

Theorem C14_delivered_only_from_own_boxes : forall (key : Type) (key_eqb : key -> key -> bool), eqb_correct key_eqb ->
  forall k fuel s l e, recv_loop key_eqb fuel k s = (l, e) ->
  forall wt d, In (wt, d) l -> exists n m, In (Box n (Sealed k n m)) s /\ payload_decode m = Some (wt, d).
Proof. exact (@recv_loop_delivers_only_boxes). Qed.
Print Assumptions C14_delivered_only_from_own_boxes.

(* tamper_rejected: after any genuine frames, whatever does not start with a frame sealed under the receiver's key
   ends the connection with an error; exactly the genuine packets before it were delivered *)
Theorem C14_tamper_rejected : forall (key : Type) (key_eqb : key -> key -> bool), eqb_correct key_eqb ->
  forall k pkts nonces t, Forall pkt_ok pkts -> length nonces = length pkts ->
  ~ genuine_head k t -> drop_empty t <> [] ->
  exists e, recv key_eqb k (send k pkts nonces ++ t) = (map to_wire pkts, RErr e) /\
            deliver (fst (recv key_eqb k (send k pkts nonces ++ t))) = pkts.
Proof. exact (@tamper_rejected). Qed.
Print Assumptions C14_tamper_rejected.

Theorem C14_tamper_rejected_end_to_end : forall (key : Type) (key_eqb : key -> key -> bool), eqb_correct key_eqb ->
  forall (sk pk sh : Type) (pub : sk -> pk) (dh : sk -> pk -> sh) (kdf : N -> sh -> key)
    (pk_eqb : pk -> pk -> bool) (pk_valid : pk -> bool),
  eqb_correct pk_eqb -> dh_commutes pub dh ->
  forall (A B : node) vA pA vB pB k pkts nonces t, nd_net A = nd_net B ->
  hs_accept pub dh kdf pk_eqb pk_valid A (hello_of pub B vB pB) = HsKey k ->
  (exists kB, hs_accept pub dh kdf pk_eqb pk_valid B (hello_of pub A vA pA) = HsKey kB) ->
  Forall pkt_ok pkts -> length nonces = length pkts ->
  ~ genuine_head k t -> drop_empty t <> [] ->
  exists e, endpoint_recv pub dh kdf key_eqb pk_eqb pk_valid B (hello_of pub A vA pA) (send k pkts nonces ++ t)
            = (pkts, CsClosed e) /\ e <> 0.
Proof. exact (@e2e_tamper). Qed.
Print Assumptions C14_tamper_rejected_end_to_end.

(* the shapes a tampered frame can take are not genuine heads *)
Theorem C14_modified_or_cut_body_not_genuine : forall (key : Type) (k : key) len n (rest : list chunk), n <> 0 ->
  ~ genuine_head k (Raw (hdr_encode len) :: Opaque n :: rest).
Proof. exact (@not_genuine_opaque). Qed.
Print Assumptions C14_modified_or_cut_body_not_genuine.

Theorem C14_changed_length_prefix_not_genuine : forall (key : Type) (k : key) len n c (rest : list chunk),
  len < 4294967296 -> len <> NONCE_SIZE + ct_len c ->
  ~ genuine_head k (Raw (hdr_encode len) :: Box n c :: rest).
Proof. exact (@not_genuine_header). Qed.
Print Assumptions C14_changed_length_prefix_not_genuine.

Theorem C14_replaced_nonce_not_genuine : forall (key : Type) (k k' : key) len n n' m (rest : list chunk), n' <> n ->
  ~ genuine_head k (Raw (hdr_encode len) :: Box n' (Sealed k' n m) :: rest).
Proof. exact (@not_genuine_nonce). Qed.
Print Assumptions C14_replaced_nonce_not_genuine.

Theorem C14_missing_length_prefix_not_genuine : forall (key : Type) (k : key) (c : chunk) (rest : list chunk),
  match c with Raw _ => False | Opaque n => n <> 0 | Box _ _ => True end -> ~ genuine_head k (c :: rest).
Proof. exact (@not_genuine_no_header). Qed.
Print Assumptions C14_missing_length_prefix_not_genuine.

(* splice: a frame of a connection of another network or between another pair of nodes *)
Theorem C14_splice_from_other_connection_not_genuine :
  forall (key sk pk sh : Type) (pub : sk -> pk) (dh : sk -> pk -> sh) (kdf : N -> sh -> key),
  kdf_injective kdf -> dh_pair_injective pub dh ->
  forall n a b n' a' b' len nn m (rest : list chunk),
  ~ (n = n' /\ ((pub a = pub a' /\ pub b = pub b') \/ (pub a = pub b' /\ pub b = pub a'))) ->
  ~ genuine_head (kdf n (dh a (pub b)))
      (Raw (hdr_encode len) :: Box nn (Sealed (kdf n' (dh a' (pub b'))) nn m) :: rest).
Proof. exact (@splice_other_connection_not_genuine). Qed.
Print Assumptions C14_splice_from_other_connection_not_genuine.

(* the scope of a key: the network id and the unordered pair of node keys *)
Theorem C14_key_scope : forall (key sk pk sh : Type) (pub : sk -> pk) (dh : sk -> pk -> sh) (kdf : N -> sh -> key),
  kdf_injective kdf -> dh_pair_injective pub dh ->
  forall n a b n' a' b', kdf n (dh a (pub b)) = kdf n' (dh a' (pub b')) ->
  n = n' /\ ((pub a = pub a' /\ pub b = pub b') \/ (pub a = pub b' /\ pub b = pub a')).
Proof. exact (@key_scope). Qed.
Print Assumptions C14_key_scope.

(* cross_network_silent *)
Theorem C14_cross_network_silent : forall (key : Type) (key_eqb : key -> key -> bool), eqb_correct key_eqb ->
  forall (sk pk sh : Type) (pub : sk -> pk) (dh : sk -> pk -> sh) (kdf : N -> sh -> key)
    (pk_eqb : pk -> pk -> bool) (pk_valid : pk -> bool),
  eqb_correct pk_eqb -> kdf_injective kdf ->
  forall (A B : node) vA pA vB pB kA kB, nd_net A <> nd_net B ->
  hs_accept pub dh kdf pk_eqb pk_valid A (hello_of pub B vB pB) = HsKey kA ->
  hs_accept pub dh kdf pk_eqb pk_valid B (hello_of pub A vA pA) = HsKey kB ->
  forall pkts nonces,
    fst (endpoint_recv pub dh kdf key_eqb pk_eqb pk_valid B (hello_of pub A vA pA) (send kA pkts nonces)) = [] /\
    fst (endpoint_recv pub dh kdf key_eqb pk_eqb pk_valid A (hello_of pub B vB pB) (send kB pkts nonces)) = [].
Proof. exact (@cross_network_silent). Qed.
Print Assumptions C14_cross_network_silent.

(* stronger: whatever was ever sealed in network n1, recombined at will, delivers nothing to a receiver of network n2 *)
Theorem C14_cross_network_stream_silent : forall (key : Type) (key_eqb : key -> key -> bool), eqb_correct key_eqb ->
  forall (sh : Type) (kdf : N -> sh -> key), kdf_injective kdf ->
  forall n1 n2 y s, n1 <> n2 -> sealed_in_network kdf n1 s -> fst (recv key_eqb (kdf n2 y) s) = [].
Proof. exact (@cross_network_stream). Qed.
Print Assumptions C14_cross_network_stream_silent.

Theorem C14_cross_network_first_frame_fails : forall (key : Type) (key_eqb : key -> key -> bool), eqb_correct key_eqb ->
  forall (sh : Type) (kdf : N -> sh -> key), kdf_injective kdf ->
  forall n1 n2 x y nonce wt d rest, n1 <> n2 ->
  exists e, recv_step key_eqb (kdf n2 y) (seal_frame (kdf n1 x) nonce wt d ++ rest) = SErr e.
Proof. exact (@cross_network_first_frame_fails). Qed.
Print Assumptions C14_cross_network_first_frame_fails.

(* frames_distinct *)
Theorem C14_frames_distinct : forall (key : Type) (k : key) n1 n2 wt1 d1 wt2 d2,
  n1 <> n2 -> seal_frame k n1 wt1 d1 <> seal_frame k n2 wt2 d2.
Proof. exact (@frames_distinct). Qed.
Print Assumptions C14_frames_distinct.

(* self_and_duplicate_id_refused *)
Theorem C14_self_and_duplicate_id_refused :
  forall (key sk pk sh : Type) (pub : sk -> pk) (dh : sk -> pk -> sh) (kdf : N -> sh -> key)
    (pk_eqb : pk -> pk -> bool) (pk_valid : pk -> bool), eqb_correct pk_eqb ->
  forall (me : node) (h : hello), h_id h = pub (nd_sk me) \/ In (h_id h) (nd_conns me) ->
  exists e, hs_accept pub dh kdf pk_eqb pk_valid me h = HsErr e.
Proof. exact (@self_and_duplicate_id_refused). Qed.
Print Assumptions C14_self_and_duplicate_id_refused.

(* the receiver loop of the model always terminates within its fuel *)
Theorem C14_receiver_terminates : forall (key : Type) (key_eqb : key -> key -> bool), eqb_correct key_eqb ->
  forall k s, snd (recv key_eqb k s) <> RFuel.
Proof. exact (@recv_fuel_enough). Qed.
Print Assumptions C14_receiver_terminates.

(* ------------------------------------------------------------------ part 3: several senders on one connection
   (Model/Frame.v: run_schedule).  sendPacketLock hands a frame to the socket with ONE Write; the runtime serialises
   whole Writes; a schedule is the order in which the Writes of the senders got the socket. *)

(* whatever the schedule, the Writes that went out are a merge of the senders' queues: every sender's Writes in its
   order, followed by what it still has pending, are its queue (none lost, none twice, none invented) *)
Theorem C14_schedule_is_a_merge : forall (A : Type) (sched : list nat) (queues : list (list A)) out rest,
  run_schedule sched queues = (out, rest) -> forall i, of_sender i out ++ nth i rest [] = nth i queues [].
Proof. exact (@run_schedule_merge). Qed.
Print Assumptions C14_schedule_is_a_merge.

Theorem C14_complete_schedule_exactly_once : forall (A : Type) (sched : list nat) (queues : list (list A)) out rest,
  run_schedule sched queues = (out, rest) -> Forall (fun q => q = []) rest ->
  forall i, of_sender i out = nth i queues [].
Proof. exact (@run_schedule_complete). Qed.
Print Assumptions C14_complete_schedule_exactly_once.

(* the framing function over concatenations: parse (f1 ++ f2 ++ ... ++ rest) = b1 :: b2 :: ... :: parse rest *)
Theorem C14_framing_of_concatenation : forall bodies rest fuel, Forall (fun b => blen b <= FRAME_LIMIT) bodies ->
  bparse (length bodies + fuel) (concat (map bframe bodies) ++ rest) =
  let '(l, e) := bparse fuel rest in (bodies ++ l, e).
Proof. exact framing_of_concatenation. Qed.
Print Assumptions C14_framing_of_concatenation.

(* one Write per frame: under EVERY schedule the byte stream is a concatenation of whole frames ... *)
Theorem C14_concurrent_stream_is_whole_frames : forall sched (senders : list (list (list N))),
  wire_bytes writes_atomic sched senders = concat (map bframe (scheduled sched senders)).
Proof. exact wire_bytes_atomic. Qed.
Print Assumptions C14_concurrent_stream_is_whole_frames.

(* ... which the receiver's framing cuts into exactly the bodies that were written, in the order of the schedule *)
Theorem C14_concurrent_frames_never_interleave : forall sched (senders : list (list (list N))),
  Forall (Forall (fun b => blen b <= FRAME_LIMIT)) senders ->
  forall fuel, (length (scheduled sched senders) < fuel)%nat ->
  bparse fuel (wire_bytes writes_atomic sched senders) = (scheduled sched senders, BEof).
Proof. exact conc_framing. Qed.
Print Assumptions C14_concurrent_frames_never_interleave.

(* symbolic level: senders hold (packet, nonce) pairs; under every schedule the receiver delivers exactly the scheduled
   packets, once each, and reaches the end of the stream without an error *)
Theorem C14_concurrent_senders_delivery_exact : forall (key : Type) (key_eqb : key -> key -> bool), eqb_correct key_eqb ->
  forall k sched (senders : list (list ((N * list N) * N))),
  Forall (Forall (fun x => pkt_ok (fst x))) senders ->
  recv key_eqb k (wire_chunks (sym_writes_atomic k) sched senders) = (map to_wire (map fst (scheduled sched senders)), REof) /\
  deliver (fst (recv key_eqb k (wire_chunks (sym_writes_atomic k) sched senders))) = map fst (scheduled sched senders).
Proof. exact (@conc_delivery). Qed.
Print Assumptions C14_concurrent_senders_delivery_exact.

(* prefix and body in TWO Writes are not enough: a schedule that lets another sender's prefix in between makes the
   receiver refuse genuine frames (bytes: the stream, what the framing makes of it, and the same schedule with one
   Write per frame; a schedule that happens not to interleave is harmless) *)
Theorem C14_two_writes_per_frame_refuted :
  wire_bytes writes_split [0; 1; 0; 1]%nat [[[1; 2; 3]]; [[9; 9; 9; 9; 9]]] = [3; 0; 0; 0; 5; 0; 0; 0; 1; 2; 3; 9; 9; 9; 9; 9] /\
  bparse 10 (wire_bytes writes_split [0; 1; 0; 1]%nat [[[1; 2; 3]]; [[9; 9; 9; 9; 9]]]) = ([[5; 0; 0]], BTooBig 50462976) /\
  bparse 10 (wire_bytes writes_atomic [0; 1; 0; 1]%nat [[[1; 2; 3]]; [[9; 9; 9; 9; 9]]]) = ([[1; 2; 3]; [9; 9; 9; 9; 9]], BEof) /\
  bparse 10 (wire_bytes writes_split [0; 0; 1; 1]%nat [[[1; 2; 3]]; [[9; 9; 9; 9; 9]]]) = ([[1; 2; 3]; [9; 9; 9; 9; 9]], BEof).
Proof. exact split_writes_refuted_bytes. Qed.
Print Assumptions C14_two_writes_per_frame_refuted.

Theorem C14_two_writes_per_frame_refuted_symbolic :
  recv free_key_eqb (free_kdf 1 (free_dh 1 2)) (wire_chunks (sym_writes_split (free_kdf 1 (free_dh 1 2))) [0; 1; 0; 1]%nat [[((2, [7; 7; 7]), 100)]; [((3, [8]), 101)]]) = ([], RErr E_OPEN) /\
  recv free_key_eqb (free_kdf 1 (free_dh 1 2)) (wire_chunks (sym_writes_atomic (free_kdf 1 (free_dh 1 2))) [0; 1; 0; 1]%nat [[((2, [7; 7; 7]), 100)]; [((3, [8]), 101)]]) = ([(4, [7; 7; 7]); (5, [8])], REof) /\
  recv free_key_eqb (free_kdf 1 (free_dh 1 2)) (wire_chunks (sym_writes_atomic (free_kdf 1 (free_dh 1 2))) [1; 0]%nat [[((2, [7; 7; 7]), 100)]; [((3, [8]), 101)]]) = ([(5, [8]); (4, [7; 7; 7])], REof).
Proof. exact split_writes_refuted_sym. Qed.
Print Assumptions C14_two_writes_per_frame_refuted_symbolic.

(* ------------------------------------------------------------------ what the code does NOT establish
   (KNOWN_FINDINGS.json: C14-reconnect, C14-reflect).  These are theorems about the model of the code as it is. *)

(* nothing of the connection enters the key *)
Theorem C14_known_key_is_not_per_connection :
  forall (key sk pk sh : Type) (pub : sk -> pk) (dh : sk -> pk -> sh) (kdf : N -> sh -> key)
    (pk_eqb : pk -> pk -> bool) (pk_valid : pk -> bool), eqb_correct pk_eqb ->
  forall (me1 me2 : node) (h1 h2 : hello) k1 k2,
  nd_sk me1 = nd_sk me2 -> nd_net me1 = nd_net me2 -> h_id h1 = h_id h2 ->
  hs_accept pub dh kdf pk_eqb pk_valid me1 h1 = HsKey k1 ->
  hs_accept pub dh kdf pk_eqb pk_valid me2 h2 = HsKey k2 -> k1 = k2.
Proof. exact (@key_not_per_connection). Qed.
Print Assumptions C14_known_key_is_not_per_connection.

(* frames recorded on one connection are delivered on a later connection of the same two nodes *)
Theorem C14_known_reconnect_splice_accepted : forall (key : Type) (key_eqb : key -> key -> bool), eqb_correct key_eqb ->
  forall (sk pk sh : Type) (pub : sk -> pk) (dh : sk -> pk -> sh) (kdf : N -> sh -> key)
    (pk_eqb : pk -> pk -> bool) (pk_valid : pk -> bool),
  eqb_correct pk_eqb -> dh_commutes pub dh ->
  forall (A1 B1 A2 B2 : node) vA pA vB pB k1 k2 pkts nonces,
  nd_sk A1 = nd_sk A2 -> nd_sk B1 = nd_sk B2 -> nd_net A1 = nd_net B1 -> nd_net A1 = nd_net A2 -> nd_net B1 = nd_net B2 ->
  hs_accept pub dh kdf pk_eqb pk_valid A1 (hello_of pub B1 vB pB) = HsKey k1 ->
  hs_accept pub dh kdf pk_eqb pk_valid B2 (hello_of pub A2 vA pA) = HsKey k2 ->
  Forall pkt_ok pkts -> length nonces = length pkts ->
  endpoint_recv pub dh kdf key_eqb pk_eqb pk_valid B2 (hello_of pub A2 vA pA) (send k1 pkts nonces) = (pkts, CsClosed 0).
Proof. exact (@reconnect_splice_accepted). Qed.
Print Assumptions C14_known_reconnect_splice_accepted.

(* a node delivers its own frames when they are sent back to it *)
Theorem C14_known_reflection_accepted : forall (key : Type) (key_eqb : key -> key -> bool), eqb_correct key_eqb ->
  forall (sk pk sh : Type) (pub : sk -> pk) (dh : sk -> pk -> sh) (kdf : N -> sh -> key)
    (pk_eqb : pk -> pk -> bool) (pk_valid : pk -> bool),
  forall (A : node) vB pB (idB : pk) k pkts nonces,
  hs_accept pub dh kdf pk_eqb pk_valid A {| h_version := vB; h_p2pver := pB; h_id := idB; h_port := 0 |} = HsKey k ->
  Forall pkt_ok pkts -> length nonces = length pkts ->
  endpoint_recv pub dh kdf key_eqb pk_eqb pk_valid A {| h_version := vB; h_p2pver := pB; h_id := idB; h_port := 0 |}
    (send k pkts nonces) = (pkts, CsClosed 0).
Proof. exact (@reflection_accepted). Qed.
Print Assumptions C14_known_reflection_accepted.

(* outside the wording of C14, recorded: a whole frame is accepted again inside its connection *)
Theorem C14_outside_replay_accepted : forall (key : Type) (key_eqb : key -> key -> bool), eqb_correct key_eqb ->
  forall k n ty d, pkt_ok (ty, d) ->
  deliver (fst (recv key_eqb k (send k [(ty, d)] [n] ++ send k [(ty, d)] [n]))) = [(ty, d); (ty, d)].
Proof. exact (@replay_accepted). Qed.
Print Assumptions C14_outside_replay_accepted.
