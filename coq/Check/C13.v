(* C13: observation type, correspondence and property checkers evaluated on the implementation's observations. *)
From Virel Require Import Lib.Config Lib.CheckLib Lib.Pack Model.Des Model.Codec Model.CodecBlock Check.CodecVal.
Open Scope bool_scope.
Open Scope N_scope.

(* One case = one byte string fed to decoder [k] of the Go code.
   src   = Some v when the byte string is Go's encoding of the generated value v (round-trip clause),
   go1   = Go's decoding of input,  e1 = Go's encoding of that value (empty when go1 is not GOk),
   go2   = Go's decoding of e1,     e2 = Go's encoding of that second value. *)
Inductive c13_case :=
| C13 (k : N) (src : option value) (input : packed) (go1 : gores) (e1 : option packed) (go2 : gores) (e2 : option packed)
(* a block b (with its transaction ids as computed by Go) and its transactions: stored = b.Serialize(),
   wire = SerializeFullBlock(b); the receiver runs DeserializeFull(wire): go_ok = accepted,
   same_hash = receiver's block hash equals the sender's, same_ids = receiver's id list equals the sender's *)
| C13W (b : block) (txs : list tx) (wire stored : packed) (go_ok same_hash same_ids : bool).

(* GSame / None abbreviate "identical to the previous value / byte string" *)
Definition resolve (prev : gores) (g : gores) : gores := match g with GSame => prev | _ => g end.
Definition resolve_bytes (prev : list N) (e : option packed) : list N := match e with Some p => unpack p | None => prev end.

Definition wf_val (cfg : config) (k : N) (v : value) : bool :=
  match v with
  | VU64 x => u64b x
  | VBytes b => u64b (blen b)
  | VOutput o => wf_output cfg o
  | VTx t => wf_tx cfg (k =? K_TX_V) t
  | VState s => wf_state s
  | VDelegate d => wf_delegate cfg d
  | VCommitment c => wf_commitment cfg c
  | VHeader h => wf_header cfg h
  | VBlock b => wf_block cfg b
  | VFull b txs => wf_full_block cfg b txs
  | VBlob m => wf_blob cfg m
  | VStats p => wf_pstats p
  | VBlockReq p => wf_pblockreq p
  | VStakeSig p => wf_pstakesig cfg p
  | VHandshake h => wf_handshake h
  | VPeers _ => false
  end.

Definition c13_corr (cfg : config) (c : c13_case) : bool :=
  match c with
  | C13 k src input go1 e1 go2 e2 =>
      let bs := unpack input in
      let go1 := resolve (match src with Some v => GOk v | None => GErr end) go1 in
      let go2 := resolve go1 go2 in
      let e1 := resolve_bytes bs e1 in
      let e2 := resolve_bytes e1 e2 in
      (match src with Some v => bytes_eqb (enc_val v) bs | None => true end)
      && gores_eqb (model_res cfg k bs) go1
      && match go1 with
         | GOk v1 => bytes_eqb (enc_val v1) e1 && gores_eqb (model_res cfg k e1) go2
                     && match go2 with GOk v2 => bytes_eqb (enc_val v2) e2 | _ => true end
         | _ => true
         end
  | C13W b txs wire stored go_ok same_hash same_ids =>
      let b0 := mkblock (bl_header b) (bl_diff b) (bl_cumdiff b) [] in
      bytes_eqb (enc_full_block b txs) (unpack wire) && bytes_eqb (enc_block b) (unpack stored)
      && (let m := model_res cfg K_FULL (unpack wire) in
          if wf_full_block cfg b txs then gores_eqb m (if go_ok then GOk (VFull b0 txs) else GErr)
          else match m with GOk _ => go_ok | GErr => negb go_ok | _ => false end)
  end.

(* the property, decided on what the implementation returned; 0 = holds *)
Definition c13_prop (cfg : config) (c : c13_case) : N :=
  match c with
  | C13 k src input go1 e1 go2 e2 =>
      let bs := unpack input in
      let go1 := resolve (match src with Some v => GOk v | None => GErr end) go1 in
      let go2 := resolve go1 go2 in
      let e1 := resolve_bytes bs e1 in
      let e2 := resolve_bytes e1 e2 in
      first_fail [
        (1, match src with
            | Some v => if wf_val cfg k v then gores_eqb go1 (GOk v) else true   (* decode (encode v) = v *)
            | None => true
            end);
        (2, match go1 with
            | GOk v1 => if admitted v1 then gores_eqb go2 (GOk v1) else true     (* accepted bytes: the re-encoding decodes to the same value *)
            | _ => true
            end);
        (3, match go1 with
            | GOk v1 => if admitted v1 then bytes_eqb e1 e2 else true            (* ... with the same encoding, hence the same hash *)
            | _ => true
            end)]
  | C13W b txs wire stored go_ok same_hash same_ids =>
      if wf_full_block cfg b txs && negb (bl_diff b =? 0) && (blen (bl_txs b) =? blen txs) then
        first_fail [(4, go_ok); (5, same_hash); (6, same_ids)]
      else 0
  end.

Definition c13_bad_corr cfg l := bad_indices (c13_corr cfg) l 0.
Definition c13_bad_prop cfg l := bad_codes (c13_prop cfg) l 0.
