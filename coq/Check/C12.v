(* C12: observation type, correspondence and property checkers evaluated on the implementation's observations. *)
From Virel Require Import Lib.Config Lib.CheckLib Lib.Pack Model.Des Model.Codec Model.CodecBlock Check.CodecVal.
Open Scope bool_scope.
Open Scope N_scope.

(* One case = one byte string fed to decoder/handler [k] of the Go code under recover().
   go_class: 0 handled, 1 rejected with an error, 2 panic.  go_alloc: bytes allocated by the Go runtime meanwhile
   (runtime.MemStats.TotalAlloc delta).  wire: the bytes of this decoder come from the network. *)
Inductive c12_case :=
| C12 (k : N) (wire : bool) (input : packed) (go_class : N) (go_alloc : N).

Definition class_of (g : gores) : N := match g with GOk _ => 0 | GErr => 1 | GPanic => 2 | GSame => 3 end.

(* Allocation allowed to a network-facing decoder on an input of n bytes: a small multiple of the input plus a
   constant for the bounded tables (1000 transaction ids and pointers of a block, error values, the decoded struct). *)
Definition ALLOC_K : N := 16.
Definition ALLOC_C : N := 131072.
(* slack when comparing the model's allocation counter with the runtime's measurement: the counter only counts
   input-driven allocations; the runtime also counts error values, the decoded struct, size-class rounding *)
Definition MODEL_SLACK_MUL : N := 3.
Definition MODEL_SLACK_ADD : N := 8192.

Definition c12_corr (cfg : config) (c : c12_case) : bool :=
  match c with
  | C12 k wire input go_class go_alloc =>
      let bs := unpack input in
      (let mc := class_of (model_res cfg k bs) in
       (* OnAddPeerPacket: handled / rejected depends on net.ParseIP (outside the model); panic or not is compared *)
       if k =? K_ADDPEER then Bool.eqb (mc =? 2) (go_class =? 2) else mc =? go_class)
      (* the allocation counter of the model accounts for what the runtime measured *)
      (* (not for the stratum handler: its allocation is encoding/json and gob, outside the model) *)
      && ((k =? K_STRATUM_NONCE) || (go_alloc <=? MODEL_SLACK_MUL * model_alloc cfg k bs + MODEL_SLACK_ADD))
  end.

Definition c12_prop (cfg : config) (c : c12_case) : N :=
  match c with
  | C12 k wire input go_class go_alloc =>
      first_fail [
        (1, negb (go_class =? 2));                                                   (* the process keeps running *)
        (2, if wire then go_alloc <=? ALLOC_K * p_len input + ALLOC_C else true)]    (* bounded allocation *)
  end.

Definition c12_bad_corr cfg l := bad_indices (c12_corr cfg) l 0.
Definition c12_bad_prop cfg l := bad_codes (c12_prop cfg) l 0.
