(* C12, live part: packets of every wire type sent to a live node (child process) by a peer written from the protocol
   description (family c12pk).  There is no model output to compare with here - what the decoders do with these bytes is the
   subject of the c12 family and of the theorems of Props/C12.v - so the correspondence is only the sanity of the record;
   the property is decided on the implementation's observation: after the packet (more exactly: after the group of packets it
   was sent in, or after the packet alone when its group was replayed) the node process is running, answers a block request,
   has not changed its chain and has not grown by more than 64 MiB; and at the end of the run it still accepts a good block. *)
From Virel Require Import Lib.CheckLib Lib.Config.
Open Scope N_scope.
Open Scope bool_scope.

Inductive c12pk_case :=
| CPk (wire len : N) (alive responsive unchanged : bool) (growth_mib : N)
| CPkFinal (accepted : bool).

Definition c12pk_corr (cfg : config) (c : c12pk_case) : bool :=
  match c with
  | CPk wire len _ _ _ _ => (wire <? 65536) && (len <? 4 * 1024 * 1024 + 2)
  | CPkFinal _ => true
  end.

Definition c12pk_prop (cfg : config) (c : c12pk_case) : N :=
  match c with
  | CPk _ _ alive responsive unchanged growth =>
      first_fail [(31, alive); (32, responsive); (33, unchanged); (34, growth <=? 64)]
  | CPkFinal accepted => first_fail [(35, accepted)]
  end.

Definition c12pk_bad_corr (cfg : config) (l : list c12pk_case) := bad_indices (c12pk_corr cfg) l 0.
Definition c12pk_bad_prop (cfg : config) (l : list c12pk_case) := bad_codes (c12pk_prop cfg) l 0.
