(* C09 - a node never hands out work it would reject; the mempool stays mineable.
   Case = one scenario on one real node: block deliveries, TX packets, stake signatures, block templates (completed by
   the harness and delivered to the same node), expiry.  The property predicate reads Go's observations only. *)
From Virel Require Import Lib.Config Lib.U64 Lib.CheckLib Lib.AMap Model.Emission Model.Ledger Model.Node Model.Mempool Check.Hist.
Open Scope N_scope.
Open Scope bool_scope.

(* what the harness reads off the template returned by GetBlockTemplate *)
Record tplobs := mktplobs {
  to_err : bool;
  to_height : N; to_version : N; to_ts : N; to_anc : list N; to_diff : N; to_cd : N;
  to_delegate : N; to_next : N; to_sig : bool;
  to_txs : list N;            (* transaction ids, in the order listed *)
  to_sides : list N           (* side blocks: Commitment.Equals classes *)
}.

Inductive c9op :=
| ODeliver (blk : nat) (now : N) (from_tpl acc crash : bool) (conn disc : list nat) (now_s : N) (mp : list N)
| OSubmit (t : nat) (now_s expires : N) (admitted crash : bool) (mp : list N)
| OSig (h did key msg : N) (stored : bool) (mp : list N)
| OTemplate (now_lo now_hi rcpt now_s : N) (o : tplobs) (mp : list N)
| OExpire (ids : list N) (mp : list N).

Record c9case := mkc9case {
  c_genesis_addr : N; c_team_key : N;
  c_expiration : N;           (* config.MEMPOOL_EXPIRATION in seconds *)
  c_genesis : block;
  c_blocks : list block;      (* every block of the scenario, referred to by index *)
  c_txs : list tx;            (* every submitted transaction, referred to by index *)
  c_ops : list c9op
}.

Definition ids_eqb := list_eqb N.eqb.

(* ---------------- the property, on the implementation's observations ----------------
   codes: 1 a completed template was refused by the node that issued it; 2 the node panicked on a delivery;
   3 a transaction of a connected block is still in the mempool; 4 a transaction of a disconnected block did not return;
   5 a refused delivery changed the mempool; 6 mempool after a delivery differs otherwise from the expected content;
   7 the node panicked on a TX packet; 8 mempool after a TX packet is not (old content [+ the admitted transaction]);
   9 no template could be produced; 10 the template lists something that is not pending, or out of order;
   11 mempool after a template is neither the old content nor the listed transactions; 12 other operations touched it *)
Section PropPred.
Variable c : c9case.

Definition cblk (i : nat) : block := nth i (c_blocks c) dummy_block.
Definition txids_of (bs : list nat) : list N := flat_map (fun i => map tx_id (b_txs (cblk i))) bs.
Definition dummy_tx : tx := mktx 0 0 0 0 false false (TTransfer []) 0 0.
Definition ctx (i : nat) : tx := nth i (c_txs c) dummy_tx.

Fixpoint add_absent (mp l : list N) : list N :=
  match l with [] => mp | x :: r => if memN x mp then add_absent mp r else add_absent (mp ++ [x]) r end.
Definition drop_ids (mp l : list N) : list N := filter (fun x => negb (memN x l)) mp.

Fixpoint subseq (a b : list N) : bool :=
  match a, b with
  | [], _ => true
  | _ :: _, [] => false
  | x :: a', y :: b' => if x =? y then subseq a' b' else subseq a b'
  end.

(* state: mempool after the previous operation, ids whose expiry lies in the past *)
Definition prop_op (st : list N * list N) (op : c9op) : (list N * list N) * N :=
  let '(mp0, ex) := st in
  let fin (mp : list N) (code : N) := ((mp, filter (fun x => memN x mp) ex), code) in
  match op with
  | ODeliver _ _ from_tpl acc crash conn disc _ mp =>
      if crash then fin mp 2
      else if from_tpl && negb acc then fin mp 1
      else if negb acc || match conn with [] => true | _ => false end then fin mp (if ids_eqb mp mp0 then 0 else 5)
      else
        let expected := drop_ids (drop_ids (add_absent mp0 (txids_of disc)) (txids_of conn)) ex in
        if existsb (fun x => memN x mp) (txids_of conn) then fin mp 3
        else if negb (forallb (fun x => memN x mp || memN x (txids_of conn)) (txids_of disc)) then fin mp 4
        else fin mp (if ids_eqb mp expected then 0 else 6)
  | OSubmit t _ _ admitted crash mp =>
      if crash then fin mp 7
      else if admitted then fin mp (if ids_eqb mp (drop_ids mp0 ex ++ [tx_id (ctx t)]) then 0 else 8)
      else fin mp (if ids_eqb mp mp0 then 0 else 8)
  | OSig _ _ _ _ _ mp => fin mp (if ids_eqb mp mp0 then 0 else 12)
  | OTemplate _ _ _ _ o mp =>
      if to_err o then fin mp 9
      else if negb (subseq (to_txs o) mp0) then fin mp 10
      else fin mp (if ids_eqb mp mp0 || ids_eqb mp (drop_ids (to_txs o) ex) then 0 else 11)
  | OExpire ids mp => ((mp, ex ++ ids), if ids_eqb mp mp0 then 0 else 12)
  end.

(* first failing operation: 100 * index + code; 0 = the property holds on the whole scenario *)
Definition c9_prop : N :=
  (fix go (ops : list c9op) (st : list N * list N) (i : N) : N :=
     match ops with
     | [] => 0
     | op :: r => let '(st', code) := prop_op st op in if code =? 0 then go r st' (i + 1) else 100 * i + code
     end) (c_ops c) ([], []) 0.
End PropPred.

Definition c09_bad_prop (cfg : config) (cs : list c9case) : list (N * N) := bad_codes c9_prop cs 0.

(* ---------------- correspondence: the model (legacy = false) run over the same operations ----------------
   codes: 1 acceptance/crash of a delivery differs; 2 connected/disconnected blocks differ; 3 mempool after the operation
   differs; 4 admission decision differs; 5 stake-signature decision differs; 6 template: error status differs;
   7 template: a header field differs (height, version, timestamp, ancestors, difficulty, cumulative difficulty, delegate
   id, next delegate id, signature present); 8 template: transaction list differs; 9 template: side blocks are not an
   admissible choice among the model's candidates; 10 template: timestamp outside the clock window of the call;
   11 the delivered "completed template" is not the last template; 19 genesis failed *)
Section Corr.
Variable cfg : config.
Variable c : c9case.

Definition mp_ids (w : wnode) : list N := map me_id (mpool w).
Definition hashes_of (bs : list block) : list N := map b_hash bs.
Definition idx_hashes (is : list nat) : list N := map (fun i => b_hash (cblk c i)) is.

Record crun := mkcrun { cr_w : wnode; cr_idx : N; cr_bad : list (N * N); cr_amb : bool; cr_tpl : option tplobs }.

Definition set_eqb (a b : list N) : bool := forallb (fun x => memN x b) a && forallb (fun x => memN x a) b.
Fixpoint distinctN (l : list N) : bool := match l with [] => true | x :: r => negb (memN x r) && distinctN r end.

Definition tpl_header_eqb (t : block) (o : tplobs) : bool :=
  (b_height t =? to_height o) && (b_version t =? to_version o) && (b_ts t =? to_ts o) && ids_eqb (b_anc t) (to_anc o) &&
  (b_diff t =? to_diff o) && (b_cd t =? to_cd o) && (b_delegate_id t =? to_delegate o) &&
  (b_next_delegate_id t =? to_next o) && Bool.eqb (negb (b_sig_blank t)) (to_sig o).

(* the delivered block carries exactly what the template said *)
Definition completes_obs (b : block) (o : tplobs) : bool :=
  tpl_header_eqb b o && ids_eqb (map tx_id (b_txs b)) (to_txs o) && ids_eqb (map cm_eq (b_sides b)) (to_sides o).

Definition corr_op (st : crun) (op : c9op) : crun :=
  let w := cr_w st in
  let i := cr_idx st in
  let upd (w' : wnode) (codes : list N) (amb : bool) (tpl : option tplobs) :=
    mkcrun w' (i + 1) (if cr_amb st then cr_bad st else cr_bad st ++ map (fun k => (i, k)) codes) (cr_amb st || amb) tpl in
  let chk (b : bool) (k : N) : list N := if b then [] else [k] in
  match op with
  | ODeliver bi now from_tpl acc crash conn disc now_s mp =>
      let b := cblk c bi in
      let '(w1, out, amb) := wdeliver cfg (c_genesis_addr c) (c_team_key c) w b now now_s (c_expiration c) in
      let macc := match get_block (wn w1) (b_hash b) with Some _ => true | None => false end in
      let mcrash := match out with Crashed _ => true | _ => false end in
      let fuel := S (N.to_nat (N.max (top_h (wn w)) (top_h (wn w1)))) in
      let mdisc := hashes_of (off_chain fuel (wn w) (wn w1) (top (wn w))) in
      let mconn := hashes_of (rev (off_chain fuel (wn w1) (wn w) (top (wn w1)))) in
      let tplok := if from_tpl then match cr_tpl st with Some o => completes_obs b o | None => false end else true in
      if amb then upd w1 [] true None
      else upd w1 (chk (Bool.eqb macc acc && Bool.eqb mcrash crash) 1 ++
                   chk (ids_eqb mconn (idx_hashes conn) && ids_eqb mdisc (idx_hashes disc)) 2 ++
                   chk (ids_eqb (mp_ids w1) mp) 3 ++ chk tplok 11) false None
  | OSubmit ti now_s expires admitted crash mp =>
      match packet_tx cfg (c_team_key c) false w (ctx c ti) now_s expires with
      | Ok (w1, adm) => upd w1 (chk (Bool.eqb adm admitted && negb crash) 4 ++ chk (ids_eqb (mp_ids w1) mp) 3) false (cr_tpl st)
      | Err _ => upd w (chk (negb admitted && negb crash) 4 ++ chk (ids_eqb (mp_ids w) mp) 3) false (cr_tpl st)
      | Panic _ => upd w (chk crash 4) false (cr_tpl st)
      end
  | OSig h did key msg stored mp =>
      match handle_stake_sig w h did key msg with
      | Ok w1 => upd w1 (chk stored 5 ++ chk (ids_eqb (mp_ids w1) mp) 3) false (cr_tpl st)
      | _ => upd w (chk (negb stored) 5 ++ chk (ids_eqb (mp_ids w) mp) 3) false (cr_tpl st)
      end
  | OTemplate now_lo now_hi rcpt now_s o mp =>
      (* the clock reading inside GetBlockTemplate is not observable: it is recovered from the template's timestamp and
         checked against the window of the call *)
      let now := to_ts o - 1 in
      match get_block_template cfg false w rcpt now now_s with
      | Ok (t, w1) =>
          let n := wn w in
          let prev_ts := match get_block n (top n) with Some p => b_ts p | None => 0 end in
          let cands := match get_block n (top n) with
                       | Some p => match select_sides cfg false n p (b_height t) (b_ts t) (b_diff t) (b_anc t)
                                           (N.of_nat (length (tips n))) (tips n) [] with
                                   | Ok l => map cm_eq l | _ => [] end
                       | None => [] end in
          (* Go iterates stats.Tips as a map: ANY order.  The observed choice must be one that SOME order produces: every
             chosen tip is usable on its own, no two chosen share the duplicate class of PrevalidateBlock (base hash and
             nonces), at most MAX_SIDE_BLOCKS, and maximal (the cap is reached, or every usable tip that was not chosen
             shares the duplicate class of a chosen one). [cands] (the model's own order) is one such choice. *)
          let singles := match get_block n (top n) with
                         | Some p => flat_map (fun tp => match select_sides cfg false n p (b_height t) (b_ts t) (b_diff t) (b_anc t) 1 [tp] [] with
                                                         | Ok l => l | _ => [] end) (tips n)
                         | None => [] end in
          let chosen := flat_map (fun x => match find (fun cm => cm_eq cm =? x) singles with Some cm => [cm] | None => [] end) (to_sides o) in
          let sides_ok :=
            (set_eqb (to_sides o) cands && distinctN (to_sides o) && (N.of_nat (length cands) <=? max_side_blocks cfg)) ||
            ((N.of_nat (length chosen) =? N.of_nat (length (to_sides o))) && distinctN (to_sides o) && distinctN (map cm_dup chosen) &&
             (N.of_nat (length chosen) <=? max_side_blocks cfg) &&
             ((N.of_nat (length chosen) =? max_side_blocks cfg) ||
              forallb (fun cm => existsb (fun c2 => cm_dup c2 =? cm_dup cm) chosen) singles)) in
          let window := (to_ts o =? prev_ts) && (now_lo + 1 <=? prev_ts) || ((now_lo + 1 <=? to_ts o) && (to_ts o <=? now_hi + 1)) in
          upd w1 (chk (negb (to_err o)) 6 ++
                  (if to_err o then [] else
                     chk (tpl_header_eqb t o) 7 ++ chk (ids_eqb (map tx_id (b_txs t)) (to_txs o)) 8 ++ chk sides_ok 9 ++ chk window 10) ++
                  chk (ids_eqb (mp_ids w1) mp) 3) false (Some o)
      | _ => upd w (chk (to_err o) 6 ++ chk (ids_eqb (mp_ids w) mp) 3) false None
      end
  | OExpire ids mp =>
      let w1 := set_mpool w (map (fun e => if memN (me_id e) ids
                                           then mkmentry (me_id e) (me_version e) (me_size e) (me_fee e) 1 (me_signer e) (me_inputs e) (me_outputs e)
                                           else e) (mpool w)) in
      upd w1 (chk (ids_eqb (mp_ids w1) mp) 3) false (cr_tpl st)
  end.

Definition c9_corr : list (N * N) :=
  match wnode0 cfg (c_genesis_addr c) (c_genesis c) with
  | Ok w0 => cr_bad (fold_left corr_op (c_ops c) (mkcrun w0 0 [] false None))
  | _ => [(0, 19)]
  end.
End Corr.

(* first disagreement of each bad scenario: (scenario index, 100 * operation index + code) *)
Definition c09_bad_corr (cfg : config) (cs : list c9case) : list (N * N) :=
  (fix go (l : list c9case) (i : N) :=
     match l with
     | [] => []
     | c :: r => match c9_corr cfg c with
                 | [] => go r (i + 1)
                 | (op, k) :: _ => (i, 100 * op + k) :: go r (i + 1)
                 end
     end) cs 0.
