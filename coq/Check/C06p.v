(* C06, pure part: the staking lottery (GetStaker) and the staker reward split (ApplyPosReward) of the implementation on
   generated stake distributions.  Correspondence = the ledger model computes the same outcome; the property is decided
   on the implementation's own observation in exact arithmetic, without the model. *)
From Virel Require Import Lib.Config Lib.U64 Lib.CheckLib Lib.AMap Model.Ledger.
Open Scope N_scope.
Open Scope bool_scope.

Inductive c06p_case :=
| CLot (ins : list (N * list N))      (* pools in insertion order: id, fund amounts *)
       (order : list N)               (* ids in the order GetDelegates iterates the database *)
       (staked hv : N)                (* Stats.StakedAmount, 128-bit value of the first 16 bytes of the hash *)
       (res rid : N)                  (* 0 = delegate rid, 1 = error, 2 = panic *)
| CRew (owner : N)                    (* key id of the pool owner *)
       (funds : list (N * N * N))     (* (owner address, amount, unlock) in record order *)
       (staked reward : N)
       (res : N)                      (* 0 = applied, 1 = error, 2 = panic *)
       (funds' : list (N * N * N)) (staked' : N).

Definition mkfunds (id : N) (amts : list N) : list fund :=
  (fix go (k : N) (l : list N) := match l with [] => [] | a :: r => mkfund (1000 * id + k) a 0 :: go (k + 1) r end) 0 amts.
Definition lot_ledger (ins : list (N * list N)) (staked : N) : ledger :=
  set_staked (fold_left (fun l p => put_dlg l (mkdlg (fst p) 0 0 (mkfunds (fst p) (snd p)))) ins ledger0) staked.
Definition to_fund (t : N * N * N) : fund := mkfund (fst (fst t)) (snd (fst t)) (snd t).
Definition fund3_eqb (a b : N * N * N) : bool :=
  (fst (fst a) =? fst (fst b)) && (snd (fst a) =? snd (fst b)) && (snd a =? snd b).

Definition sumN (l : list N) : N := fold_left N.add l 0.
Definition amounts (fs : list (N * N * N)) : list N := map (fun t => snd (fst t)) fs.

Definition c06p_corr (cfg : config) (c : c06p_case) : bool :=
  match c with
  | CLot ins order staked hv res rid =>
      let l := lot_ledger ins staked in
      list_eqb N.eqb (map fst (dlgs l)) order &&
      match get_staker l hv with
      | Ok id => (res =? 0) && (rid =? id)
      | Err _ => res =? 1
      | Panic _ => res =? 2
      end
  | CRew owner funds staked reward res funds' staked' =>
      let d := mkdlg 5 owner 0 (map to_fund funds) in
      let l := set_staked (put_dlg ledger0 d) staked in
      match apply_pos_reward l 99 (mksout OUT_COINBASE_POS reward (delegate_addr 5) 5) with
      | Ok l' =>
          (res =? 0) && (staked' =? Ledger.staked l') &&
          match get_dlg l' 5 with
          | Some d' => list_eqb fund3_eqb (map (fun f => (f_owner f, f_amt f, f_unlock f)) (d_funds d')) funds'
          | None => false
          end
      | Err _ => res =? 1
      | Panic _ => res =? 2
      end
  end.

(* ---- the property on the implementation's observation ---- *)
(* totals of the pools in iteration order *)
Definition totals_in_order (ins : list (N * list N)) (order : list N) : list (N * N) :=
  map (fun id => (id, match find (fun p => fst p =? id) ins with Some p => sumN (snd p) | None => 0 end)) order.
(* the pool whose interval of cumulated stake contains [idx]: the first whose cumulated total reaches idx *)
Fixpoint interval_owner (ts : list (N * N)) (idx seen : N) : option N :=
  match ts with
  | [] => None
  | (id, t) :: r => if idx <=? seen + t then Some id else interval_owner r idx (seen + t)
  end.
Fixpoint strictly_increasing_keys (l : list N) : bool :=
  match l with a :: ((b :: _) as r) => (dbkey a <? dbkey b) && strictly_increasing_keys r | _ => true end.

Definition share_of (f reward total : N) : N := f * reward / 100 * 99 / total.

Definition c06p_prop (cfg : config) (c : c06p_case) : N :=
  match c with
  | CLot ins order staked hv res rid =>
      let ts := totals_in_order ins order in
      let total := sumN (map snd ts) in
      let consistent := (total =? staked) && (staked <? two64) in
      first_fail [
        (* the iteration visits every pool exactly once, in the order of the little-endian keys *)
        (1, (N.of_nat (length order) =? N.of_nat (length ins)) && strictly_increasing_keys order &&
            forallb (fun p => existsb (fun id => id =? fst p) order) ins);
        (* with statistics in step with the pools (C01) the lottery neither fails nor crashes and names the pool whose
           interval of cumulated stake contains the index hv mod staked: each pool is chosen for as many index values as
           it has stake (the first pool also for index 0) *)
        (2, implb (consistent && negb (staked =? 0))
              ((res =? 0) && match interval_owner ts (hv mod staked) 0 with Some id => rid =? id | None => false end));
        (* a crash only when the pools' grand total does not fit 64 bits *)
        (3, implb (res =? 2) (two64 <=? total));
        (* a pool without stake is chosen for index 0 only, and only when it is the first pool of the table *)
        (4, implb ((res =? 0) && consistent && negb (staked =? 0))
              (match find (fun t => fst t =? rid) ts with
               | Some t => negb (snd t =? 0) || (hv mod staked =? 0)
               | None => false end))]
  | CRew owner funds staked reward res funds' staked' =>
      let total := sumN (amounts funds) in
      let oaddr := addr_of_key owner in
      let fits := (total + reward <? two64) && (staked + reward <? two64) && (total <=? staked) in
      first_fail [
        (* a pool without stake receives nothing *)
        (11, implb (total =? 0) (negb (res =? 0)));
        (* within the 64-bit range (guaranteed by conservation) a reward to a pool with stake is applied *)
        (12, implb (fits && negb (total =? 0)) (res =? 0));
        (13, implb (res =? 2) (negb fits));
        (* applied: the new funds sum exactly to the old total plus the reward, the staked total grows by the reward *)
        (14, implb (res =? 0) ((sumN (amounts funds') =? total + reward) && (staked' =? staked + reward)));
        (* every fund other than the owner's grows by floor(floor(f*r/100)*99/total); owners, order and unlock heights
           are kept; the remainder goes to the owner's fund (created at the end when there was none) *)
        (15, implb (res =? 0)
               ((fix go (a b : list (N * N * N)) : bool :=
                   match a, b with
                   | [], [] => true
                   | [], [x] => (fst (fst x) =? oaddr) && negb (existsb (fun t => fst (fst t) =? oaddr) funds)
                   | x :: a', y :: b' =>
                       (fst (fst x) =? fst (fst y)) && (snd x =? snd y) &&
                       (if fst (fst x) =? oaddr then snd (fst x) + share_of (snd (fst x)) reward total <=? snd (fst y)
                        else snd (fst y) =? snd (fst x) + share_of (snd (fst x)) reward total) && go a' b'
                   | _, _ => false
                   end) funds funds'))]
  end.

Definition c06p_bad_corr (cfg : config) (l : list c06p_case) := bad_indices (c06p_corr cfg) l 0.
Definition c06p_bad_prop (cfg : config) (l : list c06p_case) := bad_codes (c06p_prop cfg) l 0.
