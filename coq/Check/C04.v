(* C04 - heaviest chain: after every delivery the implementation's tip has maximal cumulative difficulty among
   the blocks it stores; a block valid on its own branch (accepted by a node whose chain ends at its parent) is
   not refused when its parent is stored. *)
From Virel Require Import Lib.Config Lib.U64 Lib.CheckLib Lib.AMap Model.Ledger Model.Node Check.Hist.
Open Scope N_scope.
Open Scope bool_scope.

Definition max_cd (n : node) : N := fold_left (fun m kv => N.max m (b_cd (snd kv))) (blocks n) 0.

Section C04.
Variable cfg : config.
Variable h : hist.

Definition branch_valid (b : block) : bool :=
  (fix go (bs : list block) (vs : list bool) : bool :=
     match bs, vs with
     | x :: br, v :: vr => if b_hash x =? b_hash b then v else go br vr
     | _, _ => false
     end) (h_blocks h) (h_branch_valid h).

(* codes: 1 tip is not of maximal cumulative difficulty among stored blocks, 2 reported tip is not a stored block,
   3 branch-valid block refused although its parent is stored,
   4 = 3 where the block does not extend the current tip and the refusal is the stake-signature check of checkBlock,
       which judges a side-branch block against the main chain's stake state (open finding R14) *)
Definition c04_pf (n0 n1 : node) (b : block) (now : N) (o : obs) : N :=
  (* a member of a batch other than the last: the tip observed after the whole batch says nothing about the store at
     this point; what must hold is that a branch-valid block whose parent was stored when the post-processor (lowest
     height first) reached it is retrievable after the batch *)
  let c := first_fail [
    (2, ob_skip o || match get_block n1 (ob_top o) with Some t => b_cd t =? ob_top_cd o | None => false end);
    (1, ob_skip o || (max_cd n1 <=? ob_top_cd o));
    (3, negb (branch_valid b && negb (ob_acc o) &&
              match get_block n0 (prev_hash b) with Some _ => true | None => false end))] in
  if (c =? 3) && negb (prev_hash b =? top n0) &&
     match deliver cfg (h_genesis_addr h) (h_team_key h) n0 b now with
     | (_, Rejected rc, _) => (rc =? 717) || (rc =? 718) || (rc =? 719)
     | _ => false end
  then 4 else c.
End C04.

Definition c04_bad_corr (cfg : config) (hs : list hist) := hist_corr_detail cfg hs.
Definition c04_bad_prop (cfg : config) (hs : list hist) := bad_codes (fun h => hist_prop cfg h (c04_pf cfg h)) hs 0.
