(* C18: observation type, correspondence and property checkers evaluated on the implementation's observations. *)
From Coq Require Import Bool.
From Virel Require Import Lib.Config Lib.U64 Lib.CheckLib Lib.Pack Model.Address.
Open Scope bool_scope.
Open Scope N_scope.

(* what address.FromString returned *)
Inductive go_res :=
| GOk (a : packed) (pid : N)
| GErr
| GPanic.

Inductive c18_case :=
(* Go: text = Integrated{a,pid}.String(), r = FromString(text) *)
| CFmt (a : packed) (pid : N) (go_text : packed) (r : go_res)
(* Go: r = FromString(text) for an arbitrary byte string *)
| CParse (text : packed) (r : go_res)
(* Go: text = the single-character edit (kind 0 substitute / 1 delete / 2 insert, position, character) of
   Integrated{a,pid}.String(); r = FromString(text) *)
| CMut (a : packed) (pid : N) (kind pos ch : N) (text : packed) (r : go_res)
(* totals of the harness over the edits of checksummed account texts: edits parsed, edits accepted as a different (address, payment id) *)
| CSummary (n_mut n_undetected : N).

Definition res_match (m : parse_result) (g : go_res) : bool :=
  match m, g with
  | POk a p, GOk ga gp => list_N_eqb a (unpack ga) && (p =? gp)
  | PErr, GErr => true
  | PPanic, GPanic => true
  | _, _ => false
  end.

Definition apply_edit (kind pos ch : N) (t : list N) : list N :=
  let i := N.to_nat pos in
  if kind =? 0 then firstn i t ++ ch :: skipn (S i) t
  else if kind =? 1 then firstn i t ++ skipn (S i) t
  else firstn i t ++ ch :: skipn i t.

Definition c18_corr (cfg : config) (c : c18_case) : bool :=
  match c with
  | CFmt a pid t r =>
      list_N_eqb (format_addr cfg (unpack a) pid) (unpack t) && res_match (parse_addr cfg (unpack t)) r
  | CParse t r => res_match (parse_addr cfg (unpack t)) r
  | CMut a pid kind pos ch t r =>
      list_N_eqb (apply_edit kind pos ch (format_addr cfg (unpack a) pid)) (unpack t)
      && res_match (parse_addr cfg (unpack t)) r
  | CSummary _ _ => true
  end.

(* the largest fraction of single-character edits of checksummed texts that may be accepted as a different address: 2^-12 *)
Definition undetected_denominator : N := 4096.

(* The property, decided on what the implementation returned; 0 = holds, else the failed conjunct:
     1  the text of an address is rejected            2  the text of an address reads back as something else
     3  FromString panicked
     16 an edited delegate-form text (no checksum) is accepted as a different delegate address
     17 an edited burn/delegate text is accepted as anything else
     40 edits of checksummed texts accepted as a different address exceed the permitted fraction *)
Definition c18_prop (cfg : config) (c : c18_case) : N :=
  match c with
  | CFmt a pid _ r =>
      let a := unpack a in
      match r with
      | GPanic => 3
      | GErr => if negb (is_delegate cfg a) || (pid =? 0) then 1 else 0
      | GOk a' pid' =>
          if negb (is_delegate cfg a) || (pid =? 0)
          then (if list_N_eqb a (unpack a') && (pid =? pid') then 0 else 2)
          else 0
      end
  | CParse _ r => match r with GPanic => 3 | _ => 0 end
  | CMut a pid _ _ _ _ r =>
      let a := unpack a in
      match r with
      | GPanic => 3
      | GErr => 0
      | GOk a' pid' =>
          let a' := unpack a' in
          if list_N_eqb a a' && (pid =? pid') then 0
          else if is_delegate cfg a then
            (if negb (all_zero a) && is_delegate cfg a' && (pid' =? 0) then 16 else 17)
          else 0   (* checksummed text: counted, decided by CSummary *)
      end
  | CSummary n u => if u * undetected_denominator <=? n then 0 else 40
  end.

Definition c18_bad_corr cfg l := bad_indices (c18_corr cfg) l 0.
Definition c18_bad_prop cfg l := bad_codes (c18_prop cfg) l 0.
