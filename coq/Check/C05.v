(* C05 - every block the implementation stores is well formed (Spec/WellFormed.v), evaluated on Go's acceptance
   decisions with the store reconstructed by the model; a refused delivery leaves no trace. *)
From Virel Require Import Lib.Config Lib.U64 Lib.CheckLib Lib.AMap Model.Ledger Model.Node Check.Hist Spec.WellFormed.
Open Scope N_scope.
Open Scope bool_scope.

(* codes 1..14, 20: clause of WellFormed violated by a block the implementation stored;
   30: a delivery without commit changed the store; 40: the node panicked while handling a delivered block *)
Definition c05_pf (cfg : config) (n0 n1 : node) (b : block) (now : N) (o : obs) : N :=
  let newly := match get_block n0 (b_hash b) with Some _ => false | None => true end in
  if ob_crash o then 40   (* the node code panicked on a delivered block instead of rejecting it *)
  else if (ob_commits o =? 0) && negb (ob_notrace o) then 30
  else if ob_acc o && newly then wellformed cfg n0 b now
  else 0.

Definition c05_bad_corr (cfg : config) (hs : list hist) := hist_corr_detail cfg hs.
Definition c05_bad_prop (cfg : config) (hs : list hist) := bad_codes (fun h => hist_prop cfg h (c05_pf cfg)) hs 0.
