(* C07: observation type, correspondence and property checkers evaluated on the implementation's observations. *)
From Coq Require Import Bool.
From Virel Require Import Lib.Config Lib.U64 Lib.CheckLib Model.Emission.
Open Scope bool_scope.
Open Scope N_scope.

Inductive c07_case :=
| CReward (h go_reward go_reward_next go_supply go_supply_next : N)      (* Go values at heights h and h+1 *)
| CCoinbase (version : N) (signed : bool) (total : N) (go_outs : option (list (N * N))). (* None = panic *)

Definition c07_corr (cfg : config) (c : c07_case) : bool :=
  match c with
  | CReward h r r' s s' =>
      (* reward_fast / supply_fast are proved equal to the transcriptions reward / supply_at (Props/C07.v: C07_fast_forms_agree) *)
      (reward_fast cfg h =? r) && (reward_fast cfg (wadd h 1) =? r') && (supply_fast cfg h =? s) && (supply_fast cfg (wadd h 1) =? s')
  | CCoinbase v sg t o =>
      match coinbase cfg v sg t, o with
      | CbOuts m, Some g => list_eqb pair_eqb m g
      | CbPanic, None => true
      | _, _ => false
      end
  end.

(* the property itself, decided on what the implementation returned; 0 = holds, else failed conjunct *)
Definition c07_prop (cfg : config) (c : c07_case) : N :=
  match c with
  | CReward h r r' s s' =>
      if h + 1 <? two64 then
        first_fail [
          (1, r' <=? r);                               (* reward never increases *)
          (2, s' =? s + r');                           (* supply(h+1) = supply(h) + reward(h+1) *)
          (3, (s' <=? max_supply cfg) && (s <=? max_supply cfg));
          (4, if h + 1 <? 2 * reduction_interval cfg then (r =? block_reward cfg) && (r' =? block_reward cfg) else true);
          (5, if (h + 1) mod reduction_interval cfg =? 0
              then (if 2 <=? (h + 1) / reduction_interval cfg then r' =? r * 9 / 10 else r' =? r)
              else r' =? r);
          (6, if h =? 0 then s =? r else true)]
      else 0
  | CCoinbase v sg t o =>
      if (v <=? 1) && (t <=? max_supply cfg + block_reward cfg) then
        match o with
        | Some g => first_fail [
            (11, sum_amounts g =? t);
            (12, match g with (ty, a) :: _ => (ty =? OUT_COINBASE_DEV) && (a =? t * 10 / 100) | [] => false end)]
        | None => 13
        end
      else 0
  end.

Definition c07_bad_corr cfg l := bad_indices (c07_corr cfg) l 0.
Definition c07_bad_prop cfg l := bad_codes (c07_prop cfg) l 0.
