(* C20: observation type, correspondence and property checkers evaluated on the implementation's observations. *)
From Coq Require Import Bool.
From Virel Require Import Lib.Config Lib.U64 Lib.CheckLib Lib.Pack Model.Checkpoints.
Open Scope bool_scope.
Open Scope N_scope.

(* what GetCheckpoint did: returned table entry i / 32 zero bytes / other bytes / panicked *)
Inductive gc_obs := OSlot (i : N) | OZero | OOther | OPanic.

Inductive c20_case :=
| CDigest (len hdr : N) (digest_ok : bool) (interval max : N)
    (* len(bin), its first uint32, blake3(bin) = CHECKPOINTS_BLAKE3, CheckpointInterval, MaxCheckpoint *)
| CHeight (h : N) (sec cp : bool) (gc : gc_obs)           (* IsSecured h, IsCheckpoint h, GetCheckpoint h *)
| CSweep (n : N) (sec cp chg vals : packed)
    (* all heights 0..n-1: bit h of sec/cp = IsSecured h/IsCheckpoint h; bit h of chg = (h = 0 or GetCheckpoint h
       differs from GetCheckpoint (h-1)); vals = three bytes (little endian) per set bit of chg:
       0 panic, 1 zero, 2 other, 3+i table entry i *)
| CPreval (h : N) (res : N).
    (* PrevalidateBlock on a block of height h without valid proof of work whose hash is no table entry:
       0 accepted, 1 rejected, 2 panicked *)

Definition gc_match (m : gc_result) (o : gc_obs) : bool :=
  match m, o with
  | GcSlot i, OSlot j => i =? j
  | GcZero, OZero => true
  | GcPanic, OPanic => true
  | _, _ => false
  end.

(* get_checkpoint_fast is proved equal to the transcription get_checkpoint (Props/C20.v: C20_fast_form_agrees) *)
Definition corr_height (cfg : config) (h : N) (sec cp : bool) (gc : gc_obs) : bool :=
  eqb (is_secured cfg h) sec && eqb (is_checkpoint cfg h) cp && gc_match (get_checkpoint_fast cfg h) gc.

(* The property on one height, decided on Go's observation with the embedded data (length and header, from the
   generated configuration) as the only reference; 0 = holds.  [hdr], [count], [last] are cp_bin_header,
   spec_count and spec_last of the configuration (passed in so that the sweep computes them once);
   [is_cp] and [pinned] below are spec_cp_height and spec_pinned written out over them. *)
Definition prop_height_pre (len hdr count last : N) (h : N) (sec cp : bool) (gc : gc_obs) : N :=
  let q := h / hdr in
  let is_cp := (1 <=? count) && (1 <=? hdr) && (h mod hdr =? 0) && (1 <=? q) && (q <=? count) in
  let pinned := (1 <=? count) && (h <=? last) in
  first_fail [
    (* a height reported as checkpointed yields its own table entry: no panic, entry h/interval - 1 *)
    (1, implb cp (match gc with OSlot i => i + 1 =? q | _ => false end));
    (* the proof-of-work check is skipped only at or below the last embedded checkpoint *)
    (2, implb sec pinned);
    (* exactly the heights the embedded data pins are reported as checkpointed *)
    (3, eqb cp is_cp);
    (* ... and the comparison with the checkpoint is reached there (it sits in the secured branch) *)
    (4, implb is_cp sec);
    (* checkpoint-free configuration: nothing is secured, nothing is a checkpoint *)
    (5, if len =? 0 then negb sec && negb cp else true)].

Definition prop_height (cfg : config) : N -> bool -> bool -> gc_obs -> N :=
  prop_height_pre (cp_bin_len cfg) (cp_bin_header cfg) (spec_count cfg) (spec_last cfg).

(* ---- decoding of the sweep ---- *)
Fixpoint byte_bits (b : N) (k : nat) : list bool :=
  match k with O => [] | S k' => N.odd b :: byte_bits (N.div2 b) k' end.
Fixpoint bytes_bits (l : list N) : list bool :=
  match l with [] => [] | b :: r => byte_bits b 8 ++ bytes_bits r end.
Fixpoint triples (l : list N) : list N :=
  match l with a :: b :: c :: r => (a + 256 * b + 65536 * c) :: triples r | _ => [] end.
Definition gc_decode (v : N) : gc_obs :=
  if v =? 0 then OPanic else if v =? 1 then OZero else if v =? 2 then OOther else OSlot (v - 3).

(* walks heights h, h+1, ...; [f h sec cp gc] = 0 when fine; result 0, or conjunct + 100 * (first failing height + 1);
   99 = malformed encoding *)
Fixpoint sweep (f : N -> bool -> bool -> gc_obs -> N) (secs cps chgs : list bool) (vals : list N) (cur : gc_obs) (h : N) (n : nat) : N :=
  match n with
  | O => 0
  | S n' =>
    match secs, cps, chgs with
    | s :: secs', c :: cps', g :: chgs' =>
      match (if g then match vals with v :: r => Some (gc_decode v, r) | [] => None end else Some (cur, vals)) with
      | None => 99
      | Some (cur', vals') =>
        let code := f h s c cur' in
        if code =? 0 then sweep f secs' cps' chgs' vals' cur' (h + 1) n' else code + 100 * (h + 1)
      end
    | _, _, _ => 99
    end
  end.

Definition run_sweep f (n : N) (sec cp chg vals : packed) : N :=
  sweep f (bytes_bits (unpack sec)) (bytes_bits (unpack cp)) (bytes_bits (unpack chg)) (triples (unpack vals)) OOther 0 (N.to_nat n).

(* the sweep must reach beyond the last checkpoint of the embedded data *)
Definition sweep_covers (cfg : config) (n : N) : bool := spec_last cfg + 2 * cp_bin_header cfg <? n.

Definition never_eq (a b : unit) : bool := false.

Definition c20_corr (cfg : config) (c : c20_case) : bool :=
  match c with
  | CDigest len hdr ok interval max =>
      (len =? cp_bin_len cfg) && (hdr =? cp_bin_header cfg) && eqb ok (cp_digest_ok cfg) &&
      (interval =? cp_interval cfg) && (max =? cp_max cfg)
  | CHeight h sec cp gc => corr_height cfg h sec cp gc
  | CSweep n sec cp chg vals =>
      run_sweep (fun h s c g => if corr_height cfg h s c g then 0 else 1) n sec cp chg vals =? 0
  | CPreval h res =>
      match prevalidate_tail cfg unit never_eq (fun _ => tt) tt h false tt with
      | PvAccept => res =? 0 | PvReject => res =? 1 | PvPanic => res =? 2
      end
  end.

Definition c20_prop (cfg : config) (c : c20_case) : N :=
  match c with
  | CDigest len hdr ok interval max =>
      first_fail [
        (21, ok);                                                   (* the data is the data whose digest is declared *)
        (22, if len =? 0 then max =? 0
             else (interval =? hdr) && (1 <=? interval) && (len =? 4 + 32 * max) && (max * interval <? two64))]
  | CHeight h sec cp gc => prop_height cfg h sec cp gc
  | CSweep n sec cp chg vals =>
      if sweep_covers cfg n then
        (let len := cp_bin_len cfg in let hdr := cp_bin_header cfg in let count := spec_count cfg in let last := spec_last cfg in
         run_sweep (prop_height_pre len hdr count last) n sec cp chg vals)
      else 98
  | CPreval h res =>
      first_fail [
        (11, negb (res =? 2));                                      (* no panic *)
        (* accepted without proof of work and without matching a checkpoint: only strictly between / below checkpoints *)
        (12, implb (res =? 0) (spec_pinned cfg h && negb (spec_cp_height cfg h)))]
  end.

Definition c20_bad_corr cfg l := bad_indices (c20_corr cfg) l 0.
Definition c20_bad_prop cfg l := bad_codes (c20_prop cfg) l 0.
