(* C17, paging part: what the get_tx_list RPC handler serves (observed over HTTP) against the page model. *)
From Virel Require Import Lib.Config Lib.U64 Lib.CheckLib Model.Paging.
Open Scope N_scope.
Open Scope bool_scope.

Inductive c17p_case := CPage (n page : N) (ok : bool) (ids : list N) (max_page : N).

Definition range_list (first last : N) : list N :=
  if last <? first then [] else map (fun i => first + N.of_nat i) (seq 0 (N.to_nat (last + 1 - first))).

Definition c17p_corr (cfg : config) (c : c17p_case) : bool :=
  match c with
  | CPage n p ok ids mp =>
      let '(first, last, mp') := page_range n p in
      ok && list_eqb N.eqb ids (range_list first last) && (mp =? mp')
  end.

(* the property on the implementation's answer: page p (clamped to the last page) is exactly the id range
   max(0, n - 25(p+1)) + 1 .. n - 25p, in ascending order *)
Definition c17p_prop (cfg : config) (c : c17p_case) : N :=
  match c with
  | CPage n p ok ids mp =>
      let mpx := if 0 <? n then (n - 1) / 25 else 0 in
      let p' := if mpx <? p then mpx else p in
      let hi := n - 25 * p' in
      let lo := (if hi <? 25 then 0 else hi - 25) + 1 in
      first_fail [(1, ok); (2, mp =? mpx); (3, list_eqb N.eqb ids (range_list lo hi))]
  end.

Definition c17p_bad_corr cfg l := bad_indices (c17p_corr cfg) l 0.
Definition c17p_bad_prop cfg l := bad_codes (c17p_prop cfg) l 0.
