(* C11 - a node connected to a peer with a heavier valid chain catches up to it.
   A case is ONE live run: real nodes connected over loopback through the real p2p stack (harness family c11).
   The property predicate is evaluated on what was observed on the real nodes (final tip / height / cumulative
   difficulty / digest of the ledger dump of every node, crash / deadlock-report / race-report / timeout flags);
   the correspondence runs the scheduler model (Model/Sync.v) on the same scenario at the logical level (which
   chains the two sides hold, how the answers of the first request rounds are arranged, which unsolicited or invalid
   blocks arrive) and compares the final tip with the one observed. *)
From Virel Require Import Lib.Config Lib.U64 Lib.CheckLib Lib.AMap Model.Ledger Model.Node Model.Sync Check.Hist.
Open Scope N_scope.
Open Scope bool_scope.

(* observation of one live node; hashes and digests are renumbered densely by the harness *)
Record lobs := mklobs { lo_top : N; lo_h : N; lo_cd : N; lo_staked : N; lo_dig : N }.

Definition lobs_eqb (a b : lobs) : bool :=
  (lo_top a =? lo_top b) && (lo_h a =? lo_h b) && (lo_cd a =? lo_cd b) && (lo_staked a =? lo_staked b).

(* the block table shared by the cases of one run *)
Record c11world := mkc11world {
  cw_genesis_addr : N; cw_team_key : N; cw_genesis : block;
  cw_blocks : list block;       (* valid blocks of the generated tree, by index (index 0 = genesis is not in the list: i -> nth (i-1)) *)
  cw_invalid : list block       (* decodable invalid blocks a scripted peer relays *)
}.

Record c11case := mkc11 {
  cc_world : c11world;
  cc_kind : N;                  (* 0 pair, 1 relay, 2 scripted peer, 3 triple *)
  cc_expect_sync : bool;        (* the node must end equal to the reference *)
  cc_expect_same : bool;        (* the node must end as it started (only invalid data was relayed); neither: only crash/race/deadlock/shutdown are judged *)
  cc_ref : list nat;            (* the heaviest chain some honest peer holds (tree indices, in order) *)
  cc_b : list nat;              (* what the node under observation (B) holds at the start *)
  cc_others : list (list nat);  (* initial chains of the other live nodes (A, then C) *)
  cc_script : list (arrangement * list nat * list nat);
                                (* logical faults of the first request rounds: arrangement of the answers, unsolicited valid blocks
                                   (tree indices), invalid blocks (indices into cw_invalid) *)
  cc_continue : bool;           (* after the script the peer answers faithfully (false for a peer that only relays invalid data) *)
  cc_now : N;
  (* observations *)
  cc_ref_obs : lobs;            (* a node fed the reference chain block by block without networking (or the peer A itself) *)
  cc_b0 : lobs; cc_b1 : lobs;   (* B before and after *)
  cc_others1 : list lobs;       (* the other live nodes after *)
  cc_crashed : bool; cc_deadlock : bool; cc_race : bool; cc_timeout : bool; cc_shutdown_ok : bool;
  cc_elapsed_ms : N; cc_attempts : N
}.

(* ---------------- the property predicate (on the implementation's observations only) ----------------
   codes: 1 node code crashed; 2 the lock-wait detector reported a potential deadlock; 3 the race detector reported
   a data race; 4 the node had not caught up when the time bound expired (after one retry); 5 final tip / height /
   cumulative difficulty / staked total differ from the reference; 6 same tip but the ledger dump differs;
   7 invalid relayed data changed the node; 8 shutdown did not complete; 9 another live node ended differently *)
Definition c11_pf (c : c11case) : N :=
  first_fail [
    (1, negb (cc_crashed c));
    (2, negb (cc_deadlock c));
    (3, negb (cc_race c));
    (4, negb (cc_expect_sync c && cc_timeout c));
    (5, negb (cc_expect_sync c) || lobs_eqb (cc_b1 c) (cc_ref_obs c));
    (6, negb (cc_expect_sync c) || (lo_dig (cc_b1 c) =? lo_dig (cc_ref_obs c)));
    (7, negb (cc_expect_same c) || (lobs_eqb (cc_b1 c) (cc_b0 c) && (lo_dig (cc_b1 c) =? lo_dig (cc_b0 c))));
    (9, negb (cc_expect_sync c) ||
        forallb (fun o => lobs_eqb o (cc_ref_obs c) && (lo_dig o =? lo_dig (cc_ref_obs c))) (cc_others1 c));
    (8, cc_shutdown_ok c)].

Definition c11_bad_prop (cfg : config) (cs : list c11case) : list (N * N) := bad_codes c11_pf cs 0.

(* ---------------- correspondence: the scheduler model on the same scenario ---------------- *)
Section Corr.
Variable cfg : config.
Variable c : c11case.

Notation w := (cc_world c).
Definition tblock (i : nat) : block := nth (pred i) (cw_blocks w) dummy_block.
Definition iblock (i : nat) : block := nth i (cw_invalid w) dummy_block.

Definition feed (n : node) (idx : list nat) : node :=
  fold_left (fun n i => fst (fst (deliver cfg (cw_genesis_addr w) (cw_team_key w) n (tblock i) (cc_now c)))) idx n.

Definition scripted (peer : node) (s : sync) : sync :=
  fold_left (fun s (r : arrangement * list nat * list nat) =>
               let '(a, extra, inv) := r in
               let s0 := recv_stats s (top_h peer) (top_cd peer) in
               sim_round cfg (cw_genesis_addr w) (cw_team_key w) peer s0 a (map tblock extra ++ map iblock inv) (cc_now c))
            (cc_script c) s.

(* final node of the model for B; None = genesis could not be built *)
Definition model_final : option (node * node) :=
  match node0 cfg (cw_genesis_addr w) (cw_genesis w) with
  | Ok n0 =>
      let peer := feed n0 (cc_ref c) in
      let b0 := feed n0 (cc_b c) in
      let s1 := scripted peer (sync0 b0) in
      let s2 := if cc_continue c
                then fst (sim cfg (cw_genesis_addr w) (cw_team_key w) 600 peer s1 [] (cc_now c))
                else s1 in
      Some (peer, sy_node s2)
  | _ => None
  end.

(* when B's chain is a prefix of the reference chain the scenario is an instance of the linear catch-up theorem
   (Proofs/Sync.v sync_linear): its executable premises are evaluated on the real blocks - the missing blocks form a
   chain of valid extension blocks with strictly growing cumulative difficulty on top of B's node, and B's height
   index has nothing above its tip *)
Fixpoint strip_prefix (p l : list nat) : option (list nat) :=
  match p, l with
  | [], _ => Some l
  | x :: p', y :: l' => if Nat.eqb x y then strip_prefix p' l' else None
  | _ :: _, [] => None
  end.

Definition linear_premises : bool :=
  match strip_prefix (cc_b c) (cc_ref c), node0 cfg (cw_genesis_addr w) (cw_genesis w) with
  | Some ext, Ok n0 =>
      let b0 := feed n0 (cc_b c) in
      linear_chain_b cfg (cw_genesis_addr w) b0 (map tblock ext) &&
      forallb (fun kv : N * N => fst kv <=? top_h b0) (topo b0)
  | _, _ => true
  end.

(* codes: 1 the model's final tip differs from the one observed on the real node; 2 height or cumulative difficulty
   differ; 3 the model of the reference peer differs from the observed reference; 9 genesis failed *)
Definition c11_corr : N :=
  if cc_crashed c || cc_timeout c || negb (cc_expect_sync c || cc_expect_same c) then 0   (* nothing to compare / the property predicate already fails *)
  else
    match model_final with
    | None => 9
    | Some (peer, b) =>
        first_fail [
          (4, linear_premises);
          (3, (top peer =? lo_top (cc_ref_obs c)) && (top_h peer =? lo_h (cc_ref_obs c)) && (top_cd peer =? lo_cd (cc_ref_obs c)));
          (1, top b =? lo_top (cc_b1 c));
          (2, (top_h b =? lo_h (cc_b1 c)) && (top_cd b =? lo_cd (cc_b1 c)) && (staked (ldg b) =? lo_staked (cc_b1 c)))]
    end.
End Corr.

Definition c11_bad_corr (cfg : config) (cs : list c11case) : list N :=
  bad_indices (fun c => c11_corr cfg c =? 0) cs 0.
