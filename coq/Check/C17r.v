(* C17, the JSON-RPC layer (family c17rpc): the answers of the node's real RPC server (get_info, get_transaction,
   get_block_by_height, get_block_by_hash, get_address, get_tx_list) after a delivery history, next to what the node's indexes
   hold after the same deliveries (the dump that family hist compares with the model: Check/C17.v).  The comparison of the
   two is done by the harness on strings (hashes, lists); Coq sees the verdicts and the numbers.  No separate model output:
   correspondence = sanity of the record, property = the wording of C17 on the RPC answers:
     CRInfo      reported height and top hash = the tip
     CRTx        a stored transaction is found, not as a coinbase, with the height of the main-chain block holding it and 0 if
                 it is in none; an id the node never stored is not found
     CRCoinbase  a block hash asked as a transaction id: found (as coinbase, with the block's height) iff the block is ON the
                 main chain - not for a stored block of another branch, below or ABOVE the tip
     CRByHeight  the block served for a height is the main-chain block at that height; nothing above the tip
     CRByHash    a block is served under its hash, with its height, iff it is on the main chain (the handler answers
                 "block is orphan" for stored blocks of other branches)
     CRList      the concatenated pages list as many entries as the account's counters say, and they are the numbered
                 histories, in order (get_address itself adds pending mempool transactions to last_nonce: not compared) *)
From Virel Require Import Lib.CheckLib Lib.Config.
Open Scope N_scope.
Open Scope bool_scope.

Inductive c17r_case :=
| CRInfo (exp_height rpc_height : N) (top_same : bool)
| CRTx (stored : bool) (exp_height : N) (found : bool) (rpc_height : N) (coinbase : bool)
| CRCoinbase (on_main : bool) (height : N) (found : bool) (rpc_height : N) (coinbase : bool)
| CRByHeight (h : N) (on_chain found same_hash : bool) (rpc_height : N)
| CRByHash (on_main : bool) (height : N) (found : bool) (rpc_height : N) (same_hash : bool)
| CRList (last_in last_out : N) (ok : bool) (listed_in listed_out : N) (in_same out_same : bool).

Definition c17r_corr (cfg : config) (c : c17r_case) : bool :=
  match c with
  | CRTx stored eh _ _ _ => stored || (eh =? 0)
  | CRCoinbase on_main h _ _ _ => on_main || (h =? 0)
  | _ => true
  end.

Definition c17r_prop (cfg : config) (c : c17r_case) : N :=
  match c with
  | CRInfo eh rh top_same => first_fail [(51, eh =? rh); (52, top_same)]
  | CRTx stored eh found rh coinbase =>
      first_fail [(53, Bool.eqb found stored); (54, implb found ((rh =? eh) && negb coinbase))]
  | CRCoinbase on_main h found rh coinbase =>
      first_fail [(55, Bool.eqb found on_main); (56, implb found ((rh =? h) && coinbase))]
  | CRByHeight h on_chain found same rh =>
      first_fail [(57, Bool.eqb found on_chain); (58, implb found (same && (rh =? h)))]
  | CRByHash on_main h found rh same =>
      first_fail [(59, Bool.eqb found on_main); (60, implb found (same && (rh =? h)))]
  | CRList li lo ok ri ro in_same out_same =>
      first_fail [(61, ok); (62, (ri =? li) && (ro =? lo)); (63, in_same); (64, out_same)]
  end.

Definition c17r_bad_corr (cfg : config) (l : list c17r_case) := bad_indices (c17r_corr cfg) l 0.
Definition c17r_bad_prop (cfg : config) (l : list c17r_case) := bad_codes (c17r_prop cfg) l 0.
