(* C06 - proof of stake, evaluated on the implementation's observations:
   - the published lottery result, lock heights, owner-only unstaking and the exact reward split are clauses of the
     rules replayed over the implementation's main chain (Spec/Rules.v, codes 1000+rule, and the comparison of the
     delegate records and the staked total with the implementation's dump);
   - a block the implementation accepts as staked carries a signature by the entitled delegate's owner over the block
     it is entitled by, and its weight in fork choice is full iff it is staked. *)
From Virel Require Import Lib.Config Lib.U64 Lib.CheckLib Lib.AMap Model.Emission Model.Ledger Model.Node
  Check.Hist Check.C01 Check.C17 Spec.Rules Check.C02 Spec.WellFormed.
Open Scope N_scope.
Open Scope bool_scope.

Section C06.
Variable cfg : config.

(* codes: 81 entitled delegate is not the one published by the block three earlier, 82 staked block without a valid
   owner signature over the entitling block, 83 staked block although nothing is staked,
   84 cumulative difficulty does not reflect full/half weight,
   85 the block names, as the block it is entitled by, a block that is not its third predecessor (open finding R13a) *)
Definition c06_pf (n0 n1 : node) (b : block) (now : N) (o : obs) : N :=
  let newly := match get_block n0 (b_hash b) with Some _ => false | None => true end in
  if negb (ob_acc o && newly && (0 <? b_version b)) then 0 else
  match get_block n0 (prev_hash b) with
  | None => 0
  | Some p =>
      let side := b_diff b * (2 * N.of_nat (length (b_sides b))) / 3 in
      let weight := if b_sig_blank b then (b_diff b + side) / 2 else b_diff b + side in
      let c84 := b_cd b =? b_cd p + weight in
      if negb (minidag_ancestors cfg <? b_height b) then (if c84 then 0 else 84) else
      let c81 := match get_block n0 (staked_hash b) with
                 | Some old => b_next_delegate_id old =? b_delegate_id b | None => false end in
      (* the signature can only be judged against the stake state when the block extends the current tip *)
      let c82 := if b_sig_blank b || negb (prev_hash b =? top n0) then true else
                 match get_dlg (ldg n0) (b_delegate_id b) with
                 | Some d => (b_sig_key b =? d_owner d) && negb (b_sig_key b =? 0) && (b_sig_msg b =? staked_hash b)
                 | None => false end in
      let c83 := if b_sig_blank b || negb (prev_hash b =? top n0) then true else negb (staked (ldg n0) =? 0) in
      let c85 := (anc_nth (real_ancestors p) 2 =? staked_hash b) in
      first_fail [(85, c85); (81, c81); (82, c82); (83, c83); (84, c84)]
  end.

Definition c06_hist (h : hist) : N :=
  let c := hist_prop cfg h c06_pf in
  if negb (c =? 0) then c else
  (* the rules replay: only the proof-of-stake clauses and the delegate/staked comparison are C06's *)
  let r := c02_hist cfg h in
  if (r =? 3) || (r =? 4) || (r =? 1071) || (r =? 1055) || (r =? 1054) || (r =? 1061) || (r =? 1062) || (r =? 1044)
  then r else 0.
End C06.

Definition c06_bad_corr (cfg : config) (hs : list hist) := hist_corr_detail cfg hs.
Definition c06_bad_prop (cfg : config) (hs : list hist) := bad_codes (c06_hist cfg) hs 0.
