(* C08: observation type, correspondence and property checkers evaluated on the implementation's observations. *)
From Coq Require Import Bool.
From Virel Require Import Lib.Config Lib.U64 Lib.U128 Lib.CheckLib Model.Difficulty.
Open Scope bool_scope.
Open Scope N_scope.

(* Go's observation: [Some v] = returned v, [None] = panicked (under recover) *)
Inductive c08_case :=
| CEma (st d : N) (go : option N)                     (* blockchain.difficultyEMA(st, d) *)
| CNext (h pts d gts : N) (go : option N)             (* Blockchain.GetNextDifficulty on a store holding the grandparent *)
| CMono (h pts pts' d gts : N) (go go' : option N)    (* the same at two parent timestamps pts <= pts' *)
| CTarget (d : N) (go : option N)                     (* uint128.Max.Div(d) *)
| CPow (val d : N) (go : option bool)                 (* block.ValidPowValue(val, d) *)
| CSide (d : N) (go : option N)                       (* d.Mul64(2).Div64(3) *)
| CGetTarget (d : N) (go : option N)                  (* util.GetTarget(d) *)
| CU128 (op a b : N) (go : option N).                 (* raw uint128 operation, see u128_op *)

Definition u128_op (op a b : N) : outcome N :=
  match op with
  | 0 => mul64 a b
  | 1 => div64 a b
  | 2 => mod64 a b
  | 3 => add a b
  | 4 => div a b
  | 5 => mod_ a b
  | 6 => sub a b
  | 7 => Ok (match cmp a b with CLt => 0 | CEq => 1 | CGt => 2 end)
  | 8 => Ok (match cmp64 a b with CLt => 0 | CEq => 1 | CGt => 2 end)
  | _ => Panic
  end.

Definition outcome_bool_eqb (a : outcome bool) (b : option bool) : bool :=
  match a, b with
  | Ok x, Some y => Bool.eqb x y
  | Panic, None => true
  | _, _ => false
  end.

Definition c08_corr (cfg : config) (c : c08_case) : bool :=
  match c with
  | CEma st d go => outcome_eqb (difficulty_ema cfg st d) go
  | CNext h pts d gts go => outcome_eqb (next_difficulty cfg h pts d gts) go
  | CMono h pts pts' d gts go go' =>
      outcome_eqb (next_difficulty cfg h pts d gts) go && outcome_eqb (next_difficulty cfg h pts' d gts) go'
  | CTarget d go => outcome_eqb (pow_target d) go
  | CPow val d go => outcome_bool_eqb (valid_pow_value val d) go
  | CSide d go => outcome_eqb (side_difficulty d) go
  | CGetTarget d go => outcome_eqb (get_target d) go
  | CU128 op a b go => outcome_eqb (u128_op op a b) go
  end.

(* ---- the property itself, decided on what the implementation returned; 0 = holds, else failed conjunct ---- *)
Definition two100 : N := 1267650600228229401496703205376.
Definition two62 : N := 4611686018427387904.

(* domain of the property: difficulties from the minimum to 2^100, consecutive (non-decreasing) timestamps below
   2^62 ms, heights whose expected time does not leave int64 *)
Definition in_domain (cfg : config) (h pts d gts : N) : bool :=
  (min_difficulty cfg <=? d) && (d <=? two100) && (gts <=? pts) && (pts <? two62) &&
  (h * (target_block_time cfg * 1000) + genesis_timestamp cfg <? two63).

Definition check_next (cfg : config) (h pts d gts : N) (go : option N) (base : N) : N :=
  match go with
  | None => base + 1                                                     (* no panic inside the domain *)
  | Some r => first_fail [
      (base + 2, min_difficulty cfg <=? r);                              (* never below the minimum *)
      (base + 3, negb (r =? 0));                                         (* never zero *)
      (base + 4, r =? spec_next cfg h pts d gts);                        (* exact rational formula rounded down *)
      (base + 5, r * (difficulty_n cfg - 1) <=? d * difficulty_n cfg)]   (* rise bound per block *)
  end.

Definition c08_prop (cfg : config) (c : c08_case) : N :=
  match c with
  | CEma st d go =>
      if (66 <=? st) && (st <=? two63) && (d <=? two100) then
        match go with
        | None => 11
        | Some r => first_fail [(12, r =? spec_ema cfg st d)]
        end
      else 0
  | CNext h pts d gts go =>
      if in_domain cfg h pts d gts then check_next cfg h pts d gts go 20 else 0
  | CMono h pts pts' d gts go go' =>
      if in_domain cfg h pts d gts && in_domain cfg h pts' d gts && (pts <=? pts') then
        match go, go' with
        | Some r, Some r' =>
            let c1 := check_next cfg h pts d gts go 30 in
            if negb (c1 =? 0) then c1 else
            let c2 := check_next cfg h pts' d gts go' 40 in
            if negb (c2 =? 0) then c2 else
            if r' <=? r then 0 else 50                                   (* never rises when the solve time grows *)
        | _, _ => 31
        end
      else 0
  | CTarget d go =>
      if (1 <=? d) && (d <? two128) then
        match go with Some t => first_fail [(61, t =? (two128 - 1) / d)] | None => 60 end
      else 0
  | CPow val d go =>
      if (1 <=? d) && (d <? two128) && (val <? two128) then
        match go with Some b => first_fail [(63, Bool.eqb b (val <=? (two128 - 1) / d))] | None => 62 end
      else 0
  | CSide d go =>
      if d <=? two100 then
        match go with Some t => first_fail [(65, t =? 2 * d / 3)] | None => 64 end
      else 0
  | CGetTarget d go =>
      (* only for difficulties below 2^64: see C08_get_target_refuted for the rest *)
      if (1 <=? d) && (d <? two64) then
        match go with Some t => first_fail [(67, t =? max_u64 / d)] | None => 66 end
      else 0
  | CU128 op a b go =>
      if (a <? two128) && (b <? two128) then
        match op, go with
        | 0, Some r => if b <? two64 then first_fail [(70, r =? a * b)] else 0
        | 0, None => if (b <? two64) && (a * b <? two128) then 71 else 0
        | 1, Some r => if b <? two64 then first_fail [(72, r =? a / b)] else 0
        | 1, None => if (b <? two64) && negb (b =? 0) then 73 else 0
        | 4, Some r => first_fail [(74, r =? a / b)]
        | 4, None => if negb (b =? 0) then 75 else 0
        | _, _ => 0
        end
      else 0
  end.

Definition c08_bad_corr cfg l := bad_indices (c08_corr cfg) l 0.
Definition c08_bad_prop cfg l := bad_codes (c08_prop cfg) l 0.
