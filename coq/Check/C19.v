(* C19: observation types, correspondence and property checkers evaluated on the implementation's observations. *)
From Coq Require Import Bool.
From Virel Require Import Lib.Config Lib.U64 Lib.CheckLib Lib.Pack Model.Ledger Model.Wallet.
Open Scope bool_scope.
Open Scope N_scope.

(* a transaction built by the Go wallet, transcribed by the harness (addresses and keys renumbered) *)
Record gotx := mkgotx {
  g_version : N; g_data : txdata; g_pids : list N; g_nonce : N; g_fee : N;
  g_signer_ok : bool;      (* Signer = the wallet's public key *)
  g_sig_ok : bool          (* VerifySignature(Signer, SignatureData(), Signature) *)
}.

(* outcome classes of one OpenWallet call *)
Definition O_OK_SAME : N := 0.
Definition O_OK_DIFF : N := 1.
Definition O_ERR : N := 2.
Definition O_PANIC : N := 3.
Definition O_CRASH : N := 4.   (* the process died: Go runtime out of memory under the harness' memory limit *)
Definition O_HANG : N := 5.    (* no answer within the time limit *)

Inductive c19_case :=
(* create -> mnemonic -> restore; Go's comparisons of the two wallets (and of the two files reopened) *)
| CRestore (gen : N) (same_priv same_addr same_pub same_mnem reopen_same : bool)
(* one OpenWallet: first min(24, len) bytes of the file, length of the file, header the file was written with,
   ciphertext bytes unchanged?, password the file was written with?, outcome class *)
| CFile (hdr : packed) (file_len : N) (orig_hdr : packed) (ct_same pw_same : bool) (go_outcome : N)
(* a file exactly as the wallet API wrote it (CreateWallet / CreateWalletFromMnemonic, default or fast parameters),
   opened with its own password: the 24 header bytes, the length, the outcome class *)
| CApi (hdr : packed) (file_len : N) (go_outcome : N)
(* one builder call: Prevalidate height, wallet state, request, the built transaction (None = builder error),
   builder panicked?, outcome of the real Prevalidate (0 ok, 1 error, 2 panic, 3 not run) *)
| CTx (height : N) (st : wstate) (rq : request) (go_tx : option gotx) (go_build_panic : bool) (go_prevalidate : N).

(* identifiers used by the harness: the wallet's key is 1, the team key 2, the right password 1, a wrong one 2,
   the private key stored in the file 7 *)
Definition c19_team_key : N := 2.
Definition c19_file_key : N := 7.
Definition c19_avail_kib : N := 4294967296.   (* the model is evaluated with no memory shortage: 4 TiB *)

Definition txdata_eqb (a b : txdata) : bool :=
  match a, b with
  | TTransfer o, TTransfer o' => list_eqb pair_eqb o o'
  | TRegister nl n i, TRegister nl' n' i' => (nl =? nl') && (n =? n') && (i =? i')
  | TSetDelegate n p, TSetDelegate n' p' => (n =? n') && (p =? p')
  | TStake a i u, TStake a' i' u' => (a =? a') && (i =? i') && (u =? u')
  | TUnstake a i, TUnstake a' i' => (a =? a') && (i =? i')
  | _, _ => false
  end.

Definition res_class {A} (r : res A) : N := match r with Ok _ => 0 | Err _ => 1 | Panic _ => 2 end.

(* the Go transaction as a [tx] of the ledger model *)
Definition tx_of_go (st : wstate) (g : gotx) : tx :=
  let signer := if g_signer_ok g then w_key st else 999 in
  mktx 0 (g_version g) signer (if g_sig_ok g then signer else 0) (g_sig_ok g) (w_key_invalid st)
       (g_data g) (g_nonce g) (g_fee g).

(* mnemonic model instantiated with numbers: any bijection does, the laws are what the theorems use *)
Definition toy_restore (e : N) : res (N * N * N) :=
  restore_wallet N N N N (fun m => Some (m - 1)) (fun e => 3 * e + 1) (fun k => 2 * k + 1)
                 (fst (fst (create_wallet N N N N (fun e => e + 1) (fun e => 3 * e + 1) (fun k => 2 * k + 1) e))).
Definition toy_same (e : N) : bool :=
  match toy_restore e with
  | Ok (m, k, a) => let '(m', k', a') := create_wallet N N N N (fun e => e + 1) (fun e => 3 * e + 1) (fun k => 2 * k + 1) e in
                    (m =? m') && (k =? k') && (a =? a')
  | _ => false
  end.

(* model outcome of a file case *)
Definition file_model (hdr : packed) (file_len : N) (orig_hdr : packed) (ct_same pw_same : bool) : N :=
  let c := match parse_file (unpack orig_hdr) 24 Junk with
           | WFile s0 t0 m0 _ => if ct_same then Sealed (Kdf 1 s0 t0 m0) 0 c19_file_key else Junk
           | WShort => Junk
           end in
  match open_wallet c19_avail_kib (parse_file (unpack hdr) file_len c) (if pw_same then 1 else 2) with
  | Ok k => if k =? c19_file_key then O_OK_SAME else O_OK_DIFF
  | Err _ => O_ERR
  | Panic _ => O_PANIC
  end.

Definition c19_corr (cfg : config) (c : c19_case) : bool :=
  match c with
  | CRestore e a b c d f => eqb (toy_same e) (a && b && c && d && f)
  | CFile hdr fl oh cs ps o => file_model hdr fl oh cs ps =? o
  | CApi hdr fl o => file_model hdr fl hdr true true =? o
  | CTx h st rq g bp pv =>
      negb bp &&
      match build cfg st rq, g with
      | Ok t, Some g =>
          (tx_version t =? g_version g) && txdata_eqb (tx_data t) (g_data g) && list_eqb N.eqb (built_pids rq) (g_pids g) &&
          (tx_nonce t =? g_nonce g) && (tx_fee t =? g_fee g) && g_signer_ok g && g_sig_ok g &&
          (res_class (prevalidate_tx cfg c19_team_key t h) =? pv) &&
          (res_class (prevalidate_tx cfg c19_team_key (tx_of_go st g) h) =? pv)
      | Err _, None => pv =? 3
      | _, _ => false
      end
  end.

Definition packed_eqb (a b : packed) : bool := list_eqb N.eqb (unpack a) (unpack b).

(* files whose cost parameters do not exceed those of a default wallet must open with their password *)
Definition must_open (orig_hdr : packed) : bool :=
  match parse_file (unpack orig_hdr) 24 Junk with
  | WFile _ t m _ => (1 <=? t) && (t <=? fst kdf_default) && (m <=? snd kdf_default)
  | WShort => false
  end.

(* the property, decided on what the implementation returned; 0 = holds, else failed conjunct:
   11 restored key differs, 12 address differs, 13 public key differs, 14 mnemonic differs, 15 reopened files differ;
   21 a file opened to a different key, 22 OpenWallet panicked, 23 the process died (out of memory), 24 no answer,
   25 a file opened although password, header or ciphertext had changed, 26 the intact file did not open with its password,
   27 a file written by the wallet API did not reopen with its password;
   31 the wallet refused an affordable request, 32 the node's Prevalidate refused the wallet's transaction,
   33 a builder or Prevalidate panicked *)
Definition c19_prop (cfg : config) (c : c19_case) : N :=
  match c with
  | CRestore _ a b c d f => first_fail [(11, a); (12, b); (13, c); (14, d); (15, f)]
  | CFile hdr fl oh cs ps o =>
      let intact := cs && ps && packed_eqb hdr oh in
      first_fail [(21, negb (o =? O_OK_DIFF)); (22, negb (o =? O_PANIC)); (23, negb (o =? O_CRASH)); (24, negb (o =? O_HANG));
                  (25, if o =? O_OK_SAME then intact else true);
                  (26, if intact && must_open oh then o =? O_OK_SAME else true)]
  | CApi hdr fl o => first_fail [(27, o =? O_OK_SAME)]   (* what the API wrote opens with its password to the same key *)
  | CTx h st rq g bp pv =>
      if bp || (pv =? 2) then 33
      else if in_domain cfg c19_team_key st rq && regime_ok cfg rq h then
        first_fail [(31, match g with Some _ => true | None => false end); (32, pv =? 0)]
      else 0
  end.

Definition c19_bad_corr cfg l := bad_indices (c19_corr cfg) l 0.
Definition c19_bad_prop cfg l := bad_codes (c19_prop cfg) l 0.
