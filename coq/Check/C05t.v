(* C05, the clock rule (family c05t): PrevalidateBlock's "not too far in the future" on blocks whose only possible defect is
   the timestamp.  The implementation reads its clock somewhere between the harness' two readings; the model's verdict
   (Model/Node.v prevalidate: b_ts <= now + future_time_limit * 1000, milliseconds) at the two readings brackets it.
   res: 0 accepted, 1 refused as too far in the future, 2 refused otherwise, 3 panicked. *)
From Virel Require Import Lib.CheckLib Lib.Config.
Open Scope N_scope.
Open Scope bool_scope.

Inductive c05t_case :=
| CFuture (ts now0 now1 res : N)
| CFutureSkip.

Definition too_far (cfg : config) (ts now : N) : bool := now + future_time_limit cfg * 1000 <? ts.

(* correspondence: where the model's verdict is the same at both clock readings the implementation's is that verdict *)
Definition c05t_corr (cfg : config) (c : c05t_case) : bool :=
  match c with
  | CFuture ts now0 now1 res =>
      (now0 <=? now1) &&
      (if Bool.eqb (too_far cfg ts now0) (too_far cfg ts now1)
       then (if too_far cfg ts now0 then res =? 1 else res =? 0) else true)
  | CFutureSkip => true
  end.

(* the property: a block further ahead of the node's clock than the limit is refused; one within the limit is not refused
   for its timestamp; never a crash *)
Definition c05t_prop (cfg : config) (c : c05t_case) : N :=
  match c with
  | CFuture ts now0 now1 res =>
      first_fail [(71, negb (res =? 3)); (72, negb (res =? 2));
                  (73, implb (too_far cfg ts now1) (res =? 1));      (* ahead of the limit even at the later reading *)
                  (74, implb (negb (too_far cfg ts now0)) (res =? 0))] (* within the limit already at the earlier reading *)
  | CFutureSkip => 0
  end.

Definition c05t_bad_corr (cfg : config) (l : list c05t_case) := bad_indices (c05t_corr cfg) l 0.
Definition c05t_bad_prop (cfg : config) (l : list c05t_case) := bad_codes (c05t_prop cfg) l 0.
