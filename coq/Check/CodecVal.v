(* Shared by Check/C13.v and Check/C12.v: the sum of all modelled value types, decoder ids, boolean equality. *)
From Virel Require Import Lib.Config Lib.CheckLib Lib.Pack Model.Des Model.Codec Model.CodecBlock.
Open Scope bool_scope.
Open Scope N_scope.

Definition B (p : packed) : list N := unpack p.

Inductive value :=
| VU64 (x : N)
| VBytes (b : list N)
| VOutput (o : output)
| VTx (t : tx)
| VState (s : state)
| VDelegate (d : delegate)
| VCommitment (c : commitment)
| VHeader (h : header)
| VBlock (b : block)
| VFull (b : block) (txs : list tx)       (* wire form: block without its id list + transactions *)
| VBlob (m : mining_blob)
| VStats (p : pstats)
| VBlockReq (p : pblockreq)
| VStakeSig (p : pstakesig)
| VHandshake (h : handshake)
| VPeers (l : list (N * list N)).

Definition bytes_eqb := list_eqb N.eqb.

Definition output_eqb (a b : output) : bool :=
  bytes_eqb (o_recipient a) (o_recipient b) && (o_payment_id a =? o_payment_id b) && (o_amount a =? o_amount b).

Definition txdata_eqb (a b : txdata) : bool :=
  match a, b with
  | Transfer x, Transfer y => list_eqb output_eqb x y
  | RegisterDelegate n i, RegisterDelegate n' i' => bytes_eqb n n' && (i =? i')
  | SetDelegate d p, SetDelegate d' p' => (d =? d') && (p =? p')
  | Stake a d p, Stake a' d' p' => (a =? a') && (d =? d') && (p =? p')
  | Unstake a d, Unstake a' d' => (a =? a') && (d =? d')
  | _, _ => false
  end.

Definition tx_eqb (a b : tx) : bool :=
  (tx_version a =? tx_version b) && bytes_eqb (tx_signer a) (tx_signer b) && bytes_eqb (tx_signature a) (tx_signature b)
  && txdata_eqb (tx_data a) (tx_data b) && (tx_nonce a =? tx_nonce b) && (tx_fee a =? tx_fee b).

Definition state_eqb (a b : state) : bool :=
  (st_balance a =? st_balance b) && (st_last_nonce a =? st_last_nonce b)
  && (st_last_incoming a =? st_last_incoming b) && (st_delegate_id a =? st_delegate_id b).

Definition fund_eqb (a b : fund) : bool :=
  bytes_eqb (f_owner a) (f_owner b) && (f_amount a =? f_amount b) && (f_unlock a =? f_unlock b).

Definition delegate_eqb (a b : delegate) : bool :=
  (dg_id a =? dg_id b) && bytes_eqb (dg_owner a) (dg_owner b) && bytes_eqb (dg_name a) (dg_name b)
  && list_eqb fund_eqb (dg_funds a) (dg_funds b).

Definition hid_eqb (a b : hashing_id) : bool := (hid_network a =? hid_network b) && bytes_eqb (hid_hash a) (hid_hash b).
Definition commitment_eqb (a b : commitment) : bool :=
  bytes_eqb (cm_base a) (cm_base b) && list_eqb bytes_eqb (cm_ancestors a) (cm_ancestors b)
  && (cm_timestamp a =? cm_timestamp b) && (cm_nonce a =? cm_nonce b) && bytes_eqb (cm_nonce_extra a) (cm_nonce_extra b)
  && list_eqb hid_eqb (cm_chains a) (cm_chains b).
Definition header_eqb (a b : header) : bool :=
  (hd_version a =? hd_version b) && (hd_height a =? hd_height b) && (hd_timestamp a =? hd_timestamp b)
  && (hd_nonce a =? hd_nonce b) && bytes_eqb (hd_nonce_extra a) (hd_nonce_extra b)
  && list_eqb hid_eqb (hd_chains a) (hd_chains b) && bytes_eqb (hd_recipient a) (hd_recipient b)
  && list_eqb bytes_eqb (hd_ancestors a) (hd_ancestors b) && list_eqb commitment_eqb (hd_side a) (hd_side b)
  && (hd_delegate a =? hd_delegate b) && (hd_next_delegate a =? hd_next_delegate b)
  && bytes_eqb (hd_stake_sig a) (hd_stake_sig b).
Definition block_eqb (a b : block) : bool :=
  header_eqb (bl_header a) (bl_header b) && (bl_diff a =? bl_diff b) && (bl_cumdiff a =? bl_cumdiff b)
  && list_eqb bytes_eqb (bl_txs a) (bl_txs b).
Definition blob_eqb (a b : mining_blob) : bool :=
  (mb_timestamp a =? mb_timestamp b) && (mb_nonce a =? mb_nonce b) && bytes_eqb (mb_nonce_extra a) (mb_nonce_extra b)
  && list_eqb hid_eqb (mb_chains a) (mb_chains b).
Definition peer_eqb (a b : N * list N) : bool := (fst a =? fst b) && bytes_eqb (snd a) (snd b).

Definition value_eqb (a b : value) : bool :=
  match a, b with
  | VU64 x, VU64 y => x =? y
  | VBytes x, VBytes y => bytes_eqb x y
  | VOutput x, VOutput y => output_eqb x y
  | VTx x, VTx y => tx_eqb x y
  | VState x, VState y => state_eqb x y
  | VDelegate x, VDelegate y => delegate_eqb x y
  | VCommitment x, VCommitment y => commitment_eqb x y
  | VHeader x, VHeader y => header_eqb x y
  | VBlock x, VBlock y => block_eqb x y
  | VFull x tx, VFull y ty => block_eqb x y && list_eqb tx_eqb tx ty
  | VBlob x, VBlob y => blob_eqb x y
  | VStats x, VStats y => (ps_height x =? ps_height y) && (ps_cumdiff x =? ps_cumdiff y) && bytes_eqb (ps_hash x) (ps_hash y)
  | VBlockReq x, VBlockReq y => (br_height x =? br_height y) && bytes_eqb (br_hash x) (br_hash y) && (br_count x =? br_count y)
  | VStakeSig x, VStakeSig y => (ss_delegate x =? ss_delegate y) && bytes_eqb (ss_hash x) (ss_hash y) && bytes_eqb (ss_signature x) (ss_signature y)
  | VHandshake x, VHandshake y => (hs_version x =? hs_version y) && (hs_p2p_version x =? hs_p2p_version y)
                                   && bytes_eqb (hs_peer_id x) (hs_peer_id y) && (hs_port x =? hs_port y)
  | VPeers x, VPeers y => list_eqb peer_eqb x y
  | _, _ => false
  end.

(* what Go returned *)
(* GSame: same value as the preceding observation of the case (the harness compares the printed terms) *)
Inductive gores := GOk (v : value) | GErr | GPanic | GSame.

Definition gores_eqb (a b : gores) : bool :=
  match a, b with
  | GOk x, GOk y => value_eqb x y
  | GErr, GErr => true
  | GPanic, GPanic => true
  | _, _ => false
  end.

Definition mmap {A Bt} (f : A -> Bt) (m : M A) : M Bt := a <- m ;; ret (f a).

Section Val.
Variable cfg : config.

(* decoder ids (the harness uses the same numbers) *)
Definition K_UVARINT : N := 1.
Definition K_BYTESLICE : N := 2.
Definition K_OUTPUT : N := 3.
Definition K_TX_V : N := 4.      (* Transaction.Deserialize(data, true) *)
Definition K_TX_0 : N := 5.      (* Transaction.Deserialize(data, false) *)
Definition K_STATE : N := 6.
Definition K_DELEGATE : N := 7.
Definition K_COMMITMENT : N := 8.
Definition K_HEADER : N := 9.
Definition K_BLOCK : N := 10.
Definition K_FULL : N := 11.       (* Block.DeserializeFull *)
Definition K_BLOB : N := 12.
Definition K_STATS : N := 13.
Definition K_BLOCKREQ : N := 14.
Definition K_STAKESIG : N := 15.
Definition K_HANDSHAKE : N := 16.
Definition K_FRAME : N := 17.      (* packet type of a decrypted frame *)
Definition K_STRATUM_NONCE : N := 19.   (* stratum submit line: the nonce parameter after hex decoding *)
Definition K_ADDPEER : N := 18.    (* P2P.OnAddPeerPacket; only panic / no panic is compared (net.ParseIP is outside the model) *)

(* stand-in for net.ParseIP(s) != nil when evaluating OnAddPeerPacket: dotted IPv4 shape *)
Definition ipv4_shape (s : list N) : bool :=
  forallb (fun c => ((48 <=? c) && (c <=? 57)) || (c =? 46)) s && (7 <=? blen s) && (blen s <=? 15).

Definition dec_by (k : N) : option (M value) :=
  if k =? K_UVARINT then Some (mmap VU64 (x <- read_uvarint ;; ret_err x))
  else if k =? K_BYTESLICE then Some (mmap VBytes (x <- read_byte_slice ;; ret_err x))
  else if k =? K_OUTPUT then Some (mmap VOutput (dec_output cfg))
  else if k =? K_TX_V then Some (mmap VTx (dec_tx cfg true))
  else if k =? K_TX_0 then Some (mmap VTx (dec_tx cfg false))
  else if k =? K_STATE then Some (mmap VState dec_state)
  else if k =? K_DELEGATE then Some (mmap VDelegate (dec_delegate cfg))
  else if k =? K_COMMITMENT then Some (mmap VCommitment (dec_commitment cfg))
  else if k =? K_HEADER then Some (mmap VHeader (dec_header cfg))
  else if k =? K_BLOCK then Some (mmap VBlock (dec_block cfg))
  else if k =? K_FULL then Some (mmap (fun p => VFull (fst p) (snd p)) (dec_full_block cfg))
  else if k =? K_BLOB then Some (mmap VBlob (dec_blob cfg))
  else if k =? K_STATS then Some (mmap VStats dec_pstats)
  else if k =? K_BLOCKREQ then Some (mmap VBlockReq dec_pblockreq)
  else if k =? K_STAKESIG then Some (mmap VStakeSig (dec_pstakesig cfg))
  else if k =? K_HANDSHAKE then Some (mmap VHandshake dec_handshake)
  else if k =? K_FRAME then Some (mmap VU64 dec_frame_type)
  else if k =? K_ADDPEER then Some (mmap VPeers (dec_add_peer ipv4_shape))
  else if k =? K_STRATUM_NONCE then Some (mmap VU64 stratum_nonce)
  else None.

Definition enc_val (v : value) : list N :=
  match v with
  | VU64 x => put_uvarint x
  | VBytes b => add_byte_slice b
  | VOutput o => enc_output o
  | VTx t => enc_tx t
  | VState s => enc_state s
  | VDelegate d => enc_delegate d
  | VCommitment c => enc_commitment c
  | VHeader h => enc_header h
  | VBlock b => enc_block b
  | VFull b txs => enc_full_block b txs
  | VBlob m => enc_blob m
  | VStats p => enc_pstats p
  | VBlockReq p => enc_pblockreq p
  | VStakeSig p => enc_pstakesig p
  | VHandshake h => enc_handshake h
  | VPeers l => concat (map (fun p => add_u16 (fst p) ++ add_byte_slice (snd p)) l)
  end.

(* stateless admission used by the re-encoding clause of C13 (blocks: non-zero difficulty) *)
Definition admitted (v : value) : bool :=
  match v with
  | VBlock b => negb (bl_diff b =? 0)
  | _ => true
  end.

Definition model_res (k : N) (bs : list N) : gores :=
  match dec_by k with
  | None => GErr
  | Some m => match run m bs with MOk v _ => GOk v | MErr _ => GErr | MPanic => GPanic end
  end.
Definition model_alloc (k : N) (bs : list N) : N :=
  match dec_by k with
  | None => 0
  | Some m => alloc_of (run m bs)
  end.

End Val.
