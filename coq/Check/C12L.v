(* C12, line families: case types, correspondence and property checkers for
     c12sc   merge-mining stratum client (stratumclient.Client.Start, blockchain.AddStratum) behind a fake stratum server
     c12ss   stratum server per-connection handler (blockchain.handleConn), whole lines
     c12rpc  JSON-RPC bodies to the node's RPC server
   The property predicates look at Go's observations only.  Allocation bound of the line families: encoding/json's
   scanner keeps state per open bracket (about 36 bytes per input byte on a line of brackets, measured), the readers
   have fixed buffers (10 KiB x 2 in the client, up to 64 KiB doubling in the server), a found block is handed to
   the chain inside the handler: 64 x input + 512 KiB (+ 16 x response size for an RPC answer). *)
From Virel Require Import Lib.Config Lib.CheckLib Lib.Pack Model.Des Model.Codec Model.CodecBlock Model.Address Model.Lines.
Open Scope bool_scope.
Open Scope N_scope.

Definition LINES_K : N := 64.
Definition LINES_C : N := 524288.

Definition ou (o : option packed) : option (list N) := match o with Some p => Some (unpack p) | None => None end.
Definition bytes_eqb2 := list_eqb N.eqb.

(* ------------------------------------------------------------------ c12sc *)
Inductive c12sc_job := SCJob (std_ok : bool) (blob target seed : option packed) (jobid : packed).
Inductive c12sc_line := SLEnd | SLSkip | SLJobLine (j : c12sc_job).

(* login: what encoding/json made of the login response (None: refused before any custom-typed field);
   lines: what it made of the following lines, in the order the reader meets them;
   paddable: the login line fits the client's read buffer, step 2 (AddStratum) was run iff step 1 accepted and paddable;
   a1: Client.Start  0 accepted 1 refused 2 panic 4 no return 5 process died;
   a2: AddStratum    0 returned, stream ended / reader refused a line  1 returned after refusing a job  2 panic  3 not run  4 no return;
   jobid diff net: the job the mergestratum entry holds when AddStratum returns;  sent alloc: bytes sent, bytes allocated *)
Inductive c12sc_case :=
| C12SC (login : option c12sc_job) (lines : list c12sc_line) (paddable : bool) (a1 a2 : N) (jobid : packed) (diff net sent alloc : N).

Definition conv_job (j : c12sc_job) : sc_job :=
  match j with SCJob s b t sd id => SCJobL s (ou b) (ou t) (ou sd) (unpack id) end.
Definition conv_line (l : c12sc_line) : sc_ev :=
  match l with SLEnd => EvEnd | SLSkip => EvSkip | SLJobLine j => EvJob (conv_job j) end.

Definition c12sc_corr (cfg : config) (c : c12sc_case) : bool :=
  match c with
  | C12SC login lines paddable a1 a2 jobid diff net sent alloc =>
      let m1 := sc_login (option_map conv_job login) in
      (a1 =? m1) &&
      match login with
      | Some lj =>
          if (m1 =? 0) && paddable then
            let '(cl, (jid, d, n)) := sc_run cfg sc_init (EvJob (conv_job lj) :: map conv_line lines) in
            (a2 =? cl) && ((cl =? 2) || (bytes_eqb2 jid (unpack jobid) && (d =? diff) && (n =? net)))
          else a2 =? 3
      | None => a2 =? 3
      end
  end.

Definition c12sc_prop (cfg : config) (c : c12sc_case) : N :=
  match c with
  | C12SC login lines paddable a1 a2 jobid diff net sent alloc =>
      first_fail [
        (1, negb (a1 =? 2) && negb (a2 =? 2));               (* no panic *)
        (2, negb (a1 =? 5));                                 (* the process keeps running *)
        (3, negb (a1 =? 4) && negb (a2 =? 4));               (* the call returns *)
        (4, alloc <=? LINES_K * sent + LINES_C)]             (* bounded allocation *)
  end.

Definition c12sc_bad_corr cfg l := bad_indices (c12sc_corr cfg) l 0.
Definition c12sc_bad_prop cfg l := bad_codes (c12sc_prop cfg) l 0.

(* ------------------------------------------------------------------ c12ss *)
(* phase 0: the line is the first of the connection; phase 1: it follows a valid login.
   json_ok / method / std_ok / login / nonce / blob / extra: what encoding/json made of the line (mirror structures);
   known: the submit names the job of the login response.
   go_class: 0 the handler returned, 2 panic, 4 no return, 5 process died; go_alive: the probe after the line was answered;
   go_nresp: response lines the line produced; go_result: the first of them carries a result *)
Inductive c12ss_case :=
| C12SS (phase : N) (json_ok : bool) (method : packed) (std_ok : bool) (login nonce : packed) (blob extra : option packed) (known : bool)
        (go_class : N) (go_alive : bool) (go_nresp : N) (go_result : bool) (sent alloc : N).

Definition line_out_matches (m : line_out) (go_class : N) (alive : bool) (nresp : N) : bool :=
  match m with
  | LPanic => go_class =? 2
  | LDrop r => (go_class =? 0) && negb alive && (nresp =? (if r then 1 else 0))
  | LKeep r => (go_class =? 0) && alive && (nresp =? (if r then 1 else 0))
  end.

Definition c12ss_corr (cfg : config) (c : c12ss_case) : bool :=
  match c with
  | C12SS phase json_ok method std_ok login nonce blob extra known go_class alive nresp result sent alloc =>
      if phase =? 0 then
        let m := srv_login cfg json_ok (unpack method) std_ok (unpack login) in
        line_out_matches m go_class alive nresp
        && match m with LKeep _ => result | LDrop _ => negb result | LPanic => true end   (* a job is sent iff the login is accepted *)
      else
        line_out_matches (srv_line cfg json_ok (unpack method) std_ok (unpack nonce) (ou blob) (ou extra) known) go_class alive nresp
  end.

Definition c12ss_prop (cfg : config) (c : c12ss_case) : N :=
  match c with
  | C12SS phase json_ok method std_ok login nonce blob extra known go_class alive nresp result sent alloc =>
      first_fail [
        (1, negb (go_class =? 2));
        (2, negb (go_class =? 5));
        (3, negb (go_class =? 4));
        (4, alloc <=? LINES_K * sent + LINES_C)]
  end.

Definition c12ss_bad_corr cfg l := bad_indices (c12ss_corr cfg) l 0.
Definition c12ss_bad_prop cfg l := bad_codes (c12ss_prop cfg) l 0.

(* ------------------------------------------------------------------ c12rpc *)
Inductive c12r_field := RFp (kind : N) (tok : option packed).
Definition RF' (kind : N) (tok : option packed) := RFp kind tok.

(* http: the request was a POST (C12R true), any other method but OPTIONS/HEAD (C12R false), or see below;
   status kind neg code: HTTP status, 0 result / 1 error object / 2 other body / 3 connection dropped without a response
   (a handler panic recovered by net/http) / 4 process died, sign and magnitude of the JSON-RPC error code *)
Inductive c12r_case :=
| C12Rg (http : N) (body_len : N) (json_ok : bool) (jsonrpc method : packed) (has_params std_ok : bool) (fields : list c12r_field)
        (addr ttype : packed) (status kind : N) (neg : bool) (code rlen alloc : N).

Definition conv_field (f : c12r_field) : rfield := match f with RFp k t => RF k (ou t) end.

(* the node of this family holds genesis + 4 blocks *)
Definition RPC_TOP : N := 4.

Definition c12r_corr (cfg : config) (c : c12r_case) : bool :=
  match c with
  | C12Rg http body_len json_ok jsonrpc method has_params std_ok fields addr ttype status kind neg code rlen alloc =>
      match rpc_expect cfg http body_len json_ok (unpack jsonrpc) (unpack method) has_params std_ok (map conv_field fields)
              (unpack addr) (unpack ttype) RPC_TOP with
      | RX st k ng cd => (status =? st) && (kind =? k) && (if k =? 1 then Bool.eqb neg ng && (code =? cd) else true)
      | RPass => (status =? 200) && ((kind =? 0) || ((kind =? 1) && negb (neg && ((code =? 32700) || (code =? 32600) || (code =? 32601)))))
      | RPanicX => (kind =? 3) || (kind =? 4)
      end
  end.

Definition c12r_prop (cfg : config) (c : c12r_case) : N :=
  match c with
  | C12Rg http body_len json_ok jsonrpc method has_params std_ok fields addr ttype status kind neg code rlen alloc =>
      first_fail [
        (1, negb (kind =? 3));                                           (* no handler panic *)
        (2, negb (kind =? 4));                                           (* the process keeps running *)
        (3, if http =? 0 then (kind =? 0) || (kind =? 1) else true);     (* a POST is answered with a result or an error *)
        (4, alloc <=? LINES_K * body_len + LINES_C + 16 * rlen)]
  end.

Definition c12r_bad_corr cfg l := bad_indices (c12r_corr cfg) l 0.
Definition c12r_bad_prop cfg l := bad_codes (c12r_prop cfg) l 0.
