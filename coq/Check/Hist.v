(* Histories of block deliveries to a real node: case type, model run, comparison of observables.
   Shared by the checkers of C01, C02, C03, C04, C05, C06, C10 and C17. *)
From Virel Require Import Lib.Config Lib.U64 Lib.CheckLib Lib.AMap Model.Emission Model.Ledger Model.Node.
Open Scope N_scope.
Open Scope bool_scope.

(* what the harness observes on the Go node after a delivery *)
Record obs := mkobs {
  ob_acc : bool;        (* the block is retrievable by hash afterwards *)
  ob_crash : bool;      (* the node code panicked *)
  ob_top : N; ob_top_h : N; ob_top_cd : N; ob_staked : N;
  ob_sum : N;           (* sum of all balances (uint64 arithmetic) *)
  ob_naccts : N;
  ob_commits : N;       (* database commits made by this delivery *)
  ob_notrace : bool;    (* no commit => the store is byte-identical to before (compared key by key by the harness) *)
  ob_skip : bool        (* this block was handed over inside a BATCH (several blocks queued for the validator's post-processor,
                           worked off lowest height first): the implementation is only observed after the last block of
                           the batch; the operations of a batch are listed in the order the post-processor takes them;
                           every member carries the observation made after the WHOLE batch, with ob_acc = this block is
                           retrievable then; the per-operation comparison with the model is made at the last member only *)
}.

Record dump := mkdump {
  dp_accts : list (N * acct);
  dp_dlgs : list dlg;
  dp_staked : N; dp_top : N; dp_top_h : N; dp_top_cd : N;
  dp_topo : list (N * N);
  dp_txh : list (N * N);
  dp_intx : list ((N * N) * N);
  dp_outtx : list ((N * N) * N)
}.

Inductive hop := HDeliver (blk : nat) (now : N) (o : obs) (d : option dump).

(* crash after operation [cr_op] (all commits up to then are in the store), restart, deliveries offered again from
   operation [cr_resume] on *)
Record crash := mkcrash {
  cr_op : N; cr_resume : N;
  cr_restart_err : bool;     (* start-up failed or panicked *)
  cr_restart : dump;         (* what the restarted node reports before any new delivery *)
  cr_final : dump            (* after the remaining deliveries *)
}.

Record hist := mkhist {
  h_genesis_addr : N;
  h_team_key : N;
  h_genesis : block;
  h_blocks : list block;       (* every generated block, referred to by index *)
  h_branch_valid : list bool;  (* per block: a builder node whose chain ends at its parent accepted it *)
  h_ops : list hop;
  h_fresh : option dump;       (* dump of a fresh Go node fed only the final main chain *)
  h_fresh_ok : bool;
  h_crashes : list crash;
  h_lmdb_ok : bool             (* when the history was also replayed over the real LMDB back-end: same final store *)
}.

(* ---------- projections of the model state ---------- *)
Definition sum_bal (l : ledger) : N := fold_left (fun s kv => wadd s (bal (snd kv))) (accts l) 0.

Definition obs_of (n : node) (acc crash : bool) : obs :=
  mkobs acc crash (top n) (top_h n) (top_cd n) (staked (ldg n)) (sum_bal (ldg n)) (N.of_nat (length (accts (ldg n)))) 0 true false.

Definition obs_eqb (a b : obs) : bool :=
  Bool.eqb (ob_acc a) (ob_acc b) && Bool.eqb (ob_crash a) (ob_crash b) && (ob_top a =? ob_top b) &&
  (ob_top_h a =? ob_top_h b) && (ob_top_cd a =? ob_top_cd b) && (ob_staked a =? ob_staked b) &&
  (ob_sum a =? ob_sum b).

Definition acct_eqb (a b : acct) : bool :=
  (bal a =? bal b) && (nonce a =? nonce b) && (inc a =? inc b) && (deleg a =? deleg b).
Definition get_or0 (m : list (N * acct)) (a : N) : acct := match nget m a with Some s => s | None => acct0 end.
(* accounts compared extensionally: an absent account is the all-zero account *)
Definition accts_eqb (m1 m2 : list (N * acct)) : bool :=
  forallb (fun kv => acct_eqb (snd kv) (get_or0 m2 (fst kv))) m1 &&
  forallb (fun kv => acct_eqb (snd kv) (get_or0 m1 (fst kv))) m2.

Definition fund_eqb (a b : fund) : bool := (f_owner a =? f_owner b) && (f_amt a =? f_amt b) && (f_unlock a =? f_unlock b).
(* funds compared as sets (owners are distinct) *)
Definition funds_eqb (f1 f2 : list fund) : bool :=
  (N.of_nat (length f1) =? N.of_nat (length f2)) &&
  forallb (fun f => match find_fund f2 (f_owner f) with Some g => fund_eqb f g | None => false end) f1.
Definition dlg_eqb (a b : dlg) : bool :=
  (d_id a =? d_id b) && (d_owner a =? d_owner b) && (d_name a =? d_name b) && funds_eqb (d_funds a) (d_funds b).
Definition dlgs_eqb (d1 d2 : list dlg) : bool :=
  (N.of_nat (length d1) =? N.of_nat (length d2)) &&
  forallb (fun d => existsb (fun e => dlg_eqb d e) d2) d1.

Definition nmap_sub {V} (veqb : V -> V -> bool) (m1 m2 : list (N * V)) : bool :=
  forallb (fun kv => match nget m2 (fst kv) with Some v => veqb (snd kv) v | None => false end) m1.
Definition nmap_eqb {V} (veqb : V -> V -> bool) (m1 m2 : list (N * V)) : bool := nmap_sub veqb m1 m2 && nmap_sub veqb m2 m1.

(* index entries above the live counters are dead (never read): only live entries are compared *)
Definition live_in (l : list (N * acct)) (e : (N * N) * N) : bool :=
  let '((a, i), _) := e in (1 <=? i) && (i <=? inc (get_or0 l a)).
Definition live_out (l : list (N * acct)) (e : (N * N) * N) : bool :=
  let '((a, i), _) := e in (1 <=? i) && (i <=? nonce (get_or0 l a)).
Definition pmap_sub (m1 m2 : list ((N * N) * N)) : bool :=
  forallb (fun kv => match pget m2 (fst kv) with Some v => snd kv =? v | None => false end) m1.

Definition dump_of (n : node) : dump :=
  mkdump (accts (ldg n)) (map snd (dlgs (ldg n))) (staked (ldg n)) (top n) (top_h n) (top_cd n) (topo n)
         (txh (ldg n)) (intx (ldg n)) (outtx (ldg n)).

(* tx heights: the model only records transactions it has applied; unknown = 0 *)
Definition txh_get (m : list (N * N)) (t : N) : N := match nget m t with Some h => h | None => 0 end.
Definition txh_eqb (m1 m2 : list (N * N)) : bool :=
  forallb (fun kv => snd kv =? txh_get m2 (fst kv)) m1 && forallb (fun kv => snd kv =? txh_get m1 (fst kv)) m2.

Definition dump_eqb (a b : dump) : bool :=
  accts_eqb (dp_accts a) (dp_accts b) && dlgs_eqb (dp_dlgs a) (dp_dlgs b) &&
  (dp_staked a =? dp_staked b) && (dp_top a =? dp_top b) && (dp_top_h a =? dp_top_h b) && (dp_top_cd a =? dp_top_cd b) &&
  nmap_eqb N.eqb (dp_topo a) (dp_topo b) && txh_eqb (dp_txh a) (dp_txh b) &&
  pmap_sub (filter (live_in (dp_accts a)) (dp_intx a)) (dp_intx b) &&
  pmap_sub (filter (live_in (dp_accts b)) (dp_intx b)) (dp_intx a) &&
  pmap_sub (filter (live_out (dp_accts a)) (dp_outtx a)) (dp_outtx b) &&
  pmap_sub (filter (live_out (dp_accts b)) (dp_outtx b)) (dp_outtx a).

(* the ledger part only (what C03 speaks about) *)
Definition ledger_dump_eqb (a b : dump) : bool :=
  accts_eqb (dp_accts a) (dp_accts b) && dlgs_eqb (dp_dlgs a) (dp_dlgs b) &&
  (dp_staked a =? dp_staked b) && (dp_top a =? dp_top b) && (dp_top_h a =? dp_top_h b) && (dp_top_cd a =? dp_top_cd b).

(* ---------- running the model over a history ---------- *)
Definition dummy_commit : commit := mkcommit 0 0 [] 0 0 false.
Definition dummy_block : block := mkblock 0 0 0 0 [] [] 0 0 0 true 0 0 0 0 [] [] 0 0 dummy_commit false.

Record runstate := mkrun {
  r_node : node;
  r_idx : N;
  r_bad : list (N * N);     (* correspondence: (op index, code) *)
  r_amb : bool;             (* fork choice was ambiguous at some point: later comparisons are not meaningful *)
  r_prop : list (N * N)     (* per-operation property predicate: (op index, code) *)
}.

Section Run.
Variable cfg : config.
Variable h : hist.
(* property predicate evaluated at every operation on the implementation's observation, with the model's
   node before and after as the reference store: 0 = holds *)
Variable pf : node -> node -> block -> N -> obs -> N.

Definition blk (i : nat) : block := nth i (h_blocks h) dummy_block.

Definition start : res node := node0 cfg (h_genesis_addr h) (h_genesis h).

(* one operation: run the model, compare with Go's observation. codes: 1 observation differs, 2 dump differs *)
Definition run_op (st : runstate) (op : hop) : runstate :=
  match op with
  | HDeliver i now o d =>
      let '(n1, out, amb) := deliver cfg (h_genesis_addr h) (h_team_key h) (r_node st) (blk i) now in
      let acc := match out with Accepted => true | _ => false end in
      let crash := match out with Crashed _ => true | _ => false end in
      let amb' := r_amb st || amb in
      let bad1 := if amb' || ob_skip o || obs_eqb (obs_of n1 (match get_block n1 (b_hash (blk i)) with Some _ => true | None => false end) crash) o
                  then [] else [(r_idx st, 1)] in
      let bad2 := match d with
                  | Some dd => if amb' || dump_eqb (dump_of n1) dd then [] else [(r_idx st, 2)]
                  | None => [] end in
      let pc := if amb' then 0 else pf (r_node st) n1 (blk i) now o in
      mkrun n1 (r_idx st + 1) (r_bad st ++ bad1 ++ bad2) amb'
            (if pc =? 0 then r_prop st else r_prop st ++ [(r_idx st, pc)])
  end.

Definition run_hist : option runstate :=
  match start with
  | Ok n0 => Some (fold_left run_op (h_ops h) (mkrun n0 0 [] false []))
  | _ => None
  end.

(* correspondence verdict for one history: list of (op index, code); code 9 = genesis failed *)
Definition hist_corr : list (N * N) :=
  match run_hist with
  | Some st => r_bad st
  | None => [(0, 9)]
  end.

(* property verdict for one history: first failing (op index, code), encoded 10000 * op + code; 0 = holds *)
Definition hist_prop : N :=
  match run_hist with
  | Some st => match r_prop st with [] => 0 | (op, c) :: _ => 10000 * op + c end
  | None => 0
  end.

End Run.

Definition no_pf : node -> node -> block -> N -> obs -> N := fun _ _ _ _ _ => 0.

Definition hist_bad_corr (cfg : config) (hs : list hist) : list N :=
  bad_indices (fun h => match hist_corr cfg h no_pf with [] => true | _ => false end) hs 0.

(* first disagreement of each bad history, for the replay file: (history index, 10 * op index + code) *)
Definition hist_corr_detail (cfg : config) (hs : list hist) : list (N * N) :=
  (fix go (l : list hist) (i : N) :=
     match l with
     | [] => []
     | h :: r => match hist_corr cfg h no_pf with
                 | [] => go r (i + 1)
                 | (op, c) :: _ => (i, 10 * op + c) :: go r (i + 1)
                 end
     end) hs 0.
