(* C15: case type (event script + what the real server answered), correspondence and the property evaluated on the
   server's own answers. *)
From Coq Require Import Bool.
From Virel Require Import Lib.Config Lib.CheckLib Lib.AMap Model.Stratum.
Open Scope bool_scope.
Open Scope N_scope.

(* what the harness observed for one event: the outcome in the model's vocabulary + whether the submitted nonce
   solves the blob the miner was given (proof of work of the real code on that blob, at the template's difficulty);
   GRefusedByChain = proof of work passed but the chain refused the block (duplicate, ...): the stratum model says
   OFound there, the chain's answer is not its subject. *)
Inductive gobs := GO (o : outcome) (solves : bool) | GRefusedByChain.

Record c15_case := mkcase { cs_steps : list (event * gobs) }.

Definition outcome_eqb (a b : outcome) : bool :=
  match a, b with
  | ONone, ONone | OLoginRefused, OLoginRefused | OUnknownJob, OUnknownJob | OMalformed, OMalformed
  | OBlobRefused, OBlobRefused | ORejectedLowDiff, ORejectedLowDiff | OPanic, OPanic => true
  | OJob j b, OJob j' b' => (j =? j') && blob_eqb b b'
  | OFound r b, OFound r' b' => (r =? r') && blob_eqb b b'
  | _, _ => false
  end.

(* ---- correspondence: the model, run on the script, answers what the server answered ----
   pow_ok: the cases are produced under the unittest configuration where the difficulty is 1 and every hash is a
   solution; the harness checks that with the real ValidPowHash and reports solves = true; a submission the server
   rejected for low difficulty therefore disagrees with the model. *)
Definition pow_true (b : blob) : bool := true.

Fixpoint corr_steps (cfg : config) (s : server) (l : list (event * gobs)) : bool :=
  match l with
  | [] => true
  | (e, g) :: r =>
      let '(s1, o) := step cfg pow_true s e in
      (match g with
       | GO go _ => outcome_eqb o go
       | GRefusedByChain => match o with OFound _ _ => true | _ => false end
       end) && corr_steps cfg s1 r
  end.

Definition c15_corr (cfg : config) (c : c15_case) : bool := corr_steps cfg init_server (cs_steps c).

(* ---- the property, on the server's answers only ----
   The miner's view (login address, jobs sent; Model/Stratum.v: mview, view_step, advertised) is rebuilt from the
   events and the server's answers; the model's state is not consulted. *)

Definition opt_hidv_eqb (a b : option hidv) : bool :=
  match a, b with Some x, Some y => hidv_eqb x y | None, None => true | _, _ => false end.

(* one step; returns 0 or the code of the sentence of C15 that fails:
   1 a job does not describe a block paying the login address
   2 a job within the advertised history is answered "unknown job"
   3 a nonce solving the sent blob is rejected for failing proof of work
   4 the submission was judged against another blob than the one sent with that job id
   5 the block produced pays another address than the login address
   7 the server crashed while handling the event (every job of every miner is gone)
   9 a job was sent to a connection that is not logged in *)
Definition prop_code (cfg : config) (vs : list (N * mview)) (e : event) (g : gobs) : N :=
  match e, g with
  | _, GO OPanic _ => 7
  | ELogin cid addr _, GO (OJob j b) _ => if pays cfg b addr then 0 else 1
  | ENotify cid _ _ _, GO (OJob j b) _ =>
      match nget vs cid with
      | Some v => if pays cfg b (mv_addr v) then 0 else 1
      | None => 9
      end
  | ESubmit cid jid (NBytes len n) x mb, g =>
      match nget vs cid with
      | Some v =>
          if len <? 4 then 0 else
          match advertised cfg v jid with
          | None => 0                                     (* not a job of this miner's advertised history *)
          | Some sent =>
              match g with
              | GO OUnknownJob _ => 2
              | GO ORejectedLowDiff solves => if solves then 3 else 0
              | GO (OFound r judged) _ =>
                  first_fail [
                    (4, match mb with
                        | MNone => blob_eqb judged (miner_blob sent n x)
                        | _ => opt_hidv_eqb (own_entry cfg judged) (own_entry cfg sent)
                        end);
                    (5, r =? mv_addr v)]
              | _ => 0
              end
          end
      | None => 0
      end
  | _, _ => 0
  end.

Definition gobs_outcome (g : gobs) : outcome :=
  match g with GO o _ => o | GRefusedByChain => ORejectedLowDiff (* any answer that leaves the view unchanged *) end.

Fixpoint prop_steps (cfg : config) (vs : list (N * mview)) (l : list (event * gobs)) : N :=
  match l with
  | [] => 0
  | (e, g) :: r =>
      let c := prop_code cfg vs e g in
      if c =? 0 then prop_steps cfg (view_step vs e (gobs_outcome g)) r else c
  end.

Definition c15_prop (cfg : config) (c : c15_case) : N := prop_steps cfg [] (cs_steps c).

Definition c15_bad_corr cfg l := bad_indices (c15_corr cfg) l 0.
Definition c15_bad_prop cfg l := bad_codes (c15_prop cfg) l 0.
