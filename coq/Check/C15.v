(* C15: case type (event script + what the real server answered), correspondence and the property evaluated on the
   server's own answers. *)
From Coq Require Import Bool.
From Virel Require Import Lib.Config Lib.CheckLib Lib.AMap Lib.U64 Model.Stratum.
Open Scope bool_scope.
Open Scope N_scope.

(* what the harness computed with the consensus proof-of-work function (randomvirel.PowHash keyed with GetSeed() of
   the blob that is hashed) for a submission: the blob the miner hashed - the blob it was sent, or the merge-mining
   blob it submits, completed with its nonce and extra nonce -, the seed number of that blob (block.GetSeedhashId of
   its timestamp) and the 128-bit value.  None: nothing was hashed (not a submission, or a configuration where the
   target is trivial); the value is then taken to be the largest one, which meets a target only if every value does. *)
Record powobs := mkpow { pw_blob : blob; pw_seed : N; pw_val : N }.

(* what the harness observed for one event: the outcome in the model's vocabulary + the proof-of-work observation;
   GRefusedByChain = proof of work passed but the chain refused the block (duplicate, timestamp too far ahead, ...):
   the stratum model says OFound there, the chain's answer is not its subject. *)
Inductive gobs := GO (o : outcome) (h : option powobs) | GRefusedByChain (h : option powobs).

Record c15_case := mkcase { cs_steps : list (event * gobs) }.

Definition gobs_pow (g : gobs) : option powobs := match g with GO _ h => h | GRefusedByChain h => h end.
Definition worst_val : N := two128 - 1.
Definition obs_val (h : option powobs) : N := match h with Some p => pw_val p | None => worst_val end.

Definition outcome_eqb (a b : outcome) : bool :=
  match a, b with
  | ONone, ONone | OLoginRefused, OLoginRefused | OUnknownJob, OUnknownJob | OMalformed, OMalformed
  | OBlobRefused, OBlobRefused | ORejectedLowDiff, ORejectedLowDiff | OPanic, OPanic => true
  | OJob j b t, OJob j' b' t' => (j =? j') && blob_eqb b b' && (t =? t')
  | OFound r b, OFound r' b' => (r =? r') && blob_eqb b b'
  | _, _ => false
  end.

(* ---- correspondence: the model, run on the script, answers what the server answered ----
   The model's proof-of-work function is the harness' observation: the value it computed for (seed, blob); any other
   (seed, blob) the model asks for - the model keys the hash with another seed or judges another blob than the one
   the miner hashed - gets the largest value, which fails every difficulty above 1.  Where nothing was hashed
   (unittest: difficulty 1, every value is a solution) every blob gets the largest value, which meets difficulty 1. *)
Definition pow_oracle (h : option powobs) (seed : N) (b : blob) : N :=
  match h with
  | Some p => if (seed =? pw_seed p) && blob_eqb b (pw_blob p) then pw_val p else worst_val
  | None => worst_val
  end.

Fixpoint corr_steps (cfg : config) (s : server) (l : list (event * gobs)) : bool :=
  match l with
  | [] => true
  | (e, g) :: r =>
      let '(s1, o) := step cfg (pow_oracle (gobs_pow g)) s e in
      (match g with
       | GO go _ => outcome_eqb o go
       | GRefusedByChain _ => match o with OFound _ _ => true | _ => false end
       end) && corr_steps cfg s1 r
  end.

Definition c15_corr (cfg : config) (c : c15_case) : bool := corr_steps cfg init_server (cs_steps c).

(* ---- the property, on the server's answers only ----
   The miner's view (login address, jobs sent with their targets; Model/Stratum.v: mview, view_step, advertised) is
   rebuilt from the events and the server's answers, together with the minimum difficulty of every template content
   the server announced; the model's state is not consulted. *)

Definition opt_hidv_eqb (a b : option hidv) : bool :=
  match a, b with Some x, Some y => hidv_eqb x y | None, None => true | _, _ => false end.

Record pstate := mkps { ps_views : list (N * mview); ps_tdiff : list (N * N) (* template content -> its minimum difficulty *) }.

(* the target sent with a job is the target of the minimum difficulty of the template that very job was made from
   (the template is named by the job's own blob) *)
Definition target_code (cfg : config) (ps : pstate) (b : blob) (t : N) : N :=
  match own_entry cfg b with
  | Some (Own tpl _) =>
      match nget (ps_tdiff ps) tpl with
      | Some md => match job_target md with Some t' => if t =? t' then 0 else 10 | None => 10 end
      | None => 11
      end
  | _ => 11
  end.

(* the blob a miner hashes for a submission *)
Definition hashed_blob (sent : blob) (n : N) (x : extra_in) (mb : mblob_in) : option blob :=
  match mb with
  | MNone => Some (miner_blob sent n x)
  | MBlob m => Some (miner_blob m n x)
  | MBad => None
  end.

(* the harness' proof-of-work observation is about that blob and about the seed of that blob's own timestamp *)
Definition powobs_ok (cfg : config) (h : option powobs) (hb : option blob) : bool :=
  match h, hb with
  | Some p, Some b => blob_eqb (pw_blob p) b && (pw_seed p =? blob_seed cfg b)
  | Some _, None => false
  | None, _ => true
  end.

(* one step; returns 0 or the code of the sentence of C15 that fails:
   1 a job does not describe a block paying the login address
   2 a job within the advertised history is answered "unknown job"
   3 a nonce is rejected for failing proof of work although the value of the blob the miner hashed, under the consensus
     proof-of-work function keyed with that blob's own seed, meets the target that was sent with the job
   4 the submission was judged against another blob than the one sent with that job id / the merge-mining blob submitted
   5 the block produced pays another address than the login address
   7 the server crashed while handling the event (every job of every miner is gone)
   9 a job was sent to a connection that is not logged in
   10 the target sent with a job is not the target of the minimum difficulty of the job's own template
   11 a job names a template content the server never announced
   12 outside the masterchain the minimum difficulty passed with a template is not the template's difficulty
   13 the proof-of-work observation of the harness is not about the blob the miner hashed / that blob's seed *)
Definition prop_code (cfg : config) (ps : pstate) (e : event) (g : gobs) : N :=
  let vs := ps_views ps in
  match e, g with
  | _, GO OPanic _ => 7
  | ETemplate _ _ _ _ d md, _ => if is_masterchain cfg || (d =? md) then 0 else 12
  | ELogin cid addr _, GO (OJob j b t) _ => first_fail [(1, pays cfg b addr); (target_code cfg ps b t, target_code cfg ps b t =? 0)]
  | ENotify cid _ _ _, GO (OJob j b t) _ =>
      match nget vs cid with
      | Some v => first_fail [(1, pays cfg b (mv_addr v)); (target_code cfg ps b t, target_code cfg ps b t =? 0)]
      | None => 9
      end
  | ESubmit cid jid (NBytes len n) x mb, g =>
      match nget vs cid with
      | Some v =>
          if len <? 4 then 0 else
          match advertised cfg v jid with
          | None => 0                                     (* not a job of this miner's advertised history *)
          | Some a =>
              let sent := a_sent a in
              if negb (powobs_ok cfg (gobs_pow g) (hashed_blob sent n x mb)) then 13 else
              match g with
              | GO OUnknownJob _ => 2
              | GO ORejectedLowDiff h => if meets_target (obs_val h) (a_target a) then 3 else 0
              | GO (OFound r judged) _ =>
                  first_fail [
                    (4, match mb with
                        | MNone => blob_eqb judged (miner_blob sent n x)
                        | MBlob m =>
                            (* the block is the job's own; a merge-mining blob that names the job's own hashing id
                               is reconstructed exactly (with the miner's nonce and extra nonce) *)
                            opt_hidv_eqb (own_entry cfg judged) (own_entry cfg sent)
                            && (negb (opt_hidv_eqb (own_entry cfg m) (own_entry cfg sent)) || blob_eqb judged (miner_blob m n x))
                        | MBad => false
                        end);
                    (5, r =? mv_addr v)]
              | _ => 0
              end
          end
      | None => 0
      end
  | _, _ => 0
  end.

Definition gobs_outcome (g : gobs) : outcome :=
  match g with GO o _ => o | GRefusedByChain _ => ORejectedLowDiff (* any answer that leaves the view unchanged *) end.

Definition pstate_step (ps : pstate) (e : event) (g : gobs) : pstate :=
  mkps (view_step (ps_views ps) e (gobs_outcome g))
       (match e with ETemplate tpl _ _ _ _ md => nset (ps_tdiff ps) tpl md | _ => ps_tdiff ps end).

Fixpoint prop_steps (cfg : config) (ps : pstate) (l : list (event * gobs)) : N :=
  match l with
  | [] => 0
  | (e, g) :: r =>
      let c := prop_code cfg ps e g in
      if c =? 0 then prop_steps cfg (pstate_step ps e g) r else c
  end.

Definition c15_prop (cfg : config) (c : c15_case) : N := prop_steps cfg (mkps [] []) (cs_steps c).

Definition c15_bad_corr cfg l := bad_indices (c15_corr cfg) l 0.
Definition c15_bad_prop cfg l := bad_codes (c15_prop cfg) l 0.
