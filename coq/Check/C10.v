(* C10 - every committed store state is a consistent chain; a crash loses whole blocks only.
   For crash points of each history (the store as committed after an operation), the implementation is started on
   a copy of that store and offered the later deliveries again (with overlap).  Checked on the implementation's dumps:
   the restarted node comes up, reports the state it had (tip exists, height index links genesis to the tip with
   nothing above it, ledger = replay of that chain by the rules, coins conserved), and ends on the same chain and ledger
   as the run that never crashed.  Refused deliveries leave no trace. *)
From Virel Require Import Lib.Config Lib.U64 Lib.CheckLib Lib.AMap Model.Emission Model.Ledger Model.Node
  Check.Hist Check.C01 Check.C17 Spec.Rules Check.C02 Check.C03.
Open Scope N_scope.
Open Scope bool_scope.

Section C10.
Variable cfg : config.
Variable h : hist.

Definition dump_at (i : N) : option dump :=
  match nth_error (h_ops h) (N.to_nat i) with Some (HDeliver _ _ _ d) => d | None => None end.

(* codes: 1 restart failed; 10+c17 code: height index of the restarted store is not a chain genesis..tip / indexes wrong;
   20+c01 code: coins not conserved in the restarted store; 30 / 1000+: ledger of the restarted store is not the rules'
   replay of its chain; 40 restarted node does not report the state that was committed; 50 after the remaining
   deliveries the restarted node ends on a different chain or ledger than the run that never crashed *)
Definition c10_crash (c : crash) : N :=
  if cr_restart_err c then 1 else
  let c17 := c17_dump cfg h (cr_restart c) in if negb (c17 =? 0) then 10 + c17 else
  let c01 := c01_dump cfg h (cr_restart c) in if negb (c01 =? 0) then 20 + c01 else
  let c02 := c02_dump cfg h (cr_restart c) in if negb (c02 =? 0) then (if c02 <? 1000 then 30 else c02) else
  let same := match dump_at (cr_op c) with Some d => dump_eqb d (cr_restart c) | None => true end in
  if negb same then 40 else
  match last_dump h with
  | Some d => if ledger_dump_eqb d (cr_final c) && nmap_eqb N.eqb (dp_topo d) (dp_topo (cr_final c)) then 0 else 50
  | None => 0
  end.

Definition c10_hist : N :=
  let amb := match run_hist cfg h no_pf with Some st => r_amb st | None => false end in
  if amb then 0 else
  let c := fold_left (fun acc cr => if negb (acc =? 0) then acc else c10_crash cr) (h_crashes h) 0 in
  if negb (c =? 0) then c else
  if negb (h_lmdb_ok h) then 70 else   (* the in-memory store and LMDB disagree after the same deliveries *)
  if existsb (fun op => match op with HDeliver _ _ o _ => (ob_commits o =? 0) && negb (ob_notrace o) end) (h_ops h) then 60
  else if existsb (fun op => match op with HDeliver _ _ o _ => 1 <? ob_commits o end) (h_ops h) then 61   (* one delivery = at most one commit *)
  else 0.
End C10.

Definition c10_bad_corr (cfg : config) (hs : list hist) := hist_corr_detail cfg hs.
Definition c10_bad_prop (cfg : config) (hs : list hist) := bad_codes (c10_hist cfg) hs 0.
