(* C02 - transactions move coins exactly as the rules say.  For every dump of the implementation's ledger, the
   main chain it reports is replayed through the declarative rules of Spec/Rules.v ([ledger_of_chain]); every
   transaction the implementation has on its main chain must be admitted by the rules, and the resulting ledger
   must equal the implementation's.  A refused delivery must leave no trace. *)
From Virel Require Import Lib.Config Lib.U64 Lib.CheckLib Lib.AMap Model.Emission Model.Ledger Model.Node
  Check.Hist Check.C01 Check.C17 Spec.Rules.
Open Scope N_scope.
Open Scope bool_scope.

Section C02.
Variable cfg : config.
Variable h : hist.

Definition lblocks_of (ch : list block) : list lblock :=
  (fix go (prev_lot : N) (bs : list block) : list lblock :=
     match bs with
     | [] => []
     | b :: r => to_lblock b prev_lot :: go (b_lottery b) r
     end) 0 ch.

(* codes: 1 the height index is not a chain of known blocks; 1000 + rule: a transaction/block on the implementation's
   main chain is not admitted by the rules (rule = clause number of Spec/Rules.v); 2 accounts differ from the rules'
   ledger; 3 delegate records / staked funds differ; 4 staked total differs; 5 a refused delivery left a trace *)
Definition c02_dump (d : dump) : N :=
  match chain_of h d with
  | None => 1
  | Some ch =>
      let '(c, l) := ledger_of_chain cfg (h_genesis_addr h) (h_team_key h) ledger0 (lblocks_of ch) in
      if negb (c =? 0) then 1000 + c else
      first_fail [
        (2, accts_eqb (accts l) (dp_accts d));
        (3, dlgs_eqb (map snd (dlgs l)) (dp_dlgs d));
        (4, staked l =? dp_staked d)]
  end.

Definition c02_hist : N :=
  (fix go (ops : list hop) : N :=
     match ops with
     | [] => 0
     | HDeliver _ _ o d :: r =>
         if (ob_commits o =? 0) && negb (ob_notrace o) then 5 else
         match d with
         | Some dd => let c := c02_dump dd in if c =? 0 then go r else c
         | None => go r
         end
     end) (h_ops h).
End C02.

Definition c02_bad_corr (cfg : config) (hs : list hist) := hist_corr_detail cfg hs.
Definition c02_bad_prop (cfg : config) (hs : list hist) := bad_codes (c02_hist cfg) hs 0.
