(* C17 - wallet-facing indexes match the main chain.  Evaluated on the implementation's dumps: the incoming and
   outgoing histories, transaction heights and the height index served by the Go node are compared with an
   independent replay of the main-chain content (events in chain order). *)
From Virel Require Import Lib.Config Lib.U64 Lib.CheckLib Lib.AMap Model.Emission Model.Ledger Model.Node Check.Hist Check.C01.
Open Scope N_scope.
Open Scope bool_scope.

Section C17.
Variable cfg : config.
Variable h : hist.

(* the main chain according to the dump's height index, lowest first; None if a listed block is unknown *)
Definition chain_of (d : dump) : option (list block) :=
  (fix go (n : nat) (ht : N) : option (list block) :=
     match n with
     | O => Some []
     | S k => match nget (dp_topo d) ht with
              | None => None
              | Some hash => match find_block h hash with
                             | None => None
                             | Some b => match go k (ht + 1) with Some r => Some (b :: r) | None => None end
                             end
              end
     end) (length (dp_topo d)) 0.

(* height index: heights 0..top_h exactly, every block at its height, linked by parent hash, ending at the tip *)
Fixpoint linked (prev : N) (ht : N) (bs : list block) : bool :=
  match bs with
  | [] => true
  | b :: r => (b_height b =? ht) && ((ht =? 0) || (prev_hash b =? prev)) && linked (b_hash b) (ht + 1) r
  end.

(* crediting events (recipient, id) and signing events (signer address, tx id) of one block, in application order *)
Definition tx_credits (t : tx) : list (N * N) :=
  match tx_data t with
  | TTransfer outs => map (fun o : N * N => (fst o, tx_id t)) outs
  | TRegister _ _ _ => [(burn_addr, tx_id t)]
  | TSetDelegate _ _ => []
  | TStake _ id _ => [(delegate_addr id, tx_id t)]
  | TUnstake _ _ => [(addr_of_key (tx_signer t), tx_id t)]
  end.
Definition cb_credits (b : block) : list (N * N) :=
  match coinbase cfg (b_version b) (negb (b_sig_blank b)) (reward cfg (b_height b) + fee_sum b) with
  | CbOuts outs => map (fun o : N * N =>
                          let ty := fst o in
                          ((if ty =? OUT_COINBASE_DEV then h_genesis_addr h
                            else if ty =? OUT_COINBASE_POW then b_recipient b
                            else if ty =? OUT_COINBASE_POS then delegate_addr (b_delegate_id b)
                            else burn_addr), b_hash b)) outs
  | CbPanic => []
  end.
Definition block_credits (b : block) : list (N * N) := flat_map tx_credits (b_txs b) ++ cb_credits b.
Definition block_signs (b : block) : list (N * N) := map (fun t => (addr_of_key (tx_signer t), tx_id t)) (b_txs b).

Definition events_for (a : N) (evs : list (N * N)) : list N := map snd (filter (fun e => fst e =? a) evs).

(* the numbered history the node serves for an address: entries 1..count of the index *)
Definition served (idx : list ((N * N) * N)) (a : N) (count : N) : list (option N) :=
  map (fun i => pget idx (a, N.of_nat i)) (seq 1 (N.to_nat count)).

Fixpoint opt_list_eqb (s : list (option N)) (e : list N) : bool :=
  match s, e with
  | [], [] => true
  | Some v :: s', y :: e' => (v =? y) && opt_list_eqb s' e'
  | _, _ => false
  end.

(* codes: 1 height index is not a linked chain genesis..tip, 2 an incoming history differs from the chain's crediting
   events, 3 an outgoing history differs from the transactions signed, 4 a transaction height is wrong *)
Definition c17_dump (d : dump) : N :=
  match chain_of d with
  | None => 1
  | Some ch =>
      let credits := flat_map block_credits ch in
      let signs := flat_map block_signs ch in
      let addrs := map fst (dp_accts d) in
      first_fail [
        (1, linked 0 0 ch && (N.of_nat (length ch) =? dp_top_h d + 1) &&
            (match nget (dp_topo d) (dp_top_h d) with Some t => t =? dp_top d | None => false end));
        (2, forallb (fun kv => opt_list_eqb (served (dp_intx d) (fst kv) (inc (snd kv))) (events_for (fst kv) credits)) (dp_accts d)
            && forallb (fun e => existsb (fun a => a =? fst e) addrs) credits);
        (3, forallb (fun kv => opt_list_eqb (served (dp_outtx d) (fst kv) (nonce (snd kv))) (events_for (fst kv) signs)) (dp_accts d)
            && forallb (fun e => existsb (fun a => a =? fst e) addrs) signs);
        (4, forallb (fun kv : N * N =>
                       let '(t, ht) := kv in
                       match find (fun b => existsb (fun x => tx_id x =? t) (b_txs b)) ch with
                       | Some b => ht =? b_height b
                       | None => ht =? 0
                       end) (dp_txh d))]
  end.

Definition c17_hist : N :=
  (fix go (ops : list hop) : N :=
     match ops with
     | [] => 0
     | HDeliver _ _ _ (Some d) :: r => let c := c17_dump d in if c =? 0 then go r else c
     | _ :: r => go r
     end) (h_ops h).
End C17.

Definition c17_bad_corr (cfg : config) (hs : list hist) := hist_corr_detail cfg hs.
Definition c17_bad_prop (cfg : config) (hs : list hist) := bad_codes (c17_hist cfg) hs 0.
