(* C15 on the masterchain build (family c15mm): a node that merge-mines other chains (scripted stand-ins), its real stratum
   server on loopback TCP, concurrent miners.  No model output to compare with - Model/Stratum.v covers the single-chain
   server, where the minimum difficulty of a job is the block's own - so the correspondence is the sanity of the record and
   the property is decided on what the miners and the merge-mined chains saw:
     CMmShare    per submitted share: the job's blob names this network exactly once, with the hashing id the advertised
                 template has for THIS miner's address (recomputed with the repository's block code), in a strictly ordered
                 chain list; a nonce solving the job's blob at the job's target, submitted while the job is among the
                 miner's last STRATUM_JOBS_HISTORY jobs, is answered OK - never "does not match minimum difficulty",
                 whatever the merge-mined chains have done since the job went out (flag stale: their recorded difficulties
                 have moved above this share) and whatever they answer to the forwarded solution;
     CMmForwards per scenario: the number of blobs forwarded to a merge-mined chain that no miner was given (must be 0:
                 a share is judged against the very blob of its job). *)
From Virel Require Import Lib.CheckLib Lib.Config Model.StratumMM.
Open Scope N_scope.
Open Scope bool_scope.

Inductive c15mm_case :=
| CMmShare (scenario chains : N) (own_ok sorted_ok in_history replied_ok pow_rejected stale : bool)
           (job_diff now_before now_after pow : N)   (* difficulty of the job's target; easiest difficulty recorded for a chain just
                                                         before / after the submit (0 = none); the share's 128-bit value *)
| CMmForwards (scenario alien : N).

Definition c15mm_corr (cfg : config) (c : c15mm_case) : bool :=
  match c with
  | CMmShare _ chains _ _ in_history replied_ok pow_rejected stale jd nb na pow =>
      (1 <=? chains) && (chains <? 16) && negb (replied_ok && pow_rejected) &&
      (* the harness' flag: the chains' recorded difficulties have moved above this share *)
      Bool.eqb stale (negb (mm_meets pow nb && mm_meets pow na)) &&
      (* the model of the repaired code (own difficulty = mainnet's minimum, never met by these shares): the verdict on a
         share of a job in the history is low-diff iff the model says so; the two readings of the chains' difficulties
         bracket the one the node used *)
      implb (in_history && (nb =? na))
            (Bool.eqb pow_rejected (match mm_judge (min_difficulty cfg) jd [nb] pow with VLowDiff => true | _ => false end))
  | CMmForwards _ _ => true
  end.

Definition c15mm_prop (cfg : config) (c : c15mm_case) : N :=
  match c with
  | CMmShare _ _ own_ok sorted_ok in_history replied_ok pow_rejected stale _ _ _ _ =>
      first_fail [(41, own_ok); (42, sorted_ok);
                  (43, implb in_history (negb pow_rejected));     (* never rejected for failing proof of work *)
                  (44, implb in_history replied_ok)]
  | CMmForwards _ alien => first_fail [(45, alien =? 0)]
  end.

Definition c15mm_bad_corr (cfg : config) (l : list c15mm_case) := bad_indices (c15mm_corr cfg) l 0.
Definition c15mm_bad_prop (cfg : config) (l : list c15mm_case) := bad_codes (c15mm_prop cfg) l 0.
