(* C16: observation type, correspondence and property checkers evaluated on the implementation's observations.
   32-byte hashes and other byte strings are renumbered densely by the harness (H := N); network ids stay uint64.
   A chain list is packed as 11 bytes per entry: network id (8, little endian), dense hash id (3). *)
From Coq Require Import Bool.
From Virel Require Import Lib.Config Lib.U64 Lib.CheckLib Lib.Pack Model.MergeMining.
Open Scope bool_scope.
Open Scope N_scope.

Notation blk := (block N).
Notation hidN := (hashing_id N).

Fixpoint le_bytes (l : list N) : N := match l with [] => 0 | b :: r => b + 256 * le_bytes r end.

Fixpoint dec_chains_bytes (fuel : nat) (l : list N) : list hidN :=
  match fuel with
  | O => []
  | S f =>
    match l with
    | b0 :: b1 :: b2 :: b3 :: b4 :: b5 :: b6 :: b7 :: h0 :: h1 :: h2 :: r =>
        (le_bytes [b0; b1; b2; b3; b4; b5; b6; b7], le_bytes [h0; h1; h2]) :: dec_chains_bytes f r
    | _ => []
    end
  end.
Definition dec_chains (p : packed) : list hidN := let l := unpack p in dec_chains_bytes (length l) l.

Definition hid_eqb (a b : hidN) : bool := (fst a =? fst b) && (snd a =? snd b).
Definition chains_eqb (a b : list hidN) : bool := list_eqb hid_eqb a b.

(* flat constructor used by the cases files *)
Definition fb (v h ts n ne : N) (others : packed) (rc a0 a1 a2 sb did nd sg diff cd txs : N) : blk :=
  mkblock N v h ts n ne (dec_chains others) rc [a0; a1; a2] sb did nd sg diff cd txs.

Inductive c16_case :=
| CSet (own : N)                                  (* dense id of the hash of the job's own hashing id *)
       (m_ts m_n m_ne : N) (m_ch : packed)        (* the blob handed to setMiningBlob *)
       (dec : N)   (* MiningBlob.Deserialize of the blob's bytes: 0 = the same value, 1 = refused, 2 = another value, 3 = panic *)
       (res : N)                                  (* 0 = nil, 1 = error, 2 = panic *)
       (a_ts a_n a_ne : N) (a_others : packed)    (* timestamp, nonce, nonce extra, OtherChains of the job afterwards *)
       (rest_same : bool)                         (* every other field of the job is unchanged *)
       (recon : N)   (* job.Commitment().MiningBlob() afterwards: 0 = same bytes as the blob, 1 = differs, 2 = panic, 3 = not evaluated (res <> 0) *)
       (pure : bool) (* computing that blob left job.OtherChains as it was *)
| CSort (which : N) (l : packed) (own : N) (res : option packed) (pure : bool)
       (* which = 0: Block.SortOtherChains on l; which = 1: Commitment{OtherChains: l}.MiningBlob().Chains with own
          hashing id hash [own]; None = panic; pure: the input slice still holds l afterwards (which = 1) *)
| CMask (b1 b2 : blk) (base_eq hid_eq hash_eq : bool) (blob_eq : N) (pv1 pv2 : N).
       (* two blocks: BaseHash equal, HashingID equal, Block.Hash equal; blob_eq: 0 = MiningBlob().Serialize() differ,
          1 = equal, 2 = a blob computation panicked; pv: PrevalidateBlock 0 = nil, 1 = error, 2 = not observed, 3 = panic *)

Section Checks.
Variable cfg : config.
Notation own_net := (network_id cfg).

Definition dummy_job : blk := mkblock N 0 0 0 0 0 [] 0 [] 0 0 0 0 0 0 0.

(* ---- predicates on a blob's chain list, written directly (the reference for the property) ---- *)
Fixpoint strictly_ascending (l : list hidN) : bool :=
  match l with
  | a :: ((b :: _) as r) => (fst a <? fst b) && strictly_ascending r
  | _ => true
  end.
Definition count_net (n : N) (l : list hidN) : nat := length (filter (fun v => fst v =? n) l).
Definition others_of (l : list hidN) : list hidN := filter (fun v => negb (fst v =? own_net)) l.
Fixpoint nodup_hashes (l : list hidN) : bool :=
  match l with [] => true | v :: r => negb (existsb (fun w => snd w =? snd v) r) && nodup_hashes r end.

(* strictly ascending with this network's entry present, no two other chains with the same hash *)
Definition blob_wellformed (ch : list hidN) : bool :=
  strictly_ascending ch && Nat.eqb (count_net own_net ch) 1 && nodup_hashes (others_of ch).
(* ... and this network's entry is the job's hashing id *)
Definition blob_valid (own : N) (ch : list hidN) : bool :=
  blob_wellformed ch && existsb (fun v => hid_eqb v (own_net, own)) ch.

Definition c16_corr (c : c16_case) : bool :=
  match c with
  | CSet own m_ts m_n m_ne m_ch dec res a_ts a_n a_ne a_others rest_same recon pure =>
      let m := mkblob N m_ts m_n m_ne (dec_chains m_ch) in
      (* the codec accepts exactly the blobs with 1..MAX_MERGE_MINED_CHAINS entries (byte-level model: C13) *)
      (dec =? (if (1 <=? N.of_nat (length (dec_chains m_ch))) && (N.of_nat (length (dec_chains m_ch)) <=? max_mm_chains cfg) then 0 else 1)) &&
      match set_mining_blob cfg N N.eqb dummy_job m with
      | SmbErr => res =? 1
      | SmbOk b' =>
          (res =? 0) && (b_timestamp N b' =? a_ts) && (b_nonce N b' =? a_n) && (b_nonce_extra N b' =? a_ne) &&
          chains_eqb (b_other_chains N b') (dec_chains a_others) && rest_same && pure &&
          match mining_blob_with N (own_net, own) b' with
          | None => recon =? 2
          | Some m' =>
              if (m_timestamp N m' =? m_ts) && (m_nonce N m' =? m_n) && (m_nonce_extra N m' =? m_ne) &&
                 chains_eqb (m_chains N m') (m_chains N m)
              then recon =? 0 else recon =? 1
          end
      end
  | CSort which l own res pure =>
      let inp := if which =? 0 then dec_chains l else dec_chains l ++ [(own_net, own)] in
      pure &&
      match sort_chains N inp, res with
      | Some s, Some r => chains_eqb s (dec_chains r)
      | None, None => true
      | _, _ => false
      end
  | CMask b1 b2 base_eq hid_eq hash_eq blob_eq pv1 pv2 =>
      (* under injectivity of the two hash functions, equality of hashes is equality of what is hashed *)
      let base_m := block_eqb N N.eqb (ser_norm N (base_mask N b1)) (ser_norm N (base_mask N b2)) in
      let hid_m := base_m && list_eqb N.eqb (b_ancestors N b1) (b_ancestors N b2) in
      let hash_m := block_eqb N N.eqb (ser_norm N b1) (ser_norm N b2) in
      let own1 := (own_net, 16777215) in
      let own2 := (own_net, if hid_m then 16777215 else 16777214) in
      let blob_m :=
        match mining_blob_with N own1 b1, mining_blob_with N own2 b2 with
        | Some m1, Some m2 =>
            if (m_timestamp N m1 =? m_timestamp N m2) && (m_nonce N m1 =? m_nonce N m2) &&
               (m_nonce_extra N m1 =? m_nonce_extra N m2) && chains_eqb (m_chains N m1) (m_chains N m2) then 1 else 0
        | _, _ => 2
        end in
      let pv_ok (b : blk) (pv : N) :=
        (pv =? 2) || (if validated_other_chains cfg N N.eqb (b_other_chains N b) then pv =? 0 else pv =? 1) in
      eqb base_m base_eq && eqb hid_m hid_eq && eqb hash_m hash_eq && (blob_m =? blob_eq) && pv_ok b1 pv1 && pv_ok b2 pv2
  end.

(* two blocks that differ at most in the stake signature and the next delegate id *)
Definition same_but_ps (b1 b2 : blk) : bool :=
  let clear (b : blk) := mkblock N (b_version N b) (b_height N b) (b_timestamp N b) (b_nonce N b) (b_nonce_extra N b)
                           (b_other_chains N b) (b_recipient N b) (b_ancestors N b) (b_side_blocks N b)
                           (b_delegate_id N b) 0 0 (b_difficulty N b) (b_cumulative_diff N b) (b_txs N b) in
  block_eqb N N.eqb (clear b1) (clear b2).

(* the property, decided on what the implementation returned; 0 = holds, else the failed conjunct *)
Definition c16_prop (c : c16_case) : N :=
  match c with
  | CSet own m_ts m_n m_ne m_ch dec res a_ts a_n a_ne a_others rest_same recon pure =>
      let ch := dec_chains m_ch in
      first_fail [
        (1, negb (res =? 2) && negb (recon =? 2));                       (* no panic *)
        (* a valid blob is reconstructed exactly: no error, same timestamp and nonces, the other chains in order,
           nothing else touched, and the blob of the resulting block is the blob that was mined *)
        (2, implb (blob_valid own ch)
              ((res =? 0) && (a_ts =? m_ts) && (a_n =? m_n) && (a_ne =? m_ne) &&
               chains_eqb (dec_chains a_others) (others_of ch) && rest_same && (recon =? 0)));
        (* computing the blob does not disturb the block *)
        (3, implb (res =? 0) pure);
        (* a chain list that is not strictly ascending (which includes duplicate network ids), lacks this network,
           or repeats a hash among the other chains is refused by setMiningBlob *)
        (4, implb (negb (blob_wellformed ch)) (res =? 1));
        (* this network's entry is not the job's hashing id: the work is not credited
           (setMiningBlob may accept, but the block's own blob then differs from the mined one) *)
        (5, implb (negb (blob_valid own ch)) (negb ((res =? 0) && (recon =? 0))));
        (* the solved blob arrives as bytes: with this chain's entry and 0..MAX-1 other chains it is decoded to itself *)
        (6, negb (dec =? 3) && negb (dec =? 2) &&
            implb (blob_valid own ch && (N.of_nat (length ch) <=? max_mm_chains cfg)) (dec =? 0))]
  | CSort which l own res pure =>
      let inp := if which =? 0 then dec_chains l else dec_chains l ++ [(own_net, own)] in
      first_fail [
        (11, pure);
        (* the result is strictly ordered, one entry per network, same entries as the input *)
        (12, match res with
             | Some r => let r := dec_chains r in
                         strictly_ascending r && Nat.eqb (length r) (length inp) &&
                         forallb (fun v => existsb (hid_eqb v) r) inp
             | None => true end);
        (* it panics only on a repeated network id *)
        (13, match res with
             | None => negb (forallb (fun v => Nat.eqb (count_net (fst v) inp) 1) inp)
             | Some _ => true end)]
  | CMask b1 b2 base_eq hid_eq hash_eq blob_eq pv1 pv2 =>
      first_fail [
        (* same proof-of-work input => same block, except for stake signature and next delegate id *)
        (31, implb ((blob_eq =? 1) && negb hash_eq) (same_but_ps b1 b2));
        (* ... and those two are indeed left out: they do not change the proof-of-work input *)
        (32, implb (same_but_ps b1 b2 && negb (blob_eq =? 2)) (blob_eq =? 1))]
  end.
End Checks.

Definition c16_bad_corr cfg l := bad_indices (c16_corr cfg) l 0.
Definition c16_bad_prop cfg l := bad_codes (c16_prop cfg) l 0.
