(* C01 - conservation, evaluated on the implementation's own observations (independent of the model's ledger). *)
From Virel Require Import Lib.Config Lib.U64 Lib.CheckLib Lib.AMap Model.Emission Model.Ledger Model.Node Check.Hist.
Open Scope N_scope.
Open Scope bool_scope.

Section C01.
Variable cfg : config.

Definition total_of (d : dlg) : N := fold_left (fun s f => s + f_amt f) (d_funds d) 0.

(* coins sent directly to the pool address of delegate [id] by the block: miner reward and transfer outputs *)
Definition fee_sum (b : block) : N := fold_left (fun s t => s + tx_fee t) (b_txs b) 0.
Definition direct_of_block (id : N) (b : block) : N :=
  let from_cb :=
    match coinbase cfg (b_version b) (negb (b_sig_blank b)) (reward cfg (b_height b) + fee_sum b) with
    | CbOuts outs => fold_left (fun s (o : N * N) =>
                                  if (fst o =? OUT_COINBASE_POW) && (b_recipient b =? delegate_addr id) then s + snd o else s) outs 0
    | CbPanic => 0
    end in
  let from_tx :=
    fold_left (fun s t => match tx_data t with
                          | TTransfer outs => fold_left (fun s2 (o : N * N) => if fst o =? delegate_addr id then s2 + snd o else s2) outs s
                          | _ => s end) (b_txs b) 0 in
  from_cb + from_tx.

Definition find_block (h : hist) (hash : N) : option block :=
  if hash =? b_hash (h_genesis h) then Some (h_genesis h)
  else find (fun b => b_hash b =? hash) (h_blocks h).

Definition direct_of_chain (h : hist) (d : dump) (id : N) : N :=
  fold_left (fun s (kv : N * N) => match find_block h (snd kv) with Some b => s + direct_of_block id b | None => s end) (dp_topo d) 0.

(* codes: 1 sum of balances <> scheduled supply, 2 supply above maximum, 3 staked total <> sum over pools,
   4 a pool account <> its funds + direct coins, 5 a rejected delivery changed the observable state *)
Definition c01_obs (o : obs) : N :=
  first_fail [(1, ob_sum o =? supply_fast cfg (ob_top_h o)); (2, ob_sum o <=? max_supply cfg)].

Definition c01_dump (h : hist) (d : dump) : N :=
  first_fail [
    (1, fold_left (fun s kv => s + bal (snd kv)) (dp_accts d) 0 =? supply_fast cfg (dp_top_h d));
    (3, dp_staked d =? fold_left (fun s x => s + total_of x) (dp_dlgs d) 0);
    (4, forallb (fun x => bal (get_or0 (dp_accts d) (delegate_addr (d_id x))) =? total_of x + direct_of_chain h d (d_id x)) (dp_dlgs d))].

Definition c01_hist (h : hist) : N :=
  (fix go (ops : list hop) (prev : option obs) : N :=
     match ops with
     | [] => 0
     | HDeliver _ _ o d :: r =>
         let c1 := c01_obs o in
         if negb (c1 =? 0) then c1 else
         let c2 := match d with Some dd => c01_dump h dd | None => 0 end in
         if negb (c2 =? 0) then c2 else
         let c3 := if (ob_commits o =? 0) && negb (ob_notrace o) then 5 else 0 in
         if negb (c3 =? 0) then c3 else go r (Some o)
     end) (h_ops h) None.

End C01.

Definition c01_bad_corr (cfg : config) (hs : list hist) := hist_corr_detail cfg hs.
Definition c01_bad_prop (cfg : config) (hs : list hist) := bad_codes (c01_hist cfg) hs 0.
