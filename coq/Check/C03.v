(* C03 - the ledger is a function of the main chain: the node's final ledger equals that of a fresh
   implementation node fed only the final main chain (both are observations of the Go code). *)
From Virel Require Import Lib.Config Lib.U64 Lib.CheckLib Lib.AMap Model.Ledger Model.Node Check.Hist Spec.WellFormed.
Open Scope N_scope.
Open Scope bool_scope.

Definition fund_eqb_nounlock (a b : fund) : bool := (f_owner a =? f_owner b) && (f_amt a =? f_amt b).
Definition funds_eqb_nounlock (f1 f2 : list fund) : bool :=
  (N.of_nat (length f1) =? N.of_nat (length f2)) &&
  forallb (fun f => match find_fund f2 (f_owner f) with Some g => fund_eqb_nounlock f g | None => false end) f1.
Definition dlgs_eqb_nounlock (d1 d2 : list dlg) : bool :=
  (N.of_nat (length d1) =? N.of_nat (length d2)) &&
  forallb (fun d => existsb (fun e => (d_id d =? d_id e) && (d_owner d =? d_owner e) && (d_name d =? d_name e) &&
                                      funds_eqb_nounlock (d_funds d) (d_funds e)) d2) d1.

(* ... and identical records: the funds of every pool in the same order *)
Definition dlgs_eqb_exact (d1 d2 : list dlg) : bool :=
  (N.of_nat (length d1) =? N.of_nat (length d2)) &&
  forallb (fun d => existsb (fun e => (d_id d =? d_id e) && (d_owner d =? d_owner e) && (d_name d =? d_name e) &&
                                      list_eqb fund_eqb (d_funds d) (d_funds e)) d2) d1.

Definition last_dump (h : hist) : option dump :=
  fold_left (fun acc op => match op with HDeliver _ _ _ (Some d) => Some d | _ => acc end) (h_ops h) None.

(* does the implementation hold a block whose ancestor list is not the list of its real predecessors?
   (open known finding R13: the ancestor slots 1 and 2 are never checked) *)
Definition anc_pf (cfg : config) (n0 n1 : node) (b : block) (now : N) (o : obs) : N :=
  match get_block n0 (b_hash b), get_block n0 (prev_hash b) with
  | None, Some p => if ob_acc o && negb (hashes_eqb (b_anc b) (real_ancestors p)) then 7 else 0
  | _, _ => 0
  end.

(* codes: 1 fresh node refused a block of the main chain, 2 tip differs, 3 accounts differ, 4 staked total differs,
   5 delegate records differ in more than unlock heights, 6 delegate records differ only in unlock heights,
   9 delegate records differ only in the order of the funds of a pool,
   8 = code 1 in a history in which the implementation accepted a block with a wrong ancestor list (R13) *)
Definition c03_hist (cfg : config) (h : hist) : N :=
  match h_fresh h, last_dump h with
  | Some f, Some d =>
      let c := first_fail [
        (1, h_fresh_ok h);
        (2, (dp_top f =? dp_top d) && (dp_top_h f =? dp_top_h d) && (dp_top_cd f =? dp_top_cd d));
        (3, accts_eqb (dp_accts f) (dp_accts d));
        (4, dp_staked f =? dp_staked d);
        (5, dlgs_eqb_nounlock (dp_dlgs f) (dp_dlgs d));
        (6, dlgs_eqb (dp_dlgs f) (dp_dlgs d));
        (9, dlgs_eqb_exact (dp_dlgs f) (dp_dlgs d))] in
      if (c =? 1) && negb (hist_prop cfg h (anc_pf cfg) =? 0) then 8 else c
  | _, _ => 0
  end.

Definition c03_bad_corr (cfg : config) (hs : list hist) := hist_corr_detail cfg hs.
Definition c03_bad_prop (cfg : config) (hs : list hist) := bad_codes (c03_hist cfg) hs 0.
