(* C14: case types (scripts + what the Go code did), correspondence with the model, and the property evaluated on
   the implementation's own observations.  The symbolic model is run on the free instance of Model/Frame.v. *)
From Coq Require Import Bool Uint63.
From Virel Require Import Lib.Config Lib.CheckLib Lib.Pack Model.Frame.
Open Scope bool_scope.
Open Scope N_scope.

(* byte strings of the cases files: packed literal bytes, a run of one byte value, or a concatenation *)
Inductive dspec := DBytes (p : packed) | DRep (b len : N) | DApp (a b : dspec).

Fixpoint dexpand (d : dspec) : list N :=
  match d with
  | DBytes p => unpack p
  | DRep b len => repeat b (N.to_nat len)
  | DApp a b => dexpand a ++ dexpand b
  end.

(* frames of one direction of one connection, as captured by the relay and opened by the harness with the key it
   derived itself (BLAKE3(u64le netid || X25519)): (length prefix, nonce number, plaintext) *)
Record stream := mkstream {
  st_net : N;                               (* network id of the sealing process *)
  st_sk : N;                                (* node number of the sealing node *)
  st_peer : N;                              (* node number of the peer it was connected to *)
  st_frames : list (N * N * dspec) }.

(* what the relay wrote to the receiver after the handshake, in order *)
Inductive item :=
| IFrame (src idx : N)                      (* length prefix and box of frame idx of stream src, untouched *)
| IHdr (v : N)                              (* four clear bytes, little-endian v *)
| IClear (bs : list N)                      (* clear bytes *)
| IBox (src idx : N)                        (* the box of that frame without its length prefix *)
| IBoxNonce (src idx nsrc nidx : N)         (* that box with its 12 nonce bytes replaced by those of another frame *)
| IJunk (n : N).                            (* n bytes that are not an intact box (flipped, cut, extended, random) *)

Inductive c14_case :=
| CConn (rx_net rx_sk rx_peer : N) (rx_conns : list N) (hs_p2pver : N)   (* receiving endpoint and the handshake it saw *)
        (streams : list stream)             (* stream 0: the peer's direction of this connection *)
        (p2p_sender : bool)                 (* stream 0 was produced by a P2P value: peer list first, then SendPacket *)
        (sent : list (N * dspec))           (* the SendPacket calls, in order: (packet type, data) *)
        (script : list item)
        (go_accepted : bool)                (* the receiver opened the connection (NewConnections fired) *)
        (go_delivered : list (N * dspec))   (* what came out of PacketsIn, in order *)
        (go_key_ok : bool)                  (* every captured frame opened under the harness-derived key *)
(* several goroutines calling SendPacket of ONE connection at once, right after it opened (the peer-list goroutine is
   writing its frame at that moment); the peer is a live endpoint; harness/cmd/p2pframe/hammer.go *)
| CHammer (transport : N)                      (* 0 direct, 1 small socket buffers + slow consumer of PacketsIn, 2 chunking pipe *)
          (sent : list (list N))               (* sender i uses packet type 32 + i: the lengths of its packets, in its order *)
          (go_delivered : list (N * N * N))    (* PacketsIn of the peer, in order, without the marker: (sender + 1, number in the
                                                  sender's order, length) of the sent packet it is byte for byte; sender 0 = none *)
          (go_marker : bool)                   (* the marker handed to SendPacket after every sender returned came out as well *)
          (go_alive_tx go_alive_rx : bool)     (* both sides still had the connection registered at that moment *)
          (go_wire : option (list (N * N * N * N)))  (* the pipe's view of the stream cut at the length prefixes: (prefix, kind,
                                                  sender + 1, number); kind 0 does not open under the connection key, 1 peer list,
                                                  2 packet of a sender, 3 marker, 4 a packet nobody sent *)
          (go_wire_clean : bool)               (* the stream ended at a frame boundary and every prefix was a possible length *)
| CSeal (mlen go_len : N) (go_roundtrip : bool)                (* Cipher.Encrypt layout; Decrypt(Encrypt m) = m *)
| CTamper (kind mlen tried rejected : N)                        (* Cipher.Decrypt on tampered boxes, aggregated *)
| CNilSeal (go_refused : bool)
| CDistinct (n frames nonces : N)                               (* n seals of one packet: distinct frames / nonces *)
| CHs (input : packed) (go : option (N * N * packed * N)).      (* Handshake.ReadFrom on a complete input *)

(* ------------------------------------------------------------------ running the model *)

Definition skey (s : stream) : free_key := free_kdf (st_net s) (free_dh (st_sk s) (free_pub (st_peer s))).

Definition nthN {A} (l : list A) (i : N) : option A := nth_error l (N.to_nat i).

Definition frame_of (streams : list stream) (src idx : N) : option (free_key * (N * N * dspec)) :=
  match nthN streams src with
  | Some s => match nthN (st_frames s) idx with Some f => Some (skey s, f) | None => None end
  | None => None
  end.

Definition box_of (k : free_key) (nonce wire_nonce : N) (plain : dspec) : @chunk free_key :=
  Box wire_nonce (Sealed k nonce (dexpand plain)).

(* None: the script refers to a frame that does not exist (generator error: counted as a disagreement) *)
Definition item_chunks (streams : list stream) (it : item) : option (list (@chunk free_key)) :=
  match it with
  | IFrame src idx =>
      match frame_of streams src idx with
      | Some (k, (hdr, nonce, plain)) => Some [Raw (hdr_encode hdr); box_of k nonce nonce plain]
      | None => None
      end
  | IHdr v => Some [Raw (hdr_encode v)]
  | IClear bs => Some [Raw bs]
  | IBox src idx =>
      match frame_of streams src idx with
      | Some (k, (_, nonce, plain)) => Some [box_of k nonce nonce plain]
      | None => None
      end
  | IBoxNonce src idx nsrc nidx =>
      match frame_of streams src idx, frame_of streams nsrc nidx with
      | Some (k, (_, nonce, plain)), Some (_, (_, nonce', _)) => Some [box_of k nonce nonce' plain]
      | _, _ => None
      end
  | IJunk n => Some [Opaque n]
  end.

Fixpoint wire_of (streams : list stream) (script : list item) : option (list (@chunk free_key)) :=
  match script with
  | [] => Some []
  | it :: r =>
      match item_chunks streams it, wire_of streams r with
      | Some a, Some b => Some (a ++ b)
      | _, _ => None
      end
  end.

Definition bytes_eqb (a b : list N) : bool := list_eqb N.eqb a b.
Definition pkt_eqb (a b : N * list N) : bool := (fst a =? fst b) && bytes_eqb (snd a) (snd b).
Definition expand_pkts (l : list (N * dspec)) : list (N * list N) := map (fun p => (fst p, dexpand (snd p))) l.

Definition ct_eqb (a b : @ct free_key) : bool :=
  match a, b with
  | Sealed k n m, Sealed k' n' m' => free_key_eqb k k' && (n =? n') && bytes_eqb m m'
  | Junk x, Junk y => bytes_eqb x y
  | _, _ => false
  end.
Definition chunk_eqb (a b : @chunk free_key) : bool :=
  match a, b with
  | Raw x, Raw y => bytes_eqb x y
  | Opaque x, Opaque y => x =? y
  | Box n c, Box n' c' => (n =? n') && ct_eqb c c'
  | _, _ => false
  end.

(* the model's sender against the captured frames of stream 0: one frame per SendPacket after the peer-list frame,
   same order, same plaintext, same length prefix *)
Definition sender_agrees (streams : list stream) (sent : list (N * dspec)) : bool :=
  match streams with
  | [] => false
  | s0 :: _ =>
      match st_frames s0 with
      | [] => false
      | (_, _, pl) :: fs =>
          (match payload_decode (dexpand pl) with Some (wt, _) => wt =? 1 | None => false end) &&
          list_eqb chunk_eqb
            (send (skey s0) (expand_pkts sent) (map (fun f => snd (fst f)) fs))
            (flat_map (fun f => match f with (hdr, nonce, plain) =>
                                  [Raw (hdr_encode hdr); box_of (skey s0) nonce nonce plain] end) fs)
      end
  end.

Definition conn_corr (cfg : config) rx_net rx_sk rx_peer rx_conns hs_p2pver streams (p2p_sender : bool) sent script
    (go_accepted : bool) go_delivered (go_key_ok : bool) : bool :=
  let me := {| nd_sk := rx_sk; nd_net := rx_net; nd_conns := rx_conns |} in
  let h := {| h_version := 0; h_p2pver := hs_p2pver; h_id := rx_peer; h_port := 0 |} in
  match wire_of streams script with
  | None => false
  | Some wire =>
      let '(out, cs) := endpoint_recv free_pub free_dh free_kdf free_key_eqb free_pk_eqb free_pk_valid me h wire in
      let accepted := match hs_accept free_pub free_dh free_kdf free_pk_eqb free_pk_valid me h with
                      | HsKey _ => true | HsErr _ => false end in
      Bool.eqb accepted go_accepted && go_key_ok &&
      ((rx_net =? network_id cfg) || match streams with s0 :: _ => st_net s0 =? network_id cfg | [] => false end) &&
      list_eqb pkt_eqb out (expand_pkts go_delivered) &&
      (if p2p_sender then sender_agrees streams sent else true)
  end.

(* the Cipher, symbolically: one message sealed under key (1,(1,2)) with nonce 7 *)
Definition tk : free_key := free_kdf 1 (free_dh 1 2).
Definition tk' : free_key := free_kdf 1 (free_dh 1 3).
Definition model_tamper (kind : N) (m : list N) : option (list N) :=
  if kind =? 0 then cipher_decrypt free_key_eqb tk (cipher_encrypt tk 7 m)          (* untouched *)
  else if kind <=? 5 then cipher_decrypt free_key_eqb tk (Opaque (30 + blen m))     (* not an intact box any more *)
  else if kind =? 6 then cipher_decrypt free_key_eqb tk' (cipher_encrypt tk 7 m)    (* another key *)
  else if kind =? 7 then cipher_decrypt free_key_eqb tk (Box 8 (Sealed tk 7 m))     (* another nonce in front *)
  else None.

Definition hs_go_eqb (h : hello_bytes) (g : N * N * packed * N) : bool :=
  match g with (v, p, id, port) =>
    (hb_version h =? v) && (hb_p2pver h =? p) && bytes_eqb (hb_id h) (unpack id) && (hb_port h =? port) end.

(* ---- concurrent senders: the model is run under the schedule read off the observation ---- *)

Fixpoint indexed {A} (i : N) (l : list A) : list (N * A) :=
  match l with
  | [] => []
  | x :: r => (i, x) :: indexed (i + 1) r
  end.

Definition triple_eqb (a b : N * N * N) : bool :=
  (fst (fst a) =? fst (fst b)) && (snd (fst a) =? snd (fst b)) && (snd a =? snd b).

Definition is_nil {A} (l : list A) : bool := match l with [] => true | _ => false end.

Definition hammer_type (sender1 : N) : N := 31 + sender1.       (* sender + 1 -> packet type 32 + sender; 31 is the marker *)

Definition sent_len (sent : list (list N)) (sender1 seq : N) : option N :=
  if sender1 =? 0 then None
  else match nthN sent (sender1 - 1) with Some q => nthN q seq | None => None end.

(* the wire view as a stream of the symbolic model: frame i carries nonce i; data bytes are zeros (only type and length
   are compared) *)
Definition hammer_chunks (k : free_key) (sent : list (list N)) (wire : list (N * N * N * N)) : list (@chunk free_key) :=
  flat_map (fun x => match x with (i, (hdr, kind, s, q)) =>
    let box wt n := [Raw (hdr_encode hdr); Box i (Sealed k i (payload_encode wt (repeat 0 (N.to_nat n))))] in
    if kind =? 1 then box 1 (hdr - 30)
    else if kind =? 3 then box (wire_type 31) (hdr - 30)
    else if kind =? 2 then match sent_len sent s q with
                           | Some n => box (wire_type (hammer_type s)) n
                           | None => [Raw (hdr_encode hdr); Opaque hdr]
                           end
    else [Raw (hdr_encode hdr); Opaque hdr] end) (indexed 0 wire).

Definition hammer_corr (sent : list (list N)) (del : list (N * N * N)) (marker alive_tx alive_rx : bool)
    (wire : option (list (N * N * N * N))) : bool :=
  let queues := map (indexed 0) sent in
  let sched := map (fun x => if fst (fst x) =? 0 then length sent else N.to_nat (fst (fst x) - 1)) del in
  let '(out, rest) := run_schedule sched queues in
  (* the observation is a behaviour of the model: whole frames in the order of some schedule, nothing pending *)
  list_eqb triple_eqb (map (fun x => (N.of_nat (fst x) + 1, fst (snd x), snd (snd x))) out) del &&
  forallb is_nil rest && marker && alive_tx && alive_rx &&
  match wire with
  | None => true
  | Some w =>
      (* the length prefix of every packet frame is the one the model's sender writes *)
      forallb (fun f => match f with (hdr, kind, s, q) =>
                 if kind =? 2 then match sent_len sent s q with Some n => hdr =? frame_body_len n | None => false end
                 else true end) w &&
      (* small rounds: the model's receiver on that stream delivers what came out of PacketsIn *)
      (if forallb (forallb (fun n => n <=? 2048)) sent && forallb (fun f => fst (fst (fst f)) <=? 4096) w then
         let k := free_kdf 1 (free_dh 1 2) in
         let '(l, e) := recv free_key_eqb k (hammer_chunks k sent w) in
         let got := map (fun p => (fst p, blen (snd p))) (deliver l) in
         (match e with REof => true | _ => false end) &&
         list_eqb pair_eqb (filter (fun p => negb (fst p =? 31)) got)
                  (map (fun x => (hammer_type (fst (fst x)), snd x)) del) &&
         Bool.eqb marker (existsb (fun p => fst p =? 31) got)
       else true)
  end.

Definition c14_corr (cfg : config) (c : c14_case) : bool :=
  match c with
  | CHammer _ sent del marker atx arx wire _ => hammer_corr sent del marker atx arx wire
  | CConn rx_net rx_sk rx_peer rx_conns ver streams p2ps sent script acc del kok =>
      conn_corr cfg rx_net rx_sk rx_peer rx_conns ver streams p2ps sent script acc del kok
  | CSeal mlen go_len rt =>
      let m := repeat 0 (N.to_nat mlen) in
      (@chunk_len free_key (cipher_encrypt tk 7 m) =? go_len) &&
      (match cipher_decrypt free_key_eqb tk (cipher_encrypt tk 7 m) with Some m' => bytes_eqb m m' | None => false end) && rt
  | CTamper kind mlen tried rejected =>
      match model_tamper kind (repeat 0 (N.to_nat mlen)) with
      | None => rejected =? tried
      | Some _ => rejected =? 0
      end
  | CNilSeal refused => refused                       (* sendPacketLock never passes nil; Encrypt(nil) is an error *)
  | CDistinct n frames nonces => (frames =? n) && (nonces =? n)   (* the model is handed pairwise distinct nonces *)
  | CHs input go =>
      match hs_decode (unpack input), go with
      | HsParsed h, Some g => hs_go_eqb h g
      | HsParsed _, None => false
      | _, None => true
      | _, Some _ => false
      end
  end.

(* ------------------------------------------------------------------ the property on Go's observations
   Uses only the byte-level codec (payload_decode / deliver), never the symbolic receiver. *)

Definition same_scope (rx_net rx_sk rx_peer : N) (s : stream) : bool :=
  (st_net s =? rx_net) &&
  (((st_sk s =? rx_peer) && (st_peer s =? rx_sk)) || ((st_sk s =? rx_sk) && (st_peer s =? rx_peer))).

Definition plain_of (streams : list stream) (src idx : N) : option (list N) :=
  match frame_of streams src idx with
  | Some (_, (_, _, plain)) => Some (dexpand plain)
  | None => None
  end.

(* strict reading: the leading items that are frame 0, 1, 2, ... of stream 0; returns their plaintexts and the rest *)
Fixpoint lead_strict (streams : list stream) (script : list item) (pos : N) : list (list N) * list item :=
  match script with
  | IFrame 0 idx :: r =>
      if idx =? pos then
        match plain_of streams 0 idx with
        | Some m => let '(l, rest) := lead_strict streams r (pos + 1) in (m :: l, rest)
        | None => ([], script)
        end
      else ([], script)
  | _ => ([], script)
  end.

(* lenient reading: leading items that are whole frames of ANY stream sealed by the same two nodes in the same network *)
Fixpoint lead_lenient (rx_net rx_sk rx_peer : N) (streams : list stream) (script : list item) : list (list N) :=
  match script with
  | IFrame src idx :: r =>
      match nthN streams src, plain_of streams src idx with
      | Some s, Some m => if same_scope rx_net rx_sk rx_peer s then m :: lead_lenient rx_net rx_sk rx_peer streams r else []
      | _, _ => []
      end
  | _ => []
  end.

Definition decode_all (ms : list (list N)) : option (list (N * list N)) :=
  fold_right (fun m acc => match payload_decode m, acc with Some p, Some l => Some (p :: l) | _, _ => None end) (Some []) ms.

Definition types_in_range (sent : list (N * dspec)) : bool := forallb (fun p => fst p <? 65534) sent.

Fixpoint dlen (d : dspec) : N :=
  match d with
  | DBytes p => p_len p
  | DRep _ len => len
  | DApp a b => dlen a + dlen b
  end.
(* "every payload from empty to the frame limit": |data| + 2 + 12 + 16 <= 4 MiB *)
Definition sizes_in_range (sent : list (N * dspec)) : bool := forallb (fun p => dlen (snd p) + 30 <=? FRAME_LIMIT) sent.

(* plaintexts of stream 0 after the peer-list frame = encodings of the SendPacket calls, in order *)
Definition sender_exact (streams : list stream) (sent : list (N * dspec)) : bool :=
  match streams with
  | s0 :: _ =>
      match st_frames s0 with
      | _ :: fs =>
          list_eqb bytes_eqb (map (fun f => dexpand (snd f)) fs)
                   (map (fun p => payload_encode (wire_type (fst p)) (dexpand (snd p))) sent)
      | [] => false
      end
  | [] => false
  end.

Definition conn_prop rx_net rx_sk rx_peer (rx_conns : list N) (streams : list stream) (p2p_sender : bool)
    (sent : list (N * dspec)) (script : list item) (go_accepted : bool) (go_delivered : list (N * dspec))
    (go_key_ok : bool) : N :=
  let del := expand_pkts go_delivered in
  match streams with
  | [] => 0
  | s0 :: _ =>
    if negb (types_in_range sent) then 0                         (* packet types 65534/65535 wrap onto reserved wire types: outside *)
    else if negb (sizes_in_range sent) then 0                    (* beyond the frame limit (the sender checks nothing): outside *)
    else if (rx_peer =? rx_sk) || existsb (N.eqb rx_peer) rx_conns then
      (* self-connection / duplicate id: must be refused *)
      if go_accepted || negb (list_eqb pkt_eqb del []) then 8 else 0
    else if negb (st_net s0 =? rx_net) then
      (* different networks: not a single packet *)
      if list_eqb pkt_eqb del [] then 0 else 7
    else if negb go_key_ok then 0      (* the harness could not open the captured frames: nothing to judge here; the correspondence fails *)
    else if p2p_sender && negb (sender_exact streams sent) then 1     (* the sender put other packets / another order on the wire *)
    else
      let '(lead, rest) := lead_strict streams script 0 in
      match decode_all lead with
      | None => 0                                                (* a sealed plaintext shorter than a type field: not a packet *)
      | Some pk =>
          let expected := deliver pk in
          match rest with
          | IFrame 0 _ :: _ => 0                                 (* replay / reorder / drop of whole frames inside the connection: outside the wording *)
          | [] => if list_eqb pkt_eqb del expected then 0 else 2 (* untampered: delivered = sent *)
          | it :: _ =>
              if list_eqb pkt_eqb del expected then 0
              else
                let len := match decode_all (lead_lenient rx_net rx_sk rx_peer streams script) with
                           | Some l => deliver l | None => [] end in
                if list_eqb pkt_eqb del len then
                  match it with
                  | IFrame src _ =>
                      match nthN streams src with
                      | Some s => if st_sk s =? rx_sk then 6 else 5    (* 6: reflection, 5: other connection of the same two nodes *)
                      | None => 3
                      end
                  | _ => 3
                  end
                else 3                                            (* something of / after a tampered frame was delivered *)
          end
      end
  end.

(* concurrent senders, on Go's observations alone: every packet sent is delivered exactly once, intact, in its sender's
   order; the connection is not dropped; the stream the peer read was a concatenation of whole frames *)
Definition hammer_wire_ok (del : list (N * N * N)) (w : list (N * N * N * N)) (clean : bool) : bool :=
  let kind f := snd (fst (fst f)) in
  let pkts := filter (fun f => (kind f =? 2) || (kind f =? 3)) w in
  clean &&
  forallb (fun f => (1 <=? kind f) && (kind f <=? 3)) w &&              (* every frame opens and is something that was sent *)
  (blen (filter (fun f => kind f =? 1) w) =? 1) &&                      (* the peer list, once *)
  (blen (filter (fun f => kind f =? 3) w) =? 1) &&                      (* the marker, once ... *)
  (match rev pkts with f :: _ => kind f =? 3 | [] => false end) &&      (* ... behind every packet *)
  (* the packet frames on the wire are the packets that came out of PacketsIn, in that order, with their lengths *)
  list_eqb triple_eqb
    (map (fun f => match f with (hdr, _, s, q) => (s, q, hdr - 30) end) (filter (fun f => kind f =? 2) w)) del &&
  forallb (fun f => 30 <=? fst (fst (fst f))) w.

Definition hammer_prop (sent : list (list N)) (del : list (N * N * N)) (marker alive_tx alive_rx : bool)
    (wire : option (list (N * N * N * N))) (clean : bool) : N :=
  first_fail [
    (21, forallb (fun x => negb (fst (fst x) =? 0) && (fst (fst x) <=? blen sent)) del);   (* delivered: nobody's packet / not intact *)
    (24, match wire with Some w => hammer_wire_ok del w clean | None => true end);        (* the stream was not whole frames *)
    (23, marker && alive_tx && alive_rx);                                                  (* the connection was dropped *)
    (22, forallb (fun x => match x with (i, lens) =>                                       (* lost / twice / out of the sender's order *)
                   list_eqb pair_eqb (map (fun y => (snd (fst y), snd y)) (filter (fun y => fst (fst y) =? i + 1) del))
                            (indexed 0 lens) end) (indexed 0 sent))
  ].

Definition c14_prop (cfg : config) (c : c14_case) : N :=
  match c with
  | CHammer _ sent del marker atx arx wire clean => hammer_prop sent del marker atx arx wire clean
  | CConn rx_net rx_sk rx_peer rx_conns ver streams p2ps sent script acc del kok =>
      conn_prop rx_net rx_sk rx_peer rx_conns streams p2ps sent script acc del kok
  | CSeal mlen go_len rt => first_fail [(11, go_len =? 12 + mlen + 16); (12, rt)]
  | CTamper kind mlen tried rejected =>
      if kind =? 0 then (if rejected =? 0 then 0 else 13) else if rejected =? tried then 0 else 14
  | CNilSeal _ => 0
  | CDistinct n frames nonces => first_fail [(15, frames =? n); (16, nonces =? n)]
  | CHs _ _ => 0
  end.

Definition c14_bad_corr cfg l := bad_indices (c14_corr cfg) l 0.
Definition c14_bad_prop cfg l := bad_codes (c14_prop cfg) l 0.
