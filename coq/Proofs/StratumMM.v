(* Proofs about the masterchain share verdict (Model/StratumMM.v). *)
From Coq Require Import NArith List Bool Lia.
From Virel Require Import Lib.CheckLib Model.StratumMM.
Import ListNotations.
Open Scope N_scope.

(* a share that solves its job at the job's target is never answered "low difficulty", whatever the merge-mined chains
   ask for by now, whatever this chain's own difficulty is *)
Lemma solving_share_never_low_diff : forall own mindiff now pow,
  mm_meets pow mindiff = true -> mm_judge own mindiff now pow <> VLowDiff.
Proof.
  intros own mindiff now pow H. unfold mm_judge.
  destruct (mm_meets pow own); [discriminate|].
  destruct (existsb (mm_meets pow) now); [discriminate|].
  rewrite H. discriminate.
Qed.

Lemma solving_share_answered_ok : forall own mindiff now pow,
  mm_meets pow mindiff = true -> mm_answered_ok (mm_judge own mindiff now pow) = true.
Proof.
  intros own mindiff now pow H. pose proof (solving_share_never_low_diff own mindiff now pow H) as N0.
  destruct (mm_judge own mindiff now pow); try reflexivity. contradiction.
Qed.

(* conversely only such shares (or shares good for some chain) are answered OK: nothing easier than the job's target passes *)
Lemma low_share_rejected : forall own mindiff now pow,
  mm_meets pow own = false -> existsb (mm_meets pow) now = false -> mm_meets pow mindiff = false ->
  mm_judge own mindiff now pow = VLowDiff.
Proof. intros own mindiff now pow H1 H2 H3. unfold mm_judge. rewrite H1, H2, H3. reflexivity. Qed.

(* mm_meets is antitone in the difficulty: what solves a harder target solves an easier one *)
Lemma meets_antitone : forall pow d d', 0 < d' -> d' <= d -> mm_meets pow d = true -> mm_meets pow d' = true.
Proof.
  intros pow d d' Hp Hle H. unfold mm_meets in *. apply andb_true_iff in H as [Hd H].
  apply andb_true_iff. split.
  - apply negb_true_iff. apply N.eqb_neq. lia.
  - apply N.leb_le in H. apply N.leb_le.
    apply negb_true_iff in Hd. apply N.eqb_neq in Hd.
    etransitivity; [exact H|]. apply N.div_le_compat_l. lia.
Qed.

(* when the job's minimum difficulty is the minimum over this chain and the chains as they were when the job was made, and
   nothing has changed since, the repair changes nothing: old and new verdict agree *)
Lemma repair_conservative : forall own mindiff now pow,
  (mm_meets pow mindiff = true -> mm_meets pow own = true \/ existsb (mm_meets pow) now = true) ->
  mm_judge own mindiff now pow = mm_judge_old own now pow.
Proof.
  intros own mindiff now pow H. unfold mm_judge, mm_judge_old.
  destruct (mm_meets pow own) eqn:E1; [reflexivity|].
  destruct (existsb (mm_meets pow) now) eqn:E2; [reflexivity|].
  destruct (mm_meets pow mindiff) eqn:E3; [|reflexivity].
  destruct (H eq_refl) as [X|X]; discriminate.
Qed.

(* the defect of the code as found: one chain, job issued at difficulty 1, the chain has moved to difficulty 2; a share
   of value 2^127 + 1 mm_meets the job's target and is rejected *)
Lemma old_code_rejects_solving_share :
  mm_meets (2 ^ 127 + 1) 1 = true /\ mm_judge_old 100000 [2] (2 ^ 127 + 1) = VLowDiff /\
  mm_judge 100000 1 [2] (2 ^ 127 + 1) = VShareOnly.
Proof. vm_compute. repeat split; reflexivity. Qed.
