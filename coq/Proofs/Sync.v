(* Proofs about the synchronisation model (property C11), at message granularity:
   sync_safety            whatever events happen, the node is one reachable by [deliver] steps
   serve_correct          a by-height request returns exactly the main-chain blocks of those heights, in order
   batch_order_irrelevant the post-processor's result does not depend on the arrival order of a batch
   sync_linear            against a peer whose chain extends ours, every request round makes progress and the
                          node ends as if it had received the extension block by block
   Interleavings of goroutines, sockets and timers are not the subject of these theorems (see Check/C11.v). *)
From Coq Require Import Arith Lia Permutation Sorted.
From Virel Require Import Lib.Config Lib.U64 Lib.AMap Model.Ledger Model.Node Model.Sync
  Proofs.AMapLemmas Proofs.Conservation Proofs.NodeBasics Proofs.ForkChoice.
Open Scope N_scope.

(* ------------------------------------------------------------------ generic list facts *)
Section ListFacts.
Context {A : Type}.

Lemma swap_remove_perm (l : list A) : forall i x, nth_error l i = Some x -> Permutation l (x :: swap_remove l i).
Proof.
  induction l as [|y r IH]; intros [|i] x H; cbn in H; try discriminate.
  - injection H as <-. cbn [swap_remove]. destruct r as [|z r']; [reflexivity|].
    apply perm_skip. set (r := z :: r').
    assert (Hne : r <> []) by discriminate.
    rewrite (app_removelast_last y Hne) at 1.
    apply Permutation_sym, Permutation_cons_append.
  - cbn [swap_remove]. specialize (IH i x H).
    eapply Permutation_trans; [apply perm_skip; exact IH|]. apply perm_swap.
Qed.

Lemma swap_remove_length (l : list A) i x : nth_error l i = Some x -> S (length (swap_remove l i)) = length l.
Proof.
  intros H. apply swap_remove_perm in H. apply Permutation_length in H. cbn in H. lia.
Qed.

Variable key : A -> N.
Notation le_key := (fun a b => key a <= key b).

Lemma nodup_key_inj (l : list A) x y : NoDup (map key l) -> In x l -> In y l -> key x = key y -> x = y.
Proof.
  induction l as [|z r IH]; intros Hnd Hx Hy Hk; [destruct Hx|].
  cbn in Hnd. inversion Hnd as [|? ? Hnot Hnd']; subst.
  destruct Hx as [<-|Hx], Hy as [<-|Hy]; try reflexivity.
  - exfalso. apply Hnot. rewrite Hk. apply in_map. exact Hy.
  - exfalso. apply Hnot. rewrite <- Hk. apply in_map. exact Hx.
  - apply IH; assumption.
Qed.

(* two ascending arrangements of the same elements with pairwise distinct keys are the same list *)
Lemma sorted_perm_unique_key (l1 : list A) : forall l2,
  StronglySorted le_key l1 -> StronglySorted le_key l2 -> NoDup (map key l1) -> Permutation l1 l2 -> l1 = l2.
Proof.
  induction l1 as [|x r1 IH]; intros l2 S1 S2 Hnd Hp.
  - apply Permutation_nil in Hp. subst. reflexivity.
  - destruct l2 as [|y r2]; [apply Permutation_sym, Permutation_nil in Hp; discriminate|].
    inversion S1 as [|? ? S1' F1]; subst. inversion S2 as [|? ? S2' F2]; subst.
    rewrite Forall_forall in F1, F2.
    assert (Hyin : In y (x :: r1)) by (eapply Permutation_in; [apply Permutation_sym; exact Hp|left; reflexivity]).
    assert (Hxin : In x (y :: r2)) by (eapply Permutation_in; [exact Hp|left; reflexivity]).
    assert (Hxy : x = y).
    { apply (nodup_key_inj (x :: r1)); [exact Hnd|left; reflexivity|exact Hyin|].
      assert (key x <= key y) by (destruct Hyin as [->|Hy]; [lia|apply F1; exact Hy]).
      assert (key y <= key x) by (destruct Hxin as [->|Hx]; [lia|apply F2; exact Hx]).
      lia. }
    subst y. f_equal. apply IH; try assumption.
    + cbn in Hnd. inversion Hnd; assumption.
    + eapply Permutation_cons_inv. exact Hp.
Qed.

End ListFacts.

(* ------------------------------------------------------------------ the post-processor's order *)
Lemma min_index_spec (l : list (block * N)) : l <> [] ->
  exists x, nth_error l (min_index l) = Some x /\ forall y, In y l -> hgt x <= hgt y.
Proof.
  induction l as [|x r IH]; intros Hne; [congruence|].
  destruct r as [|z r'].
  - exists x. split; [reflexivity|]. intros y [<-|[]]. lia.
  - set (r := z :: r') in *. assert (Hr : r <> []) by discriminate.
    destruct (IH Hr) as (m & Hm & Hmin).
    change (min_index (x :: r)) with
      (let j := min_index r in match nth_error r j with Some y => if hgt y <? hgt x then S j else O | None => O end).
    cbn zeta. rewrite Hm.
    destruct (N.ltb_spec (hgt m) (hgt x)) as [Hlt|Hge].
    + exists m. split; [exact Hm|]. intros y [<-|Hy]; [lia|apply Hmin; exact Hy].
    + exists x. split; [reflexivity|]. intros y [<-|Hy]; [lia|]. specialize (Hmin y Hy). lia.
Qed.

(* the order in which [flush] hands the buffered blocks to [post_block] *)
Fixpoint drain (k : nat) (buf : list (block * N)) : list (block * N) :=
  match k with
  | O => []
  | S k' =>
      match buf with
      | [] => []
      | _ => match nth_error buf (min_index buf) with
             | Some x => x :: drain k' (swap_remove buf (min_index buf))
             | None => []
             end
      end
  end.

Lemma drain_perm : forall k buf, length buf = k -> Permutation buf (drain k buf).
Proof.
  induction k as [|k IH]; intros buf Hl.
  - destruct buf; [reflexivity|discriminate].
  - destruct buf as [|b0 r]; [discriminate|]. set (buf := b0 :: r) in *.
    destruct (min_index_spec buf ltac:(discriminate)) as (x & Hx & _).
    change (drain (S k) buf) with
      (match nth_error buf (min_index buf) with Some x => x :: drain k (swap_remove buf (min_index buf)) | None => [] end).
    rewrite Hx. eapply Permutation_trans; [apply swap_remove_perm; exact Hx|].
    apply perm_skip. apply IH. pose proof (swap_remove_length _ _ _ Hx). lia.
Qed.

Lemma drain_sorted : forall k buf, length buf = k -> StronglySorted (fun a b => hgt a <= hgt b) (drain k buf).
Proof.
  induction k as [|k IH]; intros buf Hl.
  - constructor.
  - destruct buf as [|b0 r]; [discriminate|]. set (buf := b0 :: r) in *.
    destruct (min_index_spec buf ltac:(discriminate)) as (x & Hx & Hmin).
    change (drain (S k) buf) with
      (match nth_error buf (min_index buf) with Some x => x :: drain k (swap_remove buf (min_index buf)) | None => [] end).
    rewrite Hx.
    assert (Hlen : length (swap_remove buf (min_index buf)) = k) by (pose proof (swap_remove_length _ _ _ Hx); lia).
    constructor; [apply IH; exact Hlen|].
    rewrite Forall_forall. intros y Hy. apply Hmin.
    eapply Permutation_in; [apply Permutation_sym, swap_remove_perm; exact Hx|].
    right. eapply Permutation_in; [apply Permutation_sym, drain_perm; exact Hlen|exact Hy].
Qed.

(* arrival order does not matter for the order of processing when the heights are pairwise distinct *)
Lemma drain_order_irrelevant buf buf' :
  Permutation buf buf' -> NoDup (map hgt buf) -> drain (length buf) buf = drain (length buf') buf'.
Proof.
  intros Hp Hnd.
  apply (sorted_perm_unique_key hgt).
  - apply drain_sorted. reflexivity.
  - apply drain_sorted. reflexivity.
  - eapply Permutation_NoDup; [|exact Hnd]. apply Permutation_map. apply drain_perm. reflexivity.
  - eapply Permutation_trans; [apply Permutation_sym, drain_perm; reflexivity|].
    eapply Permutation_trans; [exact Hp|]. apply drain_perm. reflexivity.
Qed.

Section SyncProofs.
Variable cfg : config.
Variable genesis_addr team_key : N.

Notation deliver' := (deliver cfg genesis_addr team_key).
Notation run' := (run cfg genesis_addr team_key).
Notation post_block' := (post_block cfg genesis_addr team_key).
Notation post_one' := (post_one cfg genesis_addr team_key).
Notation flush_n' := (flush_n cfg genesis_addr team_key).
Notation flush' := (flush cfg genesis_addr team_key).
Notation step' := (step cfg genesis_addr team_key).
Notation steps' := (steps cfg genesis_addr team_key).
Notation recv_block' := (recv_block cfg team_key).
Notation recv_all' := (recv_all cfg team_key).
Notation tick' := (tick cfg).
Notation serve' := (serve cfg).
Notation pbd := (parallel_blocks cfg).

(* ------------------------------------------------------------------ safety *)
Lemma run_app n ops1 ops2 : run' n (ops1 ++ ops2) = run' (run' n ops1) ops2.
Proof. unfold run. apply fold_left_app. Qed.

Lemma post_block_node s b now : sy_node (post_block' s b now) = fst (fst (deliver' (sy_node s) b now)).
Proof. unfold post_block. destruct (deliver' (sy_node s) b now) as [[n1 out] amb]. reflexivity. Qed.

Lemma post_block_set_buf s buf b now : post_block' (set_buf s buf) b now = set_buf (post_block' s b now) buf.
Proof.
  unfold post_block. cbn [sy_node set_buf sy_queue].
  destruct (deliver' (sy_node s) b now) as [[n1 out] amb]. reflexivity.
Qed.

(* a block that is refused - invalid, duplicate, orphan - or that makes the node code panic leaves the node as it was *)
Lemma post_block_refused s b now n1 out amb :
  deliver' (sy_node s) b now = (n1, out, amb) -> out <> Accepted -> sy_node (post_block' s b now) = sy_node s.
Proof.
  intros H Hout. rewrite post_block_node, H. cbn [fst].
  destruct out as [|c|c]; [congruence| |].
  - eapply deliver_rejected_unchanged; exact H.
  - eapply deliver_crashed_unchanged; exact H.
Qed.

Lemma recv_block_node s b now : sy_node (recv_block' s b now) = sy_node s.
Proof. unfold recv_block. destruct (prevalidate_block cfg team_key b now); reflexivity. Qed.

(* a block that fails prevalidation changes nothing at all *)
Lemma recv_block_invalid s b now : prevalidate_block cfg team_key b now <> Ok tt -> recv_block' s b now = s.
Proof.
  unfold recv_block. destruct (prevalidate_block cfg team_key b now) as [[]| |]; [congruence|reflexivity|reflexivity].
Qed.

Lemma tick_height_node s rq : sy_node (fst (tick_height cfg s rq)) = sy_node s.
Proof.
  unfold tick_height.
  repeat match goal with |- context [if ?c then _ else _] => destruct c end; reflexivity.
Qed.

Lemma tick_node s : sy_node (fst (tick' s)) = sy_node s.
Proof.
  unfold tick. destruct (sy_diff s <=? top_cd (sy_node s)); [reflexivity|].
  destruct (sy_queue s) as [|e r]; [apply tick_height_node|].
  destruct (fst e =? 0); [reflexivity|]. rewrite tick_height_node. reflexivity.
Qed.

Lemma post_one_node s : exists ops, sy_node (post_one' s) = run' (sy_node s) ops.
Proof.
  unfold post_one. destruct (sy_buf s) as [|x r] eqn:E; [exists []; reflexivity|].
  destruct (nth_error (x :: r) (min_index (x :: r))) as [[b now]|]; [|exists []; reflexivity].
  exists [(b, now)]. rewrite post_block_node. reflexivity.
Qed.

Lemma step_node s e : exists ops, sy_node (step' s e) = run' (sy_node s) ops.
Proof.
  destruct e as [h cd| |b now| |h]; cbn [step].
  - exists []. unfold recv_stats. destruct (sy_diff s <? cd); reflexivity.
  - exists []. apply tick_node.
  - exists []. apply recv_block_node.
  - apply post_one_node.
  - exists []. reflexivity.
Qed.

(* sync_safety: in EVERY execution - any statistics, any blocks (valid, invalid, duplicated, out of order, unsolicited),
   any timing of the scheduler, the post-processor and the queue - the node is the result of a sequence of [deliver]
   steps from where it started *)
Theorem sync_safety : forall es s, exists ops, sy_node (steps' s es) = run' (sy_node s) ops.
Proof.
  induction es as [|e es IH]; intros s; [exists []; reflexivity|].
  cbn [steps fold_left]. destruct (step_node s e) as (ops1 & H1).
  destruct (IH (step' s e)) as (ops2 & H2). exists (ops1 ++ ops2).
  unfold steps in H2. rewrite H2, H1, run_app. reflexivity.
Qed.

(* hence every invariant of [run] holds during synchronisation; the fork-choice invariant: *)
Corollary sync_preserves_FInv es s : FInv (sy_node s) -> FInv (sy_node (steps' s es)).
Proof.
  intros H. destruct (sync_safety es s) as (ops & ->). apply run_inv. exact H.
Qed.

Corollary sync_tip_always_maximal g n0 es :
  node0 cfg genesis_addr g = Ok n0 -> b_cd g = b_diff g ->
  let n := sy_node (steps' (sync0 n0) es) in
  (exists t, get_block n (top n) = Some t /\ b_cd t = top_cd n) /\
  (forall h b, get_block n h = Some b -> b_cd b <= top_cd n).
Proof.
  intros H0 Hg n. destruct (sync_safety es (sync0 n0)) as (ops & Hn). unfold n. rewrite Hn. cbn [sy_node sync0].
  apply (tip_always_maximal cfg genesis_addr team_key g n0 ops H0 Hg).
Qed.

(* the compound operations of the model are event sequences *)
Lemma flush_n_steps k : forall s, flush_n' k s = steps' s (repeat EvPost k).
Proof.
  unfold steps. induction k as [|k IH]; intros s; [reflexivity|].
  cbn [flush_n repeat fold_left step]. apply IH.
Qed.

Lemma recv_all_steps arr : forall s, recv_all' s arr = steps' s (map (fun bn => EvBlock (fst bn) (snd bn)) arr).
Proof.
  unfold recv_all, steps. induction arr as [|x r IH]; intros s; [reflexivity|].
  cbn [map fold_left step]. apply IH.
Qed.

Lemma round_with_steps s arr :
  round_with cfg genesis_addr team_key s arr =
  steps' s (EvTick :: map (fun bn => EvBlock (fst bn) (snd bn)) arr ++
            repeat EvPost (length (sy_buf (recv_all' (fst (tick' s)) arr)))).
Proof.
  unfold round_with, flush. rewrite flush_n_steps, recv_all_steps.
  cbn [steps fold_left step]. unfold steps. rewrite fold_left_app. reflexivity.
Qed.

(* ------------------------------------------------------------------ serving *)
(* the height index of the main chain is complete up to the tip and empty above it *)
Definition height_index (n : node) : Prop :=
  (forall h, h <= top_h n -> exists b, block_at n h = Some b /\ b_height b = h) /\
  (forall h, top_h n < h -> block_at n h = None).

Lemma serve_heights_spec n : height_index n -> forall k h,
  let bs := serve_heights n h k in
  (forall i b, nth_error bs i = Some b -> block_at n (h + N.of_nat i) = Some b /\ b_height b = h + N.of_nat i) /\
  (forall i, (i < k)%nat -> h + N.of_nat i <= top_h n -> exists b, nth_error bs i = Some b) /\
  (length bs <= k)%nat /\
  (forall i, top_h n < h + N.of_nat i -> nth_error bs i = None).
Proof.
  intros [Hlow Hhigh]. induction k as [|k IH]; intros h; cbn zeta.
  - cbn [serve_heights]. split; [|split; [|split]].
    + intros [|i] b; discriminate.
    + intros i Hi. lia.
    + cbn. lia.
    + intros [|i] _; reflexivity.
  - cbn [serve_heights]. destruct (block_at n h) as [b0|] eqn:E0.
    + destruct (IH (h + 1)) as (I1 & I2 & I3 & I4). split; [|split; [|split]].
      * intros [|i] b Hb; cbn in Hb.
        -- injection Hb as <-. rewrite N.add_0_r. split; [exact E0|].
           destruct (N.le_gt_cases h (top_h n)) as [Hle|Hgt].
           ++ destruct (Hlow h Hle) as (b' & Hb' & Hh). rewrite E0 in Hb'. injection Hb' as <-. exact Hh.
           ++ rewrite (Hhigh h Hgt) in E0. discriminate.
        -- destruct (I1 i b Hb) as (A1 & A2). replace (h + N.of_nat (S i)) with (h + 1 + N.of_nat i) by lia. split; assumption.
      * intros [|i] Hi Hle; [exists b0; reflexivity|]. cbn [nth_error]. apply I2; [lia|]. lia.
      * cbn [length]. lia.
      * intros [|i] Hgt; cbn [nth_error].
        -- rewrite N.add_0_r in Hgt. rewrite (Hhigh h Hgt) in E0. discriminate.
        -- apply I4. lia.
    + split; [|split; [|split]].
      * intros [|i] b; discriminate.
      * intros i Hi Hle. exfalso.
        assert (Hh : h <= top_h n) by lia. destruct (Hlow h Hh) as (b' & Hb' & _). congruence.
      * cbn. lia.
      * intros [|i] _; reflexivity.
Qed.

(* serve_correct: a by-height request (h, count) within the protocol's bounds, sent to a node whose store satisfies the
   height-index invariant, is answered with exactly the main-chain blocks of heights h .. min (h + count, tip), in order *)
Theorem serve_correct n h c : height_index n -> c <= pbd -> h + c < two64 ->
  let bs := serve' n (ReqHeight h c) in
  (forall i b, nth_error bs i = Some b -> block_at n (h + N.of_nat i) = Some b /\ b_height b = h + N.of_nat i) /\
  (forall i, N.of_nat i <= c -> h + N.of_nat i <= top_h n -> exists b, nth_error bs i = Some b) /\
  (N.of_nat (length bs) <= c + 1) /\
  (forall i, top_h n < h + N.of_nat i -> nth_error bs i = None).
Proof.
  intros HI Hc Hw. cbn zeta. unfold serve.
  destruct (N.ltb_spec pbd c) as [Hlt|_]; [lia|].
  destruct (N.leb_spec two64 (h + c)) as [Hle|_]; [lia|].
  destruct (serve_heights_spec n HI (S (N.to_nat c)) h) as (S1 & S2 & S3 & S4). cbn zeta in *.
  split; [|split; [|split]].
  - exact S1.
  - intros i Hi Hle. apply S2; [lia|exact Hle].
  - lia.
  - exact S4.
Qed.

(* a request that exceeds the protocol's bound is not answered; a by-hash request returns that block *)
Lemma serve_count_bound n h c : pbd < c -> serve' n (ReqHeight h c) = [].
Proof. intros H. unfold serve. destruct (N.ltb_spec pbd c); [reflexivity|lia]. Qed.

Lemma serve_hash_correct n hh : serve' n (ReqHash hh) = match get_block n hh with Some b => [b] | None => [] end.
Proof. reflexivity. Qed.

(* ------------------------------------------------------------------ flush = post_block over the drain order *)
Definition post_all (s : sync) (l : list (block * N)) : sync :=
  fold_left (fun s x => post_block' s (fst x) (snd x)) l s.

Lemma post_all_set_buf l : forall s buf, post_all (set_buf s buf) l = set_buf (post_all s l) buf.
Proof.
  induction l as [|x r IH]; intros s buf; [reflexivity|].
  cbn [post_all fold_left]. rewrite post_block_set_buf. apply IH.
Qed.

Lemma flush_n_drain : forall k s, length (sy_buf s) = k ->
  flush_n' k s = post_all (set_buf s []) (drain k (sy_buf s)).
Proof.
  induction k as [|k IH]; intros s Hl.
  - cbn [flush_n drain post_all fold_left]. destruct s as [n a b c d e q buf]. cbn in Hl.
    destruct buf; [reflexivity|discriminate].
  - destruct (sy_buf s) as [|b0 r] eqn:Eb; [discriminate|].
    destruct (min_index_spec (b0 :: r) ltac:(discriminate)) as (x & Hx & _).
    cbn [flush_n]. unfold post_one at 1. rewrite Eb.
    change (drain (S k) (b0 :: r)) with
      (match nth_error (b0 :: r) (min_index (b0 :: r)) with
       | Some x => x :: drain k (swap_remove (b0 :: r) (min_index (b0 :: r))) | None => [] end).
    rewrite Hx. destruct x as [b now].
    set (buf' := swap_remove (b0 :: r) (min_index (b0 :: r))).
    assert (Hlen : length buf' = k).
    { pose proof (swap_remove_length _ _ _ Hx) as H. cbn [length] in Hl, H. unfold buf'. lia. }
    rewrite IH.
    + rewrite post_block_set_buf. cbn [sy_buf set_buf].
      cbn [post_all fold_left fst snd].
      rewrite !post_block_set_buf.
      change (set_buf (set_buf (post_block' s b now) buf') []) with (set_buf (post_block' s b now) []).
      reflexivity.
    + rewrite post_block_set_buf. cbn [sy_buf set_buf]. exact Hlen.
Qed.

Lemma flush_drain s : flush' s = post_all (set_buf s []) (drain (length (sy_buf s)) (sy_buf s)).
Proof. unfold flush. apply flush_n_drain. reflexivity. Qed.

(* batch_order_irrelevant: a batch whose blocks have pairwise distinct heights (in particular a batch of consecutive
   extension blocks) yields the same state - node, queue, everything - whatever the order in which it arrived *)
Theorem batch_order_irrelevant s buf buf' :
  Permutation buf buf' -> NoDup (map hgt buf) -> flush' (set_buf s buf) = flush' (set_buf s buf').
Proof.
  intros Hp Hnd. rewrite !flush_drain. cbn [sy_buf set_buf].
  rewrite (drain_order_irrelevant buf buf' Hp Hnd).
  reflexivity.
Qed.

(* ------------------------------------------------------------------ linear catch-up *)
Notation add_block' := (add_block cfg genesis_addr).
Notation preval := (fun x : block * N => prevalidate_block cfg team_key (fst x) (snd x) = Ok tt).

(* the node after accepting the blocks one after another *)
Fixpoint apply_ext (n : node) (bs : list block) : node :=
  match bs with
  | [] => n
  | b :: r => match add_block' n b with
              | Ok (n1, _) => apply_ext n1 r
              | _ => n
              end
  end.

(* [bs] is a chain of valid extension blocks on top of [n]: each one names the previous tip as its parent, has the
   next height and is accepted by AddBlock (all of checkBlock, the ledger application) *)
Fixpoint ext_chain (n : node) (bs : list block) : Prop :=
  match bs with
  | [] => True
  | b :: r => prev_hash b = top n /\ b_height b = top_h n + 1 /\
              exists n1, add_block' n b = Ok (n1, false) /\ ext_chain n1 r
  end.

Lemma add_block_main n b n1 amb : add_block' n b = Ok (n1, amb) -> prev_hash b = top n ->
  top n1 = b_hash b /\ top_h n1 = b_height b /\ top_cd n1 = b_cd b /\ get_block n1 (b_hash b) = Some b.
Proof.
  unfold add_block. intros H Hp. guard_inv H. opt_inv H. bind_inv H. destruct a.
  rewrite Hp, N.eqb_refl in H. bind_inv H. injection H as <- _.
  unfold add_mainchain_block in E1. bind_inv E1. injection E1 as <-.
  unfold get_block. cbn [set_topo set_blocks set_top top top_h top_cd blocks].
  repeat split. apply nget_nset_same.
Qed.

Lemma deliver_accept n b now n1 amb :
  prevalidate_block cfg team_key b now = Ok tt -> add_block' n b = Ok (n1, amb) -> deliver' n b now = (n1, Accepted, amb).
Proof. intros Hp Ha. unfold deliver. rewrite Hp, Ha. reflexivity. Qed.

Lemma deliver_dup n b now x :
  prevalidate_block cfg team_key b now = Ok tt -> get_block n (b_hash b) = Some x -> deliver' n b now = (n, Rejected 761, false).
Proof. intros Hp Hg. unfold deliver. rewrite Hp. unfold add_block. rewrite Hg. reflexivity. Qed.

Lemma post_block_dup s b now x :
  prevalidate_block cfg team_key b now = Ok tt -> get_block (sy_node s) (b_hash b) = Some x -> sy_queue s = [] ->
  post_block' s b now = s.
Proof.
  intros Hp Hg Hq. unfold post_block. rewrite (deliver_dup _ _ _ _ Hp Hg).
  destruct s as [n a c d e f q buf]. cbn in *. subst q. reflexivity.
Qed.

Lemma post_block_accept s b now n1 amb :
  prevalidate_block cfg team_key b now = Ok tt -> add_block' (sy_node s) b = Ok (n1, amb) ->
  post_block' s b now = set_node s n1.
Proof.
  intros Hp Ha. unfold post_block. rewrite (deliver_accept _ _ _ _ _ Hp Ha).
  destruct s as [n a c d e f q buf]. reflexivity.
Qed.

Lemma ext_chain_heights_ge : forall bs n, ext_chain n bs -> forall c, In c bs -> top_h n + 1 <= b_height c.
Proof.
  induction bs as [|b r IH]; intros n H c Hc; [destruct Hc|].
  destruct H as (Hp & Hh & n1 & Ha & Hr). destruct Hc as [<-|Hc]; [lia|].
  destruct (add_block_main _ _ _ _ Ha Hp) as (_ & Hth & _).
  specialize (IH n1 Hr c Hc). lia.
Qed.

Lemma ext_chain_height_inj : forall bs n, ext_chain n bs -> forall c c', In c bs -> In c' bs -> b_height c = b_height c' -> c = c'.
Proof.
  induction bs as [|b r IH]; intros n H c c' Hc Hc' Heq; [destruct Hc|].
  destruct H as (Hp & Hh & n1 & Ha & Hr).
  destruct (add_block_main _ _ _ _ Ha Hp) as (_ & Hth & _).
  destruct Hc as [<-|Hc], Hc' as [<-|Hc']; try reflexivity.
  - pose proof (ext_chain_heights_ge r n1 Hr c' Hc'). lia.
  - pose proof (ext_chain_heights_ge r n1 Hr c Hc). lia.
  - eapply IH; eassumption.
Qed.

Lemma ext_chain_app : forall l1 n l2, ext_chain n (l1 ++ l2) -> ext_chain n l1 /\ ext_chain (apply_ext n l1) l2.
Proof.
  induction l1 as [|b r IH]; intros n l2 H; [split; [exact I|exact H]|].
  cbn [app ext_chain] in H. destruct H as (Hp & Hh & n1 & Ha & Hr).
  destruct (IH n1 l2 Hr) as (H1 & H2). split.
  - cbn [ext_chain]. split; [exact Hp|]. split; [exact Hh|]. exists n1. split; assumption.
  - cbn [apply_ext]. rewrite Ha. exact H2.
Qed.

Lemma apply_ext_app : forall l1 n l2, ext_chain n l1 -> apply_ext n (l1 ++ l2) = apply_ext (apply_ext n l1) l2.
Proof.
  induction l1 as [|b r IH]; intros n l2 H; [reflexivity|].
  destruct H as (Hp & Hh & n1 & Ha & Hr). cbn [app apply_ext]. rewrite Ha. apply IH. exact Hr.
Qed.

Lemma apply_ext_top_h : forall l n, ext_chain n l -> top_h (apply_ext n l) = top_h n + N.of_nat (length l).
Proof.
  induction l as [|b r IH]; intros n H; [cbn; lia|].
  destruct H as (Hp & Hh & n1 & Ha & Hr). cbn [apply_ext length]. rewrite Ha, (IH n1 Hr).
  destruct (add_block_main _ _ _ _ Ha Hp) as (_ & Hth & _). lia.
Qed.

Lemma apply_ext_top : forall l n d, ext_chain n l -> l <> [] -> top (apply_ext n l) = b_hash (last l d).
Proof.
  induction l as [|b r IH]; intros n d H Hne; [congruence|].
  destruct H as (Hp & Hh & n1 & Ha & Hr). cbn [apply_ext]. rewrite Ha.
  destruct r as [|b' r'].
  - cbn. destruct (add_block_main _ _ _ _ Ha Hp) as (Ht & _). exact Ht.
  - rewrite (IH n1 d Hr ltac:(discriminate)). reflexivity.
Qed.

Lemma sorted_tail_ge (L : list (block * N)) x y :
  StronglySorted (fun a b => hgt a <= hgt b) (x :: L) -> In y (x :: L) -> hgt x <= hgt y.
Proof.
  intros HS [<-|Hy]; [lia|]. pose proof (StronglySorted_inv HS) as [_ F]. rewrite Forall_forall in F. apply F. exact Hy.
Qed.

(* after the first block of the segment is in, further copies of it (which come first in height order) are refused as
   duplicates; what remains is a batch for the rest of the segment *)
Lemma skip_dups c0 seg' n1 : get_block n1 (b_hash c0) = Some c0 -> (forall c, In c seg' -> b_height c0 < b_height c) ->
  forall L1, StronglySorted (fun a b => hgt a <= hgt b) L1 ->
  (forall x, In x L1 -> (fst x = c0 \/ In (fst x) seg') /\ preval x) ->
  forall s1, sy_node s1 = n1 -> sy_queue s1 = [] ->
  exists D L2, L1 = D ++ L2 /\ (forall d, In d D -> fst d = c0) /\ (forall x, In x L2 -> In (fst x) seg') /\
               post_all s1 L1 = post_all s1 L2.
Proof.
  intros Hst Hgt. induction L1 as [|y L1' IH]; intros HS Hel s1 Hn Hq.
  - exists [], []. repeat split; intros ? [].
  - destruct (Hel y (or_introl eq_refl)) as ([Hy|Hy] & Hpy).
    + (* a copy of c0 *)
      pose proof (StronglySorted_inv HS) as [HS' _].
      destruct (IH HS' (fun x Hx => Hel x (or_intror Hx)) s1 Hn Hq) as (D & L2 & E & HD & HL2 & Hpost).
      exists (y :: D), L2. split; [cbn; rewrite E; reflexivity|]. split.
      * intros d [<-|Hd]; [exact Hy|apply HD; exact Hd].
      * split; [exact HL2|].
        cbn [post_all fold_left]. destruct y as [yb ynow]. cbn [fst snd] in *. subst yb.
        rewrite (post_block_dup s1 c0 ynow c0 Hpy); [exact Hpost| |exact Hq]. rewrite Hn. exact Hst.
    + (* the first block above c0: everything from here on is above c0 *)
      exists [], (y :: L1'). split; [reflexivity|]. split; [intros ? []|]. split; [|reflexivity].
      intros x Hx. destruct (Hel x Hx) as ([Hxc|Hxs] & _); [|exact Hxs].
      exfalso. pose proof (sorted_tail_ge _ _ _ HS Hx) as Hle. unfold hgt in Hle. rewrite Hxc in Hle.
      specialize (Hgt _ Hy). lia.
Qed.

Lemma sorted_app_r {A} (R : A -> A -> Prop) (l1 l2 : list A) : StronglySorted R (l1 ++ l2) -> StronglySorted R l2.
Proof. induction l1 as [|x r IH]; intros H; [exact H|]. inversion H; subst. apply IH. assumption. Qed.

(* a batch that consists of the blocks of a valid extension segment - each at least once, in any multiplicity -
   handed to the post-processor in height order leaves the node as if the segment had been received block by block *)
Lemma post_all_sorted : forall seg n s L,
  ext_chain n seg -> sy_node s = n -> sy_queue s = [] ->
  StronglySorted (fun a b => hgt a <= hgt b) L ->
  (forall x, In x L -> In (fst x) seg /\ preval x) ->
  (forall c, In c seg -> exists now, In (c, now) L) ->
  post_all s L = set_node s (apply_ext n seg).
Proof.
  induction seg as [|c0 seg' IH]; intros n s L Hext Hn Hq HS Hel Hcov.
  - destruct L as [|x L']; [|destruct (Hel x (or_introl eq_refl)) as ([] & _)].
    cbn. destruct s as [n' a c d e f q buf]. cbn in *. subst. reflexivity.
  - destruct Hext as (Hp & Hh & n1 & Ha & Hr).
    destruct (add_block_main _ _ _ _ Ha Hp) as (Ht1 & Hth1 & _ & Hst).
    assert (Hgt : forall c, In c seg' -> b_height c0 < b_height c).
    { intros c Hc. pose proof (ext_chain_heights_ge _ _ Hr c Hc). lia. }
    destruct (Hcov c0 (or_introl eq_refl)) as (now0 & Hin0).
    destruct L as [|x L1]; [destruct Hin0|].
    (* the first block in height order is c0 *)
    assert (Hx : fst x = c0).
    { destruct (Hel x (or_introl eq_refl)) as ([Hx|Hx] & _); [symmetry; exact Hx|].
      exfalso. pose proof (sorted_tail_ge _ _ _ HS Hin0) as Hle. unfold hgt in Hle. cbn [fst] in Hle.
      specialize (Hgt _ Hx). lia. }
    destruct (Hel x (or_introl eq_refl)) as (_ & Hpx).
    destruct x as [xb xnow]. cbn [fst snd] in *. subst xb.
    cbn [post_all fold_left fst snd]. pose proof Ha as Ha'. rewrite <- Hn in Ha'.
    rewrite (post_block_accept s c0 xnow n1 false Hpx Ha').
    pose proof (StronglySorted_inv HS) as [HS1 _].
    destruct (skip_dups c0 seg' n1 Hst Hgt L1 HS1) with (s1 := set_node s n1) as (D & L2 & E & HD & HL2 & Hpost).
    + intros y Hy. destruct (Hel y (or_intror Hy)) as ([Hy1|Hy1] & Hpy); (split; [|exact Hpy]); [left; symmetry; exact Hy1|right; exact Hy1].
    + reflexivity.
    + exact Hq.
    + change (fold_left (fun s x => post_block' s (fst x) (snd x)) L1 (set_node s n1)) with (post_all (set_node s n1) L1).
      rewrite Hpost. rewrite (IH n1 (set_node s n1) L2 Hr eq_refl Hq).
      * cbn [apply_ext]. rewrite Ha. destruct s as [n' a c d e f q buf]. reflexivity.
      * rewrite E in HS1. eapply sorted_app_r. exact HS1.
      * intros y Hy. split; [apply HL2; exact Hy|]. apply (Hel y). right. rewrite E. apply in_or_app. right. exact Hy.
      * intros c Hc. destruct (Hcov c (or_intror Hc)) as (now & Hin).
        exists now. destruct Hin as [Heq|Hin].
        -- injection Heq as Heq _. specialize (Hgt c Hc). rewrite Heq in Hgt. lia.
        -- rewrite E in Hin. apply in_app_or in Hin. destruct Hin as [Hin|Hin]; [|exact Hin].
           specialize (HD _ Hin). cbn [fst] in HD. specialize (Hgt c Hc). rewrite HD in Hgt. lia.
Qed.

(* the answers of a round arrive duplicated and reordered at will; every copy passes prevalidation with the clock
   reading it meets *)
Definition arrival_ok (answers : list block) (arr : list (block * N)) : Prop :=
  (forall x, In x arr -> In (fst x) answers /\ preval x) /\
  (forall b, In b answers -> exists now, In (b, now) arr).

Lemma recv_all_ok : forall arr s, (forall x, In x arr -> preval x) -> recv_all' s arr = set_buf s (sy_buf s ++ arr).
Proof.
  induction arr as [|x r IH]; intros s H.
  - cbn. rewrite app_nil_r. destruct s; reflexivity.
  - pose proof (H x (or_introl eq_refl)) as Hx. cbn beta in Hx.
    change (recv_all' s (x :: r)) with (recv_all' (recv_block' s (fst x) (snd x)) r).
    rewrite IH; [|intros y Hy; apply H; right; exact Hy].
    unfold recv_block. rewrite Hx. cbn [sy_buf set_buf]. rewrite <- app_assoc.
    destruct s, x; reflexivity.
Qed.

(* flushing a buffer that holds the blocks of a valid extension segment *)
Lemma flush_segment seg s arr :
  ext_chain (sy_node s) seg -> sy_queue s = [] -> arrival_ok seg arr ->
  flush' (set_buf s arr) = set_node (set_buf s []) (apply_ext (sy_node s) seg).
Proof.
  intros Hext Hq [Hel Hcov]. rewrite flush_drain. cbn [sy_buf set_buf].
  set (L := drain (length arr) arr).
  assert (HP : Permutation arr L) by (apply drain_perm; reflexivity).
  apply post_all_sorted.
  - exact Hext.
  - reflexivity.
  - exact Hq.
  - apply drain_sorted. reflexivity.
  - intros x Hx. apply Hel. eapply Permutation_in; [apply Permutation_sym; exact HP|exact Hx].
  - intros c Hc. destruct (Hcov c Hc) as (now & Hin). exists now. eapply Permutation_in; [exact HP|exact Hin].
Qed.

(* ---- request rounds against a peer whose chain is ours plus the extension [bs] ---- *)
Lemma skipn_nth_some {A} : forall (l : list A) j b, nth_error l j = Some b -> skipn j l = b :: skipn (S j) l.
Proof.
  induction l as [|x r IH]; intros [|j] b H; cbn in H; try discriminate.
  - injection H as <-. reflexivity.
  - cbn [skipn]. rewrite (IH j b H). reflexivity.
Qed.
Lemma skipn_nth_none {A} : forall (l : list A) j, nth_error l j = None -> skipn j l = [].
Proof.
  induction l as [|x r IH]; intros [|j] H; cbn in H; try discriminate; try reflexivity.
  cbn [skipn]. apply IH. exact H.
Qed.

(* ---- the node that received the extension serves it: its height index above the old tip is the extension ---- *)
Lemma add_block_main_store n b n1 amb : add_block' n b = Ok (n1, amb) -> prev_hash b = top n ->
  get_block n (b_hash b) = None /\ topo n1 = nset (topo n) (b_height b) (b_hash b) /\ blocks n1 = nset (blocks n) (b_hash b) b.
Proof.
  unfold add_block. intros H Hp. guard_inv H. opt_inv H. bind_inv H. destruct a.
  rewrite Hp, N.eqb_refl in H. bind_inv H. injection H as <- _.
  unfold add_mainchain_block in E1. bind_inv E1. injection E1 as <-.
  unfold apply_block_node in E2. bind_inv E2. injection E2 as <-.
  cbn [set_topo set_blocks set_top set_ldg topo blocks].
  split; [destruct (get_block n (b_hash b)); [discriminate|reflexivity]|].
  split; reflexivity.
Qed.

(* extending the chain keeps what is stored and indexed below *)
Lemma apply_ext_keeps : forall bs n, ext_chain n bs ->
  (forall hh x, get_block n hh = Some x -> get_block (apply_ext n bs) hh = Some x) /\
  (forall h, h <= top_h n -> get_topo (apply_ext n bs) h = get_topo n h).
Proof.
  induction bs as [|b r IH]; intros n H; [split; intros; [assumption|reflexivity]|].
  destruct H as (Hp & Hh & n1 & Ha & Hr). cbn [apply_ext]. rewrite Ha.
  destruct (add_block_main_store _ _ _ _ Ha Hp) as (Hnew & Ht & Hb).
  destruct (add_block_main _ _ _ _ Ha Hp) as (_ & Hth & _).
  destruct (IH n1 Hr) as (K1 & K2). split.
  - intros hh x Hx. apply K1. unfold get_block. rewrite Hb, nget_nset.
    destruct (N.eqb_spec hh (b_hash b)) as [->|_]; [congruence|exact Hx].
  - intros h Hle. rewrite K2 by lia. unfold get_topo. rewrite Ht, nget_nset.
    destruct (N.eqb_spec h (b_height b)); [lia|reflexivity].
Qed.

Lemma apply_ext_block_at : forall bs n, ext_chain n bs -> (forall h, top_h n < h -> get_topo n h = None) ->
  forall i, block_at (apply_ext n bs) (top_h n + 1 + N.of_nat i) = nth_error bs i.
Proof.
  induction bs as [|b r IH]; intros n H Hnone i.
  - cbn [apply_ext]. unfold block_at. rewrite Hnone by lia. destruct i; reflexivity.
  - destruct H as (Hp & Hh & n1 & Ha & Hr). cbn [apply_ext]. rewrite Ha.
    destruct (add_block_main_store _ _ _ _ Ha Hp) as (Hnew & Ht & Hb).
    destruct (add_block_main _ _ _ _ Ha Hp) as (_ & Hth & _ & Hst).
    destruct i as [|i].
    + cbn [nth_error]. rewrite N.add_0_r, <- Hh. destruct (apply_ext_keeps r n1 Hr) as (K1 & K2).
      unfold block_at. rewrite K2 by lia. unfold get_topo. rewrite Ht, nget_nset_same. apply K1. exact Hst.
    + cbn [nth_error]. replace (top_h n + 1 + N.of_nat (S i)) with (top_h n1 + 1 + N.of_nat i) by lia.
      apply IH; [exact Hr|]. intros h Hlt. unfold get_topo. rewrite Ht, nget_nset.
      destruct (N.eqb_spec h (b_height b)); [lia|]. apply Hnone. lia.
Qed.

(* the executable premise (evaluated on the chains of the live runs by Check/C11.v) implies the premises of sync_linear *)
Lemma linear_chain_b_ext : forall bs n, linear_chain_b cfg genesis_addr n bs = true -> ext_chain n bs.
Proof.
  induction bs as [|b r IH]; intros n H; [exact I|].
  cbn [linear_chain_b] in H. apply andb_prop in H as [H H3]. apply andb_prop in H as [H1 H2].
  apply N.eqb_eq in H1, H2.
  destruct (add_block' n b) as [[n1 [|]]| |] eqn:Ea; try discriminate.
  apply andb_prop in H3 as [_ H4].
  cbn [ext_chain]. split; [exact H1|]. split; [exact H2|]. exists n1. split; [exact Ea|apply IH; exact H4].
Qed.

Lemma linear_chain_b_app : forall l1 n l2, linear_chain_b cfg genesis_addr n (l1 ++ l2) = true ->
  linear_chain_b cfg genesis_addr (apply_ext n l1) l2 = true.
Proof.
  induction l1 as [|b r IH]; intros n l2 H; [exact H|].
  cbn [app linear_chain_b] in H. apply andb_prop in H as [_ H3].
  cbn [apply_ext]. destruct (add_block' n b) as [[n1 [|]]| |] eqn:Ea; try discriminate.
  apply andb_prop in H3 as [_ H4]. apply IH. exact H4.
Qed.

Lemma linear_chain_b_grows : forall bs n, linear_chain_b cfg genesis_addr n bs = true -> bs <> [] ->
  top_cd n < top_cd (apply_ext n bs).
Proof.
  induction bs as [|b r IH]; intros n H Hne; [congruence|].
  cbn [linear_chain_b] in H. apply andb_prop in H as [_ H3].
  cbn [apply_ext]. destruct (add_block' n b) as [[n1 [|]]| |] eqn:Ea; try discriminate.
  apply andb_prop in H3 as [Hlt H4]. apply N.ltb_lt in Hlt.
  destruct r as [|b' r']; [exact Hlt|]. specialize (IH n1 H4 ltac:(discriminate)). lia.
Qed.

Lemma linear_chain_b_heavy n0 bs : linear_chain_b cfg genesis_addr n0 bs = true ->
  forall done todo, bs = done ++ todo -> todo <> [] -> top_cd (apply_ext n0 done) < top_cd (apply_ext n0 bs).
Proof.
  intros H done todo -> Hne.
  pose proof (linear_chain_b_ext _ _ H) as Hext.
  rewrite (apply_ext_app done n0 todo (proj1 (ext_chain_app _ _ _ Hext))).
  apply linear_chain_b_grows; [apply linear_chain_b_app; exact H|exact Hne].
Qed.

Section Linear.
Variable peer n0 : node.
Variable bs : list block.
Notation h0 := (top_h n0).
Notation round_with' := (round_with cfg genesis_addr team_key).

(* the extension is valid on top of our chain *)
Hypothesis Hext : ext_chain n0 bs.
(* the peer's main chain above our height consists of exactly these blocks (its height index is the one of serve_correct) *)
Hypothesis Hpeer : forall i, block_at peer (h0 + 1 + N.of_nat i) = nth_error bs i.
(* heights stay far below 2^64 *)
Hypothesis Hbound : h0 + N.of_nat (length bs) + 1 < two64.
(* the peer's chain is heavier than every proper prefix of it *)
Hypothesis Hheavy : forall done todo, bs = done ++ todo -> todo <> [] ->
  top_cd (apply_ext n0 done) < top_cd (apply_ext n0 bs).

Lemma serve_heights_peer : forall m j, serve_heights peer (h0 + 1 + N.of_nat j) m = firstn m (skipn j bs).
Proof.
  induction m as [|m IH]; intros j; [reflexivity|].
  cbn [serve_heights]. rewrite Hpeer. destruct (nth_error bs j) as [b|] eqn:E.
  - rewrite (skipn_nth_some _ _ _ E). cbn [firstn]. f_equal.
    replace (h0 + 1 + N.of_nat j + 1) with (h0 + 1 + N.of_nat (S j)) by lia. apply IH.
  - rewrite (skipn_nth_none _ _ E). reflexivity.
Qed.

(* the state between rounds: [done] is in, [todo] is still to come *)
Definition lin_inv (s : sync) (done todo : list block) : Prop :=
  bs = done ++ todo /\ sy_node s = apply_ext n0 done /\
  sy_height s = h0 + N.of_nat (length bs) /\ sy_diff s = top_cd (apply_ext n0 bs) /\
  sy_last s <= h0 + N.of_nat (length done) /\ sy_queue s = [] /\ sy_buf s = [].

Lemma lin_tick s done todo : lin_inv s done todo -> todo <> [] ->
  let t := h0 + N.of_nat (length done) in
  let count := N.min (N.of_nat (length todo)) pbd in
  tick' s = (set_last s (t + count) 0, [ReqHeight (t + 1) count]).
Proof.
  intros (Hbs & Hn & Hh & Hd & Hl & Hq & Hb) Hne. cbn zeta.
  assert (Hdone : ext_chain n0 done) by (rewrite Hbs in Hext; apply (ext_chain_app _ _ _ Hext)).
  assert (Hth : top_h (sy_node s) = h0 + N.of_nat (length done)) by (rewrite Hn; apply apply_ext_top_h; exact Hdone).
  assert (Hlen : length bs = (length done + length todo)%nat) by (rewrite Hbs; apply app_length).
  assert (Hpos : (0 < length todo)%nat) by (destruct todo; [congruence|cbn; lia]).
  unfold tick. rewrite Hd, Hn.
  destruct (N.leb_spec (top_cd (apply_ext n0 bs)) (top_cd (apply_ext n0 done))) as [Hle|_].
  { pose proof (Hheavy done todo Hbs Hne). lia. }
  rewrite Hq. unfold tick_height. rewrite Hth, Hh.
  destruct (N.ltb_spec (h0 + N.of_nat (length done)) (sy_last s)) as [Hlt|_]; [lia|].
  cbn [andb].
  replace (N.max (sy_last s) (h0 + N.of_nat (length done))) with (h0 + N.of_nat (length done)) by lia.
  destruct (N.ltb_spec (h0 + N.of_nat (length done)) (h0 + N.of_nat (length bs))) as [_|Hge]; [|lia].
  replace (h0 + N.of_nat (length bs) - (h0 + N.of_nat (length done))) with (N.of_nat (length todo)) by lia.
  reflexivity.
Qed.

Lemma lin_round s done todo arr : lin_inv s done todo -> todo <> [] ->
  arrival_ok (flat_map (serve' peer) (snd (tick' s))) arr ->
  exists done' todo', lin_inv (round_with' s arr) done' todo' /\ (length todo' < length todo)%nat.
Proof.
  intros Hinv Hne Harr. pose proof (lin_tick s done todo Hinv Hne) as Ht. cbn zeta in Ht.
  destruct Hinv as (Hbs & Hn & Hh & Hd & Hl & Hq & Hb).
  assert (Hdone : ext_chain n0 done) by (rewrite Hbs in Hext; apply (ext_chain_app _ _ _ Hext)).
  assert (Htodo : ext_chain (apply_ext n0 done) todo) by (rewrite Hbs in Hext; apply (ext_chain_app _ _ _ Hext)).
  assert (Hlen : length bs = (length done + length todo)%nat) by (rewrite Hbs; apply app_length).
  assert (Hpos : (0 < length todo)%nat) by (destruct todo; [congruence|cbn; lia]).
  set (count := N.min (N.of_nat (length todo)) pbd) in *.
  set (cnt := N.to_nat count).
  set (seg := firstn (S cnt) todo). set (rest := skipn (S cnt) todo).
  assert (Hsplit : todo = seg ++ rest) by (symmetry; apply firstn_skipn).
  (* what the peer answers *)
  assert (Hans : flat_map (serve' peer) (snd (tick' s)) = seg).
  { rewrite Ht. cbn [snd flat_map]. rewrite app_nil_r. unfold serve.
    destruct (N.ltb_spec pbd count) as [Hlt|_]; [unfold count in Hlt; lia|].
    destruct (N.leb_spec two64 (h0 + N.of_nat (length done) + 1 + count)) as [Hle|_]; [unfold count in Hle; lia|].
    replace (h0 + N.of_nat (length done) + 1) with (h0 + 1 + N.of_nat (length done)) by lia.
    rewrite serve_heights_peer. rewrite Hbs.
    rewrite skipn_app, skipn_all, Nat.sub_diag. reflexivity. }
  rewrite Hans in Harr.
  unfold round_with. rewrite Ht. cbn [fst].
  set (s1 := set_last s (h0 + N.of_nat (length done) + count) 0).
  rewrite (recv_all_ok arr s1) by (intros x Hx; apply (proj1 Harr x Hx)).
  assert (Hb1 : sy_buf s1 = []) by exact Hb. rewrite Hb1. cbn [app].
  assert (Hseg : ext_chain (sy_node s1) seg).
  { change (sy_node s1) with (sy_node s). rewrite Hn. rewrite Hsplit in Htodo. apply (ext_chain_app _ _ _ Htodo). }
  rewrite (flush_segment seg s1 arr Hseg Hq Harr).
  exists (done ++ seg), rest. split.
  - unfold lin_inv. cbn [sy_node sy_height sy_diff sy_last sy_queue sy_buf set_node set_buf set_last s1].
    split; [rewrite <- app_assoc, <- Hsplit; exact Hbs|].
    split; [rewrite Hn; symmetry; apply apply_ext_app; exact Hdone|].
    split; [exact Hh|]. split; [exact Hd|]. split; [|split; [exact Hq|reflexivity]].
    rewrite app_length. unfold seg. rewrite firstn_length. unfold cnt, count. lia.
  - unfold rest. rewrite skipn_length. lia.
Qed.

(* once the chains are equal the scheduler is silent and nothing changes *)
Lemma lin_stable s arr : lin_inv s bs [] -> arrival_ok (flat_map (serve' peer) (snd (tick' s))) arr -> round_with' s arr = s.
Proof.
  intros (Hbs & Hn & Hh & Hd & Hl & Hq & Hb) Harr.
  assert (Ht : tick' s = (s, [])).
  { unfold tick. rewrite Hd, Hn. destruct (N.leb_spec (top_cd (apply_ext n0 bs)) (top_cd (apply_ext n0 bs))); [reflexivity|lia]. }
  rewrite Ht in Harr. cbn [snd flat_map] in Harr.
  assert (arr = []) by (destruct arr as [|x r]; [reflexivity|destruct (proj1 Harr x (or_introl eq_refl)) as ([] & _)]).
  subst arr. unfold round_with. rewrite Ht. cbn [fst recv_all fold_left]. unfold flush. rewrite Hb. reflexivity.
Qed.

Inductive lin_rounds : nat -> sync -> sync -> Prop :=
| LR0 s : lin_rounds O s s
| LRS m s arr s' : arrival_ok (flat_map (serve' peer) (snd (tick' s))) arr ->
                   lin_rounds m (round_with' s arr) s' -> lin_rounds (S m) s s'.

Lemma lin_rounds_inv : forall m s s' done todo, lin_inv s done todo -> lin_rounds m s s' -> (length todo <= m)%nat ->
  lin_inv s' bs [].
Proof.
  induction m as [|m IH]; intros s s' done todo Hinv Hr Hm.
  - inversion Hr; subst. destruct todo; [|cbn in Hm; lia].
    destruct Hinv as (Hbs & Hrest). rewrite app_nil_r in Hbs. subst done. split; [symmetry; apply app_nil_r|exact Hrest].
  - inversion Hr as [|? ? arr ? Harr Hr']; subst.
    destruct todo as [|c todo'].
    + assert (Hd : done = bs) by (destruct Hinv as (Hbs & _); rewrite app_nil_r in Hbs; congruence). subst done.
      rewrite (lin_stable s arr Hinv Harr) in Hr'. apply (IH s s' bs [] Hinv Hr'). cbn. lia.
    + destruct (lin_round s done (c :: todo') arr Hinv ltac:(discriminate) Harr) as (done' & todo'' & Hinv' & Hlt).
      apply (IH _ s' done' todo'' Hinv' Hr'). cbn [length] in *. lia.
Qed.

(* sync_linear: a node whose target is the announcement of a peer holding our chain plus the valid extension [bs],
   with an idle scheduler, ends - after at most one request round per missing block (each round in fact brings up to
   PARALLEL_BLOCKS_DOWNLOAD+1 blocks: the measure "peer height - our height" strictly decreases), whatever
   duplication and reordering the answers of each round suffer - exactly as if it had received the extension block by
   block; its tip is the last block of the extension. *)
Theorem sync_linear : forall m s s',
  sy_node s = n0 -> sy_height s = h0 + N.of_nat (length bs) -> sy_diff s = top_cd (apply_ext n0 bs) ->
  sy_last s <= h0 -> sy_queue s = [] -> sy_buf s = [] ->
  lin_rounds m s s' -> (length bs <= m)%nat ->
  sy_node s' = apply_ext n0 bs /\ sy_queue s' = [] /\ sy_buf s' = [] /\
  (forall d, bs <> [] -> top (sy_node s') = b_hash (last bs d)) /\
  top_h (sy_node s') = h0 + N.of_nat (length bs).
Proof.
  intros m s s' Hn Hh Hd Hl Hq Hb Hr Hm.
  assert (Hinv : lin_inv s [] bs).
  { unfold lin_inv. cbn [app length apply_ext]. repeat split; try assumption. cbn. lia. }
  destruct (lin_rounds_inv m s s' [] bs Hinv Hr Hm) as (_ & Hn' & _ & _ & _ & Hq' & Hb').
  split; [exact Hn'|]. split; [exact Hq'|]. split; [exact Hb'|]. split.
  - intros d Hne. rewrite Hn'. apply apply_ext_top; assumption.
  - rewrite Hn'. apply apply_ext_top_h. exact Hext.
Qed.

End Linear.

(* the same with the peer being the very node that received the extension before us: we end equal to it - tip, height,
   cumulative difficulty, indexes and ledger *)
Corollary sync_linear_same_as_peer n0 bs m s s' :
  ext_chain n0 bs -> (forall h, top_h n0 < h -> get_topo n0 h = None) ->
  top_h n0 + N.of_nat (length bs) + 1 < two64 ->
  (forall done todo, bs = done ++ todo -> todo <> [] -> top_cd (apply_ext n0 done) < top_cd (apply_ext n0 bs)) ->
  let peer := apply_ext n0 bs in
  sy_node s = n0 -> sy_height s = top_h peer -> sy_diff s = top_cd peer ->
  sy_last s <= top_h n0 -> sy_queue s = [] -> sy_buf s = [] ->
  lin_rounds peer m s s' -> (length bs <= m)%nat ->
  sy_node s' = peer.
Proof.
  intros Hext Hnone Hb Hheavy peer Hn Hh Hd Hl Hq Hbuf Hr Hm.
  unfold peer in Hh. rewrite (apply_ext_top_h _ _ Hext) in Hh.
  destruct (sync_linear peer n0 bs Hext (apply_ext_block_at bs n0 Hext Hnone) Hb Hheavy m s s' Hn Hh Hd Hl Hq Hbuf Hr Hm) as (H & _).
  exact H.
Qed.

(* ---- across a fork: what is proved and what is not ---- *)
(* PROVED (partial): in every execution, once the peer's tip block [pb] has been accepted into the store the node's
   tip is at least as heavy; and if every other stored block is strictly lighter the node's tip IS the peer's tip.
   Missing for the full statement: that the request rounds (orphan -> parent queued by hash and height -> by-height
   re-request after the wait counter expires) do lead to the acceptance of every block of the peer's branch. *)
Theorem sync_fork_partial s es p pb :
  FInv (sy_node s) ->
  let n := sy_node (steps' s es) in
  get_block n p = Some pb ->
  b_cd pb <= top_cd n /\
  ((forall h b, get_block n h = Some b -> h <> p -> b_cd b < b_cd pb) -> top n = p).
Proof.
  intros Hinv n Hp. destruct (sync_preserves_FInv es s Hinv) as ((t & Ht & Hcd) & _ & Hmax). fold n in Ht, Hcd, Hmax.
  split; [apply (Hmax p pb Hp)|].
  intros Hlight. destruct (N.eq_dec (top n) p) as [E|E]; [exact E|].
  pose proof (Hlight _ _ Ht E). pose proof (Hmax p pb Hp). lia.
Qed.

(* NOT PROVED (kept as a statement): catching up across a fork.  [common] is the part of the peer's chain we share,
   [theirs] the valid branch of the peer above it; fair = every request of [tick] is answered by [serve peer] and
   the answers are flushed before the next iteration. *)
Definition sync_fork_full : Prop :=
  forall (peer : node) (s : sync) (theirs : list block),
    FInv (sy_node s) -> height_index peer ->
    (exists common, ext_chain common theirs /\ apply_ext common theirs = peer /\
                    forall hh x, get_block common hh = Some x -> get_block (sy_node s) hh = Some x) ->
    (forall h b, get_block (sy_node s) h = Some b -> b_cd b < top_cd peer) ->
    sy_queue s = [] -> sy_buf s = [] ->
    exists bound, forall now, (forall b, In b theirs -> prevalidate_block cfg team_key b now = Ok tt) ->
      top (sy_node (fst (sim cfg genesis_addr team_key bound peer s [] now))) = top peer.

End SyncProofs.

(* statements without the unused section variable, for Props/C11.v *)
Lemma extended_node_serves_extension cfg genesis_addr bs n :
  ext_chain cfg genesis_addr n bs -> (forall h, top_h n < h -> get_topo n h = None) ->
  forall i, block_at (apply_ext cfg genesis_addr n bs) (top_h n + 1 + N.of_nat i) = nth_error bs i.
Proof. exact (apply_ext_block_at cfg genesis_addr 0 bs n). Qed.

Lemma linear_premises_sound cfg genesis_addr n0 bs :
  linear_chain_b cfg genesis_addr n0 bs = true ->
  ext_chain cfg genesis_addr n0 bs /\
  (forall done todo, bs = done ++ todo -> todo <> [] ->
     top_cd (apply_ext cfg genesis_addr n0 done) < top_cd (apply_ext cfg genesis_addr n0 bs)).
Proof. intros H. split; [eapply linear_chain_b_ext; exact H|eapply linear_chain_b_heavy; exact H]. Qed.
