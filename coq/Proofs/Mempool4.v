(* Property C09, simulation part, consequences of the general theorem: the transaction list chosen by GetBlockTemplate
   (every entry validated against the entries chosen before it) is applied in order, without error, by the transaction
   loop of ApplyBlockToState on the node's ledger at the template's height. *)
From Virel Require Import Lib.Config Lib.U64 Lib.AMap Lib.CheckLib Model.Emission Model.Ledger Model.Node Model.Mempool
  Proofs.AMapLemmas Proofs.Conservation Proofs.Staking Proofs.StakedSum Proofs.Mempool Proofs.Mempool2 Proofs.MempoolPot
  Proofs.Mempool3.
Open Scope N_scope.
Open Scope bool_scope.

Section Chain.
Variable cfg : config.
Hypothesis Hok : cfg_ok_c09 cfg = true.

(* what Prevalidate establishes of a well-typed transaction *)
Definition tx_adm (t : tx) : Prop := tx_good cfg t /\ tx_vsize cfg t <= max_tx_size cfg.

Lemma prevalidate_adm tk t h : tx_typed t -> wf_tx cfg t -> prevalidate_tx cfg tk t h = Ok tt -> tx_adm t.
Proof.
  intros Hty Hwf H. unfold prevalidate_tx in H.
  guard_inv H. guard_inv H. guard_inv H. guard_inv H. guard_inv H. bind_inv H. opt_inv H.
  split; [|apply N.leb_le; exact G].
  split; [exact Hty|]. split; [exact Hwf|]. split; [congruence|].
  intros nl nm Hd. rewrite Hd in E. guard_inv E. guard_inv E. discriminate G5.
Qed.

Lemma apply_all_app l a b h : apply_all cfg l (a ++ b) h = (l' <- apply_all cfg l a h ;; apply_all cfg l' b h).
Proof.
  revert l. induction a as [|t a IH]; intros l; cbn [app apply_all]; [reflexivity|].
  destruct (apply_tx cfg l t h 0 (h - 1)); cbn [bind]; [apply IH|reflexivity|reflexivity].
Qed.

Lemma entry_rel_id t e : entry_rel cfg t e -> me_id e = tx_id t.
Proof. intros (exp & He). unfold entry_of_tx in He. bind_inv He. injection He as <-. reflexivity. Qed.

Section Select.
Variable l : ledger.
Variable store : list (N * tx).
Variable h : N.
Hypothesis Hh : 0 < h < two64.
Hypothesis Hli : linv l.
Hypothesis Hbs : staked l + total_bal l < two64.

(* the entries chosen so far and their transactions *)
Definition chosen (valid : list mentry) (txs : list tx) (lp : ledger) : Prop :=
  Forall2 (entry_rel cfg) txs valid /\ Forall tx_adm txs /\ (forall t, In t txs -> nget store (tx_id t) = Some t) /\
  apply_all cfg l txs h = Ok lp.

Lemma select_txs_chosen es : forall totsize valid txs valid' txs' lp,
  (forall e t, In e es -> nget store (me_id e) = Some t -> entry_rel cfg t e /\ tx_adm t) ->
  select_txs cfg false l store h es totsize valid txs = Ok (valid', txs') ->
  chosen valid txs lp -> exists l1, chosen valid' txs' l1.
Proof.
  induction es as [|e r IH]; intros totsize valid txs valid' txs' lp Hmp H Hc; cbn [select_txs] in H.
  - injection H as <- <-. exists lp. exact Hc.
  - destruct (max_block_size cfg <? wadd totsize (me_size e)); [injection H as <- <-; exists lp; exact Hc|].
    assert (Hmp' : forall e0 t, In e0 r -> nget store (me_id e0) = Some t -> entry_rel cfg t e0 /\ tx_adm t).
    { intros e0 t0 Hin. apply Hmp. right. exact Hin. }
    destruct (nget store (me_id e)) as [t|] eqn:Est; [|exact (IH _ _ _ _ _ lp Hmp' H Hc)].
    destruct (validate_mempool_tx cfg false l store t valid h) as [u|c|c] eqn:Ev;
      [|exact (IH _ _ _ _ _ lp Hmp' H Hc)|discriminate H].
    destruct u. destruct (Hmp e t (or_introl eq_refl) Est) as [Hrel [Hgood Hvs]].
    destruct Hc as (Hf2 & Hadm & Hst & Hap).
    pose proof Hgood as (Hty & Hwf & _).
    destruct (simulation_sound_general cfg Hok l store txs valid t h lp Hh
                ltac:(eapply Forall_impl; [|exact Hadm]; intros x Hx; exact (proj1 Hx)) Hst Hf2 Hap Hli Hbs Hty Hwf Hvs Ev)
      as (l2 & Hl2).
    apply (IH _ _ _ _ _ l2 Hmp' H). split; [|split; [|split]].
    + apply Forall2_app; [exact Hf2|constructor; [exact Hrel|constructor]].
    + apply Forall_app. split; [exact Hadm|constructor; [split; assumption|constructor]].
    + intros t0 Hin. apply in_app_or in Hin. destruct Hin as [Hin|[<-|[]]]; [apply Hst; exact Hin|].
      rewrite <- (entry_rel_id _ _ Hrel). exact Est.
    + rewrite apply_all_app, Hap. cbn [bind apply_all]. rewrite Hl2. reflexivity.
Qed.

End Select.

(* ---- from [apply_all] (block hash 0, no fee counter) to the loop of ApplyBlockToState ---- *)
Lemma apply_outputs_bh outs : forall l bh bh' txid,
  nonpos outs -> apply_outputs l bh outs txid = apply_outputs l bh' outs txid.
Proof.
  induction outs as [|o outs IH]; intros l bh bh' txid Hnp; cbn [apply_outputs]; [reflexivity|].
  inversion Hnp as [|? ? Ho Hnp']; subst. rewrite Ho.
  destruct (safe_add _ _); [|reflexivity]. apply IH. exact Hnp'.
Qed.

Lemma apply_tx_bh l t h bh bh' th : apply_tx cfg l t h bh th = apply_tx cfg l t h bh' th.
Proof.
  rewrite !apply_tx_eq. destruct (get_state l (addr_of_key (tx_signer t))) as [st|]; [|reflexivity]. cbn [of_opt bind].
  destruct (guard _ 362); [|reflexivity|reflexivity]. cbn [bind].
  destruct (kind_step cfg l t st th) as [[l1 st1]| |]; [|reflexivity|reflexivity]. cbn [bind].
  unfold tx_tail. destruct (apply_inputs _ _) as [l3| |]; [|reflexivity|reflexivity]. cbn [bind].
  destruct (state_outputs cfg t (addr_of_key (tx_signer t))) as [outs| |] eqn:Eo; [|reflexivity|reflexivity]. cbn [bind].
  rewrite (apply_outputs_bh outs l3 bh bh' (tx_id t) (state_outputs_nopos cfg t _ outs Eo)). reflexivity.
Qed.

Lemma apply_all_txs ts : forall l l1 h bh fee,
  Forall tx_adm ts -> fee + total_bal l < two64 -> apply_all cfg l ts h = Ok l1 ->
  exists fee', apply_txs cfg l ts h bh (h - 1) fee = Ok (l1, fee').
Proof.
  induction ts as [|t ts IH]; intros l l1 h bh fee Hall Hb Ha; cbn [apply_all apply_txs] in *.
  - injection Ha as <-. eexists. reflexivity.
  - inversion Hall as [|? ? [(Hty & Hwf & Htot & _) _] Hall']; subst.
    apply bind_ok in Ha. destruct Ha as (l' & E1 & Ha).
    rewrite (apply_tx_bh l t h bh 0 (h - 1)), E1. cbn [bind].
    destruct (tx_total cfg t) as [tot|] eqn:Etot; [|congruence].
    pose proof (apply_tx_total cfg l t h 0 (h - 1) l' tot ltac:(lia) Hwf Etot E1) as Htt.
    rewrite wadd_small by lia. destruct (N.ltb_spec (fee + tx_fee t) fee); [lia|]. cbn [negb guard bind].
    apply (IH l' l1 h bh (fee + tx_fee t) Hall' ltac:(lia) Ha).
Qed.

(* ---- the template ---- *)
(* every pending entry whose transaction is stored was made from that transaction, which passed Prevalidate *)
Definition mp_inv (w : wnode) : Prop :=
  forall e t, In e (mpool w) -> nget (txstore w) (me_id e) = Some t -> entry_rel cfg t e /\ tx_adm t.

Theorem template_txs_applicable w rcpt now now_s t w' bh :
  get_block_template cfg false w rcpt now now_s = Ok (t, w') ->
  top_h (wn w) + 1 < two64 -> mp_inv w ->
  linv (ldg (wn w)) -> staked (ldg (wn w)) + total_bal (ldg (wn w)) < two64 ->
  exists l1 fee, apply_txs cfg (ldg (wn w)) (b_txs t) (b_height t) bh (top_h (wn w)) 0 = Ok (l1, fee).
Proof.
  intros H Hth Hmp Hli Hbs. unfold get_block_template in H.
  opt_inv H. rename x into prev. bind_inv H. bind_inv H. bind_inv H. destruct a1 as [valid txs].
  bind_inv H. bind_inv H. bind_inv H. destruct a3 as [[[did nd] sg] cd]. injection H as <- <-.
  cbn [b_txs b_height].
  rewrite wadd_small in * by exact Hth.
  assert (Hh : 0 < top_h (wn w) + 1 < two64) by lia.
  destruct (select_txs_chosen (ldg (wn w)) (txstore w) (top_h (wn w) + 1) Hh Hli Hbs (mpool w) 0 [] [] valid txs (ldg (wn w)) Hmp)
    as (l1 & _ & Hadm & _ & Hap).
  - match goal with Hx : select_txs _ _ _ _ _ _ _ _ _ = Ok (valid, txs) |- _ => exact Hx end.
  - split; [constructor|]. split; [constructor|]. split; [intros ? []|reflexivity].
  - destruct (apply_all_txs txs (ldg (wn w)) l1 (top_h (wn w) + 1) bh 0 Hadm ltac:(lia) Hap) as (fee & Hf).
    replace (top_h (wn w) + 1 - 1) with (top_h (wn w)) in Hf by lia. exists l1, fee. exact Hf.
Qed.

(* the invariant is kept by the admission of a transaction (packetTx: Prevalidate, then AddTransaction) *)
Lemma packet_tx_mp_inv tk w t now_s expires w' adm :
  tx_typed t -> wf_tx cfg t -> mp_inv w ->
  packet_tx cfg tk false w t now_s expires = Ok (w', adm) -> mp_inv w'.
Proof.
  intros Hty Hwf Hmp H. unfold packet_tx in H. destruct (top_h (wn w) <? hf_v2 cfg); [discriminate H|].
  bind_inv H. destruct a. pose proof (prevalidate_adm _ _ _ Hty Hwf E) as Hadm.
  unfold add_transaction in H. destruct (nget (txstore w) (tx_id t)) eqn:Est; [injection H as <- _; exact Hmp|].
  bind_inv H. guard_inv H. bind_inv H. rename a0 into e. injection H as <- _.
  intros e0 t0 Hin Hg. cbn [mpool txstore] in Hin, Hg.
  apply prune_spec in Hin. destruct Hin as [Hin _]. rewrite nget_nset in Hg.
  apply in_app_or in Hin. destruct Hin as [Hin|[<-|[]]].
  - destruct (N.eqb_spec (me_id e0) (tx_id t)) as [Heq|Hne]; [|exact (Hmp e0 t0 Hin Hg)].
    exfalso. apply Bool.negb_true_iff in G.
    assert (has_entry (mpool w) (tx_id t) = true) by (apply has_entry_spec; exists e0; split; assumption). congruence.
  - assert (Hid : me_id e = tx_id t) by (apply entry_rel_id; exists expires; assumption).
    rewrite Hid, N.eqb_refl in Hg. injection Hg as <-. split; [exists expires; assumption|exact Hadm].
Qed.

End Chain.
