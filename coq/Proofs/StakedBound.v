(* Property C09, hypothesis (a) of the simulation theorems derived: staked total + sum of all balances < 2^64 in every
   reachable ledger.

   Staked coins are HELD at the pool (delegate) addresses: a stake debits amount + fee at the signer's key address and
   credits the amount to the delegate address while the staked total grows by the amount; an unstake debits the delegate
   address and lowers the staked total by the same amount; a staker reward is credited to the delegate address of the
   rewarded pool while the staked total grows by it.  Key addresses are odd numbers in the model, delegate addresses and
   the burn address even.  Invariant along every chain:

        DInv l :  staked l + (balances at odd = key addresses) <= sum of all balances

   i.e. the staked total never exceeds the balances held at even addresses, in particular staked l <= total_bal l.  For
   transactions it is "staked + key balances drops by at least the fee" (Proofs/MempoolPot.v) against "all balances drop
   by exactly the fee" (Proofs/Conservation.v).  With total_bal <= max_supply and 2 * max_supply < 2^64 (part of
   cfg_ok_emission) the sum staked + total_bal stays below 2^64. *)
From Virel Require Import Lib.Config Lib.U64 Lib.AMap Lib.CheckLib Model.Emission Model.Ledger Model.Node Model.Mempool Spec.Chain
  Proofs.AMapLemmas Proofs.Emission Proofs.Conservation Proofs.Pointwise Proofs.Staking Proofs.StakedSum Proofs.Refine2
  Proofs.NodeBasics Proofs.ForkChoice Proofs.ChainInv Proofs.Undo Proofs.Undo2 Proofs.Undo4
  Proofs.Replay1 Proofs.Replay2 Proofs.Replay3 Proofs.Replay4 Proofs.Replay5
  Proofs.Mempool Proofs.Mempool2 Proofs.MempoolPot Proofs.KeyInv Proofs.NodeConservation.
Open Scope N_scope.
Open Scope bool_scope.

Definition DInv (l : ledger) : Prop := staked l + odd_bal l <= total_bal l.

Lemma DInv0 : DInv ledger0.
Proof. unfold DInv. cbn. lia. Qed.

Lemma DInv_staked_le l : DInv l -> staked l <= total_bal l.
Proof. unfold DInv. lia. Qed.

(* outputs whose staker-reward entries go to even (delegate) addresses *)
Definition pos_even (outs : list sout) : Prop :=
  Forall (fun o => (o_type o =? OUT_COINBASE_POS) = true -> N.odd (o_rcpt o) = false) outs.

Lemma apply_outputs_DInv outs : forall l bh txid,
  SInv l -> Forall (fun o => o_amt o < two64) outs -> pos_even outs ->
  total_bal l + sum_souts outs < two64 -> DInv l -> DInv (fst (apply_outputs l bh outs txid)).
Proof.
  induction outs as [|o outs IH]; intros l bh txid HI Hob Hpe Hb HD; cbn [apply_outputs]; [exact HD|].
  inversion Hob as [|? ? Ho Hob']; subst. inversion Hpe as [|? ? Hpo Hpe']; subst.
  cbn [sum_souts fold_right] in Hb. fold (sum_souts outs) in Hb.
  fold (load_state l (o_rcpt o)).
  set (st := load_state l (o_rcpt o)) in *.
  assert (Hst : bal st = bal_at l (o_rcpt o)).
  { unfold st, load_state, bal_at. destruct (get_state l (o_rcpt o)); reflexivity. }
  pose proof (bal_at_le_total l (o_rcpt o)) as Hle.
  destruct (safe_add (bal st) (o_amt o)) as [b|] eqn:Esa; [|exact HD].
  apply safe_add_some in Esa; [|lia|lia]. destruct Esa as [-> Hlt].
  set (l1 := set_intx l _).
  set (ns := mkacct (bal st + o_amt o) (nonce st) (wadd (inc st) 1) (deleg st)).
  set (l2 := put_state l1 (o_rcpt o) ns).
  assert (Ht2 : total_bal l2 = total_bal l + o_amt o).
  { pose proof (total_put_state l1 (o_rcpt o) ns) as Hp. fold l2 in Hp. cbn [bal ns] in Hp.
    assert (Hb1 : bal_at l1 (o_rcpt o) = bal_at l (o_rcpt o)) by reflexivity.
    assert (Ht1 : total_bal l1 = total_bal l) by reflexivity.
    rewrite Hb1, Ht1 in Hp. lia. }
  assert (Ho2 : odd_bal l2 = odd_bal l + (if N.odd (o_rcpt o) then o_amt o else 0)).
  { pose proof (odd_put l1 (o_rcpt o) ns) as Hp. fold l2 in Hp. cbn [bal ns] in Hp.
    assert (Hb1 : bal_at l1 (o_rcpt o) = bal_at l (o_rcpt o)) by reflexivity.
    assert (Ht1 : odd_bal l1 = odd_bal l) by reflexivity.
    rewrite Hb1, Ht1 in Hp. destruct (N.odd (o_rcpt o)); lia. }
  assert (Hs2 : staked l2 = staked l) by reflexivity.
  assert (HI2 : SInv l2) by (apply (SInv_ext l); [reflexivity|reflexivity|exact HI]).
  assert (HD2 : DInv l2) by (unfold DInv in *; rewrite Ht2, Ho2, Hs2; destruct (N.odd (o_rcpt o)); lia).
  destruct (o_type o =? OUT_COINBASE_POS) eqn:Ety.
  - destruct (apply_pos_reward l2 bh o) as [l3|c|c] eqn:Er; [|exact HD2|exact HD2].
    destruct (apply_pos_reward_SInv l2 bh o l3 HI2 Ho Er) as [HI3 Hs3].
    pose proof (accts_apply_pos_reward _ _ _ _ Er) as Hacc.
    assert (Ht3 : total_bal l3 = total_bal l2) by (unfold total_bal; rewrite Hacc; reflexivity).
    assert (Ho3 : odd_bal l3 = odd_bal l2) by (unfold odd_bal; rewrite Hacc; reflexivity).
    apply IH; [exact HI3|exact Hob'|exact Hpe'|lia|].
    unfold DInv in *. rewrite Ht3, Ho3, Hs3, Ht2, Ho2, Hs2. rewrite (Hpo eq_refl). lia.
  - apply IH; [exact HI2|exact Hob'|exact Hpe'|lia|exact HD2].
Qed.

Section Bound.
Variable cfg : config.
Variable genesis_addr : N.

(* the coinbase credits the staker reward to a delegate address *)
Lemma coinbase_pos_even b total outs : coinbase_souts cfg genesis_addr b total = Ok outs -> pos_even outs.
Proof.
  unfold coinbase_souts. destruct (coinbase cfg (lb_version b) (lb_signed b) total) as [cb|]; [|discriminate].
  intros [= <-]. unfold pos_even. rewrite Forall_map, Forall_forall. intros [ty a] _.
  destruct (N.eqb_spec ty OUT_COINBASE_DEV) as [->|_]; [cbn; discriminate|].
  destruct (N.eqb_spec ty OUT_COINBASE_POW) as [->|_]; [cbn; discriminate|].
  destruct (N.eqb_spec ty OUT_COINBASE_POS) as [->|_]; cbn [o_type o_rcpt]; intros _; [apply odd_delegate_addr|reflexivity].
Qed.

(* a version-0 transfer is applied exactly as the same transfer under version byte 1 *)
Definition as_v1 (t : tx) : tx :=
  mktx (tx_id t) 1 (tx_signer t) (tx_sig_by t) (tx_sig_msg t) (tx_signer_invalid t) (tx_data t) (tx_nonce t) (tx_fee t).

Lemma apply_tx_as_v1 l t os h bh th : tx_data t = TTransfer os ->
  apply_tx cfg l (as_v1 t) h bh th = apply_tx cfg l t h bh th.
Proof.
  intros Hd. unfold apply_tx, state_inputs, state_outputs, as_v1. cbn [tx_id tx_signer tx_data tx_nonce tx_fee]. rewrite Hd. reflexivity.
Qed.

Lemma apply_tx_pot_ver l t h bh th l' :
  SInv l -> total_bal l < two64 -> ver_ok t = true -> wf_tx cfg t -> tx_total cfg t <> None ->
  apply_tx cfg l t h bh th = Ok l' -> pot l' + tx_fee t <= pot l.
Proof.
  intros HI Hb Hv Hwf Htot Ha. unfold ver_ok in Hv. apply Bool.orb_true_iff in Hv. destruct Hv as [Hv|Hv].
  - apply Bool.andb_true_iff in Hv. destruct Hv as [_ Hd]. apply N.eqb_eq in Hd.
    destruct (tx_data t) as [os|nl name id|nw pv|a id pu|a id] eqn:Ed; cbn [data_version] in Hd; try discriminate Hd.
    rewrite <- (apply_tx_as_v1 l t os h bh th Ed) in Ha.
    change (tx_fee t) with (tx_fee (as_v1 t)).
    apply (apply_tx_pot cfg l (as_v1 t) h bh th l' HI Hb); [| | |exact Ha].
    + unfold tx_typed, as_v1. cbn [tx_version tx_data]. rewrite Ed. reflexivity.
    + exact Hwf.
    + exact Htot.
  - apply N.eqb_eq in Hv. exact (apply_tx_pot cfg l t h bh th l' HI Hb Hv Hwf Htot Ha).
Qed.

Lemma apply_tx_DInv l t h bh th l' :
  SInv l -> total_bal l < two64 -> ver_ok t = true -> wf_tx cfg t -> tx_total cfg t <> None ->
  apply_tx cfg l t h bh th = Ok l' -> DInv l -> DInv l'.
Proof.
  intros HI Hb Hv Hwf Htot Ha HD.
  pose proof (apply_tx_pot_ver l t h bh th l' HI Hb Hv Hwf Htot Ha) as Hp.
  destruct (tx_total cfg t) as [tot|] eqn:Et; [|congruence].
  pose proof (apply_tx_total cfg l t h bh th l' tot Hb Hwf Et Ha) as Ht.
  unfold DInv, pot in *. lia.
Qed.

Definition tx_d (t : tx) : Prop := wf_tx cfg t /\ tx_total cfg t <> None /\ ver_ok t = true.

Lemma apply_txs_DInv txs : forall l h bh th fee l' fee',
  SInv l -> total_bal l < two64 -> fee < two64 -> Forall tx_d txs ->
  apply_txs cfg l txs h bh th fee = Ok (l', fee') -> DInv l -> DInv l'.
Proof.
  induction txs as [|t txs IH]; intros l h bh th fee l' fee' HI Hb Hf Hd H HD; cbn [apply_txs] in H.
  - injection H as <- _. exact HD.
  - inversion Hd as [|? ? (Hwf & Htot & Hv) Hd']; subst. bind_inv H. guard_inv H. rename a into l1.
    destruct (tx_total cfg t) as [tot|] eqn:Et; [|congruence].
    pose proof (apply_tx_total cfg l t h bh th l1 tot Hb Hwf Et E) as Ht1.
    apply Bool.negb_true_iff in G. destruct Hwf as (Hfee & Hwf2).
    destruct (wadd_nowrap_of_check fee (tx_fee t) Hf Hfee G) as [Hw Hw64]. rewrite Hw in H.
    apply (IH l1 h bh th (fee + tx_fee t) l' fee'); [|lia|exact Hw64|exact Hd'|exact H|].
    + eapply apply_tx_SInv; [exact HI|split; [exact Hfee|exact Hwf2]|exact E].
    + apply (apply_tx_DInv l t h bh th l1 HI Hb Hv (conj Hfee Hwf2)); [rewrite Et; discriminate|exact E|exact HD].
Qed.

Hypothesis Hok : cfg_ok_emission cfg = true.

Lemma apply_block_DInv l b th l' :
  total_bal l + reward cfg (lb_height b) <= max_supply cfg ->
  Forall tx_d (lb_txs b) -> SInv l ->
  apply_block cfg genesis_addr l b th = Ok l' -> DInv l -> DInv l'.
Proof.
  destruct (ok_facts cfg Hok) as ((HRI & HRI64) & H9 & Hms & Hms64 & _).
  intros Hb Hd HI H HD. unfold apply_block in H.
  bind_inv H. clear E. bind_inv H. match goal with p : (ledger * N)%type |- _ => destruct p as [l1 fee] end.
  assert (Hl64 : total_bal l < two64) by lia.
  assert (Htx : Forall (tx_ok cfg) (lb_txs b)) by (eapply Forall_impl; [|exact Hd]; intros t (Hw & Ht & _); split; assumption).
  destruct (apply_txs_total cfg (lb_txs b) l (lb_height b) (lb_hash b) th 0 l1 fee Hl64 two64_pos Htx E) as [Ht1 Hfee64].
  assert (Hwf : Forall (wf_tx cfg) (lb_txs b)) by (eapply Forall_impl; [|exact Htx]; intros t [Hw _]; exact Hw).
  pose proof (apply_txs_SInv cfg (lb_txs b) l _ _ _ _ _ _ HI Hwf E) as HI1.
  pose proof (apply_txs_DInv (lb_txs b) l _ _ _ _ _ _ HI Hl64 two64_pos Hd E HD) as HD1.
  guard_inv H. apply Bool.negb_true_iff in G.
  pose proof (reward_le_BR cfg Hok (lb_height b)) as HrBR.
  destruct (wadd_nowrap_of_check (reward cfg (lb_height b)) fee ltac:(lia) Hfee64 G) as [Hw Hw64].
  rewrite Hw in H. bind_inv H.
  match goal with Ec : coinbase_souts _ _ _ _ = Ok ?o |- _ => rename o into outs; rename Ec into Ecs end.
  destruct (sum_souts_coinbase cfg genesis_addr _ _ _ Ecs) as (cb & Ecb & Hsum).
  assert (Hver : lb_version b <= 1).
  { unfold coinbase in Ecb. destruct (N.eqb_spec (lb_version b) 0) as [->|?]; [lia|].
    destruct (N.eqb_spec (lb_version b) 1) as [->|?]; [lia|discriminate]. }
  destruct (coinbase_sum cfg Hok (lb_version b) (lb_signed b) (reward cfg (lb_height b) + fee) Hver ltac:(lia))
    as (cb' & Ecb' & Hs' & _).
  rewrite Ecb in Ecb'. injection Ecb' as <-.
  assert (Hob : Forall (fun o => o_amt o < two64) outs).
  { eapply Forall_impl; [|apply (souts_bounded cfg outs (reward cfg (lb_height b) + fee)); lia]. cbn. intros; lia. }
  pose proof (apply_outputs_DInv outs l1 (lb_hash b) (lb_hash b) HI1 Hob (coinbase_pos_even _ _ _ Ecs)
                ltac:(rewrite Hsum, Hs'; lia) HD1) as HD2.
  destruct (apply_outputs l1 (lb_hash b) outs (lb_hash b)) as [l2 e].
  destruct e as [[u|c|c]|]; try discriminate H. injection H as <-. exact HD2.
Qed.

Lemma apply_chain_DInv bs : forall l (h : nat) l',
  total_bal l = sum_rewards cfg h -> heights_from h bs ->
  Forall (fun b => Forall tx_d (lb_txs b)) bs -> SInv l ->
  apply_chain cfg genesis_addr l bs = Ok l' -> DInv l -> DInv l'.
Proof.
  induction bs as [|b bs IH]; intros l h l' Ht Hh Hd HI H HD; cbn [apply_chain] in H.
  - injection H as <-. exact HD.
  - destruct Hh as [Hhb Hh]. inversion Hd as [|? ? Hb Hbs]; subst. bind_inv H.
    assert (Htx : Forall (tx_ok cfg) (lb_txs b)) by (eapply Forall_impl; [|exact Hb]; intros t (Hw & Ht' & _); split; assumption).
    assert (Hroom : total_bal l + reward cfg (lb_height b) <= max_supply cfg).
    { rewrite Ht, Hhb. change (sum_rewards cfg h + reward cfg (N.of_nat (S h))) with (sum_rewards cfg (S h)).
      apply (sum_rewards_le_max cfg Hok). }
    assert (Hstep : total_bal a = sum_rewards cfg (S h)).
    { rewrite (apply_block_total cfg genesis_addr Hok _ _ _ _ Hroom Htx E). rewrite Ht, Hhb. reflexivity. }
    apply (IH a (S h) l' Hstep Hh Hbs); [|exact H|].
    + exact (apply_block_SInv cfg genesis_addr Hok _ _ _ _ Hroom Htx HI E).
    + exact (apply_block_DInv _ _ _ _ Hroom Hb HI E HD).
Qed.

End Bound.
