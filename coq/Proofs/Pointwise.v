(* Pointwise characterisation of the account updates of the ledger model, and the undo lemmas built on it
   (property C03, lemma B of DESIGN.md for the account part): removing the outputs / inputs that were just applied
   restores every account exactly. *)
From Virel Require Import Lib.Config Lib.U64 Lib.AMap Model.Emission Model.Ledger Proofs.AMapLemmas Proofs.Conservation.
Open Scope N_scope.
Open Scope bool_scope.

Definition acct_at (l : ledger) (a : N) : acct := match get_state l a with Some s => s | None => acct0 end.

Lemma acct_at_put l a s a' : acct_at (put_state l a s) a' = if a' =? a then s else acct_at l a'.
Proof.
  unfold acct_at, get_state, put_state, set_accts. cbn [accts]. rewrite nget_nset.
  destruct (a' =? a); reflexivity.
Qed.

Lemma get_state_put l a s a' : get_state (put_state l a s) a' = if a' =? a then Some s else get_state l a'.
Proof. unfold get_state, put_state, set_accts. cbn [accts]. apply nget_nset. Qed.

Lemma acct_at_set_intx_gen l v a : acct_at (set_intx l v) a = acct_at l a. Proof. reflexivity. Qed.
Lemma acct_at_set_outtx_gen l v a : acct_at (set_outtx l v) a = acct_at l a. Proof. reflexivity. Qed.
Lemma acct_at_set_txh_gen l v a : acct_at (set_txh l v) a = acct_at l a. Proof. reflexivity. Qed.

(* two ledgers agree on everything the ledger properties speak about, except the wallet indexes:
   accounts extensionally (absent = all-zero), delegate records, staked total *)
Definition same_accounts (l1 l2 : ledger) : Prop := forall a, acct_at l1 a = acct_at l2 a.

(* ---- outputs without proof-of-stake rewards ---- *)
Definition out_sum (outs : list sout) (a : N) : N :=
  fold_right (fun o acc => if o_rcpt o =? a then o_amt o + acc else acc) 0 outs.
Definition out_cnt (outs : list sout) (a : N) : N :=
  fold_right (fun o acc => if o_rcpt o =? a then 1 + acc else acc) 0 outs.
Definition no_pos (outs : list sout) : Prop := Forall (fun o => (o_type o =? OUT_COINBASE_POS) = false) outs.

Lemma out_sum_le outs a : out_sum outs a <= sum_souts outs.
Proof.
  induction outs as [|o outs IH]; [cbn; lia|]. unfold out_sum, sum_souts in *. cbn [fold_right].
  destruct (o_rcpt o =? a); lia.
Qed.

Lemma apply_outputs_pointwise outs : forall l bh txid l',
  no_pos outs -> total_bal l + sum_souts outs < two64 ->
  (forall a, inc (acct_at l a) + out_cnt outs a < two64) ->
  apply_outputs l bh outs txid = (l', None) ->
  (forall a, acct_at l' a = mkacct (bal (acct_at l a) + out_sum outs a) (nonce (acct_at l a))
                                   (inc (acct_at l a) + out_cnt outs a) (deleg (acct_at l a))) /\
  dlgs l' = dlgs l /\ staked l' = staked l /\ dhist l' = dhist l /\
  (forall o, In o outs -> get_state l' (o_rcpt o) <> None) /\
  (forall a, get_state l a <> None -> get_state l' a <> None).
Proof.
  induction outs as [|o outs IH]; intros l bh txid l' Hnp Hb Hinc H; cbn in H.
  - injection H as <-. split; [|repeat split; try reflexivity; [intros ? []|auto]].
    intros a. cbn. destruct (acct_at l a); cbn. f_equal; lia.
  - inversion Hnp as [|? ? Ho Hnp']; subst. rewrite Ho in H.
    cbn [sum_souts fold_right] in Hb. fold (sum_souts outs) in Hb.
    set (st := match get_state l (o_rcpt o) with Some s => s | None => acct0 end) in *.
    assert (Hst : st = acct_at l (o_rcpt o)) by reflexivity.
    pose proof (bal_at_le_total l (o_rcpt o)) as Hle.
    assert (Hbal : bal st = bal_at l (o_rcpt o)).
    { unfold st, bal_at. destruct (get_state l (o_rcpt o)); reflexivity. }
    destruct (safe_add (bal st) (o_amt o)) as [b|] eqn:Esa; [|discriminate H].
    apply safe_add_some in Esa; [|lia|lia]. destruct Esa as [-> Hlt].
    set (l1 := set_intx l _) in H.
    set (s' := mkacct (bal st + o_amt o) (nonce st) (wadd (inc st) 1) (deleg st)) in H.
    set (l2 := put_state l1 (o_rcpt o) s') in H.
    assert (Ht2 : total_bal l2 + sum_souts outs < two64).
    { pose proof (total_put_state l1 (o_rcpt o) s') as Hp. fold l2 in Hp. cbn [bal s'] in Hp.
      assert (Hb1 : bal_at l1 (o_rcpt o) = bal_at l (o_rcpt o)) by reflexivity.
      assert (Ht1 : total_bal l1 = total_bal l) by reflexivity.
      rewrite Hb1, Ht1 in Hp. lia. }
    assert (Hinc1 : inc st + 1 < two64).
    { specialize (Hinc (o_rcpt o)). rewrite <- Hst in Hinc. cbn [out_cnt fold_right] in Hinc.
      rewrite N.eqb_refl in Hinc. lia. }
    assert (Hacct2 : forall a, acct_at l2 a = if a =? o_rcpt o then s' else acct_at l a).
    { intros a. unfold l2. rewrite acct_at_put. reflexivity. }
    assert (Hinc2 : forall a, inc (acct_at l2 a) + out_cnt outs a < two64).
    { intros a. rewrite Hacct2. specialize (Hinc a). cbn [out_cnt fold_right] in Hinc. fold (out_cnt outs a) in Hinc.
      destruct (N.eqb_spec a (o_rcpt o)) as [->|Hne].
      - rewrite N.eqb_refl in Hinc. rewrite <- Hst in Hinc. cbn [inc s']. rewrite wadd_small by lia. lia.
      - destruct (N.eqb_spec (o_rcpt o) a); [congruence|]. exact Hinc. }
    destruct (IH l2 bh txid l' Hnp' Ht2 Hinc2 H) as (I1 & I2 & I3 & I4 & I5 & I6).
    split; [|split; [rewrite I2; reflexivity|split; [rewrite I3; reflexivity|split; [rewrite I4; reflexivity|split]]]].
    + intros a. rewrite I1, Hacct2. cbn [out_sum out_cnt fold_right].
      fold (out_sum outs a). fold (out_cnt outs a).
      destruct (N.eqb_spec a (o_rcpt o)) as [->|Hne].
      * rewrite N.eqb_refl. rewrite <- Hst. cbn [bal nonce inc deleg s']. rewrite wadd_small by lia. f_equal; lia.
      * destruct (N.eqb_spec (o_rcpt o) a); [congruence|]. reflexivity.
    + intros o' [<-|Hin]; [|apply I5; exact Hin].
      apply I6. unfold l2. rewrite get_state_put, N.eqb_refl. discriminate.
    + intros a Ha. apply I6. unfold l2. rewrite get_state_put. destruct (a =? o_rcpt o); [discriminate|exact Ha].
Qed.

(* removing outputs: succeeds when every recipient exists and holds at least what is taken; exact pointwise effect *)
Lemma remove_outputs_pointwise outs : forall l bh,
  no_pos outs ->
  (forall o, In o outs -> get_state l (o_rcpt o) <> None) ->
  (forall a, out_sum outs a <= bal (acct_at l a) /\ out_cnt outs a <= inc (acct_at l a)) ->
  exists l', remove_outputs l bh outs = (l', None) /\
    (forall a, acct_at l' a = mkacct (bal (acct_at l a) - out_sum outs a) (nonce (acct_at l a))
                                     (inc (acct_at l a) - out_cnt outs a) (deleg (acct_at l a))) /\
    dlgs l' = dlgs l /\ staked l' = staked l /\ dhist l' = dhist l /\
    (forall a, get_state l a <> None -> get_state l' a <> None).
Proof.
  induction outs as [|o outs IH]; intros l bh Hnp Hex Hge; cbn [remove_outputs].
  - exists l. split; [reflexivity|]. split; [|repeat split; auto].
    intros a. cbn. destruct (acct_at l a); cbn. f_equal; lia.
  - inversion Hnp as [|? ? Ho Hnp']; subst.
    destruct (get_state l (o_rcpt o)) as [st|] eqn:Est; [|exfalso; apply (Hex o (or_introl eq_refl)); exact Est].
    assert (Hst : acct_at l (o_rcpt o) = st) by (unfold acct_at; rewrite Est; reflexivity).
    pose proof (Hge (o_rcpt o)) as [Hb Hc]. cbn [out_sum out_cnt fold_right] in Hb, Hc.
    rewrite N.eqb_refl, Hst in Hb, Hc. fold (out_sum outs (o_rcpt o)) in Hb. fold (out_cnt outs (o_rcpt o)) in Hc.
    destruct (N.ltb_spec (bal st) (o_amt o)); [lia|].
    destruct (N.eqb_spec (inc st) 0); [lia|].
    rewrite Ho.
    set (s' := mkacct (bal st - o_amt o) (nonce st) (inc st - 1) (deleg st)).
    set (l1 := put_state l (o_rcpt o) s').
    assert (Hacct1 : forall a, acct_at l1 a = if a =? o_rcpt o then s' else acct_at l a).
    { intros a. unfold l1. apply acct_at_put. }
    destruct (IH l1 bh Hnp') as (l' & Hrm & I1 & I2 & I3 & I4 & I5).
    + intros o' Hin. unfold l1. rewrite get_state_put. destruct (o_rcpt o' =? o_rcpt o); [discriminate|].
      apply Hex. right. exact Hin.
    + intros a. rewrite Hacct1. specialize (Hge a). cbn [out_sum out_cnt fold_right] in Hge.
      fold (out_sum outs a) in Hge. fold (out_cnt outs a) in Hge.
      destruct (N.eqb_spec a (o_rcpt o)) as [->|Hne].
      * rewrite N.eqb_refl, Hst in Hge. cbn [bal inc s']. lia.
      * destruct (N.eqb_spec (o_rcpt o) a); [congruence|]. exact Hge.
    + exists l'. split; [exact Hrm|]. split; [|split; [rewrite I2; reflexivity|split; [rewrite I3; reflexivity|split; [rewrite I4; reflexivity|]]]].
      * intros a. rewrite I1, Hacct1. cbn [out_sum out_cnt fold_right].
        fold (out_sum outs a). fold (out_cnt outs a).
        destruct (N.eqb_spec a (o_rcpt o)) as [->|Hne].
        -- rewrite N.eqb_refl, Hst. cbn [bal nonce inc deleg s']. f_equal; lia.
        -- destruct (N.eqb_spec (o_rcpt o) a); [congruence|]. reflexivity.
      * intros a Ha. apply I5. unfold l1. rewrite get_state_put. destruct (a =? o_rcpt o); [discriminate|exact Ha].
Qed.

(* undo of outputs: whatever ledger the outputs were applied to, removing them restores every account *)
Theorem remove_apply_outputs outs l bh txid l1 :
  no_pos outs -> total_bal l + sum_souts outs < two64 ->
  (forall a, inc (acct_at l a) + out_cnt outs a < two64) ->
  apply_outputs l bh outs txid = (l1, None) ->
  exists l2, remove_outputs l1 bh outs = (l2, None) /\ same_accounts l2 l /\
    dlgs l2 = dlgs l /\ staked l2 = staked l /\ dhist l2 = dhist l.
Proof.
  intros Hnp Hb Hinc Happ.
  destruct (apply_outputs_pointwise outs l bh txid l1 Hnp Hb Hinc Happ) as (A1 & A2 & A3 & A4 & A5 & A6).
  destruct (remove_outputs_pointwise outs l1 bh Hnp A5) as (l2 & Hrm & R1 & R2 & R3 & R4 & R5).
  - intros a. rewrite A1. cbn [bal inc]. split; lia.
  - exists l2. split; [exact Hrm|]. split; [|split; [congruence|split; congruence]].
    intros a. rewrite R1, A1. cbn [bal nonce inc deleg]. destruct (acct_at l a); cbn. f_equal; lia.
Qed.

(* ---- inputs ---- *)
Definition in_sum (ins : list (N * N)) (a : N) : N :=
  fold_right (fun i acc => if snd i =? a then fst i + acc else acc) 0 ins.

Lemma apply_inputs_pointwise ins : forall l l',
  apply_inputs l ins = Ok l' ->
  (forall a, acct_at l' a = mkacct (bal (acct_at l a) - in_sum ins a) (nonce (acct_at l a)) (inc (acct_at l a)) (deleg (acct_at l a))) /\
  (forall a, in_sum ins a <= bal (acct_at l a)) /\
  dlgs l' = dlgs l /\ staked l' = staked l /\ dhist l' = dhist l /\
  (forall i, In i ins -> get_state l' (snd i) <> None) /\
  (forall a, get_state l a <> None -> get_state l' a <> None).
Proof.
  induction ins as [|[amt sender] ins IH]; intros l l' H; cbn in H.
  - injection H as <-. split.
    { intros a. cbn. destruct (acct_at l a); cbn. f_equal; lia. }
    split. { intros a. cbn. lia. }
    split; [reflexivity|]. split; [reflexivity|]. split; [reflexivity|]. split; [intros ? []|auto].
  - opt_inv H. guard_inv H. apply Bool.negb_true_iff in G. apply N.ltb_ge in G.
    set (s' := mkacct (bal x - amt) (nonce x) (inc x) (deleg x)) in H.
    set (l1 := put_state l sender s') in H.
    assert (Hx : acct_at l sender = x) by (unfold acct_at; rewrite E; reflexivity).
    assert (Hacct1 : forall a, acct_at l1 a = if a =? sender then s' else acct_at l a).
    { intros a. unfold l1. apply acct_at_put. }
    destruct (IH l1 l' H) as (I1 & I2 & I3 & I4 & I5 & I6 & I7).
    split; [|split; [|split; [rewrite I3; reflexivity|split; [rewrite I4; reflexivity|split; [rewrite I5; reflexivity|split]]]]].
    + intros a. rewrite I1, Hacct1. cbn [in_sum fold_right fst snd]. fold (in_sum ins a).
      destruct (N.eqb_spec a sender) as [->|Hne].
      * rewrite N.eqb_refl, Hx. cbn [bal nonce inc deleg s']. f_equal; lia.
      * destruct (N.eqb_spec sender a); [congruence|]. reflexivity.
    + intros a. pose proof (I2 a) as I2a. rewrite Hacct1 in I2a. cbn [in_sum fold_right fst snd]. fold (in_sum ins a).
      destruct (N.eqb_spec a sender) as [Ea|Hne].
      * rewrite Ea in *. rewrite N.eqb_refl, Hx. cbn [bal s'] in I2a. lia.
      * destruct (N.eqb_spec sender a); [congruence|]. exact I2a.
    + intros i [<-|Hin]; [|apply I6; exact Hin]. cbn [snd].
      apply I7. unfold l1. rewrite get_state_put, N.eqb_refl. discriminate.
    + intros a Ha. apply I7. unfold l1. rewrite get_state_put. destruct (a =? sender); [discriminate|exact Ha].
Qed.

Lemma remove_inputs_pointwise ins : forall l,
  (forall i, In i ins -> get_state l (snd i) <> None) ->
  total_bal l + sum_ins ins < two64 ->
  exists l', remove_inputs l ins = Ok l' /\
    (forall a, acct_at l' a = mkacct (bal (acct_at l a) + in_sum ins a) (nonce (acct_at l a)) (inc (acct_at l a)) (deleg (acct_at l a))) /\
    dlgs l' = dlgs l /\ staked l' = staked l /\ dhist l' = dhist l /\
    (forall a, get_state l a <> None -> get_state l' a <> None).
Proof.
  induction ins as [|[amt sender] ins IH]; intros l Hex Hb; cbn [remove_inputs].
  - exists l. split; [reflexivity|]. split; [|repeat split; auto].
    intros a. cbn. destruct (acct_at l a); cbn. f_equal; lia.
  - destruct (get_state l sender) as [x|] eqn:E; [|exfalso; apply (Hex (amt, sender) (or_introl eq_refl)); exact E].
    cbn [of_opt bind].
    assert (Hx : acct_at l sender = x) by (unfold acct_at; rewrite E; reflexivity).
    cbn [sum_ins fold_right fst] in Hb. fold (sum_ins ins) in Hb.
    pose proof (bal_at_le_total l sender) as Hle. unfold bal_at in Hle. rewrite E in Hle. cbn [fopt] in Hle.
    destruct (safe_add (bal x) amt) as [b|] eqn:Esa.
    2:{ exfalso. apply safe_add_none in Esa; lia. }
    apply safe_add_some in Esa; [|lia|lia]. destruct Esa as [-> Hlt]. cbn [of_opt bind].
    set (s' := mkacct (bal x + amt) (nonce x) (inc x) (deleg x)).
    set (l1 := put_state l sender s').
    assert (Hacct1 : forall a, acct_at l1 a = if a =? sender then s' else acct_at l a).
    { intros a. unfold l1. apply acct_at_put. }
    destruct (IH l1) as (l' & Hrm & I1 & I2 & I3 & I4 & I5).
    + intros i Hin. unfold l1. rewrite get_state_put. destruct (snd i =? sender); [discriminate|]. apply Hex. right. exact Hin.
    + pose proof (total_put_state l sender s') as Hp. fold l1 in Hp. unfold bal_at in Hp. rewrite E in Hp.
      cbn [fopt bal s'] in Hp. lia.
    + exists l'. split; [exact Hrm|]. split; [|split; [rewrite I2; reflexivity|split; [rewrite I3; reflexivity|split; [rewrite I4; reflexivity|]]]].
      * intros a. rewrite I1, Hacct1. cbn [in_sum fold_right fst snd]. fold (in_sum ins a).
        destruct (N.eqb_spec a sender) as [->|Hne].
        -- rewrite N.eqb_refl, Hx. cbn [bal nonce inc deleg s']. f_equal; lia.
        -- destruct (N.eqb_spec sender a); [congruence|]. reflexivity.
      * intros a Ha. apply I5. unfold l1. rewrite get_state_put. destruct (a =? sender); [discriminate|exact Ha].
Qed.

(* undo of inputs *)
Theorem remove_apply_inputs ins l l1 :
  total_bal l < two64 -> apply_inputs l ins = Ok l1 ->
  exists l2, remove_inputs l1 ins = Ok l2 /\ same_accounts l2 l /\
    dlgs l2 = dlgs l /\ staked l2 = staked l /\ dhist l2 = dhist l.
Proof.
  intros Hb Happ.
  destruct (apply_inputs_pointwise ins l l1 Happ) as (A1 & A2 & A3 & A4 & A5 & A6 & A7).
  pose proof (apply_inputs_total l ins l1 Happ) as Ht.
  destruct (remove_inputs_pointwise ins l1 A6 ltac:(lia)) as (l2 & Hrm & R1 & R2 & R3 & R4 & R5).
  exists l2. split; [exact Hrm|]. split; [|split; [congruence|split; congruence]].
  intros a. rewrite R1, A1. cbn [bal nonce inc deleg]. specialize (A2 a). destruct (acct_at l a); cbn in *. f_equal; lia.
Qed.

(* totals version of the removal of outputs *)
Lemma remove_outputs_total outs : forall l bh l',
  no_pos outs -> remove_outputs l bh outs = (l', None) -> total_bal l' + sum_souts outs = total_bal l.
Proof.
  induction outs as [|o outs IH]; intros l bh l' Hnp H; cbn in H.
  - injection H as <-. cbn. lia.
  - inversion Hnp as [|? ? Ho Hnp']; subst. rewrite Ho in H.
    destruct (get_state l (o_rcpt o)) as [st|] eqn:Est; [|discriminate H].
    destruct (N.ltb_spec (bal st) (o_amt o)); [discriminate H|].
    destruct (inc st =? 0); [discriminate H|].
    apply IH in H; [|exact Hnp'].
    pose proof (total_put_state l (o_rcpt o) (mkacct (bal st - o_amt o) (nonce st) (inc st - 1) (deleg st))) as Hp.
    unfold bal_at in Hp. rewrite Est in Hp. cbn [fopt bal] in Hp.
    cbn [sum_souts fold_right]. fold (sum_souts outs). lia.
Qed.

(* ---- whole transactions: transfers ---- *)
Section TxUndo.
Variable cfg : config.

(* Undoing a transfer right after applying it restores every account (balances, nonces, counters, delegate choice),
   the delegate table and the staked total, whatever ledger it was applied to: RemoveTxFromState is the exact
   inverse of ApplyTxToState on everything the ledger properties speak about. *)
Theorem remove_apply_transfer l t outs0 h bh top_h l1 tot :
  tx_data t = TTransfer outs0 ->
  total_bal l < two64 -> wf_tx cfg t -> tx_total cfg t = Some tot ->
  (forall a, inc (acct_at l a) + N.of_nat (length outs0) < two64) ->
  nonce (acct_at l (addr_of_key (tx_signer t))) + 1 < two64 ->
  apply_tx cfg l t h bh top_h = Ok l1 ->
  exists l2, remove_tx cfg l1 t bh top_h = Ok l2 /\ same_accounts l2 l /\ dlgs l2 = dlgs l /\ staked l2 = staked l.
Proof.
  intros Hd Hb Hwf Htot Hinc Hnonce Happ.
  unfold apply_tx in Happ. set (signer := addr_of_key (tx_signer t)) in *.
  opt_inv Happ. guard_inv Happ. apply N.eqb_eq in G.
  assert (Hx : acct_at l signer = x) by (unfold acct_at; rewrite E; reflexivity).
  rewrite Hx in Hnonce. rewrite wadd_small in G by exact Hnonce.
  rewrite Hd in Happ. cbn [bind] in Happ.
  set (st2 := mkacct (bal x) (wadd (nonce x) 1) (inc x) (deleg x)) in *.
  set (l2 := put_state l signer st2) in *.
  bind_inv Happ. bind_inv Happ. injection Happ as <-.
  rename a into l3. rename a0 into outs.
  assert (Ht2 : total_bal l2 = total_bal l).
  { pose proof (total_put_state l signer st2) as Hp. fold l2 in Hp.
    unfold bal_at in Hp. rewrite E in Hp. cbn [fopt bal st2] in Hp. lia. }
  destruct (ins_outs_balance cfg t signer tot outs Hwf Htot E1) as (Hbal & Hin64 & Hnp).
  pose proof (apply_inputs_total _ _ _ E0) as Hin.
  destruct (apply_inputs_pointwise _ _ _ E0) as (P1 & P2 & P3 & P4 & P5 & P6 & P7).
  assert (Hacct2 : forall a, acct_at l2 a = if a =? signer then st2 else acct_at l a).
  { intros a. unfold l2. apply acct_at_put. }
  pose proof (apply_outputs_noerr outs l3 bh (tx_id t) ltac:(lia) Hnp) as Hne.
  destruct (apply_outputs l3 bh outs (tx_id t)) as [l4 e] eqn:Eao. cbn [snd fst] in *. subst e.
  assert (Houts : outs = map (fun o : N * N => mksout OUT_NORMAL (snd o) (fst o) 0) outs0).
  { unfold state_outputs in E1. rewrite Hd in E1. injection E1 as <-. reflexivity. }
  assert (Hcnt : forall a, out_cnt outs a <= N.of_nat (length outs0)).
  { intros a. rewrite Houts. clear. induction outs0 as [|o os IH]; cbn [map out_cnt fold_right length]; [lia|].
    fold (out_cnt (map (fun o0 : N * N => mksout OUT_NORMAL (snd o0) (fst o0) 0) os) a).
    cbn [o_rcpt]. destruct (fst o =? a); lia. }
  assert (Hinc3 : forall a, inc (acct_at l3 a) + out_cnt outs a < two64).
  { intros a. rewrite P1. cbn [inc]. rewrite Hacct2. specialize (Hinc a). specialize (Hcnt a).
    destruct (N.eqb_spec a signer) as [Ea|_]; [rewrite Ea in Hinc; rewrite Hx in Hinc; cbn [inc st2]; lia|lia]. }
  destruct (apply_outputs_pointwise outs l3 bh (tx_id t) l4 Hnp ltac:(lia) Hinc3 Eao) as (A1 & A2 & A3 & A4 & A5 & A6).
  pose proof (apply_outputs_total outs l3 bh (tx_id t) l4 ltac:(lia) Eao) as Ht4.
  (* ---- the removal ---- *)
  unfold remove_tx. fold signer. rewrite E1. cbn [bind].
  match goal with |- context [remove_outputs ?l0' bh outs] => set (l0 := l0') end.
  assert (Hl0 : forall a, acct_at l0 a = acct_at l4 a) by reflexivity.
  assert (Hget0 : forall a, get_state l0 a = get_state l4 a) by reflexivity.
  assert (Ht0 : total_bal l0 = total_bal l4) by reflexivity.
  destruct (remove_outputs_pointwise outs l0 bh Hnp) as (l6 & Hrm & R1 & R2 & R3 & R4 & R5).
  { intros o Hin'. rewrite Hget0. apply A5. exact Hin'. }
  { intros a. rewrite Hl0, A1. cbn [bal inc]. split; lia. }
  rewrite Hrm. cbn [fst].
  pose proof (remove_outputs_total outs l0 bh l6 Hnp Hrm) as Ht6.
  assert (Hacct6 : forall a, acct_at l6 a = acct_at l3 a).
  { intros a. rewrite R1, Hl0, A1. cbn [bal nonce inc deleg]. destruct (acct_at l3 a); cbn. f_equal; lia. }
  destruct (remove_inputs_pointwise (state_inputs cfg t signer) l6) as (l7 & Hri & Q1 & Q2 & Q3 & Q4 & Q5).
  { intros i Hin'. apply R5. rewrite Hget0. apply A6. apply P6. exact Hin'. }
  { lia. }
  rewrite Hri. cbn [bind].
  assert (Hacct7 : forall a, acct_at l7 a = acct_at l2 a).
  { intros a. rewrite Q1, Hacct6, P1. cbn [bal nonce inc deleg]. specialize (P2 a). destruct (acct_at l2 a); cbn in *. f_equal; lia. }
  (* the signer's record *)
  assert (Hs7 : get_state l7 signer <> None).
  { apply Q5. apply R5. rewrite Hget0. apply A6. apply P7. unfold l2. rewrite get_state_put, N.eqb_refl. discriminate. }
  destruct (get_state l7 signer) as [s7|] eqn:Es7; [|contradiction]. cbn [of_opt bind].
  assert (Hs7v : s7 = st2).
  { pose proof (Hacct7 signer) as Hq. unfold acct_at at 1 in Hq. rewrite Es7 in Hq. rewrite Hacct2, N.eqb_refl in Hq. exact Hq. }
  subst s7. cbn [nonce st2]. rewrite wadd_small by exact Hnonce.
  destruct (N.eqb_spec (nonce x + 1) 0); [lia|]. cbn [negb guard bind].
  rewrite G, N.eqb_refl. cbn [guard bind]. rewrite Hd. cbn [bind].
  eexists. split; [reflexivity|]. split; [|split].
  - intros a. rewrite acct_at_put. destruct (N.eqb_spec a signer) as [Ea|Hne].
    + rewrite Ea, Hx. cbn [bal inc deleg st2]. destruct x; cbn. f_equal. lia.
    + rewrite Hacct7, Hacct2. destruct (N.eqb_spec a signer); [contradiction|reflexivity].
  - cbn [put_state set_accts dlgs]. rewrite Q2, R2. change (dlgs l0) with (dlgs l4). rewrite A2, P3. reflexivity.
  - cbn [put_state set_accts staked]. rewrite Q3, R3. change (staked l0) with (staked l4). rewrite A3, P4. reflexivity.
Qed.

End TxUndo.
