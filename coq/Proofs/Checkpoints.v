(* Proofs about the checkpoint functions and the last branch of PrevalidateBlock (property C20).
   The model follows the code after the repairs of R2 (IsSecured) and R3 (IsCheckpoint 0). *)
From Coq Require Import Bool.
From Virel Require Import Lib.Config Lib.U64 Lib.CheckLib Model.Checkpoints Check.C20.
Open Scope bool_scope.
Open Scope N_scope.

(* Boolean side condition on the configuration; discharged by vm_compute at every generated config.
   Either the checkpoint-free file (no data, MaxCheckpoint = 0) or well-shaped embedded data:
   header = interval >= 1, whole 32-byte entries, MaxCheckpoint = number of entries, no uint64 overflow,
   and the data has the digest the source declares (computed by the translator with BLAKE3). *)
Definition cfg_ok_cp (cfg : config) : bool :=
  cp_digest_ok cfg &&
  (if cp_bin_len cfg =? 0 then cp_max cfg =? 0
   else (1 <=? cp_interval cfg) && (cp_interval cfg =? cp_bin_header cfg) &&
        (cp_bin_len cfg =? 4 + 32 * cp_max cfg) && (cp_bin_len cfg <? 9223372036854775808) &&
        ((cp_max cfg + 1) * cp_interval cfg <? two64)).

Section Proofs.
Variable cfg : config.
Hypothesis Hok : cfg_ok_cp cfg = true.

Notation I := (cp_interval cfg).
Notation M := (cp_max cfg).
Notation L := (cp_bin_len cfg).

Lemma ok_facts :
  cp_digest_ok cfg = true /\
  ((L = 0 /\ M = 0) \/
   (L <> 0 /\ 1 <= I /\ I = cp_bin_header cfg /\ L = 4 + 32 * M /\ L < 9223372036854775808 /\ (M + 1) * I < two64)).
Proof.
  unfold cfg_ok_cp in Hok. apply andb_true_iff in Hok. destruct Hok as [Hd H]. split; [exact Hd|].
  destruct (N.eqb_spec L 0) as [E|E].
  - left. apply N.eqb_eq in H. tauto.
  - right. rewrite !andb_true_iff, !N.ltb_lt, !N.eqb_eq, !N.leb_le in H. tauto.
Qed.

Lemma free_file_false : L <> 0 -> cp_free_file cfg = false.
Proof. intros H. unfold cp_free_file. apply N.eqb_neq. exact H. Qed.

(* ---- the table shape ---- *)
Lemma cp_table_shape :
  (L = 0 /\ M = 0) \/
  (L = 4 + 32 * M /\ 1 <= I /\ I = init_interval cfg /\ M = init_max cfg /\ M = spec_count cfg).
Proof.
  destruct ok_facts as (_ & [H|(Hn & HI & Hh & HL & _)]); [left; exact H|right].
  unfold init_interval, init_max, spec_count, cp_overhead. rewrite HL.
  replace (4 + 32 * M - 4) with (M * 32) by lia. rewrite N.div_mul by discriminate. tauto.
Qed.

(* ---- characterisations ---- *)
Lemma is_secured_char h : is_secured cfg h = true <-> (L <> 0 /\ 1 <= M /\ h <= M * I).
Proof.
  unfold is_secured, cp_free_file.
  destruct (N.eqb_spec L 0) as [E|E]; [split; [discriminate|tauto]|].
  destruct (N.eqb_spec M 0) as [E0|E0]; [split; [discriminate|lia]|].
  destruct ok_facts as (_ & [[E1 _]|(_ & HI & _ & _ & _ & Hov)]); [contradiction|].
  rewrite wmul_small by nia.
  rewrite N.leb_le. split; [intros; repeat split; try assumption; lia|tauto].
Qed.

Lemma is_checkpoint_char h :
  is_checkpoint cfg h = true <-> (L <> 0 /\ 1 <= M /\ h <> 0 /\ h mod I = 0 /\ h / I <= M).
Proof.
  unfold is_checkpoint, cp_free_file.
  destruct (N.eqb_spec L 0) as [E|E]; [split; [discriminate|tauto]|].
  destruct (N.eqb_spec M 0) as [E0|E0]; [split; [discriminate|lia]|].
  rewrite !andb_true_iff, negb_true_iff, N.leb_le, N.eqb_eq, N.eqb_neq.
  split; [intros; repeat split; try tauto; lia|tauto].
Qed.

(* a multiple of the interval: h = (h / I) * I *)
Lemma multiple_eq h : 1 <= I -> h mod I = 0 -> h = h / I * I.
Proof. intros HI Hm. pose proof (N.div_mod h I ltac:(lia)) as Hdm. rewrite Hm in Hdm. lia. Qed.

Lemma checkpoint_is_secured h : is_checkpoint cfg h = true -> is_secured cfg h = true.
Proof.
  rewrite is_checkpoint_char, is_secured_char. intros (Hn & HM & H0 & Hm & Hq).
  destruct ok_facts as (_ & [[E1 _]|(_ & HI & _)]); [contradiction|].
  repeat split; try assumption. rewrite (multiple_eq h HI Hm). nia.
Qed.

Lemma cp_free_configs : L = 0 -> forall h, is_secured cfg h = false /\ is_checkpoint cfg h = false.
Proof.
  intros E h. unfold is_secured, is_checkpoint, cp_free_file. rewrite E. split; reflexivity.
Qed.

(* ---- GetCheckpoint ---- *)
Lemma get_checkpoint_in_range h :
  L <> 0 -> 1 <= h / I -> h / I <= M -> get_checkpoint cfg h = GcSlot (h / I - 1).
Proof.
  intros Hn H1 H2.
  destruct ok_facts as (_ & [[E _]|(_ & HI & Hh & HL & HL63 & Hov)]); [contradiction|].
  unfold get_checkpoint. rewrite free_file_false by exact Hn.
  destruct (N.eqb_spec I 0) as [E|_]; [lia|].
  revert H1 H2. generalize (h / I). intros q H1 H2.
  assert (Hq : q < two64) by (unfold two64 in *; lia).
  rewrite (wsub_small q 1) by lia.
  unfold cp_overhead.
  rewrite wmul_small by (unfold two64; lia).
  rewrite (wadd_small 4) by (unfold two64; lia).
  rewrite wadd_small by (unfold two64; lia).
  destruct (N.leb_spec (4 + (q - 1) * 32) (4 + (q - 1) * 32 + 32)) as [_|?]; [|lia].
  destruct (N.leb_spec (4 + (q - 1) * 32 + 32) L) as [_|?]; [reflexivity|lia].
Qed.

(* no underflow, no out-of-range slice: a checkpointed height yields its own table entry *)
Lemma cp_index_in_range h :
  is_checkpoint cfg h = true ->
  1 <= h / I /\ 4 + 32 * (h / I - 1) + 32 <= L /\ get_checkpoint cfg h = GcSlot (h / I - 1).
Proof.
  rewrite is_checkpoint_char. intros (Hn & HM & H0 & Hmod & Hle).
  destruct ok_facts as (_ & [[E _]|(_ & HI & Hh & HL & HL63 & Hov)]); [contradiction|].
  assert (H1 : 1 <= h / I).
  { pose proof (multiple_eq h HI Hmod) as Hdm.
    destruct (N.eq_dec (h / I) 0) as [Ez|Ez]; [rewrite Ez in Hdm; lia|lia]. }
  split; [exact H1|]. split; [|apply get_checkpoint_in_range; assumption].
  revert H1 Hle. generalize (h / I). intros q H1 Hle. lia.
Qed.

Lemma get_checkpoint_fast_eq h : get_checkpoint_fast cfg h = get_checkpoint cfg h.
Proof.
  unfold get_checkpoint_fast.
  destruct (cp_free_file cfg) eqn:Ef; [unfold get_checkpoint; rewrite Ef; reflexivity|].
  destruct (N.eqb_spec I 0) as [E|E]; [unfold get_checkpoint; rewrite Ef; apply N.eqb_eq in E; rewrite E; reflexivity|].
  destruct ((1 <=? h / I) && (h / I <? 288230376151711744)) eqn:Eg; [|reflexivity].
  apply andb_true_iff in Eg. destruct Eg as [H1 H2]. apply N.leb_le in H1. apply N.ltb_lt in H2.
  unfold get_checkpoint. rewrite Ef. destruct (N.eqb_spec I 0) as [?|_]; [contradiction|].
  revert H1 H2. generalize (h / I). intros q H1 H2.
  rewrite (wsub_small q 1) by (unfold two64; lia).
  unfold cp_overhead.
  rewrite wmul_small by (unfold two64; lia).
  rewrite (wadd_small 4) by (unfold two64; lia).
  rewrite wadd_small by (unfold two64; lia).
  destruct (N.leb_spec (4 + (q - 1) * 32) (4 + (q - 1) * 32 + 32)) as [_|?]; [|lia].
  reflexivity.
Qed.

(* ---- pinning ---- *)
Lemma last_is_checkpoint : L <> 0 -> 1 <= M -> is_checkpoint cfg (M * I) = true.
Proof.
  intros Hn HM.
  destruct ok_facts as (_ & [[E _]|(_ & HI & _)]); [contradiction|].
  apply is_checkpoint_char. repeat split; try assumption.
  - nia.
  - apply N.mod_mul. lia.
  - rewrite N.div_mul by lia. lia.
Qed.

(* every height whose proof-of-work check is skipped lies at or below an embedded checkpoint *)
Lemma secured_is_pinned h :
  is_secured cfg h = true -> exists c, is_checkpoint cfg c = true /\ h <= c.
Proof.
  rewrite is_secured_char. intros (Hn & HM & Hle).
  exists (M * I). split; [apply last_is_checkpoint; assumption|exact Hle].
Qed.

(* and conversely: everything at or below a checkpoint is secured (so the functions agree with the data) *)
Lemma pinned_is_secured h c : is_checkpoint cfg c = true -> h <= c -> is_secured cfg h = true.
Proof.
  intros Hc Hle. apply checkpoint_is_secured in Hc. revert Hc. rewrite !is_secured_char.
  intros (Hn & HM & Hc). repeat split; try assumption. lia.
Qed.

Lemma pow_or_pinned h : is_secured cfg h = false \/ exists c, is_checkpoint cfg c = true /\ h <= c.
Proof.
  destruct (is_secured cfg h) eqn:E; [right; apply secured_is_pinned; exact E|left; reflexivity].
Qed.

(* the functions say what the embedded data says *)
Lemma is_checkpoint_spec h : is_checkpoint cfg h = spec_cp_height cfg h.
Proof.
  apply eq_true_iff_eq. rewrite is_checkpoint_char. unfold spec_cp_height.
  rewrite !andb_true_iff, !N.leb_le, N.eqb_eq.
  destruct cp_table_shape as [[EL EM]|(HL & HI & Hh & _ & Hc)].
  - unfold spec_count, cp_overhead. rewrite EL. cbn. split; [tauto|lia].
  - unfold init_interval in Hh. rewrite <- Hh, <- Hc.
    split.
    + intros (Hn & HM & H0 & Hm & Hq). repeat split; try assumption.
      pose proof (multiple_eq h HI Hm) as Hdm.
      destruct (N.eq_dec (h / I) 0) as [Ez|Ez]; [rewrite Ez in Hdm; lia|lia].
    + intros ((((HM & _) & Hm) & H1) & Hq).
      assert (H0 : h <> 0) by (intros ->; rewrite N.div_0_l in H1 by lia; lia).
      assert (Hn : L <> 0) by lia.
      tauto.
Qed.

Lemma is_secured_spec h : is_secured cfg h = spec_pinned cfg h.
Proof.
  apply eq_true_iff_eq. rewrite is_secured_char. unfold spec_pinned, spec_last.
  rewrite !andb_true_iff, !N.leb_le.
  destruct cp_table_shape as [[EL EM]|(HL & HI & Hh & _ & Hc)].
  - unfold spec_count, cp_overhead. rewrite EL. cbn. split; [tauto|lia].
  - unfold init_interval in Hh. rewrite <- Hh, <- Hc. split; [intros; split; lia|intros; repeat split; lia].
Qed.

(* ---- PrevalidateBlock, last branch ---- *)
Section Prevalidate.
Variable H : Type.
Variable Heqb : H -> H -> bool.
Hypothesis Heqb_eq : forall a b, Heqb a b = true -> a = b.
Variable table : N -> H.
Variable zero : H.

Lemma unsecured_needs_pow h pow hash :
  is_secured cfg h = false -> prevalidate_tail cfg H Heqb table zero h pow hash = PvAccept -> pow = true.
Proof.
  intros Hs. unfold prevalidate_tail. rewrite Hs. cbn [negb]. destruct pow; [reflexivity|discriminate].
Qed.

(* a block at a checkpointed height is accepted only if its hash is the embedded checkpoint of that height *)
Lemma cp_accept_only_matching h pow hash :
  prevalidate_tail cfg H Heqb table zero h pow hash = PvAccept -> is_checkpoint cfg h = true ->
  hash = table (h / I - 1).
Proof.
  intros Hacc Hcp. unfold prevalidate_tail in Hacc.
  rewrite (checkpoint_is_secured h Hcp), Hcp in Hacc. cbn [negb] in Hacc.
  destruct (cp_index_in_range h Hcp) as (_ & _ & Hg). rewrite Hg in Hacc.
  destruct (Heqb hash (table (h / I - 1))) eqn:E; [apply Heqb_eq; exact E|discriminate].
Qed.

Lemma prevalidate_no_panic h pow hash : prevalidate_tail cfg H Heqb table zero h pow hash <> PvPanic.
Proof.
  unfold prevalidate_tail.
  destruct (is_secured cfg h); cbn [negb]; [|destruct pow; discriminate].
  destruct (is_checkpoint cfg h) eqn:Hcp; [|discriminate].
  destruct (cp_index_in_range h Hcp) as (_ & _ & Hg). rewrite Hg.
  destruct (Heqb hash _); discriminate.
Qed.

(* accepted => proof of work checked, or the height is at or below an embedded checkpoint *)
Lemma accept_pow_or_pinned h pow hash :
  prevalidate_tail cfg H Heqb table zero h pow hash = PvAccept ->
  pow = true \/ exists c, is_checkpoint cfg c = true /\ h <= c.
Proof.
  intros Hacc. destruct (pow_or_pinned h) as [Hs|Hp]; [left; eapply unsecured_needs_pow; eassumption|right; exact Hp].
Qed.

End Prevalidate.
End Proofs.

(* ---- the reference predicate of the run-time checker (Check/C20.v) is the specification used above ----
   prop_height spells spec_cp_height / spec_pinned out over values computed once per sweep; this is the same thing *)
Lemma checker_reference cfg h sec cp gc :
  prop_height cfg h sec cp gc =
  first_fail [
    (1, implb cp (match gc with OSlot i => i + 1 =? h / cp_bin_header cfg | _ => false end));
    (2, implb sec (spec_pinned cfg h));
    (3, Bool.eqb cp (spec_cp_height cfg h));
    (4, implb (spec_cp_height cfg h) sec);
    (5, if cp_bin_len cfg =? 0 then negb sec && negb cp else true)].
Proof. reflexivity. Qed.
