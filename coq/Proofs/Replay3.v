(* Property C03 / C10, "the ledger is the replay of the main chain", third part: the node.
   The main chain of a node state as a list of blocks ([mchain]: the blocks filed in the height index under the heights
   1 .. top_h, lowest first); the ledger side of the loops of CheckReorgs: reorg_disconnect runs [remove_chain] over the
   blocks above the common block, reorg_connect runs [apply_chain] over the collected blocks, each with the top height
   the replay uses (height of the block - 1 when connecting; the block's own height when disconnecting). *)
From Coq Require Import Sorting.Sorted.
From Virel Require Import Lib.Config Lib.U64 Lib.AMap Lib.CheckLib Model.Emission Model.Ledger Model.Node Spec.Chain
  Proofs.AMapLemmas Proofs.Emission Proofs.Conservation Proofs.Pointwise Proofs.Staking Proofs.StakedSum
  Proofs.NodeBasics Proofs.ForkChoice Proofs.Restart Proofs.ChainInv Proofs.ChainRun Proofs.ChainHeights
  Proofs.Undo Proofs.Undo2 Proofs.Undo4 Proofs.Replay1 Proofs.Replay2.
Open Scope N_scope.
Open Scope bool_scope.

(* the ledger's view of a stored block: the lottery value is that of the stored parent *)
Definition lb_of (n : node) (b : block) : lblock := to_lblock b (lottery_of n (prev_hash b)).
Definition lbs (n : node) (bs : list block) : list lblock := map (lb_of n) bs.

(* the blocks filed under the heights 1 .. k of a height index, lowest first *)
Fixpoint chain_upto (bl : list (N * block)) (tp : list (N * N)) (k : nat) : list block :=
  match k with
  | O => []
  | S k' => chain_upto bl tp k' ++
            match nget tp (N.of_nat (S k')) with
            | Some y => match nget bl y with Some yb => [yb] | None => [] end
            | None => []
            end
  end.
Definition mchain (n : node) : list block := chain_upto (blocks n) (topo n) (N.to_nat (top_h n)).

Lemma lb_of_ext n n' b : blocks n' = blocks n -> lb_of n' b = lb_of n b.
Proof. intros H. unfold lb_of, lottery_of, get_block. rewrite H. reflexivity. Qed.
Lemma lbs_ext n n' bs : blocks n' = blocks n -> lbs n' bs = lbs n bs.
Proof. intros H. unfold lbs. apply map_ext. intros b. apply lb_of_ext. exact H. Qed.

Lemma chain_upto_tp_ext bl tp tp' k :
  (forall j, (0 < j <= k)%nat -> nget tp' (N.of_nat j) = nget tp (N.of_nat j)) ->
  chain_upto bl tp' k = chain_upto bl tp k.
Proof.
  induction k as [|k IH]; intros H; cbn [chain_upto]; [reflexivity|].
  rewrite IH by (intros j Hj; apply H; lia). rewrite (H (S k)) by lia. reflexivity.
Qed.

Lemma chain_upto_bl_ext bl bl' tp k :
  (forall j y, (0 < j <= k)%nat -> nget tp (N.of_nat j) = Some y -> nget bl' y = nget bl y) ->
  chain_upto bl' tp k = chain_upto bl tp k.
Proof.
  induction k as [|k IH]; intros H; cbn [chain_upto]; [reflexivity|].
  rewrite IH by (intros j y Hj; apply H; lia).
  destruct (nget tp (N.of_nat (S k))) as [y|] eqn:Ey; [|reflexivity]. rewrite (H (S k) y) by (try lia; exact Ey). reflexivity.
Qed.

Section NodeReplay.
Variable cfg : config.
Variable genesis_addr team_key : N.
Variable gh : N.

Notation remove_chain := (remove_chain cfg genesis_addr).
Notation apply_chain := (apply_chain cfg genesis_addr).

(* ---- the index entries under a consistent index ---- *)
Lemma TInv_step bl tp x bx k :
  TInv gh bl tp x -> nget bl x = Some bx -> (S k <= N.to_nat (b_height bx))%nat ->
  exists y yb, nget tp (N.of_nat (S k)) = Some y /\ nget bl y = Some yb /\ b_height yb = N.of_nat (S k) /\
               nget tp (N.of_nat k) = Some (prev_hash yb) /\
               chain_upto bl tp (S k) = chain_upto bl tp k ++ [yb].
Proof.
  intros (_ & bx' & Hbx' & _ & _ & _ & Hch) Hbx Hle. rewrite Hbx in Hbx'. injection Hbx' as <-.
  destruct (Hch (N.of_nat (S k)) ltac:(lia)) as (y & yb & Hy & Hyb & Hyh & Hyp).
  exists y, yb. split; [exact Hy|]. split; [exact Hyb|]. split; [exact Hyh|]. split.
  - replace (N.of_nat k) with (N.of_nat (S k) - 1) by lia. apply Hyp. lia.
  - cbn [chain_upto]. rewrite Hy, Hyb. reflexivity.
Qed.

Lemma chain_upto_length bl tp x bx k :
  TInv gh bl tp x -> nget bl x = Some bx -> (k <= N.to_nat (b_height bx))%nat -> length (chain_upto bl tp k) = k.
Proof.
  intros HT Hbx. induction k as [|k IH]; intros Hle; [reflexivity|].
  destruct (TInv_step bl tp x bx k HT Hbx Hle) as (y & yb & _ & _ & _ & _ & ->).
  rewrite app_length, IH by lia. cbn. lia.
Qed.

Lemma TInv_top bl tp x bx : TInv gh bl tp x -> nget bl x = Some bx -> nget tp (b_height bx) = Some x.
Proof. intros (_ & bx' & Hbx' & Htop & _) Hbx. rewrite Hbx in Hbx'. injection Hbx' as <-. exact Htop. Qed.

Lemma remove_chain_cons L b r :
  remove_chain L (b :: r) = (l1 <- remove_block cfg genesis_addr L b (lb_height b) ;; remove_chain l1 r).
Proof. reflexivity. Qed.

(* ---- step 2 of CheckReorgs on the ledger ---- *)
Lemma disconnect_ledger fuel : forall n nh common lh n' cm bx,
  TInv gh (blocks n) (topo n) nh -> nget (blocks n) nh = Some bx ->
  nget (blocks n) common = Some cm -> nget (topo n) (b_height cm) = Some common ->
  reorg_disconnect cfg genesis_addr fuel n nh common lh = Ok n' ->
  let K := N.to_nat (b_height bx) in let kc := N.to_nat (b_height cm) in
  (kc <= K)%nat /\ blocks n' = blocks n /\
  remove_chain (ldg n) (rev (lbs n (skipn kc (chain_upto (blocks n) (topo n) K)))) = Ok (ldg n') /\
  chain_upto (blocks n') (topo n') kc = firstn kc (chain_upto (blocks n) (topo n) K).
Proof.
  induction fuel as [|f IH]; intros n nh common lh n' cm bx HT Hbx Hcm Hcmt H; cbn [reorg_disconnect] in H; [discriminate|].
  cbv zeta.
  destruct (N.eqb_spec nh common) as [Ec|Nc].
  - injection H as <-. subst nh. rewrite Hbx in Hcm. injection Hcm as <-.
    pose proof (chain_upto_length _ _ _ _ _ HT Hbx (le_n _)) as Hlen.
    split; [apply le_n|]. split; [reflexivity|]. split.
    + rewrite skipn_all2 by (rewrite Hlen; apply le_n). reflexivity.
    + rewrite firstn_all2 by (rewrite Hlen; apply le_n). reflexivity.
  - guard_inv H. opt_inv H. rename x into nb. unfold get_block in E. rewrite Hbx in E. injection E as <-.
    bind_inv H. rename a into n2.
    match goal with Hx : remove_block_node _ _ _ _ = Ok n2 |- _ => rename Hx into Erm end.
    pose proof (TInv_entry_le gh _ _ _ _ _ _ HT Hbx Hcmt) as Hle.
    pose proof (TInv_top _ _ _ _ HT Hbx) as Htopnh.
    assert (Hlt : b_height cm < b_height bx).
    { destruct (N.eq_dec (b_height cm) (b_height bx)) as [Eh|Nh]; [|lia].
      rewrite Eh in Hcmt. rewrite Htopnh in Hcmt. congruence. }
    set (K := N.to_nat (b_height bx)). set (kc := N.to_nat (b_height cm)).
    assert (HK : K = S (K - 1)) by (unfold K; lia).
    destruct (TInv_step _ _ _ _ (K - 1) HT Hbx ltac:(fold K; lia)) as (y & yb & Hy & Hyb & Hyh & Hyp & Hstep).
    rewrite <- HK in Hy, Hstep. unfold K in Hy at 1. rewrite N2Nat.id in Hy. rewrite Htopnh in Hy. injection Hy as <-.
    rewrite Hbx in Hyb. injection Hyb as <-.
    pose proof (TInv_retract gh _ _ _ _ HT Hbx ltac:(lia)) as HT'.
    assert (Hnd : NoDup (keys (topo n))) by (destruct HT as (Hnd & _); exact Hnd).
    pose proof HT' as (_ & pb & Hpb & _).
    assert (Hpbh : b_height bx = b_height pb + 1).
    { destruct HT as (_ & bx' & Hbx' & _ & _ & _ & Hch). rewrite Hbx in Hbx'. injection Hbx' as <-.
      destruct (Hch (N.of_nat (K - 1)) ltac:(unfold K; lia)) as (w & wb & Hw & Hwb & Hwh & _).
      rewrite Hyp in Hw. injection Hw as <-. rewrite Hpb in Hwb. injection Hwb as <-. unfold K in Hwh. lia. }
    unfold remove_block_node in Erm. bind_inv Erm. rename a into l1. injection Erm as <-.
    match goal with Hx : remove_block _ _ _ _ _ = Ok l1 |- _ => rename Hx into Erb end.
    cbn [ldg top_h blocks topo set_top set_topo set_ldg] in Erb.
    apply (IH _ _ _ _ _ cm pb) in H; cbn [blocks topo ldg set_top set_ldg set_topo] in *.
    2:{ exact HT'. } 2:{ exact Hpb. } 2:{ exact Hcm. }
    2:{ rewrite nget_ndel by exact Hnd. destruct (N.eqb_spec (b_height cm) (b_height bx)); [lia|exact Hcmt]. }
    cbv zeta in H. destruct H as (Hkc & Fb & Hrm & Hfst).
    replace (N.to_nat (b_height pb)) with (K - 1)%nat in * by (unfold K; lia).
    assert (Hext : chain_upto (blocks n) (ndel (topo n) (b_height bx)) (K - 1) = chain_upto (blocks n) (topo n) (K - 1)).
    { apply chain_upto_tp_ext. intros j Hj. rewrite nget_ndel by exact Hnd.
      destruct (N.eqb_spec (N.of_nat j) (b_height bx)); [unfold K in Hj; lia|reflexivity]. }
    rewrite Hext in Hrm, Hfst.
    pose proof (chain_upto_length _ _ _ _ (K - 1)%nat HT Hbx ltac:(fold K; lia)) as Hlen.
    fold kc in Hkc, Hrm, Hfst.
    split; [lia|]. split; [exact Fb|]. split.
    + rewrite Hstep. rewrite skipn_app. rewrite Hlen.
      replace (kc - (K - 1))%nat with 0%nat by lia. cbn [skipn].
      unfold lbs. rewrite map_app, rev_app_distr. cbn [map rev app]. rewrite remove_chain_cons.
      change (lb_height (lb_of n bx)) with (b_height bx).
      unfold lb_of at 1. unfold lottery_of, get_block in Erb |- *. cbn [blocks set_top set_topo] in Erb. rewrite Erb. cbn [bind].
      erewrite lbs_ext in Hrm; [exact Hrm|reflexivity].
    + rewrite Hfst, Hstep. rewrite firstn_app, Hlen. replace (kc - (K - 1))%nat with 0%nat by lia.
      cbn [firstn]. rewrite app_nil_r. reflexivity.
Qed.

(* ---- step 3 of CheckReorgs on the ledger ---- *)
Lemma connect_ledger bs : forall n x xb n',
  BInv gh (blocks n) -> TInv gh (blocks n) (topo n) x -> nget (blocks n) x = Some xb -> up gh (blocks n) x bs ->
  reorg_connect cfg genesis_addr n bs = Ok n' ->
  let K := N.to_nat (b_height xb) in
  blocks n' = blocks n /\
  apply_chain (ldg n) (lbs n bs) = Ok (ldg n') /\
  chain_upto (blocks n') (topo n') (K + length bs) = chain_upto (blocks n) (topo n) K ++ bs.
Proof.
  induction bs as [|c bs IH]; intros n x xb n' HB HT Hxb Hup H; cbn [reorg_connect] in H; cbv zeta.
  - injection H as <-. split; [reflexivity|]. split; [reflexivity|]. rewrite Nat.add_0_r, app_nil_r. reflexivity.
  - cbn [up] in Hup. destruct Hup as (Hc & Hprev & Hng & Hup).
    opt_inv H. rename x0 into prev. bind_inv H. bind_inv H. rename a0 into n2.
    unfold get_block in E. cbn [blocks set_topo] in E. rewrite Hprev, Hxb in E. injection E as <-.
    assert (Hh : b_height c = b_height xb + 1).
    { destruct HB as (_ & _ & Hp & _). destruct (Hp _ _ Hc Hng) as (p & Hpp & Hph).
      rewrite Hprev, Hxb in Hpp. injection Hpp as <-. exact Hph. }
    match goal with Hx : apply_block_node _ _ _ _ = Ok n2 |- _ => rename Hx into Eap end.
    unfold apply_block_node in Eap. bind_inv Eap. rename a0 into l1. injection Eap as <-.
    match goal with Hx : apply_block _ _ _ _ _ = Ok l1 |- _ => rename Hx into Eab end.
    cbn [ldg top_h blocks topo set_top set_topo set_ldg] in Eab.
    pose proof (TInv_extend gh _ _ x xb c HT Hxb Hc Hprev Hh) as HT'.
    apply (IH _ (b_hash c) c) in H; cbn [blocks topo ldg set_top set_ldg set_topo] in *; [|exact HB|exact HT'|exact Hc|exact Hup].
    cbv zeta in H. destruct H as (Fb & Hap & Hch).
    set (K := N.to_nat (b_height xb)) in *.
    replace (N.to_nat (b_height c)) with (S K) in Hch by (unfold K; lia).
    split; [exact Fb|]. split.
    + cbn [lbs map Conservation.apply_chain]. change (lb_height (lb_of n c)) with (b_height c).
      replace (b_height c - 1) with (b_height xb) by lia.
      unfold lb_of at 1. unfold lottery_of, get_block in Eab |- *. cbn [blocks set_top set_topo] in Eab. rewrite Eab. cbn [bind].
      erewrite lbs_ext in Hap; [exact Hap|reflexivity].
    + replace (K + length (c :: bs))%nat with (S K + length bs)%nat by (cbn [length]; lia). rewrite Hch.
      destruct (TInv_step _ _ _ _ K HT' Hc ltac:(lia)) as (y & yb & Hy & Hyb & _ & _ & Hstep).
      rewrite Hstep. replace (N.of_nat (S K)) with (b_height c) in Hy by (unfold K; lia).
      rewrite nget_nset_same in Hy. injection Hy as <-. rewrite Hc in Hyb. injection Hyb as <-.
      rewrite <- app_assoc. cbn [app]. f_equal.
      apply chain_upto_tp_ext. intros j Hj. rewrite nget_nset.
      destruct (N.eqb_spec (N.of_nat j) (b_height c)); [unfold K in Hj; lia|reflexivity].
Qed.

End NodeReplay.
