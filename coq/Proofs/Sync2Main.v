(* Catching up across a fork (property C11), part 4: the theorem for a peer and a node that are reachable states.

   [sync_fork_catches_up]: the peer is any state with the chain structure of Spec/Chain.v (every state reachable from
   genesis has it: Proofs/ChainHeights.v [chain_structure_always]), our node any state with the fork-choice invariant
   (Proofs/ForkChoice.v: every reachable state).  [main_chain peer] = shared ++ theirs as in Proofs/Sync2Refine.v.
   Under the premises listed there (our node accepts the peer's branch block by block, it is lighter than the peer's
   announcement until the last block is in, the by-height window reaches the frontier) there is a number of rounds after
   which, for every clock reading at which the peer's blocks pass prevalidation:
     - our node is exactly the node that received the peer's branch block by block (lowest first),
     - its store holds every block of the peer's main chain,
     - its tip is the peer's tip, its buffer is empty, further rounds change nothing,
     - [sim] (which stops as soon as the tips are equal) ends with the peer's tip. *)
From Coq Require Import Arith Bool Lia.
From Virel Require Import Lib.Config Lib.U64 Lib.AMap Model.Ledger Model.Node Model.Sync Spec.Chain
  Proofs.AMapLemmas Proofs.Conservation Proofs.NodeBasics Proofs.ForkChoice Proofs.Sync Proofs.Sync2 Proofs.Sync2Refine.
Open Scope N_scope.

(* the main chain of a node, by height: what it serves *)
Definition main_chain (n : node) : list block := serve_heights n 0 (S (N.to_nat (top_h n))).

Lemma chain_structure_index gh n : chain_structure gh n -> height_index n.
Proof.
  intros (_ & _ & _ & _ & _ & _ & Habove & Hch). split.
  - intros h Hle. destruct (Hch h Hle) as (y & yb & Hy & Hyb & Hh & _). exists yb. unfold block_at. rewrite Hy. split; assumption.
  - intros h Hlt. unfold block_at. rewrite (Habove h Hlt). reflexivity.
Qed.

Section MainChain.
Variable gh : N.
Variable n : node.
Hypothesis HC : chain_structure gh n.

Lemma main_chain_nth : forall h, block_at n h = nth_error (main_chain n) (N.to_nat h).
Proof.
  intros h. pose proof (chain_structure_index gh n HC) as HI.
  destruct (serve_heights_spec n HI (S (N.to_nat (top_h n))) 0) as (S1 & S2 & S3 & S4). cbn zeta in *. fold (main_chain n) in *.
  destruct (N.le_gt_cases h (top_h n)) as [Hle|Hgt].
  - destruct (S2 (N.to_nat h) ltac:(lia) ltac:(lia)) as (b & Hb). rewrite Hb.
    destruct (S1 _ _ Hb) as (Hat & _). rewrite <- Hat. f_equal. lia.
  - rewrite (S4 (N.to_nat h)) by lia. apply HI. exact Hgt.
Qed.

Lemma main_chain_length : N.of_nat (length (main_chain n)) = top_h n + 1.
Proof.
  pose proof (chain_structure_index gh n HC) as HI.
  destruct (serve_heights_spec n HI (S (N.to_nat (top_h n))) 0) as (S1 & S2 & S3 & S4). cbn zeta in *. fold (main_chain n) in *.
  destruct (S2 (N.to_nat (top_h n)) ltac:(lia) ltac:(lia)) as (b & Hb).
  assert (Hlt : (N.to_nat (top_h n) < length (main_chain n))%nat) by (apply nth_error_Some; congruence). lia.
Qed.

Lemma main_chain_height i b : nth_error (main_chain n) i = Some b -> b_height b = N.of_nat i.
Proof.
  intros Hb. pose proof (chain_structure_index gh n HC) as HI.
  destruct (serve_heights_spec n HI (S (N.to_nat (top_h n))) 0) as (S1 & _). cbn zeta in *. fold (main_chain n) in *.
  destruct (S1 _ _ Hb) as (_ & Hh). rewrite Hh. lia.
Qed.

(* an entry of the main chain is the stored block the height index names *)
Lemma main_chain_entry i b : nth_error (main_chain n) i = Some b ->
  get_topo n (N.of_nat i) = Some (b_hash b) /\ get_block n (b_hash b) = Some b /\ N.of_nat i <= top_h n.
Proof.
  intros Hb. assert (Hlt : (i < length (main_chain n))%nat) by (apply nth_error_Some; congruence).
  pose proof main_chain_length as Hl.
  pose proof (main_chain_nth (N.of_nat i)) as Hat. rewrite Nat2N.id, Hb in Hat.
  destruct HC as (Hk & _ & _ & _ & _ & _ & _ & Hch).
  destruct (Hch (N.of_nat i) ltac:(lia)) as (y & yb & Hy & Hyb & _).
  unfold block_at in Hat. rewrite Hy, Hyb in Hat. injection Hat as ->.
  rewrite (Hk _ _ Hyb). split; [exact Hy|]. split; [exact Hyb|lia].
Qed.

Lemma main_chain_link i b c : nth_error (main_chain n) i = Some b -> nth_error (main_chain n) (S i) = Some c ->
  prev_hash c = b_hash b.
Proof.
  intros Hb Hc. destruct (main_chain_entry i b Hb) as (Hy & _ & _). destruct (main_chain_entry (S i) c Hc) as (Hyc & Hbc & Hle).
  destruct HC as (Hk & _ & _ & _ & _ & _ & _ & Hch).
  destruct (Hch (N.of_nat (S i)) Hle) as (y & yb & Hy' & Hyb & _ & Hprev).
  rewrite Hyc in Hy'. injection Hy' as <-. rewrite Hbc in Hyb. injection Hyb as <-.
  specialize (Hprev ltac:(lia)). replace (N.of_nat (S i) - 1) with (N.of_nat i) in Hprev by lia. congruence.
Qed.

Lemma main_chain_nodup : NoDup (map b_hash (main_chain n)).
Proof.
  apply (NoDup_nth _ 0). rewrite map_length. intros i j Hi Hj E.
  destruct (nth_error (main_chain n) i) as [b|] eqn:Hb; [|apply nth_error_None in Hb; lia].
  destruct (nth_error (main_chain n) j) as [c|] eqn:Hc; [|apply nth_error_None in Hc; lia].
  rewrite (nth_error_nth _ _ 0 (map_nth_error b_hash _ _ Hb)), (nth_error_nth _ _ 0 (map_nth_error b_hash _ _ Hc)) in E.
  destruct (main_chain_entry i b Hb) as (_ & Hgb & _). destruct (main_chain_entry j c Hc) as (_ & Hgc & _).
  rewrite E in Hgb. rewrite Hgb in Hgc. injection Hgc as <-.
  pose proof (main_chain_height _ _ Hb). pose proof (main_chain_height _ _ Hc). lia.
Qed.

(* the tip is the last block of the main chain *)
Lemma main_chain_tip : exists t, nth_error (main_chain n) (N.to_nat (top_h n)) = Some t /\ b_hash t = top n /\ b_cd t = top_cd n.
Proof.
  pose proof (main_chain_nth (top_h n)) as Hat.
  destruct HC as (Hk & _ & _ & (t & Ht & _ & Hcd) & Htop & _).
  unfold block_at in Hat. rewrite Htop, Ht in Hat. exists t. split; [symmetry; exact Hat|]. split; [apply (Hk _ _ Ht)|exact Hcd].
Qed.

End MainChain.

Section Main.
Variable cfg : config.
Variable genesis_addr team_key gh : N.
Variable peer n0 : node.
Variable shared theirs : list block.
Notation apply_ext' := (apply_ext cfg genesis_addr).
Notation acc_chain' := (acc_chain cfg genesis_addr).
Notation pbd := (parallel_blocks cfg).

Lemma apply_ext_FInv : forall l n, FInv n -> FInv (apply_ext' n l).
Proof.
  induction l as [|b r IH]; intros n H; [exact H|]. cbn [apply_ext].
  destruct (add_block cfg genesis_addr n b) as [[n1 amb]| |] eqn:E; try exact H.
  apply IH. eapply add_block_inv; eassumption.
Qed.

Lemma apply_ext_store_inv : forall l n, acc_chain' n l -> forall h x,
  get_block (apply_ext' n l) h = Some x -> get_block n h = Some x \/ (In x l /\ b_hash x = h).
Proof.
  induction l as [|b r IH]; intros n H h x Hx; [left; exact Hx|].
  destruct H as (n1 & amb & Ha & Hr). cbn [apply_ext] in Hx. rewrite Ha in Hx.
  destruct (add_block_store _ _ _ _ _ _ Ha) as (_ & Hb).
  destruct (IH n1 Hr h x Hx) as [H1|(H1 & H2)]; [|right; split; [right; exact H1|exact H2]].
  unfold get_block in H1. rewrite Hb, nget_nset in H1. destruct (N.eqb_spec h (b_hash b)) as [->|_].
  - injection H1 as <-. right. split; [left; reflexivity|reflexivity].
  - left. exact H1.
Qed.

Hypothesis HCpeer : chain_structure gh peer.
Hypothesis HF0 : FInv n0.
Hypothesis Hsplit : main_chain peer = shared ++ theirs.
Hypothesis Hshared_ne : shared <> [].
Hypothesis Htheirs_ne : theirs <> [].
Hypothesis Hnz : forall b, In b (shared ++ theirs) -> b_hash b <> 0.
Hypothesis Hshared : forall b, In b shared -> get_block n0 (b_hash b) = Some b.
Hypothesis Hnew : forall b, In b theirs -> get_block n0 (b_hash b) = None.
Hypothesis Hacc : acc_chain' n0 theirs.
Hypothesis Hheavy : forall j, (j < length theirs)%nat -> top_cd (apply_ext' n0 (firstn j theirs)) < top_cd peer.
Hypothesis Hbound : top_h peer + pbd + 2 < two64.
Hypothesis Hpbd : 1 <= pbd.
Hypothesis Hheld : forall j, (j <= length theirs)%nat ->
  N.of_nat (length shared + j) <= held_height (apply_ext' n0 (firstn j theirs)) + 1.

(* the last block of the peer's branch is the peer's tip; once it is stored our tip is that block *)
Lemma final_tip : top_cd peer <= top_cd (apply_ext' n0 theirs) /\ top (apply_ext' n0 theirs) = top peer.
Proof.
  destruct (main_chain_tip gh peer HCpeer) as (t & Ht & Hth & Htcd). rewrite Hsplit in Ht.
  pose proof (main_chain_length gh peer HCpeer) as Hl. rewrite Hsplit, app_length in Hl.
  assert (Hpos : (0 < length theirs)%nat) by (destruct theirs; [congruence|cbn; lia]).
  rewrite nth_error_app2 in Ht by lia.
  assert (Hin : In t theirs) by (eapply nth_error_In; exact Ht).
  pose proof (apply_ext_FInv theirs n0 HF0) as (Hts & _ & Hmax).
  destruct (apply_ext_store cfg genesis_addr theirs n0 Hacc) as (_ & K2 & _).
  pose proof (Hmax _ _ (K2 t Hin)) as Hle. rewrite Htcd in Hle. split; [exact Hle|].
  destruct Hts as (x & Hx & Hxcd).
  destruct (apply_ext_store_inv theirs n0 Hacc _ _ Hx) as [H0|(Hxin & Hxh)].
  - exfalso. destruct HF0 as (_ & _ & Hmax0). pose proof (Hmax0 _ _ H0). pose proof (Hheavy O Hpos) as Hh. cbn [firstn apply_ext] in Hh. lia.
  - apply (In_nth _ _ dflt_block) in Hxin. destruct Hxin as (j & Hj & Hnth).
    destruct (Nat.eq_dec (S j) (length theirs)) as [Elast|Nlast].
    + rewrite <- Hxh, <- Hth. f_equal. apply (nth_error_nth _ _ dflt_block) in Ht.
      replace (N.to_nat (top_h peer) - length shared)%nat with j in Ht by lia. congruence.
    + exfalso. assert (Hacc' : acc_chain' n0 (firstn (S j) theirs)).
      { pose proof Hacc as H. rewrite <- (firstn_skipn (S j) theirs) in H. apply acc_chain_app in H. apply H. }
      destruct (apply_ext_store cfg genesis_addr _ n0 Hacc') as (_ & K2' & _).
      assert (Hin' : In x (firstn (S j) theirs)) by (rewrite <- Hnth; apply nth_in_firstn; lia).
      pose proof (apply_ext_FInv (firstn (S j) theirs) n0 HF0) as (_ & _ & Hmax').
      pose proof (Hmax' _ _ (K2' x Hin')). pose proof (Hheavy (S j) ltac:(lia)). lia.
Qed.

Theorem sync_fork_catches_up s :
  sy_node s = n0 -> sy_queue s = [] -> sy_buf s = [] ->
  (sy_diff s < top_cd peer \/ (sy_diff s = top_cd peer /\ sy_height s = top_h peer)) ->
  exists bound, forall now, (forall b, In b (tl (shared ++ theirs)) -> prevalidate_block cfg team_key b now = Ok tt) ->
    (* the answers of every round arrive in the order sent *)
    (forall k, (bound <= k)%nat ->
       let s' := srounds cfg genesis_addr team_key peer now k s in
       sy_node s' = apply_ext' n0 theirs /\
       (forall b, In b (main_chain peer) -> get_block (sy_node s') (b_hash b) = Some b) /\
       top (sy_node s') = top peer /\ sy_buf s' = [] /\
       srounds cfg genesis_addr team_key peer now (S k) s = s') /\
    (* the answers of every round arrive in any order *)
    (forall m s', (bound <= m)%nat -> prounds cfg genesis_addr team_key peer now m s s' ->
       sy_node s' = apply_ext' n0 theirs /\
       (forall b, In b (main_chain peer) -> get_block (sy_node s') (b_hash b) = Some b) /\
       top (sy_node s') = top peer /\ sy_buf s' = []) /\
    (* [sim] *)
    (forall fuel, (bound <= fuel)%nat ->
       top (sy_node (fst (sim cfg genesis_addr team_key fuel peer s [] now))) = top peer).
Proof.
  intros H1 H2 H3 H4. destruct final_tip as (Hdone & Htop).
  assert (Hlen : N.of_nat (length (shared ++ theirs)) = top_h peer + 1) by (rewrite <- Hsplit; apply (main_chain_length gh); exact HCpeer).
  assert (Hat : forall h, block_at peer h = nth_error (shared ++ theirs) (N.to_nat h)) by (rewrite <- Hsplit; apply (main_chain_nth gh); exact HCpeer).
  assert (Hheight : forall i b, nth_error (shared ++ theirs) i = Some b -> b_height b = N.of_nat i) by (rewrite <- Hsplit; apply (main_chain_height gh); exact HCpeer).
  assert (Hlink : forall i b c, nth_error (shared ++ theirs) i = Some b -> nth_error (shared ++ theirs) (S i) = Some c -> prev_hash c = b_hash b)
    by (rewrite <- Hsplit; apply (main_chain_link gh); exact HCpeer).
  assert (Hinj : NoDup (map b_hash (shared ++ theirs))) by (rewrite <- Hsplit; apply (main_chain_nodup gh); exact HCpeer).
  destruct (sync_fork_rounds cfg genesis_addr team_key peer n0 shared theirs Hlen Hshared_ne Hat Hheight Hlink Hinj Hnz Hshared Hnew
              Hacc Hheavy Hdone Hbound Hpbd Hheld s H1 H2 H3 H4) as (bound1 & Hb1).
  destruct (sync_fork_prounds cfg genesis_addr team_key peer n0 shared theirs Hlen Hshared_ne Hat Hheight Hlink Hinj Hnz Hshared Hnew
              Hacc Hheavy Hdone Hbound Hpbd Hheld s H1 H2 H3 H4) as (bound2 & Hb2).
  exists (Nat.max bound1 bound2). intros now Hpre.
  assert (Hstore : forall b, In b (main_chain peer) -> get_block (apply_ext' n0 theirs) (b_hash b) = Some b).
  { intros b Hin. rewrite Hsplit in Hin.
    apply (final_store cfg genesis_addr team_key peer n0 shared theirs Hlen Hshared_ne Hat Hheight Hlink Hinj Hnz Hshared Hnew
             Hacc Hheavy Hdone Hbound Hpbd Hheld b Hin). }
  assert (Hk : forall k, (Nat.max bound1 bound2 <= k)%nat ->
       let s' := srounds cfg genesis_addr team_key peer now k s in
       sy_node s' = apply_ext' n0 theirs /\
       (forall b, In b (main_chain peer) -> get_block (sy_node s') (b_hash b) = Some b) /\
       top (sy_node s') = top peer /\ sy_buf s' = [] /\
       srounds cfg genesis_addr team_key peer now (S k) s = s').
  { intros k Hk. cbn zeta. destruct (Hb1 now Hpre k ltac:(lia)) as (E1 & E2 & E3). cbn zeta in *.
    split; [exact E1|]. split; [rewrite E1; exact Hstore|split; [rewrite E1; exact Htop|split; [exact E2|exact E3]]]. }
  split; [exact Hk|]. split.
  - intros m s' Hm Hr. destruct (Hb2 now Hpre m s' ltac:(lia) Hr) as (E1 & E2).
    split; [exact E1|]. split; [rewrite E1; exact Hstore|split; [rewrite E1; exact Htop|exact E2]].
  - intros fuel Hf. apply sim_srounds. destruct (Hk fuel Hf) as (_ & _ & Ht & _). exact Ht.
Qed.

End Main.
