(* Property C04, clause "a block that is valid on its own branch is never refused because of the state of the branch
   the node currently follows": FALSE of the code (open finding R14).  checkBlock judges the stake signature of EVERY
   delivered block - also one extending a side branch - against the ledger of the chain the node follows at that moment
   (Stats.StakedAmount, the Delegate index): a staked block whose delegate was registered and funded on its own branch
   only is refused with "nothing is staked" / "unknown delegate" / "wrong signer", although a node following that branch
   accepts it.  The smallest history the rules of the verification configuration allow (transactions other than
   transfers from height 3; the block three below names the entitled delegate; staked blocks from height 4):

        G(1) - A1(2) - A2(3) - A3(13) - A4(14) - A5(15) - A6(16) - A7(17)        main chain of node n, weight 19
                           \
                            S3(23) - S4(24) - S5(25) - S6(26) - S7(27)            branch, weight 17 at S6, 21 with S7

   S3 carries three transactions of key 3 (the genesis address 7): register pool 2, choose it, stake one coin in it.
   From S4 on the lottery of the branch can only elect pool 2, so S4, S5, S6 name it as next delegate; S7, three blocks
   above S4, is therefore entitled to pool 2 and carries the signature of its owner (key 3) over S4's hash.
   Node m (G, A1, A2, S3 .. S6) accepts S7 as its new tip.  Node n accepted and stored the same blocks S3 .. S6 beside
   its main chain, but refuses S7 with code 717 (staked total of ITS chain is 0) - so it can never adopt the branch,
   although with S7 the branch outweighs its main chain (21 > 19).
   Hashes are small numbers; timestamps 15 s apart keep the difficulty at the minimum 4; every block is unstaked (weight
   4 before height 3, 2 from height 3 on) except S7 (weight 4). *)
From Virel Require Import Lib.Config Lib.U64 Lib.AMap Model.Ledger Model.Node Proofs.ForkChoice Gen.Params.
Open Scope N_scope.

Definition r_commit (e : N) (anc : list N) : commit := mkcommit e e anc 0 0 false.
Definition r_genesis : block := genesis_block cfg_verifnet 7 1 123 (r_commit 1 [0; 0; 0]).
(* an unstaked block: hash, version, height, ancestors, next delegate, cumulative difficulty, transactions *)
Definition r_block (h v ht : N) (anc : list N) (next cd : N) (txs : list tx) : block :=
  mkblock h v ht (15000 * ht) anc [] 7 0 next true 0 0 4 cd txs [] 0 0 (r_commit h anc) false.
Definition r_now : N := 200000.
Definition r_at (bs : list block) : list (block * N) := map (fun b => (b, r_now)) bs.

(* key 3 registers pool 2 (burn 1 coin), makes it its delegate, stakes 1 coin; fees = fee_per_byte_v2 * size *)
Definition r_txs : list tx :=
  [ mktx 101 2 3 3 true false (TRegister 1 50 2) 1 232000000;
    mktx 102 3 3 3 true false (TSetDelegate 2 0) 2 2198000000;
    mktx 103 4 3 3 true false (TStake 1000000000 2 0) 3 710000000 ].

Definition r_trunk : list block :=
  [ r_block 2 0 1 [1; 0; 0] 0 5 [];            (* A1 *)
    r_block 3 0 2 [2; 1; 0] 0 9 [] ].          (* A2 *)
Definition r_main : list block :=
  [ r_block 13 1 3 [3; 2; 1] 0 11 [];          (* A3 *)
    r_block 14 1 4 [13; 3; 2] 0 13 [];         (* A4 *)
    r_block 15 1 5 [14; 13; 3] 0 15 [];        (* A5 *)
    r_block 16 1 6 [15; 14; 13] 0 17 [];       (* A6 *)
    r_block 17 1 7 [16; 15; 14] 0 19 [] ].     (* A7 *)
Definition r_branch : list block :=
  [ r_block 23 1 3 [3; 2; 1] 0 11 r_txs;       (* S3 *)
    r_block 24 1 4 [23; 3; 2] 2 13 [];         (* S4: names pool 2 *)
    r_block 25 1 5 [24; 23; 3] 2 15 [];        (* S5 *)
    r_block 26 1 6 [25; 24; 23] 2 17 [] ].     (* S6 *)
(* S7: delegate 2, signed by key 3 over the hash of S4 (its third ancestor) *)
Definition r_staked : block :=
  mkblock 27 1 7 105000 [26; 25; 24] [] 7 2 2 false 3 24 4 21 [] [] 0 0 (r_commit 27 [26; 25; 24]) false.

Definition r_outcomes (n : node) (ops : list (block * N)) : list outcome :=
  fst (fold_left (fun acc op => let '(r, out, _) := deliver cfg_verifnet 7 0 (snd acc) (fst op) (snd op) in
                                (fst acc ++ [out], r)) ops ([], n)).

Definition r_node0 : node :=
  Eval vm_compute in match node0 cfg_verifnet 7 r_genesis with Ok n => n | _ => mknode [] [] 0 0 0 [] ledger0 end.
(* the node that follows the main chain and has the branch beside it *)
Definition r_node_main : node := Eval vm_compute in run cfg_verifnet 7 0 r_node0 (r_at (r_trunk ++ r_main ++ r_branch)).
(* the node that follows the branch *)
Definition r_node_branch : node := Eval vm_compute in run cfg_verifnet 7 0 r_node0 (r_at (r_trunk ++ r_branch)).
Definition r_node_branch' : node :=
  Eval vm_compute in fst (fst (deliver cfg_verifnet 7 0 r_node_branch r_staked r_now)).

Theorem branch_validity_refuted :
  node0 cfg_verifnet 7 r_genesis = Ok r_node0 /\ b_cd r_genesis = b_diff r_genesis /\
  (* the node on the branch: every block accepted, main chain ends at the parent of S7, the pool has its stake;
     S7 is accepted and becomes the tip *)
  r_node_branch = run cfg_verifnet 7 0 r_node0 (r_at (r_trunk ++ r_branch)) /\
  r_outcomes r_node0 (r_at (r_trunk ++ r_branch)) = [Accepted; Accepted; Accepted; Accepted; Accepted; Accepted] /\
  top r_node_branch = prev_hash r_staked /\
  staked (ldg r_node_branch) = 1000000000 /\
  get_dlg (ldg r_node_branch) 2 = Some (mkdlg 2 3 50 [mkfund 7 1000000000 5]) /\
  deliver cfg_verifnet 7 0 r_node_branch r_staked r_now = (r_node_branch', Accepted, false) /\
  top r_node_branch' = b_hash r_staked /\
  (* the node on the main chain: every block accepted - those of the branch too, they are stored -, main chain ends at A7;
     S7, whose parent it stores and with which the branch would outweigh its main chain, is refused: nothing is staked
     on the chain it follows *)
  r_node_main = run cfg_verifnet 7 0 r_node0 (r_at (r_trunk ++ r_main ++ r_branch)) /\
  r_outcomes r_node0 (r_at (r_trunk ++ r_main ++ r_branch)) =
    [Accepted; Accepted; Accepted; Accepted; Accepted; Accepted; Accepted; Accepted; Accepted; Accepted; Accepted] /\
  top r_node_main = 17 /\ top_cd r_node_main = 19 /\
  (exists p, get_block r_node_main (prev_hash r_staked) = Some p /\ nth_error r_branch 3 = Some p) /\
  (forall b, In b r_branch -> get_block r_node_main (b_hash b) = Some b) /\
  top_cd r_node_main < b_cd r_staked /\
  staked (ldg r_node_main) = 0 /\
  deliver cfg_verifnet 7 0 r_node_main r_staked r_now = (r_node_main, Rejected 717, false).
Proof.
  split; [vm_compute; reflexivity|]. split; [reflexivity|].
  split; [vm_compute; reflexivity|]. split; [vm_compute; reflexivity|]. split; [vm_compute; reflexivity|].
  split; [vm_compute; reflexivity|]. split; [vm_compute; reflexivity|]. split; [vm_compute; reflexivity|].
  split; [vm_compute; reflexivity|]. split; [vm_compute; reflexivity|]. split; [vm_compute; reflexivity|].
  split; [vm_compute; reflexivity|]. split; [vm_compute; reflexivity|].
  split; [eexists; split; vm_compute; reflexivity|].
  split; [intros b [<-|[<-|[<-|[<-|[]]]]]; vm_compute; reflexivity|].
  split; [vm_compute; reflexivity|]. split; [vm_compute; reflexivity|]. vm_compute; reflexivity.
Qed.

(* the clause as a statement about all histories, and its negation *)
Definition branch_validity_clause : Prop :=
  forall cfg genesis_addr team_key g n0 ops_n ops_m b now,
    node0 cfg genesis_addr g = Ok n0 -> b_cd g = b_diff g ->
    let n := run cfg genesis_addr team_key n0 ops_n in
    let m := run cfg genesis_addr team_key n0 ops_m in
    (* valid on its own branch: a node whose main chain ends at the parent accepts it *)
    top m = prev_hash b -> snd (fst (deliver cfg genesis_addr team_key m b now)) = Accepted ->
    (* the parent is stored, the block itself not yet *)
    get_block n (prev_hash b) <> None -> get_block n (b_hash b) = None ->
    snd (fst (deliver cfg genesis_addr team_key n b now)) = Accepted.

Theorem branch_validity_clause_false : ~ branch_validity_clause.
Proof.
  intros H.
  destruct branch_validity_refuted as
    (H0 & Hg & Em & _ & Htop & _ & _ & Hacc & _ & En & _ & _ & _ & (p & Hp & _) & _ & _ & _ & Hrej).
  specialize (H cfg_verifnet 7 0 r_genesis r_node0 (r_at (r_trunk ++ r_main ++ r_branch)) (r_at (r_trunk ++ r_branch))
                r_staked r_now H0 Hg).
  cbn zeta in H. rewrite <- Em, <- En in H. rewrite Hacc, Hrej in H. cbn [fst snd] in H.
  specialize (H Htop eq_refl ltac:(rewrite Hp; discriminate) ltac:(vm_compute; reflexivity)).
  discriminate H.
Qed.
