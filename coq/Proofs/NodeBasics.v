(* Basic facts about the node model: a delivery that is not accepted returns the old node. *)
From Virel Require Import Lib.Config Lib.U64 Lib.AMap Model.Ledger Model.Node.
Open Scope N_scope.

Section NodeBasics.
Variable cfg : config.
Variable genesis_addr team_key : N.

Lemma deliver_rejected_unchanged n b now n' c amb :
  deliver cfg genesis_addr team_key n b now = (n', Rejected c, amb) -> n' = n.
Proof.
  unfold deliver.
  destruct (prevalidate_block cfg team_key b now) as [u|e|e]; [|intros [= <- _ _]; reflexivity|discriminate].
  destruct (add_block cfg genesis_addr n b) as [[n1 a]|e|e]; [discriminate| |discriminate].
  intros [= <- _ _]. reflexivity.
Qed.

Lemma deliver_crashed_unchanged n b now n' c amb :
  deliver cfg genesis_addr team_key n b now = (n', Crashed c, amb) -> n' = n.
Proof.
  unfold deliver.
  destruct (prevalidate_block cfg team_key b now) as [u|e|e]; [|discriminate|intros [= <- _ _]; reflexivity].
  destruct (add_block cfg genesis_addr n b) as [[n1 a]|e|e]; [discriminate|discriminate|].
  intros [= <- _ _]. reflexivity.
Qed.

End NodeBasics.
