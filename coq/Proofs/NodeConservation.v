(* Property C01 at the level of the node: coins are conserved in EVERY ledger state a node can reach - whatever sequence
   of deliveries (extensions, any number of reorganisations, refused or crashing deliveries) led to it.

   Route.  Proofs/Replay4.v / Replay5.v: the ledger of a reachable node agrees with the replay [lr] of its main chain from
   the genesis ledger - accounts as functions (an absent record = an all-zero record), delegate table as a list, staked
   total.  Along a chain from genesis the sum of all balances is the scheduled emission (Conservation.apply_chain_supply)
   and the staking invariants hold (Undo4.apply_chain_PInv).  The delegate table and the staked total are EQUAL, so the
   staking invariants carry over at once.  The sum of balances is a sum over the association list [accts]; the node's list
   may hold all-zero records the replay does not hold, in another order.  Both lists hold at most one record per address
   (Proofs/KeyInv.v: KInv, an unconditional invariant), and two such lists that agree pointwise up to "absent = zero" have
   the same sum (sumf_agree below).

   Also here: no record is filed under delegate id 0 and no owner has two funds in one pool in any reachable ledger
   ([linv] of Proofs/Mempool2.v, the ledger hypothesis of the C09 simulation theorems). *)
From Coq Require Import Sorting.Sorted.
From Virel Require Import Lib.Config Lib.U64 Lib.AMap Lib.CheckLib Model.Emission Model.Ledger Model.Node Spec.Chain Spec.Rules
  Proofs.AMapLemmas Proofs.Emission Proofs.Conservation Proofs.Pointwise Proofs.Refine Proofs.Staking Proofs.StakedSum
  Proofs.Refine2 Proofs.NodeBasics Proofs.ForkChoice Proofs.Restart Proofs.ChainInv Proofs.ChainRun Proofs.ChainHeights
  Proofs.Undo Proofs.Undo2 Proofs.Undo4 Proofs.Replay1 Proofs.Replay2 Proofs.Replay3 Proofs.Replay4 Proofs.Replay5
  Proofs.Mempool2 Proofs.Lottery Proofs.KeyInv.
From Virel Require Model.Des Model.Codec Spec.TxAbs Proofs.CodecBridge Proofs.CodecBridgeNode.
Open Scope N_scope.
Open Scope bool_scope.

(* ---------------------------------------------------------------- sums over association lists *)
Section Sums.
Context {V : Type}.
Variable f : V -> N.

(* taking the (first) record of a key out of the list *)
Lemma sumf_ndel (m : list (N * V)) k : sumf f m = fopt f (nget m k) + sumf f (ndel m k).
Proof.
  unfold sumf, nget, ndel. induction m as [|[k0 v0] m IH]; cbn [fold_right aget adel snd fopt]; [reflexivity|].
  destruct (k =? k0); cbn [fold_right snd fopt]; [reflexivity|]. rewrite IH. lia.
Qed.

(* a list without repeated keys whose every lookup measures 0 sums to 0 *)
Lemma sumf_all_zero (m : list (N * V)) :
  NoDup (keys m) -> (forall a, fopt f (nget m a) = 0) -> sumf f m = 0.
Proof.
  induction m as [|[k v] m IH]; intros Hnd Hz; [reflexivity|].
  unfold keys in Hnd. cbn [map fst] in Hnd. inversion Hnd as [|? ? Hni Hnd']; subst.
  unfold sumf. cbn [fold_right snd]. fold (sumf f m).
  pose proof (Hz k) as Hk. unfold nget in Hk. cbn [aget] in Hk. rewrite N.eqb_refl in Hk. cbn [fopt] in Hk.
  rewrite Hk, IH; [reflexivity|exact Hnd'|].
  intros a. destruct (N.eq_dec a k) as [->|Hne].
  - rewrite (not_in_keys_nget_none m k Hni). reflexivity.
  - specialize (Hz a). unfold nget in Hz. cbn [aget] in Hz.
    destruct (N.eqb_spec a k); [contradiction|exact Hz].
Qed.

(* two lists without repeated keys that agree key by key (an absent key measuring 0) have the same sum *)
Lemma sumf_agree (m1 : list (N * V)) : forall m2,
  NoDup (keys m1) -> NoDup (keys m2) ->
  (forall a, fopt f (nget m1 a) = fopt f (nget m2 a)) -> sumf f m1 = sumf f m2.
Proof.
  induction m1 as [|[k v] m1 IH]; intros m2 H1 H2 Hag.
  - symmetry. apply sumf_all_zero; [exact H2|]. intros a. rewrite <- Hag. reflexivity.
  - unfold keys in H1. cbn [map fst] in H1. inversion H1 as [|? ? Hni H1']; subst.
    rewrite (sumf_ndel m2 k). unfold sumf at 1. cbn [fold_right snd]. fold (sumf f m1).
    pose proof (Hag k) as Hk. unfold nget at 1 in Hk. cbn [aget] in Hk. rewrite N.eqb_refl in Hk. cbn [fopt] in Hk.
    rewrite <- Hk. f_equal.
    apply IH; [exact H1'|apply nodup_ndel; exact H2|].
    intros a. rewrite (nget_ndel m2 k a H2). destruct (N.eqb_spec a k) as [->|Hne].
    + rewrite (not_in_keys_nget_none m1 k Hni). reflexivity.
    + rewrite <- Hag. unfold nget. cbn [aget]. destruct (N.eqb_spec a k); [contradiction|reflexivity].
Qed.
End Sums.

Lemma bal_acct_at l a : fopt bal (nget (accts l) a) = bal (acct_at l a).
Proof. unfold acct_at, get_state. destruct (nget (accts l) a); reflexivity. Qed.

(* ledgers with at most one record per address that hold the same accounts (as functions) hold the same sum *)
Lemma total_bal_agree l1 l2 :
  NoDup (keys (accts l1)) -> NoDup (keys (accts l2)) -> same_accounts l1 l2 -> total_bal l1 = total_bal l2.
Proof.
  intros H1 H2 Hs. unfold total_bal. apply sumf_agree; [exact H1|exact H2|].
  intros a. rewrite !bal_acct_at, (Hs a). reflexivity.
Qed.

Lemma fnodup_of_FUniq l : FUniq l -> fnodup l.
Proof. intros H id d Hg. exact (H id d Hg). Qed.

(* ---------------------------------------------------------------- reachable nodes *)
Section Reach.
Variable cfg : config.
Variable genesis_addr team_key : N.

(* what holds of every ledger a node can reach *)
Definition conserved (n : node) : Prop :=
  total_bal (ldg n) = sum_rewards cfg (N.to_nat (top_h n)) /\ total_bal (ldg n) <= max_supply cfg /\
  SInv (ldg n) /\
  (forall a s, get_state (ldg n) a = Some s -> bal s < two64) /\ staked (ldg n) < two64 /\
  NoDup (keys (accts (ldg n))) /\ NoDup (map fst (dlgs (ldg n))) /\ FPos (ldg n) /\ FUniq (ldg n).

(* the invariant of Replay4.v with its by-products spelled out *)
Lemma reachable_replay_facts g n0 ops :
  cfg_ok_emission cfg = true ->
  node0 cfg genesis_addr g = Ok n0 -> b_height g = 0 -> b_cd g = b_diff g ->
  N.of_nat (length ops) < two64 - 1 ->
  let n := run cfg genesis_addr team_key n0 ops in
  store_pre cfg g (blocks n) ->
  exists lr, apply_chain cfg genesis_addr (ldg n0) (lbs n (mchain n)) = Ok lr /\ leqv lr (ldg n) /\
    base_ok cfg (ldg n0) (bkeys g) (c0 g) /\ chain_ok cfg (bkeys g) (c0 g) (lbs n (mchain n)) /\
    length (mchain n) = N.to_nat (top_h n) /\ up (b_hash g) (blocks n) (b_hash g) (mchain n).
Proof.
  intros Hok H0 Hg0 Hcd Hlen n Hpre.
  assert (Hpre0 : store_pre cfg g (blocks n0)).
  { apply (store_pre_mono cfg g _ _ (run_store_le cfg genesis_addr team_key ops n0)). exact Hpre. }
  pose proof (genesis_base cfg genesis_addr Hok g (ldg n0) n0 H0 Hg0 eq_refl Hpre0) as HB0.
  assert (HJ0 : J cfg genesis_addr g (ldg n0) n0).
  { split; [eapply node0_CInv; eassumption|]. split; [eapply node0_inv; eassumption|].
    split; [eapply node0_HInv; eassumption|].
    unfold NJ, mchain.
    assert (Hth : top_h n0 = 0).
    { unfold node0 in H0. apply apply_block_node_eq in H0. destruct H0 as (l & ->). reflexivity. }
    rewrite Hth. cbn [N.to_nat chain_upto lbs map]. apply RInv_nil. }
  assert (Hl : length (blocks n0) = 1%nat).
  { unfold node0 in H0. apply apply_block_node_eq in H0. destruct H0 as (l & ->). reflexivity. }
  pose proof (run_J cfg genesis_addr team_key Hok g (ldg n0) ops n0 HJ0
                ltac:(rewrite Hl; unfold two64 in *; lia) HB0 Hpre) as (HC & _ & HH & lr & Hr & HL & _).
  fold n in HC, HH, Hr, HL. exists lr. split; [exact Hr|]. split; [exact HL|]. split; [exact HB0|].
  pose proof (mchain_up g n HC HH) as Hup. pose proof HC as (HB & HT).
  split; [apply path_chain_ok; assumption|]. split; [|exact Hup].
  pose proof HT as (_ & t & Ht & _). destruct HH as (Hh & _). unfold mchain. rewrite <- (Hh t Ht).
  apply (chain_upto_length (b_hash g) _ _ _ _ _ HT Ht (le_n _)).
Qed.

(* THE NODE-LEVEL CONSERVATION THEOREM (premises as one condition on the final block store) *)
Theorem reachable_conserved_general g n0 ops :
  cfg_ok_emission cfg = true ->
  node0 cfg genesis_addr g = Ok n0 -> b_height g = 0 -> b_cd g = b_diff g ->
  N.of_nat (length ops) < two64 - 1 ->
  let n := run cfg genesis_addr team_key n0 ops in
  store_pre cfg g (blocks n) -> conserved n.
Proof.
  intros Hok H0 Hg0 Hcd Hlen n Hpre.
  destruct (reachable_replay_facts g n0 ops Hok H0 Hg0 Hcd Hlen Hpre) as (lr & Hr & HL & HB0 & Hck & Hlen' & _).
  fold n in Hr, HL, Hck, Hlen'.
  destruct HB0 as (HI0 & Ht0 & _). destruct Hck as (Hh & Hbc & _).
  destruct (apply_chain_supply cfg genesis_addr Hok _ _ 0 lr Ht0 Hh (blocks_c_txok cfg _ Hbc) Hr) as [Hsum Hmax].
  pose proof (apply_chain_PInv cfg genesis_addr Hok _ _ 0 lr Ht0 Hh (blocks_c_ok cfg _ Hbc) HI0 Hr) as HIr.
  pose proof (KInv_node0 cfg genesis_addr g n0 H0) as HK0.
  pose proof (KInv_apply_chain cfg genesis_addr _ _ _ HK0 Hr) as (HKr & _).
  pose proof (reachable_KInv cfg genesis_addr team_key g n0 ops H0) as (HKa & _ & HKd). fold n in HKa, HKd.
  destruct HL as (Hs & _ & Hd & Hst).
  assert (Htot : total_bal (ldg n) = total_bal lr) by (apply total_bal_agree; assumption).
  pose proof (PInv_ext lr (ldg n) (eq_sym Hd) Hst HIr) as (HS & HP & HU).
  unfold lbs in Hsum. rewrite map_length, Hlen' in Hsum. cbn [Nat.add] in Hsum.
  destruct (ok_facts cfg Hok) as (_ & _ & _ & Hms64 & _).
  unfold conserved. rewrite Htot.
  split; [exact Hsum|]. split; [exact Hmax|]. split; [exact HS|]. split; [|split; [|split; [|split; [|split]]]].
  - intros a s Hg. pose proof (bal_at_le_total (ldg n) a) as Hle. rewrite <- (get_state_bal _ _ _ Hg) in Hle. lia.
  - destruct HS as (_ & _ & _ & H64). exact H64.
  - exact HKa.
  - exact HKd.
  - exact HP.
  - exact HU.
Qed.

(* the premises of ledger_is_replay_validated give the condition on the store *)
Lemma validated_store_pre g n0 ops :
  cfg_ok_feepos cfg = true ->
  node0 cfg genesis_addr g = Ok n0 -> b_height g = 0 -> b_cd g = b_diff g ->
  N.of_nat (length ops) < two64 - 1 ->
  let n := run cfg genesis_addr team_key n0 ops in
  Forall (tx_c cfg) (b_txs g) ->
  (forall h b, get_block n h = Some b -> Forall (fun t => wf_tx cfg t /\ ver_ok t = true) (b_txs b)) ->
  (forall bs, up (b_hash g) (blocks n) (b_hash g) bs ->
     NoDup (bkeys g ++ flat_map bkeys bs) /\ c0 g + bnouts bs < two64 /\ c0 g + bntx bs < two64) ->
  store_pre cfg g (blocks n) /\ PVinv cfg team_key (b_hash g) n /\ nget (blocks n) (b_hash g) = Some g.
Proof.
  intros Hfp H0 Hg0 Hcd Hlen n Hgen Htyped Hpaths.
  assert (HP0 : PVinv cfg team_key (b_hash g) n0).
  { unfold node0 in H0. apply apply_block_node_eq in H0. destruct H0 as (l & ->).
    intros h b. cbn [blocks set_ldg]. unfold nget. cbn [aget].
    destruct (N.eqb_spec h (b_hash g)); [intros _; left; assumption|discriminate]. }
  pose proof (run_PVinv cfg genesis_addr team_key (b_hash g) ops n0 HP0) as HP. fold n in HP.
  assert (Hgg : nget (blocks n) (b_hash g) = Some g).
  { apply (run_store_le cfg genesis_addr team_key ops n0).
    unfold node0 in H0. apply apply_block_node_eq in H0. destruct H0 as (l & ->).
    cbn [blocks set_ldg]. unfold nget. cbn [aget]. rewrite N.eqb_refl. reflexivity. }
  split; [|split; [exact HP|exact Hgg]]. split; [|exact Hpaths].
  intros h b Hb. destruct (HP h b Hb) as [->|Hpv].
  - rewrite Hgg in Hb. injection Hb as <-. exact Hgen.
  - pose proof (prevalidate_txs_all _ _ _ _ Hpv) as Hall. pose proof (Htyped h b Hb) as Hty.
    rewrite Forall_forall in *. intros t Hin. destruct (Hty t Hin) as [Hwf Hver].
    exact (validated_tx_c cfg team_key t (b_height b) Hfp Hwf Hver (Hall t Hin)).
Qed.

(* with the premises of C03_ledger_is_replay *)
Theorem reachable_conserved g n0 ops :
  cfg_ok_emission cfg = true -> cfg_ok_feepos cfg = true ->
  node0 cfg genesis_addr g = Ok n0 -> b_height g = 0 -> b_cd g = b_diff g ->
  N.of_nat (length ops) < two64 - 1 ->
  let n := run cfg genesis_addr team_key n0 ops in
  Forall (tx_c cfg) (b_txs g) ->
  (forall h b, get_block n h = Some b -> Forall (fun t => wf_tx cfg t /\ ver_ok t = true) (b_txs b)) ->
  (forall bs, up (b_hash g) (blocks n) (b_hash g) bs ->
     NoDup (bkeys g ++ flat_map bkeys bs) /\ c0 g + bnouts bs < two64 /\ c0 g + bntx bs < two64) ->
  conserved n.
Proof.
  intros Hok Hfp H0 Hg0 Hcd Hlen n Hgen Htyped Hpaths.
  apply (reachable_conserved_general g n0 ops Hok H0 Hg0 Hcd Hlen).
  exact (proj1 (validated_store_pre g n0 ops Hfp H0 Hg0 Hcd Hlen Hgen Htyped Hpaths)).
Qed.

(* the three parts of the property, one by one *)
Section Parts.
Variables (g : block) (n0 : node) (ops : list (block * N)).
Hypothesis Hok : cfg_ok_emission cfg = true.
Hypothesis Hfp : cfg_ok_feepos cfg = true.
Hypothesis H0 : node0 cfg genesis_addr g = Ok n0.
Hypothesis Hg0 : b_height g = 0.
Hypothesis Hcd : b_cd g = b_diff g.
Hypothesis Hlen : N.of_nat (length ops) < two64 - 1.
Notation n := (run cfg genesis_addr team_key n0 ops).
Hypothesis Hgen : Forall (tx_c cfg) (b_txs g).
Hypothesis Htyped : forall h b, get_block n h = Some b -> Forall (fun t => wf_tx cfg t /\ ver_ok t = true) (b_txs b).
Hypothesis Hpaths : forall bs, up (b_hash g) (blocks n) (b_hash g) bs ->
     NoDup (bkeys g ++ flat_map bkeys bs) /\ c0 g + bnouts bs < two64 /\ c0 g + bntx bs < two64.

Notation Hall := (reachable_conserved g n0 ops Hok Hfp H0 Hg0 Hcd Hlen Hgen Htyped Hpaths).

Theorem reachable_supply :
  total_bal (ldg n) = sum_rewards cfg (N.to_nat (top_h n)) /\ total_bal (ldg n) <= max_supply cfg.
Proof. destruct Hall as (H1 & H2 & _). split; assumption. Qed.

Theorem reachable_staked_sum : SInv (ldg n).
Proof. destruct Hall as (_ & _ & H3 & _). exact H3. Qed.

Theorem reachable_no_wrap :
  total_bal (ldg n) < two64 /\
  (forall a s, get_state (ldg n) a = Some s -> bal s < two64) /\
  staked (ldg n) < two64 /\
  (forall id d f, get_dlg (ldg n) id = Some d -> In f (d_funds d) -> f_amt f < two64).
Proof.
  destruct Hall as (_ & H2 & H3 & H4 & H5 & _).
  destruct (ok_facts cfg Hok) as (_ & _ & _ & Hms64 & _).
  split; [lia|]. split; [exact H4|]. split; [exact H5|].
  intros id d f Hg Hin. destruct (SInv_fund_bound _ _ _ _ H3 Hg Hin). lia.
Qed.

(* the lottery by pool id with every hypothesis about the ledger discharged *)
Theorem reachable_lottery_counts_indices_by_id_full pre k d post :
  let l := ldg n in
  0 < staked l -> dlgs l = pre ++ (k, d) :: post ->
  count_below (elects l (d_id d)) (staked l) + ind (is_last_funded d post) = tot d + ind (is_first pre).
Proof.
  intros l Hpos Eds. destruct Hall as (_ & _ & HI & _ & _ & _ & Hnd & _).
  exact (lottery_counts_indices_by_id l pre k d post HI Hpos Hnd Eds).
Qed.

Theorem reachable_lottery_share_by_id_full pre k d post m :
  let l := ldg n in
  0 < staked l -> dlgs l = pre ++ (k, d) :: post ->
  let c := count_below (elects l (d_id d)) m in
  c * staked l <= (tot d + 1) * m + (tot d + 1) * staked l /\
  tot d * m <= (c + tot d) * staked l + m.
Proof.
  intros l Hpos Eds. destruct Hall as (_ & _ & HI & _ & _ & _ & Hnd & _).
  exact (lottery_share_of_values_by_id l pre k d post m HI Hpos Hnd Eds).
Qed.
End Parts.

(* ---- no delegate 0, no owner with two funds in one pool: [linv] in every reachable ledger ---- *)
Theorem reachable_linv g n0 ops :
  cfg_ok_emission cfg = true -> cfg_ok_feepos cfg = true ->
  node0 cfg genesis_addr g = Ok n0 -> b_height g = 0 -> b_cd g = b_diff g ->
  N.of_nat (length ops) < two64 - 1 ->
  let n := run cfg genesis_addr team_key n0 ops in
  Forall (tx_c cfg) (b_txs g) -> Forall noreg0 (b_txs g) ->
  (forall h b, get_block n h = Some b -> Forall (fun t => wf_tx cfg t /\ ver_ok t = true) (b_txs b)) ->
  (forall bs, up (b_hash g) (blocks n) (b_hash g) bs ->
     NoDup (bkeys g ++ flat_map bkeys bs) /\ c0 g + bnouts bs < two64 /\ c0 g + bntx bs < two64) ->
  linv (ldg n).
Proof.
  intros Hok Hfp H0 Hg0 Hcd Hlen n Hgen Hgz Htyped Hpaths.
  destruct (validated_store_pre g n0 ops Hfp H0 Hg0 Hcd Hlen Hgen Htyped Hpaths) as (Hpre & HPV & Hgg).
  fold n in Hpre, HPV, Hgg.
  pose proof (reachable_conserved_general g n0 ops Hok H0 Hg0 Hcd Hlen Hpre) as (_ & _ & HS & _ & _ & _ & _ & _ & HU).
  fold n in HS, HU.
  destruct (reachable_replay_facts g n0 ops Hok H0 Hg0 Hcd Hlen Hpre) as (lr & Hr & HL & _ & _ & _ & Hup).
  fold n in Hr, HL, Hup.
  split; [exact HS|]. split; [apply fnodup_of_FUniq; exact HU|].
  (* the genesis ledger *)
  assert (HZ0 : ZInv (ldg n0)).
  { unfold node0, apply_block_node in H0. bind_inv H0. injection H0 as <-. cbn [ldg set_ldg].
    eapply ZInv_apply_block; [exact ZInv0| |exact E]. exact Hgz. }
  (* the blocks of the main chain passed stateless validation *)
  assert (Hnr : Forall (fun b => Forall noreg0 (lb_txs b)) (lbs n (mchain n))).
  { unfold lbs. rewrite Forall_map, Forall_forall. intros c Hin. change (lb_txs (lb_of n c)) with (b_txs c).
    pose proof (up_stored (b_hash g) _ _ _ _ Hup Hin) as Hst.
    destruct (HPV _ _ Hst) as [Eg|Hpv].
    - rewrite Eg, Hgg in Hst. injection Hst as <-. exact Hgz.
    - pose proof (prevalidate_txs_all _ _ _ _ Hpv) as Hall.
      eapply Forall_impl; [|exact Hall]. intros t Ht. exact (prevalidate_noreg0 cfg team_key t _ Ht). }
  pose proof (ZInv_apply_chain cfg genesis_addr _ _ _ HZ0 Hnr Hr) as HZr.
  destruct HL as (_ & _ & Hd & _).
  apply ZInv_get_none. apply (ZInv_ext lr); [symmetry; exact Hd|exact HZr].
Qed.

(* ---- the lottery, by pool id, on reachable ledgers: the ids of the table are distinct ---- *)
Theorem reachable_lottery_counts_indices_by_id g n0 ops pre k d post :
  node0 cfg genesis_addr g = Ok n0 ->
  let l := ldg (run cfg genesis_addr team_key n0 ops) in
  SInv l -> 0 < staked l -> dlgs l = pre ++ (k, d) :: post ->
  count_below (elects l (d_id d)) (staked l) + ind (is_last_funded d post) = tot d + ind (is_first pre).
Proof.
  intros H0 l HI Hpos Eds.
  destruct (reachable_KInv cfg genesis_addr team_key g n0 ops H0) as (_ & _ & Hnd).
  exact (lottery_counts_indices_by_id l pre k d post HI Hpos Hnd Eds).
Qed.

Theorem reachable_lottery_share_by_id g n0 ops pre k d post m :
  node0 cfg genesis_addr g = Ok n0 ->
  let l := ldg (run cfg genesis_addr team_key n0 ops) in
  SInv l -> 0 < staked l -> dlgs l = pre ++ (k, d) :: post ->
  let c := count_below (elects l (d_id d)) m in
  c * staked l <= (tot d + 1) * m + (tot d + 1) * staked l /\
  tot d * m <= (c + tot d) * staked l + m.
Proof.
  intros H0 l HI Hpos Eds.
  destruct (reachable_KInv cfg genesis_addr team_key g n0 ops H0) as (_ & _ & Hnd).
  exact (lottery_share_of_values_by_id l pre k d post m HI Hpos Hnd Eds).
Qed.

End Reach.

(* chains from the empty ledger: ids distinct, hence the lottery theorems by id without that hypothesis *)
Lemma chain_from_empty_KInv cfg genesis_addr bs l :
  apply_chain cfg genesis_addr ledger0 bs = Ok l -> KInv l.
Proof. intros H. exact (KInv_apply_chain cfg genesis_addr bs ledger0 l KInv0 H). Qed.

Lemma chain_ids_distinct cfg genesis_addr bs l :
  apply_chain cfg genesis_addr ledger0 bs = Ok l -> NoDup (map fst (dlgs l)).
Proof. intros H. destruct (chain_from_empty_KInv cfg genesis_addr bs l H) as (_ & _ & Hnd). exact Hnd. Qed.

Lemma chain_lottery_counts_indices_by_id cfg genesis_addr bs l pre k d post :
  apply_chain cfg genesis_addr ledger0 bs = Ok l ->
  SInv l -> 0 < staked l -> dlgs l = pre ++ (k, d) :: post ->
  count_below (elects l (d_id d)) (staked l) + ind (is_last_funded d post) = tot d + ind (is_first pre).
Proof.
  intros H HI Hpos Eds.
  exact (lottery_counts_indices_by_id l pre k d post HI Hpos (chain_ids_distinct cfg genesis_addr bs l H) Eds).
Qed.

Lemma chain_lottery_share_by_id cfg genesis_addr bs l pre k d post m :
  apply_chain cfg genesis_addr ledger0 bs = Ok l ->
  SInv l -> 0 < staked l -> dlgs l = pre ++ (k, d) :: post ->
  let c := count_below (elects l (d_id d)) m in
  c * staked l <= (tot d + 1) * m + (tot d + 1) * staked l /\
  tot d * m <= (c + tot d) * staked l + m.
Proof.
  intros H HI Hpos Eds.
  exact (lottery_share_of_values_by_id l pre k d post m HI Hpos (chain_ids_distinct cfg genesis_addr bs l H) Eds).
Qed.

(* the two writes of the delegate table *)
Lemma put_dlg_ids_distinct l d :
  dsorted (dlgs l) -> NoDup (map fst (dlgs l)) ->
  dsorted (dlgs (put_dlg l d)) /\ NoDup (map fst (dlgs (put_dlg l d))).
Proof. intros Hs Hn. split; [apply dins_sorted; exact Hs|apply dins_nodup; assumption]. Qed.

Lemma del_dlg_ids_distinct l id :
  dsorted (dlgs l) -> NoDup (map fst (dlgs l)) ->
  dsorted (dlgs (del_dlg l id)) /\ NoDup (map fst (dlgs (del_dlg l id))).
Proof. intros Hs Hn. split; [apply ndel_sorted; exact Hs|exact (nodup_ndel (dlgs l) id Hn)]. Qed.

(* ---------------------------------------------------------------- the decoded variants *)
Section Decoded.
Variable txid_of key_id addr_id name_id : list N -> N.
Variable sig_by : Model.Codec.tx -> N.
Variable sig_msg : Model.Codec.tx -> bool.
Variable signer_invalid : list N -> bool.
Variable cfg : config.
Variable genesis_addr team_key : N.
Variables (g : block) (n0 : node) (ops : list (block * N)).
Hypothesis Hok : cfg_ok_emission cfg = true.
Hypothesis Hfp : cfg_ok_feepos cfg = true.
Hypothesis Hburn : CodecBridge.cfg_ok_burn cfg = true.
Hypothesis Hn0 : node0 cfg genesis_addr g = Ok n0.
Hypothesis Hg0 : b_height g = 0.
Hypothesis Hcd : b_cd g = b_diff g.
Hypothesis Hlen : N.of_nat (length ops) < two64 - 1.
Notation n := (run cfg genesis_addr team_key n0 ops).
Hypothesis Hgen : Forall (tx_c cfg) (b_txs g).
Hypothesis Hdec : CodecBridgeNode.store_decoded txid_of key_id addr_id name_id sig_by sig_msg signer_invalid cfg g n.
Hypothesis Hpaths : forall bs, up (b_hash g) (blocks n) (b_hash g) bs ->
     NoDup (bkeys g ++ flat_map bkeys bs) /\ c0 g + bnouts bs < two64 /\ c0 g + bntx bs < two64.

Notation Htyped := (CodecBridgeNode.store_decoded_typed txid_of key_id addr_id name_id sig_by sig_msg signer_invalid
                      cfg genesis_addr team_key g n0 ops Hburn Hn0 Hgen Hdec).

Theorem reachable_conserved_decoded : conserved cfg n.
Proof. exact (reachable_conserved cfg genesis_addr team_key g n0 ops Hok Hfp Hn0 Hg0 Hcd Hlen Hgen Htyped Hpaths). Qed.

Theorem reachable_linv_decoded : Forall noreg0 (b_txs g) -> linv (ldg n).
Proof.
  intros Hgz. exact (reachable_linv cfg genesis_addr team_key g n0 ops Hok Hfp Hn0 Hg0 Hcd Hlen Hgen Hgz Htyped Hpaths).
Qed.

End Decoded.
