(* Property C03, lemma B of DESIGN.md, third part: the undo theorems up to the ORDER OF THE FUNDS inside each pool.
   The undo of an unstake that emptied a fund re-creates the fund at the end of the pool's list (counterexample to
   exact restoration: Proofs/UndoRefuted.v), so in general a delegate record is restored as the same id, owner, name
   and the same funds (owner, amount, unlock height) in a possibly different order.  No side condition on the
   transactions is needed for this form; the invariant additionally asks that the funds of a pool have distinct
   owners (FUniq: a fund is only ever appended for an owner that has none in the pool). *)
From Coq Require Import Sorting.Sorted Sorting.Permutation.
From Virel Require Import Lib.Config Lib.U64 Lib.AMap Model.Emission Model.Ledger
  Proofs.AMapLemmas Proofs.Emission Proofs.Conservation Proofs.Pointwise Proofs.Staking Proofs.StakedSum
  Proofs.Undo Proofs.Undo2.
Open Scope N_scope.
Open Scope bool_scope.

(* ------------------------------------------------------------------------------------------------------------ *)
(* delegate records and tables up to the order of the funds *)
Definition dperm (d d' : dlg) : Prop :=
  d_id d = d_id d' /\ d_owner d = d_owner d' /\ d_name d = d_name d' /\ Permutation (d_funds d) (d_funds d').
Definition deq (m m' : list (N * dlg)) : Prop :=
  Forall2 (fun kd kd' => fst kd = fst kd' /\ dperm (snd kd) (snd kd')) m m'.

Lemma dperm_refl d : dperm d d.
Proof. repeat split. apply Permutation_refl. Qed.
Lemma dperm_trans a b c : dperm a b -> dperm b c -> dperm a c.
Proof.
  intros (A1 & A2 & A3 & A4) (B1 & B2 & B3 & B4). repeat split; try congruence. eapply Permutation_trans; eassumption.
Qed.

Lemma deq_refl m : deq m m.
Proof. induction m as [|kd m IH]; constructor; [split; [reflexivity|apply dperm_refl]|exact IH]. Qed.
Lemma deq_trans a : forall b c, deq a b -> deq b c -> deq a c.
Proof.
  induction a as [|x a IH]; intros b c H1 H2; inversion H1; subst; inversion H2; subst; constructor.
  - match goal with Ha : fst x = fst ?y /\ _, Hb : fst ?y = fst ?z /\ _ |- _ =>
      destruct Ha as [Ha1 Ha2]; destruct Hb as [Hb1 Hb2] end.
    split; [congruence|eapply dperm_trans; eassumption].
  - eapply IH; eassumption.
Qed.

Lemma deq_nget m : forall m' id, deq m m' ->
  match nget m id, nget m' id with
  | Some d, Some d' => dperm d d'
  | None, None => True
  | _, _ => False
  end.
Proof.
  unfold nget. induction m as [|[k v] m IH]; intros m' id H; inversion H as [|? [k' v'] ? ? [Hk Hv] Hr]; subst; cbn [aget].
  - exact I.
  - cbn [fst snd] in Hk, Hv. subst k'. destruct (id =? k); [exact Hv|apply IH; exact Hr].
Qed.

Lemma deq_dins m : forall m' id d d', deq m m' -> dperm d d' -> deq (dins m id d) (dins m' id d').
Proof.
  induction m as [|[k v] m IH]; intros m' id d d' H Hd; inversion H as [|? [k' v'] ? ? [Hk Hv] Hr]; subst; cbn [dins].
  - constructor; [split; [reflexivity|exact Hd]|constructor].
  - cbn [fst snd] in Hk, Hv. subst k'. destruct (id =? k).
    + constructor; [split; [reflexivity|exact Hd]|exact Hr].
    + destruct (dbkey id <? dbkey k).
      * constructor; [split; [reflexivity|exact Hd]|]. constructor; [split; [reflexivity|exact Hv]|exact Hr].
      * constructor; [split; [reflexivity|exact Hv]|]. apply IH; assumption.
Qed.

Lemma deq_ndel m : forall m' id, deq m m' -> deq (ndel m id) (ndel m' id).
Proof.
  unfold ndel. induction m as [|[k v] m IH]; intros m' id H; inversion H as [|? [k' v'] ? ? [Hk Hv] Hr]; subst; cbn [adel].
  - constructor.
  - cbn [fst snd] in Hk, Hv. subst k'. destruct (id =? k); [exact Hr|].
    constructor; [split; [reflexivity|exact Hv]|apply IH; exact Hr].
Qed.

(* ------------------------------------------------------------------------------------------------------------ *)
(* funds with distinct owners *)
Definition fowners (fs : list fund) : list N := map f_owner fs.

Lemma find_fund_none_iff fs o : find_fund fs o = None <-> ~ In o (fowners fs).
Proof.
  induction fs as [|g fs IH]; cbn [find_fund fowners map In]; [tauto|].
  destruct (N.eqb_spec (f_owner g) o) as [E|E].
  - split; [discriminate|intros H; exfalso; apply H; left; exact E].
  - rewrite IH. unfold fowners. tauto.
Qed.

Lemma find_fund_perm fs fs' o : NoDup (fowners fs) -> Permutation fs fs' -> find_fund fs o = find_fund fs' o.
Proof.
  intros Hnd Hp. induction Hp as [|x l l' Hp IH|x y l|l l' l'' Hp1 IH1 Hp2 IH2].
  - reflexivity.
  - cbn [find_fund]. destruct (f_owner x =? o); [reflexivity|]. apply IH. inversion Hnd; assumption.
  - cbn [find_fund]. destruct (N.eqb_spec (f_owner y) o) as [Ey|Ey]; destruct (N.eqb_spec (f_owner x) o) as [Ex|Ex]; try reflexivity.
    exfalso. cbn [fowners map] in Hnd. inversion Hnd as [|? ? Hn _]; subst. apply Hn. left. congruence.
  - rewrite IH1 by exact Hnd. apply IH2. unfold fowners in *. eapply Permutation_NoDup; [apply Permutation_map; exact Hp1|exact Hnd].
Qed.

Lemma upd_fund_perm fs fs' o nf : NoDup (fowners fs) -> Permutation fs fs' ->
  Permutation (upd_fund fs o nf) (upd_fund fs' o nf).
Proof.
  intros Hnd Hp. induction Hp as [|x l l' Hp IH|x y l|l l' l'' Hp1 IH1 Hp2 IH2].
  - constructor.
  - cbn [upd_fund]. destruct (f_owner x =? o).
    + destruct nf; [constructor; exact Hp|exact Hp].
    + constructor. apply IH. inversion Hnd; assumption.
  - cbn [upd_fund]. destruct (N.eqb_spec (f_owner y) o) as [Ey|Ey]; destruct (N.eqb_spec (f_owner x) o) as [Ex|Ex].
    + exfalso. cbn [fowners map] in Hnd. inversion Hnd as [|? ? Hn _]; subst. apply Hn. left. congruence.
    + destruct nf; [apply perm_swap|apply Permutation_refl].
    + destruct nf; [apply perm_swap|apply Permutation_refl].
    + apply perm_swap.
  - eapply Permutation_trans; [apply IH1; exact Hnd|]. apply IH2.
    unfold fowners in *. eapply Permutation_NoDup; [apply Permutation_map; exact Hp1|exact Hnd].
Qed.

Lemma fowners_upd_some fs o x : f_owner x = o -> fowners (upd_fund fs o (Some x)) = fowners fs.
Proof.
  intros Hx. induction fs as [|g fs IH]; cbn [upd_fund fowners map]; [reflexivity|].
  destruct (N.eqb_spec (f_owner g) o) as [E|E]; cbn [map]; [congruence|]. unfold fowners in IH. rewrite IH. reflexivity.
Qed.

Lemma In_fowners_upd_none a fs o : In a (fowners (upd_fund fs o None)) -> In a (fowners fs).
Proof.
  induction fs as [|g fs IH]; cbn [upd_fund fowners map In]; [tauto|].
  destruct (f_owner g =? o); [intros H; right; exact H|].
  cbn [map In]. intros [H|H]; [left; exact H|right; apply IH; exact H].
Qed.

Lemma NoDup_upd_none fs o : NoDup (fowners fs) -> NoDup (fowners (upd_fund fs o None)).
Proof.
  induction fs as [|g fs IH]; cbn [upd_fund fowners map]; intros H; [constructor|].
  inversion H as [|? ? Hn Hd]; subst. destruct (f_owner g =? o); [exact Hd|].
  cbn [map]. constructor; [intros Hin; apply Hn; apply (In_fowners_upd_none _ _ o); exact Hin|apply IH; exact Hd].
Qed.

Lemma find_upd_none fs o : NoDup (fowners fs) -> find_fund (upd_fund fs o None) o = None.
Proof.
  induction fs as [|g fs IH]; cbn [upd_fund fowners map]; intros H; [reflexivity|].
  inversion H as [|? ? Hn Hd]; subst. destruct (N.eqb_spec (f_owner g) o) as [E|E].
  - apply find_fund_none_iff. rewrite <- E. exact Hn.
  - cbn [find_fund]. destruct (N.eqb_spec (f_owner g) o); [contradiction|]. apply IH. exact Hd.
Qed.

Lemma perm_moved fs o f : find_fund fs o = Some f -> Permutation fs (upd_fund fs o None ++ [f]).
Proof.
  induction fs as [|g fs IH]; cbn [find_fund upd_fund]; [discriminate|].
  destruct (f_owner g =? o).
  - intros [= <-]. apply Permutation_cons_append.
  - intros H. cbn [app]. constructor. apply IH. exact H.
Qed.

(* the funds of every pool have distinct owners.  Holds in every reachable ledger: ApplyStake and ApplyPosReward
   append a fund only when the pool has none of that owner *)
Definition FUniq (l : ledger) : Prop := forall id d, get_dlg l id = Some d -> NoDup (fowners (d_funds d)).

Lemma FUniq_ext l l' : dlgs l' = dlgs l -> FUniq l -> FUniq l'.
Proof. intros Hd HU id d Hg. apply (HU id d). unfold get_dlg in *. rewrite <- Hd. exact Hg. Qed.

Lemma FUniq_put l0 l d : FUniq l -> dlgs l0 = dlgs l -> NoDup (fowners (d_funds d)) -> FUniq (put_dlg l0 d).
Proof.
  intros HU Hd Hf id d' Hg. rewrite get_dlg_put in Hg. destruct (id =? d_id d).
  - injection Hg as <-. exact Hf.
  - apply (HU id d'). unfold get_dlg in *. rewrite <- Hd. exact Hg.
Qed.

Lemma NoDup_app_last {A} (l : list A) a : NoDup l -> ~ In a l -> NoDup (l ++ [a]).
Proof.
  induction l as [|x l IH]; cbn [app]; intros Hnd Hn; [constructor; [intros []|constructor]|].
  inversion Hnd as [|? ? Hx Hd]; subst. constructor.
  - intros Hin. apply in_app_or in Hin. destruct Hin as [Hin|[<-|[]]]; [contradiction|]. apply Hn. left. reflexivity.
  - apply IH; [exact Hd|]. intros Hin. apply Hn. right. exact Hin.
Qed.

(* ------------------------------------------------------------------------------------------------------------ *)
(* the removal-side operations respect the equivalence *)

Lemma stats_unstaked_cong la lb amt a : staked lb = staked la -> stats_unstaked la amt = Ok a ->
  a = set_staked la (wsub (staked la) amt) /\ stats_unstaked lb amt = Ok (set_staked lb (wsub (staked la) amt)).
Proof.
  unfold stats_unstaked. intros Hs. rewrite Hs. destruct (_ <? _); [discriminate|]. intros [= <-]. split; reflexivity.
Qed.
Lemma stats_staked_cong la lb amt a : staked lb = staked la -> stats_staked la amt = Ok a ->
  a = set_staked la (wadd (staked la) amt) /\ stats_staked lb amt = Ok (set_staked lb (wadd (staked la) amt)).
Proof.
  unfold stats_staked. intros Hs. rewrite Hs. destruct (_ <? _); [discriminate|]. intros [= <-]. split; reflexivity.
Qed.

Lemma deq_get la lb id d : deq (dlgs la) (dlgs lb) -> get_dlg la id = Some d ->
  exists d', get_dlg lb id = Some d' /\ dperm d d'.
Proof.
  intros Hq Hg. pose proof (deq_nget _ _ id Hq) as Hn. unfold get_dlg in *. rewrite Hg in Hn.
  destruct (nget (dlgs lb) id) as [d'|]; [|contradiction]. exists d'. split; [reflexivity|exact Hn].
Qed.

Section Cong.
Variable cfg : config.

Lemma cong_apply_unstake_rev la lb amt id signer top top' txid pu la2 :
  deq (dlgs la) (dlgs lb) -> staked lb = staked la -> FUniq la ->
  apply_unstake la amt id signer top txid true pu = Ok la2 ->
  exists lb2, apply_unstake lb amt id signer top' txid true pu = Ok lb2 /\
    deq (dlgs la2) (dlgs lb2) /\ staked lb2 = staked la2 /\ accts lb2 = accts lb /\ dhist lb2 = dhist lb.
Proof.
  intros Hq Hs HU H. unfold apply_unstake in *.
  opt_inv H. rename x into d. opt_inv H. rename x into f. guard_inv H. guard_inv H. cbn [negb andb] in H.
  bind_inv H. injection H as <-.
  destruct (deq_get la lb id d Hq E) as (d' & Hg' & (P1 & P2 & P3 & P4)).
  rewrite Hg'. cbn [of_opt bind].
  rewrite <- (find_fund_perm _ _ signer (HU id d E) P4), E0. cbn [of_opt bind orb guard negb andb].
  rewrite G0. cbn [guard bind].
  destruct (stats_unstaked_cong la lb amt a Hs E1) as [-> ->]. cbn [bind].
  eexists. split; [reflexivity|].
  cbn [put_dlg set_dlgs set_staked dlgs staked accts dhist d_id]. rewrite <- P1.
  split; [|repeat split].
  apply deq_dins; [exact Hq|]. repeat split; cbn [d_id d_owner d_name d_funds]; try assumption.
  apply upd_fund_perm; [exact (HU id d E)|exact P4].
Qed.

Lemma cong_apply_stake_rev la lb amt id signer top txid la2 :
  deq (dlgs la) (dlgs lb) -> staked lb = staked la -> FUniq la ->
  nget (dhist lb) txid = nget (dhist la) txid ->
  apply_stake cfg la amt id 0 signer top txid true = Ok la2 ->
  exists lb2, apply_stake cfg lb amt id 0 signer top txid true = Ok lb2 /\
    deq (dlgs la2) (dlgs lb2) /\ staked lb2 = staked la2 /\ accts lb2 = accts lb /\ dhist lb2 = dhist lb.
Proof.
  intros Hq Hs HU Hh H. unfold apply_stake in *.
  opt_inv H. rename x into d. bind_inv H. rename a into fa. bind_inv H. injection H as <-.
  destruct (deq_get la lb id d Hq E) as (d' & Hg' & (P1 & P2 & P3 & P4)).
  rewrite Hg'. cbn [of_opt bind].
  rewrite <- (find_fund_perm _ _ signer (HU id d E) P4).
  assert (Hf : exists fb,
    match find_fund (d_funds d) signer with
    | Some f => _ <- guard (true || (f_unlock f =? 0)) 302 ;;
                amt' <- of_opt (safe_add (f_amt f) amt) 303 ;;
                Ok (upd_fund (d_funds d') signer (Some (mkfund signer amt' (f_unlock f))))
    | None => Ok (d_funds d' ++ [mkfund signer amt (match saved_unlock lb txid (d_id d') signer with
                                                     | Some u => u | None => wadd top (unlock_time cfg) end)])
    end = Ok fb /\ Permutation fa fb).
  { destruct (find_fund (d_funds d) signer) as [f|].
    - guard_inv E0. opt_inv E0. injection E0 as <-. cbn [guard bind of_opt].
      eexists. split; [reflexivity|]. apply upd_fund_perm; [exact (HU id d E)|exact P4].
    - injection E0 as <-. eexists. split; [reflexivity|].
      unfold saved_unlock. rewrite Hh, <- P1. apply Permutation_app_tail. exact P4. }
  destruct Hf as (fb & Hfb & Hperm). cbn [orb] in Hfb |- *. rewrite Hfb. cbn [bind].
  destruct (stats_staked_cong la lb amt a Hs E1) as [-> ->]. cbn [bind].
  eexists. split; [reflexivity|].
  cbn [put_dlg set_dlgs set_staked dlgs staked accts dhist d_id]. rewrite <- P1.
  split; [|repeat split].
  apply deq_dins; [exact Hq|]. repeat split; cbn [d_id d_owner d_name d_funds]; assumption.
Qed.

Lemma cong_kind_remove la lb t st top la2 st' :
  deq (dlgs la) (dlgs lb) -> staked lb = staked la -> FUniq la ->
  nget (dhist lb) (tx_id t) = nget (dhist la) (tx_id t) ->
  kind_remove cfg la t st top = Ok (la2, st') ->
  exists lb2, kind_remove cfg lb t st top = Ok (lb2, st') /\
    deq (dlgs la2) (dlgs lb2) /\ staked lb2 = staked la2 /\ accts lb2 = accts lb /\ dhist lb2 = dhist lb.
Proof.
  intros Hq Hs HU Hh H. unfold kind_remove in *.
  assert (Htriv : exists lb2, Ok (lb, st) = Ok (lb2, st) /\
            deq (dlgs la) (dlgs lb2) /\ staked lb2 = staked la /\ accts lb2 = accts lb /\ dhist lb2 = dhist lb).
  { exists lb. repeat split; assumption. }
  destruct (tx_data t) as [os|nl name id|nw pv|a id pu|a id].
  - injection H as <- <-. exact Htriv.
  - destruct (tx_version t =? 2); [|injection H as <- <-; exact Htriv].
    opt_inv H. rename x into d. guard_inv H. injection H as <- <-.
    destruct (deq_get la lb id d Hq E) as (d' & Hg' & (P1 & P2 & P3 & P4)).
    rewrite Hg'. cbn [of_opt bind]. rewrite <- (Permutation_length P4), G. cbn [guard bind].
    eexists. split; [reflexivity|]. cbn [del_dlg set_dlgs dlgs staked accts dhist].
    split; [apply deq_ndel; exact Hq|]. repeat split. exact Hs.
  - destruct (tx_version t =? 3); [|injection H as <- <-; exact Htriv].
    guard_inv H. guard_inv H. injection H as <- <-. cbn [guard bind].
    destruct (get_dlg la nw) as [d|] eqn:E; [|discriminate].
    destruct (deq_get la lb nw d Hq E) as (d' & Hg' & _). rewrite Hg'. cbn [guard bind].
    exists lb. repeat split; assumption.
  - destruct (tx_version t =? 4); [|injection H as <- <-; exact Htriv].
    guard_inv H. guard_inv H. bind_inv H. injection H as <- <-. cbn [guard bind].
    destruct (cong_apply_unstake_rev la lb a id _ top top (tx_id t) pu _ Hq Hs HU E) as (lb2 & Hr & R).
    rewrite Hr. cbn [bind]. exists lb2. split; [reflexivity|exact R].
  - destruct (tx_version t =? 5); [|injection H as <- <-; exact Htriv].
    guard_inv H. guard_inv H. bind_inv H. injection H as <- <-. cbn [guard bind].
    destruct (cong_apply_stake_rev la lb a id _ top (tx_id t) _ Hq Hs HU Hh E) as (lb2 & Hr & R).
    rewrite Hr. cbn [bind]. exists lb2. split; [reflexivity|exact R].
Qed.

End Cong.

Lemma cong_remove_pos_reward la lb bh o la2 :
  deq (dlgs la) (dlgs lb) -> staked lb = staked la -> nget (dhist lb) bh = nget (dhist la) bh ->
  remove_pos_reward la bh o = Ok la2 ->
  exists lb2, remove_pos_reward lb bh o = Ok lb2 /\
    deq (dlgs la2) (dlgs lb2) /\ staked lb2 = staked la2 /\ accts lb2 = accts lb /\ dhist lb2 = dhist lb.
Proof.
  intros Hq Hs Hh H. unfold remove_pos_reward in *.
  guard_inv H. opt_inv H. rename x into d. guard_inv H. opt_inv H. rename x into old. guard_inv H.
  bind_inv H. injection H as <-. cbn [guard bind].
  destruct (deq_get la lb (o_extra o) d Hq E) as (d' & Hg' & (P1 & P2 & P3 & P4)).
  rewrite Hg'. cbn [of_opt bind]. rewrite <- (Permutation_length P4), G0. cbn [guard bind].
  rewrite Hh. cbn [of_opt bind]. rewrite <- P1, <- P2, G1. cbn [guard bind].
  destruct (stats_unstaked_cong la lb (o_amt o) a Hs E1) as [-> ->]. cbn [bind].
  eexists. split; [reflexivity|].
  cbn [put_dlg set_dlgs set_staked dlgs staked accts dhist].
  split; [apply deq_dins; [exact Hq|apply dperm_refl]|]. repeat split.
Qed.

(* ------------------------------------------------------------------------------------------------------------ *)
(* FUniq is kept by transactions *)
Section Perm.
Variable cfg : config.
Variable genesis_addr : N.

Lemma apply_stake_FUniq l amt id pu signer top txid l1 :
  FUniq l -> apply_stake cfg l amt id pu signer top txid false = Ok l1 -> FUniq l1.
Proof.
  intros HU H. unfold apply_stake in H. opt_inv H. rename x into d. bind_inv H. bind_inv H. injection H as <-.
  apply (FUniq_put _ l); [exact HU|eapply dlgs_stats_staked; eassumption|]. cbn [d_funds].
  pose proof (HU id d E) as Hnd.
  destruct (find_fund (d_funds d) signer) as [g|] eqn:Eg.
  - guard_inv E0. opt_inv E0. injection E0 as <-. rewrite fowners_upd_some by reflexivity. exact Hnd.
  - injection E0 as <-. unfold fowners. rewrite map_app. cbn [map f_owner].
    apply NoDup_app_last; [exact Hnd|]. apply find_fund_none_iff. exact Eg.
Qed.

Lemma apply_unstake_FUniq l amt id signer top txid l1 :
  FUniq l -> apply_unstake l amt id signer top txid false 0 = Ok l1 -> FUniq l1.
Proof.
  intros HU H. unfold apply_unstake in H. opt_inv H. rename x into d. opt_inv H. rename x into g.
  guard_inv H. guard_inv H. bind_inv H. injection H as <-.
  apply (FUniq_put _ l); [exact HU| |].
  - match goal with Hs : stats_unstaked _ _ = Ok _ |- _ => rewrite (dlgs_stats_unstaked _ _ _ Hs) end.
    destruct (_ && _); reflexivity.
  - cbn [d_funds]. pose proof (HU id d E) as Hnd.
    destruct (f_amt g - amt =? 0); [apply NoDup_upd_none; exact Hnd|].
    rewrite fowners_upd_some by reflexivity. exact Hnd.
Qed.

Lemma kind_apply_FUniq l t st top l1k st1 : FUniq l -> kind_apply cfg l t st top = Ok (l1k, st1) -> FUniq l1k.
Proof.
  intros HU H. unfold kind_apply in H.
  destruct (tx_data t) as [os|nl name id|nw pv|a id pu|a id].
  - injection H as <- _. exact HU.
  - destruct (tx_version t =? 2); [|injection H as <- _; exact HU]. guard_inv H. injection H as <- _.
    apply (FUniq_put _ l); [exact HU|reflexivity|constructor].
  - destruct (tx_version t =? 3); [|injection H as <- _; exact HU].
    guard_inv H. guard_inv H. guard_inv H. injection H as <- _. exact HU.
  - destruct (tx_version t =? 4); [|injection H as <- _; exact HU].
    guard_inv H. guard_inv H. bind_inv H. injection H as <- _. eapply apply_stake_FUniq; eassumption.
  - destruct (tx_version t =? 5); [|injection H as <- _; exact HU].
    guard_inv H. guard_inv H. bind_inv H. injection H as <- _. eapply apply_unstake_FUniq; eassumption.
Qed.

Lemma apply_tx_FUniq l t h bh top l1 : FUniq l -> apply_tx cfg l t h bh top = Ok l1 -> FUniq l1.
Proof.
  intros HU H. destruct (apply_tx_staking cfg l t h bh top l1 H) as (st & l1k & st1 & _ & Hk & Hd & _).
  apply (FUniq_ext l1k l1 Hd). eapply kind_apply_FUniq; eassumption.
Qed.

(* ---- the kind-specific part, undone from the very ledger it produced: restored up to the order of the funds ---- *)
Lemma undo_kind_self l t st top l1k st1 :
  SInv l -> FPos l -> FUniq l -> wf_tx cfg t ->
  kind_apply cfg l t st top = Ok (l1k, st1) ->
  accts l1k = accts l /\ bal st1 = bal st /\ nonce st1 = nonce st /\ inc st1 = inc st /\
  forall top', exists l2, kind_remove cfg l1k t st1 top' = Ok (l2, st) /\
    deq (dlgs l) (dlgs l2) /\ staked l2 = staked l /\ accts l2 = accts l1k /\ dhist l2 = dhist l1k.
Proof.
  intros HI HP HU Hwf H.
  assert (Hgen : unstake_last l t ->
    accts l1k = accts l /\ bal st1 = bal st /\ nonce st1 = nonce st /\ inc st1 = inc st /\
    forall top', exists l2, kind_remove cfg l1k t st1 top' = Ok (l2, st) /\
      deq (dlgs l) (dlgs l2) /\ staked l2 = staked l /\ accts l2 = accts l1k /\ dhist l2 = dhist l1k).
  { intros Hlast. destruct (undo_kind cfg l t st top l1k st1 HI HP Hwf Hlast H) as (A & B & C & D & Hk).
    split; [exact A|]. split; [exact B|]. split; [exact C|]. split; [exact D|].
    intros top'. destruct (Hk l1k top' eq_refl eq_refl eq_refl) as (l2 & Hr & D2 & R).
    exists l2. split; [exact Hr|]. split; [rewrite D2; apply deq_refl|exact R]. }
  destruct (tx_data t) as [os|nl name id|nw pv|a id pu|a id] eqn:Ed;
    try (apply Hgen; unfold unstake_last; rewrite Ed; exact I).
  destruct (N.eqb_spec (tx_version t) 5) as [Ev|Ev];
    [|apply Hgen; unfold unstake_last; rewrite Ed; intros; contradiction].
  clear Hgen. unfold kind_apply in H. rewrite Ed in H. rewrite Ev in H. cbn [N.eqb Pos.eqb] in H.
  guard_inv H. guard_inv H. bind_inv H. injection H as <- <-.
  split; [eapply accts_apply_unstake; eassumption|]. repeat split.
  intros top'. unfold kind_remove. rewrite Ed, Ev. cbn [N.eqb Pos.eqb]. rewrite G, G0. cbn [guard bind].
  destruct (unstake_respects_lock _ _ _ _ _ _ _ _ E) as (d & f & Hg & Hf & Hown & _ & _).
  destruct Hwf as (_ & Hwd & _). rewrite Ed in Hwd. cbn [wf_data] in Hwd.
  pose proof HI as (Hsort & _).
  destruct (undo_unstake_gen cfg l a id _ top (tx_id t) _ d f HI Hwd Hg Hf
              ltac:(intros _; apply find_upd_none; exact (HU id d Hg)) E _ top' eq_refl eq_refl eq_refl)
    as (l2 & Hr & D2 & S2 & A2 & H2).
  rewrite Hr. cbn [bind]. exists l2. split; [reflexivity|]. split; [|repeat split; assumption].
  rewrite D2. rewrite <- (dins_same (dlgs l) id d Hsort Hg) at 1.
  apply deq_dins; [apply deq_refl|]. destruct d as [di do dn fs]. cbn [d_id d_owner d_name d_funds] in *.
  repeat split; cbn [d_id d_owner d_name d_funds]; try reflexivity.
  destruct (f_amt f =? a); [apply perm_moved; exact Hf|apply Permutation_refl].
Qed.

(* ---- the instance: invariant SInv /\ FPos /\ FUniq, no side condition, delegate table up to fund order ---- *)
Definition PInv (l : ledger) : Prop := SInv l /\ FPos l /\ FUniq l.

Lemma PInv_ext l l' : dlgs l' = dlgs l -> staked l' = staked l -> PInv l -> PInv l'.
Proof.
  intros Hd Hs (HI & HP & HU).
  split; [apply (SInv_ext l l' Hd Hs HI)|]. split; [apply (FPos_ext l l' Hd HP)|apply (FUniq_ext l l' Hd HU)].
Qed.

Lemma PInv_kind l t : PInv l -> wf_tx cfg t -> True -> kind_undo_ok cfg deq l t.
Proof.
  intros (HI & HP & HU) Hwf _ st top l1k st1 H.
  destruct (undo_kind_self l t st top l1k st1 HI HP HU Hwf H) as (A & B & C & D & Hk).
  split; [exact A|]. split; [exact B|]. split; [exact C|]. split; [exact D|].
  intros l' top' Hq Hs Hh. destruct (Hk top') as (l2x & Hr & D2 & S2 & A2 & H2).
  destruct (cong_kind_remove cfg l1k l' t st1 top' l2x st Hq Hs (kind_apply_FUniq l t st top l1k st1 HU H) Hh Hr)
    as (l2 & Hr2 & Dq & Sq & Aq & Hq2).
  exists l2. split; [exact Hr2|]. split; [eapply deq_trans; eassumption|]. split; [congruence|]. split; assumption.
Qed.

Lemma PInv_tx l t h bh top l1 : PInv l -> wf_tx cfg t -> stake_pos t -> apply_tx cfg l t h bh top = Ok l1 -> PInv l1.
Proof.
  intros (HI & HP & HU) Hwf Hsp H.
  split; [eapply apply_tx_SInv; eassumption|]. split; [eapply apply_tx_FPos; eassumption|eapply apply_tx_FUniq; eassumption].
Qed.

Lemma PInv_pos l bh o l1 : PInv l -> o_amt o < two64 -> apply_pos_reward l bh o = Ok l1 ->
  forall l', deq (dlgs l1) (dlgs l') -> staked l' = staked l1 -> nget (dhist l') bh = nget (dhist l1) bh ->
  exists l2, remove_pos_reward l' bh o = Ok l2 /\
    deq (dlgs l) (dlgs l2) /\ staked l2 = staked l /\ accts l2 = accts l' /\ dhist l2 = dhist l'.
Proof.
  intros (HI & _) Ho H l' Hq Hs Hh.
  destruct (undo_pos_reward l bh o l1 HI Ho H l1 eq_refl eq_refl eq_refl) as (l2x & Hr & D & S & _).
  destruct (cong_remove_pos_reward l1 l' bh o l2x Hq Hs Hh Hr) as (l2 & Hr2 & Dq & Sq & Aq & Hq2).
  exists l2. split; [exact Hr2|]. split; [rewrite <- D; exact Dq|]. split; [congruence|]. split; assumption.
Qed.

Lemma sides_true l txs h bh top : sides cfg (fun _ _ => True) l txs h bh top.
Proof. revert l. induction txs as [|t txs IH]; intros l; cbn [sides]; [exact I|]. split; [exact I|intros l1 _; apply IH]. Qed.

(* agreement up to the order of the funds inside each pool *)
Definition leqv_p : ledger -> ledger -> Prop := leqv_g deq.

Lemma leqv_p_refl l : leqv_p l l.
Proof. split; [intros a; reflexivity|]. split; [intros a Ha; exact Ha|]. split; [apply deq_refl|reflexivity]. Qed.

Theorem undo_tx_perm l t h bh top_h l1 tot :
  SInv l -> FPos l -> FUniq l -> total_bal l < two64 -> wf_tx cfg t -> tx_total cfg t = Some tot ->
  (forall a, inc (acct_at l a) + tx_nouts t < two64) ->
  nonce (acct_at l (addr_of_key (tx_signer t))) + 1 < two64 ->
  apply_tx cfg l t h bh top_h = Ok l1 ->
  forall l' top', leqv_p l1 l' -> nget (dhist l') (tx_id t) = nget (dhist l1) (tx_id t) ->
  exists l2, remove_tx cfg l' t bh top' = Ok l2 /\ leqv_p l l2 /\ dhist l2 = dhist l'.
Proof.
  intros HI HP HU Hb Hwf Htot Hinc Hnonce Happ.
  exact (proj2 (undo_tx_gen cfg deq l t h bh top_h l1 tot (PInv_kind l t (conj HI (conj HP HU)) Hwf I)
                  Hb Hwf Htot Hinc Hnonce Happ)).
Qed.

Theorem undo_txs_perm txs l h bh top fee ln fee' :
  SInv l -> FPos l -> FUniq l -> total_bal l < two64 ->
  Forall (tx_ok cfg) txs -> Forall stake_pos txs -> NoDup (map tx_id txs) ->
  (forall a, inc (acct_at l a) + nouts_sum txs < two64) ->
  (forall a, nonce (acct_at l a) + N.of_nat (length txs) < two64) ->
  apply_txs cfg l txs h bh top fee = Ok (ln, fee') ->
  forall l' top', leqv_p ln l' ->
    (forall t, In t txs -> nget (dhist l') (tx_id t) = nget (dhist ln) (tx_id t)) ->
    exists l2, remove_txs cfg l' (rev txs) bh top' = Ok l2 /\ leqv_p l l2 /\ dhist l2 = dhist l'.
Proof.
  intros HI HP HU Hb Hok Hsp Hnd Hinc Hnon H.
  exact (proj2 (proj2 (undo_txs_gen cfg deq PInv (fun _ _ => True) PInv_ext PInv_kind PInv_tx PInv_pos
                         txs l h bh top fee ln fee' (conj HI (conj HP HU)) Hb Hok Hsp Hnd Hinc Hnon
                         (sides_true l txs h bh top) H))).
Qed.

Theorem undo_block_perm l b top_h lB :
  cfg_ok_emission cfg = true ->
  SInv l -> FPos l -> FUniq l -> total_bal l + reward cfg (lb_height b) <= max_supply cfg ->
  Forall (tx_ok cfg) (lb_txs b) -> Forall stake_pos (lb_txs b) ->
  NoDup (map tx_id (lb_txs b)) -> ~ In (lb_hash b) (map tx_id (lb_txs b)) ->
  (forall a, inc (acct_at l a) + nouts_sum (lb_txs b) + 4 < two64) ->
  (forall a, nonce (acct_at l a) + N.of_nat (length (lb_txs b)) < two64) ->
  apply_block cfg genesis_addr l b top_h = Ok lB ->
  forall l' top', leqv_p lB l' ->
    (forall k, k = lb_hash b \/ In k (map tx_id (lb_txs b)) -> nget (dhist l') k = nget (dhist lB) k) ->
    exists l2, remove_block cfg genesis_addr l' b top' = Ok l2 /\ leqv_p l l2 /\ dhist l2 = dhist l'.
Proof.
  intros Hok HI HP HU Hb Htx Hsp Hnd Hbh Hinc Hnon H.
  exact (proj2 (undo_block_gen cfg genesis_addr deq PInv (fun _ _ => True) PInv_ext PInv_kind PInv_tx PInv_pos Hok
                  l b top_h lB (conj HI (conj HP HU)) Hb Htx Hsp Hnd Hbh Hinc Hnon
                  (sides_true l (lb_txs b) (lb_height b) (lb_hash b) top_h) H)).
Qed.

(* counters after a block *)
Lemma apply_block_frame l b top_h lB :
  cfg_ok_emission cfg = true ->
  SInv l -> FPos l -> FUniq l -> total_bal l + reward cfg (lb_height b) <= max_supply cfg ->
  Forall (tx_ok cfg) (lb_txs b) -> Forall stake_pos (lb_txs b) ->
  NoDup (map tx_id (lb_txs b)) -> ~ In (lb_hash b) (map tx_id (lb_txs b)) ->
  (forall a, inc (acct_at l a) + nouts_sum (lb_txs b) + 4 < two64) ->
  (forall a, nonce (acct_at l a) + N.of_nat (length (lb_txs b)) < two64) ->
  apply_block cfg genesis_addr l b top_h = Ok lB ->
  forall a, inc (acct_at lB a) <= inc (acct_at l a) + nouts_sum (lb_txs b) + 4 /\
            nonce (acct_at lB a) <= nonce (acct_at l a) + N.of_nat (length (lb_txs b)).
Proof.
  intros Hok HI HP HU Hb Htx Hsp Hnd Hbh Hinc Hnon H.
  exact (proj1 (undo_block_gen cfg genesis_addr deq PInv (fun _ _ => True) PInv_ext PInv_kind PInv_tx PInv_pos Hok
                  l b top_h lB (conj HI (conj HP HU)) Hb Htx Hsp Hnd Hbh Hinc Hnon
                  (sides_true l (lb_txs b) (lb_height b) (lb_hash b) top_h) H)).
Qed.

(* the form of C03_undo_block_full, with the delegate records compared up to the order of their funds *)
Corollary remove_apply_block_perm l b top_h lB :
  cfg_ok_emission cfg = true ->
  SInv l -> FPos l -> FUniq l -> total_bal l + reward cfg (lb_height b) <= max_supply cfg ->
  Forall (tx_ok cfg) (lb_txs b) -> Forall stake_pos (lb_txs b) ->
  NoDup (map tx_id (lb_txs b)) -> ~ In (lb_hash b) (map tx_id (lb_txs b)) ->
  (forall a, inc (acct_at l a) + nouts_sum (lb_txs b) + 4 < two64) ->
  (forall a, nonce (acct_at l a) + N.of_nat (length (lb_txs b)) < two64) ->
  apply_block cfg genesis_addr l b top_h = Ok lB ->
  forall top', exists l2, remove_block cfg genesis_addr lB b top' = Ok l2 /\ same_accounts l2 l /\
    (forall id, match get_dlg l id, get_dlg l2 id with
                | Some d, Some d' => dperm d d'
                | None, None => True
                | _, _ => False
                end) /\ staked l2 = staked l.
Proof.
  intros Hok HI HP HU Hb Htx Hsp Hnd Hbh Hinc Hnon H top'.
  destruct (undo_block_perm l b top_h lB Hok HI HP HU Hb Htx Hsp Hnd Hbh Hinc Hnon H lB top' (leqv_p_refl lB) ltac:(reflexivity))
    as (l2 & Hr & (Hs & _ & Hd & Hst) & _).
  exists l2. split; [exact Hr|]. split; [exact Hs|]. split; [|exact Hst].
  intros id. apply deq_nget. exact Hd.
Qed.

End Perm.

(* ------------------------------------------------------------------------------------------------------------ *)
(* the hypotheses of the block theorems, bundled (Props/C03.v) *)
Definition block_hyps (cfg : config) (l : ledger) (b : lblock) : Prop :=
  cfg_ok_emission cfg = true /\
  SInv l /\ FPos l /\ FUniq l /\ total_bal l + reward cfg (lb_height b) <= max_supply cfg /\
  Forall (tx_ok cfg) (lb_txs b) /\ Forall stake_pos (lb_txs b) /\
  NoDup (map tx_id (lb_txs b)) /\ ~ In (lb_hash b) (map tx_id (lb_txs b)) /\
  (forall a, inc (acct_at l a) + nouts_sum (lb_txs b) + 4 < two64) /\
  (forall a, nonce (acct_at l a) + N.of_nat (length (lb_txs b)) < two64).

Lemma undo_block_upto_fund_order cfg genesis_addr l b top_h l1 :
  block_hyps cfg l b ->
  apply_block cfg genesis_addr l b top_h = Ok l1 ->
  forall top', exists l2, remove_block cfg genesis_addr l1 b top' = Ok l2 /\ same_accounts l2 l /\
    (forall id, match get_dlg l id, get_dlg l2 id with
                | Some d, Some d' => dperm d d'
                | None, None => True
                | _, _ => False
                end) /\ staked l2 = staked l.
Proof.
  intros (Hok & HI & HP & HU & Hb & Htx & Hsp & Hnd & Hbh & Hinc & Hnon) H top'.
  exact (remove_apply_block_perm cfg genesis_addr l b top_h l1 Hok HI HP HU Hb Htx Hsp Hnd Hbh Hinc Hnon H top').
Qed.

Lemma undo_block_exact cfg genesis_addr l b top_h l1 :
  block_hyps cfg l b ->
  unstakes_last cfg l (lb_txs b) (lb_height b) (lb_hash b) top_h ->
  apply_block cfg genesis_addr l b top_h = Ok l1 ->
  forall top', exists l2, remove_block cfg genesis_addr l1 b top' = Ok l2 /\ same_accounts l2 l /\
    dlgs l2 = dlgs l /\ (forall id, get_dlg l2 id = get_dlg l id) /\ staked l2 = staked l.
Proof.
  intros (Hok & HI & HP & _ & Hb & Htx & Hsp & Hnd & Hbh & Hinc & Hnon) Hlast H top'.
  exact (remove_apply_block cfg genesis_addr l b top_h l1 Hok HI HP Hb Htx Hsp Hnd Hbh Hinc Hnon Hlast H top').
Qed.

Lemma undo_block_general cfg genesis_addr l b top_h lB :
  block_hyps cfg l b ->
  apply_block cfg genesis_addr l b top_h = Ok lB ->
  forall l' top', leqv_p lB l' ->
    (forall k, k = lb_hash b \/ In k (map tx_id (lb_txs b)) -> nget (dhist l') k = nget (dhist lB) k) ->
    exists l2, remove_block cfg genesis_addr l' b top' = Ok l2 /\ leqv_p l l2 /\ dhist l2 = dhist l'.
Proof.
  intros (Hok & HI & HP & HU & Hb & Htx & Hsp & Hnd & Hbh & Hinc & Hnon).
  exact (undo_block_perm cfg genesis_addr l b top_h lB Hok HI HP HU Hb Htx Hsp Hnd Hbh Hinc Hnon).
Qed.
