(* Property C04: agreement of nodes that hold the same blocks (a corollary of the fork-choice invariant). *)
From Virel Require Import Lib.Config Lib.U64 Lib.AMap Model.Ledger Model.Node Proofs.NodeBasics Proofs.ForkChoice.
Open Scope N_scope.

Section Agreement.
Variable cfg : config.
Variable genesis_addr team_key : N.

(* two nodes satisfying the fork-choice invariant that store the same blocks have tips of the same cumulative
   difficulty; when only one stored block reaches that cumulative difficulty they have the same tip *)
Lemma same_blocks_same_weight n1 n2 :
  FInv n1 -> FInv n2 -> (forall h, get_block n1 h = get_block n2 h) -> top_cd n1 = top_cd n2.
Proof.
  intros (T1 & _ & M1) (T2 & _ & M2) Hsame.
  destruct T1 as (t1 & G1 & C1). destruct T2 as (t2 & G2 & C2).
  pose proof (M2 (top n1) t1 ltac:(rewrite <- Hsame; exact G1)) as L1.
  pose proof (M1 (top n2) t2 ltac:(rewrite Hsame; exact G2)) as L2. lia.
Qed.

Lemma same_blocks_same_tip n1 n2 :
  FInv n1 -> FInv n2 -> (forall h, get_block n1 h = get_block n2 h) ->
  (forall h h' b b', get_block n1 h = Some b -> get_block n1 h' = Some b' ->
                     b_cd b = top_cd n1 -> b_cd b' = top_cd n1 -> h = h') ->
  top n1 = top n2.
Proof.
  intros F1 F2 Hsame Huniq. pose proof (same_blocks_same_weight n1 n2 F1 F2 Hsame) as Hw.
  destruct F1 as ((t1 & G1 & C1) & _ & _). destruct F2 as ((t2 & G2 & C2) & _ & _).
  apply (Huniq (top n1) (top n2) t1 t2 G1); [rewrite Hsame; exact G2|exact C1|lia].
Qed.

(* for delivery sequences: any two orders (and any clocks, duplicates, invalid blocks in between) *)
Theorem agreement g n0 ops1 ops2 :
  node0 cfg genesis_addr g = Ok n0 -> b_cd g = b_diff g ->
  let n1 := run cfg genesis_addr team_key n0 ops1 in
  let n2 := run cfg genesis_addr team_key n0 ops2 in
  (forall h, get_block n1 h = get_block n2 h) ->
  top_cd n1 = top_cd n2 /\
  ((forall h h' b b', get_block n1 h = Some b -> get_block n1 h' = Some b' ->
                      b_cd b = top_cd n1 -> b_cd b' = top_cd n1 -> h = h') -> top n1 = top n2).
Proof.
  intros H0 Hg n1 n2 Hsame.
  pose proof (run_inv cfg genesis_addr team_key ops1 n0 (node0_inv cfg genesis_addr g n0 H0 Hg)) as F1.
  pose proof (run_inv cfg genesis_addr team_key ops2 n0 (node0_inv cfg genesis_addr g n0 H0 Hg)) as F2.
  split; [exact (same_blocks_same_weight n1 n2 F1 F2 Hsame)|].
  intros Hu. exact (same_blocks_same_tip n1 n2 F1 F2 Hsame Hu).
Qed.
End Agreement.
