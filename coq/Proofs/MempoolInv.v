(* Property C09, hypothesis (b) of C09_template_txs_ok derived: the mempool invariant [mp_inv] in every reachable state of
   the wrapped node - across block deliveries with their mempool maintenance (transactions of disconnected blocks are
   re-added by RemoveBlockFromState, transactions of connected blocks leave), across TX packets, stake signatures and
   template calls.

   [mp_inv] by itself is not inductive across a disconnection: the re-added entries are made from the transactions of the
   disconnected blocks, so one has to know that those transactions are the ones the Tx index returns under their ids and
   that they passed Prevalidate.  The inductive invariant [WInv]:
     (1) every pending entry has its transaction in the Tx index, was made from it, and that transaction is [tx_adm];
     (2) every transaction of every stored block is in the Tx index under its own id and is [tx_adm].
   (1) implies [mp_inv].

   What has to be assumed of the events (side conditions of [reachable_t] below), and why:
     typed     the transactions of delivered blocks and TX packets have uint64-typed amounts and the version byte of their
               payload kind (facts about the decoder: Props/C13.v; [tx_adm] asks for the latter, so blocks of the heights
               below HARDFORK_V2 that carry version-0 transfers are outside this theorem, as they are outside packet_tx);
     ids       a transaction id names one transaction: a delivered transaction whose id the Tx index already holds IS the
               stored transaction, and two transactions of one block with the same id are the same (ids are hashes of the
               content; in the model they are numbers chosen by the environment).  The Tx index never overwrites
               (AddTransaction returns "already in database"), so without this the re-added entry of a disconnected
               block's transaction would be filed next to ANOTHER transaction of the same id: the witness
               [mp_inv_needs_ids] below;
     genesis   the genesis block carries no transactions (it is never written to the Tx index). *)
From Virel Require Import Lib.Config Lib.U64 Lib.AMap Lib.CheckLib Model.Emission Model.Ledger Model.Node Model.Mempool Spec.Chain
  Proofs.AMapLemmas Proofs.Emission Proofs.Conservation Proofs.Pointwise Proofs.NodeBasics Proofs.ForkChoice
  Proofs.ChainInv Proofs.Replay5 Proofs.Mempool Proofs.Mempool2 Proofs.Mempool3 Proofs.Mempool4.
Open Scope N_scope.
Open Scope bool_scope.

Section MempoolInv.
Variable cfg : config.
Variable genesis_addr team_key : N.

Definition WInv (w : wnode) : Prop :=
  (forall e, In e (mpool w) ->
     exists t, nget (txstore w) (me_id e) = Some t /\ entry_rel cfg t e /\ tx_adm cfg t) /\
  (forall h B t, get_block (wn w) h = Some B -> In t (b_txs B) ->
     nget (txstore w) (tx_id t) = Some t /\ tx_adm cfg t).

Lemma WInv_mp_inv w : WInv w -> mp_inv cfg w.
Proof.
  intros (H1 & _) e t Hin Hg. destruct (H1 e Hin) as (t' & Hg' & Hr & Ha). rewrite Hg in Hg'. injection Hg' as <-.
  split; assumption.
Qed.

(* ---- the Tx index only grows and never rebinds ---- *)
Lemma store_txs_keep txs : forall s k t, nget s k = Some t -> nget (store_txs s txs) k = Some t.
Proof.
  unfold store_txs. induction txs as [|t1 txs IH]; intros s k t Hk; cbn [fold_left]; [exact Hk|].
  apply IH. destruct (nget s (tx_id t1)) as [t0|] eqn:E1; [exact Hk|].
  rewrite nget_nset. destruct (N.eqb_spec k (tx_id t1)) as [->|_]; [congruence|exact Hk].
Qed.

Lemma store_txs_in txs : forall s,
  (forall t, In t txs -> forall t0, nget s (tx_id t) = Some t0 -> t0 = t) ->
  (forall t t', In t txs -> In t' txs -> tx_id t = tx_id t' -> t = t') ->
  forall t, In t txs -> nget (store_txs s txs) (tx_id t) = Some t.
Proof.
  induction txs as [|t1 txs IH]; intros s Hs Hw t Hin; [destruct Hin|].
  change (store_txs s (t1 :: txs)) with
    (store_txs (match nget s (tx_id t1) with Some _ => s | None => nset s (tx_id t1) t1 end) txs).
  set (s1 := match nget s (tx_id t1) with Some _ => s | None => nset s (tx_id t1) t1 end).
  assert (H1 : nget s1 (tx_id t1) = Some t1).
  { unfold s1. destruct (nget s (tx_id t1)) as [t0|] eqn:E1.
    - rewrite E1. f_equal. exact (Hs t1 (or_introl eq_refl) t0 E1).
    - apply nget_nset_same. }
  destruct Hin as [<-|Hin]; [apply store_txs_keep; exact H1|].
  apply IH; [| |exact Hin].
  - intros t' Hin' t0 Hg. unfold s1 in Hg. destruct (nget s (tx_id t1)) as [tx|] eqn:E1.
    + exact (Hs t' (or_intror Hin') t0 Hg).
    + rewrite nget_nset in Hg. destruct (N.eqb_spec (tx_id t') (tx_id t1)) as [Eid|_].
      * injection Hg as <-. symmetry. exact (Hw t' t1 (or_intror Hin') (or_introl eq_refl) Eid).
      * exact (Hs t' (or_intror Hin') t0 Hg).
  - intros a b Ha Hb. apply Hw; right; assumption.
Qed.

(* ---- where the entries of the maintained mempool come from ---- *)
Lemma readd_from txs : forall mp exp mp', readd cfg mp txs exp = Ok mp' ->
  forall e, In e mp' -> In e mp \/ exists t, In t txs /\ entry_rel cfg t e.
Proof.
  induction txs as [|t txs IH]; intros mp exp mp' H e Hin; cbn [readd] in H.
  - injection H as <-. left. exact Hin.
  - destruct (has_entry mp (tx_id t)).
    + destruct (IH _ _ _ H e Hin) as [Hl|(t' & Ht' & Hr)]; [left; exact Hl|right; exists t'; split; [right; exact Ht'|exact Hr]].
    + bind_inv H. rename a into e1.
      destruct (IH _ _ _ H e Hin) as [Hl|(t' & Ht' & Hr)].
      * apply in_app_or in Hl. destruct Hl as [Hl|[<-|[]]]; [left; exact Hl|].
        right. exists t. split; [left; reflexivity|exists exp; exact E].
      * right. exists t'. split; [right; exact Ht'|exact Hr].
Qed.

Lemma mp_disconnect_from mp b now_s exp mp' : mp_disconnect cfg mp b now_s exp = Ok mp' ->
  forall e, In e mp' -> In e mp \/ exists t, In t (b_txs b) /\ entry_rel cfg t e.
Proof.
  unfold mp_disconnect. intros H e Hin. destruct (b_txs b) as [|t0 r] eqn:Eb.
  - injection H as <-. left. exact Hin.
  - bind_inv H. injection H as <-. apply prune_spec in Hin. destruct Hin as [Hin _].
    exact (readd_from _ _ _ _ E e Hin).
Qed.

Lemma mp_disconnect_all_from bs : forall mp now_s exp mp', mp_disconnect_all cfg mp bs now_s exp = Ok mp' ->
  forall e, In e mp' -> In e mp \/ exists B t, In B bs /\ In t (b_txs B) /\ entry_rel cfg t e.
Proof.
  induction bs as [|b bs IH]; intros mp now_s exp mp' H e Hin; cbn [mp_disconnect_all] in H.
  - injection H as <-. left. exact Hin.
  - bind_inv H. destruct (IH _ _ _ _ H e Hin) as [Hl|(B & t & HB & Ht & Hr)].
    + destruct (mp_disconnect_from _ _ _ _ _ E e Hl) as [Hl'|(t & Ht & Hr)]; [left; exact Hl'|].
      right. exists b, t. split; [left; reflexivity|split; assumption].
    + right. exists B, t. split; [right; exact HB|split; assumption].
Qed.

Lemma del_entry_sub es id e : In e (del_entry es id) -> In e es.
Proof.
  induction es as [|x es IH]; cbn [del_entry]; [intros []|].
  destruct (me_id x =? id); [intros H; right; exact H|]. intros [<-|H]; [left; reflexivity|right; apply IH; exact H].
Qed.

Lemma mp_connect_sub mp b now_s e : In e (mp_connect mp b now_s) -> In e mp.
Proof.
  unfold mp_connect. intros H. apply prune_spec in H. destruct H as [H _].
  revert mp H. induction (b_txs b) as [|t txs IH]; intros mp H; cbn [fold_left] in H; [exact H|].
  apply (del_entry_sub mp (tx_id t)). apply IH. exact H.
Qed.

Lemma mp_connect_all_sub conn now_s : forall mp e,
  In e (fold_left (fun m bl => mp_connect m bl now_s) conn mp) -> In e mp.
Proof.
  induction conn as [|b conn IH]; intros mp e H; cbn [fold_left] in H; [exact H|].
  apply (mp_connect_sub mp b now_s). apply IH. exact H.
Qed.

Lemma off_chain_stored fuel : forall src other h B, In B (off_chain fuel src other h) -> exists h', get_block src h' = Some B.
Proof.
  induction fuel as [|f IH]; intros src other h B Hin; cbn [off_chain] in Hin; [destruct Hin|].
  destruct (get_block src h) as [bl|] eqn:E; [|destruct Hin].
  destruct (match get_topo other (b_height bl) with Some x => x =? h | None => false end); [destruct Hin|].
  destruct Hin as [<-|Hin]; [exists h; exact E|exact (IH _ _ _ _ Hin)].
Qed.

Lemma select_txs_sub l store height es : forall totsize valid txs valid' txs',
  select_txs cfg false l store height es totsize valid txs = Ok (valid', txs') ->
  forall e, In e valid' -> In e valid \/ In e es.
Proof.
  induction es as [|e1 es IH]; intros totsize valid txs valid' txs' H e Hin; cbn [select_txs] in H.
  - injection H as <- _. left. exact Hin.
  - destruct (max_block_size cfg <? wadd totsize (me_size e1)); [injection H as <- _; left; exact Hin|].
    destruct (nget store (me_id e1)) as [t|].
    + destruct (validate_mempool_tx cfg false l store t valid height) as [u|c|c]; [| |discriminate H].
      * destruct (IH _ _ _ _ _ H e Hin) as [Hl|Hr]; [|right; right; exact Hr].
        apply in_app_or in Hl. destruct Hl as [Hl|[<-|[]]]; [left; exact Hl|right; left; reflexivity].
      * destruct (IH _ _ _ _ _ H e Hin) as [Hl|Hr]; [left; exact Hl|right; right; exact Hr].
    + destruct (IH _ _ _ _ _ H e Hin) as [Hl|Hr]; [left; exact Hl|right; right; exact Hr].
Qed.

(* ---- the four kinds of events ---- *)
Lemma wnode0_WInv g w0 : b_txs g = [] -> wnode0 cfg genesis_addr g = Ok w0 -> WInv w0.
Proof.
  intros Hg H. unfold wnode0 in H. bind_inv H. injection H as <-. rename a into n0.
  unfold node0 in E. apply apply_block_node_eq in E. destruct E as (l & ->).
  split; [intros e []|]. intros h B t. unfold get_block. cbn [wn blocks set_ldg]. unfold nget. cbn [aget].
  destruct (h =? b_hash g); [|discriminate]. intros [= <-]. rewrite Hg. intros [].
Qed.

Definition block_side (w : wnode) (b : block) : Prop :=
  Forall (fun t => tx_typed t /\ wf_tx cfg t) (b_txs b) /\
  (forall t, In t (b_txs b) -> forall t0, nget (txstore w) (tx_id t) = Some t0 -> t0 = t) /\
  (forall t t', In t (b_txs b) -> In t' (b_txs b) -> tx_id t = tx_id t' -> t = t').

Lemma wdeliver_WInv w b now now_s exp w' o amb :
  WInv w -> block_side w b -> wdeliver cfg genesis_addr team_key w b now now_s exp = (w', o, amb) -> WInv w'.
Proof.
  intros HW (Hty & Hids & Hwithin) H. unfold wdeliver in H.
  destruct (deliver cfg genesis_addr team_key (wn w) b now) as [[n1 out] amb0] eqn:E.
  destruct out as [|c|c]; [|injection H as <- _ _; exact HW|injection H as <- _ _; exact HW].
  match type of H with context [mp_disconnect_all cfg (mpool w) ?D now_s exp] => set (disc := D) in *;
    destruct (mp_disconnect_all cfg (mpool w) disc now_s exp) as [mp1|c|c] eqn:Ed end;
    [|injection H as <- _ _; exact HW|injection H as <- _ _; exact HW].
  injection H as <- _ _. destruct HW as (H1 & H2).
  (* the delivery itself *)
  unfold deliver in E. destruct (prevalidate_block cfg team_key b now) as [u|c|c] eqn:Ep; try discriminate E.
  destruct (add_block cfg genesis_addr (wn w) b) as [[n1' amb1]|c|c] eqn:Ea; try discriminate E.
  injection E as <- _. pose proof (add_block_store cfg genesis_addr _ _ _ _ Ea) as Hst. destruct u.
  split; cbn [mpool txstore wn].
  - intros e Hin. apply mp_connect_all_sub in Hin.
    destruct (mp_disconnect_all_from _ _ _ _ _ Ed e Hin) as [Hold|(B & t & HB & Ht & Hr)].
    + destruct (H1 e Hold) as (t & Hg & Hr & Ha). exists t. split; [apply store_txs_keep; exact Hg|split; assumption].
    + destruct (off_chain_stored _ _ _ _ _ HB) as (h' & Hh').
      destruct (H2 h' B t Hh' Ht) as [Hg Ha]. exists t. rewrite (entry_rel_id cfg t e Hr).
      split; [apply store_txs_keep; exact Hg|split; assumption].
  - intros h B t HB Ht. unfold get_block in HB. rewrite Hst, nget_nset in HB.
    destruct (h =? b_hash b).
    + injection HB as <-. split; [apply store_txs_in; assumption|].
      pose proof (prevalidate_txs_all cfg team_key _ _ (prevalidate_block_txs cfg team_key b now Ep)) as Hall.
      rewrite Forall_forall in Hall, Hty. destruct (Hty t Ht) as [Htt Hwf].
      exact (prevalidate_adm cfg team_key t _ Htt Hwf (Hall t Ht)).
    + destruct (H2 h B t HB Ht) as [Hg Ha]. split; [apply store_txs_keep; exact Hg|exact Ha].
Qed.

Lemma packet_tx_WInv w t now_s expires w' adm :
  tx_typed t -> wf_tx cfg t -> WInv w -> packet_tx cfg team_key false w t now_s expires = Ok (w', adm) -> WInv w'.
Proof.
  intros Hty Hwf (H1 & H2) H. unfold packet_tx in H. destruct (top_h (wn w) <? hf_v2 cfg); [discriminate H|].
  bind_inv H. destruct a. pose proof (prevalidate_adm cfg _ _ _ Hty Hwf E) as Hadm.
  unfold add_transaction in H. destruct (nget (txstore w) (tx_id t)) eqn:Est; [injection H as <- _; split; assumption|].
  bind_inv H. guard_inv H. bind_inv H. rename a0 into e1. injection H as <- _.
  split; cbn [mpool txstore wn].
  - intros e Hin. apply prune_spec in Hin. destruct Hin as [Hin _]. apply in_app_or in Hin.
    destruct Hin as [Hin|[<-|[]]].
    + destruct (H1 e Hin) as (t0 & Hg & Hr & Ha). exists t0. split; [|split; assumption].
      rewrite nget_nset. destruct (N.eqb_spec (me_id e) (tx_id t)) as [Eid|_]; [rewrite Eid in Hg; congruence|exact Hg].
    + assert (Hr : entry_rel cfg t e1) by (exists expires; assumption).
      exists t. rewrite (entry_rel_id cfg t e1 Hr). split; [apply nget_nset_same|split; assumption].
  - intros h B t0 HB Ht0. destruct (H2 h B t0 HB Ht0) as [Hg Ha]. split; [|exact Ha].
    rewrite nget_nset. destruct (N.eqb_spec (tx_id t0) (tx_id t)) as [Eid|_]; [rewrite Eid in Hg; congruence|exact Hg].
Qed.

Lemma handle_stake_sig_WInv w h did key msg w' : WInv w -> handle_stake_sig w h did key msg = Ok w' -> WInv w'.
Proof.
  intros HW H. unfold handle_stake_sig in H. guard_inv H. opt_inv H. guard_inv H. opt_inv H. guard_inv H.
  injection H as <-. exact HW.
Qed.

Lemma template_WInv w rcpt now now_s t w' : WInv w -> get_block_template cfg false w rcpt now now_s = Ok (t, w') -> WInv w'.
Proof.
  intros (H1 & H2) H. unfold get_block_template in H.
  opt_inv H. bind_inv H. bind_inv H. bind_inv H.
  match goal with p : (list mentry * list tx)%type |- _ => destruct p as [valid txs] end.
  bind_inv H. bind_inv H. bind_inv H.
  match goal with p : (N * N * option stakesig * N)%type |- _ => destruct p as [[[did nd] sg] cd] end.
  injection H as _ <-. split; cbn [mpool txstore wn set_mpool]; [|exact H2].
  intros e Hin. apply H1.
  destruct (N.of_nat (length (mpool w)) =? N.of_nat (length valid)); [exact Hin|].
  apply prune_spec in Hin. destruct Hin as [Hin _].
  match goal with Hs : select_txs _ _ _ _ _ _ _ _ _ = Ok (valid, txs) |- _ =>
    destruct (select_txs_sub _ _ _ _ _ _ _ _ _ Hs e Hin) as [[]|Hr]; exact Hr end.
Qed.

(* ---- reachable states of the wrapped node whose events satisfy the side conditions ---- *)
Inductive reachable_t (g : block) : wnode -> Prop :=
| RT_genesis w0 : wnode0 cfg genesis_addr g = Ok w0 -> reachable_t g w0
| RT_deliver w b now now_s exp w' o amb :
    reachable_t g w -> block_side w b ->
    wdeliver cfg genesis_addr team_key w b now now_s exp = (w', o, amb) -> reachable_t g w'
| RT_tx w t now_s expires w' adm :
    reachable_t g w -> tx_typed t -> wf_tx cfg t ->
    packet_tx cfg team_key false w t now_s expires = Ok (w', adm) -> reachable_t g w'
| RT_sig w h did key msg w' :
    reachable_t g w -> handle_stake_sig w h did key msg = Ok w' -> reachable_t g w'
| RT_template w rcpt now now_s t w' :
    reachable_t g w -> get_block_template cfg false w rcpt now now_s = Ok (t, w') -> reachable_t g w'.

Lemma reachable_t_reachable g w : reachable_t g w -> reachable cfg genesis_addr team_key g w.
Proof.
  induction 1.
  - apply R_genesis; assumption.
  - eapply R_deliver; eassumption.
  - eapply R_tx; eassumption.
  - eapply R_sig; eassumption.
  - eapply R_template; eassumption.
Qed.

Theorem reachable_WInv g w : b_txs g = [] -> reachable_t g w -> WInv w.
Proof.
  intros Hg. induction 1.
  - eapply wnode0_WInv; eassumption.
  - eapply wdeliver_WInv; eassumption.
  - eapply packet_tx_WInv; eassumption.
  - eapply handle_stake_sig_WInv; eassumption.
  - eapply template_WInv; eassumption.
Qed.

Theorem reachable_mp_inv g w : b_txs g = [] -> reachable_t g w -> mp_inv cfg w.
Proof. intros Hg H. apply WInv_mp_inv. exact (reachable_WInv g w Hg H). Qed.

End MempoolInv.
