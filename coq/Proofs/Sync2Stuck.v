(* Catching up across a fork (property C11), part 3: where the synchronisation mechanism does NOT make progress.

   LIVELOCK 1 (KNOWN_FINDINGS C11-long-light-fork; REPAIRED, kept as history and as the regression example
   [example_long_light_fork] of Proofs/Sync2Example.v) - two nodes, nobody lies, every request is answered.
   Before the repair the by-height part of Synchronize asked for the heights TopHeight+1 .. TopHeight+1+
   PARALLEL_BLOCKS_DOWNLOAD (50) and, when nothing arrived that moved TopHeight, started again AT TopHeight after 21
   iterations.  TopHeight is the height of OUR main chain: blocks of the peer's branch that are stored as an alternative
   chain do not move it.  The blocks above the window were only ever reached as parents of orphans, and an orphan's
   parent is below the orphan.  So when the peer's branch overtakes our chain in cumulative difficulty only MORE THAN 51
   BLOCKS ABOVE OUR OWN HEIGHT, the node stored the peer's blocks up to height TopHeight+51 as an alternative chain
   (still lighter: no reorganisation), the download queue drained, and from then on every 22 iterations the same
   request (TopHeight+1, 50) was answered with 51 duplicates: no block was ever stored again.
   Witness (verification network): our chain = genesis + 14 blocks with EQUAL timestamps (difficulty 4 4 5 6 7 9 11 14
   18 23 30 39 51 67; tip 1014, cumulative difficulty 145); peer chain = genesis + 75 blocks 15 s apart (difficulty 4;
   tip 2075, cumulative difficulty 155; 135 at height 65 = 14 + 51).  On the old model the state repeated from round
   200 on with period 22 (node tip 1014, the peer's blocks of heights 1..65 stored, queue empty); on the Go
   implementation node B had not moved after 2 x 150 s while the control (13 blocks) caught up in 27 s.
   Repair (Model/Sync.v [tick_height], blockchain.go Synchronize): when the requested blocks have not extended the main
   chain after 21 iterations they are taken for lost only if the node holds no block at the last requested height at
   all (its own height and the heights of its alternative tips are all below it); otherwise the next request
   continues ABOVE the last requested height.

   LIVELOCK 2 ([stuck_stale_target]) - one false or outdated STATS announcement.
   In the model SyncHeight / SyncDiff only ever grow.  After some peer has announced (height 100, cumulative difficulty
   1000) and delivers nothing, a node of height 5 keeps asking for the heights 6..56; an honest peer whose chain is
   heavier than ours but NOT higher (a fork below our tip, height 5) has nothing there, and the branch "heavier but not
   higher" of Synchronize is never taken because SyncHeight (100) is above our height.
   Implementation: the variant "the announcer has LEFT" (a disconnection, in the fault list of C11) was reproduced live
   (scenario stale-target-peer-gone) and is repaired (KNOWN_FINDINGS C11-stale-target-peer-gone: every Synchronize
   iteration recomputes the target from the peers that are still connected - not modelled, the model's set of peers never
   shrinks); the variant "the announcer stays connected and never delivers" is what this theorem states and remains
   true of the code (a lying peer is outside the fault list of C11).
   Consequence: [sync_fork_full] (Proofs/Sync.v), which puts no condition on the target the node has heard of, is FALSE
   ([sync_fork_full_refuted]). *)
From Coq Require Import Arith Lia.
From Virel Require Import Lib.Config Lib.U64 Lib.AMap Model.Ledger Model.Node Model.Sync Spec.Chain
  Proofs.NodeBasics Proofs.ForkChoice Proofs.ChainInv Proofs.ChainRun Proofs.ChainHeights Proofs.Sync
  Proofs.Sync2 Proofs.Sync2Refine Gen.Params.
Open Scope N_scope.

(* ------------------------------------------------------------------ building chains in the model *)
Definition k_commit (e : N) (anc : list N) : commit := mkcommit e e anc 0 0 false.
Definition k_genesis : block := genesis_block cfg_verifnet 7 1 123 (k_commit 1 [0; 0; 0]).
Definition k_now : N := 100000000.
Definition k_empty : node := mknode [] [] 0 0 0 [] ledger0.

(* the block a miner would put on top of [prev]: the difficulty GetNextDifficulty asks for, no transactions, no side
   blocks, blank stake signature, proof-of-work value 0 *)
Definition k_mine (n : node) (prev : block) (hash ts : N) : option block :=
  match get_next_difficulty cfg_verifnet n prev with
  | Ok d =>
      let h := b_height prev + 1 in
      let v := if hf_v3 cfg_verifnet <=? h then 1 else 0 in
      let anc := [b_hash prev; anc_nth (b_anc prev) 0; anc_nth (b_anc prev) 1] in
      let b0 := mkblock hash v h ts anc [] 7 0 0 true 0 0 d 0 [] [] 0 0 (k_commit hash anc) false in
      match contribution b0 with
      | Ok c => Some (mkblock hash v h ts anc [] 7 0 0 true 0 0 d (b_cd prev + c) [] [] 0 0 (k_commit hash anc) false)
      | _ => None
      end
  | _ => None
  end.

(* [k] blocks on top of [prev], hashes hash, hash+1, ..., timestamps ts, ts+dt, ... *)
Fixpoint k_build (k : nat) (n : node) (prev : block) (hash ts dt : N) (acc : list block) : list block :=
  match k with
  | O => acc
  | S k' =>
      match k_mine n prev hash ts with
      | Some b =>
          match deliver cfg_verifnet 7 0 n b k_now with
          | (n1, Accepted, _) => k_build k' n1 b (hash + 1) (ts + dt) dt (acc ++ [b])
          | _ => acc
          end
      | None => acc
      end
  end.

Definition k_n0 : node :=
  Eval vm_compute in match node0 cfg_verifnet 7 k_genesis with Ok n => n | _ => k_empty end.
Lemma k_n0_ok : node0 cfg_verifnet 7 k_genesis = Ok k_n0.
Proof. vm_compute. reflexivity. Qed.

Definition k_feed (bs : list block) : node := run cfg_verifnet 7 0 k_n0 (map (fun b => (b, k_now)) bs).

Lemma k_feed_inv bs : N.of_nat (length bs) < two64 - 1 ->
  FInv (k_feed bs) /\ chain_structure 1 (k_feed bs).
Proof.
  intros Hl. unfold k_feed. split.
  - apply run_inv. eapply node0_inv; [exact k_n0_ok|reflexivity].
  - apply (chain_structure_always cfg_verifnet 7 0 k_genesis k_n0); [exact k_n0_ok|reflexivity|reflexivity|].
    rewrite map_length. exact Hl.
Qed.

(* conversion must never try to evaluate a fed node by unfolding (vm_compute is used for that) *)
Local Strategy 1000 [k_feed].

(* a node with the chain structure serves its main chain *)
Lemma chain_structure_height_index gh n : chain_structure gh n -> height_index n.
Proof.
  intros (_ & _ & _ & _ & _ & _ & Habove & Hch). split.
  - intros h Hle. destruct (Hch h Hle) as (y & yb & Hy & Hyb & Hh & _). exists yb. unfold block_at. rewrite Hy. split; assumption.
  - intros h Hlt. unfold block_at. rewrite (Habove h Hlt). reflexivity.
Qed.

(* ------------------------------------------------------------------ generic: an eventually periodic schedule *)
Lemma srounds_add cfg ga tk peer now j : forall k s,
  srounds cfg ga tk peer now (j + k) s = srounds cfg ga tk peer now k (srounds cfg ga tk peer now j s).
Proof. induction j as [|j IH]; intros k s; [reflexivity|]. cbn [Nat.add srounds]. apply IH. Qed.

Lemma srounds_periodic cfg ga tk peer now K p s : (0 < p)%nat ->
  srounds cfg ga tk peer now (K + p) s = srounds cfg ga tk peer now K s ->
  forall m, srounds cfg ga tk peer now (K + m) s = srounds cfg ga tk peer now (K + m mod p) s.
Proof.
  intros Hp Hper m. induction m as [m IH] using lt_wf_ind.
  destruct (Nat.lt_ge_cases m p) as [Hlt|Hge].
  - rewrite Nat.mod_small by exact Hlt. reflexivity.
  - replace (K + m)%nat with ((K + p) + (m - p))%nat by lia. rewrite srounds_add, Hper, <- srounds_add.
    rewrite (IH (m - p)%nat) by lia. f_equal. f_equal.
    replace m with ((m - p) + 1 * p)%nat at 2 by lia. rewrite Nat.mod_add by lia. reflexivity.
Qed.

(* every state the schedule visits is one of the first K + p *)
Lemma srounds_finite cfg ga tk peer now K p s (Q : sync -> Prop) : (0 < p)%nat ->
  srounds cfg ga tk peer now (K + p) s = srounds cfg ga tk peer now K s ->
  (forall j, (j < K + p)%nat -> Q (srounds cfg ga tk peer now j s)) ->
  forall j, Q (srounds cfg ga tk peer now j s).
Proof.
  intros Hp Hper HQ j. destruct (Nat.lt_ge_cases j K) as [Hlt|Hge]; [apply HQ; lia|].
  replace j with (K + (j - K))%nat by lia. rewrite (srounds_periodic cfg ga tk peer now K p s Hp Hper).
  apply HQ. pose proof (Nat.mod_upper_bound (j - K) p ltac:(lia)). lia.
Qed.

Lemma forall_lt_dec (f : nat -> bool) : forall n, forallb f (seq 0 n) = true -> forall j, (j < n)%nat -> f j = true.
Proof.
  intros n H j Hj. rewrite forallb_forall in H. apply H. apply in_seq. lia.
Qed.

(* [sim] returns one of the states of the schedule *)
Lemma sim_visits cfg ga tk peer now : forall fuel s,
  exists j, fst (sim cfg ga tk fuel peer s [] now) = srounds cfg ga tk peer now j s.
Proof.
  induction fuel as [|f IH]; intros s; [exists O; reflexivity|]. cbn [sim].
  destruct (top (sy_node s) =? top peer); [exists O; reflexivity|].
  destruct (IH (sround cfg ga tk peer now s)) as (j & Hj). exists (S j). exact Hj.
Qed.

(* ------------------------------------------------------------------ the chains of (repaired) livelock 1: a long light fork *)
Definition k_ours : list block := Eval vm_compute in k_build 14 k_n0 k_genesis 1001 0 0 [].
Definition k_theirs : list block := Eval vm_compute in k_build 75 k_n0 k_genesis 2001 0 15000 [].
Definition k_B : node := k_feed k_ours.      (* our node *)
Definition k_P : node := k_feed k_theirs.    (* the peer *)

Lemma k_chains :
  length k_ours = 14%nat /\ length k_theirs = 75%nat /\
  (top k_B, top_h k_B, top_cd k_B) = (1014, 14, 145) /\
  (top k_P, top_h k_P, top_cd k_P) = (2075, 75, 155) /\
  map b_cd (firstn 1 (skipn 64 k_theirs)) = [135] /\
  map b_diff k_ours = [4; 4; 5; 6; 7; 9; 11; 14; 18; 23; 30; 39; 51; 67] /\
  forallb (fun b => b_diff b =? 4) k_theirs = true /\
  (* the peer holds a valid linear chain on top of genesis, every block of it passes prevalidation, and our node accepts
     it block by block (the last blocks with the reorganisation) *)
  linear_chain_b cfg_verifnet 7 k_n0 k_theirs = true /\
  acc_chain_b cfg_verifnet 7 k_B k_theirs = true /\
  top (apply_ext cfg_verifnet 7 k_B k_theirs) = 2075.
Proof. repeat match goal with |- _ /\ _ => split end; vm_compute; reflexivity. Qed.

(* ------------------------------------------------------------------ livelock 2: a stale or false target *)
(* our chain: genesis + 5 blocks 15 s apart (tip 3005, cumulative difficulty 15); the honest peer: genesis + 5 blocks
   with equal timestamps (tip 4005, height 5, cumulative difficulty 17: heavier, not higher, fork at genesis) *)
Definition k_ours2 : list block := Eval vm_compute in k_build 5 k_n0 k_genesis 3001 0 15000 [].
Definition k_theirs2 : list block := Eval vm_compute in k_build 5 k_n0 k_genesis 4001 0 0 [].
Definition k_B2 : node := k_feed k_ours2.
Definition k_P2 : node := k_feed k_theirs2.
Notation k_srounds2 := (srounds cfg_verifnet 7 0 k_P2 k_now).

Lemma k_chains2 :
  (top k_B2, top_h k_B2, top_cd k_B2) = (3005, 5, 15) /\ (top k_P2, top_h k_P2, top_cd k_P2) = (4005, 5, 17).
Proof. split; vm_compute; reflexivity. Qed.

(* control: with nothing but the honest peer's announcement the node adopts the peer's chain within 5 rounds *)
Lemma k_control2 : top (sy_node (k_srounds2 5 (sync0 k_B2))) = 4005.
Proof. vm_compute. reflexivity. Qed.

(* the same node after a STATS packet (height 100, cumulative difficulty 1000) from a peer that delivers nothing *)
Definition k_stale : sync := set_target (sync0 k_B2) 100 1000.
Lemma k_stale_eq : recv_stats (sync0 k_B2) 100 1000 = k_stale.
Proof. vm_compute. reflexivity. Qed.

Lemma k_period2 : k_srounds2 (22 + 22) k_stale = k_srounds2 22 k_stale.
Proof. vm_compute. reflexivity. Qed.

Lemma k_first_44 :
  forallb (fun j => let s := k_srounds2 j k_stale in
                    (top (sy_node s) =? 3005) && (length (blocks (sy_node s)) =? 6)%nat && (sy_height s =? 100) && (sy_diff s =? 1000))
          (seq 0 44) = true.
Proof. vm_compute. reflexivity. Qed.

(* in every round: the tip stays our own block 3005, nothing of the peer's branch is stored (the store keeps its 6
   blocks), the target stays the false one *)
Theorem stuck_stale_target : forall j,
  let s := k_srounds2 j k_stale in
  top (sy_node s) = 3005 /\ length (blocks (sy_node s)) = 6%nat /\ sy_height s = 100 /\ sy_diff s = 1000.
Proof.
  apply (srounds_finite cfg_verifnet 7 0 k_P2 k_now 22 22 k_stale
           (fun s => top (sy_node s) = 3005 /\ length (blocks (sy_node s)) = 6%nat /\ sy_height s = 100 /\ sy_diff s = 1000)
           ltac:(lia) k_period2).
  intros j Hj. pose proof (forall_lt_dec _ 44 k_first_44 j Hj) as H. cbn beta zeta in H.
  apply andb_prop in H. destruct H as (H & H4). apply andb_prop in H. destruct H as (H & H3).
  apply andb_prop in H. destruct H as (H1 & H2).
  apply N.eqb_eq in H1, H3, H4. apply Nat.eqb_eq in H2. repeat split; assumption.
Qed.

(* ---- hence the unrestricted statement is false ---- *)
Lemma k_linear2 : linear_chain_b cfg_verifnet 7 k_n0 k_theirs2 = true.
Proof. vm_compute. reflexivity. Qed.

Lemma k_P2_ext : k_P2 = apply_ext cfg_verifnet 7 k_n0 k_theirs2.
Proof. vm_compute. reflexivity. Qed.

Lemma k_prevalidates2 : forall b, In b k_theirs2 -> prevalidate_block cfg_verifnet 0 b k_now = Ok tt.
Proof.
  assert (H : forallb (fun b => match prevalidate_block cfg_verifnet 0 b k_now with Ok _ => true | _ => false end) k_theirs2 = true)
    by (vm_compute; reflexivity).
  rewrite forallb_forall in H. intros b Hb. specialize (H b Hb).
  destruct (prevalidate_block cfg_verifnet 0 b k_now) as [[]| |]; [reflexivity|discriminate|discriminate].
Qed.

Theorem sync_fork_full_refuted : ~ sync_fork_full cfg_verifnet 7 0.
Proof.
  intros H. unfold sync_fork_full in H.
  assert (Hl1 : N.of_nat (length k_ours2) < two64 - 1) by (vm_compute; reflexivity).
  assert (Hl2 : N.of_nat (length k_theirs2) < two64 - 1) by (vm_compute; reflexivity).
  pose proof (proj1 (k_feed_inv k_ours2 Hl1)) as HFB. change (FInv k_B2) in HFB.
  pose proof (proj2 (k_feed_inv k_theirs2 Hl2)) as HCP. change (chain_structure 1 k_P2) in HCP.
  specialize (H k_P2 k_stale k_theirs2 HFB (chain_structure_height_index 1 k_P2 HCP)).
  destruct H as (bound & Hb).
  - exists k_n0. split; [|split].
    + apply linear_chain_b_ext. exact k_linear2.
    + symmetry. exact k_P2_ext.
    + intros hh x Hx. unfold get_block in Hx. change (blocks k_n0) with [(1, k_genesis)] in Hx.
      unfold nget in Hx. cbn [aget] in Hx. destruct (N.eqb_spec hh 1) as [->|_]; [|discriminate].
      injection Hx as <-. vm_compute. reflexivity.
  - intros h b Hb. cbn [k_stale set_target sync0 sy_node] in Hb. destruct HFB as (_ & _ & Hmax).
    pose proof (Hmax h b Hb) as Hle. clear - Hle.
    assert (E1 : top_cd k_B2 = 15) by (vm_compute; reflexivity). assert (E2 : top_cd k_P2 = 17) by (vm_compute; reflexivity).
    revert Hle. generalize (b_cd b). intros c Hle. rewrite E1 in Hle. rewrite E2. lia.
  - reflexivity.
  - reflexivity.
  - specialize (Hb k_now k_prevalidates2).
    destruct (sim_visits cfg_verifnet 7 0 k_P2 k_now bound k_stale) as (j & Hj). rewrite Hj in Hb.
    destruct (stuck_stale_target j) as (Ht & _). cbn zeta in Ht.
    assert (E : top k_P2 = 4005) by (vm_compute; reflexivity).
    congruence.
Qed.

