(* Property C01, second sentence: the network-wide staked total equals the sum over all pools of their members' funds.
   Invariant  SInv l :=  delegate table ordered by database key  /\  staked l = sum over pools of (exact) fund totals,
   preserved by every ledger operation that touches stakes: stake, unstake, staker reward, delegate registration. *)
From Coq Require Import Sorting.Sorted.
From Virel Require Import Lib.Config Lib.U64 Lib.AMap Model.Emission Model.Ledger Proofs.AMapLemmas Proofs.Emission Proofs.Conservation Proofs.Staking.
Open Scope N_scope.

(* ---- the delegate table: kept in (weakly) ascending database-key order by dins ---- *)
Definition kle (a b : N * dlg) : Prop := dbkey (fst a) <= dbkey (fst b).
Definition dsorted (m : list (N * dlg)) : Prop := StronglySorted kle m.

Lemma dins_head_bound m id d x :
  (forall y, In y m -> kle x y) -> kle x (id, d) -> forall y, In y (dins m id d) -> kle x y.
Proof.
  induction m as [|[id' d'] m IH]; cbn [dins]; intros Hall Hx y Hin.
  - destruct Hin as [<-|[]]. exact Hx.
  - destruct (id =? id').
    + destruct Hin as [<-|Hin]; [exact Hx|apply Hall; right; exact Hin].
    + destruct (dbkey id <? dbkey id').
      * destruct Hin as [<-|Hin]; [exact Hx|apply Hall; exact Hin].
      * destruct Hin as [<-|Hin]; [apply Hall; left; reflexivity|].
        apply IH; [intros z Hz; apply Hall; right; exact Hz|exact Hx|exact Hin].
Qed.

Lemma dins_sorted m id d : dsorted m -> dsorted (dins m id d).
Proof.
  unfold dsorted. induction m as [|[id' d'] m IH]; cbn [dins]; intros Hs.
  - constructor; [constructor|constructor].
  - inversion Hs as [|? ? Hs' Hall]; subst. rewrite Forall_forall in Hall.
    destruct (N.eqb_spec id id') as [->|Hne].
    + constructor; [exact Hs'|]. rewrite Forall_forall. intros y Hy. exact (Hall y Hy).
    + destruct (N.ltb_spec (dbkey id) (dbkey id')) as [Hlt|Hge].
      * constructor; [exact Hs|]. rewrite Forall_forall. intros y [<-|Hy]; [unfold kle; cbn [fst]; lia|].
        unfold kle in *. cbn [fst] in *. specialize (Hall y Hy). lia.
      * constructor; [apply IH; exact Hs'|]. rewrite Forall_forall.
        apply dins_head_bound; [exact Hall|]. unfold kle. cbn [fst]. exact Hge.
Qed.

(* sum over the table of a measure of the records *)
Section Sum.
Variable f : dlg -> N.
Fixpoint dsum (m : list (N * dlg)) : N := match m with [] => 0 | (_, d) :: r => f d + dsum r end.

Lemma dsum_dins m id d : dsorted m ->
  dsum (dins m id d) + (match nget m id with Some o => f o | None => 0 end) = dsum m + f d.
Proof.
  unfold dsorted, nget. induction m as [|[id' d'] m IH]; cbn [dins dsum aget]; intros Hs.
  - lia.
  - inversion Hs as [|? ? Hs' Hall]; subst. rewrite Forall_forall in Hall.
    destruct (N.eqb_spec id id') as [->|Hne]; cbn [dsum].
    + lia.
    + destruct (N.ltb_spec (dbkey id) (dbkey id')) as [Hlt|Hge]; cbn [dsum].
      * (* inserted before: no entry with this id can follow *)
        assert (Hnone : aget N.eqb m id = None).
        { clear - Hall Hlt. induction m as [|[k v] m IHm]; cbn; [reflexivity|].
          destruct (N.eqb_spec id k) as [->|_].
          - exfalso. specialize (Hall (k, v) (or_introl eq_refl)). unfold kle in Hall. cbn [fst] in Hall. lia.
          - apply IHm. intros y Hy. apply Hall. right. exact Hy. }
        rewrite Hnone. lia.
      * specialize (IH Hs'). lia.
Qed.
End Sum.

Lemma dsum_tot_eq m : dsum tot m = sum_tot m.
Proof. induction m as [|[k d] m IH]; cbn; [reflexivity|]. rewrite IH. reflexivity. Qed.

(* ---- funds ---- *)
Definition ftot (fs : list fund) : N := fold_right (fun f acc => f_amt f + acc) 0 fs.

Lemma ftot_app a b : ftot (a ++ b) = ftot a + ftot b.
Proof. induction a as [|x a IH]; cbn; [reflexivity|]. unfold ftot in *. cbn. rewrite IH. lia. Qed.

Lemma ftot_insert_at i x fs : ftot (insert_at i x fs) = ftot fs + f_amt x.
Proof.
  unfold insert_at. rewrite <- (firstn_skipn i fs) at 3. rewrite !ftot_app.
  change (ftot (x :: skipn i fs)) with (f_amt x + ftot (skipn i fs)). lia.
Qed.

Lemma ftot_upd fs owner f nf :
  find_fund fs owner = Some f ->
  ftot (upd_fund fs owner nf) + f_amt f = ftot fs + match nf with Some x => f_amt x | None => 0 end.
Proof.
  induction fs as [|g fs IH]; cbn; [discriminate|]. intros H.
  destruct (f_owner g =? owner).
  - injection H as <-. destruct nf; unfold ftot; cbn; lia.
  - specialize (IH H). unfold ftot in *. cbn. lia.
Qed.

Lemma tot_mkdlg i o n fs : tot (mkdlg i o n fs) = ftot fs.
Proof. reflexivity. Qed.

(* every entry is filed under its own id *)
Definition keyed (m : list (N * dlg)) : Prop := Forall (fun kd => d_id (snd kd) = fst kd) m.

Lemma dins_keyed m d : keyed m -> keyed (dins m (d_id d) d).
Proof.
  unfold keyed. induction m as [|[id' d'] m IH]; cbn [dins]; intros Hk.
  - constructor; [reflexivity|constructor].
  - inversion Hk as [|? ? Hh Ht]; subst.
    destruct (d_id d =? id'); [constructor; [reflexivity|exact Ht]|].
    destruct (dbkey (d_id d) <? dbkey id'); [constructor; [reflexivity|exact Hk]|].
    constructor; [exact Hh|apply IH; exact Ht].
Qed.

Lemma nget_keyed m id d : keyed m -> nget m id = Some d -> d_id d = id.
Proof.
  unfold keyed, nget. induction m as [|[k v] m IH]; cbn [aget]; intros Hk H; [discriminate|].
  inversion Hk as [|? ? Hh Ht]; subst. cbn [fst snd] in Hh.
  destruct (N.eqb_spec id k) as [->|_]; [injection H as <-; exact Hh|apply IH; assumption].
Qed.

Lemma nget_le_sum m id d : nget m id = Some d -> tot d <= sum_tot m.
Proof.
  unfold nget. induction m as [|[k v] m IH]; cbn [aget sum_tot]; intros H; [discriminate|].
  destruct (id =? k); [injection H as <-; lia|specialize (IH H); lia].
Qed.

Lemma find_fund_le fs owner f : find_fund fs owner = Some f -> f_amt f <= ftot fs.
Proof.
  induction fs as [|g fs IH]; cbn; [discriminate|]. intros H.
  destruct (f_owner g =? owner); [injection H as <-; unfold ftot; cbn; lia|].
  specialize (IH H). unfold ftot in *. cbn. lia.
Qed.

Lemma funds_bounded fs b : ftot fs <= b -> Forall (fun f => f_amt f <= b) fs.
Proof.
  induction fs as [|g fs IH]; intros H; constructor; unfold ftot in *; cbn in H; [lia|apply IH; lia].
Qed.

(* ---- the invariant ---- *)
Definition SInv (l : ledger) : Prop :=
  dsorted (dlgs l) /\ keyed (dlgs l) /\ staked l = sum_tot (dlgs l) /\ staked l < two64.

Lemma SInv0 : SInv ledger0.
Proof. repeat split; try constructor. Qed.

Lemma stats_staked_exact l amt l' : staked l < two64 -> amt < two64 ->
  stats_staked l amt = Ok l' -> l' = set_staked l (staked l + amt) /\ staked l + amt < two64.
Proof.
  unfold stats_staked. intros Hs Ha.
  destruct (wadd (staked l) amt <? staked l) eqn:E; [discriminate|].
  destruct (wadd_nowrap_of_check _ _ Hs Ha E) as [Hw H64]. intros [= <-]. rewrite Hw. split; [reflexivity|exact H64].
Qed.

Lemma stats_unstaked_exact l amt l' : staked l < two64 -> amt < two64 ->
  stats_unstaked l amt = Ok l' -> amt <= staked l /\ l' = set_staked l (staked l - amt).
Proof.
  unfold stats_unstaked. intros Hs Ha.
  destruct (staked l <? wsub (staked l) amt) eqn:E; [discriminate|]. apply N.ltb_ge in E.
  intros [= <-].
  destruct (N.le_gt_cases amt (staked l)) as [Hle|Hgt].
  - rewrite wsub_small by assumption. split; [exact Hle|reflexivity].
  - exfalso. revert E. unfold wsub, wrap. rewrite (N.mod_small amt) by exact Ha.
    rewrite N.mod_small by lia. lia.
Qed.

(* replacing pool [d_id d] by [d]: order and filing kept, the sum moves by the difference of the totals *)
Lemma put_dlg_SInv l d :
  dsorted (dlgs l) -> keyed (dlgs l) ->
  dsorted (dlgs (put_dlg l d)) /\ keyed (dlgs (put_dlg l d)) /\
  sum_tot (dlgs (put_dlg l d)) + (match get_dlg l (d_id d) with Some o => tot o | None => 0 end) = sum_tot (dlgs l) + tot d.
Proof.
  intros Hs Hk. unfold put_dlg, get_dlg. cbn [dlgs set_dlgs].
  split; [apply dins_sorted; exact Hs|]. split; [apply dins_keyed; exact Hk|].
  rewrite <- !dsum_tot_eq. apply (dsum_dins tot); exact Hs.
Qed.

(* the generic step: pool [x] (found under [id]) is replaced by a record of the same id whose total differs by the same
   amount as the new staked total *)
Lemma replace_SInv_gen l (x : dlg) id (d' : dlg) (s' : N) (l0 : ledger) :
  SInv l -> get_dlg l id = Some x -> d_id d' = d_id x ->
  dlgs l0 = dlgs l -> staked l0 = s' ->
  s' + tot x = staked l + tot d' -> s' < two64 ->
  SInv (put_dlg l0 d').
Proof.
  intros (Hsort & Hkey & Hsum & H64) Hg Hi Hd Hs Hbal Hs64.
  pose proof (nget_keyed _ _ _ Hkey Hg) as Hid.
  assert (Hsort0 : dsorted (dlgs l0)) by (rewrite Hd; exact Hsort).
  assert (Hkey0 : keyed (dlgs l0)) by (rewrite Hd; exact Hkey).
  destruct (put_dlg_SInv l0 d' Hsort0 Hkey0) as (S1 & S2 & S3).
  assert (Hg0 : get_dlg l0 (d_id d') = Some x) by (unfold get_dlg; rewrite Hd, Hi, Hid; exact Hg).
  rewrite Hg0, Hd in S3.
  split; [exact S1|]. split; [exact S2|].
  assert (Hst : staked (put_dlg l0 d') = s') by (cbn [staked put_dlg set_dlgs]; exact Hs).
  rewrite Hst. split; [lia|exact Hs64].
Qed.

Lemma replace_SInv l (x : dlg) id fs' (s' : N) (l0 : ledger) :
  SInv l -> get_dlg l id = Some x ->
  dlgs l0 = dlgs l -> staked l0 = s' ->
  s' + ftot (d_funds x) = staked l + ftot fs' -> s' < two64 ->
  SInv (put_dlg l0 (mkdlg (d_id x) (d_owner x) (d_name x) fs')).
Proof.
  intros HI Hg Hd Hs Hbal Hs64.
  apply (replace_SInv_gen l x id _ s' l0 HI Hg); [reflexivity|exact Hd|exact Hs|exact Hbal|exact Hs64].
Qed.

(* a stake raises the pool's total and the staked total by the staked amount *)
Lemma apply_stake_SInv cfg l amt id pu signer top_h txid rev l' :
  SInv l -> amt < two64 ->
  apply_stake cfg l amt id pu signer top_h txid rev = Ok l' -> SInv l' /\ staked l' = staked l + amt.
Proof.
  intros HI Ha64 H. pose proof HI as (Hsort & Hkey & Hsum & Hs64). unfold apply_stake in H.
  opt_inv H. bind_inv H. bind_inv H. injection H as <-.
  destruct (stats_staked_exact _ _ _ Hs64 Ha64 E1) as [-> H64].
  pose proof (nget_le_sum _ _ _ E) as Hle. change (tot x) with (ftot (d_funds x)) in Hle.
  assert (Hf : ftot a = ftot (d_funds x) + amt).
  { destruct (find_fund (d_funds x) signer) as [f|] eqn:Ef.
    - guard_inv E0. opt_inv E0. injection E0 as <-.
      pose proof (ftot_upd (d_funds x) signer f (Some (mkfund signer x0 (if rev then f_unlock f else wadd top_h (unlock_time cfg)))) Ef) as Hu.
      cbn [f_amt] in Hu. pose proof (find_fund_le _ _ _ Ef) as Hfl.
      apply safe_add_some in E2; [|lia|exact Ha64]. lia.
    - injection E0 as <-.
      destruct (if rev then saved_fund l txid (d_id x) signer else None) as [[u i]|].
      + rewrite ftot_insert_at. cbn [f_amt]. lia.
      + rewrite ftot_app. unfold ftot at 2. cbn. lia. }
  split; [|reflexivity].
  apply (replace_SInv l x id a (staked l + amt)); [exact HI|exact E|reflexivity|reflexivity|lia|exact H64].
Qed.

(* an unstake lowers both by the unstaked amount *)
Lemma apply_unstake_SInv l amt id signer top_h txid rev pu l' :
  SInv l -> amt < two64 ->
  apply_unstake l amt id signer top_h txid rev pu = Ok l' -> SInv l' /\ staked l' + amt = staked l.
Proof.
  intros HI Ha64 H. pose proof HI as (Hsort & Hkey & Hsum & Hs64). unfold apply_unstake in H.
  opt_inv H. opt_inv H. guard_inv H. guard_inv H. bind_inv H. injection H as <-.
  apply Bool.negb_true_iff in G0. apply N.ltb_ge in G0.
  match type of E1 with stats_unstaked ?L _ = _ => set (l0 := L) in * end.
  assert (Hst0 : staked l0 = staked l) by (unfold l0; destruct (_ && _); reflexivity).
  assert (Hd0 : dlgs l0 = dlgs l) by (unfold l0; destruct (_ && _); reflexivity).
  destruct (stats_unstaked_exact l0 amt a ltac:(rewrite Hst0; exact Hs64) Ha64 E1) as [Hle ->].
  match goal with |- context [upd_fund _ _ ?NF] => set (nf := NF) end.
  pose proof (ftot_upd (d_funds x) signer x0 nf E0) as Hu.
  assert (Hnf : match nf with Some y => f_amt y | None => 0 end = f_amt x0 - amt).
  { unfold nf. destruct (N.eqb_spec (f_amt x0 - amt) 0) as [Ez|Ez]; [lia|reflexivity]. }
  rewrite Hnf in Hu.
  pose proof (nget_le_sum _ _ _ E) as Hle2. change (tot x) with (ftot (d_funds x)) in Hle2.
  pose proof (find_fund_le _ _ _ E0) as Hfl.
  split.
  - apply (replace_SInv l x id _ (staked l0 - amt)); [exact HI|exact E|exact Hd0|reflexivity|lia|lia].
  - cbn [staked put_dlg set_dlgs set_staked]. lia.
Qed.

(* registering a delegate (no funds) changes neither *)
Lemma register_SInv l id owner name :
  SInv l -> get_dlg l id = None -> SInv (put_dlg l (mkdlg id owner name [])).
Proof.
  intros (Hsort & Hkey & Hsum & H64) Hn.
  destruct (put_dlg_SInv l (mkdlg id owner name []) Hsort Hkey) as (S1 & S2 & S3).
  cbn [d_id] in S3. rewrite Hn in S3. split; [exact S1|]. split; [exact S2|].
  cbn [staked put_dlg set_dlgs]. unfold tot in S3. cbn [d_funds fold_right] in S3. split; [lia|exact H64].
Qed.

(* ---- staker rewards ---- *)
Lemma total_amount_from_ok fs : forall t r, t < two64 -> Forall (fun f => f_amt f < two64) fs ->
  total_amount_from fs t = Ok r -> r = t + ftot fs /\ r < two64.
Proof.
  induction fs as [|f fs IH]; intros t r Ht Hb H; cbn [total_amount_from] in H.
  - injection H as <-. unfold ftot. cbn. split; [lia|exact Ht].
  - inversion Hb as [|? ? Hf Hb']; subst.
    destruct (wadd t (f_amt f) <? t) eqn:Ec; [discriminate|].
    destruct (wadd_nowrap_of_check _ _ Ht Hf Ec) as [Hw H64]. rewrite Hw in H.
    destruct (IH _ _ H64 Hb' H) as [-> Hr]. split; [|exact Hr]. unfold ftot. cbn. lia.
Qed.

Lemma upd_fund_Forall (P : fund -> Prop) fs owner nf :
  Forall P fs -> (match nf with Some x => P x | None => True end) -> Forall P (upd_fund fs owner nf).
Proof.
  induction fs as [|g fs IH]; cbn [upd_fund]; intros Hf Hn; [constructor|].
  inversion Hf as [|? ? Hg Hf']; subst.
  destruct (f_owner g =? owner); [destruct nf; [constructor; assumption|exact Hf']|].
  constructor; [exact Hg|apply IH; assumption].
Qed.

Lemma Forall_lt_of_le fs b : Forall (fun f => f_amt f <= b) fs -> b < two64 -> Forall (fun f => f_amt f < two64) fs.
Proof. intros H Hb. eapply Forall_impl; [|exact H]. cbn. intros; lia. Qed.

Lemma safe_add_lt a b r : safe_add a b = Some r -> r < two64.
Proof. unfold safe_add. destruct (wadd a b <? a); [discriminate|]. intros [= <-]. apply wrap_lt. Qed.

Lemma apply_pos_reward_SInv l bh o l' :
  SInv l -> o_amt o < two64 ->
  apply_pos_reward l bh o = Ok l' -> SInv l' /\ staked l' = staked l + o_amt o.
Proof.
  intros HI Ho64 H. pose proof HI as (Hsort & Hkey & Hsum & Hs64). unfold apply_pos_reward in H.
  guard_inv H. opt_inv H. guard_inv H. bind_inv H. guard_inv H. bind_inv H.
  match goal with p : (list fund * N)%type |- _ => destruct p as [funds1 added] end.
  guard_inv H. bind_inv H. bind_inv H. guard_inv H. bind_inv H. injection H as <-.
  match goal with Hg : (_ =? wadd _ (o_amt o)) = true |- _ => apply N.eqb_eq in Hg; rename Hg into Htot end.
  match goal with Hd : get_dlg l (o_extra o) = Some ?d |- _ => rename d into dd; rename Hd into Hget end.
  pose proof (nget_le_sum _ _ _ Hget) as Hle. change (tot dd) with (ftot (d_funds dd)) in Hle.
  assert (Hb0 : Forall (fun f => f_amt f < two64) (d_funds dd)).
  { apply (Forall_lt_of_le _ (ftot (d_funds dd))); [apply funds_bounded; lia|lia]. }
  match goal with Ht : total_amount dd = Ok ?t |- _ =>
    destruct (total_amount_from_ok _ 0 t two64_pos Hb0 Ht) as [Ht0 _]; rename t into total end.
  rewrite N.add_0_l in Ht0.
  match goal with Hs : stats_staked ?L _ = Ok _ |- _ =>
    destruct (stats_staked_exact L (o_amt o) _ Hs64 Ho64 Hs) as [-> H64] end.
  cbn [staked set_dhist] in H64 |- *.
  match goal with Hpd : pos_distribute _ _ _ _ = Ok _ |- _ =>
    destruct (pos_distribute_spec _ _ _ _ _ Hpd) as (Hf1 & _ & _); cbn [fst] in Hf1 end.
  assert (Hb1 : Forall (fun f => f_amt f < two64) funds1).
  { rewrite Hf1. apply Forall_forall. intros f Hin. apply in_map_iff in Hin. destruct Hin as (g & <- & _).
    cbn [f_amt]. apply wrap_lt. }
  match goal with Ht2 : total_amount (mkdlg _ _ _ ?F2) = Ok ?t2 |- _ => rename F2 into funds2; rename t2 into total2; rename Ht2 into Htot2 end.
  assert (Hb2 : Forall (fun f => f_amt f < two64) funds2).
  { match goal with Hm : match find_fund funds1 ?ow with _ => _ end = Ok funds2 |- _ =>
      destruct (find_fund funds1 ow) as [f|]; [opt_inv Hm; injection Hm as <-|injection Hm as <-] end.
    - apply upd_fund_Forall; [exact Hb1|]. cbn [f_amt].
      match goal with Hsa : safe_add _ _ = Some _ |- _ => exact (safe_add_lt _ _ _ Hsa) end.
    - apply Forall_app. split; [exact Hb1|]. constructor; [|constructor]. cbn [f_amt]. lia. }
  destruct (total_amount_from_ok _ 0 total2 two64_pos Hb2 Htot2) as [Ht2 _]. rewrite N.add_0_l in Ht2. cbn [d_funds] in Ht2.
  rewrite wadd_small in Htot by lia.
  split; [|reflexivity].
  apply (replace_SInv l dd (o_extra o) funds2 (staked l + o_amt o)); [exact HI|exact Hget|reflexivity|reflexivity|lia|exact H64].
Qed.

(* ---- the parts of the ledger the invariant speaks about ---- *)
Lemma SInv_ext l l' : dlgs l' = dlgs l -> staked l' = staked l -> SInv l -> SInv l'.
Proof. unfold SInv. intros -> ->. exact (fun H => H). Qed.

Lemma ds_apply_inputs ins : forall l l', apply_inputs l ins = Ok l' -> dlgs l' = dlgs l /\ staked l' = staked l.
Proof.
  induction ins as [|[amt sender] ins IH]; intros l l' H; cbn [apply_inputs] in H.
  - injection H as <-. split; reflexivity.
  - opt_inv H. guard_inv H. destruct (IH _ _ H) as [-> ->]. split; reflexivity.
Qed.

Lemma ds_remove_inputs ins : forall l l', remove_inputs l ins = Ok l' -> dlgs l' = dlgs l /\ staked l' = staked l.
Proof.
  induction ins as [|[amt sender] ins IH]; intros l l' H; cbn [remove_inputs] in H.
  - injection H as <-. split; reflexivity.
  - opt_inv H. opt_inv H. destruct (IH _ _ H) as [-> ->]. split; reflexivity.
Qed.

Lemma ds_remove_outputs_nopos outs : forall l bh,
  Forall (fun o => (o_type o =? OUT_COINBASE_POS) = false) outs ->
  dlgs (fst (remove_outputs l bh outs)) = dlgs l /\ staked (fst (remove_outputs l bh outs)) = staked l.
Proof.
  induction outs as [|o outs IH]; intros l bh Hnp; cbn [remove_outputs]; [split; reflexivity|].
  inversion Hnp as [|? ? Ho Hnp']; subst.
  destruct (get_state l (o_rcpt o)) as [st|]; [|split; reflexivity].
  destruct (bal st <? o_amt o); [split; reflexivity|].
  destruct (inc st =? 0); [split; reflexivity|]. rewrite Ho.
  match goal with |- context [remove_outputs ?L bh outs] => destruct (IH L bh Hnp') as [-> ->] end.
  split; reflexivity.
Qed.

Lemma apply_outputs_SInv outs : forall l bh txid,
  SInv l -> Forall (fun o => o_amt o < two64) outs -> SInv (fst (apply_outputs l bh outs txid)).
Proof.
  induction outs as [|o outs IH]; intros l bh txid HI Hb; cbn [apply_outputs]; [exact HI|].
  inversion Hb as [|? ? Ho Hb']; subst.
  destruct (safe_add _ (o_amt o)) as [b|]; [|exact HI].
  match goal with |- context [put_state ?L1 ?A ?S] => set (l2 := put_state L1 A S) end.
  assert (HI2 : SInv l2) by (apply (SInv_ext l); [reflexivity|reflexivity|exact HI]).
  destruct (o_type o =? OUT_COINBASE_POS); [|apply IH; assumption].
  destruct (apply_pos_reward l2 bh o) as [l3|c|c] eqn:Er; [|exact HI2|exact HI2].
  apply IH; [|exact Hb']. apply (apply_pos_reward_SInv l2 bh o l3 HI2 Ho Er).
Qed.

(* removing a pool without funds *)
Lemma ndel_SInv l id d : SInv l -> get_dlg l id = Some d -> d_funds d = [] -> SInv (del_dlg l id).
Proof.
  intros (Hsort & Hkey & Hsum & H64) Hg Hf. unfold del_dlg, SInv. cbn [dlgs staked set_dlgs].
  unfold get_dlg, nget, ndel in *. rewrite Hsum in H64 |- *. clear Hsum.
  assert (H : dsorted (adel N.eqb (dlgs l) id) /\ keyed (adel N.eqb (dlgs l) id) /\
              sum_tot (dlgs l) = sum_tot (adel N.eqb (dlgs l) id)).
  { clear H64. unfold dsorted, keyed in *. induction (dlgs l) as [|[k v] m IH]; cbn [aget adel] in *; [discriminate|].
    inversion Hsort as [|? ? Hs' Hall]; subst. inversion Hkey as [|? ? Hh Ht]; subst.
    destruct (id =? k).
    - injection Hg as ->. split; [exact Hs'|]. split; [exact Ht|]. cbn [sum_tot]. unfold tot. rewrite Hf. cbn. lia.
    - destruct (IH Hs' Ht Hg) as (I1 & I2 & I3). split; [|split].
      + constructor; [exact I1|]. rewrite Forall_forall in *. intros y Hy. apply Hall.
        clear - Hy. induction m as [|[k' v'] m IHm]; cbn [adel] in Hy; [exact Hy|].
        destruct (id =? k'); [right; exact Hy|]. destruct Hy as [<-|Hy]; [left; reflexivity|right; apply IHm; exact Hy].
      + constructor; assumption.
      + cbn [sum_tot]. rewrite I3. reflexivity. }
  destruct H as (H1 & H2 & H3). split; [exact H1|]. split; [exact H2|]. split; [exact H3|exact H64].
Qed.

(* ---- transactions, blocks, chains ---- *)
Section Lift.
Variable cfg : config.
Variable genesis_addr : N.

Lemma state_outputs_bounded t signer outs :
  wf_tx cfg t -> state_outputs cfg t signer = Ok outs -> Forall (fun o => o_amt o < two64) outs.
Proof.
  intros (Hfee & Hwd & Hburn) H. unfold state_outputs in H.
  destruct (tx_data t) as [os|nl name id|nw pv|a id pu|a id]; cbn [wf_data] in Hwd.
  - injection H as <-. apply Forall_forall. intros o Hin. apply in_map_iff in Hin. destruct Hin as (x & <- & Hx).
    cbn [o_amt]. rewrite Forall_forall in Hwd. exact (Hwd x Hx).
  - injection H as <-. repeat constructor. exact Hburn.
  - injection H as <-. constructor.
  - injection H as <-. repeat constructor. exact Hwd.
  - destruct (a <? tx_fee t); [discriminate|]. injection H as <-. repeat constructor. cbn [o_amt]. apply wrap_lt.
Qed.

Lemma state_outputs_nopos t signer outs :
  state_outputs cfg t signer = Ok outs -> Forall (fun o => (o_type o =? OUT_COINBASE_POS) = false) outs.
Proof.
  intros H. unfold state_outputs in H.
  destruct (tx_data t) as [os|nl name id|nw pv|a id pu|a id].
  - injection H as <-. apply Forall_forall. intros o Hin. apply in_map_iff in Hin. destruct Hin as (x & <- & _). reflexivity.
  - injection H as <-. repeat constructor.
  - injection H as <-. constructor.
  - injection H as <-. repeat constructor.
  - destruct (a <? tx_fee t); [discriminate|]. injection H as <-. repeat constructor.
Qed.

(* ApplyTxToState keeps the invariant *)
Lemma apply_tx_SInv l t h bh top_h l' :
  SInv l -> wf_tx cfg t -> apply_tx cfg l t h bh top_h = Ok l' -> SInv l'.
Proof.
  intros HI Hwf H. unfold apply_tx in H.
  opt_inv H. guard_inv H. bind_inv H.
  match goal with p : (ledger * acct)%type |- _ => destruct p as [l1 st1] end.
  bind_inv H. bind_inv H. injection H as <-.
  assert (HI1 : SInv l1).
  { destruct Hwf as (_ & Hwd & _).
    match goal with Ek : match tx_data t with _ => _ end = Ok (l1, st1) |- _ => rename Ek into E0' end.
    destruct (tx_data t) as [os|nl name id|nw pv|sa id pu|sa id]; cbn [wf_data] in Hwd.
    - injection E0' as <- <-. exact HI.
    - destruct (tx_version t =? 2); [|injection E0' as <- <-; exact HI].
      guard_inv E0'. injection E0' as <- <-. apply register_SInv; [exact HI|].
      destruct (get_dlg l id); [discriminate|reflexivity].
    - destruct (tx_version t =? 3); [|injection E0' as <- <-; exact HI].
      guard_inv E0'. guard_inv E0'. guard_inv E0'. injection E0' as <- <-. exact HI.
    - destruct (tx_version t =? 4); [|injection E0' as <- <-; exact HI].
      guard_inv E0'. guard_inv E0'. bind_inv E0'. injection E0' as <- <-.
      match goal with Es : apply_stake _ _ _ _ _ _ _ _ _ = Ok _ |- _ => exact (proj1 (apply_stake_SInv _ _ _ _ _ _ _ _ _ _ HI Hwd Es)) end.
    - destruct (tx_version t =? 5); [|injection E0' as <- <-; exact HI].
      guard_inv E0'. guard_inv E0'. bind_inv E0'. injection E0' as <- <-.
      match goal with Es : apply_unstake _ _ _ _ _ _ _ _ = Ok _ |- _ => exact (proj1 (apply_unstake_SInv _ _ _ _ _ _ _ _ _ HI Hwd Es)) end. }
  match goal with Ei : apply_inputs ?L2 _ = Ok ?l3 |- _ =>
    destruct (ds_apply_inputs _ _ _ Ei) as [Hd3 Hs3];
    assert (HI3 : SInv l3) by (apply (SInv_ext l1); [rewrite Hd3; reflexivity|rewrite Hs3; reflexivity|exact HI1]) end.
  match goal with Eo : state_outputs _ _ _ = Ok ?o |- _ => pose proof (state_outputs_bounded _ _ _ Hwf Eo) as Hob end.
  match goal with |- context [apply_outputs ?L3 bh ?o (tx_id t)] =>
    pose proof (apply_outputs_SInv o L3 bh (tx_id t) HI3 Hob) as HI4 end.
  eapply SInv_ext; [| |exact HI4]; reflexivity.
Qed.

Lemma apply_txs_SInv txs : forall l h bh top_h fee l' fee',
  SInv l -> Forall (wf_tx cfg) txs -> apply_txs cfg l txs h bh top_h fee = Ok (l', fee') -> SInv l'.
Proof.
  induction txs as [|t txs IH]; intros l h bh top_h fee l' fee' HI Hwf H; cbn [apply_txs] in H.
  - injection H as <- _. exact HI.
  - inversion Hwf as [|? ? Ht Hwf']; subst. bind_inv H. guard_inv H.
    eapply IH; [|exact Hwf'|exact H]. eapply apply_tx_SInv; eassumption.
Qed.

(* RemoveTxFromState keeps the invariant *)
Lemma remove_tx_SInv l t bh top_h l' :
  SInv l -> wf_tx cfg t -> remove_tx cfg l t bh top_h = Ok l' -> SInv l'.
Proof.
  intros HI Hwf H. unfold remove_tx in H.
  bind_inv H. bind_inv H. opt_inv H. guard_inv H. guard_inv H. bind_inv H.
  match goal with p : (ledger * acct)%type |- _ => destruct p as [l3 st2] end.
  injection H as <-.
  match goal with Eo : state_outputs _ _ _ = Ok ?o |- _ => pose proof (state_outputs_nopos _ _ _ Eo) as Hnp end.
  match goal with Ei : remove_inputs (fst (remove_outputs ?L0 bh ?o)) _ = Ok ?l2 |- _ =>
    destruct (ds_remove_inputs _ _ _ Ei) as [Hd2 Hs2];
    destruct (ds_remove_outputs_nopos o L0 bh Hnp) as [Hd1 Hs1];
    assert (HI2 : SInv l2) by (apply (SInv_ext l); [rewrite Hd2, Hd1; reflexivity|rewrite Hs2, Hs1; reflexivity|exact HI]);
    rename l2 into ll2 end.
  apply (SInv_ext l3); [reflexivity|reflexivity|].
  destruct Hwf as (_ & Hwd & _).
  match goal with Ek : match tx_data t with _ => _ end = Ok (l3, st2) |- _ => rename Ek into E0' end.
  destruct (tx_data t) as [os|nl name id|nw pv|sa id pu|sa id]; cbn [wf_data] in Hwd.
  - injection E0' as <- <-. exact HI2.
  - destruct (tx_version t =? 2); [|injection E0' as <- <-; exact HI2].
    opt_inv E0'. guard_inv E0'. injection E0' as <- <-.
    match goal with Hg : get_dlg ll2 id = Some ?d |- _ => apply (ndel_SInv ll2 id d HI2 Hg) end.
    match goal with G : (N.of_nat (length ?fs) =? 0) = true |- _ => apply N.eqb_eq in G; destruct fs; [reflexivity|discriminate] end.
  - destruct (tx_version t =? 3); [|injection E0' as <- <-; exact HI2].
    guard_inv E0'. guard_inv E0'. injection E0' as <- <-. exact HI2.
  - destruct (tx_version t =? 4); [|injection E0' as <- <-; exact HI2].
    guard_inv E0'. guard_inv E0'. bind_inv E0'. injection E0' as <- <-.
    match goal with Es : apply_unstake _ _ _ _ _ _ _ _ = Ok _ |- _ => exact (proj1 (apply_unstake_SInv _ _ _ _ _ _ _ _ _ HI2 Hwd Es)) end.
  - destruct (tx_version t =? 5); [|injection E0' as <- <-; exact HI2].
    guard_inv E0'. guard_inv E0'. bind_inv E0'. injection E0' as <- <-.
    match goal with Es : apply_stake _ _ _ _ _ _ _ _ _ = Ok _ |- _ => exact (proj1 (apply_stake_SInv _ _ _ _ _ _ _ _ _ _ HI2 Hwd Es)) end.
Qed.

Hypothesis Hok : cfg_ok_emission cfg = true.

Lemma souts_bounded outs b : sum_souts outs <= b -> Forall (fun o => o_amt o <= b) outs.
Proof.
  induction outs as [|o outs IH]; intros H; constructor; unfold sum_souts in *; cbn [fold_right] in H; [lia|apply IH; lia].
Qed.

(* ApplyBlockToState keeps the invariant *)
Lemma apply_block_SInv l b top_h l' :
  total_bal l + reward cfg (lb_height b) <= max_supply cfg ->
  Forall (tx_ok cfg) (lb_txs b) -> SInv l ->
  apply_block cfg genesis_addr l b top_h = Ok l' -> SInv l'.
Proof.
  destruct (ok_facts cfg Hok) as ((HRI & HRI64) & H9 & Hms & Hms64 & _).
  intros Hb Htx HI H. unfold apply_block in H.
  bind_inv H. clear E. bind_inv H. destruct a0 as [l1 fee].
  assert (Hl64 : total_bal l < two64) by lia.
  destruct (apply_txs_total cfg (lb_txs b) l (lb_height b) (lb_hash b) top_h 0 l1 fee Hl64 two64_pos Htx E) as [Ht1 Hfee64].
  assert (Hwf : Forall (wf_tx cfg) (lb_txs b)) by (eapply Forall_impl; [|exact Htx]; intros t [Hw _]; exact Hw).
  pose proof (apply_txs_SInv (lb_txs b) l _ _ _ _ _ _ HI Hwf E) as HI1.
  guard_inv H. apply Bool.negb_true_iff in G.
  pose proof (reward_le_BR cfg Hok (lb_height b)) as HrBR.
  destruct (wadd_nowrap_of_check (reward cfg (lb_height b)) fee ltac:(lia) Hfee64 G) as [Hw Hw64].
  rewrite Hw in H. bind_inv H.
  destruct (sum_souts_coinbase _ _ _ _ _ E0) as (cb & Ecb & Hsum).
  assert (Hver : lb_version b <= 1).
  { unfold coinbase in Ecb. destruct (N.eqb_spec (lb_version b) 0) as [->|?]; [lia|].
    destruct (N.eqb_spec (lb_version b) 1) as [->|?]; [lia|discriminate]. }
  destruct (coinbase_sum cfg Hok (lb_version b) (lb_signed b) (reward cfg (lb_height b) + fee) Hver ltac:(lia))
    as (cb' & Ecb' & Hs' & _).
  rewrite Ecb in Ecb'. injection Ecb' as <-.
  assert (Hob : Forall (fun o => o_amt o < two64) a0).
  { eapply Forall_impl; [|apply (souts_bounded a0 (reward cfg (lb_height b) + fee)); lia]. cbn. intros; lia. }
  pose proof (apply_outputs_SInv a0 l1 (lb_hash b) (lb_hash b) HI1 Hob) as HI2.
  destruct (apply_outputs l1 (lb_hash b) a0 (lb_hash b)) as [l2 e].
  destruct e as [[u|c|c]|]; try discriminate H. injection H as <-. exact HI2.
Qed.

(* every ledger reached by applying a chain of blocks to a ledger that satisfies the invariant (in particular the
   empty one) satisfies it *)
Lemma apply_chain_SInv bs : forall l (h : nat) l',
  total_bal l = sum_rewards cfg h -> heights_from h bs ->
  Forall (fun b => Forall (tx_ok cfg) (lb_txs b)) bs -> SInv l ->
  apply_chain cfg genesis_addr l bs = Ok l' -> SInv l'.
Proof.
  induction bs as [|b bs IH]; intros l h l' Ht Hh Hok' HI H; cbn [apply_chain] in H.
  - injection H as <-. exact HI.
  - destruct Hh as [Hhb Hh]. inversion Hok' as [|? ? Hb Hbs]; subst.
    bind_inv H.
    assert (Hroom : total_bal l + reward cfg (lb_height b) <= max_supply cfg).
    { rewrite Ht, Hhb. change (sum_rewards cfg h + reward cfg (N.of_nat (S h))) with (sum_rewards cfg (S h)).
      apply (sum_rewards_le_max cfg Hok). }
    assert (Hstep : total_bal a = sum_rewards cfg (S h)).
    { rewrite (apply_block_total cfg genesis_addr Hok _ _ _ _ Hroom Hb E). rewrite Ht, Hhb. reflexivity. }
    apply (IH a (S h) l' Hstep Hh Hbs); [|exact H].
    exact (apply_block_SInv _ _ _ _ Hroom Hb HI E).
Qed.
End Lift.

(* the delegate-history entry consulted by RemoveBlockFromState: when it holds the pool as it was before the reward
   (which is what ApplyPosReward stored there), undoing the reward keeps the invariant *)
Lemma remove_pos_reward_SInv l bh o l' :
  SInv l -> o_amt o < two64 ->
  (forall d old, get_dlg l (o_extra o) = Some d -> nget (dhist l) bh = Some old -> tot old + o_amt o = tot d) ->
  remove_pos_reward l bh o = Ok l' -> SInv l' /\ staked l' + o_amt o = staked l.
Proof.
  intros HI Ho64 Hbal H. pose proof HI as (Hsort & Hkey & Hsum & Hs64). unfold remove_pos_reward in H.
  guard_inv H. opt_inv H. guard_inv H. opt_inv H. guard_inv H. bind_inv H. injection H as <-.
  match goal with Hg : (_ && _) = true |- _ => apply andb_prop in Hg; destruct Hg as [Gi Go]; apply N.eqb_eq in Gi end.
  match goal with Hg : get_dlg l (o_extra o) = Some ?d |- _ => rename d into dd; rename Hg into Hget end.
  match goal with Hh : nget (dhist l) bh = Some ?d |- _ => rename d into old; rename Hh into Hold end.
  specialize (Hbal dd old eq_refl eq_refl).
  match goal with Hs : stats_unstaked l _ = Ok _ |- _ => destruct (stats_unstaked_exact l (o_amt o) _ Hs64 Ho64 Hs) as [Hle ->] end.
  pose proof (nget_le_sum _ _ _ Hget) as Hle2.
  split; [|cbn [staked put_dlg set_dlgs set_staked]; lia].
  apply (replace_SInv_gen l dd (o_extra o) old (staked l - o_amt o)); [exact HI|exact Hget|exact Gi|reflexivity|reflexivity|lia|lia].
Qed.
