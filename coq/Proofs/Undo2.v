(* Property C03, lemma B of DESIGN.md, second part: the undo theorems of Proofs/Undo.v lifted to lists of
   transactions (ApplyTxToState over a block's transactions, then RemoveTxFromState in reverse order) and to whole
   blocks (ApplyBlockToState then RemoveBlockFromState, including the staker reward of the coinbase).
   The lifting is generic in
     Rd   : the relation in which the delegate table is restored (instantiated with equality; before the repair of
            finding R21 only equality up to the order of the funds inside each pool held in general),
     Inv  : an invariant of the ledgers the block is applied to,
     Side : a side condition on each transaction, evaluated on the ledger it is applied to. *)
From Coq Require Import Sorting.Sorted.
From Virel Require Import Lib.Config Lib.U64 Lib.AMap Model.Emission Model.Ledger
  Proofs.AMapLemmas Proofs.Emission Proofs.Conservation Proofs.Pointwise Proofs.Staking Proofs.StakedSum Proofs.Undo.
Open Scope N_scope.
Open Scope bool_scope.

(* ------------------------------------------------------------------------------------------------------------ *)
(* frames *)

Lemma ds_apply_outputs_nopos outs : forall l bh txid, no_pos outs ->
  dlgs (fst (apply_outputs l bh outs txid)) = dlgs l /\ staked (fst (apply_outputs l bh outs txid)) = staked l.
Proof.
  induction outs as [|o outs IH]; intros l bh txid Hnp; cbn [apply_outputs]; [split; reflexivity|].
  inversion Hnp as [|? ? Ho Hnp']; subst.
  destruct (safe_add _ (o_amt o)); [|split; reflexivity]. rewrite Ho.
  match goal with |- context [apply_outputs ?L bh outs txid] => destruct (IH L bh txid Hnp') as [-> ->] end.
  split; reflexivity.
Qed.

Lemma pos_reward_dhist l bh o l1 k :
  apply_pos_reward l bh o = Ok l1 -> k <> bh -> nget (dhist l1) k = nget (dhist l) k.
Proof.
  intros H Hk. unfold apply_pos_reward in H.
  guard_inv H. opt_inv H. guard_inv H. bind_inv H. guard_inv H. bind_inv H.
  match goal with p : (list fund * N)%type |- _ => destruct p as [funds1 added] end.
  guard_inv H. bind_inv H. bind_inv H. guard_inv H. bind_inv H. injection H as <-.
  cbn [put_dlg set_dlgs dhist].
  match goal with Hs : stats_staked _ _ = Ok _ |- _ => rewrite (dhist_stats_staked _ _ _ Hs) end.
  cbn [dhist set_dhist]. apply nget_nset_other. exact Hk.
Qed.

(* ------------------------------------------------------------------------------------------------------------ *)
(* outputs that may contain one staker reward (the coinbase) *)
Definition is_pos (o : sout) : bool := o_type o =? OUT_COINBASE_POS.
Fixpoint pos_le1 (outs : list sout) : Prop :=
  match outs with [] => True | o :: r => if is_pos o then no_pos r else pos_le1 r end.

(* the accounts after ApplyTxOutputsToState, staker rewards allowed *)
Lemma apply_outputs_pointwise_gen outs : forall l bh txid l',
  total_bal l + sum_souts outs < two64 ->
  (forall a, inc (acct_at l a) + out_cnt outs a < two64) ->
  apply_outputs l bh outs txid = (l', None) ->
  (forall a, acct_at l' a = mkacct (bal (acct_at l a) + out_sum outs a) (nonce (acct_at l a))
                                   (inc (acct_at l a) + out_cnt outs a) (deleg (acct_at l a))) /\
  (forall o, In o outs -> get_state l' (o_rcpt o) <> None) /\ dom_le l l'.
Proof.
  induction outs as [|o outs IH]; intros l bh txid l' Hb Hinc H; cbn [apply_outputs] in H.
  - injection H as <-. split; [|split; [intros ? []|intros a Ha; exact Ha]].
    intros a. cbn. destruct (acct_at l a); cbn. f_equal; lia.
  - cbn [sum_souts fold_right] in Hb. fold (sum_souts outs) in Hb.
    set (st := match get_state l (o_rcpt o) with Some s => s | None => acct0 end) in *.
    assert (Hst : st = acct_at l (o_rcpt o)) by reflexivity.
    pose proof (bal_at_le_total l (o_rcpt o)) as Hle.
    assert (Hbal : bal st = bal_at l (o_rcpt o)).
    { unfold st, bal_at. destruct (get_state l (o_rcpt o)); reflexivity. }
    destruct (safe_add (bal st) (o_amt o)) as [b|] eqn:Esa; [|discriminate H].
    apply safe_add_some in Esa; [|lia|lia]. destruct Esa as [-> Hlt].
    set (l1 := set_intx l _) in H.
    set (s' := mkacct (bal st + o_amt o) (nonce st) (wadd (inc st) 1) (deleg st)) in H.
    set (l2 := put_state l1 (o_rcpt o) s') in H.
    match goal with |- ?G => assert (Hcont : forall lx, accts lx = accts l2 -> apply_outputs lx bh outs txid = (l', None) -> G) end.
    { intros lx Hax Hx.
      assert (Hacctx : forall a, acct_at lx a = if a =? o_rcpt o then s' else acct_at l a).
      { intros a. rewrite (acct_at_ext l2 lx a Hax). unfold l2. rewrite acct_at_put. reflexivity. }
      assert (Hgetx : forall a, get_state lx a = if a =? o_rcpt o then Some s' else get_state l a).
      { intros a. rewrite (get_state_ext l2 lx a Hax). unfold l2. rewrite get_state_put. reflexivity. }
      assert (Htx : total_bal lx + sum_souts outs < two64).
      { assert (Hte : total_bal lx = total_bal l2) by (unfold total_bal; rewrite Hax; reflexivity).
        pose proof (total_put_state l1 (o_rcpt o) s') as Hp. fold l2 in Hp. cbn [bal s'] in Hp.
        assert (Hb1 : bal_at l1 (o_rcpt o) = bal_at l (o_rcpt o)) by reflexivity.
        assert (Ht1 : total_bal l1 = total_bal l) by reflexivity.
        rewrite Hb1, Ht1 in Hp. lia. }
      assert (Hinc1 : inc st + 1 < two64).
      { specialize (Hinc (o_rcpt o)). rewrite <- Hst in Hinc. cbn [out_cnt fold_right] in Hinc.
        rewrite N.eqb_refl in Hinc. lia. }
      assert (Hincx : forall a, inc (acct_at lx a) + out_cnt outs a < two64).
      { intros a. rewrite Hacctx. specialize (Hinc a). cbn [out_cnt fold_right] in Hinc. fold (out_cnt outs a) in Hinc.
        destruct (N.eqb_spec a (o_rcpt o)) as [->|Hne].
        - rewrite N.eqb_refl in Hinc. rewrite <- Hst in Hinc. cbn [inc s']. rewrite wadd_small by lia. lia.
        - destruct (N.eqb_spec (o_rcpt o) a); [congruence|]. exact Hinc. }
      destruct (IH lx bh txid l' Htx Hincx Hx) as (I1 & I5 & I6).
      split; [|split].
      + intros a. rewrite I1, Hacctx. cbn [out_sum out_cnt fold_right].
        fold (out_sum outs a). fold (out_cnt outs a).
        destruct (N.eqb_spec a (o_rcpt o)) as [->|Hne].
        * rewrite N.eqb_refl. rewrite <- Hst. cbn [bal nonce inc deleg s']. rewrite wadd_small by lia. f_equal; lia.
        * destruct (N.eqb_spec (o_rcpt o) a); [congruence|]. reflexivity.
      + intros o' [<-|Hin]; [|apply I5; exact Hin].
        apply I6. rewrite Hgetx, N.eqb_refl. discriminate.
      + intros a Ha. apply I6. rewrite Hgetx. destruct (a =? o_rcpt o); [discriminate|exact Ha]. }
    destruct (o_type o =? OUT_COINBASE_POS).
    + destruct (apply_pos_reward l2 bh o) as [l3|c|c] eqn:Epos; [|discriminate H|discriminate H].
      apply (Hcont l3); [eapply accts_apply_pos_reward; eassumption|exact H].
    + apply (Hcont l2); [reflexivity|exact H].
Qed.

(* the staking part after ApplyTxOutputsToState with at most one staker reward *)
Lemma apply_outputs_staking outs : forall l bh txid l', pos_le1 outs -> apply_outputs l bh outs txid = (l', None) ->
  (no_pos outs /\ dlgs l' = dlgs l /\ staked l' = staked l /\ dhist l' = dhist l) \/
  (exists o la lb, In o outs /\ is_pos o = true /\ (forall o', In o' outs -> is_pos o' = true -> o' = o) /\
     dlgs la = dlgs l /\ staked la = staked l /\ dhist la = dhist l /\ apply_pos_reward la bh o = Ok lb /\
     dlgs l' = dlgs lb /\ staked l' = staked lb /\ dhist l' = dhist lb).
Proof.
  induction outs as [|o outs IH]; intros l bh txid l' Hp H; cbn [apply_outputs] in H.
  - injection H as <-. left. repeat split. constructor.
  - destruct (safe_add _ (o_amt o)) as [b|]; [|discriminate H].
    set (l1 := set_intx l _) in H. set (l2 := put_state l1 (o_rcpt o) _) in H.
    cbn [pos_le1] in Hp. unfold is_pos in Hp at 1.
    destruct (o_type o =? OUT_COINBASE_POS) eqn:Ho.
    + destruct (apply_pos_reward l2 bh o) as [l3|c|c] eqn:Epos; [|discriminate H|discriminate H].
      right. exists o, l2, l3. split; [left; reflexivity|]. split; [exact Ho|]. split.
      { intros o' [<-|Hin] Hpo; [reflexivity|]. exfalso. unfold no_pos in Hp. rewrite Forall_forall in Hp.
        specialize (Hp o' Hin). unfold is_pos in Hpo. congruence. }
      split; [reflexivity|]. split; [reflexivity|]. split; [reflexivity|]. split; [exact Epos|].
      destruct (ds_apply_outputs_nopos outs l3 bh txid Hp) as [Hd Hs].
      pose proof (dhist_apply_outputs_nopos outs l3 bh txid Hp) as Hh.
      rewrite H in Hd, Hs, Hh. cbn [fst] in Hd, Hs, Hh. repeat split; assumption.
    + destruct (IH l2 bh txid l' Hp H) as [(Hnp & Hd & Hs & Hh)|(o0 & la & lb & Hin & Hpo & Hun & Hd & Hs & Hh & R)].
      * left. split; [constructor; assumption|]. repeat split; assumption.
      * right. exists o0, la, lb. split; [right; exact Hin|]. split; [exact Hpo|]. split.
        { intros o' [<-|Hin'] Hpo'; [unfold is_pos in Hpo'; congruence|apply Hun; assumption]. }
        split; [exact Hd|]. split; [exact Hs|]. split; [exact Hh|exact R].
Qed.

Section Lift.
Variable cfg : config.
Variable genesis_addr : N.

(* what ApplyTxToState leaves of the staking part is what its kind-specific part produced *)
Lemma apply_tx_staking l t h bh top l1 :
  apply_tx cfg l t h bh top = Ok l1 ->
  exists st l1k st1, get_state l (addr_of_key (tx_signer t)) = Some st /\
    kind_apply cfg l t st top = Ok (l1k, st1) /\ dlgs l1 = dlgs l1k /\ staked l1 = staked l1k.
Proof.
  intros H. rewrite apply_tx_unfold in H. cbn zeta in H.
  opt_inv H. guard_inv H. bind_inv H. destruct a as [l1k st1]. bind_inv H. bind_inv H. injection H as <-.
  exists x, l1k, st1. split; [reflexivity|]. split; [assumption|].
  cbn [dlgs staked set_txh set_outtx].
  match goal with Eo : state_outputs _ _ _ = Ok ?o |- _ => pose proof (state_outputs_nopos _ _ _ _ Eo) as Hnp end.
  match goal with |- context [apply_outputs ?L bh ?o (tx_id t)] =>
    destruct (ds_apply_outputs_nopos o L bh (tx_id t) Hnp) as [-> ->] end.
  match goal with Ei : apply_inputs _ _ = Ok _ |- _ => destruct (ds_apply_inputs _ _ _ Ei) as [-> ->] end.
  split; reflexivity.
Qed.

Lemma remove_txs_app a : forall l b bh top,
  remove_txs cfg l (a ++ b) bh top = (l1 <- remove_txs cfg l a bh top ;; remove_txs cfg l1 b bh top).
Proof.
  induction a as [|t a IH]; intros l b bh top; cbn [app remove_txs bind]; [reflexivity|].
  destruct (remove_tx cfg l t bh top) as [l1|c|c]; cbn [bind]; [apply IH|reflexivity|reflexivity].
Qed.

Lemma apply_txs_dhist txs : forall l h bh top fee ln fee' k,
  apply_txs cfg l txs h bh top fee = Ok (ln, fee') -> ~ In k (map tx_id txs) -> nget (dhist ln) k = nget (dhist l) k.
Proof.
  induction txs as [|t txs IH]; intros l h bh top fee ln fee' k H Hk; cbn [apply_txs] in H.
  - injection H as <- _. reflexivity.
  - bind_inv H. guard_inv H. cbn [map In] in Hk.
    assert (Hk1 : ~ In k (map tx_id txs)) by tauto. assert (Hk2 : k <> tx_id t) by (intros ->; tauto).
    rewrite (IH _ _ _ _ _ _ _ _ H Hk1). eapply apply_tx_dhist; eassumption.
Qed.

Lemma apply_txs_fee txs : forall l h bh top fee ln fee',
  apply_txs cfg l txs h bh top fee = Ok (ln, fee') -> fee' = fold_left (fun s t => wadd s (tx_fee t)) txs fee.
Proof.
  induction txs as [|t txs IH]; intros l h bh top fee ln fee' H; cbn [apply_txs] in H.
  - injection H as _ <-. reflexivity.
  - bind_inv H. guard_inv H. cbn [fold_left]. eapply IH. exact H.
Qed.

(* amounts staked are positive: check 210 of prevalidate_tx (MIN_STAKE_AMOUNT <= amount) with MIN_STAKE_AMOUNT > 0 *)
Definition stake_pos (t : tx) : Prop := match tx_data t with TStake a _ _ => 0 < a | _ => True end.

Definition nouts_sum (txs : list tx) : N := fold_right (fun t acc => tx_nouts t + acc) 0 txs.

(* ---- blocks ---- *)
Lemma coinbase_shape b total outs :
  coinbase_souts cfg genesis_addr b total = Ok outs -> pos_le1 outs /\ N.of_nat (length outs) <= 4.
Proof.
  unfold coinbase_souts, coinbase. intros H.
  destruct (lb_version b =? 0).
  - injection H as <-.
    cbn [map pos_le1 is_pos o_type length N.eqb Pos.eqb OUT_COINBASE_DEV OUT_COINBASE_POW OUT_COINBASE_POS OUT_COINBASE_BURN].
    split; [exact I|lia].
  - destruct (lb_version b =? 1); [|discriminate H].
    destruct (lb_signed b).
    + destruct (_ =? 0); cbn [N.eqb app] in H; injection H as <-;
      cbn [map pos_le1 is_pos o_type length N.eqb Pos.eqb OUT_COINBASE_DEV OUT_COINBASE_POW OUT_COINBASE_POS OUT_COINBASE_BURN];
      (split; [first [exact I|constructor]|lia]).
    + cbn [N.eqb app] in H. destruct (_ =? 0); cbn [app] in H; injection H as <-;
      cbn [map pos_le1 is_pos o_type length N.eqb Pos.eqb OUT_COINBASE_DEV OUT_COINBASE_POW OUT_COINBASE_POS OUT_COINBASE_BURN];
      (split; [first [exact I|constructor]|lia]).
Qed.

Section Gen.
Variable Rd : list (N * dlg) -> list (N * dlg) -> Prop.
Variable Inv : ledger -> Prop.
Variable Side : ledger -> tx -> Prop.
Hypothesis Inv_ext : forall l l', dlgs l' = dlgs l -> staked l' = staked l -> Inv l -> Inv l'.
Hypothesis Inv_kind : forall l t, Inv l -> wf_tx cfg t -> Side l t -> kind_undo_ok cfg Rd l t.
Hypothesis Inv_tx : forall l t h bh top l1,
  Inv l -> wf_tx cfg t -> stake_pos t -> apply_tx cfg l t h bh top = Ok l1 -> Inv l1.
Hypothesis Inv_pos : forall l bh o l1, Inv l -> o_amt o < two64 -> apply_pos_reward l bh o = Ok l1 ->
  forall l', Rd (dlgs l1) (dlgs l') -> staked l' = staked l1 -> nget (dhist l') bh = nget (dhist l1) bh ->
  exists l2, remove_pos_reward l' bh o = Ok l2 /\
    Rd (dlgs l) (dlgs l2) /\ staked l2 = staked l /\ accts l2 = accts l' /\ dhist l2 = dhist l'.

(* the side condition along the run of ApplyTxToState over the list *)
Fixpoint sides (l : ledger) (txs : list tx) (h bh top : N) : Prop :=
  match txs with
  | [] => True
  | t :: r => Side l t /\ forall l1, apply_tx cfg l t h bh top = Ok l1 -> sides l1 r h bh top
  end.

(* the transactions of a block applied in order, then removed in reverse order *)
Theorem undo_txs_gen txs : forall l h bh top fee ln fee',
  Inv l -> total_bal l < two64 -> Forall (tx_ok cfg) txs -> Forall stake_pos txs -> NoDup (map tx_id txs) ->
  (forall a, inc (acct_at l a) + nouts_sum txs < two64) ->
  (forall a, nonce (acct_at l a) + N.of_nat (length txs) < two64) ->
  sides l txs h bh top ->
  apply_txs cfg l txs h bh top fee = Ok (ln, fee') ->
  Inv ln /\
  (forall a, inc (acct_at ln a) <= inc (acct_at l a) + nouts_sum txs /\
             nonce (acct_at ln a) <= nonce (acct_at l a) + N.of_nat (length txs)) /\
  forall l' top', leqv_g Rd ln l' ->
    (forall t, In t txs -> nget (dhist l') (tx_id t) = nget (dhist ln) (tx_id t)) ->
    exists l2, remove_txs cfg l' (rev txs) bh top' = Ok l2 /\ leqv_g Rd l l2 /\ dhist l2 = dhist l'.
Proof.
  induction txs as [|t txs IH]; intros l h bh top fee ln fee' HI Hb Hok Hsp Hnd Hinc Hnon Hside H; cbn [apply_txs] in H.
  - injection H as <- _. split; [exact HI|]. split; [intros a; cbn; lia|].
    intros l' top' Heq _. exists l'. cbn [rev remove_txs]. split; [reflexivity|]. split; [exact Heq|reflexivity].
  - bind_inv H. rename a into l1. guard_inv H.
    inversion Hok as [|? ? [Hwf Htot] Hok']; subst. inversion Hsp as [|? ? Hsp1 Hsp']; subst.
    cbn [map] in Hnd. inversion Hnd as [|? ? Hnin Hnd']; subst.
    destruct Hside as [Hs1 Hsr]. specialize (Hsr l1 E).
    destruct (tx_total cfg t) as [tot|] eqn:Et; [|congruence].
    cbn [nouts_sum fold_right] in Hinc. fold (nouts_sum txs) in Hinc.
    cbn [length] in Hnon. rewrite Nat2N.inj_succ in Hnon.
    destruct (undo_tx_gen cfg Rd l t h bh top l1 tot (Inv_kind l t HI Hwf Hs1) Hb Hwf Et
                ltac:(intros a; specialize (Hinc a); lia) ltac:(specialize (Hnon (addr_of_key (tx_signer t))); lia) E)
      as (Hfr & Hundo).
    pose proof (apply_tx_total cfg l t h bh top l1 tot Hb Hwf Et E) as Ht1.
    pose proof (Inv_tx l t h bh top l1 HI Hwf Hsp1 E) as HI1.
    destruct (IH l1 h bh top _ ln fee' HI1 ltac:(lia) Hok' Hsp' Hnd'
                ltac:(intros a; destruct (Hfr a); specialize (Hinc a); lia)
                ltac:(intros a; destruct (Hfr a); specialize (Hnon a); lia) Hsr H) as (HIn & Hincn & Hrest).
    split; [exact HIn|]. split.
    { intros a. cbn [nouts_sum fold_right length]. fold (nouts_sum txs). rewrite Nat2N.inj_succ.
      destruct (Hfr a). destruct (Hincn a). lia. }
    intros l' top' Heq Hh.
    destruct (Hrest l' top' Heq ltac:(intros t' Hin; apply Hh; right; exact Hin)) as (l1' & Hrm & Heq1 & Hh1).
    destruct (Hundo l1' top' Heq1) as (l2 & Hr & Heq2 & Hh2).
    { rewrite Hh1, (Hh t (or_introl eq_refl)). eapply apply_txs_dhist; eassumption. }
    exists l2. cbn [rev]. rewrite remove_txs_app, Hrm. cbn [bind remove_txs]. rewrite Hr. cbn [bind].
    split; [reflexivity|]. split; [exact Heq2|congruence].
Qed.

(* removing outputs with at most one staker reward: accounts pointwise; the staking part is what undoing that one
   reward gives (hypothesis [Hpos], provided by the caller for the ledger the removal starts from) *)
Lemma remove_outputs_gen outs : forall lx bh (D : list (N * dlg)) (S : N),
  pos_le1 outs ->
  (forall o, In o outs -> get_state lx (o_rcpt o) <> None) ->
  (forall a, out_sum outs a <= bal (acct_at lx a) /\ out_cnt outs a <= inc (acct_at lx a)) ->
  (forall o l', In o outs -> is_pos o = true -> dlgs l' = dlgs lx -> staked l' = staked lx -> dhist l' = dhist lx ->
     exists l2, remove_pos_reward l' bh o = Ok l2 /\ Rd D (dlgs l2) /\ staked l2 = S /\ accts l2 = accts l' /\
                dhist l2 = dhist l') ->
  exists l2, remove_outputs lx bh outs = (l2, None) /\
    (forall a, acct_at l2 a = mkacct (bal (acct_at lx a) - out_sum outs a) (nonce (acct_at lx a))
                                     (inc (acct_at lx a) - out_cnt outs a) (deleg (acct_at lx a))) /\
    dom_le lx l2 /\ dhist l2 = dhist lx /\
    ((no_pos outs /\ dlgs l2 = dlgs lx /\ staked l2 = staked lx) \/ (Rd D (dlgs l2) /\ staked l2 = S)).
Proof.
  induction outs as [|o outs IH]; intros lx bh D S Hp Hex Hge Hpos; cbn [remove_outputs].
  - exists lx. split; [reflexivity|]. split; [|split; [intros a Ha; exact Ha|split; [reflexivity|]]].
    + intros a. cbn. destruct (acct_at lx a); cbn. f_equal; lia.
    + left. repeat split. constructor.
  - destruct (get_state lx (o_rcpt o)) as [st|] eqn:Est; [|exfalso; apply (Hex o (or_introl eq_refl)); exact Est].
    assert (Hst : acct_at lx (o_rcpt o) = st) by (unfold acct_at; rewrite Est; reflexivity).
    pose proof (Hge (o_rcpt o)) as [Hb Hc]. cbn [out_sum out_cnt fold_right] in Hb, Hc.
    rewrite N.eqb_refl, Hst in Hb, Hc. fold (out_sum outs (o_rcpt o)) in Hb. fold (out_cnt outs (o_rcpt o)) in Hc.
    destruct (N.ltb_spec (bal st) (o_amt o)); [lia|].
    destruct (N.eqb_spec (inc st) 0); [lia|].
    set (s' := mkacct (bal st - o_amt o) (nonce st) (inc st - 1) (deleg st)).
    set (l1 := put_state lx (o_rcpt o) s').
    assert (Hacct1 : forall a, acct_at l1 a = if a =? o_rcpt o then s' else acct_at lx a).
    { intros a. unfold l1. apply acct_at_put. }
    assert (Hget1 : forall a, get_state l1 a = if a =? o_rcpt o then Some s' else get_state lx a).
    { intros a. unfold l1. apply get_state_put. }
    assert (Hge1 : forall a, out_sum outs a <= bal (acct_at l1 a) /\ out_cnt outs a <= inc (acct_at l1 a)).
    { intros a. rewrite Hacct1. specialize (Hge a). cbn [out_sum out_cnt fold_right] in Hge.
      fold (out_sum outs a) in Hge. fold (out_cnt outs a) in Hge.
      destruct (N.eqb_spec a (o_rcpt o)) as [->|Hne].
      * rewrite N.eqb_refl, Hst in Hge. cbn [bal inc s']. lia.
      * destruct (N.eqb_spec (o_rcpt o) a); [congruence|]. exact Hge. }
    assert (Hex1 : forall o', In o' outs -> get_state l1 (o_rcpt o') <> None).
    { intros o' Hin. rewrite Hget1. destruct (o_rcpt o' =? o_rcpt o); [discriminate|]. apply Hex. right. exact Hin. }
    (* composition of the account formulas *)
    assert (Hcomp : forall l2,
      (forall a, acct_at l2 a = mkacct (bal (acct_at l1 a) - out_sum outs a) (nonce (acct_at l1 a))
                                       (inc (acct_at l1 a) - out_cnt outs a) (deleg (acct_at l1 a))) ->
      forall a, acct_at l2 a = mkacct (bal (acct_at lx a) - out_sum (o :: outs) a) (nonce (acct_at lx a))
                                      (inc (acct_at lx a) - out_cnt (o :: outs) a) (deleg (acct_at lx a))).
    { intros l2 I1 a. rewrite I1, Hacct1. cbn [out_sum out_cnt fold_right].
      fold (out_sum outs a). fold (out_cnt outs a).
      destruct (N.eqb_spec a (o_rcpt o)) as [->|Hne].
      - rewrite N.eqb_refl, Hst. cbn [bal nonce inc deleg s']. f_equal; lia.
      - destruct (N.eqb_spec (o_rcpt o) a); [congruence|]. reflexivity. }
    assert (Hdom1 : dom_le lx l1).
    { intros a Ha. rewrite Hget1. destruct (a =? o_rcpt o); [discriminate|exact Ha]. }
    cbn [pos_le1] in Hp. unfold is_pos in Hp at 1.
    destruct (o_type o =? OUT_COINBASE_POS) eqn:Ho.
    + destruct (Hpos o l1 (or_introl eq_refl) Ho eq_refl eq_refl eq_refl) as (l2x & Hrp & HD & HS & HA & HH).
      rewrite Hrp.
      destruct (remove_outputs_pointwise outs l2x bh Hp) as (l2 & Hrm & R1 & R2 & R3 & R4 & R5).
      { intros o' Hin. rewrite (get_state_ext l1 l2x _ HA). apply Hex1. exact Hin. }
      { intros a. rewrite (acct_at_ext l1 l2x a HA). apply Hge1. }
      exists l2. split; [exact Hrm|]. split; [|split; [|split]].
      * apply Hcomp. intros a. rewrite R1, (acct_at_ext l1 l2x a HA). reflexivity.
      * intros a Ha. apply R5. rewrite (get_state_ext l1 l2x a HA). apply Hdom1. exact Ha.
      * rewrite R4, HH. reflexivity.
      * right. rewrite R2, R3. split; assumption.
    + destruct (IH l1 bh D S Hp Hex1 Hge1) as (l2 & Hrm & I1 & I2 & I3 & I4).
      { intros o' l' Hin Hpo Hd Hs Hh. apply Hpos; [right; exact Hin|exact Hpo|exact Hd|exact Hs|exact Hh]. }
      exists l2. split; [exact Hrm|]. split; [apply Hcomp; exact I1|]. split; [|split; [exact I3|]].
      * intros a Ha. apply I2, Hdom1. exact Ha.
      * destruct I4 as [(Hnp & Hd & Hs)|I4]; [left|right; exact I4].
        split; [constructor; assumption|]. split; assumption.
Qed.


Hypothesis Hok : cfg_ok_emission cfg = true.

(* RemoveBlockFromState after ApplyBlockToState.  [top_h] is stats.TopHeight when the block is connected (the height
   of its parent), [top'] the value when it is disconnected: reorg_disconnect of Model/Node.v passes the block's own
   height, i.e. top_h + 1; the removal does not depend on it (the unlock height of a re-created fund comes from the
   delegate history), so the theorem holds for every [top'].
   [l'] is any ledger agreeing with the result on accounts, delegate table, staked total and on the delegate-history
   entries of this block (its hash and the ids of its transactions). *)
Theorem undo_block_gen l b top_h lB :
  Inv l -> total_bal l + reward cfg (lb_height b) <= max_supply cfg ->
  Forall (tx_ok cfg) (lb_txs b) -> Forall stake_pos (lb_txs b) ->
  NoDup (map tx_id (lb_txs b)) -> ~ In (lb_hash b) (map tx_id (lb_txs b)) ->
  (forall a, inc (acct_at l a) + nouts_sum (lb_txs b) + 4 < two64) ->
  (forall a, nonce (acct_at l a) + N.of_nat (length (lb_txs b)) < two64) ->
  sides l (lb_txs b) (lb_height b) (lb_hash b) top_h ->
  apply_block cfg genesis_addr l b top_h = Ok lB ->
  (forall a, inc (acct_at lB a) <= inc (acct_at l a) + nouts_sum (lb_txs b) + 4 /\
             nonce (acct_at lB a) <= nonce (acct_at l a) + N.of_nat (length (lb_txs b))) /\
  forall l' top', leqv_g Rd lB l' ->
    (forall k, k = lb_hash b \/ In k (map tx_id (lb_txs b)) -> nget (dhist l') k = nget (dhist lB) k) ->
    exists l2, remove_block cfg genesis_addr l' b top' = Ok l2 /\ leqv_g Rd l l2 /\ dhist l2 = dhist l'.
Proof.
  destruct (ok_facts cfg Hok) as ((HRI & HRI64) & H9 & Hms & Hms64 & _).
  intros HI Hb Htx Hsp Hnd Hbh Hinc Hnon Hside H.
  unfold apply_block in H. bind_inv H. clear E a. bind_inv H. destruct a as [ln fee].
  assert (Hl64 : total_bal l < two64) by lia.
  destruct (apply_txs_total cfg (lb_txs b) l (lb_height b) (lb_hash b) top_h 0 ln fee Hl64 two64_pos Htx E) as [Ht1 Hfee64].
  destruct (undo_txs_gen (lb_txs b) l (lb_height b) (lb_hash b) top_h 0 ln fee HI Hl64 Htx Hsp Hnd
              ltac:(intros aa; specialize (Hinc aa); lia) Hnon Hside E) as (HIn & Hincn & Hundo).
  guard_inv H. pose proof G as Gtot. apply Bool.negb_true_iff in G.
  pose proof (reward_le_BR cfg Hok (lb_height b)) as HrBR.
  destruct (wadd_nowrap_of_check (reward cfg (lb_height b)) fee ltac:(lia) Hfee64 G) as [Hw Hw64].
  bind_inv H. rename a into outs.
  pose proof E0 as Ecb. rewrite Hw in Ecb.
  destruct (sum_souts_coinbase _ _ _ _ _ Ecb) as (cb & Ecb1 & Hsum).
  assert (Hver : lb_version b <= 1).
  { unfold coinbase in Ecb1. destruct (N.eqb_spec (lb_version b) 0) as [->|?]; [lia|].
    destruct (N.eqb_spec (lb_version b) 1) as [->|?]; [lia|discriminate]. }
  destruct (coinbase_sum cfg Hok (lb_version b) (lb_signed b) (reward cfg (lb_height b) + fee) Hver ltac:(lia))
    as (cb' & Ecb' & Hsc & _).
  rewrite Ecb1 in Ecb'. injection Ecb' as <-.
  destruct (coinbase_shape b _ outs E0) as [Hp1 Hlen].
  assert (Hob : Forall (fun o => o_amt o < two64) outs).
  { eapply Forall_impl; [|apply (souts_bounded cfg outs (reward cfg (lb_height b) + fee)); lia]. cbn. intros; lia. }
  destruct (apply_outputs ln (lb_hash b) outs (lb_hash b)) as [lB' e] eqn:Eao.
  destruct e as [[u|c|c]|]; try discriminate H. injection H as ->.
  assert (Hbound : total_bal ln + sum_souts outs < two64) by (rewrite Hsum, Hsc; lia).
  assert (Hinc_n : forall a, inc (acct_at ln a) + out_cnt outs a < two64).
  { intros a. pose proof (out_cnt_le_length outs a). destruct (Hincn a). specialize (Hinc a). lia. }
  destruct (apply_outputs_pointwise_gen outs ln (lb_hash b) (lb_hash b) lB Hbound Hinc_n Eao) as (A1 & A5 & A6).
  split.
  { intros a. rewrite A1. cbn [inc nonce]. pose proof (out_cnt_le_length outs a). destruct (Hincn a). lia. }
  intros l' top' (Hsame & Hdom & Hd' & Hs') Hh'.
  (* ---- the removal ---- *)
  unfold remove_block. rewrite <- (apply_txs_fee _ _ _ _ _ _ _ _ E). rewrite Gtot. cbn [guard bind]. rewrite E0. cbn [bind].
  destruct (remove_outputs_gen outs l' (lb_hash b) (dlgs ln) (staked ln) Hp1) as (lC & Hrm & R1 & R2 & R3 & R4).
  { intros o Hin. apply Hdom, A5. exact Hin. }
  { intros a. rewrite Hsame, A1. cbn [bal inc]. split; lia. }
  { intros o lq Hin Hpo Hdq Hsq Hhq.
    destruct (apply_outputs_staking outs ln (lb_hash b) (lb_hash b) lB Hp1 Eao)
      as [(Hnp & _)|(o0 & la & lb & Hin0 & Hpo0 & Hun & Hda & Hsa & Hha & Epos & HdB & HsB & HhB)].
    - exfalso. unfold no_pos in Hnp. rewrite Forall_forall in Hnp. specialize (Hnp o Hin). unfold is_pos in Hpo. congruence.
    - rewrite (Hun o Hin Hpo).
      assert (HIa : Inv la) by (apply (Inv_ext ln la Hda Hsa HIn)).
      assert (Hoa : o_amt o0 < two64) by (rewrite Forall_forall in Hob; apply Hob; exact Hin0).
      destruct (Inv_pos la (lb_hash b) o0 lb HIa Hoa Epos lq) as (l2 & Hr & HD & HS & HA & HH).
      { rewrite Hdq, <- HdB. exact Hd'. }
      { rewrite Hsq, Hs', HsB. reflexivity. }
      { rewrite Hhq, (Hh' (lb_hash b) (or_introl eq_refl)), HhB. reflexivity. }
      exists l2. split; [exact Hr|]. split; [rewrite <- Hda; exact HD|]. split; [congruence|]. split; assumption. }
  rewrite Hrm. cbn [bind].
  (* the ledger after removing the coinbase agrees with the ledger after the transactions *)
  assert (HeqC : leqv_g Rd ln lC).
  { split; [|split; [|]].
    - intros a. rewrite R1, Hsame, A1. cbn [bal nonce inc deleg]. destruct (acct_at ln a); cbn. f_equal; lia.
    - intros a Ha. apply R2, Hdom, A6. exact Ha.
    - destruct (apply_outputs_staking outs ln (lb_hash b) (lb_hash b) lB Hp1 Eao)
        as [(Hnp & HdB & HsB & _)|(o0 & la & lb & Hin0 & Hpo0 & _)].
      + destruct R4 as [(_ & Hd4 & Hs4)|[HD HS]]; [|split; assumption].
        rewrite Hd4, Hs4. split; [rewrite <- HdB; exact Hd'|congruence].
      + destruct R4 as [(Hnp & _)|[HD HS]]; [|split; assumption].
        exfalso. unfold no_pos in Hnp. rewrite Forall_forall in Hnp. specialize (Hnp o0 Hin0). unfold is_pos in Hpo0. congruence. }
  destruct (Hundo lC top' HeqC) as (l2 & Hr & Heq2 & Hh2).
  { intros t Hin. rewrite R3.
    assert (Hk : In (tx_id t) (map tx_id (lb_txs b))) by (apply in_map; exact Hin).
    rewrite (Hh' (tx_id t) (or_intror Hk)).
    assert (Hne : tx_id t <> lb_hash b) by (intros Ee; apply Hbh; rewrite <- Ee; exact Hk).
    destruct (apply_outputs_staking outs ln (lb_hash b) (lb_hash b) lB Hp1 Eao)
      as [(_ & _ & _ & HhB)|(o0 & la & lb & _ & _ & _ & _ & _ & Hha & Epos & _ & _ & HhB)].
    - rewrite HhB. reflexivity.
    - rewrite HhB, (pos_reward_dhist la (lb_hash b) o0 lb (tx_id t) Epos Hne), Hha. reflexivity. }
  exists l2. split; [exact Hr|]. split; [exact Heq2|congruence].
Qed.

End Gen.

(* ------------------------------------------------------------------------------------------------------------ *)
(* the instance: delegate table restored as a list; invariant PInv = SInv /\ FPos /\ FUniq; no side condition *)

Lemma FPos_ext l l' : dlgs l' = dlgs l -> FPos l -> FPos l'.
Proof. intros Hd HP id d f Hg. apply (HP id d f). unfold get_dlg in *. rewrite <- Hd. exact Hg. Qed.

Lemma In_upd_fund x fs o nf : In x (upd_fund fs o nf) -> In x fs \/ nf = Some x.
Proof.
  induction fs as [|g fs IH]; cbn [upd_fund]; [intros []|].
  destruct (f_owner g =? o).
  - destruct nf as [y|]; [intros [<-|Hin]; [right; reflexivity|left; right; exact Hin]|intros Hin; left; right; exact Hin].
  - intros [<-|Hin]; [left; left; reflexivity|]. destruct (IH Hin) as [H|H]; [left; right; exact H|right; exact H].
Qed.

Lemma FPos_put l0 l d : FPos l -> dlgs l0 = dlgs l -> (forall f, In f (d_funds d) -> 0 < f_amt f) -> FPos (put_dlg l0 d).
Proof.
  intros HP Hd Hf id d' f Hg Hin. rewrite get_dlg_put in Hg. destruct (id =? d_id d).
  - injection Hg as <-. apply Hf. exact Hin.
  - apply (HP id d' f); [|exact Hin]. unfold get_dlg in *. rewrite <- Hd. exact Hg.
Qed.

Lemma safe_add_ge a b r : safe_add a b = Some r -> a <= r.
Proof. unfold safe_add. destruct (N.ltb_spec (wadd a b) a); [discriminate|]. intros [= <-]. assumption. Qed.

Lemma dlgs_stats_staked l amt l' : stats_staked l amt = Ok l' -> dlgs l' = dlgs l.
Proof. unfold stats_staked. destruct (_ <? _); [discriminate|]. intros [= <-]. reflexivity. Qed.
Lemma dlgs_stats_unstaked l amt l' : stats_unstaked l amt = Ok l' -> dlgs l' = dlgs l.
Proof. unfold stats_unstaked. destruct (_ <? _); [discriminate|]. intros [= <-]. reflexivity. Qed.

Lemma apply_stake_FPos l amt id pu signer top txid l1 :
  FPos l -> 0 < amt -> apply_stake cfg l amt id pu signer top txid false = Ok l1 -> FPos l1.
Proof.
  intros HP Ha H. unfold apply_stake in H. opt_inv H. rename x into d. bind_inv H. bind_inv H. injection H as <-.
  apply (FPos_put _ l); [exact HP|eapply dlgs_stats_staked; eassumption|]. cbn [d_funds].
  intros f Hin. destruct (find_fund (d_funds d) signer) as [g|] eqn:Eg.
  - guard_inv E0. opt_inv E0. injection E0 as <-.
    destruct (In_upd_fund _ _ _ _ Hin) as [Hi|Hi]; [exact (HP id d f E Hi)|].
    injection Hi as <-. cbn [f_amt]. pose proof (safe_add_ge _ _ _ E2). pose proof (HP id d g E (find_fund_in _ _ _ Eg)). lia.
  - injection E0 as <-. apply in_app_or in Hin. destruct Hin as [Hi|[<-|[]]]; [exact (HP id d f E Hi)|exact Ha].
Qed.

Lemma apply_unstake_FPos l amt id signer top txid l1 :
  FPos l -> apply_unstake l amt id signer top txid false 0 = Ok l1 -> FPos l1.
Proof.
  intros HP H. unfold apply_unstake in H. opt_inv H. rename x into d. opt_inv H. rename x into g.
  guard_inv H. guard_inv H. bind_inv H. injection H as <-.
  apply (FPos_put _ l); [exact HP| |].
  - match goal with Hs : stats_unstaked _ _ = Ok _ |- _ => rewrite (dlgs_stats_unstaked _ _ _ Hs) end.
    destruct (_ && _); reflexivity.
  - cbn [d_funds]. intros f Hin. destruct (In_upd_fund _ _ _ _ Hin) as [Hi|Hi]; [exact (HP id d f E Hi)|].
    destruct (N.eqb_spec (f_amt g - amt) 0) as [Ez|Ez]; [discriminate Hi|]. injection Hi as <-. cbn [f_amt]. lia.
Qed.

Lemma kind_apply_FPos l t st top l1k st1 :
  FPos l -> stake_pos t -> kind_apply cfg l t st top = Ok (l1k, st1) -> FPos l1k.
Proof.
  intros HP Hsp H. unfold kind_apply in H. unfold stake_pos in Hsp.
  destruct (tx_data t) as [os|nl name id|nw pv|a id pu|a id].
  - injection H as <- _. exact HP.
  - destruct (tx_version t =? 2); [|injection H as <- _; exact HP]. guard_inv H. injection H as <- _.
    apply (FPos_put _ l); [exact HP|reflexivity|intros f []].
  - destruct (tx_version t =? 3); [|injection H as <- _; exact HP].
    guard_inv H. guard_inv H. guard_inv H. injection H as <- _. exact HP.
  - destruct (tx_version t =? 4); [|injection H as <- _; exact HP].
    guard_inv H. guard_inv H. bind_inv H. injection H as <- _. eapply apply_stake_FPos; eassumption.
  - destruct (tx_version t =? 5); [|injection H as <- _; exact HP].
    guard_inv H. guard_inv H. bind_inv H. injection H as <- _. eapply apply_unstake_FPos; eassumption.
Qed.

Lemma apply_tx_FPos l t h bh top l1 : FPos l -> stake_pos t -> apply_tx cfg l t h bh top = Ok l1 -> FPos l1.
Proof.
  intros HP Hsp H. destruct (apply_tx_staking l t h bh top l1 H) as (st & l1k & st1 & _ & Hk & Hd & _).
  apply (FPos_ext l1k l1 Hd). eapply kind_apply_FPos; eassumption.
Qed.

(* ---- FUniq is kept by transactions ---- *)
Lemma apply_stake_FUniq l amt id pu signer top txid l1 :
  FUniq l -> apply_stake cfg l amt id pu signer top txid false = Ok l1 -> FUniq l1.
Proof.
  intros HU H. unfold apply_stake in H. opt_inv H. rename x into d. bind_inv H. bind_inv H. injection H as <-.
  apply (FUniq_put _ l); [exact HU|eapply dlgs_stats_staked; eassumption|]. cbn [d_funds].
  pose proof (HU id d E) as Hnd.
  destruct (find_fund (d_funds d) signer) as [g|] eqn:Eg.
  - guard_inv E0. opt_inv E0. injection E0 as <-. rewrite fowners_upd_some by reflexivity. exact Hnd.
  - injection E0 as <-. unfold fowners. rewrite map_app. cbn [map f_owner].
    apply NoDup_app_last; [exact Hnd|]. apply find_fund_none_iff. exact Eg.
Qed.

Lemma apply_unstake_FUniq l amt id signer top txid l1 :
  FUniq l -> apply_unstake l amt id signer top txid false 0 = Ok l1 -> FUniq l1.
Proof.
  intros HU H. unfold apply_unstake in H. opt_inv H. rename x into d. opt_inv H. rename x into g.
  guard_inv H. guard_inv H. bind_inv H. injection H as <-.
  apply (FUniq_put _ l); [exact HU| |].
  - match goal with Hs : stats_unstaked _ _ = Ok _ |- _ => rewrite (dlgs_stats_unstaked _ _ _ Hs) end.
    destruct (_ && _); reflexivity.
  - cbn [d_funds]. pose proof (HU id d E) as Hnd.
    destruct (f_amt g - amt =? 0); [apply NoDup_upd_none; exact Hnd|].
    rewrite fowners_upd_some by reflexivity. exact Hnd.
Qed.

Lemma kind_apply_FUniq l t st top l1k st1 : FUniq l -> kind_apply cfg l t st top = Ok (l1k, st1) -> FUniq l1k.
Proof.
  intros HU H. unfold kind_apply in H.
  destruct (tx_data t) as [os|nl name id|nw pv|a id pu|a id].
  - injection H as <- _. exact HU.
  - destruct (tx_version t =? 2); [|injection H as <- _; exact HU]. guard_inv H. injection H as <- _.
    apply (FUniq_put _ l); [exact HU|reflexivity|constructor].
  - destruct (tx_version t =? 3); [|injection H as <- _; exact HU].
    guard_inv H. guard_inv H. guard_inv H. injection H as <- _. exact HU.
  - destruct (tx_version t =? 4); [|injection H as <- _; exact HU].
    guard_inv H. guard_inv H. bind_inv H. injection H as <- _. eapply apply_stake_FUniq; eassumption.
  - destruct (tx_version t =? 5); [|injection H as <- _; exact HU].
    guard_inv H. guard_inv H. bind_inv H. injection H as <- _. eapply apply_unstake_FUniq; eassumption.
Qed.

Lemma apply_tx_FUniq l t h bh top l1 : FUniq l -> apply_tx cfg l t h bh top = Ok l1 -> FUniq l1.
Proof.
  intros HU H. destruct (apply_tx_staking l t h bh top l1 H) as (st & l1k & st1 & _ & Hk & Hd & _).
  apply (FUniq_ext l1k l1 Hd). eapply kind_apply_FUniq; eassumption.
Qed.

(* the invariant of the ledgers a block is applied to *)
Definition PInv (l : ledger) : Prop := SInv l /\ FPos l /\ FUniq l.

Lemma PInv_ext l l' : dlgs l' = dlgs l -> staked l' = staked l -> PInv l -> PInv l'.
Proof.
  intros Hd Hs (HI & HP & HU).
  split; [apply (SInv_ext l l' Hd Hs HI)|]. split; [apply (FPos_ext l l' Hd HP)|apply (FUniq_ext l l' Hd HU)].
Qed.

Lemma PInv_kind l t : PInv l -> wf_tx cfg t -> True -> kind_undo_ok cfg eq l t.
Proof. intros (HI & HP & HU) Hwf _. apply kind_undo_ok_eq; assumption. Qed.

Lemma PInv_tx l t h bh top l1 : PInv l -> wf_tx cfg t -> stake_pos t -> apply_tx cfg l t h bh top = Ok l1 -> PInv l1.
Proof.
  intros (HI & HP & HU) Hwf Hsp H.
  split; [eapply apply_tx_SInv; eassumption|]. split; [eapply apply_tx_FPos; eassumption|eapply apply_tx_FUniq; eassumption].
Qed.

Lemma PInv_pos l bh o l1 : PInv l -> o_amt o < two64 -> apply_pos_reward l bh o = Ok l1 ->
  forall l', dlgs l1 = dlgs l' -> staked l' = staked l1 -> nget (dhist l') bh = nget (dhist l1) bh ->
  exists l2, remove_pos_reward l' bh o = Ok l2 /\
    dlgs l = dlgs l2 /\ staked l2 = staked l /\ accts l2 = accts l' /\ dhist l2 = dhist l'.
Proof.
  intros (HI & _) Ho H l' Hd Hs Hh.
  destruct (undo_pos_reward l bh o l1 HI Ho H l' (eq_sym Hd) Hs Hh) as (l2 & Hr & D & R).
  exists l2. split; [exact Hr|]. split; [symmetry; exact D|exact R].
Qed.

Lemma sides_true l txs h bh top : sides (fun _ _ => True) l txs h bh top.
Proof. revert l. induction txs as [|t txs IH]; intros l; cbn [sides]; [exact I|]. split; [exact I|intros l1 _; apply IH]. Qed.

Theorem undo_txs txs l h bh top fee ln fee' :
  SInv l -> FPos l -> FUniq l -> total_bal l < two64 ->
  Forall (tx_ok cfg) txs -> Forall stake_pos txs -> NoDup (map tx_id txs) ->
  (forall a, inc (acct_at l a) + nouts_sum txs < two64) ->
  (forall a, nonce (acct_at l a) + N.of_nat (length txs) < two64) ->
  apply_txs cfg l txs h bh top fee = Ok (ln, fee') ->
  forall l' top', leqv ln l' ->
    (forall t, In t txs -> nget (dhist l') (tx_id t) = nget (dhist ln) (tx_id t)) ->
    exists l2, remove_txs cfg l' (rev txs) bh top' = Ok l2 /\ leqv l l2 /\ dhist l2 = dhist l'.
Proof.
  intros HI HP HU Hb Hok Hsp Hnd Hinc Hnon H.
  exact (proj2 (proj2 (undo_txs_gen eq PInv (fun _ _ => True) PInv_ext PInv_kind PInv_tx PInv_pos txs l h bh top fee ln fee'
                         (conj HI (conj HP HU)) Hb Hok Hsp Hnd Hinc Hnon (sides_true l txs h bh top) H))).
Qed.

(* the hypotheses of the block theorems, bundled (Props/C03.v) *)
Definition block_hyps (l : ledger) (b : lblock) : Prop :=
  cfg_ok_emission cfg = true /\
  SInv l /\ FPos l /\ FUniq l /\ total_bal l + reward cfg (lb_height b) <= max_supply cfg /\
  Forall (tx_ok cfg) (lb_txs b) /\ Forall stake_pos (lb_txs b) /\
  NoDup (map tx_id (lb_txs b)) /\ ~ In (lb_hash b) (map tx_id (lb_txs b)) /\
  (forall a, inc (acct_at l a) + nouts_sum (lb_txs b) + 4 < two64) /\
  (forall a, nonce (acct_at l a) + N.of_nat (length (lb_txs b)) < two64).

Lemma undo_block_both l b top_h lB :
  block_hyps l b -> apply_block cfg genesis_addr l b top_h = Ok lB ->
  (forall a, inc (acct_at lB a) <= inc (acct_at l a) + nouts_sum (lb_txs b) + 4 /\
             nonce (acct_at lB a) <= nonce (acct_at l a) + N.of_nat (length (lb_txs b))) /\
  forall l' top', leqv lB l' ->
    (forall k, k = lb_hash b \/ In k (map tx_id (lb_txs b)) -> nget (dhist l') k = nget (dhist lB) k) ->
    exists l2, remove_block cfg genesis_addr l' b top' = Ok l2 /\ leqv l l2 /\ dhist l2 = dhist l'.
Proof.
  intros (Hok & HI & HP & HU & Hb & Htx & Hsp & Hnd & Hbh & Hinc & Hnon) H.
  exact (undo_block_gen eq PInv (fun _ _ => True) PInv_ext PInv_kind PInv_tx PInv_pos Hok l b top_h lB
           (conj HI (conj HP HU)) Hb Htx Hsp Hnd Hbh Hinc Hnon
           (sides_true l (lb_txs b) (lb_height b) (lb_hash b) top_h) H).
Qed.

(* removal from any agreeing ledger (the form that can be chained) *)
Theorem undo_block l b top_h lB :
  block_hyps l b -> apply_block cfg genesis_addr l b top_h = Ok lB ->
  forall l' top', leqv lB l' ->
    (forall k, k = lb_hash b \/ In k (map tx_id (lb_txs b)) -> nget (dhist l') k = nget (dhist lB) k) ->
    exists l2, remove_block cfg genesis_addr l' b top' = Ok l2 /\ leqv l l2 /\ dhist l2 = dhist l'.
Proof. intros Hh H. exact (proj2 (undo_block_both l b top_h lB Hh H)). Qed.

(* counters after a block *)
Lemma apply_block_frame l b top_h lB :
  block_hyps l b -> apply_block cfg genesis_addr l b top_h = Ok lB ->
  forall a, inc (acct_at lB a) <= inc (acct_at l a) + nouts_sum (lb_txs b) + 4 /\
            nonce (acct_at lB a) <= nonce (acct_at l a) + N.of_nat (length (lb_txs b)).
Proof. intros Hh H. exact (proj1 (undo_block_both l b top_h lB Hh H)). Qed.

(* the literal conclusion of C03_undo_block_full: removal from the very ledger the application produced *)
Corollary remove_apply_block l b top_h lB :
  block_hyps l b -> apply_block cfg genesis_addr l b top_h = Ok lB ->
  forall top', exists l2, remove_block cfg genesis_addr lB b top' = Ok l2 /\ same_accounts l2 l /\
    dlgs l2 = dlgs l /\ (forall id, get_dlg l2 id = get_dlg l id) /\ staked l2 = staked l.
Proof.
  intros Hh H top'.
  destruct (undo_block l b top_h lB Hh H lB top' (leqv_refl lB) ltac:(reflexivity))
    as (l2 & Hr & (Hs & _ & Hd & Hst) & _).
  exists l2. split; [exact Hr|]. split; [exact Hs|]. split; [symmetry; exact Hd|].
  split; [intros id; unfold get_dlg; rewrite <- Hd; reflexivity|exact Hst].
Qed.

End Lift.
