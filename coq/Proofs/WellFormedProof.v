(* Property C05: every block the node model accepts satisfies the clauses of Spec/WellFormed.v that the code
   enforces; the clause the code does not enforce (ancestor list = real predecessors) is refuted by a witness. *)
From Virel Require Import Lib.Config Lib.U64 Lib.AMap Lib.CheckLib Model.Ledger Model.Node Spec.WellFormed
  Proofs.AMapLemmas Proofs.Conservation Gen.Params.
Open Scope N_scope.
Open Scope bool_scope.

Section WF.
Variable cfg : config.
Variable genesis_addr team_key : N.

Lemma valid_pow_ok v d : valid_pow v d = Ok true -> negb (d =? 0) = true /\ (v <=? max128 / d) = true.
Proof.
  unfold valid_pow, div128. destruct (d =? 0); cbn; [discriminate|]. intros [= H]. split; [reflexivity|exact H].
Qed.

Lemma sides_pow_ok ss b : sides_pow cfg ss b = Ok tt -> b_diff b * 2 < two128 -> forallb (side_work_ok b) ss = true.
Proof.
  intros H Hd. induction ss as [|s ss IH]; cbn in *; [reflexivity|].
  guard_inv H. guard_inv H. bind_inv H. bind_inv H. guard_inv H.
  rewrite (IH H), Bool.andb_true_r.
  unfold mul64 in E. destruct (b_diff b * 2 <? two128); [|discriminate]. injection E as <-.
  destruct a0; [|discriminate].
  apply valid_pow_ok in E0. destruct E0 as [Hnz Hle]. unfold side_work_ok. rewrite Hnz, Hle. reflexivity.
Qed.

(* what PrevalidateBlock establishes *)
Lemma prevalidate_clauses b now :
  prevalidate_block cfg team_key b now = Ok tt ->
  now + future_time_limit cfg * 1000 < two64 -> b_diff b * 2 < two128 ->
  wf_pow cfg b = true /\ wf_version cfg b = true /\ wf_chains cfg b = true /\ wf_sidework cfg b = true /\
  (b_ts b <=? now + future_time_limit cfg * 1000) = true /\ min_difficulty cfg <= b_diff b.
Proof.
  unfold prevalidate_block. intros H Hnow Hd.
  guard_inv H. guard_inv H. guard_inv H. guard_inv H. guard_inv H. bind_inv H. bind_inv H.
  rewrite wadd_small in G2 by exact Hnow.
  unfold wf_pow, wf_version, wf_chains, wf_sidework.
  rewrite G, G3, G2. apply N.leb_le in G1.
  destruct (is_secured cfg (b_height b)) eqn:Esec; cbn [negb] in H.
  - cbn. repeat split; try reflexivity. exact G1.
  - bind_inv H. guard_inv H. destruct a1; [|discriminate].
    apply valid_pow_ok in E1. destruct E1 as [Hnz Hle]. rewrite Hnz, Hle.
    rewrite (sides_pow_ok _ _ H Hd). cbn. repeat split; try reflexivity. exact G1.
Qed.

(* what checkBlock establishes *)
Lemma check_block_clauses n b p :
  check_block cfg n b p = Ok tt -> b_height p + 1 < two64 ->
  wf_diff cfg n p b = true /\ wf_height p b = true /\ (b_ts p <=? b_ts b) = true /\ wf_cd p b = true.
Proof.
  unfold check_block. intros H Hh.
  bind_inv H. guard_inv H. guard_inv H. guard_inv H. bind_inv H. bind_inv H. bind_inv H. guard_inv H.
  unfold wf_diff, wf_height, wf_cd, res_is.
  match goal with Hd : get_next_difficulty cfg n p = Ok _ |- _ => rewrite Hd end.
  match goal with Hc : contribution b = Ok _ |- _ => rewrite Hc end.
  rewrite wadd_small in G0 by exact Hh.
  match goal with Ha : add128 (b_cd p) _ = Ok _ |- _ =>
    unfold add128 in Ha; destruct (_ <? two128) in Ha; [|discriminate Ha]; injection Ha as <- end.
  repeat split; assumption.
Qed.

(* C05, the part the code enforces: an accepted new block satisfies clauses 1-6, 8 and 14 *)
Theorem accepted_wellformed_core n b now n' amb :
  deliver cfg genesis_addr team_key n b now = (n', Accepted, amb) ->
  now + future_time_limit cfg * 1000 < two64 -> b_diff b * 2 < two128 ->
  (forall p, get_block n (prev_hash b) = Some p -> b_height p + 1 < two64) ->
  exists p, get_block n (prev_hash b) = Some p /\ get_block n (b_hash b) = None /\
    wf_pow cfg b = true /\ wf_diff cfg n p b = true /\ wf_height p b = true /\ wf_time cfg p b now = true /\
    wf_cd p b = true /\ wf_version cfg b = true /\ wf_chains cfg b = true /\ wf_sidework cfg b = true /\
    min_difficulty cfg <= b_diff b.
Proof.
  intros H Hnow Hd Hh. unfold deliver in H.
  destruct (prevalidate_block cfg team_key b now) as [[]|c|c] eqn:Epre; try discriminate.
  destruct (add_block cfg genesis_addr n b) as [[n1 a]|c|c] eqn:Eadd; try discriminate.
  destruct (prevalidate_clauses b now Epre Hnow Hd) as (P1 & P2 & P3 & P4 & P5 & P6).
  unfold add_block in Eadd. guard_inv Eadd. opt_inv Eadd. bind_inv Eadd. destruct a0.
  destruct (check_block_clauses n b x E0 (Hh x eq_refl)) as (C1 & C2 & C3 & C4).
  exists x. split; [reflexivity|]. split; [destruct (get_block n (b_hash b)); [discriminate|reflexivity]|].
  unfold wf_time. rewrite C3, P5. repeat split; assumption.
Qed.

End WF.

(* the full statement of the property clause "an ancestor list equal to the hashes of its actual predecessors"
   is FALSE of the model of the code (open finding R13a): concrete witness on the verifnet constants *)
Definition wit_g := genesis_block cfg_verifnet 7 1 123 (mkcommit 1 1 [0; 0; 0] 0 0 false).
Definition wit_b1 := mkblock 2 0 1 1000 [1; 0; 0] [] 9 0 0 true 0 0 4 5 [] [] 0 55 (mkcommit 2 2 [1; 0; 0] 1000 0 false) false.
Definition wit_b2 := mkblock 3 0 2 2000 [2; 99; 98] [] 9 0 0 true 0 0 4 9 [] [] 0 56 (mkcommit 3 3 [2; 99; 98] 2000 0 false) false.

Theorem accepted_wellformed_anc_refuted :
  exists n b now n' amb p,
    deliver cfg_verifnet 7 0 n b now = (n', Accepted, amb) /\ get_block n (prev_hash b) = Some p /\
    wf_anc p b = false.
Proof.
  destruct (node0 cfg_verifnet 7 wit_g) as [n0| |] eqn:E0; [|vm_compute in E0; discriminate|vm_compute in E0; discriminate].
  destruct (deliver cfg_verifnet 7 0 n0 wit_b1 5000) as [[n1 o1] a1] eqn:E1.
  destruct (deliver cfg_verifnet 7 0 n1 wit_b2 5000) as [[n2 o2] a2] eqn:E2.
  exists n1, wit_b2, 5000, n2, a2, wit_b1.
  vm_compute in E0. injection E0 as <-. vm_compute in E1. injection E1 as <- <- <-.
  vm_compute in E2. injection E2 as <- <- <-.
  split; [vm_compute; reflexivity|]. split; vm_compute; reflexivity.
Qed.
