(* Property C02: concrete witnesses (evaluated on the generated main-net constants) showing which hypotheses of the
   refinement theorems of Proofs/Refine2.v cannot be dropped. *)
From Virel Require Import Lib.Config Lib.U64 Lib.AMap Lib.CheckLib Model.Emission Model.Ledger Spec.Rules
  Proofs.Conservation Proofs.Pointwise Proofs.Refine Proofs.Refine2 Gen.Params.
Open Scope N_scope.

(* 1. The version byte.  Neither Transaction.Prevalidate nor ApplyTxToState compares the version byte with the kind of
   the payload: a transaction object carrying a Stake payload under version byte 1 passes stateless validation and
   is applied as a bare movement of coins (debit of amount + fee, credit of the pool address) WITHOUT the staking
   part (no fund is created, the staked total does not move), while the rules refuse it (clause 8).
   Such an object cannot come from the wire or the database (Transaction.Deserialize chooses the payload type from
   the version byte, Serialize writes the payload's own version), hence the hypothesis [ver_ok]. *)
Definition w_ledger : ledger :=
  mkledger [(11, mkacct 1000000000000 0 0 0)] [(9, mkdlg 9 3 0 [])] 0 [] [] [] [].
Definition w_tx : tx :=
  mktx 7 1 5 5 true false (TStake 100000000000 9 0) 1 710000000.

Lemma version_mismatch_witness :
  exists l1,
    ver_ok w_tx = false /\
    prevalidate_tx cfg_mainnet 0 w_tx 300000 = Ok tt /\
    apply_tx cfg_mainnet w_ledger w_tx 300000 1 299999 = Ok l1 /\
    fst (spec_tx cfg_mainnet 0 w_ledger w_tx 300000) = 8 /\
    bal (acct_at l1 (delegate_addr 9)) = 100000000000 /\
    get_dlg l1 9 = Some (mkdlg 9 3 0 []) /\ staked l1 = 0.
Proof. eexists. vm_compute. repeat split. Qed.

(* the unconditioned statement (every transaction object, no side condition) is therefore false *)
Lemma full_statement_refuted :
  ~ (forall cfg team_key l t h bh l1,
       total_bal l < two64 -> wf_tx cfg t ->
       prevalidate_tx cfg team_key t h = Ok tt ->
       apply_tx cfg l t h bh (h - 1) = Ok l1 ->
       fst (spec_tx cfg team_key l t h) = 0 /\ same_accounts l1 (snd (spec_tx cfg team_key l t h)) /\
       staked l1 = staked (snd (spec_tx cfg team_key l t h))).
Proof.
  intros H.
  destruct version_mismatch_witness as (l1 & _ & Hp & Ha & Hs & _).
  assert (Hb : total_bal w_ledger < two64) by (vm_compute; reflexivity).
  assert (Hwf : wf_tx cfg_mainnet w_tx) by (vm_compute; repeat split).
  destruct (H cfg_mainnet 0 w_ledger w_tx 300000 1 l1 Hb Hwf Hp Ha) as [Hz _].
  rewrite Hs in Hz. discriminate Hz.
Qed.
