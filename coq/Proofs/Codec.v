(* Round-trip lemmas for transaction / state / delegate codecs (Model/Codec.v). *)
From Virel Require Import Lib.Config Lib.U64 Model.Des Model.Codec Proofs.Des.
Open Scope N_scope.

Ltac bool_props :=
  repeat match goal with
  | H : (_ && _)%bool = true |- _ => apply andb_prop in H; destruct H
  | H : (_ <? _) = true |- _ => apply N.ltb_lt in H
  | H : (_ =? _) = true |- _ => apply N.eqb_eq in H
  | H : (_ <=? _) = true |- _ => apply N.leb_le in H
  | H : u64b _ = true |- _ => unfold u64b in H
  | H : lenb _ _ = true |- _ => unfold lenb in H
  end.

Ltac ltb_false := symmetry; apply N.ltb_ge; lia.
Ltac ltb_true := symmetry; apply N.ltb_lt; lia.
Ltac eqb_false := symmetry; apply N.eqb_neq; lia.

Lemma nat_blen {A} (l : list A) : N.to_nat (blen l) = length l.
Proof. unfold blen. lia. Qed.

Section CodecProofs.
Variable cfg : config.
Hypothesis Hok : cfg_ok_codec cfg = true.

Lemma ok_consts : max_tx_version cfg = 5 /\ addr_size cfg = 22 /\ pubkey_size cfg = 32 /\ signature_size cfg = 64
  /\ max_outputs cfg < two64.
Proof. unfold cfg_ok_codec in Hok. bool_props. auto. Qed.

Lemma output_decodes o : wf_output cfg o = true -> decodes (dec_output cfg) (enc_output o) o.
Proof.
  intros Hwf rest a. destruct o as [r p am]. unfold wf_output in Hwf. cbn [o_recipient o_payment_id o_amount] in Hwf.
  bool_props. unfold dec_output, enc_output. cbn [o_recipient o_payment_id o_amount].
  rewrite <- !app_assoc.
  rewrite run_fixed by assumption. rewrite run_to_array by assumption.
  rewrite run_uvarint by assumption. rewrite run_uvarint by assumption.
  eexists. apply run_ret_err.
Qed.

Lemma txdata_decodes d : wf_txdata cfg d = true ->
  decodes (let ver := data_version d in
           if (ver =? 0) || (ver =? 1) then dec_transfer cfg
           else if ver =? 2 then dec_register
           else if ver =? 3 then dec_set_delegate
           else if ver =? 4 then dec_stake
           else if ver =? 5 then dec_unstake
           else fail) (enc_txdata d) d.
Proof.
  intros Hwf rest a. destruct d as [outs|name id|dl p|am dl p|am dl]; cbn [data_version N.eqb Pos.eqb orb];
    cbn [wf_txdata] in Hwf; bool_props; cbv zeta; cbn [N.eqb Pos.eqb orb enc_txdata].
  - (* transfer *)
    destruct ok_consts as (_ & _ & _ & _ & Hmo).
    unfold dec_transfer. rewrite <- app_assoc. rewrite run_uvarint by lia.
    replace (max_outputs cfg <? blen outs) with false by ltb_false.
    replace (blen outs =? 0) with false by eqb_false. cbn [orb].
    rewrite run_alloc. rewrite nat_blen.
    assert (Hall : Forall (fun o => wf_output cfg o = true) outs) by (apply Forall_forall; apply forallb_forall; assumption).
    destruct (decodes_rep (dec_output cfg) enc_output _ output_decodes outs Hall rest (a + SZ_OUTPUT * blen outs)) as [a' E].
    unfold bind at 1. rewrite E. eexists. apply run_ret_err.
  - unfold dec_register. rewrite <- app_assoc.
    unfold read_byte_slice. rewrite (run_byte_slice_gen true) by assumption.
    rewrite run_uvarint by assumption. eexists. apply run_ret_err.
  - unfold dec_set_delegate. rewrite <- app_assoc.
    rewrite run_uvarint by assumption. rewrite run_uvarint by assumption. eexists. apply run_ret_err.
  - unfold dec_stake. rewrite <- !app_assoc.
    rewrite run_uvarint by assumption. rewrite run_uvarint by assumption. rewrite run_uvarint by assumption.
    eexists. apply run_ret_err.
  - unfold dec_unstake. rewrite <- app_assoc.
    rewrite run_uvarint by assumption. rewrite run_uvarint by assumption. eexists. apply run_ret_err.
Qed.

Lemma data_version_range d : 1 <= data_version d <= 5.
Proof. destruct d; cbn; lia. Qed.

Lemma tx_decodes hv t : wf_tx cfg hv t = true -> decodes (dec_tx cfg hv) (enc_tx t) t.
Proof.
  intros Hwf rest a. destruct t as [ver sg si d nonce fee]. unfold wf_tx in Hwf.
  cbn [tx_version tx_signer tx_signature tx_data tx_nonce tx_fee] in Hwf.
  destruct ok_consts as (Hmv & _ & _ & _ & _).
  unfold dec_tx, enc_tx. cbn [tx_version tx_signer tx_signature tx_data tx_nonce tx_fee].
  pose proof (data_version_range d) as Hdv.
  assert (Hd : wf_txdata cfg d = true) by (destruct hv; bool_props; assumption).
  pose proof (txdata_decodes d Hd) as Hdata. cbv zeta in Hdata.
  destruct hv.
  - bool_props. subst ver.
    replace (data_version d =? 0) with false by eqb_false. cbn [app].
    rewrite <- !app_assoc.
    rewrite run_bind_assoc. rewrite run_u8. rewrite Hmv.
    replace (5 <? data_version d) with false by ltb_false.
    replace (data_version d =? 0) with false by eqb_false. cbn [orb]. rewrite run_ret.
    rewrite run_fixed by assumption. rewrite run_to_array by assumption.
    rewrite run_fixed by assumption. rewrite run_to_array by assumption.
    destruct (Hdata (put_uvarint nonce ++ put_uvarint fee ++ rest) a) as [a' E].
    unfold bind at 1. rewrite E.
    rewrite run_uvarint by assumption. rewrite run_uvarint by assumption. eexists. apply run_ret_err.
  - bool_props. subst ver. destruct d as [outs| | | |]; try discriminate.
    cbn [N.eqb app]. rewrite <- !app_assoc. rewrite run_ret.
    rewrite run_fixed by assumption. rewrite run_to_array by assumption.
    rewrite run_fixed by assumption. rewrite run_to_array by assumption.
    cbn [data_version N.eqb Pos.eqb orb] in Hdata. cbn [N.eqb orb].
    destruct (Hdata (put_uvarint nonce ++ put_uvarint fee ++ rest) a) as [a' E].
    unfold bind at 1. rewrite E.
    rewrite run_uvarint by assumption. rewrite run_uvarint by assumption. eexists. apply run_ret_err.
Qed.

Lemma fund_decodes f : wf_fund cfg f = true -> decodes (dec_fund cfg) (enc_fund f) f.
Proof.
  intros Hwf rest a. destruct f as [o am u]. unfold wf_fund in Hwf. cbn [f_owner f_amount f_unlock] in Hwf.
  bool_props. unfold dec_fund, enc_fund. cbn [f_owner f_amount f_unlock].
  rewrite <- !app_assoc. rewrite run_alloc.
  rewrite run_fixed by assumption. rewrite run_to_array by assumption.
  rewrite run_uvarint by assumption. rewrite run_uvarint by assumption. eexists. reflexivity.
Qed.

Lemma enc_funds_len l : Forall (fun f => wf_fund cfg f = true) l -> 24 * blen l <= blen (concat (map enc_fund l)).
Proof.
  destruct ok_consts as (_ & Has & _).
  induction 1 as [|f l Hf _ IH]; cbn [map concat].
  - unfold blen. cbn [length]. lia.
  - rewrite blen_cons, blen_app.
    assert (24 <= blen (enc_fund f)).
    { unfold wf_fund in Hf. bool_props. unfold enc_fund. rewrite !blen_app.
      pose proof (put_uvarint_f_len_pos 9 (f_amount f)). pose proof (put_uvarint_f_len_pos 9 (f_unlock f)).
      unfold put_uvarint. lia. }
    lia.
Qed.

Lemma delegate_decodes g : wf_delegate cfg g = true -> decodes (dec_delegate cfg) (enc_delegate g) g.
Proof.
  intros Hwf rest a. destruct g as [id ow name funds]. unfold wf_delegate in Hwf.
  cbn [dg_id dg_owner dg_name dg_funds] in Hwf. bool_props.
  unfold dec_delegate, enc_delegate. cbn [dg_id dg_owner dg_name dg_funds].
  rewrite <- !app_assoc. rewrite run_u8. cbn [N.eqb negb].
  rewrite run_uvarint by assumption.
  rewrite run_fixed by assumption. rewrite run_to_array by assumption.
  unfold read_byte_slice. rewrite (run_byte_slice_gen true) by assumption.
  rewrite run_uvarint by assumption. rewrite run_remaining. cbn [d_data].
  assert (Hall : Forall (fun f => wf_fund cfg f = true) funds) by (apply Forall_forall; apply forallb_forall; assumption).
  pose proof (enc_funds_len funds Hall) as Hlen.
  replace (blen (concat (map enc_fund funds) ++ rest) / 20 <? blen funds) with false.
  2:{ symmetry. apply N.ltb_ge. apply N.div_le_lower_bound; [discriminate|]. rewrite blen_app. lia. }
  rewrite run_alloc. rewrite nat_blen.
  destruct (decodes_rep (dec_fund cfg) enc_fund _ fund_decodes funds Hall rest (a + SZ_PTR * blen funds)) as [a' E].
  unfold bind at 1. rewrite E. eexists. apply run_ret_err.
Qed.

(* ---- top-level statements *)

Theorem uvarint_roundtrip v : v < two64 -> result_of (run (x <- read_uvarint ;; ret_err x) (put_uvarint v)) = ROk v.
Proof.
  intros Hv. unfold run, init. rewrite <- (app_nil_r (put_uvarint v)). rewrite run_uvarint by assumption. reflexivity.
Qed.

Theorem byte_slice_roundtrip b : blen b < two64 ->
  result_of (run (x <- read_byte_slice ;; ret_err x) (add_byte_slice b)) = ROk b.
Proof.
  intros Hb. unfold run, init. rewrite <- (app_nil_r (add_byte_slice b)).
  unfold read_byte_slice. rewrite (run_byte_slice_gen true) by assumption. reflexivity.
Qed.

Theorem output_roundtrip o : wf_output cfg o = true -> result_of (run (dec_output cfg) (enc_output o)) = ROk o.
Proof. intros H. apply decodes_run, output_decodes, H. Qed.

Theorem tx_roundtrip hv t : wf_tx cfg hv t = true -> result_of (run (dec_tx cfg hv) (enc_tx t)) = ROk t.
Proof. intros H. apply decodes_run, tx_decodes, H. Qed.

Theorem delegate_roundtrip g : wf_delegate cfg g = true -> result_of (run (dec_delegate cfg) (enc_delegate g)) = ROk g.
Proof. intros H. apply decodes_run, delegate_decodes, H. Qed.

Theorem tx_enc_injective hv t1 t2 : wf_tx cfg hv t1 = true -> wf_tx cfg hv t2 = true -> enc_tx t1 = enc_tx t2 -> t1 = t2.
Proof. apply (enc_injective (dec_tx cfg hv) enc_tx (fun t => wf_tx cfg hv t = true)). apply tx_roundtrip. Qed.

Theorem delegate_enc_injective g1 g2 :
  wf_delegate cfg g1 = true -> wf_delegate cfg g2 = true -> enc_delegate g1 = enc_delegate g2 -> g1 = g2.
Proof. apply (enc_injective (dec_delegate cfg) enc_delegate (fun g => wf_delegate cfg g = true)). apply delegate_roundtrip. Qed.

End CodecProofs.

(* State does not depend on the configuration *)
Lemma state_decodes x : wf_state x = true -> decodes dec_state (enc_state x) x.
Proof.
  intros Hwf rest a. destruct x as [b n li did]. unfold wf_state in Hwf.
  cbn [st_balance st_last_nonce st_last_incoming st_delegate_id] in Hwf. bool_props.
  unfold dec_state, enc_state. cbn [st_balance st_last_nonce st_last_incoming st_delegate_id].
  rewrite <- !app_assoc.
  rewrite run_uvarint by assumption. rewrite run_uvarint by assumption. rewrite run_uvarint by assumption.
  rewrite run_remaining. cbn [d_data].
  assert (Hl : lenltb (add_u8 1 ++ put_uvarint did ++ rest) 1 = false).
  { rewrite lenltb_spec. cbn [add_u8 app]. rewrite blen_cons. apply N.ltb_ge. lia. }
  rewrite Hl. cbn [negb]. rewrite run_u8. cbn [N.eqb Pos.eqb negb]. rewrite run_uvarint by assumption. eexists. reflexivity.
Qed.

Theorem state_roundtrip x : wf_state x = true -> result_of (run dec_state (enc_state x)) = ROk x.
Proof. intros H. apply decodes_run, state_decodes, H. Qed.

Theorem state_enc_injective x1 x2 : wf_state x1 = true -> wf_state x2 = true -> enc_state x1 = enc_state x2 -> x1 = x2.
Proof. apply (enc_injective dec_state enc_state (fun x => wf_state x = true)). apply state_roundtrip. Qed.

