(* Property C17: the event lists of the index theorems (Proofs/History1.v, over the ledger's view of a block, total =
   reward + fees with the code's wrapping additions) are the lists Check/C17.v computes from a dump's chain (over stored
   blocks, total = reward + fees as plain numbers) for every block that ApplyBlockToState accepted: the acceptance checks
   (codes 391, 393) say that neither addition wrapped.  Hence, for a reachable node, the main-chain events of the
   theorems = flat_map (Check.C17.block_credits / block_signs) over genesis :: mchain. *)
From Coq Require Import Sorting.Sorted.
From Virel Require Import Lib.Config Lib.U64 Lib.AMap Lib.CheckLib Model.Emission Model.Ledger Model.Node Spec.Chain Spec.Rules
  Proofs.AMapLemmas Proofs.Emission Proofs.Conservation Proofs.Pointwise Proofs.Refine Proofs.Staking Proofs.StakedSum
  Proofs.Refine2 Proofs.NodeBasics Proofs.ForkChoice Proofs.Restart Proofs.ChainInv Proofs.ChainRun Proofs.ChainHeights
  Proofs.Undo Proofs.Undo2 Proofs.Undo4 Proofs.Replay1 Proofs.Replay2 Proofs.Replay3 Proofs.Replay4 Proofs.Replay5
  Proofs.History1 Proofs.History2 Proofs.History3 Check.Hist Check.C01 Check.C17.
Open Scope N_scope.
Open Scope bool_scope.

Lemma plain_sum_ge txs : forall s, s <= fold_left (fun s t => s + tx_fee t) txs s.
Proof. induction txs as [|t txs IH]; intros s; cbn [fold_left]; [lia|]. specialize (IH (s + tx_fee t)). lia. Qed.

Lemma fold_wadd_plain txs : forall s, fold_left (fun s t => s + tx_fee t) txs s < two64 ->
  fold_left (fun s t => wadd s (tx_fee t)) txs s = fold_left (fun s t => s + tx_fee t) txs s.
Proof.
  induction txs as [|t txs IH]; intros s H; cbn [fold_left] in *; [reflexivity|].
  pose proof (plain_sum_ge txs (s + tx_fee t)). rewrite wadd_small by lia. apply IH. exact H.
Qed.

Section Link.
Variable cfg : config.
Hypothesis Hok : cfg_ok_emission cfg = true.

(* an accepted block: no addition of the fee total wrapped *)
Lemma apply_txs_fee_plain txs : forall l h bh top fee ln fee',
  fee < two64 -> Forall (fun t => tx_fee t < two64) txs ->
  apply_txs cfg l txs h bh top fee = Ok (ln, fee') ->
  fee' = fold_left (fun s t => s + tx_fee t) txs fee /\ fee' < two64.
Proof.
  induction txs as [|t txs IH]; intros l h bh top fee ln fee' Hf Hall H; cbn [apply_txs] in H.
  - injection H as _ <-. split; [reflexivity|exact Hf].
  - inversion Hall as [|? ? Ht Hall']; subst. bind_inv H. guard_inv H. apply Bool.negb_true_iff in G.
    destruct (wadd_nowrap_of_check fee (tx_fee t) Hf Ht G) as [Hw Hw64]. rewrite Hw in H.
    cbn [fold_left]. exact (IH _ _ _ _ _ _ _ Hw64 Hall' H).
Qed.

Lemma apply_block_nowrap genesis_addr l b top l' :
  Forall (fun t => tx_fee t < two64) (lb_txs b) ->
  apply_block cfg genesis_addr l b top = Ok l' ->
  reward cfg (lb_height b) + fold_left (fun s t => s + tx_fee t) (lb_txs b) 0 < two64.
Proof.
  destruct (ok_facts cfg Hok) as ((HRI & HRI64) & H9 & Hms & Hms64 & _).
  intros Hall H. unfold apply_block in H. bind_inv H. clear E. bind_inv H. destruct a0 as [ln fee].
  destruct (apply_txs_fee_plain _ _ _ _ _ _ _ _ two64_pos Hall E) as [Hfee Hfee64].
  guard_inv H. apply Bool.negb_true_iff in G.
  pose proof (reward_le_BR cfg Hok (lb_height b)) as HrBR.
  destruct (wadd_nowrap_of_check (reward cfg (lb_height b)) fee ltac:(lia) Hfee64 G) as [_ Hw64].
  rewrite <- Hfee. exact Hw64.
Qed.

(* the events of one block *)
Lemma block_events_check h B x :
  reward cfg (b_height B) + fee_sum B < two64 ->
  Check.C17.block_credits cfg h B = History1.block_credits cfg (h_genesis_addr h) (to_lblock B x) /\
  Check.C17.block_signs B = History1.block_signs (to_lblock B x).
Proof.
  intros Hnw. split; [|reflexivity].
  unfold Check.C17.block_credits, History1.block_credits. f_equal.
  unfold Check.C17.cb_credits, History1.cb_credits, cb_credits_of, lb_fee.
  cbn [lb_txs lb_height lb_version lb_signed lb_recipient lb_delegate_id lb_hash to_lblock].
  unfold fee_sum in Hnw |- *.
  rewrite fold_wadd_plain by lia. rewrite wadd_small by exact Hnw. reflexivity.
Qed.

Lemma apply_chain_each genesis_addr C : forall l l', apply_chain cfg genesis_addr l C = Ok l' ->
  Forall (fun b => exists l1 l2, apply_block cfg genesis_addr l1 b (lb_height b - 1) = Ok l2) C.
Proof.
  induction C as [|b C IH]; intros l l' H; cbn [Conservation.apply_chain] in H; [constructor|].
  bind_inv H. constructor; [exists l, a; exact E|exact (IH _ _ H)].
Qed.

Variable genesis_addr team_key : N.

(* for a reachable node: the main-chain events of the theorems are those Check/C17.v replays from the chain *)
Theorem main_events_as_checked g n0 ops h :
  cfg_ok_feepos cfg = true ->
  node0 cfg genesis_addr g = Ok n0 -> b_height g = 0 -> b_cd g = b_diff g ->
  N.of_nat (length ops) < two64 - 1 ->
  let n := run cfg genesis_addr team_key n0 ops in
  Forall (tx_c cfg) (b_txs g) ->
  (forall h b, get_block n h = Some b -> Forall (fun t => wf_tx cfg t /\ ver_ok t = true) (b_txs b)) ->
  (forall bs, up (b_hash g) (blocks n) (b_hash g) bs ->
     NoDup (bkeys g ++ flat_map bkeys bs) /\ c0 g + bnouts bs < two64 /\ c0 g + bntx bs < two64) ->
  h_genesis_addr h = genesis_addr ->
  main_credits cfg genesis_addr g n = flat_map (Check.C17.block_credits cfg h) (g :: mchain n) /\
  main_signs g n = flat_map Check.C17.block_signs (g :: mchain n).
Proof.
  intros Hfp Hn0 Hg0 Hcd Hlen n Hgen Htyped Hpaths Hga.
  destruct (ledger_is_replay_validated cfg genesis_addr team_key g n0 ops Hok Hfp Hn0 Hg0 Hcd Hlen Hgen Htyped Hpaths)
    as (lr & Hr & _).
  fold n in Hr. pose proof (apply_chain_each genesis_addr _ _ _ Hr) as Heach.
  destruct (mchain_is_height_index cfg genesis_addr team_key g n0 ops Hn0 Hg0 Hcd Hlen) as (_ & Hst). fold n in Hst.
  (* every block of the chain: no wrap *)
  assert (Hg : reward cfg (b_height g) + fee_sum g < two64).
  { unfold node0, apply_block_node in Hn0. bind_inv Hn0.
    match type of E with apply_block _ _ _ ?B _ = _ =>
      apply (apply_block_nowrap genesis_addr _ B _ _) in E; [exact E|] end.
    cbn [lb_txs to_lblock]. eapply Forall_impl; [|exact Hgen]. intros t (((X & _) & _) & _). exact X. }
  assert (Hm : Forall (fun B => reward cfg (b_height B) + fee_sum B < two64) (mchain n)).
  { rewrite Forall_forall in *. intros B HB. specialize (Hst B HB).
    destruct (Heach (lb_of n B) ltac:(unfold lbs; apply in_map; exact HB)) as (l1 & l2 & Hap).
    apply (apply_block_nowrap genesis_addr _ (lb_of n B) _ _) in Hap; [exact Hap|].
    change (lb_txs (lb_of n B)) with (b_txs B). pose proof (Htyped _ _ Hst) as Hty. rewrite Forall_forall in *.
    intros t Ht. destruct (Hty t Ht) as [(X & _) _]. exact X. }
  unfold main_credits, main_signs, main_lbs, glb.
  change (History1.chain_credits cfg genesis_addr (to_lblock g 0 :: lbs n (mchain n)))
    with (History1.block_credits cfg genesis_addr (to_lblock g 0) ++ History1.chain_credits cfg genesis_addr (lbs n (mchain n))).
  change (chain_signs (to_lblock g 0 :: lbs n (mchain n)))
    with (History1.block_signs (to_lblock g 0) ++ chain_signs (lbs n (mchain n))).
  cbn [flat_map]. rewrite <- Hga.
  destruct (block_events_check h g 0 Hg) as [<- <-].
  assert (Hrest : History1.chain_credits cfg (h_genesis_addr h) (lbs n (mchain n)) = flat_map (Check.C17.block_credits cfg h) (mchain n) /\
                  chain_signs (lbs n (mchain n)) = flat_map Check.C17.block_signs (mchain n)).
  { clear - Hm. induction (mchain n) as [|B r IH]; [split; reflexivity|]. inversion Hm as [|? ? HB Hr]; subst.
    destruct (IH Hr) as [I1 I2]. cbn [lbs map History1.chain_credits chain_signs flat_map].
    fold (lbs n r). fold (History1.chain_credits cfg (h_genesis_addr h) (lbs n r)). fold (chain_signs (lbs n r)).
    rewrite I1, I2. unfold lb_of. destruct (block_events_check h B (lottery_of n (prev_hash B)) HB) as [<- <-].
    split; reflexivity. }
  destruct Hrest as [-> ->]. split; reflexivity.
Qed.

End Link.
