(* Key invariants of the ledger that hold UNCONDITIONALLY (whatever the transactions and blocks are, whether an operation
   is an application or an undo):
     KInv l :=  the account index holds at most one record per address,
                the delegate table is in database-key order,
                the delegate table holds at most one record per pool id.
   The account index is only written through put_state (nset: replace in place or append), the delegate table only through
   put_dlg (dins: replace the record of the same id, or insert in key order) and del_dlg.  Every function of
   Model/Ledger.v and every step of a delivery (Model/Node.v: extension, the three loops of CheckReorgs) keeps KInv, hence
   it holds in every node state reachable from genesis - with no premise on the blocks.

   Second part (application side only): ZInv l := records filed under their own id, no record under id 0; kept by
   ApplyBlockToState when no transaction registers delegate 0 (Transaction.Prevalidate refuses that: code 208). *)
From Coq Require Import Sorting.Sorted.
From Virel Require Import Lib.Config Lib.U64 Lib.AMap Model.Emission Model.Ledger Model.Node
  Proofs.AMapLemmas Proofs.Emission Proofs.Conservation Proofs.Staking Proofs.StakedSum Proofs.NodeBasics Proofs.ForkChoice
  Proofs.Restart Proofs.ChainInv.
Open Scope N_scope.
Open Scope bool_scope.

(* ---------------------------------------------------------------- the delegate table *)
Lemma dins_keys_in m id d x : In x (map fst (dins m id d)) -> x = id \/ In x (map fst m).
Proof.
  induction m as [|[id' d'] m IH]; cbn [dins map fst In].
  - intros [<-|[]]. left. reflexivity.
  - destruct (id =? id'); cbn [map fst In].
    + intros [<-|H]; [left; reflexivity|right; right; exact H].
    + destruct (dbkey id <? dbkey id'); cbn [map fst In].
      * intros [<-|[<-|H]]; [left; reflexivity|right; left; reflexivity|right; right; exact H].
      * intros [<-|H]; [right; left; reflexivity|].
        destruct (IH H) as [->|H']; [left; reflexivity|right; right; exact H'].
Qed.

(* replace or insert: the ids stay pairwise distinct (the order by key is what makes the insertion safe: an id that is
   inserted before a record with a larger key cannot occur behind it) *)
Lemma dins_nodup m id d : dsorted m -> NoDup (map fst m) -> NoDup (map fst (dins m id d)).
Proof.
  unfold dsorted. induction m as [|[id' d'] m IH]; cbn [dins map fst]; intros Hs Hn.
  - constructor; [intros []|constructor].
  - inversion Hs as [|? ? Hs' Hall]; subst. inversion Hn as [|? ? Hni Hn']; subst. rewrite Forall_forall in Hall.
    destruct (N.eqb_spec id id') as [->|Hne]; cbn [map fst].
    + constructor; assumption.
    + destruct (N.ltb_spec (dbkey id) (dbkey id')) as [Hlt|Hge]; cbn [map fst].
      * constructor; [|constructor; assumption].
        intros [E|Hin]; [congruence|]. apply in_map_iff in Hin. destruct Hin as (y & Hy & Hyin).
        specialize (Hall y Hyin). unfold kle in Hall. cbn [fst] in Hall. rewrite Hy in Hall. lia.
      * constructor; [|apply IH; assumption].
        intros Hin. apply dins_keys_in in Hin. destruct Hin as [E|Hin]; [congruence|contradiction].
Qed.

Lemma ndel_in {V} (m : list (N * V)) k y : In y (ndel m k) -> In y m.
Proof.
  unfold ndel. induction m as [|[k0 v0] m IH]; cbn [adel In]; [intros []|].
  destruct (k =? k0); cbn [In]; [intros H; right; exact H|]. intros [H|H]; [left; exact H|right; apply IH; exact H].
Qed.

Lemma ndel_sorted m id : dsorted m -> dsorted (ndel m id).
Proof.
  unfold dsorted, ndel. induction m as [|[k v] m IH]; cbn [adel]; intros Hs; [exact Hs|].
  inversion Hs as [|? ? Hs' Hall]; subst.
  destruct (id =? k); [exact Hs'|]. constructor; [apply IH; exact Hs'|].
  rewrite Forall_forall in *. intros y Hy. apply Hall. exact (ndel_in m id y Hy).
Qed.

Lemma ndel_keyed m id : keyed m -> keyed (ndel m id).
Proof.
  unfold keyed. intros H. rewrite Forall_forall in *. intros y Hy. apply H. exact (ndel_in m id y Hy).
Qed.

(* ---------------------------------------------------------------- KInv *)
Definition KInv (l : ledger) : Prop :=
  NoDup (keys (accts l)) /\ dsorted (dlgs l) /\ NoDup (map fst (dlgs l)).

Lemma KInv0 : KInv ledger0.
Proof. split; [constructor|]. split; constructor. Qed.

Lemma KInv_ext l l' : accts l' = accts l -> dlgs l' = dlgs l -> KInv l -> KInv l'.
Proof. unfold KInv. intros -> ->. exact (fun H => H). Qed.

Lemma KInv_put_state l a s : KInv l -> KInv (put_state l a s).
Proof.
  intros (H1 & H2 & H3). unfold KInv, put_state. cbn [accts dlgs set_accts].
  split; [apply nodup_nset; exact H1|]. split; assumption.
Qed.

Lemma KInv_put_dlg l d : KInv l -> KInv (put_dlg l d).
Proof.
  intros (H1 & H2 & H3). unfold KInv, put_dlg. cbn [accts dlgs set_dlgs].
  split; [exact H1|]. split; [apply dins_sorted; exact H2|apply dins_nodup; assumption].
Qed.

Lemma KInv_del_dlg l id : KInv l -> KInv (del_dlg l id).
Proof.
  intros (H1 & H2 & H3). unfold KInv, del_dlg. cbn [accts dlgs set_dlgs].
  split; [exact H1|]. split; [apply ndel_sorted; exact H2|]. exact (nodup_ndel (dlgs l) id H3).
Qed.

Lemma KInv_stats_staked l a l' : KInv l -> stats_staked l a = Ok l' -> KInv l'.
Proof. unfold stats_staked. intros HK H. destruct (_ <? _); [discriminate|]. injection H as <-. exact HK. Qed.
Lemma KInv_stats_unstaked l a l' : KInv l -> stats_unstaked l a = Ok l' -> KInv l'.
Proof. unfold stats_unstaked. intros HK H. destruct (_ <? _); [discriminate|]. injection H as <-. exact HK. Qed.

Section Ops.
Variable cfg : config.
Variable genesis_addr team_key : N.

Lemma KInv_apply_stake l amt id pu signer top_h txid rv l' :
  KInv l -> apply_stake cfg l amt id pu signer top_h txid rv = Ok l' -> KInv l'.
Proof.
  intros HK H. unfold apply_stake in H. bind_inv H. bind_inv H. bind_inv H. injection H as <-.
  apply KInv_put_dlg. eapply KInv_stats_staked; eassumption.
Qed.

Lemma KInv_apply_unstake l amt id signer top_h txid rv pu l' :
  KInv l -> apply_unstake l amt id signer top_h txid rv pu = Ok l' -> KInv l'.
Proof.
  intros HK H. unfold apply_unstake in H. bind_inv H. bind_inv H. guard_inv H. guard_inv H. bind_inv H. injection H as <-.
  apply KInv_put_dlg.
  match goal with Hs : stats_unstaked _ _ = Ok _ |- _ => eapply KInv_stats_unstaked; [|exact Hs] end.
  destruct (_ && _); exact HK.
Qed.

Lemma KInv_apply_pos_reward l bh o l' : KInv l -> apply_pos_reward l bh o = Ok l' -> KInv l'.
Proof.
  intros HK H. unfold apply_pos_reward in H.
  guard_inv H. bind_inv H. guard_inv H. bind_inv H. guard_inv H. bind_inv H.
  match goal with p : (list fund * N)%type |- _ => destruct p as [funds1 added] end.
  guard_inv H. bind_inv H. bind_inv H. guard_inv H. bind_inv H. injection H as <-.
  apply KInv_put_dlg.
  match goal with Hs : stats_staked _ _ = Ok _ |- _ => eapply KInv_stats_staked; [|exact Hs] end.
  exact HK.
Qed.

Lemma KInv_remove_pos_reward l bh o l' : KInv l -> remove_pos_reward l bh o = Ok l' -> KInv l'.
Proof.
  intros HK H. unfold remove_pos_reward in H.
  guard_inv H. bind_inv H. guard_inv H. bind_inv H. guard_inv H. bind_inv H. injection H as <-.
  apply KInv_put_dlg. eapply KInv_stats_unstaked; eassumption.
Qed.

Lemma KInv_apply_outputs outs : forall l bh txid, KInv l -> KInv (fst (apply_outputs l bh outs txid)).
Proof.
  induction outs as [|o outs IH]; intros l bh txid HK; cbn [apply_outputs]; [exact HK|].
  destruct (safe_add _ (o_amt o)) as [b|]; [|exact HK].
  match goal with |- context [put_state ?L1 ?A ?S] => set (l2 := put_state L1 A S) end.
  assert (HK2 : KInv l2) by (apply KInv_put_state; exact HK).
  destruct (o_type o =? OUT_COINBASE_POS); [|apply IH; exact HK2].
  destruct (apply_pos_reward l2 bh o) as [l3|c|c] eqn:Er; [|exact HK2|exact HK2].
  apply IH. eapply KInv_apply_pos_reward; eassumption.
Qed.

Lemma KInv_remove_outputs outs : forall l bh, KInv l -> KInv (fst (remove_outputs l bh outs)).
Proof.
  induction outs as [|o outs IH]; intros l bh HK; cbn [remove_outputs]; [exact HK|].
  destruct (get_state l (o_rcpt o)) as [st|]; [|exact HK].
  destruct (bal st <? o_amt o); [exact HK|]. destruct (inc st =? 0); [exact HK|].
  match goal with |- context [put_state ?L1 ?A ?S] => set (l1 := put_state L1 A S) end.
  assert (HK1 : KInv l1) by (apply KInv_put_state; exact HK).
  destruct (o_type o =? OUT_COINBASE_POS); [|apply IH; exact HK1].
  destruct (remove_pos_reward l1 bh o) as [l2|c|c] eqn:Er; [|exact HK1|exact HK1].
  apply IH. eapply KInv_remove_pos_reward; eassumption.
Qed.

Lemma KInv_apply_inputs ins : forall l l', KInv l -> apply_inputs l ins = Ok l' -> KInv l'.
Proof.
  induction ins as [|[amt sender] ins IH]; intros l l' HK H; cbn [apply_inputs] in H.
  - injection H as <-. exact HK.
  - opt_inv H. guard_inv H. eapply IH; [|exact H]. apply KInv_put_state. exact HK.
Qed.

Lemma KInv_remove_inputs ins : forall l l', KInv l -> remove_inputs l ins = Ok l' -> KInv l'.
Proof.
  induction ins as [|[amt sender] ins IH]; intros l l' HK H; cbn [remove_inputs] in H.
  - injection H as <-. exact HK.
  - opt_inv H. opt_inv H. eapply IH; [|exact H]. apply KInv_put_state. exact HK.
Qed.

Lemma KInv_apply_tx l t h bh top_h l' : KInv l -> apply_tx cfg l t h bh top_h = Ok l' -> KInv l'.
Proof.
  intros HK H. unfold apply_tx in H.
  opt_inv H. guard_inv H. bind_inv H.
  match goal with p : (ledger * acct)%type |- _ => destruct p as [l1 st1] end.
  bind_inv H. bind_inv H. injection H as <-.
  assert (HK1 : KInv l1).
  { match goal with Ek : match tx_data t with _ => _ end = Ok (l1, st1) |- _ => rename Ek into E0' end.
    destruct (tx_data t) as [os|nl name id|nw pv|sa id pu|sa id].
    - injection E0' as <- <-. exact HK.
    - destruct (tx_version t =? 2); [|injection E0' as <- <-; exact HK].
      guard_inv E0'. injection E0' as <- <-. apply KInv_put_dlg. exact HK.
    - destruct (tx_version t =? 3); [|injection E0' as <- <-; exact HK].
      guard_inv E0'. guard_inv E0'. guard_inv E0'. injection E0' as <- <-. exact HK.
    - destruct (tx_version t =? 4); [|injection E0' as <- <-; exact HK].
      guard_inv E0'. guard_inv E0'. bind_inv E0'. injection E0' as <- <-.
      eapply KInv_apply_stake; eassumption.
    - destruct (tx_version t =? 5); [|injection E0' as <- <-; exact HK].
      guard_inv E0'. guard_inv E0'. bind_inv E0'. injection E0' as <- <-.
      eapply KInv_apply_unstake; eassumption. }
  match goal with Ei : apply_inputs ?L2 _ = Ok ?l3 |- _ =>
    assert (HK3 : KInv l3) by (eapply KInv_apply_inputs; [|exact Ei]; apply KInv_put_state; exact HK1) end.
  match goal with |- context [apply_outputs ?L3 bh ?o (tx_id t)] =>
    pose proof (KInv_apply_outputs o L3 bh (tx_id t) HK3) as HK4 end.
  exact HK4.
Qed.

Lemma KInv_apply_txs txs : forall l h bh top_h fee l' fee',
  KInv l -> apply_txs cfg l txs h bh top_h fee = Ok (l', fee') -> KInv l'.
Proof.
  induction txs as [|t txs IH]; intros l h bh top_h fee l' fee' HK H; cbn [apply_txs] in H.
  - injection H as <- _. exact HK.
  - bind_inv H. guard_inv H. eapply IH; [|exact H]. eapply KInv_apply_tx; eassumption.
Qed.

Lemma KInv_apply_block l b top_h l' : KInv l -> apply_block cfg genesis_addr l b top_h = Ok l' -> KInv l'.
Proof.
  intros HK H. unfold apply_block in H.
  bind_inv H. clear E. bind_inv H. destruct a0 as [l1 fee].
  pose proof (KInv_apply_txs _ _ _ _ _ _ _ _ HK E) as HK1.
  guard_inv H. bind_inv H.
  pose proof (KInv_apply_outputs a0 l1 (lb_hash b) (lb_hash b) HK1) as HK2.
  destruct (apply_outputs l1 (lb_hash b) a0 (lb_hash b)) as [l2 e].
  destruct e as [[u|c|c]|]; try discriminate H. injection H as <-. exact HK2.
Qed.

Lemma KInv_apply_chain bs : forall l l', KInv l -> apply_chain cfg genesis_addr l bs = Ok l' -> KInv l'.
Proof.
  induction bs as [|b bs IH]; intros l l' HK H; cbn [apply_chain] in H.
  - injection H as <-. exact HK.
  - bind_inv H. eapply IH; [|exact H]. eapply KInv_apply_block; eassumption.
Qed.

Lemma KInv_remove_tx l t bh top_h l' : KInv l -> remove_tx cfg l t bh top_h = Ok l' -> KInv l'.
Proof.
  intros HK H. unfold remove_tx in H.
  bind_inv H. bind_inv H. opt_inv H. guard_inv H. guard_inv H. bind_inv H.
  match goal with p : (ledger * acct)%type |- _ => destruct p as [l3 st2] end.
  injection H as <-.
  match goal with Ei : remove_inputs (fst (remove_outputs ?L0 bh ?o)) _ = Ok ?l2 |- _ =>
    assert (HK2 : KInv l2) by (eapply KInv_remove_inputs; [|exact Ei]; apply KInv_remove_outputs; exact HK);
    rename l2 into ll2 end.
  apply KInv_put_state.
  match goal with Ek : match tx_data t with _ => _ end = Ok (l3, st2) |- _ => rename Ek into E0' end.
  destruct (tx_data t) as [os|nl name id|nw pv|sa id pu|sa id].
  - injection E0' as <- <-. exact HK2.
  - destruct (tx_version t =? 2); [|injection E0' as <- <-; exact HK2].
    opt_inv E0'. guard_inv E0'. injection E0' as <- <-. apply KInv_del_dlg. exact HK2.
  - destruct (tx_version t =? 3); [|injection E0' as <- <-; exact HK2].
    guard_inv E0'. guard_inv E0'. injection E0' as <- <-. exact HK2.
  - destruct (tx_version t =? 4); [|injection E0' as <- <-; exact HK2].
    guard_inv E0'. guard_inv E0'. bind_inv E0'. injection E0' as <- <-.
    eapply KInv_apply_unstake; eassumption.
  - destruct (tx_version t =? 5); [|injection E0' as <- <-; exact HK2].
    guard_inv E0'. guard_inv E0'. bind_inv E0'. injection E0' as <- <-.
    eapply KInv_apply_stake; eassumption.
Qed.

Lemma KInv_remove_txs txs : forall l bh top_h l', KInv l -> remove_txs cfg l txs bh top_h = Ok l' -> KInv l'.
Proof.
  induction txs as [|t txs IH]; intros l bh top_h l' HK H; cbn [remove_txs] in H.
  - injection H as <-. exact HK.
  - bind_inv H. eapply IH; [|exact H]. eapply KInv_remove_tx; eassumption.
Qed.

Lemma KInv_remove_block l b top_h l' : KInv l -> remove_block cfg genesis_addr l b top_h = Ok l' -> KInv l'.
Proof.
  intros HK H. unfold remove_block in H. guard_inv H. bind_inv H. bind_inv H.
  eapply KInv_remove_txs; [|exact H].
  match goal with Ex : match remove_outputs l ?bh ?o with _ => _ end = Ok ?l1 |- _ =>
    pose proof (KInv_remove_outputs o l bh HK) as HK1;
    destruct (remove_outputs l bh o) as [l2 e]; destruct e as [[u|c|c]|]; try discriminate Ex;
    injection Ex as <-; exact HK1 end.
Qed.

(* ---------------------------------------------------------------- the node *)
Lemma KInv_apply_block_node n b n' : KInv (ldg n) -> apply_block_node cfg genesis_addr n b = Ok n' -> KInv (ldg n').
Proof.
  unfold apply_block_node. intros HK H. bind_inv H. injection H as <-. cbn [ldg set_ldg].
  eapply KInv_apply_block; eassumption.
Qed.

Lemma KInv_remove_block_node n b n' : KInv (ldg n) -> remove_block_node cfg genesis_addr n b = Ok n' -> KInv (ldg n').
Proof.
  unfold remove_block_node. intros HK H. bind_inv H. injection H as <-. cbn [ldg set_ldg].
  eapply KInv_remove_block; eassumption.
Qed.

Lemma KInv_reorg_disconnect fuel : forall n nh common lh n',
  KInv (ldg n) -> reorg_disconnect cfg genesis_addr fuel n nh common lh = Ok n' -> KInv (ldg n').
Proof.
  induction fuel as [|f IH]; intros n nh common lh n' HK H; cbn [reorg_disconnect] in H; [discriminate|].
  destruct (nh =? common); [injection H as <-; exact HK|].
  guard_inv H. opt_inv H. bind_inv H.
  eapply IH; [|exact H]. cbn [ldg set_top].
  eapply KInv_remove_block_node; [|eassumption]. exact HK.
Qed.

Lemma KInv_reorg_connect bs : forall n n',
  KInv (ldg n) -> reorg_connect cfg genesis_addr n bs = Ok n' -> KInv (ldg n').
Proof.
  induction bs as [|c bs IH]; intros n n' HK H; cbn [reorg_connect] in H.
  - injection H as <-. exact HK.
  - opt_inv H. bind_inv H. bind_inv H. eapply IH; [|exact H].
    eapply KInv_apply_block_node; [|eassumption]. exact HK.
Qed.

Lemma KInv_check_reorgs n n' amb : KInv (ldg n) -> check_reorgs cfg genesis_addr n = Ok (n', amb) -> KInv (ldg n').
Proof.
  intros HK H. unfold check_reorgs in H. destruct (best_tip n) as [alt amb0].
  destruct (t_hash alt =? top n); [injection H as <- _; exact HK|].
  opt_inv H. bind_inv H. destruct a as [common hashes]. bind_inv H. bind_inv H. injection H as <- _.
  cbn [ldg set_top set_tips].
  eapply KInv_reorg_connect; [|eassumption].
  destruct (top n =? common); [match goal with Hx : Ok n = Ok _ |- _ => injection Hx as <- end; exact HK|].
  match goal with Hx : bind (of_opt _ _) _ = Ok _ |- _ => opt_inv Hx; eapply KInv_reorg_disconnect; [|exact Hx]; exact HK end.
Qed.

Lemma KInv_add_block n b n' amb : KInv (ldg n) -> add_block cfg genesis_addr n b = Ok (n', amb) -> KInv (ldg n').
Proof.
  intros HK H. unfold add_block in H. guard_inv H. opt_inv H. bind_inv H.
  destruct (prev_hash b =? top n).
  - bind_inv H. injection H as <- _. unfold add_mainchain_block in E1. bind_inv E1. injection E1 as <-.
    cbn [ldg set_topo set_blocks set_top]. eapply KInv_apply_block_node; eassumption.
  - unfold add_altchain_block in H. eapply KInv_check_reorgs; [|exact H]. exact HK.
Qed.

Lemma KInv_deliver n b now n' out amb :
  KInv (ldg n) -> deliver cfg genesis_addr team_key n b now = (n', out, amb) -> KInv (ldg n').
Proof.
  intros HK H. unfold deliver in H.
  destruct (prevalidate_block cfg team_key b now); try (injection H as <- _ _; exact HK).
  destruct (add_block cfg genesis_addr n b) as [[n1 amb1]|c|c] eqn:E; try (injection H as <- _ _; exact HK).
  injection H as <- _ _. eapply KInv_add_block; eassumption.
Qed.

Lemma KInv_run ops : forall n, KInv (ldg n) -> KInv (ldg (run cfg genesis_addr team_key n ops)).
Proof.
  induction ops as [|[b now] ops IH]; intros n HK; cbn [run fold_left fst snd]; [exact HK|].
  destruct (deliver cfg genesis_addr team_key n b now) as [[n1 out] amb] eqn:E. cbn [fst snd].
  apply IH. eapply KInv_deliver; eassumption.
Qed.

Lemma KInv_node0 g n0 : node0 cfg genesis_addr g = Ok n0 -> KInv (ldg n0).
Proof. unfold node0. intros H. eapply KInv_apply_block_node; [|exact H]. exact KInv0. Qed.

(* every node state reachable from genesis by deliveries: no premise on the blocks *)
Theorem reachable_KInv g n0 ops :
  node0 cfg genesis_addr g = Ok n0 -> KInv (ldg (run cfg genesis_addr team_key n0 ops)).
Proof. intros H. apply KInv_run. exact (KInv_node0 g n0 H). Qed.

End Ops.

(* ---------------------------------------------------------------- ZInv: no record under id 0 (application side) *)
Definition ZInv (l : ledger) : Prop := keyed (dlgs l) /\ ~ In 0 (map fst (dlgs l)).

Lemma ZInv0 : ZInv ledger0.
Proof. split; [constructor|intros []]. Qed.

Lemma ZInv_ext l l' : dlgs l' = dlgs l -> ZInv l -> ZInv l'.
Proof. unfold ZInv. intros ->. exact (fun H => H). Qed.

Lemma ZInv_get_none l : ZInv l -> get_dlg l 0 = None.
Proof. intros (_ & Hz). apply not_in_keys_nget_none. exact Hz. Qed.

Lemma ZInv_put_dlg l d : ZInv l -> d_id d <> 0 -> ZInv (put_dlg l d).
Proof.
  intros (Hk & Hz) Hd. unfold ZInv, put_dlg. cbn [dlgs set_dlgs]. split; [apply dins_keyed; exact Hk|].
  intros Hin. apply dins_keys_in in Hin. destruct Hin as [E|Hin]; [congruence|contradiction].
Qed.

(* the record found under an id carries that id, and that id is not 0 *)
Lemma ZInv_found l id d : ZInv l -> get_dlg l id = Some d -> d_id d <> 0.
Proof.
  intros (Hk & Hz) Hg. rewrite (nget_keyed _ _ _ Hk Hg). intros ->. apply Hz.
  exact (nget_in_keys (dlgs l) 0 d Hg).
Qed.

Definition noreg0 (t : tx) : Prop := forall nl nm, tx_data t <> TRegister nl nm 0.

Section ZOps.
Variable cfg : config.
Variable genesis_addr team_key : N.

Lemma dlgs_stats_staked l a l' : stats_staked l a = Ok l' -> dlgs l' = dlgs l.
Proof. unfold stats_staked. destruct (_ <? _); [discriminate|]. intros [= <-]. reflexivity. Qed.
Lemma dlgs_stats_unstaked l a l' : stats_unstaked l a = Ok l' -> dlgs l' = dlgs l.
Proof. unfold stats_unstaked. destruct (_ <? _); [discriminate|]. intros [= <-]. reflexivity. Qed.

Lemma ZInv_apply_stake l amt id pu signer top_h txid rv l' :
  ZInv l -> apply_stake cfg l amt id pu signer top_h txid rv = Ok l' -> ZInv l'.
Proof.
  intros HZ H. unfold apply_stake in H. opt_inv H. bind_inv H. bind_inv H. injection H as <-.
  match goal with Hs : stats_staked _ _ = Ok _ |- _ => apply dlgs_stats_staked in Hs; rename Hs into Hd end.
  apply ZInv_put_dlg; [apply (ZInv_ext l); [exact Hd|exact HZ]|]. cbn [d_id]. eapply ZInv_found; eassumption.
Qed.

Lemma ZInv_apply_unstake l amt id signer top_h txid rv pu l' :
  ZInv l -> apply_unstake l amt id signer top_h txid rv pu = Ok l' -> ZInv l'.
Proof.
  intros HZ H. unfold apply_unstake in H. opt_inv H. opt_inv H. guard_inv H. guard_inv H. bind_inv H. injection H as <-.
  match goal with Hs : stats_unstaked _ _ = Ok _ |- _ => apply dlgs_stats_unstaked in Hs; rename Hs into Hd end.
  apply ZInv_put_dlg; [apply (ZInv_ext l); [|exact HZ]|].
  - rewrite Hd. destruct (_ && _); reflexivity.
  - cbn [d_id]. eapply ZInv_found; eassumption.
Qed.

Lemma ZInv_apply_pos_reward l bh o l' : ZInv l -> apply_pos_reward l bh o = Ok l' -> ZInv l'.
Proof.
  intros HZ H. unfold apply_pos_reward in H.
  guard_inv H. opt_inv H. guard_inv H. bind_inv H. guard_inv H. bind_inv H.
  match goal with p : (list fund * N)%type |- _ => destruct p as [funds1 added] end.
  guard_inv H. bind_inv H. bind_inv H. guard_inv H. bind_inv H. injection H as <-.
  match goal with Hs : stats_staked _ _ = Ok _ |- _ => apply dlgs_stats_staked in Hs; rename Hs into Hd end.
  apply ZInv_put_dlg; [apply (ZInv_ext l); [exact Hd|exact HZ]|]. cbn [d_id]. eapply ZInv_found; eassumption.
Qed.

Lemma ZInv_apply_outputs outs : forall l bh txid, ZInv l -> ZInv (fst (apply_outputs l bh outs txid)).
Proof.
  induction outs as [|o outs IH]; intros l bh txid HZ; cbn [apply_outputs]; [exact HZ|].
  destruct (safe_add _ (o_amt o)) as [b|]; [|exact HZ].
  match goal with |- context [put_state ?L1 ?A ?S] => set (l2 := put_state L1 A S) end.
  assert (HZ2 : ZInv l2) by exact HZ.
  destruct (o_type o =? OUT_COINBASE_POS); [|apply IH; exact HZ2].
  destruct (apply_pos_reward l2 bh o) as [l3|c|c] eqn:Er; [|exact HZ2|exact HZ2].
  apply IH. eapply ZInv_apply_pos_reward; eassumption.
Qed.

Lemma ZInv_apply_tx l t h bh top_h l' : ZInv l -> noreg0 t -> apply_tx cfg l t h bh top_h = Ok l' -> ZInv l'.
Proof.
  intros HZ Hnr H. unfold apply_tx in H.
  opt_inv H. guard_inv H. bind_inv H.
  match goal with p : (ledger * acct)%type |- _ => destruct p as [l1 st1] end.
  bind_inv H. bind_inv H. injection H as <-.
  assert (HZ1 : ZInv l1).
  { match goal with Ek : match tx_data t with _ => _ end = Ok (l1, st1) |- _ => rename Ek into E0' end.
    unfold noreg0 in Hnr.
    destruct (tx_data t) as [os|nl name id|nw pv|sa id pu|sa id].
    - injection E0' as <- <-. exact HZ.
    - destruct (tx_version t =? 2); [|injection E0' as <- <-; exact HZ].
      guard_inv E0'. injection E0' as <- <-. apply ZInv_put_dlg; [exact HZ|]. cbn [d_id].
      intros ->. exact (Hnr nl name eq_refl).
    - destruct (tx_version t =? 3); [|injection E0' as <- <-; exact HZ].
      guard_inv E0'. guard_inv E0'. guard_inv E0'. injection E0' as <- <-. exact HZ.
    - destruct (tx_version t =? 4); [|injection E0' as <- <-; exact HZ].
      guard_inv E0'. guard_inv E0'. bind_inv E0'. injection E0' as <- <-.
      eapply ZInv_apply_stake; eassumption.
    - destruct (tx_version t =? 5); [|injection E0' as <- <-; exact HZ].
      guard_inv E0'. guard_inv E0'. bind_inv E0'. injection E0' as <- <-.
      eapply ZInv_apply_unstake; eassumption. }
  match goal with Ei : apply_inputs ?L2 _ = Ok ?l3 |- _ =>
    destruct (ds_apply_inputs _ _ _ Ei) as [Hd3 _];
    assert (HZ3 : ZInv l3) by (apply (ZInv_ext l1); [rewrite Hd3; reflexivity|exact HZ1]) end.
  match goal with |- context [apply_outputs ?L3 bh ?o (tx_id t)] =>
    pose proof (ZInv_apply_outputs o L3 bh (tx_id t) HZ3) as HZ4 end.
  exact HZ4.
Qed.

Lemma ZInv_apply_txs txs : forall l h bh top_h fee l' fee',
  ZInv l -> Forall noreg0 txs -> apply_txs cfg l txs h bh top_h fee = Ok (l', fee') -> ZInv l'.
Proof.
  induction txs as [|t txs IH]; intros l h bh top_h fee l' fee' HZ Hall H; cbn [apply_txs] in H.
  - injection H as <- _. exact HZ.
  - inversion Hall as [|? ? Ht Hall']; subst. bind_inv H. guard_inv H.
    eapply IH; [|exact Hall'|exact H]. eapply ZInv_apply_tx; eassumption.
Qed.

Lemma ZInv_apply_block l b top_h l' :
  ZInv l -> Forall noreg0 (lb_txs b) -> apply_block cfg genesis_addr l b top_h = Ok l' -> ZInv l'.
Proof.
  intros HZ Hall H. unfold apply_block in H.
  bind_inv H. clear E. bind_inv H. destruct a0 as [l1 fee].
  pose proof (ZInv_apply_txs _ _ _ _ _ _ _ _ HZ Hall E) as HZ1.
  guard_inv H. bind_inv H.
  pose proof (ZInv_apply_outputs a0 l1 (lb_hash b) (lb_hash b) HZ1) as HZ2.
  destruct (apply_outputs l1 (lb_hash b) a0 (lb_hash b)) as [l2 e].
  destruct e as [[u|c|c]|]; try discriminate H. injection H as <-. exact HZ2.
Qed.

Lemma ZInv_apply_chain bs : forall l l',
  ZInv l -> Forall (fun b => Forall noreg0 (lb_txs b)) bs -> apply_chain cfg genesis_addr l bs = Ok l' -> ZInv l'.
Proof.
  induction bs as [|b bs IH]; intros l l' HZ Hall H; cbn [apply_chain] in H.
  - injection H as <-. exact HZ.
  - inversion Hall as [|? ? Hb Hall']; subst. bind_inv H.
    eapply IH; [|exact Hall'|exact H]. eapply ZInv_apply_block; eassumption.
Qed.

(* Transaction.Prevalidate refuses the registration of delegate 0 (code 208) *)
Lemma prevalidate_noreg0 t h : prevalidate_tx cfg team_key t h = Ok tt -> noreg0 t.
Proof.
  intros H nl nm Ed. unfold prevalidate_tx in H.
  guard_inv H. guard_inv H. guard_inv H. guard_inv H. guard_inv H. rewrite Ed in H.
  bind_inv H. clear H. guard_inv E. guard_inv E. discriminate.
Qed.

End ZOps.
