(* Chain-structure invariant of the node model (properties C10 "each committed store state is a consistent chain" and
   C17 "the height index links genesis to the tip").

   For every state reachable from genesis by deliveries (any blocks, any order, any clock readings):
     BInv  - the block store is a tree rooted at genesis: every stored block other than genesis has a stored parent one
             height below (no orphans), keys are the blocks' own hashes, genesis is stored at height 0;
     TInv  - the height index is exactly the main chain: with H = height of the block [top], topo[H] = top, topo[0] =
             genesis, for 0 < h <= H topo[h] is a stored block of height h whose parent is topo[h-1], and there is NO
             entry above H (a reorganisation to a heavier but shorter chain removes the entries above the new tip).
   Both are stated on the components (block list, index list, tip hash) so that the three loops of CheckReorgs, which
   change the index only, can be followed step by step.

   The height test of checkBlock is a uint64 addition (wadd): the invariant is preserved by a delivery as long as the
   store holds fewer than 2^64 blocks, hence for every delivery sequence shorter than 2^64 - 1.

   That the node's own [top_h] (stats.TopHeight) is the height of [top], and the final theorems, are in
   Proofs/ChainHeights.v. *)
From Virel Require Import Lib.Config Lib.U64 Lib.AMap Model.Ledger Model.Node Proofs.AMapLemmas Proofs.Conservation
  Proofs.NodeBasics Proofs.ForkChoice Proofs.Restart.
Open Scope N_scope.

(* ------------------------------------------------------------------ association lists: deletion, length *)
Section MapLemmas.
Context {V : Type}.

Lemma not_in_keys_nget_none (m : list (N * V)) k : ~ In k (keys m) -> nget m k = None.
Proof.
  unfold nget, keys. induction m as [|[k0 v0] m IH]; cbn; [reflexivity|].
  intros Hn. destruct (N.eqb_spec k k0) as [E|E]; [exfalso; apply Hn; left; congruence|].
  apply IH. intros Hin. apply Hn. right. exact Hin.
Qed.

Lemma nget_ndel (m : list (N * V)) k k' :
  NoDup (keys m) -> nget (ndel m k) k' = if k' =? k then None else nget m k'.
Proof.
  unfold nget, ndel, keys. induction m as [|[k0 v0] m IH]; cbn; intros Hnd.
  - destruct (k' =? k); reflexivity.
  - inversion Hnd as [|? ? Hn Hd]; subst.
    destruct (N.eqb_spec k k0) as [E|E].
    + subst k0. destruct (N.eqb_spec k' k) as [E'|E'].
      * subst k'. apply (not_in_keys_nget_none m k Hn).
      * reflexivity.
    + cbn. destruct (N.eqb_spec k' k0) as [E0|E0].
      * destruct (N.eqb_spec k' k); [congruence|reflexivity].
      * apply IH. exact Hd.
Qed.

Lemma keys_ndel_in (m : list (N * V)) k x : In x (keys (ndel m k)) -> In x (keys m).
Proof.
  unfold keys, ndel. induction m as [|[k0 v0] m IH]; cbn; [intros []|].
  destruct (k =? k0); cbn; [intros H; right; exact H|]. intros [H|H]; [left; exact H|right; apply IH; exact H].
Qed.

Lemma nodup_ndel (m : list (N * V)) k : NoDup (keys m) -> NoDup (keys (ndel m k)).
Proof.
  induction m as [|[k0 v0] m IH]; intros Hnd; [exact Hnd|].
  unfold keys, ndel in *. cbn in *. inversion Hnd as [|? ? Hn Hd]; subst.
  destruct (k =? k0); [exact Hd|]. cbn. constructor; [|apply IH; exact Hd].
  intros Hin. apply Hn. apply (keys_ndel_in m k k0 Hin).
Qed.

Lemma length_nset_fresh (m : list (N * V)) k v : nget m k = None -> length (nset m k v) = S (length m).
Proof.
  unfold nget, nset. induction m as [|[k0 v0] m IH]; cbn; [reflexivity|].
  destruct (k =? k0); [discriminate|]. intros H. cbn. rewrite (IH H). reflexivity.
Qed.

Lemma nget_nset_keep (m : list (N * V)) k v k' v' : nget m k = None -> nget m k' = Some v' -> nget (nset m k v) k' = Some v'.
Proof.
  intros Hk Hk'. rewrite nget_nset. destruct (N.eqb_spec k' k) as [E|E]; [|exact Hk'].
  subst k'. rewrite Hk in Hk'. discriminate.
Qed.

Lemma nget_in (m : list (N * V)) k v : nget m k = Some v -> In (k, v) m.
Proof.
  unfold nget. induction m as [|[k0 v0] m IH]; cbn; [discriminate|].
  destruct (N.eqb_spec k k0) as [E|E]; [intros [= <-]; left; congruence|]. intros H. right. apply IH. exact H.
Qed.
End MapLemmas.

(* ------------------------------------------------------------------ the invariant, on components *)
Section ChainInv.
Variable gh : N.   (* hash of the genesis block *)

(* block store: a tree rooted at genesis *)
Definition BInv (bl : list (N * block)) : Prop :=
  (forall h b, nget bl h = Some b -> b_hash b = h) /\
  (exists g, nget bl gh = Some g /\ b_height g = 0) /\
  (forall h b, nget bl h = Some b -> h <> gh ->
     exists p, nget bl (prev_hash b) = Some p /\ b_height b = b_height p + 1) /\
  (forall h b, nget bl h = Some b -> b_height b < N.of_nat (length bl)).

(* height index [tp] = exactly the chain from genesis to the stored block [x] *)
Definition TInv (bl : list (N * block)) (tp : list (N * N)) (x : N) : Prop :=
  NoDup (keys tp) /\
  exists bx, nget bl x = Some bx /\
    nget tp (b_height bx) = Some x /\
    (forall ht, b_height bx < ht -> nget tp ht = None) /\
    nget tp 0 = Some gh /\
    (forall ht, ht <= b_height bx ->
       exists y yb, nget tp ht = Some y /\ nget bl y = Some yb /\ b_height yb = ht /\
                    (0 < ht -> nget tp (ht - 1) = Some (prev_hash yb))).

Lemma BInv_genesis_only_zero bl h b : BInv bl -> nget bl h = Some b -> b_height b = 0 -> h = gh.
Proof.
  intros (_ & _ & Hp & _) Hb H0. destruct (N.eq_dec h gh) as [E|E]; [exact E|].
  destruct (Hp h b Hb E) as (p & _ & Hh). lia.
Qed.

(* a new block whose parent is stored one height below *)
Lemma BInv_insert bl b prev :
  BInv bl -> nget bl (b_hash b) = None -> nget bl (prev_hash b) = Some prev -> b_height b = b_height prev + 1 ->
  BInv (nset bl (b_hash b) b).
Proof.
  intros (Hk & (g & Hg & Hg0) & Hp & Hb) Hnew Hprev Hh.
  assert (Hlen : length (nset bl (b_hash b) b) = S (length bl)) by (apply length_nset_fresh; exact Hnew).
  repeat split.
  - intros h b0. rewrite nget_nset. destruct (N.eqb_spec h (b_hash b)) as [E|E]; [intros [= <-]; congruence|apply Hk].
  - exists g. split; [|exact Hg0]. apply nget_nset_keep; assumption.
  - intros h b0. rewrite nget_nset. destruct (N.eqb_spec h (b_hash b)) as [E|E].
    + intros [= <-] _. exists prev. split; [|exact Hh]. apply nget_nset_keep; assumption.
    + intros Hb0 Hne. destruct (Hp h b0 Hb0 Hne) as (p & Hpp & Hph). exists p. split; [|exact Hph].
      apply nget_nset_keep; assumption.
  - intros h b0. rewrite Hlen. rewrite nget_nset. destruct (N.eqb_spec h (b_hash b)) as [E|E].
    + intros [= <-]. pose proof (Hb _ _ Hprev). lia.
    + intros Hb0. pose proof (Hb _ _ Hb0). lia.
Qed.

Lemma TInv_insert_block bl tp x h b : nget bl h = None -> TInv bl tp x -> TInv (nset bl h b) tp x.
Proof.
  intros Hnew (Hnd & bx & Hbx & Htop & Habove & H0 & Hch). split; [exact Hnd|].
  exists bx. split; [apply nget_nset_keep; assumption|]. split; [exact Htop|]. split; [exact Habove|]. split; [exact H0|].
  intros ht Hle. destruct (Hch ht Hle) as (y & yb & Hy & Hyb & Hyh & Hyp).
  exists y, yb. split; [exact Hy|]. split; [apply nget_nset_keep; assumption|]. split; assumption.
Qed.

(* one block connected above the tip of the index *)
Lemma TInv_extend bl tp x bx c :
  TInv bl tp x -> nget bl x = Some bx -> nget bl (b_hash c) = Some c -> prev_hash c = x ->
  b_height c = b_height bx + 1 ->
  TInv bl (nset tp (b_height c) (b_hash c)) (b_hash c).
Proof.
  intros (Hnd & bx' & Hbx' & Htop & Habove & H0 & Hch) Hbx Hc Hprev Hh.
  rewrite Hbx in Hbx'. injection Hbx' as <-.
  split; [apply nodup_nset; exact Hnd|].
  exists c. split; [exact Hc|]. split; [apply nget_nset_same|]. split; [|split].
  - intros ht Hlt. rewrite nget_nset. destruct (N.eqb_spec ht (b_height c)); [lia|]. apply Habove. lia.
  - rewrite nget_nset. destruct (N.eqb_spec 0 (b_height c)); [lia|exact H0].
  - intros ht Hle. destruct (N.eq_dec ht (b_height c)) as [E|E].
    + subst ht. exists (b_hash c), c. split; [apply nget_nset_same|]. split; [exact Hc|]. split; [reflexivity|].
      intros _. rewrite nget_nset. destruct (N.eqb_spec (b_height c - 1) (b_height c)); [lia|].
      replace (b_height c - 1) with (b_height bx) by lia. rewrite Hprev. exact Htop.
    + assert (Hle' : ht <= b_height bx) by lia.
      destruct (Hch ht Hle') as (y & yb & Hy & Hyb & Hyh & Hyp).
      exists y, yb. split; [|split; [exact Hyb|split; [exact Hyh|]]].
      * rewrite nget_nset. destruct (N.eqb_spec ht (b_height c)); [lia|exact Hy].
      * intros Hpos. rewrite nget_nset. destruct (N.eqb_spec (ht - 1) (b_height c)); [lia|apply Hyp; exact Hpos].
Qed.

(* the tip of the index disconnected *)
Lemma TInv_retract bl tp x bx :
  TInv bl tp x -> nget bl x = Some bx -> 0 < b_height bx ->
  TInv bl (ndel tp (b_height bx)) (prev_hash bx).
Proof.
  intros (Hnd & bx' & Hbx' & Htop & Habove & H0 & Hch) Hbx Hpos.
  rewrite Hbx in Hbx'. injection Hbx' as <-.
  destruct (Hch (b_height bx) (N.le_refl _)) as (y & yb & Hy & Hyb & Hyh & Hyp).
  rewrite Htop in Hy. injection Hy as <-. rewrite Hbx in Hyb. injection Hyb as <-. specialize (Hyp Hpos).
  assert (Hle1 : b_height bx - 1 <= b_height bx) by lia.
  destruct (Hch (b_height bx - 1) Hle1) as (z & zb & Hz & Hzb & Hzh & Hzp).
  rewrite Hyp in Hz. injection Hz as <-.
  split; [apply nodup_ndel; exact Hnd|].
  exists zb. split; [exact Hzb|]. rewrite Hzh. split; [|split; [|split]].
  - rewrite nget_ndel by exact Hnd. destruct (N.eqb_spec (b_height bx - 1) (b_height bx)); [lia|exact Hyp].
  - intros ht Hlt. rewrite nget_ndel by exact Hnd. destruct (N.eqb_spec ht (b_height bx)); [reflexivity|].
    apply Habove. lia.
  - rewrite nget_ndel by exact Hnd. destruct (N.eqb_spec 0 (b_height bx)); [lia|exact H0].
  - intros ht Hle. assert (Hle' : ht <= b_height bx) by lia.
    destruct (Hch ht Hle') as (w & wb & Hw & Hwb & Hwh & Hwp).
    exists w, wb. split; [|split; [exact Hwb|split; [exact Hwh|]]].
    + rewrite nget_ndel by exact Hnd. destruct (N.eqb_spec ht (b_height bx)); [lia|exact Hw].
    + intros Hp. rewrite nget_ndel by exact Hnd. destruct (N.eqb_spec (ht - 1) (b_height bx)); [lia|apply Hwp; exact Hp].
Qed.

(* every index entry is a stored block of that height *)
Lemma TInv_entry bl tp x ht y :
  TInv bl tp x -> nget tp ht = Some y -> exists yb, nget bl y = Some yb /\ b_height yb = ht.
Proof.
  intros (Hnd & bx & Hbx & Htop & Habove & H0 & Hch) Hy.
  destruct (N.le_gt_cases ht (b_height bx)) as [Hle|Hgt].
  - destruct (Hch ht Hle) as (y' & yb & Hy' & Hyb & Hyh & _). rewrite Hy in Hy'. injection Hy' as <-.
    exists yb. split; assumption.
  - rewrite (Habove ht Hgt) in Hy. discriminate.
Qed.

Lemma TInv_entry_le bl tp x bx ht y :
  TInv bl tp x -> nget bl x = Some bx -> nget tp ht = Some y -> ht <= b_height bx.
Proof.
  intros (Hnd & bx' & Hbx' & Htop & Habove & H0 & Hch) Hbx Hy.
  rewrite Hbx in Hbx'. injection Hbx' as <-.
  destruct (N.le_gt_cases ht (b_height bx)) as [Hle|Hgt]; [exact Hle|]. rewrite (Habove ht Hgt) in Hy. discriminate.
Qed.

(* a list of stored blocks, lowest first, each the child of the one before; the first is a child of [x] *)
Fixpoint up (bl : list (N * block)) (x : N) (r : list block) : Prop :=
  match r with
  | [] => True
  | c :: r' => nget bl (b_hash c) = Some c /\ prev_hash c = x /\ b_hash c <> gh /\ up bl (b_hash c) r'
  end.

Definition last_hash (x : N) (r : list block) : N := fold_left (fun _ c => b_hash c) r x.

Lemma last_hash_snoc x r c : last_hash x (r ++ [c]) = b_hash c.
Proof. unfold last_hash. rewrite fold_left_app. reflexivity. Qed.

End ChainInv.

(* ------------------------------------------------------------------ the node *)
Section NodeChain.
Variable cfg : config.
Variable genesis_addr team_key : N.
Variable gh : N.

Definition CInv (n : node) : Prop := BInv gh (blocks n) /\ TInv gh (blocks n) (topo n) (top n).

Lemma apply_block_node_eq n b n' : apply_block_node cfg genesis_addr n b = Ok n' -> exists l, n' = set_ldg n l.
Proof. unfold apply_block_node. intros H. bind_inv H. injection H as <-. eexists. reflexivity. Qed.
Lemma remove_block_node_eq n b n' : remove_block_node cfg genesis_addr n b = Ok n' -> exists l, n' = set_ldg n l.
Proof. unfold remove_block_node. intros H. bind_inv H. injection H as <-. eexists. reflexivity. Qed.

Lemma check_block_height n b prev :
  check_block cfg n b prev = Ok tt -> b_height b = wadd (b_height prev) 1.
Proof.
  unfold check_block. intros H. bind_inv H. guard_inv H. guard_inv H.
  match goal with Hg : (b_height b =? _) = true |- _ => apply N.eqb_eq in Hg; exact Hg end.
Qed.

(* ---- step 1 of CheckReorgs: the walk down the alternative chain ---- *)
Lemma reorg_collect_spec fuel : forall n cb acc common hashes,
  BInv gh (blocks n) ->
  reorg_collect fuel n cb acc = Ok (common, hashes) ->
  up gh (blocks n) (prev_hash cb) (rev acc) ->
  up gh (blocks n) common (rev hashes) /\
  (exists cm, nget (blocks n) common = Some cm /\ nget (topo n) (b_height cm) = Some common) /\
  (exists t, hashes = acc ++ t).
Proof.
  induction fuel as [|f IH]; intros n cb acc common hashes HB H Hup; cbn [reorg_collect] in H; [discriminate|].
  opt_inv H. rename x into cb'. unfold get_block in E.
  destruct (match get_topo n (b_height cb') with Some th => th =? prev_hash cb | None => false end) eqn:Et.
  - injection H as <- <-. split; [exact Hup|]. split.
    + exists cb'. split; [exact E|]. unfold get_topo in Et.
      destruct (nget (topo n) (b_height cb')) as [th|]; [|discriminate]. apply N.eqb_eq in Et. congruence.
    + exists []. symmetry. apply app_nil_r.
  - guard_inv H.
    assert (Hk : b_hash cb' = prev_hash cb) by (destruct HB as (Hk & _); apply (Hk _ _ E)).
    apply IH in H; [|exact HB|].
    + destruct H as (H1 & H2 & (t & ->)). split; [exact H1|]. split; [exact H2|].
      exists (cb' :: t). rewrite <- app_assoc. reflexivity.
    + rewrite rev_unit. cbn [up]. rewrite Hk. split; [exact E|]. split; [reflexivity|]. split; [|exact Hup].
      intros Egh. destruct HB as (_ & (g & Hg & Hg0) & _). rewrite Egh in E. rewrite Hg in E. injection E as <-.
      rewrite Hg0 in G. cbn in G. discriminate.
Qed.

(* ---- step 2: disconnecting the main chain down to the common block ---- *)
Lemma reorg_disconnect_spec fuel : forall n nh common lh n' cm,
  TInv gh (blocks n) (topo n) nh ->
  nget (blocks n) common = Some cm -> nget (topo n) (b_height cm) = Some common ->
  reorg_disconnect cfg genesis_addr fuel n nh common lh = Ok n' ->
  blocks n' = blocks n /\ TInv gh (blocks n') (topo n') common.
Proof.
  induction fuel as [|f IH]; intros n nh common lh n' cm HT Hcm Hcmt H; cbn [reorg_disconnect] in H; [discriminate|].
  destruct (N.eqb_spec nh common) as [Ec|Nc].
  - injection H as <-. subst nh. split; [reflexivity|exact HT].
  - guard_inv H. opt_inv H. rename x into nb. unfold get_block in E. bind_inv H. rename a into n2.
    apply remove_block_node_eq in E0. destruct E0 as (l & ->).
    pose proof (TInv_entry_le gh _ _ _ _ _ _ HT E Hcmt) as Hle.
    assert (Htopnh : nget (topo n) (b_height nb) = Some nh).
    { destruct HT as (_ & bx & Hbx & Htop & _). rewrite E in Hbx. injection Hbx as <-. exact Htop. }
    assert (Hlt : b_height cm < b_height nb).
    { destruct (N.eq_dec (b_height cm) (b_height nb)) as [Eh|Nh]; [|lia].
      rewrite Eh in Hcmt. rewrite Htopnh in Hcmt. congruence. }
    apply (IH _ _ _ _ _ cm) in H; cbn [blocks topo set_top set_ldg set_topo] in *.
    + exact H.
    + apply (TInv_retract gh _ _ nh); [exact HT|exact E|lia].
    + exact Hcm.
    + rewrite nget_ndel by (destruct HT as (Hnd & _); exact Hnd).
      destruct (N.eqb_spec (b_height cm) (b_height nb)); [lia|exact Hcmt].
Qed.

(* ---- step 3: connecting the alternative blocks, lowest first ---- *)
Lemma reorg_connect_spec bs : forall n x n',
  BInv gh (blocks n) -> TInv gh (blocks n) (topo n) x -> up gh (blocks n) x bs ->
  reorg_connect cfg genesis_addr n bs = Ok n' ->
  blocks n' = blocks n /\ TInv gh (blocks n') (topo n') (last_hash x bs).
Proof.
  induction bs as [|c bs IH]; intros n x n' HB HT Hup H; cbn [reorg_connect] in H.
  - injection H as <-. split; [reflexivity|exact HT].
  - cbn [up] in Hup. destruct Hup as (Hc & Hprev & Hng & Hup).
    opt_inv H. rename x0 into prev. bind_inv H. bind_inv H. rename a0 into n2.
    apply apply_block_node_eq in E1. destruct E1 as (l & ->).
    unfold get_block in E. cbn [blocks set_topo] in E.
    assert (Hh : b_height c = b_height prev + 1).
    { destruct HB as (_ & _ & Hp & _). destruct (Hp _ _ Hc Hng) as (p & Hpp & Hph).
      rewrite E in Hpp. injection Hpp as <-. exact Hph. }
    apply (IH _ (b_hash c)) in H; cbn [blocks topo set_top set_ldg set_topo] in *.
    + exact H.
    + exact HB.
    + rewrite Hprev in E. apply (TInv_extend gh _ _ x prev c); assumption.
    + exact Hup.
Qed.

(* ---- the tip selection: an alternative tip is chosen only when strictly heavier ---- *)
Lemma bt_fold_strict topn l : forall acc,
  let r := fold_left (bt_step topn) l acc in
  fst r = fst acc \/ exists kv, In kv l /\ fst r = snd kv /\ t_cd (fst acc) < t_cd (fst r).
Proof.
  induction l as [|kv l IH]; intros [best amb]; cbn [fold_left]; [left; reflexivity|].
  set (acc' := bt_step topn (best, amb) kv).
  assert (Hacc : fst acc' = best \/ (fst acc' = snd kv /\ t_cd best < t_cd (snd kv))).
  { unfold acc', bt_step. destruct (N.ltb_spec (t_cd best) (t_cd (snd kv))) as [Hlt|Hge]; cbn [fst].
    - right. split; [reflexivity|exact Hlt].
    - destruct (_ && _ && _); left; reflexivity. }
  pose proof (bt_fold topn l acc') as (Hmono & _). cbn zeta in Hmono.
  specialize (IH acc'). cbn zeta in IH. cbn [fst].
  destruct IH as [IH|(kv' & Hin & Hr & Hlt)].
  - destruct Hacc as [Hacc|(Hacc & Hlt)].
    + left. rewrite IH. exact Hacc.
    + right. exists kv. split; [left; reflexivity|]. rewrite IH, Hacc. split; [reflexivity|exact Hlt].
  - right. exists kv'. split; [right; exact Hin|]. split; [exact Hr|].
    destruct Hacc as [Hacc|(Hacc & Hlt')]; rewrite Hacc in Hlt; lia.
Qed.

Lemma best_tip_strict n :
  let alt := fst (best_tip n) in
  alt = mktip (top n) (top_h n) (top_cd n) \/ exists k, In (k, alt) (tips n) /\ top_cd n < t_cd alt.
Proof.
  cbn zeta. rewrite best_tip_unfold.
  destruct (bt_fold_strict (top n) (tips n) (mktip (top n) (top_h n) (top_cd n), false)) as [H|((k, tp) & Hin & Hr & Hlt)];
    cbn [fst snd t_cd] in *.
  - left. exact H.
  - right. exists k. rewrite Hr. split; [exact Hin|]. rewrite <- Hr. exact Hlt.
Qed.

(* ---- CheckReorgs as a whole ---- *)
Lemma check_reorgs_struct n n' amb :
  BInv gh (blocks n) -> TInv gh (blocks n) (topo n) (top n) ->
  (forall k tp, In (k, tp) (tips n) -> top_cd n < t_cd tp -> t_hash tp <> gh) ->
  check_reorgs cfg genesis_addr n = Ok (n', amb) ->
  blocks n' = blocks n /\ TInv gh (blocks n') (topo n') (top n') /\
  (n' = n \/
   exists k alt, In (k, alt) (tips n) /\ top_cd n < t_cd alt /\
     top n' = t_hash alt /\ top_h n' = t_height alt /\ top_cd n' = t_cd alt /\
     tips n' = nset (ndel (tips n) (t_hash alt)) (top n) (mktip (top n) (top_h n) (top_cd n))).
Proof.
  intros HB HT Hng H. unfold check_reorgs in H.
  pose proof (best_tip_strict n) as Hbt. cbn zeta in Hbt.
  destruct (best_tip n) as [alt amb0] eqn:Ebt. cbn [fst] in Hbt.
  destruct (N.eqb_spec (t_hash alt) (top n)) as [Etop|Ntop].
  - injection H as <- <-. split; [reflexivity|]. split; [exact HT|]. left. reflexivity.
  - opt_inv H. rename x into cb. unfold get_block in E. bind_inv H. destruct a as [common hashes].
    bind_inv H. rename a into na. bind_inv H. rename a into nb. injection H as <- <-.
    destruct Hbt as [Ealt|(k & Hin & Hlt)]; [rewrite Ealt in Ntop; cbn in Ntop; congruence|].
    assert (Hcbh : b_hash cb = t_hash alt) by (destruct HB as (Hk & _); apply (Hk _ _ E)).
    (* step 1 *)
    apply reorg_collect_spec in E0; [|exact HB|].
    2:{ cbn [rev app up]. rewrite Hcbh. split; [exact E|]. split; [reflexivity|]. split; [|exact I].
        apply (Hng k alt Hin Hlt). }
    destruct E0 as (Hup & (cm & Hcm & Hcmt) & (t & ->)).
    (* step 2 *)
    assert (Hna : blocks na = blocks n /\ tips na = tips n /\ TInv gh (blocks na) (topo na) common).
    { destruct (N.eqb_spec (top n) common) as [Ec|Nc].
      - injection E1 as <-. subst common. split; [reflexivity|]. split; [reflexivity|exact HT].
      - opt_inv E1. pose proof (reorg_disconnect_frame _ _ _ _ _ _ _ _ E1) as (_ & Ft & _).
        apply (reorg_disconnect_spec _ _ _ _ _ _ cm) in E1; [|exact HT|exact Hcm|exact Hcmt].
        destruct E1 as (Fb & HT1). split; [exact Fb|]. split; [exact Ft|exact HT1]. }
    destruct Hna as (Fb & Ft & HTa).
    (* step 3 *)
    pose proof (reorg_connect_frame _ _ _ _ _ E2) as (_ & Ft2 & _).
    apply (reorg_connect_spec _ _ common) in E2; [|rewrite Fb; exact HB|exact HTa|rewrite Fb; exact Hup].
    destruct E2 as (Fb2 & HT2). cbn [rev app] in HT2. rewrite last_hash_snoc in HT2. rewrite Hcbh in HT2.
    cbn [blocks topo top top_h top_cd tips set_top set_tips].
    split; [congruence|]. split; [exact HT2|]. right.
    exists k, alt. repeat split; try assumption. rewrite Ft2, Ft. reflexivity.
Qed.

End NodeChain.
