(* Lemmas about the uint128 model (Lib/U128.v): each word-level transcription computes the exact mathematical
   operation and panics exactly when the result does not exist / does not fit 128 bits. *)
From Virel Require Import Lib.U64 Lib.U128.
Open Scope N_scope.

Lemma two128_eq : two128 = two64 * two64. Proof. reflexivity. Qed.

Lemma hi_lo u : u = hi u * two64 + lo u.
Proof. unfold hi, lo. pose proof (N.div_mod u two64). lia. Qed.

Lemma lo_lt u : lo u < two64.
Proof. unfold lo. apply N.mod_lt. discriminate. Qed.

Lemma hi_lt u : u < two128 -> hi u < two64.
Proof. intros H. unfold hi. apply N.div_lt_upper_bound; [discriminate|]. rewrite two128_eq in H. lia. Qed.

Lemma hi_mk h l : l < two64 -> hi (mk h l) = h.
Proof.
  intros Hl. unfold hi, mk. rewrite N.div_add_l by discriminate. rewrite (N.div_small l) by exact Hl. lia.
Qed.

Lemma lo_mk h l : l < two64 -> lo (mk h l) = l.
Proof.
  intros Hl. unfold lo, mk. rewrite N.add_comm, N.mod_add by discriminate. apply N.mod_small. exact Hl.
Qed.

Lemma hi_small u : u < two64 -> hi u = 0.
Proof. intros H. unfold hi. apply N.div_small. exact H. Qed.

Lemma lo_small u : u < two64 -> lo u = u.
Proof. intros H. unfold lo. apply N.mod_small. exact H. Qed.

Lemma from64_eq v : from64 v = v.
Proof. unfold from64, mk. lia. Qed.

Lemma max128_eq : max128 = two128 - 1.
Proof. reflexivity. Qed.

(* ---- comparison ---- *)

Lemma cmp_spec u v :
  cmp u v = match u ?= v with Eq => CEq | Lt => CLt | Gt => CGt end.
Proof.
  unfold cmp.
  pose proof (hi_lo u) as Hu. pose proof (hi_lo v) as Hv.
  pose proof (lo_lt u) as Lu. pose proof (lo_lt v) as Lv.
  revert Hu Hv Lu Lv. generalize (hi u) (lo u) (hi v) (lo v). intros a b c d Hu Hv Lu Lv.
  destruct (N.compare_spec u v) as [E|L|G];
  destruct (N.eqb_spec a c); destruct (N.eqb_spec b d); destruct (N.ltb_spec a c); destruct (N.ltb_spec b d);
  cbn; try reflexivity; exfalso; unfold two64 in *; nia.
Qed.

Lemma cmp64_spec u v : v < two64 ->
  cmp64 u v = match u ?= v with Eq => CEq | Lt => CLt | Gt => CGt end.
Proof.
  intros Hv64. unfold cmp64.
  pose proof (hi_lo u) as Hu. pose proof (lo_lt u) as Lu.
  revert Hu Lu. generalize (hi u) (lo u). intros a b Hu Lu.
  destruct (N.compare_spec u v) as [E|L|G];
  destruct (N.eqb_spec a 0); destruct (N.eqb_spec b v); destruct (N.ltb_spec b v);
  cbn; try reflexivity; exfalso; unfold two64 in *; nia.
Qed.

(* ---- addition, subtraction ---- *)

Lemma add_spec u v : u < two128 -> v < two128 ->
  add u v = if u + v <? two128 then Ok (u + v) else Panic.
Proof.
  intros Hu Hv. unfold add, bits_add64, mk.
  pose proof (hi_lo u) as Eu. pose proof (hi_lo v) as Ev.
  pose proof (lo_lt u) as Lu. pose proof (lo_lt v) as Lv.
  pose proof (hi_lt u Hu) as Hhu. pose proof (hi_lt v Hv) as Hhv.
  revert Eu Ev Lu Lv Hhu Hhv. generalize (hi u) (lo u) (hi v) (lo v). intros a b c d Eu Ev Lu Lv Hhu Hhv.
  rewrite N.add_0_r.
  destruct (N.eqb_spec ((a + c + (b + d) / two64) / two64) 0) as [E|E]; cbn [negb];
  destruct (N.ltb_spec (u + v) two128) as [L|L]; try reflexivity.
  - f_equal. unfold two64, two128 in *. lia.
  - exfalso. unfold two64, two128 in *. lia.
  - exfalso. unfold two64, two128 in *. lia.
Qed.

Lemma add64_spec u v : u < two128 -> v < two64 ->
  add64 u v = if u + v <? two128 then Ok (u + v) else Panic.
Proof.
  intros Hu Hv. unfold add64, bits_add64, mk.
  pose proof (hi_lo u) as Eu. pose proof (lo_lt u) as Lu. pose proof (hi_lt u Hu) as Hhu.
  revert Eu Lu Hhu. generalize (hi u) (lo u). intros a b Eu Lu Hhu.
  rewrite !N.add_0_r.
  destruct (N.eqb_spec ((a + (b + v) / two64) / two64) 0) as [E|E]; cbn [negb];
  destruct (N.ltb_spec (u + v) two128) as [L|L]; try reflexivity.
  - f_equal. unfold two64, two128 in *. lia.
  - exfalso. unfold two64, two128 in *. lia.
  - exfalso. unfold two64, two128 in *. lia.
Qed.

Lemma sub_spec u v : u < two128 -> v < two128 ->
  sub u v = if v <=? u then Ok (u - v) else Panic.
Proof.
  intros Hu Hv. unfold sub, bits_sub64, mk.
  pose proof (hi_lo u) as Eu. pose proof (hi_lo v) as Ev.
  pose proof (lo_lt u) as Lu. pose proof (lo_lt v) as Lv.
  pose proof (hi_lt u Hu) as Hhu. pose proof (hi_lt v Hv) as Hhv.
  revert Eu Ev Lu Lv Hhu Hhv. generalize (hi u) (lo u) (hi v) (lo v). intros a b c d Eu Ev Lu Lv Hhu Hhv.
  rewrite !N.add_0_r, N.sub_0_r.
  destruct (N.ltb_spec b d) as [Hbd|Hbd].
  - destruct (N.ltb_spec a (c + 1)) as [Hac|Hac]; cbn [N.eqb negb];
    destruct (N.leb_spec v u) as [L|L]; try reflexivity.
    + exfalso. unfold two64, two128 in *. lia.
    + f_equal. unfold two64, two128 in *. lia.
    + exfalso. unfold two64, two128 in *. lia.
  - destruct (N.ltb_spec a (c + 0)) as [Hac|Hac]; cbn [N.eqb negb];
    destruct (N.leb_spec v u) as [L|L]; try reflexivity.
    + exfalso. unfold two64, two128 in *. lia.
    + f_equal. unfold two64, two128 in *. lia.
    + exfalso. unfold two64, two128 in *. lia.
Qed.

(* ---- multiplication ---- *)

Lemma mul64_spec u v : u < two128 -> v < two64 ->
  mul64 u v = if u * v <? two128 then Ok (u * v) else Panic.
Proof.
  intros Hu Hv. unfold mul64, bits_mul64, bits_add64, mk.
  assert (E : u * v = hi u * v * two64 + lo u * v) by (rewrite (hi_lo u) at 1; ring).
  pose proof (lo_lt u) as Lu. pose proof (hi_lt u Hu) as Hhu.
  assert (HX : lo u * v < two64 * two64) by nia.
  assert (HY : hi u * v < two64 * two64) by nia.
  revert E HX HY. generalize (lo u * v) (hi u * v). intros X Y E HX HY.
  rewrite N.add_0_r. rewrite E.
  destruct (N.eqb_spec (Y / two64) 0) as [E0|E0];
  destruct (N.eqb_spec ((X / two64 + Y mod two64) / two64) 0) as [E1|E1]; cbn [negb orb];
  destruct (N.ltb_spec (Y * two64 + X) two128) as [L|L]; try reflexivity;
  try (exfalso; unfold two64, two128 in *; lia).
  f_equal. unfold two64, two128 in *. lia.
Qed.

Lemma mul64_ok u v : u < two128 -> v < two64 -> u * v < two128 -> mul64 u v = Ok (u * v).
Proof.
  intros Hu Hv H. rewrite mul64_spec by assumption.
  destruct (N.ltb_spec (u * v) two128); [reflexivity|lia].
Qed.

Lemma mul64_panic u v : u < two128 -> v < two64 -> two128 <= u * v -> mul64 u v = Panic.
Proof.
  intros Hu Hv H. rewrite mul64_spec by assumption.
  destruct (N.ltb_spec (u * v) two128); [lia|reflexivity].
Qed.

(* ---- division by a 64-bit divisor ---- *)

Lemma quorem64_spec u v : u < two128 -> v < two64 ->
  quorem64 u v = if v =? 0 then Panic else Ok (u / v, u mod v).
Proof.
  intros Hu Hv. unfold quorem64, bits_div64.
  pose proof (hi_lo u) as Eu. pose proof (lo_lt u) as Lu. pose proof (hi_lt u Hu) as Hhu.
  revert Eu Lu Hhu. generalize (hi u) (lo u). intros a b Eu Lu Hhu.
  destruct (N.ltb_spec a v) as [Hav|Hav].
  - destruct (N.eqb_spec v 0) as [Z|Z]; [lia|].
    destruct (N.leb_spec v a) as [C|C]; [lia|].
    cbn [bind fst snd]. unfold mk. rewrite N.mul_0_l, N.add_0_l. rewrite <- Eu. reflexivity.
  - destruct (N.eqb_spec v 0) as [Z|Z]; [reflexivity|].
    destruct (N.leb_spec v 0) as [C|C]; [lia|].
    cbn [bind fst snd]. rewrite N.mul_0_l, N.add_0_l.
    assert (Hr : a mod v < v) by (apply N.mod_lt; exact Z).
    destruct (N.leb_spec v (a mod v)) as [C2|C2]; [lia|].
    cbn [bind fst snd]. unfold mk.
    pose proof (N.div_mod a v Z) as Ha.
    assert (E : u = (a / v * two64) * v + (a mod v * two64 + b)) by nia.
    f_equal. f_equal.
    + rewrite E at 1. rewrite N.div_add_l by exact Z. reflexivity.
    + rewrite E at 1. rewrite (N.add_comm (a / v * two64 * v)). rewrite N.mod_add by exact Z. reflexivity.
Qed.

Lemma div64_spec u v : u < two128 -> v < two64 ->
  div64 u v = if v =? 0 then Panic else Ok (u / v).
Proof.
  intros Hu Hv. unfold div64. rewrite quorem64_spec by assumption. destruct (v =? 0); reflexivity.
Qed.

Lemma div64_ok u v : u < two128 -> v < two64 -> v <> 0 -> div64 u v = Ok (u / v).
Proof.
  intros Hu Hv Hz. rewrite div64_spec by assumption. destruct (N.eqb_spec v 0); [contradiction|reflexivity].
Qed.

Lemma mod64_spec u v : u < two128 -> v < two64 ->
  mod64 u v = if v =? 0 then Panic else Ok (u mod v).
Proof.
  intros Hu Hv. unfold mod64. rewrite quorem64_spec by assumption. destruct (v =? 0); reflexivity.
Qed.

(* ---- general 128/128 division (QuoRem with a divisor above 64 bits: normalised trial quotient) ---- *)

Lemma two64_pow : two64 = 2 ^ 64. Proof. reflexivity. Qed.
Lemma two63_pow : two63 = 2 ^ 63. Proof. reflexivity. Qed.

Lemma pow2_pos k : 0 < 2 ^ k.
Proof. apply N.neq_0_lt_0. apply N.pow_nonzero. discriminate. Qed.

Lemma pow2_split a b : b <= a -> 2 ^ b * 2 ^ (a - b) = 2 ^ a.
Proof. intros H. rewrite <- N.pow_add_r. f_equal. lia. Qed.

(* bitwise or of disjoint numbers is their sum *)
Lemma lor_add a b k : b < 2 ^ k -> N.lor (a * 2 ^ k) b = a * 2 ^ k + b.
Proof.
  intros Hb.
  assert (Hland : N.land (a * 2 ^ k) b = 0).
  { apply N.bits_inj_0. intros i. rewrite N.land_spec.
    destruct (N.lt_ge_cases i k) as [Hi|Hi].
    - rewrite N.mul_pow2_bits_low by exact Hi. reflexivity.
    - assert (Hbi : N.testbit b i = false).
      { rewrite <- (N.mod_small b (2 ^ k)) by exact Hb. apply N.mod_pow2_bits_high. exact Hi. }
      rewrite Hbi. apply Bool.andb_false_r. }
  rewrite N.add_nocarry_lxor by exact Hland. symmetry. apply N.lxor_lor. exact Hland.
Qed.

Lemma leading_zeros_spec x : 0 < x -> x < two64 ->
  leading_zeros64 x <= 63 /\ two63 <= x * 2 ^ leading_zeros64 x /\ x * 2 ^ leading_zeros64 x < two64.
Proof.
  intros H0 H64. unfold leading_zeros64.
  rewrite N.size_log2 by lia.
  destruct (N.log2_spec x H0) as [L1 L2].
  assert (Hl : N.log2 x < 64).
  { apply N.log2_lt_pow2; [exact H0|]. rewrite <- two64_pow. exact H64. }
  replace (64 - N.succ (N.log2 x)) with (63 - N.log2 x) by lia.
  split; [lia|].
  assert (E1 : 2 ^ N.log2 x * 2 ^ (63 - N.log2 x) = two63) by (rewrite two63_pow; apply pow2_split; lia).
  assert (E2 : 2 ^ N.succ (N.log2 x) * 2 ^ (63 - N.log2 x) = two64).
  { rewrite two64_pow, <- N.pow_add_r. f_equal. lia. }
  pose proof (pow2_pos (63 - N.log2 x)) as Hp.
  revert E1 E2 Hp L1 L2. generalize (2 ^ N.log2 x) (2 ^ N.succ (N.log2 x)) (2 ^ (63 - N.log2 x)).
  intros A B P E1 E2 Hp L1 L2. split; nia.
Qed.

Lemma shl64_mul x n : shl64 x n = (x * 2 ^ n) mod two64.
Proof. unfold shl64, wrap. rewrite N.shiftl_mul_pow2. reflexivity. Qed.

Lemma shr64_div x n : shr64 x n = x / 2 ^ n.
Proof. unfold shr64. apply N.shiftr_div_pow2. Qed.

(* Lsh by n <= 63 when no bit is shifted out *)
Lemma lsh_spec v n : n <= 63 -> hi v * 2 ^ n < two64 -> lsh v n = v * 2 ^ n.
Proof.
  intros Hn Hh. unfold lsh. destruct (N.ltb_spec 64 n); [lia|].
  rewrite !shl64_mul, shr64_div. rewrite (N.mod_small (hi v * 2 ^ n)) by exact Hh.
  pose proof (lo_lt v) as Lb. pose proof (hi_lo v) as Ev.
  revert Lb Ev Hh. generalize (hi v) (lo v). intros a b Lb Ev Hh.
  pose proof (pow2_split 64 n ltac:(lia)) as Hs. rewrite <- two64_pow in Hs.
  pose proof (pow2_pos n) as Hp. pose proof (pow2_pos (64 - n)) as Hq.
  assert (Hb : b / 2 ^ (64 - n) < 2 ^ n).
  { apply N.div_lt_upper_bound; [lia|]. rewrite N.mul_comm. rewrite Hs. exact Lb. }
  rewrite lor_add by exact Hb. unfold mk.
  assert (Hd : (b * 2 ^ n) / two64 = b / 2 ^ (64 - n)).
  { rewrite <- Hs. rewrite <- N.div_div by lia. rewrite N.div_mul by lia. reflexivity. }
  pose proof (N.div_mod (b * 2 ^ n) two64 ltac:(discriminate)) as Hdm. rewrite Hd in Hdm.
  rewrite Ev. lia.
Qed.

Lemma rsh1_spec u : u < two128 -> rsh u 1 = u / 2.
Proof.
  intros Hu. unfold rsh. change (64 <? 1) with false. cbv iota.
  rewrite !shr64_div, shl64_mul. change (64 - 1) with 63. change (2 ^ 1) with 2.
  pose proof (lo_lt u) as Lb. pose proof (hi_lo u) as Ev. pose proof (hi_lt u Hu) as La.
  revert Lb Ev La. generalize (hi u) (lo u). intros a b Lb Ev La.
  assert (Hm : (a * 2 ^ 63) mod two64 = (a mod 2) * 2 ^ 63).
  { change (2 ^ 63) with two63.
    pose proof (N.div_mod a 2 ltac:(discriminate)) as Ha.
    assert (Hr : a mod 2 < 2) by (apply N.mod_lt; discriminate).
    symmetry. apply (N.mod_unique _ _ (a / 2)); unfold two63, two64 in *; lia. }
  rewrite Hm. rewrite N.lor_comm. rewrite lor_add by (change (2 ^ 63) with two63; unfold two63, two64 in *; lia).
  unfold mk. rewrite Ev. change (2 ^ 63) with two63. unfold two63, two64 in *. lia.
Qed.

(* the trial quotient of QuoRem: within one of the true quotient after the decrement *)
Lemma trial_quotient u v P Wd V :
  u < two128 -> 0 < P -> 0 < Wd -> P * Wd = two63 ->
  V * two64 <= v * P -> v * P < (V + 1) * two64 -> two63 <= V ->
  u / v <= u / 2 / V / Wd /\ (u / 2 / V / Wd - 1) * v <= u /\ u / 2 / V / Wd < two64.
Proof.
  intros Hu HP HW HPW Hlo Hhi HV.
  assert (HV0 : V <> 0) by (unfold two63 in *; lia).
  assert (Edd : u / 2 / V / Wd = u / (2 * V * Wd)) by (rewrite !N.div_div by lia; f_equal; lia).
  rewrite Edd. clear Edd.
  assert (E64 : two64 = 2 * (P * Wd)) by (rewrite HPW; reflexivity).
  assert (HD1 : 2 * V * Wd <= v).
  { apply (N.mul_le_mono_pos_r _ _ P HP). rewrite E64 in Hlo. nia. }
  assert (HD2 : v < 2 * V * Wd + 2 * Wd).
  { apply (N.mul_lt_mono_pos_r P _ _ HP). rewrite E64 in Hhi. nia. }
  assert (HD0 : 0 < 2 * V * Wd) by nia.
  assert (HDbig : two64 * Wd <= 2 * V * Wd) by (unfold two63, two64 in *; nia).
  pose proof (N.mul_div_le u (2 * V * Wd) ltac:(lia)) as Hq1.
  assert (Hle : u / v <= u / (2 * V * Wd)) by (apply N.div_le_compat_l; lia).
  revert Hq1 Hle. generalize (u / (2 * V * Wd)). intros tq Hq1 Hle.
  revert HD0 HD1 HD2 HDbig Hq1. generalize (2 * V * Wd). intros D HD0 HD1 HD2 HDbig Hq1.
  assert (HtW : tq * Wd < two64).
  { assert (tq * Wd * two64 < two64 * two64) by (rewrite <- two128_eq; nia).
    unfold two64 in *. nia. }
  assert (Htq : tq < two64) by nia.
  split; [exact Hle|]. split; [|exact Htq].
  destruct (N.eq_dec tq 0) as [Z|Z]; [subst tq; cbn; lia|].
  assert (Ht : (tq - 1) * (2 * Wd - 1) <= D).
  { destruct (N.eq_dec Wd 1) as [W1|W1].
    - subst Wd. unfold two64 in *. nia.
    - assert (2 <= Wd) by lia.
      assert ((tq - 1) * (2 * Wd - 1) <= 2 * (tq * Wd)) by nia.
      unfold two64 in *. nia. }
  assert (Hv : v <= D + (2 * Wd - 1)) by lia.
  assert ((tq - 1) * v <= (tq - 1) * D + (tq - 1) * (2 * Wd - 1)) by nia.
  assert ((tq - 1) * D + D = D * tq) by nia.
  lia.
Qed.

Lemma quorem_spec u v : u < two128 -> v < two128 ->
  quorem u v = if v =? 0 then Panic else Ok (u / v, u mod v).
Proof.
  intros Hu Hv. unfold quorem.
  destruct (N.eqb_spec (hi v) 0) as [Hz|Hz].
  - assert (Ev : v = lo v) by (rewrite (hi_lo v) at 1; rewrite Hz; lia).
    rewrite <- Ev. rewrite quorem64_spec by (try assumption; rewrite Ev; apply lo_lt).
    destruct (v =? 0); cbn [bind fst snd]; [reflexivity|]. rewrite from64_eq. reflexivity.
  - pose proof (hi_lt v Hv) as Hh64.
    assert (Hh0 : 0 < hi v) by lia.
    destruct (leading_zeros_spec (hi v) Hh0 Hh64) as (Hn & Hn1 & Hn2).
    set (n := leading_zeros64 (hi v)) in *.
    rewrite lsh_spec by assumption. rewrite rsh1_spec by exact Hu.
    pose proof (hi_lo v) as Ev. pose proof (lo_lt v) as Lv.
    pose proof (pow2_pos n) as HP. pose proof (pow2_pos (63 - n)) as HW.
    assert (HPW : 2 ^ n * 2 ^ (63 - n) = two63) by (rewrite two63_pow; apply pow2_split; exact Hn).
    set (V := hi (v * 2 ^ n)).
    assert (HVlo : V * two64 <= v * 2 ^ n) by (unfold V, hi; pose proof (N.mul_div_le (v * 2 ^ n) two64 ltac:(discriminate)); lia).
    assert (HVhi : v * 2 ^ n < (V + 1) * two64).
    { unfold V, hi. pose proof (N.mul_succ_div_gt (v * 2 ^ n) two64 ltac:(discriminate)). lia. }
    assert (HV63 : two63 <= V).
    { unfold V, hi. apply N.div_le_lower_bound; [discriminate|]. rewrite Ev at 1. nia. }
    assert (Hv0 : v <> 0) by (rewrite Ev; unfold two64 in *; lia).
    destruct (N.eqb_spec v 0) as [C|_]; [contradiction|].
    destruct (trial_quotient u v (2 ^ n) (2 ^ (63 - n)) V Hu HP HW HPW HVlo HVhi HV63) as (Tq1 & Tq2 & Tq3).
    (* the 128/64 division of the halved dividend *)
    unfold bits_div64.
    assert (Hu1 : hi (u / 2) < two63).
    { unfold hi. apply N.div_lt_upper_bound; [discriminate|]. unfold two63, two64, two128 in *. lia. }
    destruct (N.eqb_spec V 0) as [C|_]; [unfold two63 in *; lia|].
    destruct (N.leb_spec V (hi (u / 2))) as [C|_]; [lia|].
    cbn [bind fst snd]. rewrite <- (hi_lo (u / 2)). rewrite shr64_div.
    revert Tq1 Tq2 Tq3. generalize (u / 2 / V / 2 ^ (63 - n)). intros tq Tq1 Tq2 Tq3.
    assert (Et : (if negb (tq =? 0) then tq - 1 else tq) = tq - 1).
    { destruct (N.eqb_spec tq 0); cbn [negb]; lia. }
    rewrite Et. clear Et.
    assert (Hvt : v * (tq - 1) <= u) by lia.
    rewrite mul64_ok by (try assumption; lia). cbn [bind].
    rewrite sub_spec by (try assumption; lia).
    destruct (N.leb_spec (v * (tq - 1)) u) as [_|C]; [|lia]. cbn [bind].
    rewrite cmp_spec. rewrite from64_eq.
    assert (Hr128 : u - v * (tq - 1) < two128) by (apply (N.le_lt_trans _ u); [apply N.le_sub_l|assumption]).
    pose proof (N.mul_succ_div_gt u v Hv0) as Hgt.
    pose proof (N.mul_div_le u v Hv0) as Hle.
    destruct (N.compare_spec (u - v * (tq - 1)) v) as [E|L|G].
    + (* r = v *)
      rewrite add64_spec by (unfold two64, two128 in *; lia).
      destruct (N.ltb_spec (tq - 1 + 1) two128) as [_|C]; [|unfold two64, two128 in *; lia]. cbn [bind].
      rewrite sub_spec by assumption.
      destruct (N.leb_spec v (u - v * (tq - 1))) as [_|C]; [|lia]. cbn [bind].
      f_equal. f_equal.
      * apply (N.div_unique u v (tq - 1 + 1) (u - v * (tq - 1) - v)); nia.
      * apply (N.mod_unique u v (tq - 1 + 1) (u - v * (tq - 1) - v)); nia.
    + f_equal. f_equal.
      * apply (N.div_unique u v (tq - 1) (u - v * (tq - 1))); nia.
      * apply (N.mod_unique u v (tq - 1) (u - v * (tq - 1))); nia.
    + rewrite add64_spec by (unfold two64, two128 in *; lia).
      destruct (N.ltb_spec (tq - 1 + 1) two128) as [_|C]; [|unfold two64, two128 in *; lia]. cbn [bind].
      rewrite sub_spec by assumption.
      destruct (N.leb_spec v (u - v * (tq - 1))) as [_|C]; [|lia]. cbn [bind].
      assert (Hr2 : u - v * (tq - 1) - v < v).
      { assert (u < v * (tq + 1)) by nia. nia. }
      f_equal. f_equal.
      * apply (N.div_unique u v (tq - 1 + 1) (u - v * (tq - 1) - v)); nia.
      * apply (N.mod_unique u v (tq - 1 + 1) (u - v * (tq - 1) - v)); nia.
Qed.

Lemma div_spec u v : u < two128 -> v < two128 -> div u v = if v =? 0 then Panic else Ok (u / v).
Proof. intros Hu Hv. unfold div. rewrite quorem_spec by assumption. destruct (v =? 0); reflexivity. Qed.

Lemma mod_spec u v : u < two128 -> v < two128 -> mod_ u v = if v =? 0 then Panic else Ok (u mod v).
Proof. intros Hu Hv. unfold mod_. rewrite quorem_spec by assumption. destruct (v =? 0); reflexivity. Qed.
