(* Property C09, simulation part, general case: the relation between the private copies kept by validateMempoolTx
   (states of the addresses the transaction touches, delegate records touched by earlier entries) and the ledger reached by
   really applying the earlier transactions, for earlier entries of ALL five kinds by any signers.
   This file: fund lists, the relation, its preservation by the three delegate-changing kinds.

   What the simulation does NOT reproduce exactly, and why the relation is not equality:
   * an unstake that empties a fund leaves a fund of amount 0 in the simulated record; the ledger drops the fund
     (so a later stake of the same signer goes to the END of the real list and to the OLD position of the simulated one);
   * a simulated registration has owner key 0.
   Both are invisible to the checks on the transaction itself, which read funds by owner only. *)
From Virel Require Import Lib.Config Lib.U64 Lib.AMap Lib.CheckLib Model.Emission Model.Ledger Model.Node Model.Mempool
  Proofs.AMapLemmas Proofs.Conservation Proofs.Staking Proofs.StakedSum Proofs.Mempool.
Open Scope N_scope.
Open Scope bool_scope.

(* ---------------- fund lists ---------------- *)
Definition owners (fs : list fund) : list N := map f_owner fs.

Lemma find_fund_owner fs o f : find_fund fs o = Some f -> f_owner f = o.
Proof.
  induction fs as [|g fs IH]; cbn; [discriminate|].
  destruct (N.eqb_spec (f_owner g) o) as [E|E]; [intros [= <-]; exact E|exact IH].
Qed.

Lemma find_fund_none_notin fs o : find_fund fs o = None -> ~ In o (owners fs).
Proof.
  induction fs as [|g fs IH]; cbn; [intros _ []|].
  destruct (N.eqb_spec (f_owner g) o) as [E|E]; [discriminate|]. intros H [Hin|Hin]; [congruence|]. exact (IH H Hin).
Qed.

Lemma find_fund_notin_none fs o : ~ In o (owners fs) -> find_fund fs o = None.
Proof.
  induction fs as [|g fs IH]; cbn; [reflexivity|]. intros Hn.
  destruct (N.eqb_spec (f_owner g) o) as [E|E]; [exfalso; apply Hn; left; exact E|].
  apply IH. intros Hin. apply Hn. right. exact Hin.
Qed.

Lemma find_upd_other fs o nf o' :
  o' <> o -> (forall x, nf = Some x -> f_owner x = o) -> find_fund (upd_fund fs o nf) o' = find_fund fs o'.
Proof.
  intros Hne Hnf. induction fs as [|g fs IH]; cbn [upd_fund find_fund]; [reflexivity|].
  destruct (N.eqb_spec (f_owner g) o) as [E|E].
  - destruct (N.eqb_spec (f_owner g) o') as [E'|E']; [congruence|].
    destruct nf as [x|]; [|reflexivity]. cbn [find_fund]. rewrite (Hnf x eq_refl).
    destruct (N.eqb_spec o o'); [congruence|reflexivity].
  - cbn [find_fund]. destruct (f_owner g =? o'); [reflexivity|exact IH].
Qed.

Lemma find_upd_none_same fs o : NoDup (owners fs) -> find_fund (upd_fund fs o None) o = None.
Proof.
  induction fs as [|g fs IH]; cbn [upd_fund find_fund owners map]; intros Hnd; [reflexivity|].
  inversion Hnd as [|? ? Hn Hd]; subst.
  destruct (N.eqb_spec (f_owner g) o) as [E|E].
  - apply find_fund_notin_none. rewrite <- E. exact Hn.
  - cbn [find_fund]. destruct (N.eqb_spec (f_owner g) o); [contradiction|]. apply IH. exact Hd.
Qed.

Lemma find_fund_app fs x o :
  find_fund (fs ++ [x]) o = match find_fund fs o with
                            | Some f => Some f
                            | None => if f_owner x =? o then Some x else None end.
Proof.
  induction fs as [|g fs IH]; cbn [app find_fund]; [reflexivity|]. destruct (f_owner g =? o); [reflexivity|exact IH].
Qed.

Lemma owners_upd_some fs o nf : f_owner nf = o -> owners (upd_fund fs o (Some nf)) = owners fs.
Proof.
  intros Hn. induction fs as [|g fs IH]; cbn [upd_fund owners map]; [reflexivity|].
  destruct (N.eqb_spec (f_owner g) o) as [E|E]; cbn [map]; [congruence|]. f_equal. exact IH.
Qed.

Lemma in_owners_upd_none fs o x : In x (owners (upd_fund fs o None)) -> In x (owners fs).
Proof.
  induction fs as [|g fs IH]; cbn [upd_fund owners map]; [intros []|].
  destruct (f_owner g =? o); [intros H; right; exact H|]. cbn [map]. intros [H|H]; [left; exact H|right; apply IH; exact H].
Qed.

Lemma nodup_upd_none fs o : NoDup (owners fs) -> NoDup (owners (upd_fund fs o None)).
Proof.
  induction fs as [|g fs IH]; cbn [upd_fund owners map]; intros Hnd; [constructor|].
  inversion Hnd as [|? ? Hn Hd]; subst.
  destruct (f_owner g =? o); [exact Hd|]. cbn [map]. constructor; [|apply IH; exact Hd].
  intros Hin. apply Hn. eapply in_owners_upd_none. exact Hin.
Qed.

Lemma nodup_app_new fs x : NoDup (owners fs) -> find_fund fs (f_owner x) = None -> NoDup (owners (fs ++ [x])).
Proof.
  induction fs as [|g fs IH]; cbn [app owners map find_fund]; intros Hnd Hf.
  - constructor; [intros []|constructor].
  - inversion Hnd as [|? ? Hn Hd]; subst.
    destruct (N.eqb_spec (f_owner g) (f_owner x)) as [E|E]; [discriminate|].
    constructor; [|apply IH; assumption].
    intros Hin. change (In (f_owner g) (owners (fs ++ [x]))) in Hin. unfold owners in Hin. rewrite map_app in Hin.
    apply in_app_or in Hin. destruct Hin as [Hin|[Hin|[]]]; [exact (Hn Hin)|]. cbn in Hin. congruence.
Qed.

(* ---------------- the relation between a simulated and a real fund list ---------------- *)
(* every real fund has a simulated fund of the same owner, amount and unlock height; a simulated fund without a real one
   is an emptied fund *)
Definition frel (fs fs1 : list fund) : Prop := forall o,
  match find_fund fs1 o with
  | Some f1 => exists f, find_fund fs o = Some f /\ f_amt f = f_amt f1 /\ f_unlock f = f_unlock f1
  | None => match find_fund fs o with Some f => f_amt f = 0 | None => True end
  end.

Lemma frel_refl fs : frel fs fs.
Proof. intros o. destruct (find_fund fs o) as [f|]; [exists f; repeat split|exact I]. Qed.

(* the fund lists computed by a stake: simulation (sim_entry, version 4) and ledger (apply_stake, not reversing) *)
Definition sim_stake_funds (fs : list fund) (o a pu U : N) : res (list fund) :=
  match find_fund fs o with
  | Some f => _ <- guard (f_unlock f =? pu) 906 ;;
              amt' <- of_opt (safe_add (f_amt f) a) 907 ;;
              Ok (upd_fund fs o (Some (mkfund o amt' U)))
  | None => Ok (fs ++ [mkfund o a U])
  end.
Definition real_stake_funds (fs : list fund) (o a pu U : N) : res (list fund) :=
  match find_fund fs o with
  | Some f => _ <- guard (f_unlock f =? pu) 302 ;;
              amt' <- of_opt (safe_add (f_amt f) a) 303 ;;
              Ok (upd_fund fs o (Some (mkfund o amt' U)))
  | None => Ok (fs ++ [mkfund o a U])
  end.

Lemma safe_add_zero a : a < two64 -> safe_add 0 a = Some a.
Proof.
  intros Ha. unfold safe_add. rewrite wadd_small by lia. cbn [N.add]. destruct (N.ltb_spec a 0); [lia|reflexivity].
Qed.

Lemma frel_stake fs fs1 o a pu U fs' fs1' :
  frel fs fs1 -> a < two64 ->
  sim_stake_funds fs o a pu U = Ok fs' -> real_stake_funds fs1 o a pu U = Ok fs1' -> frel fs' fs1'.
Proof.
  intros Hr Ha Hs Hq. unfold sim_stake_funds in Hs. unfold real_stake_funds in Hq.
  pose proof (Hr o) as Ho.
  destruct (find_fund fs1 o) as [f1|] eqn:Ef1.
  - destruct Ho as (f & Ef & Hamt & Hul). rewrite Ef in Hs.
    guard_inv Hs. opt_inv Hs. injection Hs as <-. guard_inv Hq. opt_inv Hq. injection Hq as <-.
    assert (Hx : x = x0) by congruence. subst x0.
    intros o'. destruct (N.eqb_spec o' o) as [->|Hne].
    + rewrite (find_fund_upd fs1 o (mkfund o x U) eq_refl (ex_intro _ f1 Ef1)).
      exists (mkfund o x U). split; [apply find_fund_upd; [reflexivity|exists f; exact Ef]|]. split; reflexivity.
    + rewrite !find_upd_other by (try exact Hne; intros ? [= <-]; reflexivity). exact (Hr o').
  - injection Hq as <-.
    destruct (find_fund fs o) as [f|] eqn:Ef.
    + guard_inv Hs. opt_inv Hs. injection Hs as <-.
      rewrite Ho, (safe_add_zero a Ha) in E. injection E as <-.
      intros o'. rewrite find_fund_app. cbn [f_owner].
      destruct (N.eqb_spec o' o) as [->|Hne].
      * rewrite Ef1, N.eqb_refl. exists (mkfund o a U).
        split; [apply find_fund_upd; [reflexivity|exists f; exact Ef]|]. split; reflexivity.
      * rewrite find_upd_other by (try exact Hne; intros ? [= <-]; reflexivity).
        destruct (N.eqb_spec o o'); [congruence|]. pose proof (Hr o') as Ho'.
        destruct (find_fund fs1 o'); exact Ho'.
    + injection Hs as <-. intros o'. rewrite !find_fund_app. cbn [f_owner]. pose proof (Hr o') as Ho'.
      destruct (find_fund fs1 o') as [g1|] eqn:Eg1.
      * destruct Ho' as (g & Eg & Hg). rewrite Eg. exists g. split; [reflexivity|exact Hg].
      * destruct (find_fund fs o') as [g|] eqn:Eg.
        -- destruct (N.eqb_spec o o') as [->|Hne]; [congruence|exact Ho'].
        -- destruct (N.eqb_spec o o') as [->|Hne]; [|exact I]. exists (mkfund o' a U). repeat split.
Qed.

(* ... and by an unstake *)
Lemma frel_unstake fs fs1 o a f f1 :
  frel fs fs1 -> NoDup (owners fs1) ->
  find_fund fs o = Some f -> find_fund fs1 o = Some f1 -> a <= f_amt f1 ->
  frel (upd_fund fs o (Some (mkfund (f_owner f) (f_amt f - a) (f_unlock f))))
       (upd_fund fs1 o (if f_amt f1 - a =? 0 then None else Some (mkfund o (f_amt f1 - a) (f_unlock f1)))).
Proof.
  intros Hr Hnd Ef Ef1 Hle. pose proof (Hr o) as Ho. rewrite Ef1 in Ho. destruct Ho as (f' & Ef' & Hamt & Hul).
  assert (f' = f) by congruence. subst f'. pose proof (find_fund_owner _ _ _ Ef) as Hof. rewrite Hof.
  intros o'. destruct (N.eqb_spec o' o) as [->|Hne].
  - rewrite (find_fund_upd fs o (mkfund o (f_amt f - a) (f_unlock f)) eq_refl (ex_intro _ f Ef)).
    destruct (N.eqb_spec (f_amt f1 - a) 0) as [Ez|Ez].
    + rewrite find_upd_none_same by exact Hnd. cbn [f_amt]. lia.
    + rewrite (find_fund_upd fs1 o (mkfund o (f_amt f1 - a) (f_unlock f1)) eq_refl (ex_intro _ f1 Ef1)). eexists. split; [reflexivity|]. cbn [f_amt f_unlock].
      split; [lia|exact Hul].
  - rewrite (find_upd_other fs o _ o' Hne) by (intros ? [= <-]; reflexivity).
    rewrite (find_upd_other fs1 o _ o' Hne) by (destruct (_ =? 0); [discriminate|intros ? [= <-]; reflexivity]).
    exact (Hr o').
Qed.

Lemma nodup_stake fs1 o a pu U fs1' :
  NoDup (owners fs1) -> real_stake_funds fs1 o a pu U = Ok fs1' -> NoDup (owners fs1').
Proof.
  intros Hnd Hq. unfold real_stake_funds in Hq. destruct (find_fund fs1 o) as [f1|] eqn:Ef1.
  - guard_inv Hq. opt_inv Hq. injection Hq as <-. rewrite owners_upd_some by reflexivity. exact Hnd.
  - injection Hq as <-. apply nodup_app_new; [exact Hnd|exact Ef1].
Qed.

Lemma nodup_unstake fs1 o nf : NoDup (owners fs1) -> (forall x, nf = Some x -> f_owner x = o) ->
  NoDup (owners (upd_fund fs1 o nf)).
Proof.
  intros Hnd Hnf. destruct nf as [x|]; [|apply nodup_upd_none; exact Hnd].
  rewrite owners_upd_some by (apply Hnf; reflexivity). exact Hnd.
Qed.

(* ---------------- the delegate table ---------------- *)
Lemma nget_dins_other m id d id' : id' <> id -> nget (dins m id d) id' = nget m id'.
Proof.
  intros Hne. unfold nget. induction m as [|[k v] m IH]; cbn [dins aget].
  - destruct (N.eqb_spec id' id); [contradiction|reflexivity].
  - destruct (N.eqb_spec id k) as [E|E]; cbn [aget].
    + subst k. destruct (N.eqb_spec id' id); [contradiction|reflexivity].
    + destruct (dbkey id <? dbkey k); cbn [aget].
      * destruct (N.eqb_spec id' id); [contradiction|reflexivity].
      * destruct (id' =? k); [reflexivity|exact IH].
Qed.

Lemma get_put_dlg l d id : get_dlg (put_dlg l d) id = if id =? d_id d then Some d else get_dlg l id.
Proof.
  unfold get_dlg, put_dlg. cbn [dlgs set_dlgs]. destruct (N.eqb_spec id (d_id d)) as [->|Hne].
  - apply nget_dins_same.
  - apply nget_dins_other. exact Hne.
Qed.

Lemma get_dlg_ext l l' id : dlgs l' = dlgs l -> get_dlg l' id = get_dlg l id.
Proof. unfold get_dlg. intros ->. reflexivity. Qed.

Lemma gol_nset l0 sd id d id' :
  get_or_load l0 (nset sd id d) id' = if id' =? id then Some d else get_or_load l0 sd id'.
Proof. unfold get_or_load. rewrite nget_nset. destruct (id' =? id); reflexivity. Qed.

(* simulated delegate records (those kept in the simulation, the others read from the ledger [l0] the simulation
   started from) against the real ledger [l] *)
Definition drel (l0 : ledger) (sd : list (N * dlg)) (l : ledger) : Prop := forall id,
  match get_or_load l0 sd id, get_dlg l id with
  | None, None => True
  | Some d, Some d1 => frel (d_funds d) (d_funds d1)
  | _, _ => False
  end.

Lemma drel_start l : drel l [] l.
Proof. intros id. unfold get_or_load. cbn [nget aget]. destruct (get_dlg l id); [apply frel_refl|exact I]. Qed.

Lemma drel_ext l0 sd l l' : dlgs l' = dlgs l -> drel l0 sd l -> drel l0 sd l'.
Proof. intros He Hr id. rewrite (get_dlg_ext l l' id He). exact (Hr id). Qed.

Lemma drel_update l0 sd l lx d d1 id :
  drel l0 sd l -> dlgs lx = dlgs l -> d_id d1 = id -> frel (d_funds d) (d_funds d1) ->
  drel l0 (nset sd id d) (put_dlg lx d1).
Proof.
  intros Hr Hx Hid Hf id'. rewrite gol_nset, get_put_dlg, Hid. destruct (id' =? id); [exact Hf|].
  rewrite (get_dlg_ext l lx id' Hx). exact (Hr id').
Qed.

(* what the ledger side needs besides the staked-sum invariant: no owner has two funds in a pool, no delegate 0 *)
Definition fnodup (l : ledger) : Prop := forall id d, get_dlg l id = Some d -> NoDup (owners (d_funds d)).
Definition linv (l : ledger) : Prop := SInv l /\ fnodup l /\ get_dlg l 0 = None.

Lemma linv_ext l l' : dlgs l' = dlgs l -> staked l' = staked l -> linv l -> linv l'.
Proof.
  intros Hd Hs (HI & Hn & H0). split; [eapply SInv_ext; eassumption|]. split.
  - intros id d Hg. rewrite (get_dlg_ext l l' id Hd) in Hg. exact (Hn id d Hg).
  - rewrite (get_dlg_ext l l' 0 Hd). exact H0.
Qed.

Lemma fnodup_update l lx d1 :
  fnodup l -> dlgs lx = dlgs l -> NoDup (owners (d_funds d1)) -> fnodup (put_dlg lx d1).
Proof.
  intros Hn Hx Hd id d Hg. rewrite get_put_dlg in Hg. destruct (id =? d_id d1); [injection Hg as <-; exact Hd|].
  rewrite (get_dlg_ext l lx id Hx) in Hg. exact (Hn id d Hg).
Qed.

Lemma SInv_fund_le l id d o f : SInv l -> get_dlg l id = Some d -> find_fund (d_funds d) o = Some f -> f_amt f <= staked l.
Proof.
  intros (_ & _ & Hsum & _) Hg Hf. pose proof (nget_le_sum _ _ _ Hg) as H1. pose proof (find_fund_le _ _ _ Hf) as H2.
  change (tot d) with (ftot (d_funds d)) in H1. lia.
Qed.

(* ---------------- ApplyTxToState in two parts: the kind-specific part, then nonce / inputs / outputs ---------------- *)
Section Step.
Variable cfg : config.

Definition kind_step (l : ledger) (t : tx) (st : acct) (top_h : N) : res (ledger * acct) :=
  let signer := addr_of_key (tx_signer t) in
  match tx_data t with
  | TStake a id pu =>
      if tx_version t =? 4 then
        _ <- guard (negb (id =? 0)) 363 ;; _ <- guard (deleg st =? id) 364 ;;
        l1 <- apply_stake cfg l a id pu signer top_h (tx_id t) false ;; Ok (l1, st)
      else Ok (l, st)
  | TUnstake a id =>
      if tx_version t =? 5 then
        _ <- guard (negb (id =? 0)) 365 ;; _ <- guard (deleg st =? id) 366 ;;
        l1 <- apply_unstake l a id signer top_h (tx_id t) false 0 ;; Ok (l1, st)
      else Ok (l, st)
  | TRegister _ name id =>
      if tx_version t =? 2 then
        _ <- guard (match get_dlg l id with Some _ => false | None => true end) 367 ;;
        Ok (put_dlg l (mkdlg id (tx_signer t) name []), st)
      else Ok (l, st)
  | TSetDelegate new prev =>
      if tx_version t =? 3 then
        _ <- guard (prev =? deleg st) 368 ;;
        _ <- guard (match get_dlg l prev with
                    | Some d => match find_fund (d_funds d) signer with Some _ => false | None => true end
                    | None => true end) 369 ;;
        _ <- guard (match get_dlg l new with Some _ => true | None => false end) 370 ;;
        Ok (l, mkacct (bal st) (nonce st) (inc st) new)
      else Ok (l, st)
  | TTransfer _ => Ok (l, st)
  end.

Definition tx_tail (l1 : ledger) (st1 : acct) (t : tx) (height blockhash : N) : res ledger :=
  let signer := addr_of_key (tx_signer t) in
  let st2 := mkacct (bal st1) (wadd (nonce st1) 1) (inc st1) (deleg st1) in
  let l2 := put_state l1 signer st2 in
  l3 <- apply_inputs l2 (state_inputs cfg t signer) ;;
  outs <- state_outputs cfg t signer ;;
  let l4 := fst (apply_outputs l3 blockhash outs (tx_id t)) in
  let l5 := set_outtx l4 (pset (outtx l4) (signer, nonce st2) (tx_id t)) in
  Ok (set_txh l5 (nset (txh l5) (tx_id t) height)).

Lemma apply_tx_eq l t h bh th :
  apply_tx cfg l t h bh th =
  (st <- of_opt (get_state l (addr_of_key (tx_signer t))) 361 ;;
   _ <- guard (tx_nonce t =? wadd (nonce st) 1) 362 ;;
   r1 <- kind_step l t st th ;;
   let '(l1, st1) := r1 in tx_tail l1 st1 t h bh).
Proof. reflexivity. Qed.

Lemma inputs_agree ins : forall l m l' m',
  apply_inputs l ins = Ok l' -> sim_inputs m ins = Ok m' -> agree l m -> agree l' m'.
Proof.
  induction ins as [|[amt sender] ins IH]; intros l m l' m' Ha Hs Hm; cbn [apply_inputs sim_inputs] in Ha, Hs.
  - injection Ha as <-. injection Hs as <-. exact Hm.
  - opt_inv Ha. guard_inv Ha.
    pose proof (agree_put l m sender (mkacct (bal x - amt) (nonce x) (inc x) (deleg x)) Hm) as Hp.
    destruct (nget m sender) as [s|] eqn:Es.
    + pose proof (Hm _ _ Es) as Hs0. rewrite (load_state_some _ _ _ E) in Hs0. subst s.
      destruct (bal x <? amt); [discriminate Hs|]. exact (IH _ _ _ _ Ha Hs Hp).
    + exact (IH _ _ _ _ Ha Hs Hp).
Qed.

(* the second part, for a signer state whose delegate the kind-specific part left alone *)
Lemma tail_agree lk st t h bh l' m e m2 tot exp :
  tx_tail lk st t h bh = Ok l' -> get_state lk (addr_of_key (tx_signer t)) = Some st ->
  agree lk m -> total_bal lk < two64 ->
  wf_tx cfg t -> tx_total cfg t = Some tot -> entry_of_tx cfg t exp = Ok e ->
  sim_inputs (match nget m (me_signer e) with
              | Some s => nset m (me_signer e) (mkacct (bal s) (wadd (nonce s) 1) (inc s) (deleg s))
              | None => m end) (me_inputs e) = Ok m2 ->
  agree l' (sim_outputs m2 (me_outputs e)) /\ dlgs l' = dlgs lk /\ staked l' = staked lk.
Proof.
  intros Ht Hg Hm Hb Hwf Etot He Hs.
  unfold entry_of_tx in He. bind_inv He. rename a into outs. injection He as <-.
  cbn [me_signer me_inputs me_outputs] in *.
  set (sg := addr_of_key (tx_signer t)) in *.
  unfold tx_tail in Ht. fold sg in Ht.
  set (st2 := mkacct (bal st) (wadd (nonce st) 1) (inc st) (deleg st)) in *.
  set (l2 := put_state lk sg st2) in *.
  bind_inv Ht. rename a into l3. rewrite E in Ht. cbn [bind] in Ht. injection Ht as <-.
  destruct (ins_outs_balance cfg t sg tot outs Hwf Etot E) as (Hbal & Hin64 & Hnp).
  assert (Hm1 : agree l2 (match nget m sg with
                          | Some s => nset m sg (mkacct (bal s) (wadd (nonce s) 1) (inc s) (deleg s))
                          | None => m end)).
  { pose proof (agree_put lk m sg st2 Hm) as Hp. fold l2 in Hp.
    destruct (nget m sg) as [s0|] eqn:Es0; [|exact Hp].
    pose proof (Hm _ _ Es0) as Hs0. rewrite (load_state_some _ _ _ Hg) in Hs0. subst s0. exact Hp. }
  pose proof (inputs_agree _ _ _ _ _ E0 Hs Hm1) as Hm2.
  assert (Ht2 : total_bal l2 = total_bal lk).
  { pose proof (total_put_state lk sg st2) as Hp. fold l2 in Hp. unfold bal_at in Hp. rewrite Hg in Hp.
    cbn [fopt bal st2] in Hp. lia. }
  pose proof (apply_inputs_total _ _ _ E0) as Ht3.
  destruct (outputs_agree cfg outs l3 m2 bh (tx_id t) Hm2 Hnp ltac:(lia)) as (A & B & C).
  destruct (ds_apply_inputs _ _ _ E0) as [D1 D2].
  split; [|split].
  - eapply agree_ext; [|exact A]. intros k. reflexivity.
  - cbn [set_txh set_outtx dlgs]. rewrite B, D1. reflexivity.
  - cbn [set_txh set_outtx staked]. rewrite C, D2. reflexivity.
Qed.

Lemma agree_accts l l' m : accts l' = accts l -> agree l m -> agree l' m.
Proof. intros He. apply agree_ext. intros k. unfold load_state, get_state. rewrite He. reflexivity. Qed.

(* ---------------- the three kinds that change delegate records ---------------- *)
Lemma stats_staked_dlgs l a ls : stats_staked l a = Ok ls -> dlgs ls = dlgs l /\ accts ls = accts l.
Proof. unfold stats_staked. destruct (_ <? _); [discriminate|]. intros [= <-]. split; reflexivity. Qed.
Lemma stats_unstaked_dlgs l a ls : stats_unstaked l a = Ok ls -> dlgs ls = dlgs l /\ accts ls = accts l.
Proof. unfold stats_unstaked. destruct (_ <? _); [discriminate|]. intros [= <-]. split; reflexivity. Qed.

Lemma stake_rel l0 sd l a id pu o th txid lk d fs' :
  apply_stake cfg l a id pu o th txid false = Ok lk ->
  drel l0 sd l -> linv l -> a < two64 -> id <> 0 ->
  get_or_load l0 sd id = Some d -> sim_stake_funds (d_funds d) o a pu (wadd th (unlock_time cfg)) = Ok fs' ->
  drel l0 (nset sd id (mkdlg (d_id d) (d_owner d) (d_name d) fs')) lk /\ linv lk /\ accts lk = accts l.
Proof.
  intros Ha Hdr (HI & Hnd & H0) Ha64 Hid Hgd Hsf.
  destruct (apply_stake_SInv cfg _ _ _ _ _ _ _ _ _ HI Ha64 Ha) as [HI' _].
  pose proof (accts_apply_stake cfg _ _ _ _ _ _ _ _ _ Ha) as Hacc.
  unfold apply_stake in Ha. opt_inv Ha. rename x into d1. bind_inv Ha. rename a0 into fs1'. bind_inv Ha. rename a0 into ls.
  injection Ha as <-.
  assert (Hq : real_stake_funds (d_funds d1) o a pu (wadd th (unlock_time cfg)) = Ok fs1') by exact E0.
  destruct (stats_staked_dlgs _ _ _ E1) as [Hdl _].
  pose proof (Hdr id) as Hrid. rewrite Hgd, E in Hrid.
  pose proof (frel_stake _ _ _ _ _ _ _ _ Hrid Ha64 Hsf Hq) as Hfr.
  destruct HI as (_ & Hkey & _). pose proof (nget_keyed _ _ _ Hkey E) as Hdid.
  split; [|split; [split; [exact HI'|split]|exact Hacc]].
  - apply (drel_update l0 sd l ls); [exact Hdr|exact Hdl|exact Hdid|exact Hfr].
  - apply (fnodup_update l ls); [exact Hnd|exact Hdl|]. cbn [d_funds].
    eapply nodup_stake; [exact (Hnd id d1 E)|exact Hq].
  - rewrite get_put_dlg. cbn [d_id]. rewrite Hdid. destruct (N.eqb_spec 0 id); [congruence|].
    rewrite (get_dlg_ext l ls 0 Hdl). exact H0.
Qed.

Lemma unstake_rel l0 sd l a id o th txid lk d f :
  apply_unstake l a id o th txid false 0 = Ok lk ->
  drel l0 sd l -> linv l -> a < two64 -> id <> 0 ->
  get_or_load l0 sd id = Some d -> find_fund (d_funds d) o = Some f ->
  drel l0 (nset sd id (mkdlg (d_id d) (d_owner d) (d_name d)
                         (upd_fund (d_funds d) o (Some (mkfund (f_owner f) (f_amt f - a) (f_unlock f)))))) lk /\
  linv lk /\ accts lk = accts l.
Proof.
  intros Ha Hdr (HI & Hnd & H0) Ha64 Hid Hgd Hff.
  destruct (apply_unstake_SInv _ _ _ _ _ _ _ _ _ HI Ha64 Ha) as [HI' _].
  pose proof (accts_apply_unstake _ _ _ _ _ _ _ _ _ Ha) as Hacc.
  unfold apply_unstake in Ha. opt_inv Ha. rename x into d1. opt_inv Ha. rename x into f1.
  guard_inv Ha. guard_inv Ha. bind_inv Ha. rename a0 into ls. injection Ha as <-.
  apply Bool.negb_true_iff in G0. apply N.ltb_ge in G0.
  assert (Hdl : dlgs ls = dlgs l).
  { destruct (stats_unstaked_dlgs _ _ _ E1) as [Hx _]. rewrite Hx. destruct (_ && _); reflexivity. }
  pose proof (Hdr id) as Hrid. rewrite Hgd, E in Hrid.
  pose proof (frel_unstake _ _ o a f f1 Hrid (Hnd id d1 E) Hff E0 G0) as Hfr.
  destruct HI as (_ & Hkey & _). pose proof (nget_keyed _ _ _ Hkey E) as Hdid.
  split; [|split; [split; [exact HI'|split]|exact Hacc]].
  - apply (drel_update l0 sd l ls); [exact Hdr|exact Hdl|exact Hdid|exact Hfr].
  - apply (fnodup_update l ls); [exact Hnd|exact Hdl|]. cbn [d_funds].
    apply nodup_unstake; [exact (Hnd id d1 E)|]. destruct (_ =? 0); [discriminate|intros ? [= <-]; reflexivity].
  - rewrite get_put_dlg. cbn [d_id]. rewrite Hdid. destruct (N.eqb_spec 0 id); [congruence|].
    rewrite (get_dlg_ext l ls 0 Hdl). exact H0.
Qed.

Lemma register_rel l0 sd l id owner name name' :
  get_dlg l id = None -> drel l0 sd l -> linv l -> id <> 0 ->
  drel l0 (nset sd id (mkdlg id 0 name' [])) (put_dlg l (mkdlg id owner name [])) /\
  linv (put_dlg l (mkdlg id owner name [])).
Proof.
  intros Hn Hdr (HI & Hnd & H0) Hid. split; [|split; [|split]].
  - apply (drel_update l0 sd l l); [exact Hdr|reflexivity|reflexivity|apply frel_refl].
  - apply register_SInv; assumption.
  - apply (fnodup_update l l); [exact Hnd|reflexivity|constructor].
  - rewrite get_put_dlg. cbn [d_id]. destruct (N.eqb_spec 0 id); [congruence|exact H0].
Qed.

End Step.
