(* Lemmas about the Ser/Des model: list primitives, uvarint, little-endian integers, the reading primitives in
   "bind form" (so that a decoder applied to an encoding is executed by rewriting), no-panic and allocation facts. *)
From Virel Require Import Lib.U64 Model.Des.
Open Scope N_scope.

(* ------------------------------------------------------------------ lists *)

Lemma blen_nil {A} : blen (@nil A) = 0. Proof. reflexivity. Qed.
Lemma blen_cons {A} (x : A) l : blen (x :: l) = blen l + 1.
Proof. unfold blen. cbn [length]. lia. Qed.
Lemma blen_app {A} (a b : list A) : blen (a ++ b) = blen a + blen b.
Proof. unfold blen. rewrite app_length. lia. Qed.

Lemma lenltb_spec l : forall n, lenltb l n = (blen l <? n).
Proof.
  induction l as [|x l IH]; intros n; cbn [lenltb].
  - reflexivity.
  - rewrite blen_cons. destruct (N.eqb_spec n 0) as [->|Hn].
    + symmetry. apply N.ltb_ge. lia.
    + rewrite IH. destruct (N.ltb_spec (blen l) (n - 1)), (N.ltb_spec (blen l + 1) n); try reflexivity; lia.
Qed.

Lemma split_at_0 l : split_at l 0 = Some ([], l).
Proof. destruct l; reflexivity. Qed.

Lemma split_at_app a : forall rest, split_at (a ++ rest) (blen a) = Some (a, rest).
Proof.
  induction a as [|x a IH]; intros rest.
  - apply split_at_0.
  - cbn [app split_at]. rewrite blen_cons.
    destruct (N.eqb_spec (blen a + 1) 0) as [H|H]; [lia|].
    replace (blen a + 1 - 1) with (blen a) by lia. rewrite IH. reflexivity.
Qed.

Lemma split_at_some l : forall n a b, split_at l n = Some (a, b) -> l = a ++ b /\ blen a = n.
Proof.
  induction l as [|x l IH]; intros n a b; cbn [split_at].
  - destruct (N.eqb_spec n 0) as [->|Hn]; [|discriminate]. intros [= <- <-]. split; reflexivity.
  - destruct (N.eqb_spec n 0) as [->|Hn].
    + intros [= <- <-]. split; reflexivity.
    + destruct (split_at l (n - 1)) as [[a' b']|] eqn:E; [|discriminate].
      intros [= <- <-]. destruct (IH _ _ _ E) as [-> H]. split; [reflexivity|]. rewrite blen_cons. lia.
Qed.

Lemma split_at_enough l : forall n, n <= blen l -> exists a b, split_at l n = Some (a, b).
Proof.
  induction l as [|x l IH]; intros n Hn; cbn [split_at].
  - rewrite blen_nil in Hn. replace n with 0 by lia. cbn. eauto.
  - destruct (N.eqb_spec n 0) as [->|Hn0]; [eauto|].
    rewrite blen_cons in Hn. destruct (IH (n - 1)) as (a & b & E); [lia|]. rewrite E. eauto.
Qed.

Lemma split_at_none l n : split_at l n = None -> blen l < n.
Proof.
  intros H. destruct (N.lt_ge_cases (blen l) n) as [|Hge]; [assumption|].
  destruct (split_at_enough l n Hge) as (a & b & E). congruence.
Qed.

Lemma zeros_len n : blen (zeros n) = n.
Proof. unfold zeros, blen. rewrite repeat_length. lia. Qed.

(* ------------------------------------------------------------------ bytes: facts checked on all 256 values *)

Lemma forall_lt256 (P : N -> bool) :
  forallb P (map N.of_nat (seq 0 256)) = true -> forall w, w < 256 -> P w = true.
Proof.
  intros H w Hw. rewrite forallb_forall in H. apply H.
  apply in_map_iff. exists (N.to_nat w). split; [lia|]. apply in_seq. lia.
Qed.

Lemma byte_lor128 w : w < 256 -> N.lor w 128 = w mod 128 + 128.
Proof.
  intros H. apply N.eqb_eq. revert w H. apply forall_lt256. vm_compute. reflexivity.
Qed.
Lemma byte_land127 w : w < 256 -> N.land w 127 = w mod 128.
Proof.
  intros H. apply N.eqb_eq. revert w H. apply forall_lt256. vm_compute. reflexivity.
Qed.

(* ------------------------------------------------------------------ lor of disjoint bit ranges *)

Lemma lor_disjoint x y s : x < 2 ^ s -> N.lor x (y * 2 ^ s) = x + y * 2 ^ s.
Proof.
  intros Hx.
  assert (H0 : N.land x (y * 2 ^ s) = 0).
  { apply N.bits_inj_0. intros n. rewrite N.land_spec, <- N.shiftl_mul_pow2.
    destruct (N.lt_ge_cases n s) as [Hn|Hn].
    - rewrite (N.shiftl_spec_low _ _ _ Hn). apply andb_false_r.
    - rewrite <- (N.mod_small x (2 ^ s)) by assumption. rewrite (N.mod_pow2_bits_high _ _ _ Hn). reflexivity. }
  rewrite (N.add_nocarry_lxor _ _ H0). symmetry. apply N.lxor_lor. exact H0.
Qed.

Lemma lor_lt_two64 x y : x < two64 -> y < two64 -> N.lor x y < two64.
Proof.
  intros Hx Hy. change two64 with (2 ^ 64) in *.
  destruct (N.eq_dec (N.lor x y) 0) as [->|Hn]; [reflexivity|].
  apply N.log2_lt_pow2; [lia|]. rewrite N.log2_lor.
  destruct (N.eq_dec x 0) as [->|Hx0]; destruct (N.eq_dec y 0) as [->|Hy0]; cbn [N.log2 N.max].
  - reflexivity.
  - rewrite N.max_0_l. apply N.log2_lt_pow2; lia.
  - rewrite N.max_0_r. apply N.log2_lt_pow2; lia.
  - apply N.max_lub_lt; apply N.log2_lt_pow2; lia.
Qed.

Lemma wshl_lt b s : wshl b s < two64.
Proof. unfold wshl. apply N.mod_lt. discriminate. Qed.

(* ------------------------------------------------------------------ uvarint *)

Lemma put_uvarint_f_len_pos fuel v : 1 <= blen (put_uvarint_f fuel v).
Proof. destruct fuel; cbn [put_uvarint_f]; [|destruct (128 <=? v)]; rewrite blen_cons; lia. Qed.

Lemma put_uvarint_f_len_le fuel : forall v, blen (put_uvarint_f fuel v) <= N.of_nat fuel + 1.
Proof.
  induction fuel as [|k IH]; intros v; cbn [put_uvarint_f].
  - cbn. lia.
  - destruct (128 <=? v).
    + rewrite blen_cons. specialize (IH (v / 128)). lia.
    + cbn. lia.
Qed.

Lemma pow2_split s : 2 ^ (s + 7) = 128 * 2 ^ s.
Proof. rewrite N.pow_add_r. change (2 ^ 7) with 128. lia. Qed.

Lemma uvarint_go_put : forall fuel v i x s rest,
  s = 7 * i -> i + N.of_nat fuel = 9 -> x < 2 ^ s -> x + v * 2 ^ s < two64 ->
  uvarint_go (put_uvarint_f fuel v ++ rest) i x s = (x + v * 2 ^ s, Z.of_N (i + blen (put_uvarint_f fuel v))).
Proof.
  induction fuel as [|k IH]; intros v i x s rest Hs Hi Hx HV.
  - (* i = 9, s = 63 *)
    assert (i = 9) by lia. subst i. assert (s = 63) by lia. subst s.
    assert (Hv : v < 2). { change two64 with (2 * 2 ^ 63) in HV. nia. }
    cbn [put_uvarint_f app uvarint_go]. rewrite (N.mod_small v 256) by lia.
    change (9 =? 10) with false. cbv iota.
    replace (v <? 128) with true by (symmetry; apply N.ltb_lt; lia).
    replace (1 <? v) with false by (symmetry; apply N.ltb_ge; lia).
    cbn [andb N.eqb Pos.eqb]. unfold wshl. rewrite (N.mod_small (v * 2 ^ 63)) by lia.
    rewrite lor_disjoint by assumption. reflexivity.
  - assert (Hi8 : i <= 8) by lia.
    assert (Hs56 : 2 ^ s <= 2 ^ 56). { apply N.pow_le_mono_r; lia. }
    cbn [put_uvarint_f]. destruct (N.leb_spec 128 v) as [Hge|Hlt].
    + cbn [app uvarint_go].
      replace (i =? 10) with false by (symmetry; apply N.eqb_neq; lia).
      assert (Hb : v mod 256 < 256) by (apply N.mod_lt; discriminate).
      rewrite (byte_lor128 _ Hb).
      assert (Hm : (v mod 256) mod 128 = v mod 128).
      { change 256 with (128 * 2). rewrite N.mod_mul_r by discriminate.
        rewrite N.mul_comm, N.mod_add by discriminate. apply N.mod_mod. discriminate. }
      rewrite Hm.
      replace (v mod 128 + 128 <? 128) with false by (symmetry; apply N.ltb_ge; lia).
      assert (Hb2 : v mod 128 + 128 < 256). { assert (v mod 128 < 128) by (apply N.mod_lt; discriminate). lia. }
      rewrite (byte_land127 _ Hb2).
      replace ((v mod 128 + 128) mod 128) with (v mod 128).
      2:{ replace (v mod 128 + 128) with (v mod 128 + 1 * 128) by lia. rewrite N.mod_add by discriminate.
          symmetry. apply N.mod_mod. discriminate. }
      assert (Hlow : v mod 128 < 128) by (apply N.mod_lt; discriminate).
      unfold wshl. rewrite (N.mod_small (v mod 128 * 2 ^ s)).
      2:{ change two64 with (2 ^ 64). apply N.lt_le_trans with (128 * 2 ^ 56); [nia|]. cbv. discriminate. }
      rewrite lor_disjoint by assumption.
      rewrite IH; [| lia | lia | rewrite pow2_split; nia | ].
      * rewrite blen_cons. rewrite pow2_split.
        f_equal; [|f_equal; lia].
        pose proof (N.div_mod v 128 ltac:(discriminate)) as Hdm. nia.
      * rewrite pow2_split. pose proof (N.div_mod v 128 ltac:(discriminate)) as Hdm. nia.
    + cbn [app uvarint_go]. rewrite (N.mod_small v 256) by lia.
      replace (i =? 10) with false by (symmetry; apply N.eqb_neq; lia).
      replace (v <? 128) with true by (symmetry; apply N.ltb_lt; lia).
      replace (i =? 9) with false by (symmetry; apply N.eqb_neq; lia).
      cbn [andb]. unfold wshl. rewrite (N.mod_small (v * 2 ^ s)) by lia.
      rewrite lor_disjoint by assumption. rewrite blen_cons, blen_nil. reflexivity.
Qed.

Lemma uvarint_put v rest : v < two64 ->
  uvarint (put_uvarint v ++ rest) = (v, Z.of_N (blen (put_uvarint v))).
Proof.
  intros Hv. unfold uvarint, put_uvarint.
  assert (H1 : 0 + v * 2 ^ 0 = v) by (cbn; lia).
  rewrite (uvarint_go_put 9 v 0 0 0 rest); [ | reflexivity | reflexivity | reflexivity | rewrite H1; exact Hv ].
  rewrite H1. reflexivity.
Qed.

(* the value returned by Uvarint is always a uint64 *)
Lemma uvarint_go_lt : forall buf i x s, x < two64 -> fst (uvarint_go buf i x s) < two64.
Proof.
  induction buf as [|b r IH]; intros i x s Hx; cbn [uvarint_go].
  - reflexivity.
  - destruct (i =? 10); [reflexivity|]. destruct (b <? 128).
    + destruct ((i =? 9) && (1 <? b)); [reflexivity|]. cbn [fst]. apply lor_lt_two64; [assumption|apply wshl_lt].
    + apply IH. apply lor_lt_two64; [assumption|apply wshl_lt].
Qed.

(* n <= len buf *)
Lemma uvarint_go_read : forall buf i x s, (snd (uvarint_go buf i x s) <= Z.of_N (i + blen buf))%Z.
Proof.
  induction buf as [|b r IH]; intros i x s; cbn [uvarint_go].
  - cbn [snd]. lia.
  - rewrite blen_cons. destruct (i =? 10); [cbn [snd]; lia|]. destruct (b <? 128).
    + destruct ((i =? 9) && (1 <? b)); cbn [snd]; lia.
    + specialize (IH (i + 1) (N.lor x (wshl (N.land b 127) s)) (s + 7)). lia.
Qed.

(* ------------------------------------------------------------------ little endian *)

Lemma le_bytes_len n : forall x, blen (le_bytes n x) = N.of_nat n.
Proof. induction n as [|k IH]; intros x; cbn [le_bytes]; [reflexivity|]. rewrite blen_cons, IH. lia. Qed.

Lemma le_value_bytes n : forall x, x < 256 ^ N.of_nat n -> le_value (le_bytes n x) = x.
Proof.
  induction n as [|k IH]; intros x Hx; cbn [le_bytes le_value].
  - cbn in Hx. lia.
  - rewrite IH.
    + pose proof (N.div_mod x 256 ltac:(discriminate)). lia.
    + rewrite Nat2N.inj_succ, N.pow_succ_r' in Hx. apply N.div_lt_upper_bound; [discriminate|]. lia.
Qed.

Lemma le_value_lt b : Forall (fun x => x < 256) b -> le_value b < 256 ^ blen b.
Proof.
  induction 1 as [|x l Hx _ IH]; cbn [le_value].
  - cbn. lia.
  - rewrite blen_cons. rewrite N.add_1_r, N.pow_succ_r'. lia.
Qed.

Lemma le_bytes_bytes n : forall x, Forall (fun b => b < 256) (le_bytes n x).
Proof.
  induction n as [|k IH]; intros x; cbn [le_bytes]; constructor; [apply N.mod_lt; discriminate|apply IH].
Qed.

(* ------------------------------------------------------------------ reading primitives on an encoding *)

Section Run.
Context {R : Type}.

Lemma run_ret {A} (a : A) (f : A -> M R) s : bind (ret a) f s = f a s.
Proof. reflexivity. Qed.

Lemma run_u8 (f : N -> M R) v rest a :
  bind read_u8 f (mkdes (add_u8 v ++ rest) false a) = f v (mkdes rest false a).
Proof. reflexivity. Qed.

Lemma run_le n (f : N -> M R) v rest a : v < 256 ^ N.of_nat n ->
  bind (read_le (N.of_nat n)) f (mkdes (le_bytes n v ++ rest) false a) = f v (mkdes rest false a).
Proof.
  intros Hv. unfold bind, read_le. cbn [d_err d_data].
  rewrite lenltb_spec, blen_app, le_bytes_len.
  replace (N.of_nat n + blen rest <? N.of_nat n) with false by (symmetry; apply N.ltb_ge; lia).
  rewrite <- (le_bytes_len n v) at 1. rewrite split_at_app. rewrite le_value_bytes by assumption. reflexivity.
Qed.

Lemma run_u16 (f : N -> M R) v rest a : v < 65536 ->
  bind read_u16 f (mkdes (add_u16 v ++ rest) false a) = f v (mkdes rest false a).
Proof. intros H. apply (run_le 2). exact H. Qed.
Lemma run_u32 (f : N -> M R) v rest a : v < 4294967296 ->
  bind read_u32 f (mkdes (add_u32 v ++ rest) false a) = f v (mkdes rest false a).
Proof. intros H. apply (run_le 4). exact H. Qed.
Lemma run_u64 (f : N -> M R) v rest a : v < two64 ->
  bind read_u64 f (mkdes (add_u64 v ++ rest) false a) = f v (mkdes rest false a).
Proof. intros H. apply (run_le 8). exact H. Qed.

Lemma run_uvarint (f : N -> M R) v rest a : v < two64 ->
  bind read_uvarint f (mkdes (put_uvarint v ++ rest) false a) = f v (mkdes rest false a).
Proof.
  intros Hv. unfold bind, read_uvarint. cbn [d_err d_data].
  rewrite lenltb_spec, blen_app.
  pose proof (put_uvarint_f_len_pos 9 v) as Hp. fold (put_uvarint v) in Hp.
  replace (blen (put_uvarint v) + blen rest <? 1) with false by (symmetry; apply N.ltb_ge; lia).
  rewrite uvarint_put by assumption.
  replace (Z.of_N (blen (put_uvarint v)) <? 0)%Z with false by (symmetry; apply Z.ltb_ge; lia).
  rewrite N2Z.id, split_at_app. reflexivity.
Qed.

Lemma run_fixed n (f : list N -> M R) b rest a : blen b = n ->
  bind (read_fixed n) f (mkdes (b ++ rest) false a) = f b (mkdes rest false a).
Proof.
  intros <-. unfold bind, read_fixed. cbn [d_err d_data].
  rewrite lenltb_spec, blen_app.
  replace (blen b + blen rest <? blen b) with false by (symmetry; apply N.ltb_ge; lia).
  rewrite split_at_app. reflexivity.
Qed.

Lemma run_to_array n (f : list N -> M R) b s : blen b = n -> bind (to_array n b) f s = f b s.
Proof.
  intros <-. unfold bind, to_array. rewrite <- (app_nil_r b) at 1. rewrite split_at_app. reflexivity.
Qed.

(* both the code as found (length below 2^63) and the repaired code *)
Lemma run_byte_slice_gen (fixed : bool) (f : list N -> M R) b rest a :
  blen b < (if fixed then two64 else 9223372036854775808) ->
  bind (read_byte_slice_gen fixed) f (mkdes (add_byte_slice b ++ rest) false a) = f b (mkdes rest false a).
Proof.
  intros Hb. unfold bind, read_byte_slice_gen, add_byte_slice. cbn [d_err d_data].
  assert (Hb64 : blen b < two64) by (destruct fixed; [assumption|unfold two64; lia]).
  rewrite <- app_assoc. rewrite lenltb_spec, blen_app.
  pose proof (put_uvarint_f_len_pos 9 (blen b)) as Hp. fold (put_uvarint (blen b)) in Hp.
  replace (blen (put_uvarint (blen b)) + blen (b ++ rest) <? 1) with false by (symmetry; apply N.ltb_ge; lia).
  rewrite uvarint_put by assumption.
  replace (Z.of_N (blen (put_uvarint (blen b))) <? 0)%Z with false by (symmetry; apply Z.ltb_ge; lia).
  rewrite N2Z.id, split_at_app.
  assert (Hs : (if fixed then lenltb (b ++ rest) (blen b) else len_lt_int (b ++ rest) (int_of_u64 (blen b))) = false).
  { destruct fixed.
    - rewrite lenltb_spec, blen_app. apply N.ltb_ge. lia.
    - unfold int_of_u64. replace (blen b <? 9223372036854775808) with true by (symmetry; apply N.ltb_lt; lia).
      destruct (blen b) eqn:E; cbn [Z.of_N len_lt_int]; [reflexivity|].
      rewrite lenltb_spec, blen_app, E. apply N.ltb_ge. lia. }
  rewrite Hs. rewrite split_at_app. reflexivity.
Qed.

Lemma run_remaining (f : list N -> M R) s : bind remaining f s = f (d_data s) s.
Proof. reflexivity. Qed.
Lemma run_alloc (f : unit -> M R) n d e a : bind (alloc n) f (mkdes d e a) = f tt (mkdes d e (a + n)).
Proof. reflexivity. Qed.
Lemma run_bind_assoc {A Bt} (m : M A) (g : A -> M Bt) (f : Bt -> M R) s :
  bind (bind m g) f s = bind m (fun a => bind (g a) f) s.
Proof. unfold bind. destruct (m s); reflexivity. Qed.

End Run.

Lemma run_ret_err {A} (v : A) d a : ret_err v (mkdes d false a) = MOk v (mkdes d false a).
Proof. reflexivity. Qed.

(* A codec for one value: decoding the encoding followed by anything returns the value and leaves the rest,
   with a clean error flag. *)
Definition decodes {A} (m : M A) (bs : list N) (v : A) : Prop :=
  forall rest a, exists a', m (mkdes (bs ++ rest) false a) = MOk v (mkdes rest false a').

Lemma decodes_bind {A Bt} (m : M A) (f : A -> M Bt) bs1 bs2 v w :
  decodes m bs1 v -> decodes (f v) bs2 w -> decodes (bind m f) (bs1 ++ bs2) w.
Proof.
  intros H1 H2 rest a. destruct (H1 (bs2 ++ rest) a) as [a1 E1]. destruct (H2 rest a1) as [a2 E2].
  exists a2. unfold bind. rewrite <- app_assoc, E1. exact E2.
Qed.

Lemma decodes_ret {A} (v : A) : decodes (ret v) [] v.
Proof. intros rest a. exists a. reflexivity. Qed.

(* length-prefixed / counted lists: n repetitions of an element decoder *)
Lemma decodes_rep {A} (m : M A) (enc : A -> list N) (wf : A -> Prop) :
  (forall v, wf v -> decodes m (enc v) v) ->
  forall l, Forall wf l -> decodes (rep (length l) m) (concat (map enc l)) l.
Proof.
  intros Hm l Hl. induction Hl as [|v l Hv _ IH].
  - apply decodes_ret.
  - cbn [length rep map concat].
    apply (decodes_bind m _ (enc v) (concat (map enc l)) v (v :: l)); [apply Hm; assumption|].
    rewrite <- (app_nil_r (concat (map enc l))).
    apply (decodes_bind _ _ _ [] l (v :: l)); [exact IH|apply decodes_ret].
Qed.

Lemma decodes_run {A} (m : M A) bs v : decodes m bs v -> result_of (run m bs) = ROk v.
Proof.
  intros H. destruct (H [] 0) as [a' E]. unfold run, init. rewrite app_nil_r in E. rewrite E. reflexivity.
Qed.

(* an encoder whose encodings decode back is injective *)
Lemma enc_injective {A} (m : M A) (enc : A -> list N) (wf : A -> Prop) :
  (forall v, wf v -> result_of (run m (enc v)) = ROk v) ->
  forall v1 v2, wf v1 -> wf v2 -> enc v1 = enc v2 -> v1 = v2.
Proof.
  intros H v1 v2 H1 H2 E. pose proof (H v1 H1) as E1. rewrite E, (H v2 H2) in E1. congruence.
Qed.
