(* Property C02, refinement continued: the staker reward (ApplyPosReward against the rule [spec_pos_reward]). *)
From Virel Require Import Lib.Config Lib.U64 Lib.AMap Lib.CheckLib Model.Emission Model.Ledger Spec.Rules
  Proofs.AMapLemmas Proofs.Conservation Proofs.Pointwise Proofs.Refine Proofs.Staking Proofs.StakedSum Proofs.Refine2.
Open Scope N_scope.
Open Scope bool_scope.

Lemma fold_total_of fs : forall s, fold_left (fun s f => s + f_amt f) fs s = s + ftot fs.
Proof.
  induction fs as [|f fs IH]; intros s; cbn [fold_left]; [unfold ftot; cbn; lia|].
  rewrite IH. unfold ftot. cbn [fold_right]. lia.
Qed.

Lemma total_of_eq d : total_of d = ftot (d_funds d).
Proof. unfold total_of. rewrite fold_total_of. lia. Qed.

(* the exact share of the rule *)
Definition sh (r total : N) (f : fund) : N := f_amt f * r / 100 * 99 / total.
Definition sumsh (r total : N) (fs : list fund) : N := fold_right (fun f acc => sh r total f + acc) 0 fs.

Lemma sh_mul_le r total f : 0 < total -> sh r total f * total <= f_amt f * r.
Proof.
  intros Ht. unfold sh.
  assert (H1 : f_amt f * r / 100 * 99 <= f_amt f * r) by lia.
  pose proof (N.mul_div_le (f_amt f * r / 100 * 99) total ltac:(lia)) as H2. lia.
Qed.

Lemma sumsh_mul_le r total fs : 0 < total -> sumsh r total fs * total <= r * ftot fs.
Proof.
  intros Ht. induction fs as [|f fs IH]; unfold sumsh, ftot in *; cbn [fold_right]; [lia|].
  pose proof (sh_mul_le r total f Ht). nia.
Qed.

Lemma sumsh_le r total fs : 0 < total -> ftot fs <= total -> sumsh r total fs <= r.
Proof.
  intros Ht Hle. pose proof (sumsh_mul_le r total fs Ht) as H.
  assert (H2 : sumsh r total fs * total <= r * total) by nia.
  apply N.mul_le_mono_pos_r in H2; assumption.
Qed.

Lemma sh_le r total f : 0 < total -> f_amt f <= total -> sh r total f <= r.
Proof.
  intros Ht Hle. pose proof (sumsh_le r total [f] Ht) as H. unfold sumsh, ftot in H. cbn [fold_right] in H. lia.
Qed.

Lemma share_exact r total f : 0 < total -> f_amt f <= total -> r < two64 -> share f r total = sh r total f.
Proof.
  intros Ht Hle Hr. unfold share. fold (sh r total f). apply N.mod_small. pose proof (sh_le r total f Ht Hle). lia.
Qed.

Lemma fold_left_sh r total fs : forall s, fold_left (fun s f => s + f_amt f * r / 100 * 99 / total) fs s = s + sumsh r total fs.
Proof.
  induction fs as [|f fs IH]; intros s; cbn [fold_left]; [unfold sumsh; cbn; lia|].
  rewrite IH. unfold sumsh, sh. cbn [fold_right]. lia.
Qed.

Lemma fold_wadd_exact r total fs : forall acc,
  Forall (fun f => share f r total = sh r total f) fs ->
  acc + sumsh r total fs < two64 ->
  fold_left (fun a f => wadd a (share f r total)) fs acc = acc + sumsh r total fs.
Proof.
  induction fs as [|f fs IH]; intros acc Hs Hb; cbn [fold_left]; [unfold sumsh; cbn; lia|].
  inversion Hs as [|? ? Hf Hs']; subst. unfold sumsh in Hb |- *. cbn [fold_right] in Hb |- *.
  fold (sumsh r total fs) in Hb |- *.
  rewrite Hf, wadd_small by lia. rewrite IH; [lia|exact Hs'|lia].
Qed.

Theorem pos_reward_refines l bh o l1 :
  SInv l -> o_amt o < two64 ->
  apply_pos_reward l bh o = Ok l1 ->
  let '(c, ls) := spec_pos_reward l bh (o_extra o) (o_amt o) in
  c = 0 /\ accts l1 = accts ls /\ dlgs l1 = dlgs ls /\ staked l1 = staked ls.
Proof.
  intros HI Ho64 H. pose proof HI as (Hsort & Hkey & Hsum & Hs64). unfold apply_pos_reward in H.
  guard_inv H.
  destruct (get_dlg l (o_extra o)) as [dd|] eqn:Hget; cbn [of_opt bind] in H; [|discriminate H].
  guard_inv H. bind_inv H. rename a into total. guard_inv H. bind_inv H.
  destruct a as [funds1 added].
  guard_inv H. bind_inv H. rename a into funds2. bind_inv H. rename a into total2. guard_inv H. bind_inv H.
  injection H as <-.
  pose proof (nget_le_sum _ _ _ Hget) as Hle. change (tot dd) with (ftot (d_funds dd)) in Hle.
  assert (Hb0 : Forall (fun f => f_amt f < two64) (d_funds dd)).
  { apply (Forall_lt_of_le _ (ftot (d_funds dd))); [apply funds_bounded; lia|lia]. }
  destruct (total_amount_from_ok _ 0 total two64_pos Hb0 E) as [Ht0 _]. rewrite N.add_0_l in Ht0.
  apply Bool.negb_true_iff in G, G0, G1, G2. apply N.eqb_neq in G1. apply N.ltb_ge in G2.
  assert (Htpos : 0 < total) by lia.
  match goal with Hs : stats_staked ?L _ = Ok _ |- _ =>
    destruct (stats_staked_exact L (o_amt o) _ Hs64 Ho64 Hs) as [-> H64] end.
  cbn [staked set_dhist] in H64.
  destruct (pos_distribute_spec _ _ _ _ _ E0) as (Hf1 & Hadd & Hnw). cbn [fst snd] in Hf1, Hadd.
  set (r := o_amt o) in *.
  assert (Hfle : Forall (fun f => f_amt f <= total) (d_funds dd)) by (apply funds_bounded; lia).
  assert (Hsh : Forall (fun f => share f r total = sh r total f) (d_funds dd)).
  { eapply Forall_impl; [|exact Hfle]. cbn beta. intros f Hf. apply share_exact; assumption. }
  pose proof (sumsh_le r total (d_funds dd) Htpos ltac:(lia)) as Hsum_le.
  rewrite (fold_wadd_exact r total (d_funds dd) 0 Hsh ltac:(lia)) in Hadd. rewrite N.add_0_l in Hadd.
  assert (Hfunds1 : funds1 = map (fun f => mkfund (f_owner f) (f_amt f + f_amt f * r / 100 * 99 / total) (f_unlock f)) (d_funds dd)).
  { rewrite Hf1. apply map_ext_in. intros f Hin.
    rewrite Forall_forall in Hsh, Hnw, Hb0, Hfle.
    pose proof (Hsh f Hin) as H1. pose proof (Hnw f Hin) as H2. pose proof (Hb0 f Hin) as H3. pose proof (Hfle f Hin) as H4.
    cbn beta in H1, H2, H3, H4.
    pose proof (sh_le r total f Htpos H4) as H5.
    assert (Hc : (wadd (f_amt f) (share f r total) <? f_amt f) = false) by (apply N.ltb_ge; exact H2).
    destruct (wadd_nowrap_of_check (f_amt f) (share f r total) H3 ltac:(rewrite H1; lia) Hc) as [Hw _].
    rewrite Hw, H1. reflexivity. }
  assert (Hb1 : Forall (fun f => f_amt f < two64) funds1).
  { rewrite Hf1. apply Forall_forall. intros f Hin. apply in_map_iff in Hin. destruct Hin as (g & <- & _).
    cbn [f_amt]. apply wrap_lt. }
  (* the rule *)
  unfold spec_pos_reward. rewrite Hget. rewrite total_of_eq, <- Ht0.
  rewrite G, G0.
  destruct (N.eqb_spec total 0) as [?|_]; [contradiction|]. cbn [orb].
  rewrite fold_left_sh, N.add_0_l, <- Hfunds1, <- Hadd.
  unfold set_fund, fund_of. cbn [d_funds d_id d_owner d_name].
  split; [reflexivity|]. split; [reflexivity|]. split; [|reflexivity].
  cbn [dlgs put_dlg set_dlgs set_staked set_dhist d_id]. f_equal. f_equal.
  destruct (find_fund funds1 (addr_of_key (d_owner dd))) as [f|] eqn:Eff.
  - opt_inv E1. injection E1 as <-.
    assert (Hf64 : f_amt f < two64).
    { clear - Eff Hb1. induction funds1 as [|g fs IH]; cbn in Eff; [discriminate|].
      inversion Hb1 as [|? ? Hg Hb']; subst.
      destruct (f_owner g =? _); [injection Eff as <-; exact Hg|apply IH; assumption]. }
    apply safe_add_some in E4; [|exact Hf64|lia]. destruct E4 as [-> _]. reflexivity.
  - injection E1 as <-. reflexivity.
Qed.

(* ---------------- ledgers equal on everything the rules read ---------------- *)
(* same account index (as a function, so same domain), same delegate table, same staked total; the wallet indexes
   (intx, outtx, txh) and the delegate history are not compared *)
Definition leq (l l' : ledger) : Prop :=
  (forall a, get_state l a = get_state l' a) /\ dlgs l = dlgs l' /\ staked l = staked l'.

Lemma leq_refl l : leq l l.
Proof. repeat split. Qed.
Lemma leq_sym l l' : leq l l' -> leq l' l.
Proof. intros (A & B & C). split; [intros a; symmetry; apply A|split; symmetry; assumption]. Qed.
Lemma leq_trans l l' l'' : leq l l' -> leq l' l'' -> leq l l''.
Proof. intros (A & B & C) (A' & B' & C'). split; [intros a; rewrite A; apply A'|split; congruence]. Qed.

Lemma leq_same_accounts l l' : leq l l' -> same_accounts l l'.
Proof. intros (A & _) a. unfold acct_at. rewrite A. reflexivity. Qed.
Lemma leq_acct_of l l' a : leq l l' -> acct_of l a = acct_of l' a.
Proof. intros (A & _). unfold acct_of. rewrite A. reflexivity. Qed.
Lemma leq_get_dlg l l' id : leq l l' -> get_dlg l id = get_dlg l' id.
Proof. intros (_ & B & _). unfold get_dlg. rewrite B. reflexivity. Qed.

Lemma leq_put_state l l' a s : leq l l' -> leq (put_state l a s) (put_state l' a s).
Proof. intros (A & B & C). split; [|split; assumption]. intros a'. rewrite !get_state_put, A. reflexivity. Qed.
Lemma leq_set_intx l l' v v' : leq l l' -> leq (set_intx l v) (set_intx l' v').
Proof. intros (A & B & C). split; [exact A|split; assumption]. Qed.
Lemma leq_set_outtx l l' v v' : leq l l' -> leq (set_outtx l v) (set_outtx l' v').
Proof. intros (A & B & C). split; [exact A|split; assumption]. Qed.
Lemma leq_set_txh l l' v v' : leq l l' -> leq (set_txh l v) (set_txh l' v').
Proof. intros (A & B & C). split; [exact A|split; assumption]. Qed.
Lemma leq_set_dhist l l' v v' : leq l l' -> leq (set_dhist l v) (set_dhist l' v').
Proof. intros (A & B & C). split; [exact A|split; assumption]. Qed.
Lemma leq_put_dlg l l' d : leq l l' -> leq (put_dlg l d) (put_dlg l' d).
Proof. intros (A & B & C). split; [exact A|split; [|exact C]]. cbn [dlgs put_dlg set_dlgs]. rewrite B. reflexivity. Qed.
Lemma leq_set_staked_add l l' amt : leq l l' -> leq (set_staked l (staked l + amt)) (set_staked l' (staked l' + amt)).
Proof. intros (A & B & C). split; [exact A|split; [exact B|]]. cbn [staked set_staked]. rewrite C. reflexivity. Qed.
Lemma leq_set_staked_sub l l' amt : leq l l' -> leq (set_staked l (staked l - amt)) (set_staked l' (staked l' - amt)).
Proof. intros (A & B & C). split; [exact A|split; [exact B|]]. cbn [staked set_staked]. rewrite C. reflexivity. Qed.
Lemma leq_credit l l' a amt id : leq l l' -> leq (credit l a amt id) (credit l' a amt id).
Proof.
  intros H. unfold credit. rewrite (leq_acct_of l l' a H). apply leq_set_intx. apply leq_put_state. exact H.
Qed.
Lemma leq_debit l l' a amt : leq l l' -> leq (debit l a amt) (debit l' a amt).
Proof. intros H. unfold debit. rewrite (leq_acct_of l l' a H). apply leq_put_state. exact H. Qed.
Lemma leq_fold_credit id outs : forall l l', leq l l' ->
  leq (fold_left (fun l (o : N * N) => credit l (fst o) (snd o) id) outs l)
      (fold_left (fun l (o : N * N) => credit l (fst o) (snd o) id) outs l').
Proof. induction outs as [|o outs IH]; intros l l' H; cbn [fold_left]; [exact H|]. apply IH. apply leq_credit. exact H. Qed.

Ltac leq_tac H :=
  repeat first [exact H | apply leq_set_staked_add | apply leq_set_staked_sub | apply leq_put_dlg | apply leq_fold_credit
               | apply leq_credit | apply leq_debit
               | apply leq_set_txh | apply leq_set_outtx | apply leq_set_intx | apply leq_put_state].

Section Cong.
Variable cfg : config.
Variable genesis_addr team_key : N.

Lemma pre_common_leq l l' t h : leq l l' -> pre_common cfg l t h = pre_common cfg l' t h.
Proof.
  intros H. unfold pre_common. rewrite (leq_acct_of l l' _ H). destruct H as (A & _). rewrite A. reflexivity.
Qed.

(* the rules give the same verdict and equal ledgers on equal ledgers *)
Lemma spec_tx_leq l l' t h : leq l l' ->
  fst (spec_tx cfg team_key l t h) = fst (spec_tx cfg team_key l' t h) /\
  leq (snd (spec_tx cfg team_key l t h)) (snd (spec_tx cfg team_key l' t h)).
Proof.
  intros H. unfold spec_tx. cbv zeta beta.
  rewrite (pre_common_leq _ _ _ _ H).
  destruct (negb (pre_common cfg l' t h =? 0)); [split; [reflexivity|exact H]|].
  rewrite !(leq_acct_of l l' _ H).
  destruct (tx_data t) as [os|nl name id|nw pv|sa id pu|sa id].
  - destruct (negb (first_fail _ =? 0)); [split; [reflexivity|exact H]|].
    split; [reflexivity|]. cbn [snd]. leq_tac H.
  - rewrite (leq_get_dlg l l' _ H).
    destruct (negb (first_fail _ =? 0)); [split; [reflexivity|exact H]|].
    split; [reflexivity|]. cbn [snd]. leq_tac H.
  - rewrite !(leq_get_dlg l l' _ H).
    destruct (negb (first_fail _ =? 0)); [split; [reflexivity|exact H]|].
    split; [reflexivity|]. cbn [snd]. leq_tac H.
  - rewrite (leq_get_dlg l l' _ H).
    destruct (get_dlg l' id) as [d|]; [|split; [reflexivity|exact H]].
    destruct (negb (first_fail _ =? 0)); [split; [reflexivity|exact H]|].
    split; [reflexivity|]. cbn [snd]. leq_tac H.
  - rewrite (leq_get_dlg l l' _ H).
    destruct (get_dlg l' id) as [d|]; [|split; [reflexivity|exact H]].
    destruct (fund_of d (addr_of_key (tx_signer t))) as [f|]; [|split; [reflexivity|exact H]].
    rewrite ?(leq_acct_of l l' (delegate_addr id) H).
    destruct (negb (first_fail _ =? 0)); [split; [reflexivity|exact H]|].
    split; [reflexivity|]. cbn [snd]. leq_tac H.
Qed.

Lemma spec_pos_reward_leq l l' bh id r : leq l l' ->
  fst (spec_pos_reward l bh id r) = fst (spec_pos_reward l' bh id r) /\
  leq (snd (spec_pos_reward l bh id r)) (snd (spec_pos_reward l' bh id r)).
Proof.
  intros H. unfold spec_pos_reward. rewrite (leq_get_dlg l l' _ H).
  destruct (get_dlg l' id) as [d|]; [|split; [reflexivity|exact H]].
  destruct (_ || _); [split; [reflexivity|exact H]|].
  split; [reflexivity|]. cbn [snd]. cbv zeta. leq_tac H.
Qed.

End Cong.

(* ---------------- domains: the rules create exactly the accounts the code creates ---------------- *)
Lemma get_state_credit l a amt id a' :
  get_state (credit l a amt id) a' =
  if a' =? a then Some (mkacct (bal (acct_of l a) + amt) (nonce (acct_of l a)) (inc (acct_of l a) + 1) (deleg (acct_of l a)))
  else get_state l a'.
Proof. unfold credit. cbv zeta. exact (get_state_put l a _ a'). Qed.

Lemma get_state_debit l a amt a' :
  get_state (debit l a amt) a' =
  if a' =? a then Some (mkacct (bal (acct_of l a) - amt) (nonce (acct_of l a)) (inc (acct_of l a)) (deleg (acct_of l a)))
  else get_state l a'.
Proof. unfold debit. cbv zeta. exact (get_state_put l a _ a'). Qed.

Lemma get_state_set_txh l v a : get_state (set_txh l v) a = get_state l a. Proof. reflexivity. Qed.
Lemma get_state_set_outtx l v a : get_state (set_outtx l v) a = get_state l a. Proof. reflexivity. Qed.
Lemma get_state_set_staked l v a : get_state (set_staked l v) a = get_state l a. Proof. reflexivity. Qed.
Lemma get_state_put_dlg l d a : get_state (put_dlg l d) a = get_state l a. Proof. reflexivity. Qed.

Lemma has_fold_credit id outs : forall l a,
  get_state (fold_left (fun l (o : N * N) => credit l (fst o) (snd o) id) outs l) a <> None <->
  (get_state l a <> None \/ In a (map fst outs)).
Proof.
  induction outs as [|o outs IH]; intros l a; cbn [fold_left map In]; [tauto|].
  rewrite IH, get_state_credit. destruct (N.eqb_spec a (fst o)) as [->|Hne].
  - split; [intros _; right; left; reflexivity|intros _; left; discriminate].
  - split; [intros [H|H]; [left; exact H|right; right; exact H]|intros [H|[H|H]]; [left; exact H|congruence|right; exact H]].
Qed.

Lemma apply_inputs_exist ins : forall l l' i,
  apply_inputs l ins = Ok l' -> In i ins -> get_state l (snd i) <> None.
Proof.
  induction ins as [|[amt sender] ins IH]; intros l l' i H Hin; cbn [apply_inputs] in H; [destruct Hin|].
  opt_inv H. guard_inv H. destruct Hin as [<-|Hin]; [cbn [snd]; rewrite E; discriminate|].
  specialize (IH _ _ i H Hin). rewrite get_state_put in IH.
  destruct (N.eqb_spec (snd i) sender) as [->|_]; [rewrite E; discriminate|exact IH].
Qed.

Section Strong.
Variable cfg : config.
Variable team_key : N.
Notation sgn t := (addr_of_key (tx_signer t)).

Lemma apply_tx_inputs_exist l t h bh top_h l' :
  apply_tx cfg l t h bh top_h = Ok l' ->
  forall i, In i (state_inputs cfg t (sgn t)) -> get_state l (snd i) <> None.
Proof.
  intros Happ i Hin. rewrite apply_tx_unfold in Happ.
  opt_inv Happ. guard_inv Happ. bind_inv Happ. destruct a as [lk stk].
  destruct (kind_part_frame _ _ _ _ _ _ _ E0) as (Ha1 & _).
  bind_inv Happ.
  pose proof (apply_inputs_exist _ _ _ i E1 Hin) as Hex. rewrite get_state_put in Hex.
  destruct (N.eqb_spec (snd i) (sgn t)) as [->|_]; [rewrite E; discriminate|].
  unfold get_state in Hex |- *. rewrite Ha1 in Hex. exact Hex.
Qed.

Lemma out_cnt_le_ctr t s outs a : state_outputs cfg t s = Ok outs -> out_cnt outs a <= tx_ctr t.
Proof.
  unfold state_outputs, tx_ctr. destruct (tx_data t) as [os|nl name id|nw pv|sa id pu|sa id]; intros H.
  - injection H as <-. induction os as [|o os IH]; cbn [map out_cnt fold_right length]; [lia|].
    fold (out_cnt (map (fun o0 : N * N => mksout OUT_NORMAL (snd o0) (fst o0) 0) os) a).
    cbn [o_rcpt]. destruct (fst o =? a); lia.
  - injection H as <-. cbn [out_cnt fold_right]. destruct (_ =? a); lia.
  - injection H as <-. cbn [out_cnt fold_right]. lia.
  - injection H as <-. cbn [out_cnt fold_right]. destruct (_ =? a); lia.
  - destruct (sa <? tx_fee t); [discriminate|]. injection H as <-. cbn [out_cnt fold_right]. destruct (_ =? a); lia.
Qed.

Ltac zero_or_out Hf :=
  match type of Hf with
  | fst (if negb (?c =? 0) then _ else _) = 0 =>
      let Ec := fresh "Ec" in
      destruct (c =? 0) eqn:Ec; cbn [negb] in Hf |- *;
      [|exfalso; cbn [fst] in Hf; rewrite Hf in Ec; discriminate Ec]
  end.

(* accounts present after the rules' effect = accounts present before + the recipients of the outputs *)
Lemma spec_tx_dom l t h outs :
  fst (spec_tx cfg team_key l t h) = 0 ->
  state_outputs cfg t (sgn t) = Ok outs ->
  get_state l (sgn t) <> None ->
  (forall i, In i (state_inputs cfg t (sgn t)) -> get_state l (snd i) <> None) ->
  forall a, get_state (snd (spec_tx cfg team_key l t h)) a <> None <-> (get_state l a <> None \/ In a (map o_rcpt outs)).
Proof.
  intros Hf Hso Hs Hins a. unfold spec_tx in *. cbv zeta beta in *.
  zero_or_out Hf.
  unfold state_outputs in Hso. unfold state_inputs in Hins.
  destruct (tx_data t) as [os|nl name id|nw pv|sa id pu|sa id].
  - zero_or_out Hf. cbn [snd]. injection Hso as <-.
    rewrite has_fold_credit, get_state_debit, get_state_set_txh, get_state_set_outtx, get_state_put.
    rewrite map_map. cbn [o_rcpt].
    destruct (N.eqb_spec a (sgn t)) as [->|_]; [|tauto].
    split; [intros _; left; exact Hs|intros _; left; discriminate].
  - zero_or_out Hf. cbn [snd]. injection Hso as <-.
    rewrite get_state_put_dlg, get_state_credit, get_state_debit, get_state_set_txh, get_state_set_outtx, get_state_put.
    cbn [map In o_rcpt].
    destruct (N.eqb_spec a burn_addr) as [->|Hnb]; [split; [intros _; right; left; reflexivity|intros _; discriminate]|].
    destruct (N.eqb_spec a (sgn t)) as [->|_]; [split; [intros _; left; exact Hs|intros _; discriminate]|].
    split; [intros H; left; exact H|intros [H|[H|[]]]; [exact H|congruence]].
  - zero_or_out Hf. cbn [snd]. injection Hso as <-.
    rewrite get_state_debit, get_state_set_txh, get_state_set_outtx, get_state_put.
    cbn [map In].
    destruct (N.eqb_spec a (sgn t)) as [->|_]; [split; [intros _; left; exact Hs|intros _; discriminate]|tauto].
  - destruct (get_dlg l id) as [d|]; [|exfalso; cbn [fst] in Hf; destruct (id =? 0); [discriminate|destruct (_ =? id); discriminate]].
    zero_or_out Hf. cbn [snd]. injection Hso as <-.
    rewrite get_state_set_staked, get_state_put_dlg, get_state_credit, get_state_debit, get_state_set_txh, get_state_set_outtx, get_state_put.
    cbn [map In o_rcpt].
    destruct (N.eqb_spec a (delegate_addr id)) as [->|Hnb]; [split; [intros _; right; left; reflexivity|intros _; discriminate]|].
    destruct (N.eqb_spec a (sgn t)) as [->|_]; [split; [intros _; left; exact Hs|intros _; discriminate]|].
    split; [intros H; left; exact H|intros [H|[H|[]]]; [exact H|congruence]].
  - destruct (get_dlg l id) as [d|]; [|exfalso; cbn [fst] in Hf; destruct (id =? 0); [discriminate|destruct (_ =? id); discriminate]].
    destruct (fund_of d (sgn t)) as [f|]; [|exfalso; cbn [fst] in Hf; destruct (id =? 0); [discriminate|destruct (_ =? id); discriminate]].
    zero_or_out Hf. cbn [snd].
    destruct (sa <? tx_fee t); [discriminate Hso|]. injection Hso as <-.
    rewrite get_state_set_staked, get_state_put_dlg, get_state_credit, get_state_debit, get_state_set_txh, get_state_set_outtx, get_state_put.
    cbn [map In o_rcpt].
    pose proof (Hins (sa, delegate_addr id) (or_introl eq_refl)) as Hdel. cbn [snd] in Hdel.
    destruct (N.eqb_spec a (sgn t)) as [->|Hns]; [split; [intros _; left; exact Hs|intros _; discriminate]|].
    destruct (N.eqb_spec a (delegate_addr id)) as [->|_]; [split; [intros _; left; exact Hdel|intros _; discriminate]|].
    split; [intros H; left; exact H|intros [H|[H|[]]]; [exact H|congruence]].
Qed.

(* the refinement of Refine2.tx_refines with the account indexes equal as functions (same domain) *)
Theorem tx_refines_strong l t h bh l1 :
  cfg_ok_fee cfg = true -> ver_ok t = true ->
  total_bal l < two64 -> wf_tx cfg t -> SInv l ->
  (forall a, inc (acct_at l a) + tx_ctr t < two64) ->
  nonce (acct_at l (sgn t)) + 1 < two64 ->
  h - 1 + unlock_time cfg < two64 ->
  prevalidate_tx cfg team_key t h = Ok tt ->
  apply_tx cfg l t h bh (h - 1) = Ok l1 ->
  fst (spec_tx cfg team_key l t h) = 0 /\ leq l1 (snd (spec_tx cfg team_key l t h)).
Proof.
  intros Hcfg Hver Hb Hwf HI Hinc Hnonce Hul Hpre Happ.
  destruct (tx_refines cfg team_key l t h bh l1 Hcfg Hver Hb Hwf HI Hinc Hnonce Hul Hpre Happ) as (Hz & Hsa & Hd & Hst).
  split; [exact Hz|]. split; [|split; assumption].
  destruct (prevalidate_total _ _ _ _ Hpre) as [tot Htot].
  destruct (apply_tx_shape cfg _ _ _ _ _ _ _ Hb Hwf Htot Happ)
    as (x & lk & stk & outs & Hx & Hn & Hkp & Hso & Hnp & Hbal & Hin64 & Hrest).
  rewrite (acct_at_of_get _ _ _ Hx) in Hnonce.
  assert (Hc : forall a, inc (acct_at l a) + out_cnt outs a < two64).
  { intros a. specialize (Hinc a). pose proof (out_cnt_le_ctr t _ outs a Hso). lia. }
  destruct (Hrest Hnonce Hc) as (_ & _ & _ & _ & Hdom1).
  assert (Hsx : get_state l (sgn t) <> None) by (rewrite Hx; discriminate).
  pose proof (spec_tx_dom l t h outs Hz Hso Hsx (apply_tx_inputs_exist _ _ _ _ _ _ Happ)) as Hdom2.
  intros a. specialize (Hsa a). unfold acct_at in Hsa.
  specialize (Hdom1 a). specialize (Hdom2 a).
  destruct (get_state l1 a) as [s1|] eqn:E1; destruct (get_state (snd (spec_tx cfg team_key l t h)) a) as [s2|] eqn:E2.
  - rewrite Hsa. reflexivity.
  - exfalso. assert (H1 : Some s1 <> None) by discriminate. apply Hdom1 in H1. apply Hdom2 in H1. apply H1. reflexivity.
  - exfalso. assert (H2 : Some s2 <> None) by discriminate. apply Hdom2 in H2. apply Hdom1 in H2. apply H2. reflexivity.
  - reflexivity.
Qed.

End Strong.
