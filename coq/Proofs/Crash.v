(* Property C10, crash and redelivery: a node stopped after the k-th delivery holds exactly the state after those k
   deliveries (one delivery = one commit); after the restart (a no-op: Proofs/Restart.v) the deliveries are offered again
   from some earlier point j <= k.  When the re-offered deliveries j..k-1 are blocks the node holds, the node ends in
   EXACTLY the state of the run that was never interrupted. *)
From Virel Require Import Lib.Config Lib.U64 Lib.AMap Model.Ledger Model.Node Proofs.NodeBasics Proofs.ForkChoice Proofs.Restart.
Open Scope N_scope.

Section Crash.
Variable cfg : config.
Variable genesis_addr team_key : N.
Notation run := (run cfg genesis_addr team_key).

Lemma run_app n a b : run n (a ++ b) = run (run n a) b.
Proof. unfold ForkChoice.run. apply fold_left_app. Qed.

(* offering blocks the node already holds changes nothing *)
Lemma run_stored_noop ops : forall n,
  Forall (fun op => get_block n (b_hash (fst op)) <> None) ops -> run n ops = n.
Proof.
  induction ops as [|[b now] ops IH]; intros n Hall; [reflexivity|].
  inversion Hall as [|? ? Hb Hr]; subst. cbn [fst] in Hb.
  change (run n ((b, now) :: ops)) with (run (fst (fst (deliver cfg genesis_addr team_key n b now))) ops).
  rewrite (redelivery_changes_nothing cfg genesis_addr team_key n b now Hb). apply IH. exact Hr.
Qed.

Theorem crash_recovers n0 (ops : list (block * N)) (k j : nat) :
  (j <= k)%nat ->
  Forall (fun op => get_block (run n0 (firstn k ops)) (b_hash (fst op)) <> None) (skipn j (firstn k ops)) ->
  run (run n0 (firstn k ops)) (skipn j ops) = run n0 ops.
Proof.
  intros Hjk Hst.
  assert (Hsplit : skipn j ops = skipn j (firstn k ops) ++ skipn k ops).
  { rewrite <- (firstn_skipn k ops) at 1. rewrite skipn_app. f_equal.
    rewrite firstn_length. destruct (Nat.le_ge_cases k (length ops)) as [H|H].
    - rewrite Nat.min_l by exact H. replace (j - k)%nat with 0%nat by lia. reflexivity.
    - rewrite (skipn_all2 ops) by exact H. apply skipn_nil. }
  rewrite Hsplit, run_app, (run_stored_noop _ _ Hst).
  rewrite <- run_app, firstn_skipn. reflexivity.
Qed.
End Crash.
