(* Property C09: what is proved about the block template and about the mempool's second implementation of the
   transaction rules (Model/Mempool.v).  Part 1: the header of the template passes the header clauses of validation.
   Part 2: the mempool simulation is sound for a transaction validated against an empty list of earlier entries (all five
   kinds) and against earlier entries that are plain transfers.  Part 3: the statements that are false: the simulation of
   the code BEFORE the repairs (legacy = true) admits transactions the ledger rejects (R11a, R11b, R11c), and the full
   statement "every completed template is accepted" fails on a tip with a wrong ancestor list (open finding R13a). *)
From Virel Require Import Lib.Config Lib.U64 Lib.AMap Lib.CheckLib Model.Emission Model.Ledger Model.Node Model.Mempool
  Proofs.AMapLemmas Proofs.Conservation Gen.Params.
Open Scope N_scope.
Open Scope bool_scope.

(* the fields GetBlockTemplate decides; the miner only adds nonce material (hash, proof-of-work values, lottery value of
   the hash and the block's own commitment follow from it) *)
Definition completes (t b : block) : Prop :=
  b_version b = b_version t /\ b_height b = b_height t /\ b_ts b = b_ts t /\ b_anc b = b_anc t /\
  b_sides b = b_sides t /\ b_recipient b = b_recipient t /\ b_delegate_id b = b_delegate_id t /\
  b_next_delegate_id b = b_next_delegate_id t /\ b_sig_blank b = b_sig_blank t /\ b_sig_key b = b_sig_key t /\
  b_sig_msg b = b_sig_msg t /\ b_diff b = b_diff t /\ b_cd b = b_cd t /\ b_txs b = b_txs t /\ b_chains b = b_chains t.

(* what the template relies on: the tip named by the statistics record is stored and the record agrees with it *)
Definition tip_inv (w : wnode) : Prop :=
  exists prev, get_block (wn w) (top (wn w)) = Some prev /\ b_height prev = top_h (wn w) /\ b_cd prev = top_cd (wn w).

Lemma contribution_ext b b' :
  b_diff b = b_diff b' -> length (b_sides b) = length (b_sides b') -> b_version b = b_version b' ->
  b_sig_blank b = b_sig_blank b' -> contribution b = contribution b'.
Proof. intros H1 H2 H3 H4. unfold contribution. rewrite H1, H2, H3, H4. reflexivity. Qed.

Section Template.
Variable cfg : config.
Variable legacy : bool.

Lemma next_difficulty_min h ts d g r : next_difficulty cfg h ts d g = Ok r -> min_difficulty cfg <= r.
Proof.
  unfold next_difficulty. intros H. bind_inv H. injection H as <-.
  destruct (a <? min_difficulty cfg) eqn:Em; [lia|]. apply N.ltb_ge in Em. exact Em.
Qed.

Lemma get_next_difficulty_min n p r : get_next_difficulty cfg n p = Ok r -> min_difficulty cfg <= r.
Proof.
  unfold get_next_difficulty. destruct (b_height p <? 2); [intros [= <-]; lia|].
  intros H. opt_inv H. eapply next_difficulty_min; exact H.
Qed.

(* C09, header part: for every node state whose statistics record names a stored tip, whatever the mempool, the stored
   signatures and the tips are, every completion of the template passes the header clauses of PrevalidateBlock /
   checkBlock / ApplyBlockToState: parent = the tip (so the block goes to the main chain), height, version of that
   height, time not before the parent's, difficulty = retarget of the parent (and at least the minimum), cumulative
   difficulty = parent's + own contribution, no merge-mining duplicates, published lottery result = GetStaker of the
   current ledger.  The template call changes nothing but the mempool. *)
Theorem template_header_ok w rcpt now now_s t w' b :
  tip_inv w -> get_block_template cfg legacy w rcpt now now_s = Ok (t, w') -> completes t b ->
  exists prev,
    wn w' = wn w /\ sigs w' = sigs w /\ txstore w' = txstore w /\
    prev_hash b = top (wn w) /\ get_block (wn w) (prev_hash b) = Some prev /\
    b_height b = wadd (b_height prev) 1 /\
    b_version b = (if hf_v3 cfg <=? b_height b then 1 else 0) /\
    (b_ts prev <=? b_ts b) = true /\
    get_next_difficulty cfg (wn w) prev = Ok (b_diff b) /\ min_difficulty cfg <= b_diff b /\
    (exists c, contribution b = Ok c /\ add128 (b_cd prev) c = Ok (b_cd b)) /\
    chains_ok cfg (b_chains b) = true /\
    (0 < b_version b -> get_staker (ldg (wn w)) (lottery_of (wn w) (prev_hash b)) = Ok (b_next_delegate_id b)).
Proof.
  intros (prev & Hp & Hh & Hcd) H Hc.
  destruct Hc as (C1 & C2 & C3 & C4 & C5 & C6 & C7 & C8 & C9 & C10 & C11 & C12 & C13 & C14 & C15).
  unfold get_block_template in H. rewrite Hp in H. cbn [of_opt bind] in H.
  bind_inv H. rename a into diff. bind_inv H. rename a into sides. bind_inv H. destruct a as [valid txs].
  bind_inv H. rename a into c0. bind_inv H. rename a into cd0.
  set (height := wadd (top_h (wn w)) 1) in *.
  set (version := if hf_v3 cfg <=? height then 1 else 0) in *.
  set (ts := N.max (wadd now 1) (b_ts prev)) in *.
  bind_inv H. destruct a as [[[did nd] sg] cd]. injection H as <- <-.
  cbn [b_version b_height b_ts b_anc b_sides b_recipient b_delegate_id b_next_delegate_id b_sig_blank b_sig_key b_sig_msg
       b_diff b_cd b_txs b_chains] in *.
  exists prev. cbn [wn sigs txstore set_mpool].
  assert (Hph : prev_hash b = top (wn w)) by (unfold prev_hash, anc_nth; rewrite C4; reflexivity).
  repeat split; try reflexivity.
  - exact Hph.
  - rewrite Hph. exact Hp.
  - rewrite C2, Hh. reflexivity.
  - rewrite C1, C2. reflexivity.
  - rewrite C3. apply N.leb_le. subst ts. lia.
  - rewrite C12. exact E.
  - rewrite C12. eapply get_next_difficulty_min; exact E.
  - (* cumulative difficulty *)
    destruct (0 <? version) eqn:Ev.
    + bind_inv E4. destruct a as [[did1 sg1] cd1]. bind_inv E4. injection E4 as <- <- <- <-.
      destruct (nget (sigs w) _) as [s|] eqn:Es.
      * bind_inv E5. destruct a0.
        -- bind_inv E5. bind_inv E5. injection E5 as <- <- <-.
           exists a0. split.
           ++ rewrite <- E7. apply contribution_ext; cbn; try assumption. rewrite C5. reflexivity.
           ++ rewrite Hcd, C13. exact E8.
        -- injection E5 as <- <- <-. exists c0. split.
           ++ rewrite <- E2. apply contribution_ext; cbn; try assumption. rewrite C5. reflexivity.
           ++ rewrite Hcd, C13. exact E3.
      * injection E5 as <- <- <-. exists c0. split.
        -- rewrite <- E2. apply contribution_ext; cbn; try assumption. rewrite C5. reflexivity.
        -- rewrite Hcd, C13. exact E3.
    + injection E4 as <- <- <- <-. exists c0. split.
      * rewrite <- E2. apply contribution_ext; cbn; try assumption. rewrite C5. reflexivity.
      * rewrite Hcd, C13. exact E3.
  - rewrite C15. reflexivity.
  - intros Hv. rewrite C1 in Hv. apply N.ltb_lt in Hv. fold version in Hv. rewrite Hv in E4.
    bind_inv E4. destruct a as [[did1 sg1] cd1]. bind_inv E4. injection E4 as <- <- <- <-.
    rewrite Hph, C8. exact E6.
Qed.

(* the entitlement clause of checkBlock (block's delegate id = lottery result published by the block three below), for
   a tip whose ancestor slot 1 is a stored block and stored signatures that name the lottery result of their block
   (HandleStakeSignature stores nothing else) *)
Definition sigs_inv (w : wnode) : Prop :=
  forall h s blk, nget (sigs w) h = Some s -> get_block (wn w) h = Some blk -> b_next_delegate_id blk = ss_delegate s.

Theorem template_entitlement_ok w rcpt now now_s t w' old :
  sigs_inv w -> get_block_template cfg legacy w rcpt now now_s = Ok (t, w') ->
  0 < b_version t -> get_block (wn w) (staked_hash t) = Some old ->
  b_next_delegate_id old = b_delegate_id t.
Proof.
  intros Hs H Hv Hold. unfold get_block_template in H.
  opt_inv H. rename x into prev. bind_inv H. bind_inv H. bind_inv H. destruct a1 as [valid txs].
  bind_inv H. bind_inv H. bind_inv H. destruct a3 as [[[did nd] sg] cd]. injection H as <- <-.
  cbn [b_version b_delegate_id staked_hash b_anc anc_nth nth] in *.
  apply N.ltb_lt in Hv. rewrite Hv in E5.
  bind_inv E5. destruct a3 as [[did1 sg1] cd1]. bind_inv E5. injection E5 as <- <- <- <-.
  cbn [anc_nth nth] in *. rewrite Hold in *.
  destruct (nget (sigs w) _) as [s|] eqn:Es.
  - bind_inv E6. match type of E6 with (if ?x then _ else _) = _ => destruct x end.
    + bind_inv E6. bind_inv E6. injection E6 as <- <- <-.
      destruct (ss_delegate s =? 0) eqn:Ez; [reflexivity|]. exact (Hs _ _ _ Es Hold).
    + injection E6 as <- <- <-. reflexivity.
  - injection E6 as <- <- <-. reflexivity.
Qed.

End Template.

(* ====================================================================================================================
   Part 2: soundness of the mempool's simulation (code as it is: legacy = false)                                        *)
Definition cfg_ok_c09 (cfg : config) : bool :=
  (0 <? fee_per_byte_v2 cfg) && (0 <? base_overhead cfg) && (fee_per_byte_v2 cfg * max_tx_size cfg <? two64) &&
  (register_burn cfg <? two64).

Section Sim.
Variable cfg : config.
Hypothesis Hok : cfg_ok_c09 cfg = true.

(* the transaction's version byte names its payload (what Transaction.Deserialize produces from version 1 on) *)
Definition tx_typed (t : tx) : Prop := tx_version t = data_version (tx_data t).

(* the relay rule makes the fee positive *)
Lemma relay_fee_pos t :
  tx_vsize cfg t <= max_tx_size cfg -> (wmul (fee_per_byte_v2 cfg) (tx_vsize cfg t) <=? tx_fee t) = true -> 0 < tx_fee t.
Proof.
  intros Hv H. unfold cfg_ok_c09 in Hok.
  apply Bool.andb_true_iff in Hok. destruct Hok as [H123 _].
  apply Bool.andb_true_iff in H123. destruct H123 as [H12 H3].
  apply Bool.andb_true_iff in H12. destruct H12 as [H1 H2].
  apply N.ltb_lt in H1, H2, H3. apply N.leb_le in H.
  assert (Hb : base_overhead cfg <= tx_vsize cfg t) by (unfold tx_vsize; lia).
  assert (Hm : fee_per_byte_v2 cfg * tx_vsize cfg t <= fee_per_byte_v2 cfg * max_tx_size cfg) by (apply N.mul_le_mono_l; exact Hv).
  rewrite wmul_small in H by lia.
  assert (0 < fee_per_byte_v2 cfg * tx_vsize cfg t) by (apply N.mul_pos_pos; lia). lia.
Qed.

Definition agree (l : ledger) (m : list (N * acct)) : Prop := forall a s, nget m a = Some s -> s = load_state l a.

Lemma load_state_some l a s : get_state l a = Some s -> load_state l a = s.
Proof. unfold load_state. intros ->. reflexivity. Qed.

Lemma init_states_agree l addrs : forall m, agree l m -> agree l (init_states l addrs m).
Proof.
  induction addrs as [|a r IH]; intros m Hm; cbn; [exact Hm|].
  apply IH. destruct (nget m a) eqn:E; [exact Hm|].
  intros k s Hk. unfold nget in *.
  assert (Happ : forall (m : list (N * acct)) k, aget N.eqb (m ++ [(a, load_state l a)]) k =
                   match aget N.eqb m k with Some v => Some v | None => if k =? a then Some (load_state l a) else None end).
  { clear. induction m as [|[k0 v0] m IH]; intros k; cbn; [reflexivity|]. destruct (k =? k0); [reflexivity|apply IH]. }
  rewrite Happ in Hk. destruct (aget N.eqb m k) eqn:Ek.
  - injection Hk as <-. apply Hm. exact Ek.
  - destruct (N.eqb_spec k a); [|discriminate]. subst. injection Hk as <-. reflexivity.
Qed.

(* every transaction has exactly one state input: from the signer, or (unstake) from the delegate address *)
Lemma state_inputs_single t signer :
  exists amt sender, state_inputs cfg t signer = [(amt, sender)] /\
    (sender = signer \/ sender = addr_of_key (tx_signer t) \/ exists a id, tx_data t = TUnstake a id /\ sender = delegate_addr id /\ amt = a).
Proof.
  unfold state_inputs. destruct (tx_data t); eexists; eexists; (split; [reflexivity|]); auto.
  right. right. eexists. eexists. repeat split.
Qed.

Lemma addr_delegate_ne k d : addr_of_key k <> delegate_addr d.
Proof. unfold addr_of_key, delegate_addr. lia. Qed.

(* the transaction's input amount is positive when its fee is (no uint64 wrap-around in a transaction with a total) *)
Lemma input_amount_pos t signer amt sender :
  wf_tx cfg t -> 0 < tx_fee t -> tx_total cfg t <> None -> state_inputs cfg t signer = [(amt, sender)] -> 0 < amt.
Proof.
  intros (Hf64 & Hwd & Hb64) Hf Ht Hi. unfold tx_total, data_total in Ht. unfold state_inputs in Hi.
  destruct (tx_data t) as [os|nl name id|nw pv|a id pu|a id]; cbn [wf_data] in Hwd; injection Hi as <- <-.
  - destruct (sum_outs os 0) as [s|] eqn:Es; [|congruence].
    destruct (wadd s (tx_fee t) <? s) eqn:Ec; [congruence|].
    destruct (sum_outs_exact os 0 s ltac:(reflexivity) Hwd Es) as [Hs Hs64].
    destruct (wadd_nowrap_of_check s (tx_fee t) Hs64 Hf64 Ec) as [Hw Hw64]. lia.
  - destruct (wadd (register_burn cfg) (tx_fee t) <? register_burn cfg) eqn:Ec; [congruence|].
    destruct (wadd_nowrap_of_check _ _ Hb64 Hf64 Ec) as [Hw Hw64].
    replace (wadd (tx_fee t) (register_burn cfg)) with (wadd (register_burn cfg) (tx_fee t)) by (unfold wadd; f_equal; lia).
    lia.
  - exact Hf.
  - destruct (wadd a (tx_fee t) <? a) eqn:Ec; [congruence|].
    destruct (wadd_nowrap_of_check _ _ Hwd Hf64 Ec) as [Hw Hw64]. lia.
  - destruct (a <? tx_fee t) eqn:Ea; [congruence|]. apply N.ltb_ge in Ea. lia.
Qed.


(* ---- the checks on the transaction itself are sound against a ledger the simulated states agree with ---- *)
Section Current.
Variable l0 l : ledger.          (* l0: the ledger the simulation started from; l: the ledger the transaction meets *)
Variable t : tx.
Variable h bh : N.
Variable st : sim.
Notation signer := (addr_of_key (tx_signer t)).

Hypothesis Htyped : tx_typed t.
Hypothesis Hwf : wf_tx cfg t.
Hypothesis Hfee : 0 < tx_fee t.
Hypothesis Htot : tx_total cfg t <> None.
Hypothesis Hsd : s_dlgs st = [].
Hypothesis Hdl : dlgs l = dlgs l0.
Hypothesis Hag : agree l (s_states st).
Hypothesis Hd0 : get_dlg l 0 = None.
Hypothesis Hst64 : staked l < two64.
Hypothesis Hfund : forall id d f, get_dlg l id = Some d -> find_fund (d_funds d) signer = Some f -> f_amt f <= staked l.
Hypothesis Hstk : forall a id pu, tx_data t = TStake a id pu -> staked l + a < two64.

Lemma gol_nil id : get_or_load l0 (s_dlgs st) id = get_dlg l id.
Proof. rewrite Hsd. unfold get_or_load, get_dlg. rewrite Hdl. reflexivity. Qed.

Lemma check_current_sound :
  check_current cfg false l0 t signer h st = Ok tt -> exists l', apply_tx cfg l t h bh (h - 1) = Ok l'.
Proof.
  intros H. unfold check_current in H.
  opt_inv H. rename x into s. guard_inv H. bind_inv H.
  pose proof (Hag _ _ E) as Hs.
  destruct (state_inputs_single t signer) as (amt & sender & Hin & Hsender).
  pose proof (input_amount_pos t signer amt sender Hwf Hfee Htot Hin) as Hamt.
  rewrite Hin in E0. cbn [check_inputs] in E0. opt_inv E0. rename x into ss. guard_inv E0. clear E0. clear a.
  pose proof (Hag _ _ E1) as Hss. apply Bool.negb_true_iff in G0. apply N.ltb_ge in G0.
  (* the sender's account exists: its balance covers a positive amount *)
  assert (Hsend : get_state l sender = Some ss).
  { subst ss. unfold load_state in *. destruct (get_state l sender); [reflexivity|]. cbn in G0. lia. }
  (* the signer's account exists *)
  assert (Hsig : get_state l signer = Some s).
  { destruct Hsender as [->|[->|(ua & uid & Hd & -> & ->)]].
    - rewrite Hsend. f_equal. congruence.
    - rewrite Hsend. f_equal. congruence.
    - (* unstake: a signer without an account has delegate 0, which does not exist *)
      destruct (get_state l signer) as [s'|] eqn:Eg; [f_equal; subst s; unfold load_state; rewrite Eg; reflexivity|].
      exfalso. assert (Hz : deleg s = 0) by (subst s; unfold load_state; rewrite Eg; reflexivity).
      unfold tx_typed in Htyped. rewrite Hd in Htyped. cbn in Htyped. rewrite Htyped, Hd in H. cbn in H.
      rewrite gol_nil in H. opt_inv H. guard_inv H. apply N.eqb_eq in G1. rewrite Hz in G1. subst uid. congruence. }
  unfold apply_tx. rewrite Hsig. cbn [of_opt bind]. rewrite G. cbn [guard bind].
  (* the kind-specific part *)
  assert (Hk : exists l1 st1,
            (match tx_data t with
             | TStake a id pu =>
                 if tx_version t =? 4 then
                   _ <- guard (negb (id =? 0)) 363 ;; _ <- guard (deleg s =? id) 364 ;;
                   l1 <- apply_stake cfg l a id pu signer (h - 1) (tx_id t) false ;; Ok (l1, s)
                 else Ok (l, s)
             | TUnstake a id =>
                 if tx_version t =? 5 then
                   _ <- guard (negb (id =? 0)) 365 ;; _ <- guard (deleg s =? id) 366 ;;
                   l1 <- apply_unstake l a id signer (h - 1) (tx_id t) false 0 ;; Ok (l1, s)
                 else Ok (l, s)
             | TRegister _ name id =>
                 if tx_version t =? 2 then
                   _ <- guard (match get_dlg l id with Some _ => false | None => true end) 367 ;;
                   Ok (put_dlg l (mkdlg id (tx_signer t) name []), s)
                 else Ok (l, s)
             | TSetDelegate new prev =>
                 if tx_version t =? 3 then
                   _ <- guard (prev =? deleg s) 368 ;;
                   _ <- guard (match get_dlg l prev with
                               | Some d => match find_fund (d_funds d) signer with Some _ => false | None => true end
                               | None => true end) 369 ;;
                   _ <- guard (match get_dlg l new with Some _ => true | None => false end) 370 ;;
                   Ok (l, mkacct (bal s) (nonce s) (inc s) new)
                 else Ok (l, s)
             | TTransfer _ => Ok (l, s)
             end) = Ok (l1, st1) /\ accts l1 = accts l /\ bal st1 = bal s).
  { unfold tx_typed in Htyped. rewrite Htyped in H |- *.
    destruct (tx_data t) as [os|nl name id|nw pv|a id pu|a id] eqn:Ed; cbn [data_version N.eqb Pos.eqb] in H |- *;
      rewrite ?gol_nil in H.
    - exists l, s. repeat split.
    - destruct (get_dlg l id); [discriminate H|]. cbn [guard bind].
      eexists. eexists. repeat split.
    - guard_inv H. guard_inv H. cbn [guard bind].
      destruct (get_dlg l nw); [|discriminate H]. cbn [guard bind]. eexists. eexists. repeat split.
    - (* stake *)
      destruct (get_dlg l id) as [d|] eqn:Egd; [|discriminate H]. cbn [of_opt bind] in H.
      destruct (match find_fund (d_funds d) signer with Some f => guard (f_unlock f =? pu) 916 | None => Ok tt end) eqn:Epu;
        [|discriminate H|discriminate H]. cbn [bind] in H.
      assert (Hid : (id =? 0) = false).
      { destruct (N.eqb_spec id 0); [subst; congruence|reflexivity]. }
      rewrite Hid. cbn [negb guard bind]. unfold guard in H. destruct (deleg s =? id); [|discriminate H]. cbn [guard bind].
      unfold apply_stake. rewrite Egd. cbn [of_opt bind].
      pose proof (Hstk _ _ _ eq_refl) as Hov.
      assert (Hss' : stats_staked l a = Ok (set_staked l (wadd (staked l) a))).
      { unfold stats_staked. rewrite wadd_small by exact Hov. destruct (N.ltb_spec (staked l + a) (staked l)); [lia|reflexivity]. }
      destruct (find_fund (d_funds d) signer) as [f|] eqn:Ef.
      + cbn [orb]. unfold guard in Epu. destruct (f_unlock f =? pu); [|discriminate Epu]. cbn [guard bind].
        pose proof (Hfund _ _ _ Egd Ef) as Hle.
        assert (Hsa : safe_add (f_amt f) a = Some (f_amt f + a)).
        { unfold safe_add. rewrite wadd_small by lia. destruct (N.ltb_spec (f_amt f + a) (f_amt f)); [lia|reflexivity]. }
        rewrite Hsa. cbn [of_opt bind]. rewrite Hss'. cbn [bind].
        eexists. eexists. repeat split.
      + cbn [bind]. rewrite Hss'. cbn [bind]. eexists. eexists. repeat split.
    - (* unstake *)
      destruct (get_dlg l id) as [d|] eqn:Egd; [|discriminate H]. cbn [of_opt bind] in H. guard_inv H.
      assert (Hid : (id =? 0) = false).
      { destruct (N.eqb_spec id 0); [subst; congruence|reflexivity]. }
      rewrite Hid. cbn [negb guard bind].
      unfold apply_unstake. rewrite Egd. cbn [of_opt bind].
      destruct (find_fund (d_funds d) signer) as [f|] eqn:Ef.
      2:{ cbn in H. discriminate H. }
      cbn [of_opt bind]. guard_inv H. guard_inv H.
      apply N.ltb_lt in G3.
      assert (Hlock : (h - 1 <? f_unlock f) = false) by (apply N.ltb_ge; lia).
      rewrite Hlock. cbn [orb negb guard bind].
      pose proof (Hfund _ _ _ Egd Ef) as Hle.
      unfold guard in H. destruct (f_amt f <? a) eqn:Hlt; [discriminate H|]. cbn [negb guard bind].
      apply N.ltb_ge in Hlt.
      assert (Hus : forall l', staked l' = staked l -> stats_unstaked l' a = Ok (set_staked l' (wsub (staked l') a))).
      { intros l' Hl'. unfold stats_unstaked. rewrite Hl'. rewrite wsub_small by lia.
        destruct (N.ltb_spec (staked l) (staked l - a)); [lia|reflexivity]. }
      destruct (f_amt f =? a); cbn [negb andb].
      + rewrite Hus by reflexivity. cbn [bind]. eexists. eexists. repeat split.
      + rewrite Hus by reflexivity. cbn [bind]. eexists. eexists. repeat split. }
  destruct Hk as (l1 & st1 & Hk & Ha1 & Hb1).
  match goal with |- exists l', bind ?r _ = _ => replace r with (Ok (A:=ledger * acct) (l1, st1)) end.
  cbn [bind].
  set (st2 := mkacct (bal st1) (wadd (nonce st1) 1) (inc st1) (deleg st1)).
  set (l2 := put_state l1 signer st2).
  (* the input is covered *)
  assert (Hinp : exists l3, apply_inputs l2 (state_inputs cfg t signer) = Ok l3).
  { rewrite Hin. cbn [apply_inputs].
    destruct (N.eqb_spec sender signer) as [Heq|Hne].
    - subst sender. unfold l2, get_state, put_state, set_accts. cbn [accts].
      rewrite nget_nset_same. cbn [of_opt bind]. cbn [bal st2]. rewrite Hb1.
      assert (Hx : ss = s) by congruence. rewrite Hx in G0.
      destruct (N.ltb_spec (bal s) amt); [lia|]. cbn [negb guard bind]. eexists. reflexivity.
    - assert (Hg : get_state l2 sender = Some ss).
      { unfold l2, get_state, put_state, set_accts. cbn [accts]. rewrite nget_nset_other by exact Hne.
        rewrite Ha1. exact Hsend. }
      rewrite Hg. cbn [of_opt bind]. destruct (N.ltb_spec (bal ss) amt); [lia|]. cbn [negb guard bind].
      eexists. reflexivity. }
  destruct Hinp as (l3 & Hl3). fold st2. fold l2. rewrite Hl3. cbn [bind].
  destruct (state_outputs cfg t signer) as [outs|c|c] eqn:Eo.
  - cbn [bind]. eexists. reflexivity.
  - exfalso. unfold state_outputs in Eo. destruct (tx_data t); try discriminate.
    destruct (_ <? _); discriminate.
  - exfalso. unfold state_outputs in Eo. unfold tx_total, data_total in Htot. destruct (tx_data t) as [?|? ? ?|? ?|? ? ?|ua uid]; try discriminate.
    destruct (ua <? tx_fee t); [congruence|discriminate].
Qed.

End Current.


(* C09, simulation part, first half: a transaction of ANY of the five kinds that validateMempoolTx accepts against an
   empty list of earlier entries (the first transaction of every template, and every admission into an empty mempool) is
   applied successfully by ApplyTxToState on the same ledger at that height (tip height = height - 1).
   Hypotheses: the transaction is well typed and its numbers are uint64 values, its virtual size is within the limit
   (Prevalidate), no delegate has id 0 (Prevalidate refuses such a registration), the staked total is a uint64 value
   that bounds every fund of the signer, and a stake does not push it over 2^64. *)
Theorem simulation_sound_single l store t h bh :
  tx_typed t -> wf_tx cfg t -> tx_vsize cfg t <= max_tx_size cfg ->
  get_dlg l 0 = None -> staked l < two64 ->
  (forall id d f, get_dlg l id = Some d -> find_fund (d_funds d) (addr_of_key (tx_signer t)) = Some f -> f_amt f <= staked l) ->
  (forall a id pu, tx_data t = TStake a id pu -> staked l + a < two64) ->
  validate_mempool_tx cfg false l store t [] h = Ok tt ->
  exists l', apply_tx cfg l t h bh (h - 1) = Ok l'.
Proof.
  intros Hty Hwf Hvs Hd0 Hs64 Hfund Hstk H. unfold validate_mempool_tx in H.
  guard_inv H. pose proof (relay_fee_pos t Hvs G) as Hfee.
  destruct (tx_total cfg t) as [tot|] eqn:Etot; [|discriminate H]. cbn [of_opt bind] in H.
  bind_inv H. guard_inv H. cbn [sim_entries bind] in H.
  eapply (check_current_sound l l t h bh); try eassumption; try reflexivity.
  - congruence.
  - cbn [s_states]. apply init_states_agree. intros k s Hk. discriminate Hk.
Qed.

End Sim.

(* ====================================================================================================================
   Part 3: the statements that are false                                                                                *)

(* the simulation's promise: what validateMempoolTx accepts after the entries [es] is applied successfully by
   ApplyTxToState after the transactions of [es] have been applied (all at height h, tip height h - 1) *)
Fixpoint apply_all (cfg : config) (l : ledger) (ts : list tx) (h : N) : res ledger :=
  match ts with [] => Ok l | t :: r => l1 <- apply_tx cfg l t h 0 (h - 1) ;; apply_all cfg l1 r h end.
Fixpoint entries_of (cfg : config) (ts : list tx) : res (list mentry) :=
  match ts with [] => Ok [] | t :: r => e <- entry_of_tx cfg t 0 ;; es <- entries_of cfg r ;; Ok (e :: es) end.
Definition store_of (ts : list tx) : list (N * tx) := map (fun t => (tx_id t, t)) ts.

Definition simulation_sound_stmt (legacy : bool) : Prop :=
  forall cfg l ts es t h l1,
    entries_of cfg ts = Ok es -> apply_all cfg l ts h = Ok l1 ->
    validate_mempool_tx cfg legacy l (store_of ts) t es h = Ok tt ->
    exists l2, apply_tx cfg l1 t h 0 (h - 1) = Ok l2.

(* witnesses on the verifnet constants.  key 1 = address 3, key 2 = address 5; delegate 2 = address 4 *)
Definition wfee (vs : N) : N := fee_per_byte_v2 cfg_verifnet * (base_overhead cfg_verifnet + vs).
Definition wit_ledger (deleg1 deleg2 : N) : ledger :=
  mkledger [(3, mkacct 100000000000 0 0 deleg1); (5, mkacct 100000000000 0 0 deleg2); (4, mkacct 5000000000 0 1 0)]
           [(2, mkdlg 2 1 0 [mkfund 3 5000000000 7])] 5000000000 [] [] [] [].

(* R11a: unstake of a fund that unlocks at the next height *)
Definition wit_unstake : tx := mktx 100 5 1 1 true false (TUnstake 5000000000 2) 1 (wfee 8).
Lemma legacy_unlock_boundary_refuted :
  validate_mempool_tx cfg_verifnet true (wit_ledger 2 0) [] wit_unstake [] 7 = Ok tt /\
  apply_tx cfg_verifnet (wit_ledger 2 0) wit_unstake 7 0 (7 - 1) = Err 313 /\
  validate_mempool_tx cfg_verifnet false (wit_ledger 2 0) [] wit_unstake [] 7 = Err 921.
Proof. repeat split; vm_compute; reflexivity. Qed.

(* R11b: somebody else's pending set-delegate 0 -> 2 lets a signer with delegate 0 stake to delegate 2 *)
Definition wit_setdel : tx := mktx 101 3 1 1 true false (TSetDelegate 2 0) 1 (wfee (max_tx_per_block cfg_verifnet)).
Definition wit_stake2 : tx := mktx 102 4 2 2 true false (TStake 2000000000 2 0) 1 (wfee 256).
(* R11c: the second of two pending stakes has to name the unlock height the first one will have written *)
Definition wit_stake_a : tx := mktx 103 4 1 1 true false (TStake 1000000000 2 7) 1 (wfee 256).
Definition wit_stake_b (pu : N) : tx := mktx 104 4 1 1 true false (TStake 1000000000 2 pu) 2 (wfee 256).

Lemma legacy_simulation_refuted : ~ simulation_sound_stmt true.
Proof.
  intros H.
  destruct (H cfg_verifnet (wit_ledger 0 0) [wit_setdel]
              match entries_of cfg_verifnet [wit_setdel] with Ok es => es | _ => [] end wit_stake2 6
              match apply_all cfg_verifnet (wit_ledger 0 0) [wit_setdel] 6 with Ok l => l | _ => ledger0 end) as [l2 Hl2];
    try (vm_compute; reflexivity).
  vm_compute in Hl2. discriminate Hl2.
Qed.

Lemma legacy_foreign_set_delegate_refuted :
  exists es l1, entries_of cfg_verifnet [wit_setdel] = Ok es /\ apply_all cfg_verifnet (wit_ledger 0 0) [wit_setdel] 6 = Ok l1 /\
    validate_mempool_tx cfg_verifnet true (wit_ledger 0 0) (store_of [wit_setdel]) wit_stake2 es 6 = Ok tt /\
    apply_tx cfg_verifnet l1 wit_stake2 6 0 (6 - 1) = Err 364 /\
    validate_mempool_tx cfg_verifnet false (wit_ledger 0 0) (store_of [wit_setdel]) wit_stake2 es 6 = Err 917.
Proof.
  destruct (entries_of cfg_verifnet [wit_setdel]) as [es| |] eqn:Ee; [|vm_compute in Ee; discriminate|vm_compute in Ee; discriminate].
  destruct (apply_all cfg_verifnet (wit_ledger 0 0) [wit_setdel] 6) as [l1| |] eqn:Ea; [|vm_compute in Ea; discriminate|vm_compute in Ea; discriminate].
  exists es, l1. vm_compute in Ee. injection Ee as <-. vm_compute in Ea. injection Ea as <-.
  repeat split; vm_compute; reflexivity.
Qed.

Lemma legacy_restake_refuted :
  exists es l1, entries_of cfg_verifnet [wit_stake_a] = Ok es /\ apply_all cfg_verifnet (wit_ledger 2 0) [wit_stake_a] 6 = Ok l1 /\
    (* before the repair: the simulated value 6 + 3 is admitted and the ledger refuses it, the real value 5 + 3 is refused *)
    validate_mempool_tx cfg_verifnet true (wit_ledger 2 0) (store_of [wit_stake_a]) (wit_stake_b 9) es 6 = Ok tt /\
    apply_tx cfg_verifnet l1 (wit_stake_b 9) 6 0 (6 - 1) = Err 302 /\
    validate_mempool_tx cfg_verifnet true (wit_ledger 2 0) (store_of [wit_stake_a]) (wit_stake_b 8) es 6 = Err 916 /\
    (* the code as it is *)
    validate_mempool_tx cfg_verifnet false (wit_ledger 2 0) (store_of [wit_stake_a]) (wit_stake_b 9) es 6 = Err 916 /\
    validate_mempool_tx cfg_verifnet false (wit_ledger 2 0) (store_of [wit_stake_a]) (wit_stake_b 8) es 6 = Ok tt /\
    (exists l2, apply_tx cfg_verifnet l1 (wit_stake_b 8) 6 0 (6 - 1) = Ok l2).
Proof.
  destruct (entries_of cfg_verifnet [wit_stake_a]) as [es| |] eqn:Ee; [|vm_compute in Ee; discriminate|vm_compute in Ee; discriminate].
  destruct (apply_all cfg_verifnet (wit_ledger 2 0) [wit_stake_a] 6) as [l1| |] eqn:Ea; [|vm_compute in Ea; discriminate|vm_compute in Ea; discriminate].
  exists es, l1. vm_compute in Ee. injection Ee as <-. vm_compute in Ea. injection Ea as <-.
  repeat split; try (vm_compute; reflexivity).
  eexists. vm_compute. reflexivity.
Qed.

(* ---- the full statement of C09 and its refutation on a tip with a wrong ancestor list (open finding R13a) ---- *)
Inductive reachable (cfg : config) (ga tk : N) (g : block) : wnode -> Prop :=
| R_genesis w0 : wnode0 cfg ga g = Ok w0 -> reachable cfg ga tk g w0
| R_deliver w b now now_s exp w' o amb :
    reachable cfg ga tk g w -> wdeliver cfg ga tk w b now now_s exp = (w', o, amb) -> reachable cfg ga tk g w'
| R_tx w t now_s expires w' adm :
    reachable cfg ga tk g w -> packet_tx cfg tk false w t now_s expires = Ok (w', adm) -> reachable cfg ga tk g w'
| R_sig w h did key msg w' :
    reachable cfg ga tk g w -> handle_stake_sig w h did key msg = Ok w' -> reachable cfg ga tk g w'
| R_template w rcpt now now_s t w' :
    reachable cfg ga tk g w -> get_block_template cfg false w rcpt now now_s = Ok (t, w') -> reachable cfg ga tk g w'.

(* the miner's contribution: a nonce whose proof-of-work values meet the block's difficulty (side blocks: 2/3 of it) *)
Definition mined (b : block) : Prop :=
  valid_pow (b_pow b) (b_diff b) = Ok true /\
  Forall (fun s => exists x, mul64 (b_diff b) 2 = Ok x /\ valid_pow (cm_pow s) (x / 3) = Ok true) (b_sides b).

(* C09 at full strength: for every reachable state of the wrapped node, every completion of the template with a valid
   nonce, delivered to the same node before the clock has fallen behind the template's timestamp by more than the
   future limit, is accepted *)
Definition C09_full_stmt : Prop :=
  forall cfg ga tk g w rcpt now now_s t w' b now' now_s' exp,
    reachable cfg ga tk g w -> get_block_template cfg false w rcpt now now_s = Ok (t, w') ->
    completes t b -> mined b -> get_block (wn w') (b_hash b) = None ->
    b_ts b <= now' + future_time_limit cfg * 1000 -> now' + future_time_limit cfg * 1000 < two64 ->
    exists w'' amb, wdeliver cfg ga tk w' b now' now_s' exp = (w'', Accepted, amb).

(* witness: genesis, three honest blocks, then a block whose ancestor slot 1 names a hash that is not a block (checkBlock
   never looks at that slot: finding R13a); the template built on that tip inherits the hash as its entitlement slot *)
Definition wit_complete (t : block) (hash : N) (anc : list N) : block :=
  mkblock hash (b_version t) (b_height t) (b_ts t) anc (b_sides t) (b_recipient t) (b_delegate_id t) (b_next_delegate_id t)
          (b_sig_blank t) (b_sig_key t) (b_sig_msg t) (b_diff t) (b_cd t) (b_txs t) (b_chains t) 0 (1000 + hash)
          (mkcommit hash hash anc (b_ts t) 0 false) false.

Definition wit_dummy : block := mkblock 0 0 0 0 [] [] 0 0 0 true 0 0 0 0 [] [] 0 0 no_commit false.
Definition wit_genesis : block := genesis_block cfg_verifnet 7 1 123 (mkcommit 1 1 [0; 0; 0] 0 0 false).
Definition wit_step (w : wnode) (hash now : N) (bad_slot1 : bool) : wnode * block * outcome :=
  match get_block_template cfg_verifnet false w 9 now 0 with
  | Ok (t, w') =>
      let anc := if bad_slot1 then [anc_nth (b_anc t) 0; 999; anc_nth (b_anc t) 2] else b_anc t in
      let b := wit_complete t hash anc in
      let '(w'', o, _) := wdeliver cfg_verifnet 7 0 w' b (now + 1) 0 7200 in (w'', b, o)
  | _ => (w, wit_dummy, Rejected 0)
  end.

Definition wit_w0 : wnode := Eval vm_compute in match wnode0 cfg_verifnet 7 wit_genesis with Ok w => w | _ => mkwnode (mknode [] [] 0 0 0 [] ledger0) [] [] [] end.
Definition wit_s1 := Eval vm_compute in wit_step wit_w0 2 15000 false.
Definition wit_s2 := Eval vm_compute in wit_step (fst (fst wit_s1)) 3 30000 false.
Definition wit_s3 := Eval vm_compute in wit_step (fst (fst wit_s2)) 4 45000 false.
Definition wit_s4 := Eval vm_compute in wit_step (fst (fst wit_s3)) 5 60000 true.
Definition wit_w4 : wnode := fst (fst wit_s4).
Definition wit_t5 : block := Eval vm_compute in match get_block_template cfg_verifnet false wit_w4 9 75000 0 with Ok (t, _) => t | _ => wit_dummy end.
Definition wit_b5 : block := Eval vm_compute in wit_complete wit_t5 6 (b_anc wit_t5).

Lemma wit_step_reachable w hash now bad :
  reachable cfg_verifnet 7 0 wit_genesis w -> reachable cfg_verifnet 7 0 wit_genesis (fst (fst (wit_step w hash now bad))).
Proof.
  intros Hr. unfold wit_step.
  destruct (get_block_template cfg_verifnet false w 9 now 0) as [[t w']| |] eqn:Et; [|exact Hr|exact Hr].
  destruct (wdeliver cfg_verifnet 7 0 w' _ (now + 1) 0 7200) as [[w'' o] amb] eqn:Ed.
  cbn [fst]. eapply R_deliver; [|exact Ed]. eapply R_template; [exact Hr|exact Et].
Qed.

Lemma wit_w4_reachable : reachable cfg_verifnet 7 0 wit_genesis wit_w4.
Proof.
  assert (H0 : reachable cfg_verifnet 7 0 wit_genesis wit_w0) by (apply R_genesis; vm_compute; reflexivity).
  pose proof (wit_step_reachable wit_w0 2 15000 false H0) as H1.
  change (wit_step wit_w0 2 15000 false) with wit_s1 in H1.
  pose proof (wit_step_reachable _ 3 30000 false H1) as H2.
  change (wit_step (fst (fst wit_s1)) 3 30000 false) with wit_s2 in H2.
  pose proof (wit_step_reachable _ 4 45000 false H2) as H3.
  change (wit_step (fst (fst wit_s2)) 4 45000 false) with wit_s3 in H3.
  pose proof (wit_step_reachable _ 5 60000 true H3) as H4.
  change (wit_step (fst (fst wit_s3)) 5 60000 true) with wit_s4 in H4.
  exact H4.
Qed.

(* all four witness blocks, including the one with the wrong slot, were accepted *)
Lemma wit_blocks_accepted :
  snd wit_s1 = Accepted /\ snd wit_s2 = Accepted /\ snd wit_s3 = Accepted /\ snd wit_s4 = Accepted /\
  top_h (wn wit_w4) = 4 /\ nth 1 (b_anc (snd (fst wit_s4))) 0 = 999 /\ get_block (wn wit_w4) 999 = None.
Proof. repeat split; vm_compute; reflexivity. Qed.

Theorem C09_full_refuted : ~ C09_full_stmt.
Proof.
  intros H.
  destruct (H cfg_verifnet 7 0 wit_genesis wit_w4 9 75000 0 wit_t5 wit_w4 wit_b5 75001 0 7200 wit_w4_reachable) as (w'' & amb & Hd).
  - vm_compute. reflexivity.
  - repeat split; vm_compute; reflexivity.
  - split; [vm_compute; reflexivity|]. vm_compute. constructor.
  - vm_compute. reflexivity.
  - vm_compute. intros Hc. discriminate Hc.
  - vm_compute. reflexivity.
  - vm_compute in Hd. discriminate Hd.
Qed.

(* ====================================================================================================================
   Part 4: the simulation is sound after earlier entries that are plain transfers                                       *)
Section Transfers.
Variable cfg : config.
Hypothesis Hok : cfg_ok_c09 cfg = true.

Lemma load_put l a s' k : load_state (put_state l a s') k = if k =? a then s' else load_state l k.
Proof.
  unfold load_state, get_state, put_state, set_accts. cbn [accts]. rewrite nget_nset.
  destruct (k =? a); reflexivity.
Qed.

Lemma agree_put l m a s' :
  agree l m -> agree (put_state l a s') (match nget m a with Some _ => nset m a s' | None => m end).
Proof.
  intros Hm k s Hk. rewrite load_put. destruct (nget m a) eqn:Ea.
  - rewrite nget_nset in Hk. destruct (k =? a); [congruence|apply Hm; exact Hk].
  - destruct (N.eqb_spec k a) as [->|Hne]; [congruence|apply Hm; exact Hk].
Qed.

Lemma agree_ext l l' m : (forall k, load_state l' k = load_state l k) -> agree l m -> agree l' m.
Proof. intros He Hm k s Hk. rewrite He. apply Hm. exact Hk. Qed.

Definition nonpos (outs : list sout) : Prop := Forall (fun o => (o_type o =? OUT_COINBASE_POS) = false) outs.

Lemma outputs_agree outs : forall l m bh txid,
  agree l m -> nonpos outs -> total_bal l + Conservation.sum_souts outs < two64 ->
  agree (fst (apply_outputs l bh outs txid)) (sim_outputs m (map (fun o => (o_rcpt o, o_amt o)) outs)) /\
  dlgs (fst (apply_outputs l bh outs txid)) = dlgs l /\ staked (fst (apply_outputs l bh outs txid)) = staked l.
Proof.
  induction outs as [|o outs IH]; intros l m bh txid Hm Hnp Hb; cbn [apply_outputs map sim_outputs].
  - cbn [fst]. repeat split. exact Hm.
  - inversion Hnp as [|? ? Ho Hnp']; subst.
    cbn [Conservation.sum_souts fold_right] in Hb. fold (Conservation.sum_souts outs) in Hb.
    fold (load_state l (o_rcpt o)).
    set (st := load_state l (o_rcpt o)) in *.
    assert (Hst : bal st = bal_at l (o_rcpt o)).
    { unfold st, load_state, bal_at. destruct (get_state l (o_rcpt o)); reflexivity. }
    pose proof (bal_at_le_total l (o_rcpt o)) as Hle.
    destruct (safe_add (bal st) (o_amt o)) as [b|] eqn:Esa.
    2:{ exfalso. apply safe_add_none in Esa; lia. }
    apply safe_add_some in Esa; [|lia|lia]. destruct Esa as [-> Hlt].
    rewrite Ho.
    set (l1 := set_intx l _).
    set (ns := mkacct (bal st + o_amt o) (nonce st) (wadd (inc st) 1) (deleg st)).
    set (l2 := put_state l1 (o_rcpt o) ns).
    assert (Hl1 : agree l1 m) by (eapply agree_ext; [|exact Hm]; reflexivity).
    pose proof (agree_put l1 m (o_rcpt o) ns Hl1) as Hl2. fold l2 in Hl2.
    assert (Ht2 : total_bal l2 = total_bal l + o_amt o).
    { pose proof (total_put_state l1 (o_rcpt o) ns) as Hp. fold l2 in Hp. cbn [bal ns] in Hp.
      assert (Hb1 : bal_at l1 (o_rcpt o) = bal_at l (o_rcpt o)) by reflexivity.
      assert (Ht1 : total_bal l1 = total_bal l) by reflexivity.
      rewrite Hb1, Ht1 in Hp. lia. }
    assert (Hm' : agree l2 (match nget m (o_rcpt o) with
                            | Some s => nset m (o_rcpt o) (mkacct (wadd (bal s) (o_amt o)) (nonce s) (wadd (inc s) 1) (deleg s))
                            | None => m end)).
    { destruct (nget m (o_rcpt o)) as [s|] eqn:Es; [|exact Hl2].
      pose proof (Hm _ _ Es) as Hs. fold st in Hs. subst s. rewrite wadd_small by lia. exact Hl2. }
    destruct (IH l2 _ bh txid Hm' Hnp' ltac:(lia)) as (A & B & C).
    destruct (nget m (o_rcpt o)) as [s|] eqn:Es; (split; [exact A|split; [rewrite B|rewrite C]; reflexivity]).
Qed.

(* a plain transfer, as decoded from version 1 on *)
Definition is_transfer (t : tx) : Prop :=
  tx_version t = 1 /\ (exists outs, tx_data t = TTransfer outs) /\ wf_tx cfg t /\ tx_total cfg t <> None.

Lemma transfer_step l t1 e1 h l1 m d l0 store txid signer :
  is_transfer t1 -> entry_of_tx cfg t1 0 = Ok e1 -> apply_tx cfg l t1 h 0 (h - 1) = Ok l1 ->
  agree l m -> total_bal l < two64 ->
  forall st', sim_entry cfg false l0 store txid signer h (mksim m d) e1 = Ok st' ->
  agree l1 (s_states st') /\ s_dlgs st' = d /\ dlgs l1 = dlgs l /\ staked l1 = staked l /\ total_bal l1 <= total_bal l.
Proof.
  intros (Hv & (os & Hd) & Hwf & Htot) He Ha Hm Hb st' Hs.
  destruct (tx_total cfg t1) as [tot|] eqn:Etot; [|congruence]. clear Htot.
  pose proof (apply_tx_total cfg l t1 h 0 (h - 1) l1 tot Hb Hwf Etot Ha) as Htotal.
  unfold entry_of_tx in He. bind_inv He. rename a into outs. injection He as <-.
  unfold sim_entry in Hs. cbn [me_id me_version me_signer me_inputs me_outputs s_states s_dlgs] in Hs.
  guard_inv Hs. rewrite Hv in Hs. cbn [N.eqb Pos.eqb] in Hs. bind_inv Hs. rename a into m2. injection Hs as <-.
  match goal with Hx : sim_inputs _ _ = Ok m2 |- _ => rename Hx into Esi end.
  cbn [s_states s_dlgs].
  set (sg := addr_of_key (tx_signer t1)) in *.
  unfold apply_tx in Ha. fold sg in Ha.
  destruct (get_state l sg) as [s|] eqn:Eg; [|discriminate Ha]. cbn [of_opt bind] in Ha.
  guard_inv Ha. rewrite Hd in Ha. cbn [bind] in Ha.
  set (st2 := mkacct (bal s) (wadd (nonce s) 1) (inc s) (deleg s)) in *.
  set (l2 := put_state l sg st2) in *.
  bind_inv Ha. rename a into l3. rewrite E in Ha. cbn [bind] in Ha. injection Ha as <-.
  match goal with Hx : apply_inputs _ _ = Ok l3 |- _ => rename Hx into Eai end.
  destruct (ins_outs_balance cfg t1 sg tot outs Hwf Etot E) as (Hbal & Hin64 & Hnp).
  (* the signer's nonce *)
  set (m1 := match nget m sg with Some s0 => nset m sg (mkacct (bal s0) (wadd (nonce s0) 1) (inc s0) (deleg s0)) | None => m end) in *.
  assert (Hm1 : agree l2 m1).
  { unfold m1. destruct (nget m sg) as [s0|] eqn:Es0.
    - pose proof (Hm _ _ Es0) as Hs0. rewrite (load_state_some _ _ _ Eg) in Hs0. subst s0.
      pose proof (agree_put l m sg st2 Hm) as Hp. rewrite Es0 in Hp. exact Hp.
    - pose proof (agree_put l m sg st2 Hm) as Hp. rewrite Es0 in Hp. exact Hp. }
  (* the single input, from the signer *)
  assert (Hsi : state_inputs cfg t1 sg = [(wadd (match sum_outs os 0 with Some x => x | None => 0 end) (tx_fee t1), sg)]).
  { unfold state_inputs. rewrite Hd. reflexivity. }
  rewrite Hsi in Esi, Eai, Hbal, Hin64. set (amt := wadd _ (tx_fee t1)) in *.
  cbn [apply_inputs] in Eai. cbn [sim_inputs] in Esi.
  assert (Hg2 : get_state l2 sg = Some st2).
  { unfold l2, get_state, put_state, set_accts. cbn [accts]. apply nget_nset_same. }
  rewrite Hg2 in Eai. cbn [of_opt bind] in Eai.
  destruct (bal st2 <? amt) eqn:Hlt; [discriminate Eai|]. cbn [negb guard bind] in Eai. injection Eai as <-.
  apply N.ltb_ge in Hlt.
  set (st3 := mkacct (bal st2 - amt) (nonce st2) (inc st2) (deleg st2)) in *.
  set (l3 := put_state l2 sg st3).
  assert (Hm2 : agree l3 m2).
  { destruct (nget m1 sg) as [s1|] eqn:Es1.
    - pose proof (Hm1 _ _ Es1) as Hs1. rewrite (load_state_some _ _ _ Hg2) in Hs1. subst s1.
      destruct (bal st2 <? amt); [discriminate Esi|]. injection Esi as <-.
      pose proof (agree_put l2 m1 sg st3 Hm1) as Hp. rewrite Es1 in Hp. exact Hp.
    - injection Esi as <-. pose proof (agree_put l2 m1 sg st3 Hm1) as Hp. rewrite Es1 in Hp. exact Hp. }
  (* totals, for the no-overflow premise of the outputs *)
  assert (Ht2 : total_bal l2 = total_bal l).
  { pose proof (total_put_state l sg st2) as Hp. fold l2 in Hp. unfold bal_at in Hp. rewrite Eg in Hp. cbn [fopt bal st2] in Hp. lia. }
  assert (Ht3 : total_bal l3 + amt = total_bal l).
  { pose proof (total_put_state l2 sg st3) as Hp. fold l3 in Hp. unfold bal_at in Hp. rewrite Hg2 in Hp. cbn [fopt bal st3] in Hp.
    lia. }
  cbn [sum_ins fold_right fst] in Hbal.
  destruct (outputs_agree outs l3 m2 0 (tx_id t1) Hm2 Hnp ltac:(lia)) as (A & B & C).
  change (put_state l2 sg {| bal := bal s - amt; nonce := wadd (nonce s) 1; inc := inc s; deleg := deleg s |}) with l3 in *.
  split; [|split; [reflexivity|split; [|split]]].
  - eapply agree_ext; [|exact A]. intros k. reflexivity.
  - cbn [set_txh set_outtx dlgs]. rewrite B. reflexivity.
  - cbn [set_txh set_outtx staked]. rewrite C. reflexivity.
  - lia.
Qed.

Lemma bind_ok {A B} (r : res A) (f : A -> res B) b : bind r f = Ok b -> exists a, r = Ok a /\ f a = Ok b.
Proof. destruct r; cbn; [intros H; eexists; split; [reflexivity|exact H]|discriminate|discriminate]. Qed.

Lemma transfers_agree ts : forall es l l1 m d l0 store txid signer h st',
  Forall is_transfer ts -> entries_of cfg ts = Ok es -> apply_all cfg l ts h = Ok l1 ->
  agree l m -> total_bal l < two64 ->
  sim_entries cfg false l0 store txid signer h (mksim m d) es = Ok st' ->
  agree l1 (s_states st') /\ s_dlgs st' = d /\ dlgs l1 = dlgs l /\ staked l1 = staked l.
Proof.
  induction ts as [|t1 ts IH]; intros es l l1 m d l0 store txid signer h st' Hall He Ha Hm Hb Hs.
  - cbn in He, Ha. injection He as <-. injection Ha as <-. cbn in Hs. injection Hs as <-. repeat split. exact Hm.
  - inversion Hall as [|? ? Ht1 Hall']; subst.
    cbn [entries_of] in He. apply bind_ok in He. destruct He as (e1 & E & He).
    apply bind_ok in He. destruct He as (es' & E0 & He). injection He as <-.
    cbn [apply_all] in Ha. apply bind_ok in Ha. destruct Ha as (l' & E1 & Ha).
    cbn [sim_entries] in Hs. apply bind_ok in Hs. destruct Hs as ([m' d'] & E2 & Hs).
    destruct (transfer_step l t1 e1 h l' m d l0 store txid signer Ht1 E E1 Hm Hb _ E2) as (A & B & C & D & F).
    cbn [s_states s_dlgs] in A, B. subst d'.
    destruct (IH es' l' l1 m' d l0 store txid signer h st' Hall' E0 Ha A ltac:(lia) Hs) as (A' & B' & C' & D').
    repeat split; [exact A'|exact B'|congruence|congruence].
Qed.

(* C09, simulation part, second half: earlier entries that are plain transfers (by any signers, to any recipients,
   including the current signer and delegate addresses), then a transaction of any of the five kinds *)
Theorem simulation_sound_transfers l ts es t h l1 :
  Forall is_transfer ts -> entries_of cfg ts = Ok es -> apply_all cfg l ts h = Ok l1 ->
  total_bal l < two64 ->
  tx_typed t -> wf_tx cfg t -> tx_vsize cfg t <= max_tx_size cfg ->
  get_dlg l 0 = None -> staked l < two64 ->
  (forall id d f, get_dlg l id = Some d -> find_fund (d_funds d) (addr_of_key (tx_signer t)) = Some f -> f_amt f <= staked l) ->
  (forall a id pu, tx_data t = TStake a id pu -> staked l + a < two64) ->
  validate_mempool_tx cfg false l (store_of ts) t es h = Ok tt ->
  exists l2, apply_tx cfg l1 t h 0 (h - 1) = Ok l2.
Proof.
  intros Hall He Ha Hb Hty Hwf Hvs Hd0 Hs64 Hfund Hstk H. unfold validate_mempool_tx in H.
  guard_inv H. pose proof (relay_fee_pos cfg Hok t Hvs G) as Hfee.
  destruct (tx_total cfg t) as [tot|] eqn:Etot; [|discriminate H]. cbn [of_opt bind] in H.
  bind_inv H. guard_inv H. bind_inv H. rename a0 into st.
  destruct (transfers_agree ts es l l1 _ [] l (store_of ts) (tx_id t) (addr_of_key (tx_signer t)) h st Hall He Ha
              (init_states_agree l _ [] ltac:(intros k s Hk; discriminate Hk)) Hb E0) as (A & B & C & D).
  assert (Hgd : forall id, get_dlg l1 id = get_dlg l id) by (intros id; unfold get_dlg; rewrite C; reflexivity).
  eapply (check_current_sound cfg l l1 t h 0 st); try eassumption.
  - congruence.
  - rewrite Hgd. exact Hd0.
  - rewrite D. exact Hs64.
  - intros id d f Hg Hf. rewrite D. rewrite Hgd in Hg. eapply Hfund; eassumption.
  - intros sa sid spu Hdt. rewrite D. eapply Hstk; exact Hdt.
Qed.

End Transfers.

(* ====================================================================================================================
   Part 5: mempool maintenance (the list operations of ApplyBlockToState / RemoveBlockFromState / Mempool.Serialize)     *)
Section Maintenance.
Variable cfg : config.

Lemma prune_spec now_s es e : In e (prune now_s es) <-> In e es /\ now_s <= me_expires e.
Proof. unfold prune. rewrite filter_In. rewrite N.leb_le. reflexivity. Qed.

Lemma has_entry_spec es id : has_entry es id = true <-> exists e, In e es /\ me_id e = id.
Proof.
  unfold has_entry. rewrite existsb_exists. split; intros (e & Hin & He); exists e; (split; [exact Hin|]).
  - apply N.eqb_eq. exact He.
  - apply N.eqb_eq. exact He.
Qed.

Lemma del_entry_in es id e : In e (del_entry es id) -> In e es.
Proof.
  induction es as [|x r IH]; cbn; [intros []|]. destruct (me_id x =? id); [intros H; right; exact H|].
  intros [->|H]; [left; reflexivity|right; apply IH; exact H].
Qed.

Lemma del_entry_nodup es id : NoDup (map me_id es) -> NoDup (map me_id (del_entry es id)).
Proof.
  induction es as [|x r IH]; cbn; intros H; [constructor|]. inversion H as [|? ? Hn Hd]; subst.
  destruct (me_id x =? id); [exact Hd|]. cbn. constructor; [|apply IH; exact Hd].
  intros Hin. apply Hn. apply in_map_iff in Hin. destruct Hin as (e & He & Hin). apply in_map_iff. exists e. split; [exact He|].
  eapply del_entry_in; exact Hin.
Qed.

Lemma del_entry_gone es id e : NoDup (map me_id es) -> In e (del_entry es id) -> me_id e <> id.
Proof.
  induction es as [|x r IH]; cbn; intros Hnd Hin; [destruct Hin|]. inversion Hnd as [|? ? Hn Hd]; subst.
  destruct (N.eqb_spec (me_id x) id) as [Heq|Hne].
  - intros He. apply Hn. apply in_map_iff. exists e. split; [congruence|exact Hin].
  - destruct Hin as [->|Hin]; [exact Hne|apply IH; assumption].
Qed.

(* transactions of a connected block leave the mempool *)
Lemma mp_connect_removes mp b now_s t :
  NoDup (map me_id mp) -> In t (b_txs b) -> has_entry (mp_connect mp b now_s) (tx_id t) = false.
Proof.
  intros Hnd Hin. unfold mp_connect.
  assert (Hg : forall txs mp0, NoDup (map me_id mp0) ->
                 NoDup (map me_id (fold_left (fun m x => del_entry m (tx_id x)) txs mp0)) /\
                 (forall e, In e (fold_left (fun m x => del_entry m (tx_id x)) txs mp0) -> In e mp0) /\
                 (forall x e, In x txs -> In e (fold_left (fun m x => del_entry m (tx_id x)) txs mp0) -> me_id e <> tx_id x)).
  { induction txs as [|x r IH]; intros mp0 H0; cbn [fold_left].
    - split; [exact H0|]. split; [auto|]. intros ? ? [].
    - destruct (IH (del_entry mp0 (tx_id x)) (del_entry_nodup _ _ H0)) as (A & B & C).
      split; [exact A|]. split.
      + intros e He. eapply del_entry_in. apply B. exact He.
      + intros y e [->|Hy] He; [|eapply C; eassumption].
        eapply del_entry_gone; [exact H0|]. apply B. exact He. }
  destruct (Hg (b_txs b) mp Hnd) as (_ & _ & C).
  destruct (has_entry _ _) eqn:Eh; [|reflexivity]. exfalso.
  apply has_entry_spec in Eh. destruct Eh as (e & He & Hid). apply prune_spec in He. destruct He as [He _].
  exact (C t e Hin He Hid).
Qed.

Lemma readd_spec txs : forall mp exp mp',
  readd cfg mp txs exp = Ok mp' ->
  (forall e, In e mp -> In e mp') /\
  (forall t, In t txs -> exists e, In e mp' /\ me_id e = tx_id t /\ (In e mp \/ me_expires e = exp)).
Proof.
  induction txs as [|t r IH]; intros mp exp mp' H; cbn [readd] in H.
  - injection H as <-. split; [auto|]. intros ? [].
  - destruct (has_entry mp (tx_id t)) eqn:Eh.
    + destruct (IH _ _ _ H) as [A B]. split; [exact A|]. intros x [->|Hx]; [|apply B; exact Hx].
      apply has_entry_spec in Eh. destruct Eh as (e & He & Hid). exists e. split; [apply A; exact He|]. split; [exact Hid|left; exact He].
    + apply bind_ok in H. destruct H as (e & Ee & H). destruct (IH _ _ _ H) as [A B]. split.
      * intros x Hx. apply A. apply in_or_app. left. exact Hx.
      * intros x [->|Hx].
        -- exists e. split; [apply A; apply in_or_app; right; left; reflexivity|].
           unfold entry_of_tx in Ee. apply bind_ok in Ee. destruct Ee as (outs & _ & Ee). injection Ee as <-. cbn. split; [reflexivity|right; reflexivity].
        -- destruct (B x Hx) as (e' & He' & Hid & Hor). exists e'. split; [exact He'|]. split; [exact Hid|].
           destruct Hor as [Hor|Hor]; [|right; exact Hor]. apply in_app_or in Hor. destruct Hor as [Hor|[<-|[]]]; [left; exact Hor|].
           right. unfold entry_of_tx in Ee. apply bind_ok in Ee. destruct Ee as (outs & _ & Ee). injection Ee as <-. reflexivity.
Qed.

(* transactions of a disconnected block that are not pending come back (with a fresh expiry time) *)
Lemma mp_disconnect_returns mp b now_s exp mp' t :
  mp_disconnect cfg mp b now_s exp = Ok mp' -> In t (b_txs b) -> has_entry mp (tx_id t) = false ->
  has_entry mp' (tx_id t) = true.
Proof.
  unfold mp_disconnect. intros H Hin Hno. destruct (b_txs b) as [|t0 r] eqn:Eb; [destruct Hin|].
  apply bind_ok in H. destruct H as (mp1 & Hr & H). injection H as <-.
  destruct (readd_spec _ _ _ _ Hr) as [_ B]. destruct (B t Hin) as (e & He & Hid & Hor).
  apply has_entry_spec. exists e. split; [|exact Hid]. apply prune_spec. split; [exact He|].
  destruct Hor as [Hor|Hex]; [|rewrite Hex; lia].
  exfalso. assert (has_entry mp (tx_id t) = true) by (apply has_entry_spec; exists e; split; assumption). congruence.
Qed.

End Maintenance.
