(* No decoder of Model/Codec.v panics; allocation bounds with explicit constants. *)
From Virel Require Import Lib.Config Lib.U64 Model.Des Model.Codec Proofs.Des Proofs.DesSafe Proofs.Codec.
Open Scope N_scope.

Lemma safe_bind' L {A Bt} (m : M A) (f : A -> M Bt) (P : A -> Prop) (Q : Bt -> Prop) c1 c :
  c1 <= c -> safe L m P c1 -> (forall a, P a -> safe L (f a) Q (c - c1)) -> safe L (bind m f) Q c.
Proof. intros Hc Hm Hf. apply (safe_bind L m f P Q c1 (c - c1) c); [lia|assumption|assumption]. Qed.

(* one step of symbolic execution of a decoder under [safe]; allocation of each primitive is charged when met *)
Ltac sstep0 :=
  lazymatch goal with
  | |- safe _ (bind (read_fixed ?n) _) _ _ =>
      eapply (safe_bind' _ _ _ _ _ n); [try lia | apply safe_read_fixed; lia | intros ? ?]
  | |- safe _ (bind (to_array ?n ?b) _) _ _ =>
      eapply (safe_bind' _ _ _ _ _ 0); [lia | apply safe_to_array; lia | intros ? ?]
  | |- safe _ (bind read_uvarint _) _ _ =>
      eapply (safe_bind' _ _ _ _ _ 0); [lia | apply safe_read_uvarint | intros ? ?]
  | |- safe _ (bind read_u8 _) _ _ =>
      eapply (safe_bind' _ _ _ _ _ 0); [lia | apply safe_read_u8 | intros ? _]
  | |- safe _ (bind (read_le _) _) _ _ =>
      eapply (safe_bind' _ _ _ _ _ 0); [lia | apply safe_read_le | intros ? _]
  | |- safe _ (bind read_u16 _) _ _ => unfold read_u16
  | |- safe _ (bind read_u32 _) _ _ => unfold read_u32
  | |- safe _ (bind read_u64 _) _ _ => unfold read_u64
  | |- safe _ (bind read_byte_slice _) _ _ => unfold read_byte_slice
  | |- safe _ (bind (read_byte_slice_gen true) _) _ _ =>
      eapply (safe_bind' _ _ _ _ _ 0); [lia | apply safe_read_byte_slice | intros ? ?]
  | |- safe _ (bind remaining _) _ _ =>
      eapply (safe_bind' _ _ _ _ _ 0); [lia | apply safe_remaining | intros ? ?]
  | |- safe _ (bind check_err _) _ _ =>
      eapply (safe_bind' _ _ _ _ _ 0); [lia | apply safe_check_err | intros _ _]
  | |- safe _ (bind (ret _) _) _ _ =>
      eapply (safe_bind' _ _ _ _ _ 0); [lia | apply (safe_ret _ _ (fun _ => True)); exact I | intros ? _]
  | |- safe _ (ret _) _ _ => apply safe_ret
  | |- safe _ fail _ _ => apply safe_fail
  | |- safe _ (ret_err _) _ _ => apply safe_ret_err
  | |- safe _ (if ?b then _ else _) _ _ => destruct b eqn:?
  end.
Ltac sstep := sstep0; cbv beta in *.

Section CodecSafe.
Variable cfg : config.
Hypothesis Hok : cfg_ok_codec cfg = true.
Variable L : N.

Notation T := (fun _ => True).

Lemma safe_dec_output : safe L (dec_output cfg) T 22.
Proof.
  destruct (ok_consts cfg Hok) as (_ & Ha & _). unfold dec_output. rewrite Ha.
  repeat sstep. exact I.
Qed.

Definition C_TXDATA : N := (SZ_OUTPUT + 22) * max_outputs cfg.

Lemma safe_dec_transfer : safe L (dec_transfer cfg) T C_TXDATA.
Proof.
  unfold dec_transfer, C_TXDATA. sstep. sstep; [sstep|].
  apply orb_false_elim in Heqb. destruct Heqb as [Hmax _]. apply N.ltb_ge in Hmax.
  eapply (safe_bind' _ _ _ _ _ (SZ_OUTPUT * a)); [nia | apply safe_alloc; lia | intros _ _].
  eapply (safe_bind' _ _ _ _ _ (N.of_nat (N.to_nat a) * 22)); [nia | apply safe_rep, safe_dec_output | intros ? _].
  sstep. exact I.
Qed.

Lemma safe_dec_register : safe L dec_register T 0.
Proof. unfold dec_register, read_byte_slice. repeat sstep. exact I. Qed.
Lemma safe_dec_set_delegate : safe L dec_set_delegate T 0.
Proof. unfold dec_set_delegate. repeat sstep. exact I. Qed.
Lemma safe_dec_stake : safe L dec_stake T 0.
Proof. unfold dec_stake. repeat sstep. exact I. Qed.
Lemma safe_dec_unstake : safe L dec_unstake T 0.
Proof. unfold dec_unstake. repeat sstep. exact I. Qed.

Definition C_TX : N := 96 + C_TXDATA.

Lemma safe_dec_tx hv : safe L (dec_tx cfg hv) T C_TX.
Proof.
  destruct (ok_consts cfg Hok) as (_ & _ & Hp & Hs & _). unfold dec_tx, C_TX. rewrite Hp, Hs.
  eapply (safe_bind' _ _ _ (fun _ => True) _ 0); [lia | | intros ver _].
  { destruct hv; [|apply safe_ret; exact I]. repeat sstep; exact I. }
  do 4 sstep.
  eapply (safe_bind' _ _ _ (fun _ => True) _ C_TXDATA); [lia | | intros d _].
  { repeat match goal with |- safe _ (if ?b then _ else _) _ _ => destruct b end.
    - apply safe_dec_transfer.
    - eapply safe_weaken; [apply safe_dec_register|auto|lia].
    - eapply safe_weaken; [apply safe_dec_set_delegate|auto|lia].
    - eapply safe_weaken; [apply safe_dec_stake|auto|lia].
    - eapply safe_weaken; [apply safe_dec_unstake|auto|lia].
    - apply safe_fail. }
  repeat sstep. exact I.
Qed.

Lemma safe_dec_fund : safe L (dec_fund cfg) T (SZ_FUND + 22).
Proof.
  destruct (ok_consts cfg Hok) as (_ & Ha & _). unfold dec_fund. rewrite Ha.
  eapply (safe_bind' _ _ _ _ _ SZ_FUND); [lia | apply safe_alloc; lia | intros _ _].
  repeat sstep. exact I.
Qed.

(* Delegate: pointer slice + one fund object (and possibly one zero owner array) per announced fund,
   at most len/20 funds *)
Definition C_DELEGATE : N := 32 + (SZ_PTR + SZ_FUND + 22) * (L / 20).

Lemma safe_dec_delegate : safe L (dec_delegate cfg) T C_DELEGATE.
Proof.
  destruct (ok_consts cfg Hok) as (_ & _ & Hp & _). unfold dec_delegate, C_DELEGATE, read_byte_slice. rewrite Hp.
  sstep. sstep; [sstep|]. do 6 sstep. sstep; [sstep|].
  apply N.ltb_ge in Heqb0.
  assert (Hnf : a4 <= L / 20).
  { eapply N.le_trans; [exact Heqb0|]. apply N.div_le_mono; [discriminate|assumption]. }
  clear Heqb0. generalize dependent (L / 20). intros q Hq.
  eapply (safe_bind' _ _ _ _ _ (SZ_PTR * a4)); [unfold SZ_PTR, SZ_FUND in *; nia | apply safe_alloc; lia | intros _ _].
  eapply (safe_bind' _ _ _ _ _ (N.of_nat (N.to_nat a4) * (SZ_FUND + 22))); [unfold SZ_PTR, SZ_FUND in *; nia | apply safe_rep, safe_dec_fund | intros ? _].
  sstep. exact I.
Qed.

End CodecSafe.

Lemma safe_dec_state L : safe L dec_state (fun _ => True) 0.
Proof. unfold dec_state. repeat sstep; exact I. Qed.

(* ---- statements over whole byte strings *)

Theorem uvarint_no_panic bs :
  result_of (run (x <- read_uvarint ;; ret_err x) bs) <> RPanic /\ alloc_of (run (x <- read_uvarint ;; ret_err x) bs) <= 0.
Proof.
  apply (safe_run (blen bs) _ (fun _ => True)); [lia|]. repeat sstep. exact I.
Qed.

Theorem byte_slice_no_panic bs :
  result_of (run (x <- read_byte_slice ;; ret_err x) bs) <> RPanic /\ alloc_of (run (x <- read_byte_slice ;; ret_err x) bs) <= 0.
Proof.
  apply (safe_run (blen bs) _ (fun _ => True)); [lia|]. unfold read_byte_slice. repeat sstep. exact I.
Qed.

Theorem tx_no_panic cfg (Hok : cfg_ok_codec cfg = true) hv bs :
  result_of (run (dec_tx cfg hv) bs) <> RPanic /\ alloc_of (run (dec_tx cfg hv) bs) <= C_TX cfg.
Proof. apply (safe_run (blen bs) _ (fun _ => True)); [lia|]. apply safe_dec_tx. exact Hok. Qed.

Theorem state_no_panic bs :
  result_of (run dec_state bs) <> RPanic /\ alloc_of (run dec_state bs) <= 0.
Proof. apply (safe_run (blen bs) _ (fun _ => True)); [lia|]. apply safe_dec_state. Qed.

Theorem delegate_no_panic cfg (Hok : cfg_ok_codec cfg = true) bs :
  result_of (run (dec_delegate cfg) bs) <> RPanic /\ alloc_of (run (dec_delegate cfg) bs) <= 4 * blen bs + 32.
Proof.
  destruct (safe_run (blen bs) (dec_delegate cfg) (fun _ => True) (C_DELEGATE (blen bs)) bs) as [H1 H2];
    [lia | apply safe_dec_delegate; exact Hok | ].
  split; [exact H1|]. unfold C_DELEGATE, SZ_PTR, SZ_FUND in H2.
  pose proof (N.mul_div_le (blen bs) 20 ltac:(discriminate)). lia.
Qed.
