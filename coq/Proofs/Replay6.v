(* Property C03 / C10: the premises of "the ledger is the replay of the main chain" (Proofs/Replay5.v) are satisfiable -
   they hold for the history of Proofs/ChainExamples.v that reorganises from the chain G-A1-A2-A3 to the heavier chain
   G-B-D (three blocks disconnected, two connected).  For stores whose blocks carry no transactions the premise on the
   chains of stored blocks follows from the chain structure: hashes along a chain are distinct because heights grow. *)
From Coq Require Import Sorting.Sorted.
From Virel Require Import Lib.Config Lib.U64 Lib.AMap Lib.CheckLib Model.Emission Model.Ledger Model.Node Spec.Chain Spec.Rules
  Proofs.AMapLemmas Proofs.Emission Proofs.Conservation Proofs.Pointwise Proofs.Refine Proofs.Staking Proofs.StakedSum
  Proofs.Refine2 Proofs.NodeBasics Proofs.ForkChoice Proofs.Restart Proofs.ChainInv Proofs.ChainRun Proofs.ChainHeights
  Proofs.ChainExamples Proofs.Undo Proofs.Undo2 Proofs.Undo4 Proofs.Replay1 Proofs.Replay2 Proofs.Replay3 Proofs.Replay4
  Proofs.Replay5 Gen.Params.
Open Scope N_scope.
Open Scope bool_scope.

Lemma up_heights_grow gh bl r : forall x xb, BInv gh bl -> nget bl x = Some xb -> up gh bl x r ->
  (forall c, In c r -> b_height xb < b_height c) /\ NoDup (map b_hash r) /\ N.of_nat (length r) < N.of_nat (length bl).
Proof.
  induction r as [|c r IH]; intros x xb HB Hx; cbn [up In map length].
  - intros _. split; [intros c []|]. split; [constructor|]. destruct HB as (_ & _ & _ & Hb). pose proof (Hb _ _ Hx). lia.
  - intros (Hc & Hp & Hn & Hr).
    assert (Hh : b_height c = b_height xb + 1).
    { destruct HB as (_ & _ & Hpar & _). destruct (Hpar _ _ Hc Hn) as (p & Hpp & Hph).
      rewrite Hp, Hx in Hpp. injection Hpp as <-. exact Hph. }
    destruct (IH (b_hash c) c HB Hc Hr) as (I1 & I2 & I3).
    split; [intros d [<-|Hd]; [lia|specialize (I1 d Hd); lia]|]. split.
    + constructor; [|exact I2]. intros Hin. apply in_map_iff in Hin. destruct Hin as (d & Hdh & Hd).
      pose proof (up_stored gh bl r _ d Hr Hd) as Hds. rewrite Hdh, Hc in Hds. injection Hds as <-.
      specialize (I1 c Hd). lia.
    + (* the last block of the path has height = height of xb + length, below the size of the store *)
      assert (Hl : exists lb', nget bl (last_hash x (c :: r)) = Some lb').
      { clear - Hc Hr. unfold last_hash. cbn [fold_left]. fold (last_hash (b_hash c) r).
        revert c Hc Hr. induction r as [|d r IHr]; intros c Hc Hr; [exists c; exact Hc|].
        cbn [up] in Hr. destruct Hr as (Hd & _ & _ & Hr). unfold last_hash. cbn [fold_left]. apply (IHr d Hd Hr). }
      destruct Hl as (lb' & Hl).
      pose proof (up_last_height gh bl (c :: r) x xb lb' HB Hx ltac:(cbn [up]; repeat split; assumption) Hl) as Hlh.
      destruct HB as (_ & _ & _ & Hb). pose proof (Hb _ _ Hl). cbn [length] in Hlh. lia.
Qed.

Lemma up_not_genesis gh bl r : forall x d, up gh bl x r -> In d r -> b_hash d <> gh.
Proof.
  induction r as [|c r IH]; intros x d; cbn [up In]; [intros _ []|].
  intros (_ & _ & Hn & Hr) [<-|Hin]; [exact Hn|apply (IH _ _ Hr Hin)].
Qed.

Lemma paths_txfree g bl :
  BInv (b_hash g) bl -> nget bl (b_hash g) = Some g -> (forall h b, nget bl h = Some b -> b_txs b = []) ->
  c0 g + 4 * N.of_nat (length bl) < two64 ->
  forall bs, up (b_hash g) bl (b_hash g) bs ->
    NoDup (bkeys g ++ flat_map bkeys bs) /\ c0 g + bnouts bs < two64 /\ c0 g + bntx bs < two64.
Proof.
  intros HB Hg Hnt Hc bs Hup.
  destruct (up_heights_grow _ _ bs _ g HB Hg Hup) as (_ & Hnd & Hlen).
  assert (Hfm : flat_map bkeys bs = map b_hash bs /\ bnouts bs = 4 * N.of_nat (length bs) /\ bntx bs = 0).
  { clear Hnd Hlen. assert (Hall : forall c, In c bs -> b_txs c = []) by (intros c Hin; apply (Hnt (b_hash c)); apply (up_stored _ _ _ _ _ Hup Hin)).
    clear Hup. induction bs as [|c bs IH]; [repeat split|].
    destruct IH as (I1 & I2 & I3); [intros d Hd; apply Hall; right; exact Hd|].
    cbn [flat_map map bnouts bntx fold_right length]. fold (bnouts bs). fold (bntx bs).
    unfold bkeys at 1. rewrite (Hall c (or_introl eq_refl)). cbn [map app length nouts_sum fold_right]. rewrite I1, I2, I3.
    split; [reflexivity|]. split; lia. }
  destruct Hfm as (-> & -> & ->). unfold bkeys. rewrite (Hnt _ _ Hg). cbn [map app].
  split; [|split; lia]. constructor; [|exact Hnd].
  intros Hin. apply in_map_iff in Hin. destruct Hin as (d & Hdh & Hd).
  exact (up_not_genesis _ _ _ _ _ Hup Hd Hdh).
Qed.

(* the reorganising history of Proofs/ChainExamples.v satisfies every premise, hence its final ledger is the replay of
   the chain G-B-D *)
Definition ex_n0 : node :=
  Eval vm_compute in match node0 cfg_verifnet 7 w_genesis with Ok n => n | _ => mknode [] [] 0 0 0 [] ledger0 end.
Definition ex_n : node := Eval vm_compute in run cfg_verifnet 7 0 ex_n0 sr_ops.

Lemma ex_n0_eq : node0 cfg_verifnet 7 w_genesis = Ok ex_n0. Proof. vm_compute. reflexivity. Qed.
Lemma ex_n_eq : run cfg_verifnet 7 0 ex_n0 sr_ops = ex_n. Proof. vm_compute. reflexivity. Qed.

Theorem replay_premises_satisfiable :
  node0 cfg_verifnet 7 w_genesis = Ok ex_n0 /\
  let n := run cfg_verifnet 7 0 ex_n0 sr_ops in
  cfg_ok_emission cfg_verifnet = true /\ cfg_ok_feepos cfg_verifnet = true /\
  b_height w_genesis = 0 /\ b_cd w_genesis = b_diff w_genesis /\ N.of_nat (length sr_ops) < two64 - 1 /\
  Forall (tx_c cfg_verifnet) (b_txs w_genesis) /\
  (forall h b, get_block n h = Some b -> Forall (fun t => wf_tx cfg_verifnet t /\ ver_ok t = true) (b_txs b)) /\
  (forall bs, up (b_hash w_genesis) (blocks n) (b_hash w_genesis) bs ->
     NoDup (bkeys w_genesis ++ flat_map bkeys bs) /\ c0 w_genesis + bnouts bs < two64 /\ c0 w_genesis + bntx bs < two64) /\
  map b_hash (mchain n) = [4; 6] /\
  exists lr, apply_chain cfg_verifnet 7 (ldg ex_n0) (lbs n (mchain n)) = Ok lr /\
    same_accounts (ldg n) lr /\ dlgs (ldg n) = dlgs lr /\ staked (ldg n) = staked lr.
Proof.
  split; [exact ex_n0_eq|]. cbn zeta.
  pose proof ex_n0_eq as H0.
  assert (Hg0 : b_height w_genesis = 0) by reflexivity.
  assert (Hcd : b_cd w_genesis = b_diff w_genesis) by reflexivity.
  assert (Hlen : N.of_nat (length sr_ops) < two64 - 1) by (vm_compute; reflexivity).
  assert (Hok : cfg_ok_emission cfg_verifnet = true) by (vm_compute; reflexivity).
  assert (Hfp : cfg_ok_feepos cfg_verifnet = true) by (vm_compute; reflexivity).
  destruct (reachable_invariants cfg_verifnet 7 0 w_genesis ex_n0 sr_ops H0 Hg0 Hcd Hlen) as ((HB & _) & _).
  rewrite ex_n_eq in *.
  assert (Hnt : forall h b, nget (blocks ex_n) h = Some b -> b_txs b = []).
  { assert (Hall : forallb (fun kb : N * block => match b_txs (snd kb) with [] => true | _ => false end) (blocks ex_n) = true)
      by (vm_compute; reflexivity).
    intros h b Hb. apply nget_in in Hb. rewrite forallb_forall in Hall. specialize (Hall _ Hb). cbn [snd] in Hall.
    destruct (b_txs b); [reflexivity|discriminate]. }
  assert (Hgg : nget (blocks ex_n) (b_hash w_genesis) = Some w_genesis) by (vm_compute; reflexivity).
  assert (Hgen : Forall (tx_c cfg_verifnet) (b_txs w_genesis)) by constructor.
  assert (Htyped : forall h b, get_block ex_n h = Some b -> Forall (fun t => wf_tx cfg_verifnet t /\ ver_ok t = true) (b_txs b)).
  { intros h b Hb. unfold get_block in Hb. rewrite (Hnt h b Hb). constructor. }
  assert (Hpaths : forall bs, up (b_hash w_genesis) (blocks ex_n) (b_hash w_genesis) bs ->
       NoDup (bkeys w_genesis ++ flat_map bkeys bs) /\ c0 w_genesis + bnouts bs < two64 /\ c0 w_genesis + bntx bs < two64).
  { apply paths_txfree; [exact HB|exact Hgg|exact Hnt|vm_compute; reflexivity]. }
  split; [exact Hok|]. split; [exact Hfp|]. split; [exact Hg0|]. split; [exact Hcd|]. split; [exact Hlen|].
  split; [exact Hgen|]. split; [exact Htyped|]. split; [exact Hpaths|]. split; [vm_compute; reflexivity|].
  pose proof (ledger_is_replay_validated cfg_verifnet 7 0 w_genesis ex_n0 sr_ops Hok Hfp H0 Hg0 Hcd Hlen) as Hthm.
  cbn zeta in Hthm. rewrite ex_n_eq in Hthm. exact (Hthm Hgen Htyped Hpaths).
Qed.
