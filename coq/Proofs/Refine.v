(* Property C02 (refinement of the code's transcription to the declarative rules of Spec/Rules.v), transfers:
   whenever the model of ApplyTxToState accepts a stateless-valid transfer, the rules admit it and prescribe exactly
   the same accounts, delegate table and staked total; so anything the rules refuse leaves the ledger untouched. *)
From Virel Require Import Lib.Config Lib.U64 Lib.AMap Lib.CheckLib Model.Emission Model.Ledger Spec.Rules
  Proofs.AMapLemmas Proofs.Conservation Proofs.Pointwise.
Open Scope N_scope.
Open Scope bool_scope.

Section Refine.
Variable cfg : config.
Variable team_key : N.

Lemma acct_of_eq l a : acct_of l a = acct_at l a.
Proof. reflexivity. Qed.

Lemma acct_at_credit l a amt id a' :
  acct_at (credit l a amt id) a' =
  if a' =? a then mkacct (bal (acct_at l a) + amt) (nonce (acct_at l a)) (inc (acct_at l a) + 1) (deleg (acct_at l a))
  else acct_at l a'.
Proof.
  unfold credit. rewrite acct_at_set_intx_gen. rewrite acct_at_put. reflexivity.
Qed.

Lemma acct_at_debit l a amt a' :
  acct_at (debit l a amt) a' =
  if a' =? a then mkacct (bal (acct_at l a) - amt) (nonce (acct_at l a)) (inc (acct_at l a)) (deleg (acct_at l a))
  else acct_at l a'.
Proof. unfold debit. rewrite acct_at_put. reflexivity. Qed.

Lemma fold_credit_pointwise outs : forall l id a,
  acct_at (fold_left (fun l (o : N * N) => credit l (fst o) (snd o) id) outs l) a =
  mkacct (bal (acct_at l a) + out_sum (map (fun o : N * N => mksout OUT_NORMAL (snd o) (fst o) 0) outs) a)
         (nonce (acct_at l a))
         (inc (acct_at l a) + out_cnt (map (fun o : N * N => mksout OUT_NORMAL (snd o) (fst o) 0) outs) a)
         (deleg (acct_at l a)).
Proof.
  induction outs as [|o outs IH]; intros l id a; cbn [fold_left map out_sum out_cnt fold_right].
  - destruct (acct_at l a); cbn. f_equal; lia.
  - rewrite IH, acct_at_credit. cbn [o_rcpt o_amt].
    fold (out_sum (map (fun o0 : N * N => mksout OUT_NORMAL (snd o0) (fst o0) 0) outs) a).
    fold (out_cnt (map (fun o0 : N * N => mksout OUT_NORMAL (snd o0) (fst o0) 0) outs) a).
    destruct (N.eqb_spec a (fst o)) as [->|Hne].
    + rewrite N.eqb_refl. cbn [bal nonce inc deleg]. f_equal; lia.
    + destruct (N.eqb_spec (fst o) a); [congruence|]. reflexivity.
Qed.

Lemma fold_credit_frame outs : forall l id,
  dlgs (fold_left (fun l (o : N * N) => credit l (fst o) (snd o) id) outs l) = dlgs l /\
  staked (fold_left (fun l (o : N * N) => credit l (fst o) (snd o) id) outs l) = staked l.
Proof.
  induction outs as [|o outs IH]; intros l id; cbn [fold_left]; [split; reflexivity|].
  destruct (IH (credit l (fst o) (snd o) id) id) as [A B]. rewrite A, B. split; reflexivity.
Qed.

Lemma sum_amounts_of_eq outs : forall s, fold_left (fun s (o : N * N) => s + snd o) outs s = s + fold_right (fun o acc => snd o + acc) 0 outs.
Proof. induction outs as [|o outs IH]; intros s; cbn; [lia|]. rewrite IH. lia. Qed.

(* constants: the minimum fee of a transaction of maximal size fits 64 bits *)
Definition cfg_ok_fee : bool :=
  (fee_per_byte cfg * max_tx_size cfg <? two64) && (fee_per_byte_v2 cfg * max_tx_size cfg <? two64).

Theorem transfer_refines l t outs0 h bh top_h l1 :
  cfg_ok_fee = true ->
  tx_data t = TTransfer outs0 -> (tx_version t = 0 \/ tx_version t = 1) ->
  total_bal l < two64 -> wf_tx cfg t ->
  (forall a, inc (acct_at l a) + N.of_nat (length outs0) < two64) ->
  nonce (acct_at l (addr_of_key (tx_signer t))) + 1 < two64 ->
  prevalidate_tx cfg team_key t h = Ok tt ->
  apply_tx cfg l t h bh top_h = Ok l1 ->
  let '(c, ls) := spec_tx cfg team_key l t h in
  c = 0 /\ same_accounts l1 ls /\ dlgs l1 = dlgs ls /\ staked l1 = staked ls.
Proof.
  intros Hcfg Hd Hver Hb Hwf Hinc Hnonce Hpre Happ.
  unfold cfg_ok_fee in Hcfg. apply Bool.andb_true_iff in Hcfg. destruct Hcfg as [Hf1 Hf2].
  apply N.ltb_lt in Hf1, Hf2.
  (* what stateless validation gives *)
  unfold prevalidate_tx in Hpre.
  guard_inv Hpre. guard_inv Hpre. guard_inv Hpre. guard_inv Hpre. guard_inv Hpre.
  rewrite Hd in Hpre. guard_inv Hpre. opt_inv Hpre. rename x into tot. clear Hpre.
  apply N.leb_le in G.
  (* what the application gives *)
  pose proof Happ as Happ0.
  unfold apply_tx in Happ. set (signer := addr_of_key (tx_signer t)) in *.
  opt_inv Happ. guard_inv Happ. apply N.eqb_eq in G5.
  assert (Hx : acct_at l signer = x) by (unfold acct_at; rewrite E0; reflexivity).
  rewrite Hx in Hnonce. rewrite wadd_small in G5 by exact Hnonce.
  rewrite Hd in Happ. cbn [bind] in Happ.
  set (st2 := mkacct (bal x) (wadd (nonce x) 1) (inc x) (deleg x)) in *.
  set (l2 := put_state l signer st2) in *.
  bind_inv Happ. bind_inv Happ. injection Happ as <-.
  rename a into l3. rename a0 into outs.
  assert (Houts : outs = map (fun o : N * N => mksout OUT_NORMAL (snd o) (fst o) 0) outs0).
  { unfold state_outputs in E2. rewrite Hd in E2. injection E2 as <-. reflexivity. }
  destruct (ins_outs_balance cfg t signer tot outs Hwf E E2) as (Hbal & Hin64 & Hnp).
  pose proof (apply_inputs_total _ _ _ E1) as Hin.
  destruct (apply_inputs_pointwise _ _ _ E1) as (P1 & P2 & P3 & P4 & P5 & P6 & P7).
  assert (Ht2 : total_bal l2 = total_bal l).
  { pose proof (total_put_state l signer st2) as Hp. fold l2 in Hp.
    unfold bal_at in Hp. rewrite E0 in Hp. cbn [fopt bal st2] in Hp. lia. }
  assert (Hacct2 : forall a, acct_at l2 a = if a =? signer then st2 else acct_at l a).
  { intros a. unfold l2. apply acct_at_put. }
  pose proof (apply_outputs_noerr outs l3 bh (tx_id t) ltac:(lia) Hnp) as Hne.
  destruct (apply_outputs l3 bh outs (tx_id t)) as [l4 e] eqn:Eao. cbn [snd fst] in *. subst e.
  assert (Hcnt : forall a, out_cnt outs a <= N.of_nat (length outs0)).
  { intros a. rewrite Houts. clear. induction outs0 as [|o os IH]; cbn [map out_cnt fold_right length]; [lia|].
    fold (out_cnt (map (fun o0 : N * N => mksout OUT_NORMAL (snd o0) (fst o0) 0) os) a).
    cbn [o_rcpt]. destruct (fst o =? a); lia. }
  assert (Hinc3 : forall a, inc (acct_at l3 a) + out_cnt outs a < two64).
  { intros a. rewrite P1. cbn [inc]. rewrite Hacct2. specialize (Hinc a). specialize (Hcnt a).
    destruct (N.eqb_spec a signer) as [Ea|_]; [rewrite Ea in Hinc; rewrite Hx in Hinc; cbn [inc st2]; lia|lia]. }
  destruct (apply_outputs_pointwise outs l3 bh (tx_id t) l4 Hnp ltac:(lia) Hinc3 Eao) as (A1 & A2 & A3 & A4 & A5 & A6).
  (* the amounts *)
  assert (Hsum : sum_outs outs0 0 <> None /\ exists s, sum_outs outs0 0 = Some s /\ s = sum_amounts_of outs0 /\ s + tx_fee t < two64 /\
                 sum_ins (state_inputs cfg t signer) = s + tx_fee t).
  { unfold tx_total, data_total in E. rewrite Hd in E.
    destruct (sum_outs outs0 0) as [s|] eqn:Es; [|discriminate]. split; [discriminate|]. exists s. split; [reflexivity|].
    destruct Hwf as (Hfee & Hwd & _). rewrite Hd in Hwd. cbn [wf_data] in Hwd.
    destruct (sum_outs_exact outs0 0 s ltac:(reflexivity) Hwd Es) as [Hs Hs64].
    destruct (wadd s (tx_fee t) <? s) eqn:Ec; [discriminate|].
    destruct (wadd_nowrap_of_check s (tx_fee t) Hs64 Hfee Ec) as [Hw Hw64].
    split; [unfold sum_amounts_of; rewrite sum_amounts_of_eq; lia|]. split; [exact Hw64|].
    unfold state_inputs. rewrite Hd, Es. cbn [sum_ins fold_right fst]. rewrite Hw. lia. }
  destruct Hsum as (_ & s & Es & Hs & Hs64 & Hins).
  assert (Hinsum : forall a, in_sum (state_inputs cfg t signer) a = if a =? signer then s + tx_fee t else 0).
  { intros a. unfold state_inputs. rewrite Hd, Es. cbn [in_sum fold_right fst snd].
    rewrite wadd_small by exact Hs64. rewrite (N.eqb_sym signer a). destruct (a =? signer); lia. }
  (* ---- the rules ---- *)
  unfold spec_tx. fold signer.
  assert (Hpc : pre_common cfg l t h = 0).
  { unfold pre_common. fold signer. cbn [first_fail].
    unfold sig_valid in G3. rewrite G3.
    unfold get_state in E0. unfold get_state. rewrite E0.
    change acct_of with acct_at. rewrite Hx, G5, N.eqb_refl.
    assert (Hfee : (min_fee cfg t h <=? tx_fee t) = true).
    { apply N.leb_le. unfold min_fee. apply N.leb_le in G2.
      assert (Hv : tx_vsize cfg t <= max_tx_size cfg) by exact G.
      set (rate := if hf_v3 cfg <=? h then fee_per_byte_v2 cfg else fee_per_byte cfg) in *.
      assert (Hr : rate * tx_vsize cfg t < two64).
      { unfold rate. destruct (hf_v3 cfg <=? h); nia. }
      rewrite wmul_small in G2 by exact Hr. exact G2. }
    rewrite Hfee. apply N.leb_le in G. rewrite G. rewrite G0, G1. cbn [negb].
    rewrite Hd. cbn [data_version].
    destruct Hver as [Hv|Hv]; rewrite Hv; cbn; reflexivity. }
  rewrite Hpc. cbn [negb N.eqb]. rewrite Hd.
  change acct_of with acct_at. rewrite Hx.
  assert (Hc11 : ((1 <=? N.of_nat (length outs0)) && (N.of_nat (length outs0) <=? max_outputs cfg)) = true).
  { apply Bool.andb_true_iff in G4. destruct G4 as [Ga Gb]. rewrite Gb, Bool.andb_true_r.
    apply Bool.negb_true_iff in Ga. apply N.eqb_neq in Ga. apply N.leb_le. lia. }
  assert (Hc13 : (sum_amounts_of outs0 + tx_fee t <=? bal x) = true).
  { apply N.leb_le. specialize (P2 signer). rewrite Hinsum, N.eqb_refl, Hacct2, N.eqb_refl in P2. cbn [bal st2] in P2. lia. }
  cbn [first_fail]. rewrite Hc11, Hc13.
  assert (Hc12 : (sum_amounts_of outs0 + tx_fee t <? two64) = true) by (apply N.ltb_lt; lia).
  rewrite Hc12. cbn [negb N.eqb].
  split; [reflexivity|].
  match goal with |- same_accounts _ ?ls /\ _ => set (lsf := ls) end.
  split; [|split].
  - intros a. unfold lsf. rewrite fold_credit_pointwise. rewrite <- Houts.
    (* model side *)
    rewrite acct_at_set_txh_gen, acct_at_set_outtx_gen, A1, P1. cbn [bal nonce inc deleg].
    rewrite Hacct2, Hinsum.
    (* spec side: debit (bump l) *)
    rewrite acct_at_debit.
    rewrite !acct_at_set_txh_gen, !acct_at_set_outtx_gen, !acct_at_put.
    change acct_of with acct_at. rewrite N.eqb_refl. rewrite ?Hx. cbn [bal nonce inc deleg].
    destruct (N.eqb_spec a signer) as [Ea|Hne].
    + cbn [bal nonce inc deleg st2]. rewrite wadd_small by exact Hnonce. rewrite <- Hs. f_equal; lia.
    + f_equal; lia.
  - unfold lsf.
    match goal with |- _ = dlgs (fold_left _ outs0 ?l0) =>
      destruct (fold_credit_frame outs0 l0 (tx_id t)) as [Fd Fs]; rewrite Fd end.
    cbn [debit put_state set_accts set_txh set_outtx dlgs]. rewrite A2, P3. reflexivity.
  - unfold lsf.
    match goal with |- _ = staked (fold_left _ outs0 ?l0) =>
      destruct (fold_credit_frame outs0 l0 (tx_id t)) as [Fd Fs]; rewrite Fs end.
    cbn [debit put_state set_accts set_txh set_outtx staked]. rewrite A3, P4. reflexivity.
Qed.

End Refine.

(* what stateless validation guarantees for every kind of transaction: signed by the signer's own key over this very
   content for this network, fee at least the minimum, size within the limit *)
Lemma prevalidate_authorised cfg team_key t h :
  prevalidate_tx cfg team_key t h = Ok tt ->
  tx_sig_by t = tx_signer t /\ tx_sig_by t <> 0 /\ tx_sig_msg t = true /\
  wmul (if hf_v3 cfg <=? h then fee_per_byte_v2 cfg else fee_per_byte cfg) (tx_vsize cfg t) <= tx_fee t /\
  tx_vsize cfg t <= max_tx_size cfg /\ tx_total cfg t <> None.
Proof.
  unfold prevalidate_tx. intros H.
  guard_inv H. guard_inv H. guard_inv H. guard_inv H. guard_inv H. bind_inv H. opt_inv H.
  unfold sig_valid in G3. apply Bool.andb_true_iff in G3. destruct G3 as [G3 Gm].
  apply Bool.andb_true_iff in G3. destruct G3 as [Gk Gz].
  apply N.eqb_eq in Gk. apply Bool.negb_true_iff in Gz. apply N.eqb_neq in Gz.
  apply N.leb_le in G, G2. repeat split; try assumption. discriminate.
Qed.

(* every kind: the application itself demands the account's next nonce and an existing account *)
Lemma apply_tx_next_nonce cfg l t h bh top_h l' :
  apply_tx cfg l t h bh top_h = Ok l' ->
  exists st, get_state l (addr_of_key (tx_signer t)) = Some st /\ tx_nonce t = wadd (nonce st) 1.
Proof.
  unfold apply_tx. intros H. opt_inv H. guard_inv H. apply N.eqb_eq in G.
  exists x. split; [reflexivity|exact G].
Qed.
