(* Proofs about the emission schedule and the coinbase split (property C07). *)
From Virel Require Import Lib.Config Lib.U64 Model.Emission.
Open Scope N_scope.

(* Boolean side condition on the configuration; discharged by vm_compute at every generated config. *)
Definition cfg_ok_emission (cfg : config) : bool :=
  (0 <? reduction_interval cfg) && (reduction_interval cfg <? two64) &&
  (block_reward cfg * 9 <? two64) &&
  (max_supply cfg =? 11 * reduction_interval cfg * block_reward cfg) &&
  ((max_supply cfg + block_reward cfg) * 10 <? two64) &&
  (reduce (block_reward cfg) 400 =? 0) &&
  (402 * reduction_interval cfg <=? max_height cfg) &&
  (max_height cfg <? two64) &&
  (fee_percent cfg =? 10).

Section Proofs.
Variable cfg : config.
Hypothesis Hok : cfg_ok_emission cfg = true.

Notation RI := (reduction_interval cfg).
Notation BR := (block_reward cfg).

Lemma ok_facts :
  (0 < RI /\ RI < two64) /\ BR * 9 < two64 /\ max_supply cfg = 11 * RI * BR /\
  (max_supply cfg + BR) * 10 < two64 /\ reduce BR 400 = 0 /\
  402 * RI <= max_height cfg /\ max_height cfg < two64 /\ fee_percent cfg = 10.
Proof.
  unfold cfg_ok_emission in Hok.
  rewrite !Bool.andb_true_iff, !N.ltb_lt, !N.eqb_eq, !N.leb_le in Hok. tauto.
Qed.

(* ---- reduce ---- *)

Definition rho (k : N) : N := reduce BR k.

Lemma reduce_step_le n : n * 9 < two64 -> reduce_step n = n * 9 / 10 /\ reduce_step n <= n.
Proof.
  intros H. unfold reduce_step. rewrite wmul_small by exact H. split; [reflexivity|].
  apply N.div_le_upper_bound; lia.
Qed.

Lemma rho_succ k : rho (N.succ k) = reduce_step (rho k).
Proof. unfold rho, reduce. apply N.iter_succ. Qed.

Lemma rho_le_BR k : rho k <= BR.
Proof.
  destruct ok_facts as (_ & H9 & _).
  induction k as [|k IH] using N.peano_ind.
  - unfold rho, reduce. simpl. lia.
  - rewrite rho_succ. destruct (reduce_step_le (rho k)) as [_ Hle]; lia.
Qed.

Lemma rho_step k : rho (N.succ k) = rho k * 9 / 10.
Proof.
  destruct ok_facts as (_ & H9 & _).
  rewrite rho_succ. apply reduce_step_le. pose proof (rho_le_BR k). lia.
Qed.

Lemma rho_succ_le k : rho (N.succ k) <= rho k.
Proof. rewrite rho_step. apply N.div_le_upper_bound; lia. Qed.

Lemma rho_antitone a b : a <= b -> rho b <= rho a.
Proof.
  intros Hab. replace b with (a + (b - a)) by lia. generalize (b - a) as d. clear Hab b.
  intros d. induction d as [|d IH] using N.peano_ind.
  - rewrite N.add_0_r. lia.
  - rewrite N.add_succ_r. pose proof (rho_succ_le (a + d)). lia.
Qed.

(* reward by phase *)
Definition P (p : N) : N := if p =? 0 then BR else rho (p - 1).

Lemma reward_phase h : reward cfg h = P (h / RI).
Proof. reflexivity. Qed.

Lemma P_le_BR p : P p <= BR.
Proof. unfold P. destruct (p =? 0); [lia|apply rho_le_BR]. Qed.

Lemma P_antitone a b : a <= b -> P b <= P a.
Proof.
  intros Hab. unfold P.
  destruct (N.eqb_spec a 0) as [Ha|Ha]; destruct (N.eqb_spec b 0) as [Hb|Hb]; try lia.
  - apply rho_le_BR.
  - apply rho_antitone. lia.
Qed.

Lemma P_succ p : 1 <= p -> P (N.succ p) = P p * 9 / 10.
Proof.
  intros Hp. unfold P.
  destruct (N.eqb_spec (N.succ p) 0) as [H|H]; [lia|].
  destruct (N.eqb_spec p 0) as [H0|H0]; [lia|].
  replace (N.succ p - 1) with (N.succ (p - 1)) by lia. apply rho_step.
Qed.

Lemma P_0 : P 0 = BR. Proof. reflexivity. Qed.
Lemma P_1 : P 1 = BR. Proof. reflexivity. Qed.

(* ---- theorems about the reward ---- *)

Lemma reward_antitone h1 h2 : h1 <= h2 -> reward cfg h2 <= reward cfg h1.
Proof.
  destruct ok_facts as ((HRI & HRI64) & _).
  intros H. rewrite !reward_phase. apply P_antitone.
  apply N.div_le_mono; lia.
Qed.

Lemma reward_flat h : h < 2 * RI -> reward cfg h = BR.
Proof.
  destruct ok_facts as ((HRI & HRI64) & _).
  intros H. rewrite reward_phase.
  assert (Hq : h / RI < 2) by (apply N.div_lt_upper_bound; lia).
  revert Hq. generalize (h / RI). intros q Hq.
  assert (Hc : q = 0 \/ q = 1) by lia.
  destruct Hc as [-> | ->]; reflexivity.
Qed.

Lemma div_in_phase k h : 0 < RI -> k * RI <= h -> h < (k + 1) * RI -> h / RI = k.
Proof.
  intros HRI H1 H2. symmetry. apply (N.div_unique h RI k (h - k * RI)); lia.
Qed.

Lemma reward_const_in_phase k h : k * RI <= h -> h < (k + 1) * RI -> reward cfg h = reward cfg (k * RI).
Proof.
  destruct ok_facts as ((HRI & HRI64) & _).
  intros H1 H2. rewrite !reward_phase.
  rewrite (div_in_phase k h) by assumption.
  rewrite (div_in_phase k (k * RI)) by lia. reflexivity.
Qed.

Lemma reward_step k : 1 <= k -> reward cfg ((k + 1) * RI) = reward cfg (k * RI) * 9 / 10.
Proof.
  destruct ok_facts as ((HRI & HRI64) & _).
  intros Hk. rewrite !reward_phase.
  rewrite (div_in_phase (k + 1) ((k + 1) * RI)) by lia.
  rewrite (div_in_phase k (k * RI)) by lia.
  rewrite N.add_1_r. apply P_succ. exact Hk.
Qed.

Lemma reward_eventually_zero :
  exists H, H <= max_height cfg /\ forall h, H <= h -> reward cfg h = 0.
Proof.
  destruct ok_facts as ((HRI & HRI64) & _ & _ & _ & Hz & Hmh & _).
  exists (402 * RI). split; [exact Hmh|].
  intros h Hh. rewrite reward_phase.
  assert (Hq : 402 <= h / RI) by (apply N.div_le_lower_bound; lia).
  unfold P. destruct (N.eqb_spec (h / RI) 0) as [E|E]; [lia|].
  assert (Hle : rho (h / RI - 1) <= rho 400) by (apply rho_antitone; lia).
  assert (Hz' : rho 400 = 0) by (unfold rho; exact Hz).
  rewrite Hz' in Hle. apply N.le_0_r. exact Hle.
Qed.

(* ---- supply ---- *)

(* exact sum of the per-block reward over whole phases 0..n-1 *)
Fixpoint phase_sum (n : nat) : N :=
  match n with O => 0 | S k => phase_sum k + P (N.of_nat k) end.

(* potential: supply before phase p plus ten phases at the current reward *)
Lemma potential_1 (n : nat) : (1 <= n)%nat ->
  RI * phase_sum n + 10 * RI * P (N.of_nat n) <= 11 * RI * BR.
Proof.
  intros Hn. induction n as [|n IH]; [lia|].
  destruct n as [|n].
  - cbn [phase_sum]. change (N.of_nat 0) with 0. change (N.of_nat 1) with 1.
    rewrite P_0, P_1. lia.
  - assert (IH' := IH ltac:(lia)). clear IH.
    change (phase_sum (S (S n))) with (phase_sum (S n) + P (N.of_nat (S n))).
    replace (N.of_nat (S (S n))) with (N.succ (N.of_nat (S n))) by lia.
    rewrite P_succ by lia.
    set (x := P (N.of_nat (S n))) in *.
    assert (Hd : 10 * (x * 9 / 10) <= 9 * x) by (rewrite (N.mul_comm x 9); apply N.mul_div_le; lia).
    nia.
Qed.

Lemma potential (n : nat) :
  RI * phase_sum n + RI * P (N.of_nat n) <= max_supply cfg.
Proof.
  destruct ok_facts as ((HRI & HRI64) & _ & Hms & _).
  rewrite Hms.
  destruct n as [|n].
  - cbn [phase_sum]. change (N.of_nat 0) with 0. rewrite P_0. nia.
  - pose proof (potential_1 (S n) ltac:(lia)). nia.
Qed.

Definition supply_exact (h : N) : N :=
  RI * phase_sum (N.to_nat (h / RI)) + P (h / RI) * (h mod RI + 1).

Lemma supply_exact_le_max h : supply_exact h <= max_supply cfg.
Proof.
  destruct ok_facts as ((HRI & HRI64) & _).
  unfold supply_exact.
  pose proof (potential (N.to_nat (h / RI))) as Hp.
  rewrite N2Nat.id in Hp.
  assert (Hm : h mod RI < RI) by (apply N.mod_lt; lia).
  nia.
Qed.

(* the Go loop computes the exact phase sum without wrapping *)
Lemma supply_phase_iter (n : nat) : forall s,
  N.of_nat n * RI < two64 ->
  s + RI * phase_sum n < two64 ->
  N.iter (N.of_nat n) (supply_phase_step cfg) (N.of_nat n, s) = (0, s + RI * phase_sum n).
Proof.
  destruct ok_facts as ((HRI & HRI64) & _ & Hms & Hms64 & _).
  induction n as [|n IH]; intros s Hn Hs.
  - simpl. f_equal. lia.
  - replace (N.of_nat (S n)) with (N.succ (N.of_nat n)) by lia.
    rewrite N.iter_succ_r.
    cbn [phase_sum] in Hs.
    assert (Hterm : supply_phase_step cfg (N.succ (N.of_nat n), s)
                    = (N.of_nat n, s + P (N.of_nat n) * RI)).
    { unfold supply_phase_step. 
      replace (N.succ (N.of_nat n) - 1) with (N.of_nat n) by lia.
      assert (Hk : RI * N.succ (N.of_nat n) < two64) by lia.
      rewrite (wmul_small RI) by exact Hk.
      rewrite wsub_small by lia.
      rewrite reward_phase.
      rewrite (div_in_phase (N.of_nat n)) by lia.
      pose proof (P_le_BR (N.of_nat n)) as HP.
      assert (HPR : P (N.of_nat n) * RI <= max_supply cfg) by (rewrite Hms; nia).
      rewrite wmul_small by lia.
      rewrite wadd_small by lia. reflexivity. }
    rewrite Hterm. rewrite IH by lia. f_equal. cbn [phase_sum]. lia.
Qed.

Lemma supply_at_exact h : h < two64 -> supply_at cfg h = supply_exact h.
Proof.
  destruct ok_facts as ((HRI & HRI64) & _ & Hms & Hms64 & _).
  intros Hh. unfold supply_at, supply_exact.
  pose proof (supply_exact_le_max h) as Hle. unfold supply_exact in Hle.
  assert (Hqh : (h / RI) * RI <= h) by (rewrite N.mul_comm; apply N.mul_div_le; lia).
  assert (Hm : h mod RI < RI) by (apply N.mod_lt; lia).
  assert (Hmh : h mod RI <= h) by (apply N.mod_le; lia).
  rewrite reward_phase.
  revert Hle Hqh Hm Hmh. generalize (h mod RI) as m. generalize (h / RI) as q. intros q m Hle Hqh Hm Hmh.
  unfold supply_at_phase.
  pose proof (supply_phase_iter (N.to_nat q) 0) as Hit.
  rewrite N2Nat.id in Hit. rewrite Hit by lia. cbn [snd].
  rewrite (wadd_small m 1) by lia.
  rewrite wmul_small by lia. rewrite wadd_small by lia. lia.
Qed.

Lemma succ_div_mod h :
  0 < RI ->
  (h mod RI + 1 < RI /\ (h + 1) / RI = h / RI /\ (h + 1) mod RI = h mod RI + 1) \/
  (h mod RI + 1 = RI /\ (h + 1) / RI = h / RI + 1 /\ (h + 1) mod RI = 0).
Proof.
  intros HRI.
  pose proof (N.div_mod h RI ltac:(lia)) as Hdm.
  assert (Hm : h mod RI < RI) by (apply N.mod_lt; lia).
  destruct (N.lt_ge_cases (h mod RI + 1) RI) as [Hc|Hc].
  - left. split; [exact Hc|].
    assert (Hq : (h + 1) / RI = h / RI).
    { symmetry. apply (N.div_unique (h + 1) RI (h / RI) (h mod RI + 1)); lia. }
    split; [exact Hq|].
    symmetry. apply (N.mod_unique (h + 1) RI (h / RI) (h mod RI + 1)); lia.
  - right. assert (He : h mod RI + 1 = RI) by lia. split; [exact He|].
    assert (Hq : (h + 1) / RI = h / RI + 1).
    { symmetry. apply (N.div_unique (h + 1) RI (h / RI + 1) 0); lia. }
    split; [exact Hq|].
    symmetry. apply (N.mod_unique (h + 1) RI (h / RI + 1) 0); lia.
Qed.

Lemma supply_exact_succ h : supply_exact (h + 1) = supply_exact h + reward cfg (h + 1).
Proof.
  destruct ok_facts as ((HRI & HRI64) & _).
  rewrite reward_phase. unfold supply_exact.
  destruct (succ_div_mod h HRI) as [(Hc & Hq & Hm)|(Hc & Hq & Hm)]; rewrite Hq, Hm.
  - lia.
  - replace (N.to_nat (h / RI + 1)) with (S (N.to_nat (h / RI))) by lia.
    cbn [phase_sum]. rewrite N2Nat.id. nia.
Qed.

Lemma supply_exact_is_sum (n : nat) : supply_exact (N.of_nat n) = sum_rewards cfg n.
Proof.
  destruct ok_facts as ((HRI & HRI64) & _).
  induction n as [|n IH].
  - cbn [sum_rewards]. unfold supply_exact. change (N.of_nat 0) with 0.
    rewrite N.div_0_l, N.mod_0_l by lia. simpl phase_sum. rewrite reward_phase.
    rewrite N.div_0_l by lia. lia.
  - cbn [sum_rewards]. rewrite <- IH.
    replace (N.of_nat (S n)) with (N.of_nat n + 1) by lia.
    apply supply_exact_succ.
Qed.

Lemma supply_is_sum (n : nat) : N.of_nat n < two64 -> supply_at cfg (N.of_nat n) = sum_rewards cfg n.
Proof. intros H. rewrite supply_at_exact by exact H. apply supply_exact_is_sum. Qed.

Lemma supply_le_max h : h < two64 -> supply_at cfg h <= max_supply cfg.
Proof. intros H. rewrite supply_at_exact by exact H. apply supply_exact_le_max. Qed.

Lemma sum_rewards_le_max (n : nat) : sum_rewards cfg n <= max_supply cfg.
Proof. rewrite <- supply_exact_is_sum. apply supply_exact_le_max. Qed.


(* ---- the linear-time forms agree with the transcriptions ---- *)

Lemma fast_state_spec (n : nat) :
  fast_state cfg (N.of_nat n) = (N.of_nat n, P (N.of_nat n), phase_sum n).
Proof.
  induction n as [|n IH].
  - reflexivity.
  - replace (N.of_nat (S n)) with (N.succ (N.of_nat n)) by lia.
    unfold fast_state in *. rewrite N.iter_succ, IH. unfold fast_step.
    cbn [phase_sum].
    assert (E1 : N.of_nat n + 1 = N.succ (N.of_nat n)) by lia.
    assert (E2 : (if N.of_nat n =? 0 then P (N.of_nat n) else P (N.of_nat n) * 9 / 10) = P (N.succ (N.of_nat n))).
    { destruct (N.eqb_spec (N.of_nat n) 0) as [E|E].
      - rewrite E. reflexivity.
      - rewrite P_succ by lia. reflexivity. }
    rewrite E1, E2. reflexivity.
Qed.

Lemma reward_fast_eq h : reward cfg h = reward_fast cfg h.
Proof.
  unfold reward_fast. rewrite reward_phase.
  rewrite <- (N2Nat.id (h / RI)) at 2. rewrite fast_state_spec. cbn [fst snd].
  rewrite N2Nat.id. reflexivity.
Qed.

Lemma supply_fast_eq h : h < two64 -> supply_at cfg h = supply_fast cfg h.
Proof.
  intros Hh. rewrite supply_at_exact by exact Hh. unfold supply_fast, supply_exact.
  rewrite <- (N2Nat.id (h / RI)) at 3. rewrite fast_state_spec.
  rewrite N2Nat.id. reflexivity.
Qed.

(* ---- coinbase ---- *)

Lemma coinbase_v0 signed t : t <= max_supply cfg + BR ->
  coinbase cfg 0 signed t = CbOuts [(OUT_COINBASE_DEV, t * 10 / 100); (OUT_COINBASE_POW, t - t * 10 / 100)]
  /\ t * 10 / 100 + (t - t * 10 / 100) = t.
Proof.
  destruct ok_facts as (_ & _ & _ & H64 & _ & _ & _ & Hfp).
  intros Ht. unfold coinbase. cbn [N.eqb]. rewrite Hfp.
  assert (Hg : t * 10 / 100 <= t) by (apply N.div_le_upper_bound; lia).
  rewrite wmul_small by lia. rewrite wsub_small by lia. split; [reflexivity|lia].
Qed.

Lemma coinbase_v1_signed t : t <= max_supply cfg + BR ->
  let gov := t * 10 / 100 in let pow := t / 2 in let pos := t - pow - gov in
  coinbase cfg 1 true t =
    CbOuts ([(OUT_COINBASE_DEV, gov); (OUT_COINBASE_POW, pow)] ++ (if pos =? 0 then [] else [(OUT_COINBASE_POS, pos)]))
  /\ gov + pow + pos = t.
Proof.
  destruct ok_facts as (_ & _ & _ & H64 & _ & _ & _ & Hfp).
  intros Ht gov pow pos. unfold coinbase. change (1 =? 0) with false. change (1 =? 1) with true. cbv iota.
  rewrite Hfp.
  assert (Hg : t * 10 / 100 <= t / 2 + 0 /\ t / 2 + t * 10 / 100 <= t) by lia.
  rewrite wmul_small by lia. fold gov pow.
  rewrite (wsub_small t pow) by (unfold pow; lia).
  rewrite wsub_small by (unfold pow, gov; lia). fold pos.
  cbn [N.eqb]. rewrite app_nil_r. split; [reflexivity|]. unfold pos, pow, gov. lia.
Qed.

Lemma coinbase_v1_unsigned t : t <= max_supply cfg + BR ->
  let gov := t * 10 / 100 in let pow := t / 2 * 3 / 4 in let burn := t - gov - pow in
  coinbase cfg 1 false t =
    CbOuts ([(OUT_COINBASE_DEV, gov); (OUT_COINBASE_POW, pow)] ++ (if burn =? 0 then [] else [(OUT_COINBASE_BURN, burn)]))
  /\ gov + pow + burn = t.
Proof.
  destruct ok_facts as (_ & _ & _ & H64 & _ & _ & _ & Hfp).
  intros Ht gov pow burn. unfold coinbase. change (1 =? 0) with false. change (1 =? 1) with true. cbv iota.
  rewrite Hfp.
  assert (Hg : t * 10 / 100 + t / 2 * 3 / 4 <= t) by lia.
  rewrite wmul_small by lia. fold gov.
  rewrite (wmul_small (t / 2) 3) by lia. fold pow.
  rewrite (wsub_small t gov) by (unfold gov; lia).
  rewrite wsub_small by (unfold pow, gov; lia). fold burn.
  cbn [N.eqb app]. split; [reflexivity|]. unfold burn, pow, gov. lia.
Qed.

Lemma sum_amounts_app a b : sum_amounts (a ++ b) = sum_amounts a + sum_amounts b.
Proof. induction a as [|x a IH]; cbn; [reflexivity|]. unfold sum_amounts in *. cbn. rewrite IH. lia. Qed.

Lemma coinbase_sum version signed t :
  version <= 1 -> t <= max_supply cfg + BR ->
  exists outs, coinbase cfg version signed t = CbOuts outs /\ sum_amounts outs = t /\
    nth_error outs 0 = Some (OUT_COINBASE_DEV, t * 10 / 100).
Proof.
  intros Hv Ht.
  assert (Hc : version = 0 \/ version = 1) by lia.
  destruct Hc as [-> | ->].
  - destruct (coinbase_v0 signed t Ht) as [E S]. eexists. split; [exact E|]. split; [|reflexivity].
    cbn. lia.
  - destruct signed.
    + destruct (coinbase_v1_signed t Ht) as [E S]. eexists. split; [exact E|]. split; [|reflexivity].
      rewrite sum_amounts_app. destruct (_ =? 0) eqn:Ez; cbn; [apply N.eqb_eq in Ez|]; lia.
    + destruct (coinbase_v1_unsigned t Ht) as [E S]. eexists. split; [exact E|]. split; [|reflexivity].
      rewrite sum_amounts_app. destruct (_ =? 0) eqn:Ez; cbn; [apply N.eqb_eq in Ez|]; lia.
Qed.

End Proofs.
