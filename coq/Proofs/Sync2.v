(* Catching up across a fork (property C11), part 1: the synchronisation mechanism as a machine over numbers.

   Against ONE peer whose main chain is P_0 .. P_hp, with a node whose store holds exactly P_0 .. P_(L-1) of that chain
   (L = the "frontier": the lowest height of the peer's chain that is not stored), the only thing that matters of the
   download queue of Model/Sync.v is the list of HEIGHTS of its entries, and the effect of handing the block P_x to the
   post-processor is ([proc]):
     x < L   duplicate: the entry x is removed from the queue;
     x = L   the block is accepted: the frontier moves up by one (nothing happens to the queue);
     x > L   orphan: the parent's entry x-1 is set (replaced in place / inserted before the first higher entry) and
             the entry x is removed.  THE BLOCK ITSELF IS DROPPED (there is no orphan store).
   One round ([a_round]) = one iteration of Synchronize (the head of the queue is requested by height and moved to the
   back; the by-height part [a_tick_height] requests a window of heights above the node's own height, or - paced -
   the last blocks of a peer chain that is not higher), every request answered by the peer, the answers processed
   lowest height first.  Proofs/Sync2Refine.v proves that Model/Sync.v's [sim_round] IS this machine.

   Proved here ([a_catches_up]): if the node always holds the block just below the frontier ([Hhd]: L <= hd L + 1, where
   hd L is the highest height at which it holds a block - its own height or the height of an alternative tip; true of
   every reachable node, Proofs/Sync2Reach.v), then from every state whose queue is well formed the frontier passes hp
   after finitely many rounds.
   Termination measure, lexicographic:
     1. hp + 1 - L                       blocks of the peer's chain not yet stored;
     2. while no queue entry is at or above the frontier ("live"):
        2a. L - (base of the next by-height window)  [dB]: a window that lies below the frontier is answered with
            duplicates only; since the node holds a block at the last requested height the next window starts ABOVE it;
        2b. the number of iterations until the by-height part fires again (wait counter n, fork-wait counter: at most
            21 + 21)  [tau];
     3. while there is a live entry: (lowest live entry - L) + number of entries below the frontier ("stale").
        Every round either removes the stale head, or takes the lowest live entry one step down (orphan -> parent
        queued), or stores the block at the frontier.  This needs the invariant that the live entries stand in the
        queue in ascending order ([Inv1]; the stale ones may be anywhere), which [queue_set]'s sorted insertion
        and the head-to-back rotation preserve.
   Before the repair of Synchronize (KNOWN_FINDINGS C11-long-light-fork) the window always restarted at the node's own
   height and step 2a did not exist: the machine could livelock (history in Proofs/Sync2Stuck.v). *)
From Coq Require Import Arith Bool Lia Sorted.
From Virel Require Import Lib.Config Lib.U64.
Open Scope N_scope.
Open Scope bool_scope.

(* ------------------------------------------------------------------ the queue as a list of heights *)
Fixpoint ins_sorted (q : list N) (v : N) : list N :=
  match q with [] => [v] | x :: r => if v <? x then v :: q else x :: ins_sorted r v end.
Definition a_set (q : list N) (v : N) : list N := if existsb (fun y => y =? v) q then q else ins_sorted q v.
Definition a_rm (q : list N) (x : N) : list N := filter (fun y => negb (y =? x)) q.

(* handing P_x to the post-processor when the frontier is L *)
Definition proc (st : N * list N) (x : N) : N * list N :=
  if x <? fst st then (fst st, a_rm (snd st) x)
  else if x =? fst st then (fst st + 1, snd st)
  else (fst st, a_rm (a_set (snd st) (x - 1)) x).

(* ascending insertion: the order in which the post-processor takes the answer to the queue entry and the window *)
Fixpoint ins_asc (p : N) (l : list N) : list N :=
  match l with [] => [p] | x :: r => if p <=? x then p :: l else x :: ins_asc p r end.

Definition a_batch (q ws : list N) : list N := match q with [] => ws | p :: _ => ins_asc p ws end.
Definition a_rot (q : list N) : list N := match q with [] => [] | p :: r => r ++ [p] end.

Record astate := mka { aL : N; aq : list N; alast : N; await : N; afw : N }.

(* heights h, h+1, ... ([k] of them) as far as the peer (tip height [hp]) has blocks: what a by-height request is
   answered with *)
Fixpoint hts (hp h : N) (k : nat) : list N :=
  match k with O => [] | S k' => if h <=? hp then h :: hts hp (h + 1) k' else [] end.

Lemma in_hts hp k : forall h x, In x (hts hp h k) <-> h <= x /\ x < h + N.of_nat k /\ x <= hp.
Proof.
  induction k as [|k IH]; intros h x; cbn [hts].
  - cbn. split; [intros []|lia].
  - destruct (N.leb_spec h hp) as [Hle|Hgt].
    + cbn [In]. rewrite IH. lia.
    + cbn. split; [intros []|lia].
Qed.

(* ------------------------------------------------------------------ list facts *)
Lemma in_a_rm q x y : In y (a_rm q x) <-> In y q /\ y <> x.
Proof.
  unfold a_rm. rewrite filter_In. split.
  - intros (H1 & H2). split; [exact H1|]. destruct (N.eqb_spec y x); [discriminate|assumption].
  - intros (H1 & H2). split; [exact H1|]. destruct (N.eqb_spec y x); [contradiction|reflexivity].
Qed.

Lemma in_ins_sorted q v y : In y (ins_sorted q v) <-> y = v \/ In y q.
Proof.
  induction q as [|x r IH]; cbn [ins_sorted].
  - cbn. split; [intros [H|[]]; left; symmetry; exact H|intros [H|[]]; left; symmetry; exact H].
  - destruct (v <? x); cbn [In].
    + split; [intros [H|H]; [left; symmetry; exact H|right; exact H]|intros [H|H]; [left; symmetry; exact H|right; exact H]].
    + rewrite IH. tauto.
Qed.

Lemma existsb_eqb_in q v : existsb (fun y => y =? v) q = true <-> In v q.
Proof.
  rewrite existsb_exists. split.
  - intros (y & Hy & E). apply N.eqb_eq in E. subst y. exact Hy.
  - intros H. exists v. split; [exact H|apply N.eqb_refl].
Qed.

Lemma in_a_set q v y : In y (a_set q v) <-> y = v \/ In y q.
Proof.
  unfold a_set. destruct (existsb (fun y0 => y0 =? v) q) eqn:E.
  - apply existsb_eqb_in in E. split; [intros H; right; exact H|intros [->|H]; assumption].
  - apply in_ins_sorted.
Qed.

Lemma sorted_filter (R : N -> N -> Prop) (f : N -> bool) l : StronglySorted R l -> StronglySorted R (filter f l).
Proof.
  induction 1 as [|x l HS IH HF]; cbn [filter]; [constructor|].
  destruct (f x); [|exact IH]. constructor; [exact IH|].
  rewrite Forall_forall in *. intros y Hy. apply filter_In in Hy. apply HF. apply Hy.
Qed.

Lemma ins_sorted_sorted S v : StronglySorted N.lt S -> ~ In v S -> StronglySorted N.lt (ins_sorted S v).
Proof.
  induction 1 as [|x l HS IH HF]; intros Hn; cbn [ins_sorted].
  - constructor; [constructor|constructor].
  - destruct (N.ltb_spec v x) as [Hlt|Hge].
    + constructor; [constructor; assumption|]. constructor; [exact Hlt|].
      rewrite Forall_forall in *. intros y Hy. specialize (HF y Hy). lia.
    + assert (Hne : v <> x) by (intros ->; apply Hn; left; reflexivity).
      constructor; [apply IH; intros Hin; apply Hn; right; exact Hin|].
      rewrite Forall_forall in *. intros y Hy. apply in_ins_sorted in Hy. destruct Hy as [->|Hy]; [lia|apply HF; exact Hy].
Qed.

(* ------------------------------------------------------------------ live entries, the order invariant *)
Definition lives (L : N) (q : list N) : list N := filter (fun x => L <=? x) q.
Definition Inv1 (L : N) (q : list N) : Prop := StronglySorted N.lt (lives L q).
Definition mu (L : N) (q : list N) : option N := hd_error (lives L q).
Definition sig (L : N) (q : list N) : nat := length (filter (fun x => x <? L) q).

Lemma in_lives L q y : In y (lives L q) <-> In y q /\ L <= y.
Proof. unfold lives. rewrite filter_In. split; intros (H1 & H2); (split; [exact H1|]); [apply N.leb_le|apply N.leb_le]; exact H2. Qed.

Lemma lives_a_rm L q x : lives L (a_rm q x) = a_rm (lives L q) x.
Proof.
  unfold lives, a_rm. induction q as [|y r IH]; [reflexivity|]. cbn [filter].
  destruct (negb (y =? x)) eqn:E1, (L <=? y) eqn:E2; cbn [filter]; rewrite ?E1, ?E2, IH; reflexivity.
Qed.

Lemma lives_ins_sorted L q v : L <= v -> lives L (ins_sorted q v) = ins_sorted (lives L q) v.
Proof.
  intros Hv. induction q as [|x r IH]; cbn [ins_sorted lives filter].
  - destruct (N.leb_spec L v); [reflexivity|lia].
  - destruct (N.ltb_spec v x) as [Hlt|Hge].
    + cbn [filter]. destruct (N.leb_spec L v); [|lia]. destruct (N.leb_spec L x); [|lia].
      cbn [ins_sorted]. destruct (N.ltb_spec v x); [reflexivity|lia].
    + cbn [filter]. fold (lives L (ins_sorted r v)). fold (lives L r). rewrite IH.
      destruct (N.leb_spec L x); [|reflexivity]. cbn [ins_sorted]. destruct (N.ltb_spec v x); [lia|reflexivity].
Qed.

Lemma lives_a_set L q v : L <= v -> lives L (a_set q v) = a_set (lives L q) v.
Proof.
  intros Hv. unfold a_set.
  destruct (existsb (fun y => y =? v) q) eqn:E1, (existsb (fun y => y =? v) (lives L q)) eqn:E2.
  - reflexivity.
  - exfalso. apply existsb_eqb_in in E1. assert (H : In v (lives L q)) by (apply in_lives; split; assumption).
    apply existsb_eqb_in in H. congruence.
  - exfalso. apply existsb_eqb_in in E2. apply in_lives in E2. destruct E2 as (E2 & _). apply existsb_eqb_in in E2. congruence.
  - apply lives_ins_sorted. exact Hv.
Qed.

Lemma Inv1_a_rm L q x : Inv1 L q -> Inv1 L (a_rm q x).
Proof. unfold Inv1. rewrite lives_a_rm. unfold a_rm. apply sorted_filter. Qed.

Lemma Inv1_a_set L q v : L <= v -> Inv1 L q -> Inv1 L (a_set q v).
Proof.
  unfold Inv1. intros Hv H. rewrite (lives_a_set L q v Hv). unfold a_set.
  destruct (existsb (fun y => y =? v) (lives L q)) eqn:E; [exact H|].
  apply ins_sorted_sorted; [exact H|]. intros Hin. apply existsb_eqb_in in Hin. congruence.
Qed.

Lemma lives_succ L q : lives (L + 1) q = filter (fun x => L + 1 <=? x) (lives L q).
Proof.
  unfold lives. induction q as [|y r IH]; [reflexivity|]. cbn [filter].
  destruct (N.leb_spec (L + 1) y), (N.leb_spec L y); cbn [filter]; try lia.
  - destruct (N.leb_spec (L + 1) y); [|lia]. rewrite IH. reflexivity.
  - destruct (N.leb_spec (L + 1) y); [lia|]. exact IH.
  - exact IH.
Qed.

Lemma Inv1_succ L q : Inv1 L q -> Inv1 (L + 1) q.
Proof. unfold Inv1. rewrite lives_succ. apply sorted_filter. Qed.

Lemma lives_app L q1 q2 : lives L (q1 ++ q2) = lives L q1 ++ lives L q2.
Proof. unfold lives. apply filter_app. Qed.

(* the lowest live entry *)
Lemma mu_in L q m : mu L q = Some m -> In m q /\ L <= m.
Proof.
  unfold mu. destruct (lives L q) as [|x r] eqn:E; [discriminate|]. intros [= <-].
  apply in_lives. rewrite E. left. reflexivity.
Qed.

Lemma mu_le L q e : Inv1 L q -> In e q -> L <= e -> exists m, mu L q = Some m /\ m <= e.
Proof.
  unfold Inv1, mu. intros HS Hin Hle. assert (H : In e (lives L q)) by (apply in_lives; split; assumption).
  destruct (lives L q) as [|x r]; [destruct H|]. exists x. split; [reflexivity|].
  destruct H as [<-|H]; [lia|]. apply StronglySorted_inv in HS. destruct HS as (_ & HF).
  rewrite Forall_forall in HF. specialize (HF e H). lia.
Qed.

Lemma mu_none L q : mu L q = None -> forall y, In y q -> y < L.
Proof.
  unfold mu. intros H y Hy. destruct (N.lt_ge_cases y L) as [Hlt|Hge]; [exact Hlt|].
  assert (Hin : In y (lives L q)) by (apply in_lives; split; assumption).
  destruct (lives L q); [destruct Hin|discriminate].
Qed.

Lemma mu_none_intro L q : (forall y, In y q -> y < L) -> mu L q = None.
Proof.
  unfold mu. intros H. destruct (lives L q) as [|x r] eqn:E; [reflexivity|].
  assert (Hin : In x (lives L q)) by (rewrite E; left; reflexivity). apply in_lives in Hin. destruct Hin as (Hin & Hle).
  specialize (H x Hin). lia.
Qed.

Lemma sig_a_rm_le L q x : (sig L (a_rm q x) <= sig L q)%nat.
Proof.
  unfold sig, a_rm. induction q as [|y r IH]; [apply le_n|]. cbn [filter].
  destruct (negb (y =? x)); cbn [filter]; destruct (y <? L); cbn [length]; lia.
Qed.

Lemma sig_a_rm_lt L q x : In x q -> x < L -> (sig L (a_rm q x) < sig L q)%nat.
Proof.
  unfold sig, a_rm. intros Hin Hlt. induction q as [|y r IH]; [destruct Hin|]. cbn [filter].
  destruct (N.eqb_spec y x) as [->|Hne]; cbn [negb filter].
  - destruct (N.ltb_spec x L); [|lia]. cbn [length].
    pose proof (sig_a_rm_le L r x) as H1. unfold sig, a_rm in H1. lia.
  - destruct Hin as [->|Hin]; [congruence|]. specialize (IH Hin). destruct (y <? L); cbn [length]; lia.
Qed.

Lemma sig_ins_sorted L q v : L <= v -> sig L (ins_sorted q v) = sig L q.
Proof.
  intros Hv. unfold sig. induction q as [|x r IH]; cbn [ins_sorted filter].
  - destruct (N.ltb_spec v L); [lia|reflexivity].
  - destruct (v <? x); cbn [filter].
    + destruct (N.ltb_spec v L); [lia|reflexivity].
    + destruct (x <? L); cbn [length]; rewrite IH; reflexivity.
Qed.

Lemma sig_a_set L q v : L <= v -> sig L (a_set q v) = sig L q.
Proof. intros Hv. unfold a_set. destruct (existsb _ q); [reflexivity|apply sig_ins_sorted; exact Hv]. Qed.

Section Batch.
Variable hp : N.       (* height of the peer's tip *)

(* ------------------------------------------------------------------ one block handed to the post-processor *)
(* queue entries are heights of the peer's chain, at least 1 *)
Definition QB (q : list N) : Prop := forall x, In x q -> 1 <= x /\ x <= hp.

Lemma proc_mono st x : fst st <= fst (proc st x).
Proof. unfold proc. destruct (x <? fst st); [cbn; lia|]. destruct (x =? fst st); cbn; lia. Qed.

Lemma fold_proc_mono xs : forall st, fst st <= fst (fold_left proc xs st).
Proof.
  induction xs as [|x xs IH]; intros st; [cbn; lia|]. cbn [fold_left].
  pose proof (proc_mono st x). pose proof (IH (proc st x)). lia.
Qed.

Lemma proc_hit L q : proc (L, q) L = (L + 1, q).
Proof. unfold proc. cbn [fst snd]. destruct (N.ltb_spec L L); [lia|]. rewrite N.eqb_refl. reflexivity. Qed.

Lemma proc_miss L q x : x <> L -> fst (proc (L, q) x) = L.
Proof. intros H. unfold proc. cbn [fst snd]. destruct (x <? L); [reflexivity|]. destruct (N.eqb_spec x L); [contradiction|reflexivity]. Qed.

(* a batch that contains the height of the frontier moves the frontier *)
Lemma fold_proc_hit xs : forall L q, In L xs -> L < fst (fold_left proc xs (L, q)).
Proof.
  induction xs as [|x xs IH]; intros L q Hin; [destruct Hin|]. cbn [fold_left].
  destruct (N.eq_dec x L) as [->|Hne].
  - rewrite proc_hit. pose proof (fold_proc_mono xs (L + 1, q)). cbn [fst] in *. lia.
  - destruct Hin as [Hin|Hin]; [contradiction|].
    destruct (proc (L, q) x) as [L1 q1] eqn:E. pose proof (proc_miss L q x Hne) as H1. rewrite E in H1. cbn [fst] in H1. subst L1.
    apply IH. exact Hin.
Qed.

Lemma fold_proc_nohit xs : forall L q, ~ In L xs -> fst (fold_left proc xs (L, q)) = L.
Proof.
  induction xs as [|x xs IH]; intros L q Hn; [reflexivity|]. cbn [fold_left].
  assert (Hne : x <> L) by (intros ->; apply Hn; left; reflexivity).
  destruct (proc (L, q) x) as [L1 q1] eqn:E. pose proof (proc_miss L q x Hne) as H1. rewrite E in H1. cbn [fst] in H1. subst L1.
  apply IH. intros Hin. apply Hn. right. exact Hin.
Qed.

Definition SInv (st : N * list N) : Prop := 1 <= fst st /\ fst st <= hp + 1 /\ Inv1 (fst st) (snd st) /\ QB (snd st).

Lemma SInv_tl L q : SInv (L, q) -> SInv (L, tl q).
Proof.
  intros HS. destruct q as [|p q]; cbn [tl]; [exact HS|]. destruct HS as (H1 & H2 & H3 & H4). unfold SInv. cbn [fst snd] in *.
  split; [exact H1|]. split; [exact H2|]. split.
  - unfold Inv1, lives in *. cbn [filter] in H3. destruct (L <=? p); [apply StronglySorted_inv in H3; apply H3|exact H3].
  - intros x Hx. apply H4. right. exact Hx.
Qed.

Lemma proc_SInv st x : SInv st -> 1 <= x -> x <= hp -> SInv (proc st x).
Proof.
  destruct st as [L q]. intros (H1 & H2 & H3 & H4) Hx1 Hx2. unfold proc, SInv in *. cbn [fst snd] in *.
  destruct (N.ltb_spec x L) as [Hlt|Hge]; cbn [fst snd].
  - split; [exact H1|]. split; [exact H2|]. split; [apply Inv1_a_rm; exact H3|].
    intros y Hy. apply in_a_rm in Hy. apply H4. apply Hy.
  - destruct (N.eqb_spec x L) as [->|Hne]; cbn [fst snd].
    + split; [lia|]. split; [lia|]. split; [apply Inv1_succ; exact H3|exact H4].
    + split; [exact H1|]. split; [exact H2|]. split.
      * apply Inv1_a_rm. apply Inv1_a_set; [lia|exact H3].
      * intros y Hy. apply in_a_rm in Hy. destruct Hy as (Hy & _). apply in_a_set in Hy.
        destruct Hy as [->|Hy]; [lia|apply H4; exact Hy].
Qed.

Lemma fold_proc_SInv xs : forall st, SInv st -> (forall x, In x xs -> 1 <= x /\ x <= hp) -> SInv (fold_left proc xs st).
Proof.
  induction xs as [|x xs IH]; intros st H Hb; [exact H|]. cbn [fold_left]. apply IH.
  - destruct (Hb x (or_introl eq_refl)). apply proc_SInv; assumption.
  - intros y Hy. apply Hb. right. exact Hy.
Qed.

(* a block that does not move the frontier: the stale entries do not become more, the lowest live entry does not rise *)
Lemma proc_keep L q x : x <> L -> Inv1 L q ->
  let q' := snd (proc (L, q) x) in
  (sig L q' <= sig L q)%nat /\
  (forall m, mu L q = Some m -> exists m', mu L q' = Some m' /\ m' <= m) /\
  (L < x -> exists m', mu L q' = Some m' /\ m' <= x - 1) /\
  (x < L -> In x q -> (sig L q' < sig L q)%nat).
Proof.
  intros Hne HI. cbn zeta. unfold proc. cbn [fst snd].
  destruct (N.ltb_spec x L) as [Hlt|Hge]; cbn [snd].
  - split; [apply sig_a_rm_le|]. split; [|split; [lia|intros _ Hin; apply sig_a_rm_lt; assumption]].
    intros m Hm. apply mu_in in Hm. destruct Hm as (Hm & HLm).
    apply (mu_le L (a_rm q x) m); [apply Inv1_a_rm; exact HI| |exact HLm]. apply in_a_rm. split; [exact Hm|lia].
  - destruct (N.eqb_spec x L) as [E|_]; [contradiction|]. cbn [snd].
    assert (HI' : Inv1 L (a_rm (a_set q (x - 1)) x)) by (apply Inv1_a_rm, Inv1_a_set; [lia|exact HI]).
    assert (Hpar : In (x - 1) (a_rm (a_set q (x - 1)) x)).
    { apply in_a_rm. split; [apply in_a_set; left; reflexivity|lia]. }
    split; [|split; [|split; [|lia]]].
    + pose proof (sig_a_rm_le L (a_set q (x - 1)) x). rewrite sig_a_set in H by lia. exact H.
    + intros m Hm. apply mu_in in Hm. destruct Hm as (Hm & HLm).
      destruct (N.eq_dec m x) as [->|Hmx].
      * destruct (mu_le L _ (x - 1) HI' Hpar ltac:(lia)) as (m' & Hm' & Hle). exists m'. split; [exact Hm'|lia].
      * apply (mu_le L _ m HI'); [|exact HLm]. apply in_a_rm. split; [apply in_a_set; right; exact Hm|exact Hmx].
    + intros _. apply (mu_le L _ (x - 1) HI' Hpar). lia.
Qed.

(* a batch that does not move the frontier *)
Lemma fold_proc_keep xs : forall L q, SInv (L, q) -> (forall x, In x xs -> 1 <= x /\ x <= hp) ->
  fst (fold_left proc xs (L, q)) = L ->
  let q' := snd (fold_left proc xs (L, q)) in
  (sig L q' <= sig L q)%nat /\
  (forall m, mu L q = Some m -> exists m', mu L q' = Some m' /\ m' <= m) /\
  (forall x, In x xs -> L < x -> exists m', mu L q' = Some m' /\ m' <= x - 1) /\
  (forall x, In x xs -> x < L -> In x q -> (sig L q' < sig L q)%nat).
Proof.
  induction xs as [|x xs IH]; intros L q HS Hb Hfst; cbn zeta.
  - cbn [fold_left snd]. split; [apply le_n|]. split; [intros m Hm; exists m; split; [exact Hm|lia]|]. split; intros ? [].
  - cbn [fold_left] in *. destruct (Hb x (or_introl eq_refl)) as (Hx1 & Hx2).
    assert (Hne : x <> L).
    { intros ->. rewrite proc_hit in Hfst. pose proof (fold_proc_mono xs (L + 1, q)). cbn [fst] in *. lia. }
    pose proof (proc_SInv (L, q) x HS Hx1 Hx2) as HS1.
    destruct HS as (_ & _ & HI & _). cbn [fst snd] in HI.
    pose proof (proc_keep L q x Hne HI) as (K1 & K2 & K3 & K4). cbn zeta in *.
    destruct (proc (L, q) x) as [L1 q1] eqn:E. pose proof (proc_miss L q x Hne) as H1. rewrite E in H1. cbn [fst] in H1. subst L1.
    cbn [snd] in *.
    destruct (IH L q1 HS1 (fun y Hy => Hb y (or_intror Hy)) Hfst) as (J1 & J2 & J3 & J4). cbn zeta in *.
    split; [lia|]. split; [|split].
    + intros m Hm. destruct (K2 m Hm) as (m1 & Hm1 & Hle1). destruct (J2 m1 Hm1) as (m2 & Hm2 & Hle2).
      exists m2. split; [exact Hm2|lia].
    + intros y [<-|Hy] Hlt.
      * destruct (K3 Hlt) as (m1 & Hm1 & Hle1). destruct (J2 m1 Hm1) as (m2 & Hm2 & Hle2). exists m2. split; [exact Hm2|lia].
      * apply J3; assumption.
    + intros y [<-|Hy] Hlt Hin.
      * specialize (K4 Hlt Hin). lia.
      * destruct (N.eq_dec y x) as [->|Hyx]; [specialize (K4 Hlt Hin); lia|].
        assert (Hin1 : In y q1).
        { unfold proc in E. cbn [fst snd] in E. destruct (N.ltb_spec x L).
          - injection E as <-. apply in_a_rm. split; assumption.
          - destruct (N.eqb_spec x L); [contradiction|]. injection E as <-. apply in_a_rm. split; [apply in_a_set; right; exact Hin|exact Hyx]. }
        specialize (J4 y Hy Hlt Hin1). lia.
Qed.

(* ------------------------------------------------------------------ the head of the queue moved to the back *)
Lemma a_rm_app q1 q2 x : a_rm (q1 ++ q2) x = a_rm q1 x ++ a_rm q2 x.
Proof. unfold a_rm. apply filter_app. Qed.

Lemma ins_sorted_snoc r p v : v < p -> ins_sorted (r ++ [p]) v = ins_sorted r v ++ [p].
Proof.
  intros Hv. induction r as [|x r IH]; cbn [app ins_sorted].
  - destruct (N.ltb_spec v p); [reflexivity|lia].
  - destruct (v <? x); [reflexivity|]. rewrite IH. reflexivity.
Qed.

Lemma a_set_snoc r p v : v < p -> a_set (r ++ [p]) v = a_set r v ++ [p].
Proof.
  intros Hv. unfold a_set. rewrite existsb_app. cbn [existsb].
  destruct (N.eqb_spec p v); [lia|]. rewrite !orb_false_r.
  destruct (existsb (fun y => y =? v) r); [reflexivity|apply ins_sorted_snoc; exact Hv].
Qed.

Lemma proc_snoc L r p x : x < p -> proc (L, r ++ [p]) x = (fst (proc (L, r) x), snd (proc (L, r) x) ++ [p]).
Proof.
  intros Hx. unfold proc. cbn [fst snd].
  assert (Hp : a_rm [p] x = [p]) by (unfold a_rm; cbn [filter]; destruct (N.eqb_spec p x); [lia|reflexivity]).
  destruct (x <? L); cbn [fst snd].
  - rewrite a_rm_app, Hp. reflexivity.
  - destruct (x =? L); cbn [fst snd]; [reflexivity|].
    destruct (N.eq_dec x 0) as [->|Hx0].
    + (* x = 0: the parent height is 0 - 1 = 0 *)
      change (0 - 1) with 0. rewrite a_set_snoc by lia. rewrite a_rm_app, Hp. reflexivity.
    + rewrite a_set_snoc by lia. rewrite a_rm_app, Hp. reflexivity.
Qed.

Lemma fold_proc_snoc lo p : Forall (fun x => x < p) lo -> forall L r,
  fold_left proc lo (L, r ++ [p]) = (fst (fold_left proc lo (L, r)), snd (fold_left proc lo (L, r)) ++ [p]).
Proof.
  induction 1 as [|x lo Hx HF IH]; intros L r; [reflexivity|]. cbn [fold_left].
  rewrite (proc_snoc L r p x Hx). destruct (proc (L, r) x) as [L1 r1]. cbn [fst snd]. apply IH.
Qed.

(* the block of the rotated entry itself: unless it is accepted, the result is as if the entry had been dropped first *)
Lemma proc_rot L r p : p <> L -> proc (L, r ++ [p]) p = proc (L, r) p.
Proof.
  intros Hne. unfold proc. cbn [fst snd].
  assert (Hp : a_rm [p] p = []) by (unfold a_rm; cbn [filter]; rewrite N.eqb_refl; reflexivity).
  destruct (N.ltb_spec p L) as [Hlt|Hge].
  - rewrite a_rm_app, Hp, app_nil_r. reflexivity.
  - destruct (N.eqb_spec p L); [contradiction|].
    rewrite a_set_snoc by lia. rewrite a_rm_app, Hp, app_nil_r. reflexivity.
Qed.

Lemma ins_asc_split p ws : exists lo hi, ins_asc p ws = lo ++ p :: hi /\ ws = lo ++ hi /\ Forall (fun x => x < p) lo.
Proof.
  induction ws as [|x r IH]; cbn [ins_asc].
  - exists [], []. repeat split. constructor.
  - destruct (N.leb_spec p x) as [Hle|Hgt].
    + exists [], (x :: r). repeat split. constructor.
    + destruct IH as (lo & hi & E1 & E2 & HF). exists (x :: lo), hi. cbn [app]. rewrite E1, E2.
      repeat split. constructor; assumption.
Qed.

Lemma in_ins_asc p ws y : In y (ins_asc p ws) <-> y = p \/ In y ws.
Proof.
  destruct (ins_asc_split p ws) as (lo & hi & -> & -> & _). rewrite !in_app_iff. cbn [In]. split.
  - intros [H|[H|H]]; [right; left; exact H|left; symmetry; exact H|right; right; exact H].
  - intros [H|[H|H]]; [right; left; symmetry; exact H|left; exact H|right; right; exact H].
Qed.

(* the batch of a round, started from the rotated queue *)
Lemma round_fold L p r ws : SInv (L, p :: r) -> (forall x, In x ws -> 1 <= x /\ x <= hp) ->
  let st := fold_left proc (ins_asc p ws) (L, r ++ [p]) in
  SInv st /\ L <= fst st /\ (fst st = L -> st = fold_left proc (ins_asc p ws) (L, r)).
Proof.
  intros HS Hb. cbn zeta.
  destruct (ins_asc_split p ws) as (lo & hi & E1 & E2 & HF). rewrite E1.
  rewrite !fold_left_app. cbn [fold_left]. rewrite (fold_proc_snoc lo p HF L r).
  assert (Hp : 1 <= p /\ p <= hp) by (destruct HS as (_ & _ & _ & HQ); apply HQ; left; reflexivity).
  assert (HSr : SInv (L, r)) by (apply (SInv_tl L (p :: r)); exact HS).
  assert (Hblo : forall x, In x lo -> 1 <= x /\ x <= hp) by (intros x Hx; apply Hb; rewrite E2; apply in_or_app; left; exact Hx).
  assert (Hbhi : forall x, In x hi -> 1 <= x /\ x <= hp) by (intros x Hx; apply Hb; rewrite E2; apply in_or_app; right; exact Hx).
  pose proof (fold_proc_SInv lo (L, r) HSr Hblo) as HS1.
  pose proof (fold_proc_mono lo (L, r)) as Hm1. cbn [fst] in Hm1.
  destruct (fold_left proc lo (L, r)) as [L1 r1] eqn:Elo. cbn [fst snd] in *.
  destruct (N.eq_dec p L1) as [->|Hne].
  - (* the entry's block is the block at the frontier *)
    rewrite proc_hit.
    assert (HS2 : SInv (L1 + 1, r1 ++ [L1])).
    { destruct HS1 as (H1 & H2 & H3 & H4). unfold SInv. cbn [fst snd] in *. split; [lia|]. split; [lia|]. split.
      - unfold Inv1. rewrite lives_app. unfold lives at 2. cbn [filter]. destruct (N.leb_spec (L1 + 1) L1); [lia|].
        rewrite app_nil_r. apply Inv1_succ. exact H3.
      - intros y Hy. apply in_app_or in Hy. destruct Hy as [Hy|[<-|[]]]; [apply H4; exact Hy|exact Hp]. }
    pose proof (fold_proc_SInv hi _ HS2 Hbhi) as HS3.
    pose proof (fold_proc_mono hi (L1 + 1, r1 ++ [L1])) as Hm2. cbn [fst] in Hm2.
    split; [exact HS3|]. split; [lia|]. intros Heq. lia.
  - rewrite (proc_rot L1 r1 p Hne).
    pose proof (proc_SInv (L1, r1) p HS1 (proj1 Hp) (proj2 Hp)) as HS2.
    pose proof (proc_mono (L1, r1) p) as Hm2. cbn [fst] in Hm2.
    pose proof (fold_proc_SInv hi _ HS2 Hbhi) as HS3.
    pose proof (fold_proc_mono hi (proc (L1, r1) p)) as Hm3.
    split; [exact HS3|]. split; [lia|]. intros _. reflexivity.
Qed.

End Batch.

Section AMachine.
Variable hp pbd : N.       (* height of the peer's tip; PARALLEL_BLOCKS_DOWNLOAD *)
Variable th : N -> N.      (* the node's own height (stats.TopHeight) when the frontier is L *)
Variable hd : N -> N.      (* the highest height at which the node holds a block (main chain or alternative tip) *)
Notation hts := (hts hp).

Definition a_window (r : option (N * N)) : list N :=
  match r with Some (h, c) => hts h (S (N.to_nat c)) | None => [] end.

(* the by-height part of Synchronize: new SyncLastRequestHeight, n, forkWait and the request (height, count) made *)
Definition a_tick_height (L last wait fw : N) : N * N * N * option (N * N) :=
  let t := th L in
  if (t <? last) && negb (20 <? wait) then (last, wait + 1, fw, None)
  else
    (* the blocks requested have not extended the main chain: start again at our height if no block is held at the last
       requested height (or the announced height is reached), otherwise continue above it *)
    let last0 := if t <? last then (if (hd L <? last) || (hp <=? last) then t else last) else last in
    let base := N.max last0 t in
    if base <? hp then
      let count := N.min (hp - base) pbd in (base + count, 0, fw, Some (base + 1, count))
    else if hp <=? t then
      let start := if pbd <? hp then hp - pbd + 1 else 1 in
      let fw' := if 20 <=? fw then 0 else fw + 1 in
      if (fw =? 0) && (start <=? hp) then (base, 0, fw', Some (start, hp - start)) else (base, 0, fw', None)
    else (base, 0, fw, None).

Definition a_round (a : astate) : astate :=
  if hp <? aL a then a
  else
    let r := a_tick_height (aL a) (alast a) (await a) (afw a) in
    let st := fold_left proc (a_batch (aq a) (a_window (snd r))) (aL a, a_rot (aq a)) in
    mka (fst st) (snd st) (fst (fst (fst r))) (snd (fst (fst r))) (snd (fst r)).

Fixpoint a_iter (k : nat) (a : astate) : astate :=
  match k with O => a | S k' => a_iter k' (a_round a) end.

Lemma a_iter_add j k a : a_iter (j + k) a = a_iter k (a_iter j a).
Proof. revert a. induction j as [|j IH]; intros a; [reflexivity|]. cbn [Nat.add a_iter]. apply IH. Qed.

Lemma a_round_done a : hp < aL a -> a_round a = a.
Proof. intros H. unfold a_round. destruct (N.ltb_spec hp (aL a)); [reflexivity|lia]. Qed.

Lemma a_iter_done k a : hp < aL a -> a_iter k a = a.
Proof. intros H. induction k as [|k IH]; [reflexivity|]. cbn [a_iter]. rewrite a_round_done by exact H. exact IH. Qed.

Notation QB := (QB hp).
Notation SInv := (SInv hp).
Notation SInv_tl := (SInv_tl hp).
Notation proc_SInv := (proc_SInv hp).
Notation fold_proc_SInv := (fold_proc_SInv hp).
Notation fold_proc_keep := (fold_proc_keep hp).
Notation round_fold := (round_fold hp).

(* ------------------------------------------------------------------ the by-height part *)
Hypothesis Hpbd : 1 <= pbd.

(* the number of iterations until the by-height part makes a request *)
Definition tau (L last wait fw : N) : N :=
  (if (th L <? last) && negb (20 <? wait) then 21 - wait else 0) +
  (if th L <? hp then 0 else if fw =? 0 then 0 else if 20 <=? fw then 1 else 21 - fw).

Variable L0 : N.
Hypothesis HL0 : 1 <= L0.
(* the block just below the frontier is held *)
Hypothesis Hhd : forall L, L0 <= L -> L <= hp + 1 -> L <= hd L + 1.

(* the base of the next by-height window while the node's own height is below the peer's, and how far the frontier is
   above it *)
Definition nbase (L last : N) : N := if (th L <? last) && (last <=? hd L) && (last <? hp) then last else th L.
Definition dB (L last : N) : N := if th L <? hp then L - nbase L last else 0.

Lemma ath_wait L last wait fw : (th L <? last) && negb (20 <? wait) = true ->
  a_tick_height L last wait fw = (last, wait + 1, fw, None).
Proof. intros E. unfold a_tick_height. rewrite E. reflexivity. Qed.

Lemma ath_fire L last wait fw : (th L <? last) && negb (20 <? wait) = false ->
  a_tick_height L last wait fw =
  let base := nbase L last in
  if base <? hp then (base + N.min (hp - base) pbd, 0, fw, Some (base + 1, N.min (hp - base) pbd))
  else if hp <=? th L then
    if (fw =? 0) && ((if pbd <? hp then hp - pbd + 1 else 1) <=? hp)
    then (base, 0, if 20 <=? fw then 0 else fw + 1, Some (if pbd <? hp then hp - pbd + 1 else 1, hp - (if pbd <? hp then hp - pbd + 1 else 1)))
    else (base, 0, if 20 <=? fw then 0 else fw + 1, None)
  else (base, 0, fw, None).
Proof.
  intros E. unfold a_tick_height. rewrite E. cbn zeta.
  assert (Hb : N.max (if th L <? last then if (hd L <? last) || (hp <=? last) then th L else last else last) (th L) = nbase L last).
  { unfold nbase. destruct (N.ltb_spec (th L) last), (N.ltb_spec (hd L) last), (N.leb_spec hp last),
      (N.leb_spec last (hd L)), (N.ltb_spec last hp); cbn [orb andb]; lia. }
  rewrite Hb. reflexivity.
Qed.

(* one iteration of the by-height part: nothing requested and one iteration less to wait; or a window that contains the
   frontier or lies above it; or a window below the frontier (all duplicates), after which the next window starts higher *)
Lemma ath_cases L last wait fw : L0 <= L -> L <= hp ->
  let r := a_tick_height L last wait fw in
  (snd r = None /\ tau L (fst (fst (fst r))) (snd (fst (fst r))) (snd (fst r)) < tau L last wait fw /\
   dB L (fst (fst (fst r))) = dB L last) \/
  (exists h c, snd r = Some (h, c) /\ 1 <= h /\ h <= hp /\ (h <= L -> In L (hts h (S (N.to_nat c))))) \/
  (exists h c, snd r = Some (h, c) /\ 1 <= h /\ (forall x, In x (hts h (S (N.to_nat c))) -> x < L) /\
               dB L (fst (fst (fst r))) < dB L last).
Proof.
  intros HL1 HL2. cbn zeta. pose proof (Hhd L HL1 ltac:(lia)) as Hh.
  destruct ((th L <? last) && negb (20 <? wait)) eqn:Ec.
  - (* waiting *)
    left. rewrite (ath_wait L last wait fw Ec). cbn [fst snd]. split; [reflexivity|]. split; [|reflexivity].
    unfold tau. rewrite Ec. apply andb_prop in Ec. destruct Ec as (Ec1 & Ec2). rewrite Ec1. cbn [andb].
    destruct (N.ltb_spec 20 wait); [discriminate|]. destruct (N.ltb_spec 20 (wait + 1)); cbn [negb]; lia.
  - rewrite (ath_fire L last wait fw Ec). unfold tau. rewrite Ec. set (base := nbase L last).
    assert (Hbt : th L <= base).
    { unfold base, nbase. destruct (N.ltb_spec (th L) last), (N.leb_spec last (hd L)), (N.ltb_spec last hp); cbn [andb]; lia. }
    destruct (N.ltb_spec base hp) as [Hbh|Hbh]; cbn [fst snd].
    + (* a window above the base *)
      assert (Ht : th L < hp) by lia.
      destruct (N.le_gt_cases (base + 1) L) as [Hl|Hl]; [destruct (N.le_gt_cases L (base + 1 + N.min (hp - base) pbd)) as [Hin|Hout]|].
      * right. left. exists (base + 1), (N.min (hp - base) pbd). split; [reflexivity|]. split; [lia|]. split; [lia|].
        intros _. apply in_hts. lia.
      * right. right. exists (base + 1), (N.min (hp - base) pbd). split; [reflexivity|]. split; [lia|].
        split; [intros x Hx; apply in_hts in Hx; lia|].
        unfold dB. destruct (N.ltb_spec (th L) hp); [|lia]. fold base. unfold nbase.
        destruct (N.ltb_spec (th L) (base + N.min (hp - base) pbd)); [|lia].
        destruct (N.leb_spec (base + N.min (hp - base) pbd) (hd L)); [|lia].
        destruct (N.ltb_spec (base + N.min (hp - base) pbd) hp); [|lia]. cbn [andb]. lia.
      * right. left. exists (base + 1), (N.min (hp - base) pbd). split; [reflexivity|]. split; [lia|]. split; [lia|].
        intros Hle. lia.
    + (* the announced chain is not higher than ours *)
      assert (Ebase : base = th L).
      { unfold base, nbase in *. destruct (N.ltb_spec (th L) last), (N.leb_spec last (hd L)), (N.ltb_spec last hp); cbn [andb] in *; lia. }
      assert (Ht : hp <= th L) by lia.
      destruct (N.leb_spec hp (th L)) as [_|]; [|lia].
      set (start := if pbd <? hp then hp - pbd + 1 else 1).
      assert (Hs : 1 <= start /\ start <= hp) by (unfold start; destruct (N.ltb_spec pbd hp); lia).
      destruct (N.leb_spec start hp) as [_|]; [|lia].
      destruct (N.eqb_spec fw 0) as [->|Hfw]; cbn [andb fst snd].
      * right. left. exists start, (hp - start). split; [reflexivity|]. split; [lia|]. split; [lia|].
        intros Hle. apply in_hts. lia.
      * left. split; [reflexivity|]. split; [|unfold dB; destruct (N.ltb_spec (th L) hp); [lia|reflexivity]].
        rewrite Ebase. destruct (N.ltb_spec (th L) (th L)); [lia|]. cbn [andb].
        destruct (N.ltb_spec (th L) hp); [lia|].
        destruct (N.leb_spec 20 fw); [cbn; lia|].
        destruct (N.eqb_spec (fw + 1) 0); [lia|]. destruct (N.leb_spec 20 (fw + 1)); lia.
Qed.

Lemma window_bounds w : (match w with Some (h, c) => 1 <= h | None => True end) ->
  forall x, In x (a_window w) -> 1 <= x /\ x <= hp.
Proof. destruct w as [[h c]|]; [|intros _ x []]. intros Hh x Hx. unfold a_window in Hx. apply in_hts in Hx. lia. Qed.

Lemma ath_window_bounds L last wait fw : L0 <= L -> L <= hp ->
  forall x, In x (a_window (snd (a_tick_height L last wait fw))) -> 1 <= x /\ x <= hp.
Proof.
  intros HL1 HL2. apply window_bounds.
  destruct (ath_cases L last wait fw HL1 HL2) as [(E & _)|[(h & c & E & Hh & _)|(h & c & E & Hh & _)]]; cbn zeta in E; rewrite E;
    [exact I|exact Hh|exact Hh].
Qed.

(* ------------------------------------------------------------------ rounds *)
Definition AInv (a : astate) : Prop := L0 <= aL a /\ SInv (aL a, aq a).

Lemma batch_bounds q ws : QB q -> (forall x, In x ws -> 1 <= x /\ x <= hp) -> forall x, In x (a_batch q ws) -> 1 <= x /\ x <= hp.
Proof.
  intros HQ Hb x Hx. destruct q as [|p r]; cbn [a_batch] in Hx; [apply Hb; exact Hx|].
  apply in_ins_asc in Hx. destruct Hx as [->|Hx]; [apply HQ; left; reflexivity|apply Hb; exact Hx].
Qed.

(* what a round does to frontier and queue *)
Lemma round_spec a : AInv a -> aL a <= hp ->
  let a' := a_round a in
  let ws := a_window (snd (a_tick_height (aL a) (alast a) (await a) (afw a))) in
  AInv a' /\ aL a <= aL a' /\
  (aL a' = aL a -> aq a' = snd (fold_left proc (a_batch (aq a) ws) (aL a, tl (aq a))) /\
                   fst (fold_left proc (a_batch (aq a) ws) (aL a, tl (aq a))) = aL a).
Proof.
  intros (HL1 & HS) HL2. cbn zeta. unfold a_round. destruct (N.ltb_spec hp (aL a)) as [|_]; [lia|].
  set (r := a_tick_height (aL a) (alast a) (await a) (afw a)).
  pose proof (ath_window_bounds (aL a) (alast a) (await a) (afw a) HL1 HL2) as Hb. fold r in Hb.
  set (ws := a_window (snd r)) in *. cbn [aL aq].
  destruct (aq a) as [|p q] eqn:Eq; cbn [a_batch a_rot tl].
  - pose proof (fold_proc_SInv ws (aL a, []) HS Hb) as HS1.
    pose proof (fold_proc_mono ws (aL a, [])) as Hm. cbn [fst] in Hm.
    split; [split; [cbn [aL]; lia|exact HS1]|]. split; [exact Hm|]. intros E. split; [reflexivity|exact E].
  - destruct (round_fold (aL a) p q ws HS Hb) as (HS1 & Hm & Hk). cbn zeta in *.
    split; [split; [cbn [aL]; lia|exact HS1]|]. split; [exact Hm|]. intros E. pose proof (Hk E) as Hk'. split; [rewrite Hk'; reflexivity|rewrite <- Hk'; exact E].
Qed.

Lemma a_iter_S k a : a_iter (S k) a = a_round (a_iter k a).
Proof. replace (S k) with (k + 1)%nat by lia. rewrite a_iter_add. reflexivity. Qed.

Definition Progress (a : astate) : Prop := exists k, AInv (a_iter k a) /\ aL a < aL (a_iter k a).

(* (3) there is a live entry *)
Lemma progress_live : forall k a m, AInv a -> aL a <= hp -> mu (aL a) (aq a) = Some m ->
  (N.to_nat (m - aL a) + sig (aL a) (aq a) < k)%nat -> Progress a.
Proof.
  induction k as [|k IH]; intros a m HA HL2 Hmu Hk; [lia|].
  pose proof (round_spec a HA HL2) as (HA' & Hmono & Hkeep). cbn zeta in *.
  destruct (N.eq_dec (aL (a_round a)) (aL a)) as [E|E].
  2:{ exists 1%nat. cbn [a_iter]. split; [exact HA'|lia]. }
  destruct (Hkeep E) as (Eq & Efst).
  set (ws := a_window (snd (a_tick_height (aL a) (alast a) (await a) (afw a)))) in *.
  destruct HA as (HL1 & HS).
  pose proof (ath_window_bounds (aL a) (alast a) (await a) (afw a) HL1 HL2) as Hb. fold ws in Hb.
  destruct (aq a) as [|p q] eqn:Eaq; [discriminate|]. cbn [tl a_batch] in *.
  assert (HSq : SInv (aL a, q)) by (apply (SInv_tl (aL a) (p :: q)); exact HS).
  assert (Hbb : forall x, In x (ins_asc p ws) -> 1 <= x /\ x <= hp).
  { intros x Hx. apply in_ins_asc in Hx. destruct Hx as [->|Hx]; [|apply Hb; exact Hx].
    destruct HS as (_ & _ & _ & HQ). apply HQ. left. reflexivity. }
  destruct (fold_proc_keep (ins_asc p ws) (aL a) q HSq Hbb Efst) as (K1 & K2 & K3 & K4). cbn zeta in *.
  rewrite <- Eq in K1, K2, K3, K4.
  assert (Hpin : In p (ins_asc p ws)) by (apply in_ins_asc; left; reflexivity).
  assert (Hstep : exists m', mu (aL a) (aq (a_round a)) = Some m' /\
                    (N.to_nat (m' - aL a) + sig (aL a) (aq (a_round a)) < N.to_nat (m - aL a) + sig (aL a) (p :: q))%nat).
  { destruct (N.ltb_spec p (aL a)) as [Hst|Hlv].
    - (* stale head *)
      assert (Hmuq : mu (aL a) q = Some m).
      { unfold mu, lives in *. cbn [filter] in Hmu. destruct (N.leb_spec (aL a) p); [lia|exact Hmu]. }
      destruct (K2 m Hmuq) as (m' & Hm' & Hle). exists m'. split; [exact Hm'|].
      assert (sig (aL a) (p :: q) = S (sig (aL a) q)).
      { unfold sig. cbn [filter]. destruct (N.ltb_spec p (aL a)); [reflexivity|lia]. }
      apply mu_in in Hm'. lia.
    - (* live head: it is the lowest live entry *)
      assert (Hpm : p = m).
      { unfold mu, lives in Hmu. cbn [filter] in Hmu. destruct (N.leb_spec (aL a) p); [|lia]. cbn in Hmu. congruence. }
      subst p.
      assert (Hne : m <> aL a).
      { intros Em. pose proof (fold_proc_hit (ins_asc m ws) (aL a) q) as Hh. rewrite <- Em in Hh at 1. specialize (Hh Hpin). lia. }
      destruct (K3 m Hpin ltac:(lia)) as (m' & Hm' & Hle). exists m'. split; [exact Hm'|].
      assert (sig (aL a) (m :: q) = sig (aL a) q).
      { unfold sig. cbn [filter]. destruct (N.ltb_spec m (aL a)); [lia|reflexivity]. }
      apply mu_in in Hm'. lia. }
  destruct Hstep as (m' & Hm' & Hlt).
  destruct (IH (a_round a) m' HA' ltac:(lia)) as (j & HAj & Hj).
  - rewrite E. exact Hm'.
  - rewrite E. lia.
  - exists (S j). cbn [a_iter]. split; [exact HAj|lia].
Qed.

(* a batch below the frontier leaves a queue without live entries without live entries *)
Lemma fold_proc_below xs : forall st, (forall x, In x xs -> x < fst st) -> (forall y, In y (snd st) -> y < fst st) ->
  forall y, In y (snd (fold_left proc xs st)) -> y < fst st.
Proof.
  induction xs as [|x xs IHx]; intros st Hxs Hst y Hy; [apply Hst; exact Hy|]. cbn [fold_left] in Hy.
  assert (Hx : x < fst st) by (apply Hxs; left; reflexivity).
  assert (Ep : proc st x = (fst st, a_rm (snd st) x)) by (unfold proc; destruct (N.ltb_spec x (fst st)); [reflexivity|lia]).
  rewrite Ep in Hy. apply (IHx (fst st, a_rm (snd st) x)); cbn [fst snd].
  - intros z Hz. apply Hxs. right. exact Hz.
  - intros z Hz. apply in_a_rm in Hz. apply Hst. apply Hz.
  - exact Hy.
Qed.

(* (2) no live entry: wait for the by-height part; its windows move up until they reach the frontier *)
Lemma progress_wait : forall kd kt a, AInv a -> aL a <= hp -> mu (aL a) (aq a) = None ->
  (N.to_nat (dB (aL a) (alast a)) < kd)%nat ->
  (N.to_nat (tau (aL a) (alast a) (await a) (afw a)) < kt)%nat -> Progress a.
Proof.
  induction kd as [|kd IHd]; [intros; lia|].
  induction kt as [|kt IHt]; intros a HA HL2 Hmu Hd Hk; [lia|].
  pose proof (round_spec a HA HL2) as (HA' & Hmono & Hkeep). cbn zeta in *.
  destruct (N.eq_dec (aL (a_round a)) (aL a)) as [E|E].
  2:{ exists 1%nat. cbn [a_iter]. split; [exact HA'|lia]. }
  destruct (Hkeep E) as (Eq & Efst).
  destruct HA as (HL1 & HS).
  pose proof (ath_window_bounds (aL a) (alast a) (await a) (afw a) HL1 HL2) as Hb.
  pose proof (ath_cases (aL a) (alast a) (await a) (afw a) HL1 HL2) as Hc. cbn zeta in Hc.
  set (r := a_tick_height (aL a) (alast a) (await a) (afw a)) in *.
  assert (HSt : SInv (aL a, tl (aq a))) by (apply SInv_tl; exact HS).
  assert (Hbb : forall x, In x (a_batch (aq a) (a_window (snd r))) -> 1 <= x /\ x <= hp).
  { apply batch_bounds; [apply HS|exact Hb]. }
  destruct (fold_proc_keep _ (aL a) (tl (aq a)) HSt Hbb Efst) as (K1 & K2 & K3 & K4). cbn zeta in *.
  rewrite <- Eq in K1, K2, K3, K4.
  pose proof (mu_none _ _ Hmu) as Hall.
  (* a round whose window is below the frontier leaves no live entry *)
  assert (Hnolive : (forall x, In x (a_window (snd r)) -> x < aL a) -> mu (aL (a_round a)) (aq (a_round a)) = None).
  { intros Hw. rewrite E. apply mu_none_intro. intros y Hy. rewrite Eq in Hy.
    apply (fold_proc_below (a_batch (aq a) (a_window (snd r))) (aL a, tl (aq a))); cbn [fst snd].
    - intros x Hx. destruct (aq a) as [|p q]; cbn [a_batch] in Hx; [apply Hw; exact Hx|].
      apply in_ins_asc in Hx. destruct Hx as [->|Hx]; [apply Hall; left; reflexivity|apply Hw; exact Hx].
    - intros z Hz. apply Hall. destruct (aq a) as [|p q]; [destruct Hz|right; exact Hz].
    - exact Hy. }
  assert (Elast : alast (a_round a) = fst (fst (fst r)) /\ await (a_round a) = snd (fst (fst r)) /\ afw (a_round a) = snd (fst r)).
  { unfold a_round. destruct (N.ltb_spec hp (aL a)); [lia|]. cbn [alast await afw]. fold r. repeat split. }
  destruct Elast as (El & Ew' & Ef).
  destruct Hc as [(Ew & Htau & HdB)|[(h & c & Ew & Hh1 & Hh2 & Hin)|(h & c & Ew & Hh1 & Hbelow & HdB)]].
  - (* nothing requested by height: still no live entry, one iteration less to wait *)
    assert (Hp : Progress (a_round a)).
    2:{ destruct Hp as (j & HAj & Hj). exists (S j). cbn [a_iter]. split; [exact HAj|lia]. }
    apply (IHt (a_round a) HA'); [lia| | |].
    + apply Hnolive. rewrite Ew. intros x [].
    + rewrite E, El, HdB. exact Hd.
    + rewrite E, El, Ew', Ef. lia.
  - (* a window that contains the frontier or lies above it *)
    assert (Hws : forall x, In x (a_window (snd r)) -> In x (a_batch (aq a) (a_window (snd r)))).
    { intros x Hx. destruct (aq a) as [|p q]; cbn [a_batch]; [exact Hx|apply in_ins_asc; right; exact Hx]. }
    destruct (N.le_gt_cases h (aL a)) as [Hle|Hgt].
    + exfalso. specialize (Hin Hle).
      assert (Hin' : In (aL a) (a_window (snd r))) by (rewrite Ew; exact Hin).
      pose proof (fold_proc_hit _ (aL a) (tl (aq a)) (Hws _ Hin')). lia.
    + (* every block of the window is an orphan: the parent of the lowest one is queued *)
      assert (Hhin : In h (a_window (snd r))).
      { rewrite Ew. cbn [a_window]. apply in_hts. lia. }
      destruct (K3 h (Hws _ Hhin) Hgt) as (m' & Hm' & _).
      destruct (progress_live (S (N.to_nat (m' - aL (a_round a)) + sig (aL (a_round a)) (aq (a_round a)))) (a_round a) m' HA')
        as (j & HAj & Hj); [lia|rewrite E; exact Hm'|lia|].
      exists (S j). cbn [a_iter]. split; [exact HAj|lia].
  - (* a window below the frontier: duplicates only; the next window starts higher *)
    assert (Hp : Progress (a_round a)).
    2:{ destruct Hp as (j & HAj & Hj). exists (S j). cbn [a_iter]. split; [exact HAj|lia]. }
    apply (IHd (S (N.to_nat (tau (aL (a_round a)) (alast (a_round a)) (await (a_round a)) (afw (a_round a))))) (a_round a) HA'); [lia| | |lia].
    + apply Hnolive. rewrite Ew. exact Hbelow.
    + rewrite E, El. lia.
Qed.

Lemma progress a : AInv a -> aL a <= hp -> Progress a.
Proof.
  intros HA HL2. destruct (mu (aL a) (aq a)) as [m|] eqn:Hmu.
  - eapply (progress_live (S (N.to_nat (m - aL a) + sig (aL a) (aq a)))); [exact HA|exact HL2|exact Hmu|lia].
  - eapply (progress_wait (S (N.to_nat (dB (aL a) (alast a)))) (S (N.to_nat (tau (aL a) (alast a) (await a) (afw a)))));
      [exact HA|exact HL2|exact Hmu|lia|lia].
Qed.

(* (1) the frontier passes the peer's height *)
Theorem a_catches_up a : AInv a -> exists k, AInv (a_iter k a) /\ hp < aL (a_iter k a).
Proof.
  intros HA. remember (N.to_nat (hp + 1 - aL a)) as d eqn:Ed. revert a HA Ed.
  induction d as [d IH] using lt_wf_ind. intros a HA Ed.
  destruct (N.lt_ge_cases hp (aL a)) as [Hdone|Hle].
  - exists O. split; [exact HA|exact Hdone].
  - destruct (progress a HA Hle) as (k & HAk & Hk).
    destruct (IH (N.to_nat (hp + 1 - aL (a_iter k a))) ltac:(lia) (a_iter k a) HAk eq_refl) as (j & HAj & Hj).
    exists (k + j)%nat. rewrite a_iter_add. split; assumption.
Qed.

(* once the frontier has passed, nothing changes any more *)
Corollary a_catches_up_stable a : AInv a -> exists k, forall k', (k <= k')%nat -> hp < aL (a_iter k' a) /\ a_iter k' a = a_iter k a.
Proof.
  intros HA. destruct (a_catches_up a HA) as (k & _ & Hk). exists k. intros k' Hle.
  replace k' with (k + (k' - k))%nat by lia. rewrite a_iter_add. rewrite a_iter_done by exact Hk. split; [exact Hk|reflexivity].
Qed.

End AMachine.
