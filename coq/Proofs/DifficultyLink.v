(* The retarget function of the node model (Model/Node.v, used by check_block and by every node-level theorem) and the
   word-level transcription of difficulty.go over util/uint128 (Model/Difficulty.v, the subject of the C08 theorems)
   were written independently; they compute the same function.  Consequently the C08 theorems (closed form, bounds,
   monotonicity, floor) hold of the difficulty that validation (C05, clause 2) demands. *)
From Coq Require Import ZArith Lia.
From Virel Require Import Lib.Config Lib.U64 Lib.U128 Model.Ledger.
From Virel Require Model.Node Model.Difficulty.
From Virel Require Import Proofs.U128 Proofs.Difficulty.
Open Scope N_scope.

Definition same_outcome (a : res N) (b : outcome N) : Prop :=
  match a, b with
  | Ledger.Ok x, U128.Ok y => x = y
  | Ledger.Panic _, U128.Panic => True
  | _, _ => False
  end.

Lemma to_int64_agree x : x < two64 -> Node.to_int64 x = Difficulty.to_int64 x.
Proof.
  intros H. unfold Node.to_int64, Difficulty.to_int64. rewrite N.mod_small by exact H. reflexivity.
Qed.

Lemma wrap_int64_agree z :
  Node.to_int64 (Z.to_N (z mod 18446744073709551616)%Z) = Difficulty.wrap_int64 z.
Proof.
  unfold Node.to_int64, Difficulty.wrap_int64.
  assert (Hm : (0 <= z mod 18446744073709551616 < 18446744073709551616)%Z) by (apply Z.mod_pos_bound; lia).
  set (m := (z mod 18446744073709551616)%Z) in *.
  assert (Hn : Z.to_N m < two64) by (unfold two64; lia).
  rewrite N.mod_small by exact Hn.
  change (Z.of_N two63) with 9223372036854775808%Z. change (Z.of_N two64) with 18446744073709551616%Z.
  destruct (N.ltb_spec (Z.to_N m) 9223372036854775808) as [Hl|Hl]; rewrite Z2N.id by lia; unfold m in *; lia.
Qed.

Section Link.
Variable cfg : config.
Hypothesis Hok : cfg_ok_difficulty cfg = true.

Lemma ema_agree st d : st < two64 -> d < two128 ->
  same_outcome (Node.difficulty_ema cfg st d) (Difficulty.difficulty_ema cfg st d).
Proof.
  intros Hst Hd. unfold Node.difficulty_ema, Difficulty.difficulty_ema, Difficulty.target_ms.
  destruct (C_facts cfg Hok) as (HT & HC & HC28 & HCT & HNT).
  set (nt := difficulty_n cfg * (target_block_time cfg * 1000)) in *.
  set (T := target_block_time cfg * 1000) in *.
  assert (Hnt64 : nt < two64) by exact HNT.
  unfold Ledger.mul64. rewrite (mul64_spec d nt Hd Hnt64).
  destruct (N.ltb_spec (d * nt) two128) as [Hp|Hp]; cbn [Ledger.bind U128.bind same_outcome]; [|exact I].
  assert (Hw : wsub nt T = nt - T) by (apply wsub_small; lia).
  rewrite Hw.
  set (den := wadd (nt - T) st).
  assert (Hden : den < two64) by apply wrap_lt.
  rewrite (div64_spec (d * nt) den Hp Hden).
  destruct (den =? 0); cbn [same_outcome]; [exact I|reflexivity].
Qed.

Lemma lttc_agree h ts delta : ts < two64 ->
  (if genesis_timestamp cfg =? 0 then delta
   else
     let expected := wadd (wmul (wmul h (target_block_time cfg)) 1000) (genesis_timestamp cfg) in
     let devi := (Node.to_int64 ts - Node.to_int64 expected)%Z in
     let devw := Node.to_int64 (Z.to_N (devi mod 18446744073709551616)%Z) in
     let maxdev := Z.of_N (target_block_time cfg * 1000 * 2 * difficulty_n cfg) in
     if (maxdev <? devw)%Z then wmul delta 3 / 2
     else if (devw <? - maxdev)%Z then wmul delta 2 / 3
     else delta) = Difficulty.lttc_adjust cfg h ts delta.
Proof.
  intros Hts. unfold Difficulty.lttc_adjust, Difficulty.max_deviation.
  destruct (genesis_timestamp cfg =? 0); [reflexivity|]. cbv zeta.
  rewrite wrap_int64_agree. rewrite (to_int64_agree ts Hts).
  rewrite (to_int64_agree (wadd _ _)) by apply wrap_lt. reflexivity.
Qed.

(* GetNextDifficulty for a parent at height >= 2 *)
Theorem next_difficulty_agree h ts d gts :
  2 <= h -> ts < two64 -> d < two128 ->
  same_outcome (Node.next_difficulty cfg h ts d gts) (Difficulty.next_difficulty cfg h ts d gts).
Proof.
  intros Hh Hts Hd. unfold Node.next_difficulty, Difficulty.next_difficulty.
  destruct (N.ltb_spec h 2) as [Hlt|_]; [lia|]. cbv zeta.
  set (delta1 := if wsub ts gts <? 100 then 100 else wsub ts gts).
  pose proof (lttc_agree h ts delta1 Hts) as L. cbv zeta in L. rewrite L. clear L.
  set (delta2 := Difficulty.lttc_adjust cfg h ts delta1).
  assert (H1 : delta1 < two64).
  { unfold delta1. destruct (wsub ts gts <? 100); [reflexivity|apply wrap_lt]. }
  assert (H2 : delta2 < two64).
  { unfold delta2, Difficulty.lttc_adjust. destruct (genesis_timestamp cfg =? 0); [exact H1|]. cbv zeta.
    destruct (_ <? _)%Z; [|destruct (_ <? _)%Z; [|exact H1]].
    - pose proof (wrap_lt (delta1 * 3)) as Hw. unfold wmul. apply N.le_lt_trans with (wrap (delta1 * 3)); [|exact Hw].
      apply N.div_le_upper_bound; lia.
    - pose proof (wrap_lt (delta1 * 2)) as Hw. unfold wmul. apply N.le_lt_trans with (wrap (delta1 * 2)); [|exact Hw].
      apply N.div_le_upper_bound; lia. }
  pose proof (ema_agree delta2 d H2 Hd) as He.
  destruct (Node.difficulty_ema cfg delta2 d) as [x|c|c]; destruct (Difficulty.difficulty_ema cfg delta2 d) as [y|];
    cbn [same_outcome] in He; try contradiction; cbn [Ledger.bind U128.bind same_outcome]; [|exact I].
  subst y. destruct (ok_facts cfg Hok) as (_ & _ & _ & Hmin & _).
  rewrite (cmp64_spec x (min_difficulty cfg) Hmin), from64_eq.
  destruct (N.ltb_spec x (min_difficulty cfg)) as [Hl|Hl]; destruct (N.compare_spec x (min_difficulty cfg)); try lia; reflexivity.
Qed.
End Link.
