(* Property C05, clause 10 (at most max_side_blocks side blocks): validation (PrevalidateBlock, checkBlock) does not
   count the side blocks (Proofs/WellFormed2.v, [accepted_nsides_refuted]); the only place of the code that does is the
   wire decoder Block.Deserialize / DeserializeFull.  Every header, stored-form block and wire-form block the decoder
   model returns on a byte string has at most max_side_blocks side blocks. *)
From Virel Require Import Lib.Config Lib.U64 Model.Des Model.Codec Model.CodecBlock
  Proofs.Des Proofs.DesSafe Proofs.DesVal Proofs.CodecBlockWf.
Open Scope N_scope.

Section Decoder.
Variable cfg : config.
Hypothesis Hok : cfg_ok_block cfg = true.

Lemma wf_header_nsides h : wf_header cfg h = true -> blen (hd_side h) <= max_side_blocks cfg.
Proof.
  unfold wf_header. intros H.
  apply andb_prop in H; destruct H as [H _]. apply andb_prop in H; destruct H as [H _].
  apply andb_prop in H; destruct H as [_ H]. apply N.leb_le. exact H.
Qed.

Lemma vinv_init bs : bytes bs -> vinv (blen bs) (init bs).
Proof. intros Hb. split; [exact Hb|]. cbn. lia. Qed.

Lemma bind_ok {A B} (m : M A) (f : A -> M B) s r s' :
  bind m f s = MOk r s' -> exists a s1, m s = MOk a s1 /\ f a s1 = MOk r s'.
Proof. unfold bind. destruct (m s) as [a s1| |]; [|discriminate|discriminate]. intros H. exists a, s1. split; [reflexivity|exact H]. Qed.

Theorem decoded_header_nsides bs h s' : bytes bs -> blen bs < two64 ->
  run (dec_header cfg) bs = MOk h s' -> blen (hd_side h) <= max_side_blocks cfg.
Proof.
  intros Hb HL H. pose proof (vsafe_dec_header cfg Hok (blen bs) HL (init bs) (vinv_init bs Hb)) as V.
  unfold run in H. rewrite H in V. apply wf_header_nsides. exact (proj1 V).
Qed.

(* stored form (Block.Deserialize) *)
Theorem decoded_block_nsides bs b s' : bytes bs -> blen bs < two64 ->
  run (dec_block cfg) bs = MOk b s' -> blen (hd_side (bl_header b)) <= max_side_blocks cfg.
Proof.
  intros Hb HL H. pose proof (vsafe_dec_block cfg Hok (blen bs) HL (init bs) (vinv_init bs Hb)) as V.
  unfold run in H. rewrite H in V. apply wf_header_nsides. exact (proj1 (proj1 V)).
Qed.

(* wire form (Block.DeserializeFull), the form in which peers deliver blocks *)
Theorem decoded_full_block_nsides bs b txs s' : bytes bs -> blen bs < two64 ->
  run (dec_full_block cfg) bs = MOk (b, txs) s' -> blen (hd_side (bl_header b)) <= max_side_blocks cfg.
Proof.
  intros Hb HL H. unfold run, dec_full_block in H.
  apply bind_ok in H. destruct H as (h & s1 & Hh & H).
  pose proof (vsafe_dec_header cfg Hok (blen bs) HL (init bs) (vinv_init bs Hb)) as V. rewrite Hh in V.
  apply bind_ok in H. destruct H as (diff & s2 & _ & H).
  apply bind_ok in H. destruct H as (cum & s3 & _ & H).
  apply bind_ok in H. destruct H as (ntx & s4 & _ & H).
  apply bind_ok in H. destruct H as (u & s5 & _ & H).
  destruct (max_tx_per_block cfg <? ntx); [discriminate|].
  apply bind_ok in H. destruct H as (u' & s6 & _ & H).
  apply bind_ok in H. destruct H as (txs' & s7 & _ & H).
  unfold ret_err in H. destruct (d_err s7); [discriminate|]. injection H as <- _ _.
  cbn [bl_header]. apply wf_header_nsides. exact (proj1 V).
Qed.

End Decoder.
