(* Lemmas about the association-list maps of Lib/AMap.v. *)
From Virel Require Import Lib.U64 Lib.AMap.
Open Scope N_scope.

Section NMap.
Context {V : Type}.

Lemma nget_nset_same (m : list (N * V)) k v : nget (nset m k v) k = Some v.
Proof.
  unfold nget, nset. induction m as [|[k' v'] m IH]; cbn.
  - rewrite N.eqb_refl. reflexivity.
  - destruct (N.eqb_spec k k') as [E|E]; cbn.
    + rewrite N.eqb_refl. reflexivity.
    + destruct (N.eqb_spec k k'); [contradiction|]. exact IH.
Qed.

Lemma nget_nset_other (m : list (N * V)) k v k' : k' <> k -> nget (nset m k v) k' = nget m k'.
Proof.
  intros Hne. unfold nget, nset. induction m as [|[k0 v0] m IH]; cbn.
  - destruct (N.eqb_spec k' k); [contradiction|reflexivity].
  - destruct (N.eqb_spec k k0) as [E|E]; cbn.
    + subst k0. destruct (N.eqb_spec k' k); [contradiction|reflexivity].
    + destruct (N.eqb_spec k' k0); [reflexivity|exact IH].
Qed.

Lemma nget_nset (m : list (N * V)) k v k' :
  nget (nset m k v) k' = if k' =? k then Some v else nget m k'.
Proof.
  destruct (N.eqb_spec k' k) as [->|E]; [apply nget_nset_same|apply nget_nset_other; exact E].
Qed.

Definition keys (m : list (N * V)) : list N := map fst m.

Lemma keys_nset_in (m : list (N * V)) k v x : In x (keys (nset m k v)) <-> x = k \/ In x (keys m).
Proof.
  unfold keys, nset. induction m as [|[k0 v0] m IH]; cbn.
  - intuition.
  - destruct (N.eqb_spec k k0) as [E|E]; cbn.
    + subst. intuition.
    + rewrite IH. intuition.
Qed.

Lemma nodup_nset (m : list (N * V)) k v : NoDup (keys m) -> NoDup (keys (nset m k v)).
Proof.
  unfold keys, nset. induction m as [|[k0 v0] m IH]; cbn; intros H.
  - constructor; [intros []|constructor].
  - inversion H as [|? ? Hn Hd]; subst.
    destruct (N.eqb_spec k k0) as [E|E]; cbn.
    + subst. constructor; assumption.
    + constructor.
      * intros Hin. apply (keys_nset_in m k v k0) in Hin. destruct Hin as [Hin|Hin]; [congruence|contradiction].
      * apply IH. exact Hd.
Qed.

Lemma nget_in_keys (m : list (N * V)) k v : nget m k = Some v -> In k (keys m).
Proof.
  unfold nget, keys. induction m as [|[k0 v0] m IH]; cbn; [discriminate|].
  destruct (N.eqb_spec k k0) as [E|E]; [left; congruence|]. intros H. right. apply IH. exact H.
Qed.

Lemma nget_none_not_in (m : list (N * V)) k : nget m k = None -> ~ In k (keys m).
Proof.
  unfold nget, keys. induction m as [|[k0 v0] m IH]; cbn; [intros _ []|].
  destruct (N.eqb_spec k k0) as [E|E]; [discriminate|]. intros H [Hin|Hin]; [congruence|]. apply IH; assumption.
Qed.

(* sum of a measure over the values *)
Variable f : V -> N.
Definition sumf (m : list (N * V)) : N := fold_right (fun kv acc => f (snd kv) + acc) 0 m.

Definition fopt (o : option V) : N := match o with Some v => f v | None => 0 end.

Lemma sumf_nset (m : list (N * V)) k v :
  sumf (nset m k v) + fopt (nget m k) = sumf m + f v.
Proof.
  unfold sumf, nset, nget. induction m as [|[k0 v0] m IH]; cbn.
  - lia.
  - destruct (N.eqb_spec k k0) as [E|E]; cbn.
    + lia.
    + cbn in IH. lia.
Qed.

Lemma sumf_ge_get (m : list (N * V)) k : fopt (nget m k) <= sumf m.
Proof.
  unfold sumf, nget. induction m as [|[k0 v0] m IH]; cbn.
  - lia.
  - destruct (N.eqb_spec k k0); cbn in *; lia.
Qed.

End NMap.
