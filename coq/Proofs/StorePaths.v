(* The premise [paths] of "the ledger is the replay of the main chain" (Proofs/Replay4.v store_pre, second half: along
   every chain of stored blocks from genesis the block hashes and transaction ids are pairwise distinct and the counters
   cannot wrap) follows from a condition on the STORE as a whole: the hashes and transaction ids of all stored blocks are
   pairwise distinct and the counters summed over all stored blocks stay below 2^64.  (A chain of stored blocks lists
   distinct stored blocks: heights grow along it.)  Generalises Replay6.paths_txfree to stores with transactions. *)
From Virel Require Import Lib.Config Lib.U64 Lib.AMap Model.Emission Model.Ledger Model.Node Spec.Chain
  Proofs.AMapLemmas Proofs.Conservation Proofs.NodeBasics Proofs.ForkChoice Proofs.ChainInv
  Proofs.Undo Proofs.Undo2 Proofs.Replay3 Proofs.Replay4 Proofs.Replay6.
Open Scope N_scope.
Open Scope bool_scope.

Section Generic.
Context {A B : Type}.

Lemma nodup_app_l' (a b : list B) : NoDup (a ++ b) -> NoDup a.
Proof.
  induction a as [|x a IH]; [constructor|]. cbn [app]. intros H. inversion H as [|? ? Hn Hd]; subst.
  constructor; [|apply IH; exact Hd]. intros Hin. apply Hn. apply in_or_app. left. exact Hin.
Qed.
Lemma nodup_app_r' (a b : list B) : NoDup (a ++ b) -> NoDup b.
Proof. induction a as [|x a IH]; [exact (fun H => H)|]. cbn [app]. intros H. inversion H; subst. apply IH. assumption. Qed.
Lemma nodup_app_disj (a b : list B) k : NoDup (a ++ b) -> In k a -> In k b -> False.
Proof.
  induction a as [|x a IH]; [intros _ []|]. cbn [app]. intros H [<-|Hin] Hb; inversion H as [|? ? Hn Hd]; subst.
  - apply Hn. apply in_or_app. right. exact Hb.
  - exact (IH Hd Hin Hb).
Qed.
Lemma nodup_app_intro (a b : list B) : NoDup a -> NoDup b -> (forall k, In k a -> In k b -> False) -> NoDup (a ++ b).
Proof.
  induction a as [|x a IH]; intros Ha Hb Hd; [exact Hb|]. cbn [app]. inversion Ha as [|? ? Hn Ha']; subst. constructor.
  - intros Hin. apply in_app_or in Hin. destruct Hin as [Hin|Hin]; [exact (Hn Hin)|]. apply (Hd x); [left; reflexivity|exact Hin].
  - apply IH; [exact Ha'|exact Hb|]. intros k Hk. apply Hd. right. exact Hk.
Qed.
Lemma nodup_app_drop_mid (a b c : list B) : NoDup (a ++ b ++ c) -> NoDup (a ++ c).
Proof.
  induction b as [|x b IH]; [exact (fun H => H)|]. cbn [app]. intros H. apply IH. exact (NoDup_remove_1 _ _ _ H).
Qed.

Variable f : A -> list B.

(* distinct elements of [all]: their images are disjoint when those of [all] are *)
Lemma nodup_flat_map_sub : forall l all, NoDup l -> incl l all -> NoDup (flat_map f all) -> NoDup (flat_map f l).
Proof.
  induction l as [|x l IH]; intros all Hnd Hincl Hall; [constructor|]. cbn [flat_map].
  inversion Hnd as [|? ? Hnx Hnd']; subst.
  destruct (in_split x all (Hincl x (or_introl eq_refl))) as (a1 & a2 & ->).
  rewrite flat_map_app in Hall. cbn [flat_map] in Hall.
  assert (Hincl' : incl l (a1 ++ a2)).
  { intros y Hy. specialize (Hincl y (or_intror Hy)). apply in_app_or in Hincl. apply in_or_app.
    destruct Hincl as [H|[H|H]]; [left; exact H|subst y; contradiction|right; exact H]. }
  assert (Hall' : NoDup (flat_map f (a1 ++ a2))) by (rewrite flat_map_app; exact (nodup_app_drop_mid _ _ _ Hall)).
  apply nodup_app_intro.
  - exact (nodup_app_l' _ _ (nodup_app_r' _ _ Hall)).
  - exact (IH _ Hnd' Hincl' Hall').
  - intros k Hkx Hkl. apply in_flat_map in Hkl. destruct Hkl as (y & Hy & Hky).
    specialize (Hincl' y Hy). apply in_app_or in Hincl'. destruct Hincl' as [H1|H2].
    + apply (nodup_app_disj _ _ k Hall); [apply in_flat_map; exists y; split; assumption|apply in_or_app; left; exact Hkx].
    + apply (nodup_app_disj _ _ k (nodup_app_r' _ _ Hall)); [exact Hkx|apply in_flat_map; exists y; split; assumption].
Qed.

End Generic.

Section Sums.
Context {A : Type}.
Variable w : A -> N.
Definition wsum (l : list A) : N := fold_right (fun b acc => w b + acc) 0 l.
Lemma wsum_app a b : wsum (a ++ b) = wsum a + wsum b.
Proof. induction a as [|x a IH]; [reflexivity|]. cbn [app wsum fold_right]. fold (wsum (a ++ b)). fold (wsum a). rewrite IH. lia. Qed.

Lemma wsum_sub : forall l all, NoDup l -> incl l all -> wsum l <= wsum all.
Proof.
  induction l as [|x l IH]; intros all Hnd Hincl; [cbn; lia|].
  inversion Hnd as [|? ? Hnx Hnd']; subst.
  destruct (in_split x all (Hincl x (or_introl eq_refl))) as (a1 & a2 & ->).
  assert (Hincl' : incl l (a1 ++ a2)).
  { intros y Hy. specialize (Hincl y (or_intror Hy)). apply in_app_or in Hincl. apply in_or_app.
    destruct Hincl as [H|[H|H]]; [left; exact H|subst y; contradiction|right; exact H]. }
  specialize (IH _ Hnd' Hincl'). rewrite wsum_app in IH |- *. cbn [wsum fold_right] in *. fold (wsum a2). fold (wsum l). lia.
Qed.
End Sums.

(* boolean test for distinct numbers *)
Fixpoint nodupb (l : list N) : bool :=
  match l with [] => true | x :: r => negb (existsb (N.eqb x) r) && nodupb r end.
Lemma nodupb_ok l : nodupb l = true -> NoDup l.
Proof.
  induction l as [|x l IH]; [constructor|]. cbn [nodupb]. intros H. apply andb_prop in H. destruct H as [H1 H2].
  constructor; [|apply IH; exact H2]. intros Hin. apply Bool.negb_true_iff in H1.
  assert (existsb (N.eqb x) l = true) by (apply existsb_exists; exists x; split; [exact Hin|apply N.eqb_refl]). congruence.
Qed.

Theorem paths_of_store g bl :
  BInv (b_hash g) bl -> nget bl (b_hash g) = Some g ->
  let all := map snd bl in
  NoDup (flat_map bkeys all) -> c0 g + bnouts all < two64 -> c0 g + bntx all < two64 ->
  forall bs, up (b_hash g) bl (b_hash g) bs ->
    NoDup (bkeys g ++ flat_map bkeys bs) /\ c0 g + bnouts bs < two64 /\ c0 g + bntx bs < two64.
Proof.
  intros HB Hg all Hnd Hc1 Hc2 bs Hup.
  destruct (up_heights_grow _ _ bs _ g HB Hg Hup) as (_ & Hndh & _).
  assert (Hndb : NoDup bs) by (exact (NoDup_map_inv _ _ Hndh)).
  assert (Hin : forall c, In c bs -> In c all).
  { intros c Hc. pose proof (up_stored _ _ _ _ _ Hup Hc) as Hs. apply nget_in in Hs.
    unfold all. apply in_map_iff. exists (b_hash c, c). split; [reflexivity|exact Hs]. }
  assert (Hgn : ~ In g bs) by (intros Hc; exact (up_not_genesis _ _ _ _ _ Hup Hc eq_refl)).
  assert (Hgall : In g all).
  { apply nget_in in Hg. unfold all. apply in_map_iff. exists (b_hash g, g). split; [reflexivity|exact Hg]. }
  split; [|split].
  - change (NoDup (flat_map bkeys (g :: bs))). apply (nodup_flat_map_sub bkeys _ all); [constructor; assumption| |exact Hnd].
    intros c [<-|Hc]; [exact Hgall|apply Hin; exact Hc].
  - pose proof (wsum_sub (fun b => nouts_sum (b_txs b) + 4) bs all Hndb Hin) as Hle.
    change (bnouts bs <= bnouts all) in Hle. lia.
  - pose proof (wsum_sub (fun b => N.of_nat (length (b_txs b))) bs all Hndb Hin) as Hle.
    change (bntx bs <= bntx all) in Hle. lia.
Qed.
