(* Property C02, "each transaction changes the ledger exactly once" - the at-most-once half as a theorem about chains.
   ApplyTxToState accepts a transaction only with the signer's next nonce and then advances that nonce by one; nothing else
   ever writes a nonce (credits, debits, the staking operations and the coinbase keep it).  Hence along every chain of
   blocks that applies, the nonces of one signer's transactions, in chain order, are x+1, x+2, ... (x = the signer's nonce
   before the chain; uint64 arithmetic, i.e. modulo 2^64, exactly as the code computes), the signer's final nonce is
   x + the number of its transactions, and - as long as that does not pass 2^64 - no two transaction occurrences of the
   chain share (signer, nonce). *)
From Coq Require Import Arith.
From Virel Require Import Lib.Config Lib.U64 Lib.AMap Model.Emission Model.Ledger Proofs.AMapLemmas Proofs.Emission
  Proofs.Conservation Proofs.Pointwise Proofs.Undo.
Open Scope N_scope.
Open Scope bool_scope.

Definition nonce_at (l : ledger) (a : N) : N := nonce (acct_at l a).

(* x+1, x+2, ..., x+k in uint64 arithmetic; x+k *)
Fixpoint nonce_seq (x : N) (k : nat) : list N :=
  match k with O => [] | S k' => wadd x 1 :: nonce_seq (wadd x 1) k' end.
Fixpoint nonce_after (x : N) (k : nat) : N :=
  match k with O => x | S k' => nonce_after (wadd x 1) k' end.

Lemma nonce_seq_app x m : forall k, nonce_seq x (k + m) = nonce_seq x k ++ nonce_seq (nonce_after x k) m.
Proof.
  intros k. revert x. induction k as [|k IH]; intros x; [reflexivity|].
  cbn [Nat.add nonce_seq nonce_after app]. rewrite IH. reflexivity.
Qed.
Lemma nonce_after_app x m : forall k, nonce_after x (k + m) = nonce_after (nonce_after x k) m.
Proof.
  intros k. revert x. induction k as [|k IH]; intros x; [reflexivity|].
  cbn [Nat.add nonce_after]. apply IH.
Qed.

(* without wrap-around *)
Lemma nonce_after_small k : forall x, x + N.of_nat k < two64 -> nonce_after x k = x + N.of_nat k.
Proof.
  induction k as [|k IH]; intros x Hx; cbn [nonce_after]; [lia|].
  rewrite wadd_small by lia. rewrite IH by lia. lia.
Qed.
Lemma nonce_seq_small k : forall x, x + N.of_nat k < two64 ->
  nonce_seq x k = map (fun i => x + N.of_nat i) (seq 1 k).
Proof.
  induction k as [|k IH]; intros x Hx; cbn [nonce_seq seq map]; [reflexivity|].
  rewrite wadd_small by lia. f_equal; try lia. rewrite IH by lia.
  rewrite <- (seq_shift k 1), map_map. apply map_ext. intros i. lia.
Qed.
Lemma nonce_seq_range k : forall x y, x + N.of_nat k < two64 -> In y (nonce_seq x k) -> x < y <= x + N.of_nat k.
Proof.
  induction k as [|k IH]; intros x y Hx; cbn [nonce_seq In]; [intros []|].
  rewrite wadd_small by lia. intros [<-|Hin]; [lia|]. specialize (IH (x + 1) y ltac:(lia) Hin). lia.
Qed.
Lemma nonce_seq_nodup k : forall x, x + N.of_nat k < two64 -> NoDup (nonce_seq x k).
Proof.
  induction k as [|k IH]; intros x Hx; cbn [nonce_seq]; [constructor|].
  rewrite wadd_small by lia. constructor; [|apply IH; lia].
  intros Hin. pose proof (nonce_seq_range k (x + 1) (x + 1) ltac:(lia) Hin). lia.
Qed.

(* the transactions whose signing key has address [a] *)
Definition sig_at (a : N) (t : tx) : bool := addr_of_key (tx_signer t) =? a.
Definition signed_by (k : N) (t : tx) : bool := tx_signer t =? k.

Lemma sig_at_key k t : sig_at (addr_of_key k) t = signed_by k t.
Proof.
  unfold sig_at, signed_by, addr_of_key.
  destruct (N.eqb_spec (tx_signer t) k) as [->|Hne]; [apply N.eqb_refl|]. apply N.eqb_neq. lia.
Qed.

(* [ntrace l txs l']: from l to l' every address's nonce advanced once per transaction of [txs] signed with its key, and
   those transactions carry, in order, the successive values *)
Definition ntrace (l : ledger) (txs : list tx) (l' : ledger) : Prop :=
  forall a, let mine := filter (sig_at a) txs in
    map tx_nonce mine = nonce_seq (nonce_at l a) (length mine) /\
    nonce_at l' a = nonce_after (nonce_at l a) (length mine).

Lemma ntrace_nil l l' : (forall a, nonce_at l' a = nonce_at l a) -> ntrace l [] l'.
Proof. intros H a. cbn. split; [reflexivity|apply H]. Qed.

Lemma ntrace_app l t1 l1 t2 l2 : ntrace l t1 l1 -> ntrace l1 t2 l2 -> ntrace l (t1 ++ t2) l2.
Proof.
  intros H1 H2 a. cbn zeta. destruct (H1 a) as [A1 B1]. destruct (H2 a) as [A2 B2]. cbn zeta in *.
  rewrite filter_app, map_app, app_length, A1, A2, B2, B1. split; [symmetry; apply nonce_seq_app|symmetry; apply nonce_after_app].
Qed.

Lemma ntrace_post l txs l1 l2 : ntrace l txs l1 -> (forall a, nonce_at l2 a = nonce_at l1 a) -> ntrace l txs l2.
Proof. intros H1 H a. cbn zeta. destruct (H1 a) as [A1 B1]. split; [exact A1|]. rewrite H. exact B1. Qed.

(* ---- consequences, by signing key ---- *)
Lemma ntrace_by_key l txs l' : ntrace l txs l' ->
  forall k, let mine := filter (signed_by k) txs in
            let x := nonce_at l (addr_of_key k) in
    map tx_nonce mine = nonce_seq x (length mine) /\ nonce_at l' (addr_of_key k) = nonce_after x (length mine).
Proof.
  intros H k. cbn zeta. pose proof (H (addr_of_key k)) as Ht. cbn zeta in Ht.
  rewrite (filter_ext _ _ (sig_at_key k)) in Ht. exact Ht.
Qed.

Lemma ntrace_exact l txs l' : ntrace l txs l' ->
  forall k, let mine := filter (signed_by k) txs in
            let x := nonce_at l (addr_of_key k) in
    x + N.of_nat (length mine) < two64 ->
    map tx_nonce mine = map (fun i => x + N.of_nat i) (seq 1 (length mine)) /\
    nonce_at l' (addr_of_key k) = x + N.of_nat (length mine) /\
    NoDup (map tx_nonce mine).
Proof.
  intros H k. cbn zeta. intros Hs. destruct (ntrace_by_key l txs l' H k) as [A B]. cbn zeta in A, B.
  split; [rewrite A; apply nonce_seq_small; exact Hs|]. split; [rewrite B; apply nonce_after_small; exact Hs|].
  rewrite A. apply nonce_seq_nodup. exact Hs.
Qed.

Definition tx_key (t : tx) : N * N := (tx_signer t, tx_nonce t).

Lemma nodup_by_signer txs :
  (forall k, NoDup (map tx_nonce (filter (signed_by k) txs))) -> NoDup (map tx_key txs).
Proof.
  induction txs as [|t txs IH]; intros H; cbn [map]; [constructor|]. constructor.
  - intros Hin. apply in_map_iff in Hin. destruct Hin as (t' & Hk & Hin'). unfold tx_key in Hk. injection Hk as Hs Hn.
    specialize (H (tx_signer t)). cbn [filter] in H. unfold signed_by at 1 in H. rewrite N.eqb_refl in H. cbn [map] in H.
    inversion H as [|? ? Hni _]; subst. apply Hni. rewrite <- Hn. apply in_map. apply filter_In. split; [exact Hin'|].
    unfold signed_by. apply N.eqb_eq. exact Hs.
  - apply IH. intros k. specialize (H k). cbn [filter] in H. destruct (signed_by k t); [|exact H].
    cbn [map] in H. inversion H; assumption.
Qed.

Lemma ntrace_at_most_once l txs l' : ntrace l txs l' ->
  (forall k, nonce_at l (addr_of_key k) + N.of_nat (length (filter (signed_by k) txs)) < two64) ->
  NoDup (map tx_key txs).
Proof.
  intros H Hs. apply nodup_by_signer. intros k.
  destruct (ntrace_exact l txs l' H k (Hs k)) as (_ & _ & Hnd). exact Hnd.
Qed.

Lemma nodup_keys_positions txs : NoDup (map tx_key txs) ->
  forall i j t t', nth_error txs i = Some t -> nth_error txs j = Some t' ->
    tx_signer t = tx_signer t' -> tx_nonce t = tx_nonce t' -> i = j.
Proof.
  intros Hnd i j t t' Hi Hj Es En. rewrite NoDup_nth_error in Hnd. apply Hnd.
  - rewrite map_length. apply nth_error_Some. rewrite Hi. discriminate.
  - rewrite !nth_error_map, Hi, Hj. cbn [option_map]. unfold tx_key. rewrite Es, En. reflexivity.
Qed.

Section NonceOnce.
Variable cfg : config.
Variable genesis_addr : N.

(* ---- what keeps the nonces ---- *)
Lemma nonce_apply_outputs outs : forall l bh txid a, nonce_at (fst (apply_outputs l bh outs txid)) a = nonce_at l a.
Proof.
  induction outs as [|o outs IH]; intros l bh txid a; cbn [apply_outputs fst]; [reflexivity|].
  set (st := match get_state l (o_rcpt o) with Some s => s | None => acct0 end).
  assert (Hst : st = acct_at l (o_rcpt o)) by reflexivity.
  destruct (safe_add (bal st) (o_amt o)) as [b|]; [|reflexivity].
  set (l2 := put_state (set_intx l (pset (intx l) (o_rcpt o, wadd (inc st) 1) txid)) (o_rcpt o)
                       (mkacct b (nonce st) (wadd (inc st) 1) (deleg st))).
  assert (H2 : nonce_at l2 a = nonce_at l a).
  { unfold nonce_at, l2. rewrite acct_at_put. destruct (N.eqb_spec a (o_rcpt o)) as [->|_]; [|reflexivity].
    cbn [nonce]. rewrite Hst. reflexivity. }
  destruct (o_type o =? OUT_COINBASE_POS).
  - destruct (apply_pos_reward l2 bh o) as [l3|c|c] eqn:E; cbn [fst]; [|exact H2|exact H2].
    rewrite IH. unfold nonce_at. rewrite (acct_at_ext l2 l3 a (accts_apply_pos_reward _ _ _ _ E)). exact H2.
  - rewrite IH. exact H2.
Qed.

Lemma nonce_apply_inputs ins : forall l l' a, apply_inputs l ins = Ok l' -> nonce_at l' a = nonce_at l a.
Proof.
  induction ins as [|[amt sender] ins IH]; intros l l' a H; cbn [apply_inputs] in H; [injection H as <-; reflexivity|].
  opt_inv H. guard_inv H. rewrite (IH _ _ a H). unfold nonce_at. rewrite acct_at_put.
  destruct (N.eqb_spec a sender) as [->|_]; [|reflexivity]. cbn [nonce]. unfold acct_at. rewrite E. reflexivity.
Qed.

(* ---- one transaction: accepted with the next nonce only, and the nonce advances by one ---- *)
Lemma apply_tx_nonce l t h bh top_h l' :
  apply_tx cfg l t h bh top_h = Ok l' ->
  let s := addr_of_key (tx_signer t) in
  tx_nonce t = wadd (nonce_at l s) 1 /\
  forall a, nonce_at l' a = if a =? s then wadd (nonce_at l s) 1 else nonce_at l a.
Proof.
  intros H. cbn zeta. unfold apply_tx in H.
  opt_inv H. guard_inv H. bind_inv H.
  match goal with p : (ledger * acct)%type |- _ => destruct p as [l1 st1] end.
  bind_inv H. bind_inv H. injection H as <-.
  assert (Hk : accts l1 = accts l /\ nonce st1 = nonce x).
  { clear - E0. destruct (tx_data t) as [os|nl name id|nw pv|a id pu|a id].
    - injection E0 as <- <-. split; reflexivity.
    - destruct (tx_version t =? 2); [|injection E0 as <- <-; split; reflexivity].
      guard_inv E0. injection E0 as <- <-. split; reflexivity.
    - destruct (tx_version t =? 3); [|injection E0 as <- <-; split; reflexivity].
      guard_inv E0. guard_inv E0. guard_inv E0. injection E0 as <- <-. split; reflexivity.
    - destruct (tx_version t =? 4); [|injection E0 as <- <-; split; reflexivity].
      guard_inv E0. guard_inv E0. bind_inv E0. injection E0 as <- <-.
      split; [eapply accts_apply_stake; eassumption|reflexivity].
    - destruct (tx_version t =? 5); [|injection E0 as <- <-; split; reflexivity].
      guard_inv E0. guard_inv E0. bind_inv E0. injection E0 as <- <-.
      split; [eapply accts_apply_unstake; eassumption|reflexivity]. }
  destruct Hk as [Ha1 Hn1].
  assert (Hx : nonce_at l (addr_of_key (tx_signer t)) = nonce x).
  { unfold nonce_at, acct_at. rewrite E. reflexivity. }
  apply N.eqb_eq in G. split; [rewrite Hx; exact G|].
  intros ad.
  match goal with |- context [apply_outputs ?l3 bh ?o (tx_id t)] =>
    transitivity (nonce_at (fst (apply_outputs l3 bh o (tx_id t))) ad); [reflexivity|] end.
  rewrite nonce_apply_outputs.
  match goal with Ei : apply_inputs _ _ = Ok _ |- _ => rewrite (nonce_apply_inputs _ _ _ ad Ei) end.
  unfold nonce_at at 1. rewrite acct_at_put.
  destruct (N.eqb_spec ad (addr_of_key (tx_signer t))) as [->|_].
  - cbn [nonce]. rewrite Hn1, Hx. reflexivity.
  - unfold nonce_at. rewrite (acct_at_ext l l1 ad Ha1). reflexivity.
Qed.

Lemma apply_tx_ntrace l t h bh top_h l' : apply_tx cfg l t h bh top_h = Ok l' -> ntrace l [t] l'.
Proof.
  intros H a. destruct (apply_tx_nonce _ _ _ _ _ _ H) as [Hn Hall]. cbn zeta in *. rewrite (Hall a).
  cbn [filter]. unfold sig_at. rewrite (N.eqb_sym a).
  destruct (N.eqb_spec (addr_of_key (tx_signer t)) a) as [<-|_]; cbn [map length nonce_seq nonce_after].
  - rewrite Hn. split; reflexivity.
  - split; reflexivity.
Qed.

Lemma apply_txs_ntrace txs : forall l h bh top_h fee l' fee',
  apply_txs cfg l txs h bh top_h fee = Ok (l', fee') -> ntrace l txs l'.
Proof.
  induction txs as [|t txs IH]; intros l h bh top_h fee l' fee' H; cbn [apply_txs] in H.
  - injection H as <- _. apply ntrace_nil. reflexivity.
  - bind_inv H. guard_inv H. change (t :: txs) with ([t] ++ txs).
    eapply ntrace_app; [eapply apply_tx_ntrace; eassumption|eapply IH; eassumption].
Qed.

Lemma apply_block_ntrace l b top_h l' : apply_block cfg genesis_addr l b top_h = Ok l' -> ntrace l (lb_txs b) l'.
Proof.
  unfold apply_block. intros H. bind_inv H.
  bind_inv H. match goal with p : (ledger * N)%type |- _ => destruct p as [l1 fee] end.
  guard_inv H. bind_inv H.
  match goal with Ht : apply_txs _ _ _ _ _ _ _ = Ok _ |- _ => pose proof (apply_txs_ntrace _ _ _ _ _ _ _ _ Ht) as Htr end.
  match type of H with context [apply_outputs l1 ?bh ?o ?id] =>
    pose proof (nonce_apply_outputs o l1 bh id) as Hno; destruct (apply_outputs l1 bh o id) as [l2 e] end.
  cbn [fst] in Hno. apply (ntrace_post _ _ l1); [exact Htr|].
  destruct e as [[u|c|c]|]; try discriminate H. injection H as <-. exact Hno.
Qed.

Definition chain_txs (bs : list lblock) : list tx := flat_map lb_txs bs.

Theorem apply_chain_ntrace bs : forall l l', apply_chain cfg genesis_addr l bs = Ok l' -> ntrace l (chain_txs bs) l'.
Proof.
  induction bs as [|b bs IH]; intros l l' H; cbn [apply_chain] in H.
  - injection H as <-. apply ntrace_nil. reflexivity.
  - bind_inv H. unfold chain_txs. cbn [flat_map].
    eapply ntrace_app; [eapply apply_block_ntrace; eassumption|apply IH; exact H].
Qed.

(* ---- by signing key ---- *)
Theorem chain_nonces_consecutive bs l l' :
  apply_chain cfg genesis_addr l bs = Ok l' ->
  forall k, let mine := filter (signed_by k) (chain_txs bs) in
            let x := nonce_at l (addr_of_key k) in
    map tx_nonce mine = nonce_seq x (length mine) /\ nonce_at l' (addr_of_key k) = nonce_after x (length mine).
Proof. intros H. exact (ntrace_by_key _ _ _ (apply_chain_ntrace bs l l' H)). Qed.

(* every address: the nonce moves only with transactions signed by its key *)
Theorem chain_nonce_by_address bs l l' :
  apply_chain cfg genesis_addr l bs = Ok l' ->
  forall a, nonce_at l' a = nonce_after (nonce_at l a) (length (filter (sig_at a) (chain_txs bs))).
Proof. intros H a. exact (proj2 (apply_chain_ntrace bs l l' H a)). Qed.

Theorem chain_nonces_exact bs l l' :
  apply_chain cfg genesis_addr l bs = Ok l' ->
  forall k, let mine := filter (signed_by k) (chain_txs bs) in
            let x := nonce_at l (addr_of_key k) in
    x + N.of_nat (length mine) < two64 ->
    map tx_nonce mine = map (fun i => x + N.of_nat i) (seq 1 (length mine)) /\
    nonce_at l' (addr_of_key k) = x + N.of_nat (length mine) /\
    NoDup (map tx_nonce mine).
Proof. intros H. exact (ntrace_exact _ _ _ (apply_chain_ntrace bs l l' H)). Qed.

(* no two occurrences share (signer, nonce) *)
Theorem chain_at_most_once bs l l' :
  apply_chain cfg genesis_addr l bs = Ok l' ->
  (forall k, nonce_at l (addr_of_key k) + N.of_nat (length (filter (signed_by k) (chain_txs bs))) < two64) ->
  NoDup (map tx_key (chain_txs bs)).
Proof. intros H. exact (ntrace_at_most_once _ _ _ (apply_chain_ntrace bs l l' H)). Qed.

(* the two occurrences, spelled out *)
Corollary chain_no_replay bs l l' :
  apply_chain cfg genesis_addr l bs = Ok l' ->
  (forall k, nonce_at l (addr_of_key k) + N.of_nat (length (filter (signed_by k) (chain_txs bs))) < two64) ->
  forall i j t t', nth_error (chain_txs bs) i = Some t -> nth_error (chain_txs bs) j = Some t' ->
    tx_signer t = tx_signer t' -> tx_nonce t = tx_nonce t' -> i = j.
Proof. intros H Hs. exact (nodup_keys_positions _ (chain_at_most_once bs l l' H Hs)). Qed.

End NonceOnce.
